(* ParserMinCorrect.v — C15: every rendering of a well-formed AST whose parentheses pass the
   check okp (ParserMin.v) parses back to that AST; the minimal rendering (parentheses only where
   the precedence table needs them) and every rendering with additional parentheses pass the check. *)
From Coq Require Import List Bool Arith Lia.
From RV Require Import Lexer PrecTable Parser Elab Offline ParserCorrect ParserRoundtrip ParserMin.
Import ListNotations.

(* ---- the table, per operator ---- *)
Lemma binop_tok o : binop_of (tok_bin o) = Some (o, blvl o, brlvl o, bin_ivok o).
Proof. destruct o; try destruct c; reflexivity. Qed.
Lemma unop_tok o : unop_of (tok_un o) = Some (o, ulvl o, un_ivok o).
Proof. destruct o; reflexivity. Qed.
(* the only fact about the numbers of the generated table that the minimal rendering relies on:
   every binary operator is left-associative (its right operand is read one level higher) *)
Lemma table_left o : brlvl o = S (blvl o).
Proof. destruct o; try destruct c; reflexivity. Qed.

(* ---- unfolding lemmas ---- *)
Lemma rp_wrap par e : rp par e = wrap (par []) (body par e).
Proof. destruct e; reflexivity. Qed.
Lemma sw_swb par e f : sw par e f = match par [] with S _ => false | 0 => swb par e f end.
Proof. destruct e; reflexivity. Qed.
Lemma okp_okb par e q : okp par e q = okb par e (match par [] with 0 => q | S _ => 0 end).
Proof. destruct e; reflexivity. Qed.
Lemma np_nb par e : np par e = par [] + nb par e.
Proof. destruct e; reflexivity. Qed.
Lemma nb_pos par e : 1 <= nb par e.
Proof. destruct e; simpl; lia. Qed.
Lemma np_pos par e : 1 <= np par e.
Proof. rewrite np_nb. pose proof (nb_pos par e). lia. Qed.

Lemma wrap_S k ts : wrap (S k) ts = TSym SLParen :: wrap k ts ++ [TSym SRParen].
Proof. reflexivity. Qed.
Lemma wrap_length k ts : length (wrap k ts) = 2 * k + length ts.
Proof. induction k as [|k IH]; [simpl; lia|]. rewrite wrap_S. simpl. rewrite app_length, IH. simpl. lia. Qed.

(* the first token of a rendering is never '[' (so an absent interval is seen as absent), and a rendering is not empty *)
Definition head_ok (ts : list token) : Prop := match ts with TSym SLBrack :: _ => False | [] => False | _ => True end.
Lemma head_ok_app ts rest : head_ok ts -> match ts ++ rest with TSym SLBrack :: _ => False | _ => True end.
Proof. destruct ts as [|t r]; simpl; [contradiction|]. destruct t; auto. Qed.
Lemma head_ok_app_l ts rest : head_ok ts -> head_ok (ts ++ rest).
Proof. destruct ts as [|t r]; simpl; [contradiction|]. auto. Qed.
Lemma wrap_head k ts : head_ok ts -> head_ok (wrap k ts).
Proof. destruct k; [auto|]. intros _. rewrite wrap_S. exact I. Qed.
Lemma rp_head par e : head_ok (rp par e).
Proof.
  revert par. induction e; intros par; rewrite rp_wrap; apply wrap_head; cbn [body]; try exact I.
  - destruct o; exact I.
  - destruct f; exact I.
  - destruct f; exact I.
  - apply head_ok_app_l. apply IHe1.
Qed.
Lemma rp_length_pos par e : 1 <= length (rp par e).
Proof. pose proof (rp_head par e) as H. destruct (rp par e); [contradiction|simpl; lia]. Qed.

(* ---- the parser on the tokens of the renderings ---- *)
Lemma primary_un pe o r :
  parse_primary true pe (tok_un o :: r) =
  match opt_interval true (un_ivok o) r with
  | Some (iv, r1) => match pe (ulvl o) r1 with Some (e, r2) => Some (EUn o iv e, r2) | None => None end
  | None => None
  end.
Proof. destruct o; reflexivity. Qed.
Lemma primary_f1 pe f r :
  parse_primary true pe (tok_f1 f :: TSym SLParen :: r) =
  match pe 0 r with Some (e, TSym SRParen :: r2) => Some (EFun1 f e, r2) | _ => None end.
Proof. destruct f; reflexivity. Qed.
Lemma primary_f2 pe f r :
  parse_primary true pe (tok_f2 f :: TSym SLParen :: r) =
  match pe 0 r with
  | Some (e1, TSym SComma :: r2) => match pe 0 r2 with Some (e2, TSym SRParen :: r3) => Some (EFun2 f e1 e2, r3) | _ => None end
  | _ => None
  end.
Proof. destruct f; reflexivity. Qed.

(* the parser never returns more tokens than it was given *)
Lemma parse_expr_shorter fuel lvl ts e r : parse_expr true fuel lvl ts = Some (e, r) -> length r <= length ts.
Proof. intros H. destruct (parse_expr_sound true fuel lvl ts e r H) as (u & -> & _). rewrite app_length. lia. Qed.
Lemma opt_interval_shorter ok ts iv r : opt_interval true ok ts = Some (iv, r) -> length r <= length ts.
Proof. intros H. destruct (opt_interval_sound true ok ts iv r H) as (u & -> & _). rewrite app_length. lia. Qed.

(* the iteration bound of the operator loop is irrelevant once it exceeds the number of tokens *)
Lemma loop_g_irr pe p : (forall lvl ts e r, pe lvl ts = Some (e, r) -> length r <= length ts) ->
  forall g1 g2 lft ts, length ts < g1 -> length ts < g2 ->
  parse_loop true pe p g1 lft ts = parse_loop true pe p g2 lft ts.
Proof.
  intros Hpe. induction g1 as [|g1 IH]; intros g2 lft ts H1 H2; [lia|].
  destruct g2 as [|g2]; [lia|]. cbn [parse_loop].
  destruct ts as [|t r]; [reflexivity|]. simpl in H1, H2.
  destruct (binop_of t) as [[[[o lvl] rlvl] ivok]|]; [|reflexivity].
  destruct (p <=? lvl); [|reflexivity].
  destruct (opt_interval true ivok r) as [[iv r1]|] eqn:EI; [|reflexivity].
  destruct (pe rlvl r1) as [[rgt r2]|] eqn:E; [|reflexivity].
  pose proof (opt_interval_shorter _ _ _ _ EI) as L1. pose proof (Hpe _ _ _ _ E) as L2.
  apply IH; lia.
Qed.

(* what follows a sub-expression: the loop at level p stops there / it is not consumed inside e *)
Definition stops (p : nat) (rest : list token) : Prop :=
  match rest with [] => True | t :: _ => match binop_of t with Some (_, l, _, _) => l < p | None => True end end.
Definition nsw (par : deco) (e : sexpr) (rest : list token) : Prop :=
  match rest with [] => True | t :: _ => match binop_of t with Some (_, l, _, _) => sw par e l = false | None => True end end.
Definition nswb (par : deco) (e : sexpr) (rest : list token) : Prop :=
  match rest with [] => True | t :: _ => match binop_of t with Some (_, l, _, _) => swb par e l = false | None => True end end.

Lemma loop_stops pe p g lft rest : stops p rest -> parse_loop true pe p (S g) lft rest = Some (lft, rest).
Proof.
  intros H. cbn [parse_loop]. destruct rest as [|t r]; [reflexivity|]. simpl in H.
  destruct (binop_of t) as [[[[o l] rl] ivok]|]; [|reflexivity].
  destruct (p <=? l) eqn:E; [apply Nat.leb_le in E; lia|reflexivity].
Qed.
Lemma loop_step pe p g lft t r o lvl rlvl ivok : binop_of t = Some (o, lvl, rlvl, ivok) ->
  parse_loop true pe p (S g) lft (t :: r) =
  if p <=? lvl then
    match opt_interval true ivok r with
    | Some (iv, r1) => match pe rlvl r1 with Some (rgt, r2) => parse_loop true pe p g (EBin o iv lft rgt) r2 | None => None end
    | None => None
    end
  else Some (lft, t :: r).
Proof. intros H. cbn [parse_loop]. rewrite H. reflexivity. Qed.
Lemma stopper_stops p rest : stopper rest -> stops p rest.
Proof. destruct rest as [|t r]; simpl; [auto|]. intros ->. exact I. Qed.
Lemma stopper_nsw par e rest : stopper rest -> nsw par e rest.
Proof. destruct rest as [|t r]; simpl; [auto|]. intros ->. exact I. Qed.

Ltac napp := repeat first [rewrite <- app_assoc | progress cbn [app]].

(* the generalised statement: reading the text of e followed by rest at level q is the same as being in the
   operator loop of level q with e as the left operand and rest as the remaining input *)
Definition Mstmt (e : sexpr) : Prop := forall par q fuel rest,
  okp par e q = true -> nsw par e rest -> np par e <= S fuel ->
  parse_expr true (S fuel) q (rp par e ++ rest) = parse_loop true (parse_expr true fuel) q (S (length rest)) e rest.

(* k >= 1 pairs of parentheses around a text that parses to e *)
Lemma wrap_parse e bd n0 :
  (forall fuel rest, n0 <= fuel -> parse_expr true fuel 0 (bd ++ TSym SRParen :: rest) = Some (e, TSym SRParen :: rest)) ->
  forall k fuel q rest, k + n0 <= fuel ->
  parse_expr true (S fuel) q (wrap (S k) bd ++ rest) = parse_loop true (parse_expr true fuel) q (S (length rest)) e rest.
Proof.
  intros Hb. induction k as [|k IH]; intros fuel q rest Hf.
  - rewrite parse_expr_S. cbn [wrap]. napp. cbn [parse_primary]. rewrite Hb by lia. reflexivity.
  - rewrite parse_expr_S. rewrite wrap_S. napp. cbn [parse_primary].
    destruct fuel as [|fuel]; [lia|].
    rewrite (IH fuel 0 (TSym SRParen :: rest)) by lia.
    rewrite loop_stops by exact I. reflexivity.
Qed.

(* from the unparenthesised node to the node with its parentheses *)
Lemma finish e :
  (forall par q fuel rest, okb par e q = true -> nswb par e rest -> nb par e <= S fuel ->
     parse_expr true (S fuel) q (body par e ++ rest) = parse_loop true (parse_expr true fuel) q (S (length rest)) e rest) ->
  Mstmt e.
Proof.
  intros Hb par q fuel rest Hok Hn Hf. rewrite rp_wrap. rewrite okp_okb in Hok. rewrite np_nb in Hf.
  destruct (par []) as [|k] eqn:Ek.
  - cbn [wrap]. apply Hb; [exact Hok| |lia].
    unfold nsw in Hn. unfold nswb. destruct rest as [|t r]; [exact I|].
    destruct (binop_of t) as [[[[o l] rl] ivok]|]; [|exact I]. rewrite sw_swb, Ek in Hn. exact Hn.
  - apply wrap_parse with (n0 := nb par e); [|lia].
    intros fuel' rest' Hf'. pose proof (nb_pos par e) as Hp. destruct fuel' as [|fuel']; [lia|].
    rewrite Hb; [apply loop_stops; exact I|exact Hok|exact I|exact Hf'].
Qed.

Lemma nswb_un par o iv a rest : nswb par (EUn o iv a) rest -> stops (ulvl o) rest /\ nsw (sub 0 par) a rest.
Proof.
  unfold nswb, stops, nsw. destruct rest as [|t r]; [auto|].
  destruct (binop_of t) as [[[[o' l] rl] ivok]|]; [|auto]. cbn [swb].
  intros H. apply orb_false_elim in H as [H1 H2]. apply Nat.leb_gt in H1. auto.
Qed.
Lemma nswb_bin par o iv a b rest : nswb par (EBin o iv a b) rest -> stops (brlvl o) rest /\ nsw (sub 1 par) b rest.
Proof.
  unfold nswb, stops, nsw. destruct rest as [|t r]; [auto|].
  destruct (binop_of t) as [[[[o' l] rl] ivok]|]; [|auto]. cbn [swb].
  intros H. apply orb_false_elim in H as [H1 H2]. apply Nat.leb_gt in H1. auto.
Qed.

Theorem M e : wf e = true -> Mstmt e.
Proof.
  induction e; intros Hw; apply finish; intros par q fuel rest Hok Hn Hf; cbn [body okb nb wf] in *.
  - reflexivity.
  - reflexivity.
  - (* prefix operator *)
    apply andb_prop in Hw as [Hiv Hw]. destruct (nswb_un _ _ _ _ _ Hn) as [Hst Hna].
    pose proof (np_pos (sub 0 par) e) as Hp. destruct fuel as [|fuel]; [lia|].
    rewrite parse_expr_S. napp. rewrite primary_un.
    rewrite opt_interval_ivtoks by (try exact Hiv; apply head_ok_app, rp_head).
    rewrite (IHe Hw (sub 0 par) (ulvl o) fuel rest Hok Hna) by lia.
    rewrite loop_stops by exact Hst. reflexivity.
  - (* function of one argument *)
    pose proof (np_pos (sub 0 par) e) as Hp. destruct fuel as [|fuel]; [lia|].
    rewrite parse_expr_S. napp. rewrite primary_f1.
    rewrite (IHe Hw (sub 0 par) 0 fuel (TSym SRParen :: rest) Hok I) by lia.
    rewrite loop_stops by exact I. reflexivity.
  - (* function of two arguments *)
    apply andb_prop in Hw as [Hw1 Hw2]. apply andb_prop in Hok as [Hok1 Hok2].
    pose proof (np_pos (sub 0 par) e1) as Hp. destruct fuel as [|fuel]; [lia|].
    rewrite parse_expr_S. napp. rewrite primary_f2.
    rewrite (IHe1 Hw1 (sub 0 par) 0 fuel (TSym SComma :: rp (sub 1 par) e2 ++ TSym SRParen :: rest) Hok1 I) by lia.
    rewrite loop_stops by exact I.
    rewrite (IHe2 Hw2 (sub 1 par) 0 fuel (TSym SRParen :: rest) Hok2 I) by lia.
    rewrite loop_stops by exact I. reflexivity.
  - (* binary operator *)
    apply andb_prop in Hw as [Hw Hw2]. apply andb_prop in Hw as [Hiv Hw1].
    apply andb_prop in Hok as [Hok Hok2]. apply andb_prop in Hok as [Hok Hsw]. apply andb_prop in Hok as [Hq Hok1].
    apply negb_true_iff in Hsw.
    destruct (nswb_bin _ _ _ _ _ _ Hn) as [Hst Hnb].
    pose proof (np_pos (sub 1 par) e2) as Hp. destruct fuel as [|fuel]; [lia|].
    napp.
    rewrite (IHe1 Hw1 (sub 0 par) q (S fuel) (tok_bin o :: ivtoks iv ++ rp (sub 1 par) e2 ++ rest) Hok1).
    + rewrite (loop_step _ _ _ _ _ _ _ _ _ _ (binop_tok o)), Hq.
      rewrite opt_interval_ivtoks by (try exact Hiv; apply head_ok_app, rp_head).
      rewrite (IHe2 Hw2 (sub 1 par) (brlvl o) fuel rest Hok2 Hnb) by lia.
      rewrite loop_stops by exact Hst.
      apply loop_g_irr; [intros lvl ts e r; apply parse_expr_shorter| |lia].
      cbn [length]. rewrite !app_length. lia.
    + unfold nsw. rewrite binop_tok. exact Hsw.
    + lia.
Qed.

(* C15, general form: a rendering whose parentheses pass the check parses back to the AST *)
Theorem roundtrip_ok e par : wf e = true -> okp par e 0 = true ->
  forall fuel rest, np par e <= fuel -> stopper rest -> parse_expr true fuel 0 (rp par e ++ rest) = Some (e, rest).
Proof.
  intros Hw Hok fuel rest Hf Hs. pose proof (np_pos par e) as Hp. destruct fuel as [|fuel]; [lia|].
  rewrite (M e Hw par 0 fuel rest Hok (stopper_nsw _ _ _ Hs) Hf).
  apply loop_stops, stopper_stops, Hs.
Qed.

(* ---- the needed parentheses (plus any others) pass the check ---- *)
Definition fw_ok (q : nat) (fo : option nat) : Prop := match fo with Some f => f <= q | None => True end.

Lemma sub_pgen_un ex o iv a q fo :
  sub 0 (pgen ex (EUn o iv a) q fo) = pgen (sub 0 ex) a (ulvl o) (follow_in (pcount (ex []) (needs_paren (EUn o iv a) q fo)) fo).
Proof. reflexivity. Qed.
Lemma sub_pgen_f1 ex f a q fo : sub 0 (pgen ex (EFun1 f a) q fo) = pgen (sub 0 ex) a 0 None.
Proof. reflexivity. Qed.
Lemma sub_pgen_f2a ex f a b q fo : sub 0 (pgen ex (EFun2 f a b) q fo) = pgen (sub 0 ex) a 0 None.
Proof. reflexivity. Qed.
Lemma sub_pgen_f2b ex f a b q fo : sub 1 (pgen ex (EFun2 f a b) q fo) = pgen (sub 1 ex) b 0 None.
Proof. reflexivity. Qed.
Lemma sub_pgen_bina ex o iv a b q fo : sub 0 (pgen ex (EBin o iv a b) q fo) = pgen (sub 0 ex) a (blvl o) (Some (blvl o)).
Proof. reflexivity. Qed.
Lemma sub_pgen_binb ex o iv a b q fo :
  sub 1 (pgen ex (EBin o iv a b) q fo) = pgen (sub 1 ex) b (brlvl o) (follow_in (pcount (ex []) (needs_paren (EBin o iv a b) q fo)) fo).
Proof. reflexivity. Qed.
Lemma pgen_root ex e q fo : pgen ex e q fo [] = pcount (ex []) (needs_paren e q fo).
Proof. destruct e; reflexivity. Qed.

Lemma okp_mono e : forall par q q2, okp par e q = true -> q2 <= q -> okp par e q2 = true.
Proof.
  induction e; intros par q q2 H Hq; cbn [okp] in *; auto.
  destruct (par []) as [|k]; [|exact H].
  apply andb_prop in H as [H H2]. apply andb_prop in H as [H Hsw]. apply andb_prop in H as [Hl H1].
  apply Nat.leb_le in Hl.
  rewrite (IHe1 _ _ _ H1 Hq), Hsw, H2. replace (q2 <=? blvl o) with true by (symmetry; apply Nat.leb_le; lia). reflexivity.
Qed.

Lemma pgen_ok e : forall ex q fo, fw_ok q fo ->
  okp (pgen ex e q fo) e q = true /\ (forall f, fo = Some f -> sw (pgen ex e q fo) e f = false).
Proof.
  induction e; intros ex q fo Hfw.
  - split; [reflexivity|]. intros f _. cbn [sw]. destruct (pgen ex (EId s) q fo []); reflexivity.
  - split; [reflexivity|]. intros f _. cbn [sw]. destruct (pgen ex (ELit s) q fo []); reflexivity.
  - (* prefix *)
    cbn [okp sw]. rewrite sub_pgen_un, pgen_root.
    set (k := pcount (ex []) (needs_paren (EUn o iv e) q fo)).
    assert (Hfw' : fw_ok (ulvl o) (follow_in k fo)).
    { destruct k as [|k'] eqn:Ek; [|exact I]. cbn [follow_in]. destruct fo as [f|]; [|exact I]. cbn [fw_ok].
      unfold k, pcount in Ek. destruct (ex []); [|discriminate]. cbn [needs_paren swallowed] in Ek.
      destruct (ulvl o <=? f) eqn:El; [discriminate|]. apply Nat.leb_gt in El. lia. }
    destruct (IHe (sub 0 ex) (ulvl o) (follow_in k fo) Hfw') as [Ha Hs]. split; [exact Ha|].
    intros f ->. destruct k as [|k'] eqn:Ek; [|reflexivity]. cbn [follow_in] in Hs |- *. rewrite (Hs f eq_refl), orb_false_r.
    unfold k, pcount in Ek. destruct (ex []); [|discriminate]. cbn [needs_paren swallowed] in Ek.
    destruct (ulvl o <=? f); [discriminate|reflexivity].
  - cbn [okp sw]. rewrite sub_pgen_f1. split; [apply IHe; exact I|]. intros f0 _. destruct (pgen ex (EFun1 f e) q fo []); reflexivity.
  - cbn [okp sw]. rewrite sub_pgen_f2a, sub_pgen_f2b. split.
    + rewrite (proj1 (IHe1 (sub 0 ex) 0 None I)), (proj1 (IHe2 (sub 1 ex) 0 None I)). reflexivity.
    + intros f0 _. destruct (pgen ex (EFun2 f e1 e2) q fo []); reflexivity.
  - (* binary *)
    cbn [okp sw]. rewrite sub_pgen_bina, sub_pgen_binb, pgen_root.
    set (k := pcount (ex []) (needs_paren (EBin o iv e1 e2) q fo)).
    pose proof (table_left o) as HT.
    destruct (IHe1 (sub 0 ex) (blvl o) (Some (blvl o)) (le_n _)) as [Ha Hsa].
    assert (Hq : forall q', q' = match k with 0 => q | S _ => 0 end -> q' <= blvl o).
    { intros q' ->. destruct k as [|k'] eqn:Ek; [|lia]. unfold k, pcount in Ek. destruct (ex []); [|discriminate].
      cbn [needs_paren] in Ek. destruct (blvl o <? q) eqn:El; [discriminate|]. apply Nat.ltb_ge in El. exact El. }
    assert (Hfw' : fw_ok (brlvl o) (follow_in k fo)).
    { destruct k as [|k'] eqn:Ek; [|exact I]. cbn [follow_in]. destruct fo as [f|]; [|exact I]. cbn [fw_ok] in *.
      pose proof (Hq _ eq_refl). lia. }
    destruct (IHe2 (sub 1 ex) (brlvl o) (follow_in k fo) Hfw') as [Hb Hsb]. split.
    + pose proof (Hq _ eq_refl) as Hq'.
      rewrite (okp_mono _ _ _ _ Ha Hq'), (Hsa _ eq_refl), Hb.
      replace (match k with 0 => q | S _ => 0 end <=? blvl o) with true by (symmetry; apply Nat.leb_le; exact Hq'). reflexivity.
    + intros f ->. destruct k as [|k'] eqn:Ek; [|reflexivity]. cbn [follow_in] in Hsb |- *. rewrite (Hsb f eq_refl), orb_false_r.
      cbn [fw_ok] in Hfw. pose proof (Hq _ eq_refl). apply Nat.leb_gt. lia.
Qed.

(* rgen is rp of the decoration pgen; rmin is rgen without extra parentheses *)
Lemma rgen_rp e : forall ex q fo, rgen ex e q fo = rp (pgen ex e q fo) e.
Proof.
  induction e; intros ex q fo; cbn [rgen rp]; rewrite ?pgen_root; try reflexivity.
  - rewrite sub_pgen_un, <- IHe. reflexivity.
  - rewrite sub_pgen_f1, <- IHe. reflexivity.
  - rewrite sub_pgen_f2a, sub_pgen_f2b, <- IHe1, <- IHe2. reflexivity.
  - rewrite sub_pgen_bina, sub_pgen_binb, <- IHe1, <- IHe2. reflexivity.
Qed.
Lemma rmin_rgen e : forall q fo, rmin e q fo = rgen noex e q fo.
Proof.
  induction e; intros q fo; cbn [rmin rgen noex pcount]; try reflexivity.
  - change (sub 0 noex) with noex. destruct (needs_paren (EUn o iv e) q fo); cbn [follow_in wrap]; rewrite IHe; reflexivity.
  - change (sub 0 noex) with noex. cbn [needs_paren wrap]. rewrite IHe. reflexivity.
  - change (sub 0 noex) with noex. change (sub 1 noex) with noex. cbn [needs_paren wrap]. rewrite IHe1, IHe2. reflexivity.
  - change (sub 0 noex) with noex. change (sub 1 noex) with noex.
    destruct (needs_paren (EBin o iv e1 e2) q fo); cbn [follow_in wrap]; rewrite IHe1, IHe2; reflexivity.
Qed.

(* fuel *)
Lemma np_pgen e : forall ex q fo, np (pgen ex e q fo) e <= needx ex e.
Proof.
  assert (Hc : forall w b, pcount w b <= w + 1) by (intros w b; unfold pcount; destruct w, b; lia).
  induction e; intros ex q fo; cbn [np needx]; rewrite pgen_root.
  - pose proof (Hc (ex []) (needs_paren (EId s) q fo)). cbn [needs_paren pcount] in *. destruct (ex []); simpl; lia.
  - pose proof (Hc (ex []) (needs_paren (ELit s) q fo)). cbn [needs_paren pcount] in *. destruct (ex []); simpl; lia.
  - rewrite sub_pgen_un. pose proof (Hc (ex []) (needs_paren (EUn o iv e) q fo)).
    pose proof (IHe (sub 0 ex) (ulvl o) (follow_in (pcount (ex []) (needs_paren (EUn o iv e) q fo)) fo)). lia.
  - rewrite sub_pgen_f1. cbn [needs_paren pcount]. pose proof (IHe (sub 0 ex) 0 None). destruct (ex []); simpl; lia.
  - rewrite sub_pgen_f2a, sub_pgen_f2b. cbn [needs_paren pcount].
    pose proof (IHe1 (sub 0 ex) 0 None). pose proof (IHe2 (sub 1 ex) 0 None). destruct (ex []); simpl; lia.
  - rewrite sub_pgen_bina, sub_pgen_binb. pose proof (Hc (ex []) (needs_paren (EBin o iv e1 e2) q fo)).
    pose proof (IHe1 (sub 0 ex) (blvl o) (Some (blvl o))).
    pose proof (IHe2 (sub 1 ex) (brlvl o) (follow_in (pcount (ex []) (needs_paren (EBin o iv e1 e2) q fo)) fo)). lia.
Qed.
Lemma needx_noex e : needx noex e = need e.
Proof.
  induction e; cbn [needx need noex]; try reflexivity; change (sub 0 noex) with noex; change (sub 1 noex) with noex;
  rewrite ?IHe, ?IHe1, ?IHe2; reflexivity.
Qed.

(* C15: the needed parentheses, plus any the user adds, parse back to the AST *)
Theorem roundtrip_gen e ex : wf e = true ->
  forall fuel rest, needx ex e <= fuel -> stopper rest -> parse_expr true fuel 0 (rgen ex e 0 None ++ rest) = Some (e, rest).
Proof.
  intros Hw fuel rest Hf Hs. rewrite rgen_rp.
  apply roundtrip_ok; [exact Hw|apply pgen_ok; exact I| |exact Hs].
  pose proof (np_pgen e ex 0 None). lia.
Qed.

(* C15: the minimal rendering parses back to the AST (same fuel as the fully parenthesised one) *)
Theorem roundtrip_min e : wf e = true ->
  forall fuel rest, need e <= fuel -> stopper rest -> parse_expr true fuel 0 (render_min e ++ rest) = Some (e, rest).
Proof.
  intros Hw fuel rest Hf Hs. unfold render_min. rewrite rmin_rgen.
  apply roundtrip_gen; [exact Hw| |exact Hs]. rewrite needx_noex. exact Hf.
Qed.

(* ---- removing parentheses ---- *)

(* two parenthesisations that pass the check give the same AST; in particular par and par without one pair *)
Corollary unparen_ok e par pi : wf e = true -> okp par e 0 = true -> okp (drop pi par) e 0 = true ->
  forall fuel rest, np par e <= fuel -> np (drop pi par) e <= fuel -> stopper rest ->
  parse_expr true fuel 0 (rp (drop pi par) e ++ rest) = parse_expr true fuel 0 (rp par e ++ rest) /\
  parse_expr true fuel 0 (rp par e ++ rest) = Some (e, rest).
Proof.
  intros Hw H1 H2 fuel rest F1 F2 Hs.
  rewrite (roundtrip_ok e par Hw H1 fuel rest F1 Hs), (roundtrip_ok e (drop pi par) Hw H2 fuel rest F2 Hs). auto.
Qed.

(* any pair beyond the needed ones can be removed (the needed ones are recomputed: removing a pair may expose a
   prefix operator to the operator that follows, which then gets the pair) *)
Corollary unparen_gen e ex pi : wf e = true ->
  forall fuel rest, needx ex e <= fuel -> needx (drop pi ex) e <= fuel -> stopper rest ->
  parse_expr true fuel 0 (rgen (drop pi ex) e 0 None ++ rest) = parse_expr true fuel 0 (rgen ex e 0 None ++ rest) /\
  parse_expr true fuel 0 (rgen ex e 0 None ++ rest) = Some (e, rest).
Proof.
  intros Hw fuel rest F1 F2 Hs.
  rewrite (roundtrip_gen e ex Hw fuel rest F1 Hs), (roundtrip_gen e (drop pi ex) Hw fuel rest F2 Hs). auto.
Qed.

(* ---- more parentheses never hurt: every parenthesisation that contains the needed pairs ---- *)
Definition dle (par par' : deco) : Prop := forall pi, par pi <= par' pi.
Lemma dle_sub i par par' : dle par par' -> dle (sub i par) (sub i par').
Proof. intros H pi. apply H. Qed.

Lemma sw_add e : forall par par' f, dle par par' -> sw par e f = false -> sw par' e f = false.
Proof.
  induction e; intros par par' f0 Hle H; cbn [sw] in *; pose proof (Hle []) as H0;
  destruct (par' []) as [|k'] eqn:E'; try reflexivity; destruct (par []) as [|k] eqn:E; try lia.
  - apply orb_false_elim in H as [H1 H2]. rewrite H1, (IHe _ _ _ (dle_sub 0 _ _ Hle) H2). reflexivity.
  - apply orb_false_elim in H as [H1 H2]. rewrite H1, (IHe2 _ _ _ (dle_sub 1 _ _ Hle) H2). reflexivity.
Qed.

Lemma okp_add e : forall par par' q, dle par par' -> okp par e q = true -> okp par' e q = true.
Proof.
  induction e; intros par par' q Hle H; cbn [okp] in *; auto.
  - eapply IHe; [apply dle_sub; exact Hle|exact H].
  - eapply IHe; [apply dle_sub; exact Hle|exact H].
  - apply andb_prop in H as [H1 H2].
    rewrite (IHe1 _ _ _ (dle_sub 0 _ _ Hle) H1), (IHe2 _ _ _ (dle_sub 1 _ _ Hle) H2). reflexivity.
  - apply andb_prop in H as [H H2]. apply andb_prop in H as [H Hsw]. apply andb_prop in H as [Hl H1].
    apply Nat.leb_le in Hl. apply negb_true_iff in Hsw.
    pose proof (Hle []) as H0.
    assert (Hq : match par' [] with 0 => q | S _ => 0 end <= match par [] with 0 => q | S _ => 0 end)
      by (destruct (par' []), (par []); lia).
    rewrite (okp_mono _ _ _ _ (IHe1 _ _ _ (dle_sub 0 _ _ Hle) H1) Hq).
    rewrite (sw_add _ _ _ _ (dle_sub 0 _ _ Hle) Hsw), (IHe2 _ _ _ (dle_sub 1 _ _ Hle) H2).
    replace (match par' [] with 0 => q | S _ => 0 end <=? blvl o) with true by (symmetry; apply Nat.leb_le; lia). reflexivity.
Qed.

Lemma np_add e : forall par par', dle par par' -> np par e <= np par' e.
Proof.
  induction e; intros par par' Hle; cbn [np]; pose proof (Hle []) as H0.
  - lia.
  - lia.
  - pose proof (IHe _ _ (dle_sub 0 _ _ Hle)). lia.
  - pose proof (IHe _ _ (dle_sub 0 _ _ Hle)). lia.
  - pose proof (IHe1 _ _ (dle_sub 0 _ _ Hle)). pose proof (IHe2 _ _ (dle_sub 1 _ _ Hle)). lia.
  - pose proof (IHe1 _ _ (dle_sub 0 _ _ Hle)). pose proof (IHe2 _ _ (dle_sub 1 _ _ Hle)). lia.
Qed.

(* the decoration of the minimal rendering: one pair exactly where needs_paren says so *)
Lemma render_min_rp e : render_min e = rp (pmin e) e.
Proof. unfold render_min, pmin. rewrite rmin_rgen. apply rgen_rp. Qed.

Theorem roundtrip_above_min e par : wf e = true -> dle (pmin e) par ->
  forall fuel rest, np par e <= fuel -> stopper rest -> parse_expr true fuel 0 (rp par e ++ rest) = Some (e, rest).
Proof.
  intros Hw Hle. apply roundtrip_ok; [exact Hw|].
  eapply okp_add; [exact Hle|]. apply pgen_ok. exact I.
Qed.

Lemma path_eqb_eq a : forall b, path_eqb a b = true -> a = b.
Proof.
  induction a as [|x a IH]; intros [|y b] H; simpl in H; try discriminate; [reflexivity|].
  apply andb_prop in H as [H1 H2]. apply Nat.eqb_eq in H1. rewrite H1, (IH _ H2). reflexivity.
Qed.
Lemma drop_dle pi par : dle (drop pi par) par.
Proof. intros p. unfold drop. destruct (path_eqb pi p); lia. Qed.

(* the converse-flavoured corollary, literally: in a text that has all needed parentheses, deleting the two tokens of a pair
   that needs_paren does not ask for (more pairs at that node than the minimal rendering has) leaves the AST unchanged *)
Corollary unparen_min e par pi : wf e = true -> dle (pmin e) par -> pmin e pi < par pi ->
  forall fuel rest, np par e <= fuel -> stopper rest ->
  parse_expr true fuel 0 (rp (drop pi par) e ++ rest) = parse_expr true fuel 0 (rp par e ++ rest) /\
  parse_expr true fuel 0 (rp par e ++ rest) = Some (e, rest).
Proof.
  intros Hw Hle Hlt fuel rest Hf Hs.
  assert (Hle' : dle (pmin e) (drop pi par)).
  { intros p. unfold drop. destruct (path_eqb pi p) eqn:E; [|apply Hle]. apply path_eqb_eq in E. subst p. lia. }
  pose proof (np_add e _ _ (drop_dle pi par)) as Hn.
  rewrite (roundtrip_above_min e par Hw Hle fuel rest Hf Hs).
  rewrite (roundtrip_above_min e (drop pi par) Hw Hle' fuel rest) by (try lia; exact Hs). auto.
Qed.

(* ---- the whole specification "e ;" ---- *)
Definition not_eq_tok (t : token) : bool := match t with TSym SEq => false | _ => true end.
Lemma wrap_noeq k ts : forallb not_eq_tok ts = true -> forallb not_eq_tok (wrap k ts) = true.
Proof. intros H. induction k as [|k IH]; [exact H|]. rewrite wrap_S. cbn [forallb not_eq_tok]. rewrite forallb_app, IH. reflexivity. Qed.
Lemma ivtoks_noeq iv : forallb not_eq_tok (ivtoks iv) = true.
Proof. destruct iv as [[a b]|]; [|reflexivity]. destruct a as [s [k|]|s [k|]], b as [s' [k'|]|s' [k'|]]; reflexivity. Qed.
Lemma rp_noeq e : forall par, forallb not_eq_tok (rp par e) = true.
Proof.
  induction e; intros par; rewrite rp_wrap; apply wrap_noeq; cbn [body].
  - reflexivity.
  - reflexivity.
  - cbn [forallb]. rewrite forallb_app, ivtoks_noeq, IHe. destruct o; reflexivity.
  - cbn [forallb]. rewrite forallb_app, IHe. destruct f; reflexivity.
  - cbn [forallb]. rewrite forallb_app, IHe1. cbn [forallb]. rewrite forallb_app, IHe2. destruct f; reflexivity.
  - rewrite forallb_app, IHe1. cbn [forallb]. rewrite forallb_app, ivtoks_noeq, IHe2. destruct o; try destruct c; reflexivity.
Qed.

Lemma np_le_length e : forall par, np par e <= length (rp par e).
Proof.
  induction e; intros par; rewrite rp_wrap, wrap_length; cbn [np body length]; rewrite ?app_length; cbn [length]; rewrite ?app_length; cbn [length].
  - lia.
  - lia.
  - pose proof (IHe (sub 0 par)). lia.
  - pose proof (IHe (sub 0 par)). lia.
  - pose proof (IHe1 (sub 0 par)). pose proof (IHe2 (sub 1 par)). lia.
  - pose proof (IHe1 (sub 0 par)). pose proof (IHe2 (sub 1 par)). pose proof (rp_length_pos (sub 0 par) e1). lia.
Qed.

Theorem spec_ok e par : wf e = true -> okp par e 0 = true ->
  parse_spec true (rp par e ++ [TSym SSemi]) = Some [(None, e)].
Proof.
  intros Hw Hok. unfold parse_spec. set (ts := rp par e ++ [TSym SSemi]).
  assert (HA : parse_assertion true ts = Some ((None, e), [])).
  { assert (HE : parse_expr true (S (length ts)) 0 ts = Some (e, [TSym SSemi])).
    { apply roundtrip_ok; [exact Hw|exact Hok| |reflexivity].
      unfold ts. rewrite app_length. pose proof (np_le_length e par). lia. }
    assert (Hne : forallb not_eq_tok ts = true) by (unfold ts; rewrite forallb_app, rp_noeq; reflexivity).
    unfold parse_assertion.
    destruct ts as [|t1 [|t2 r]] eqn:Ets.
    - rewrite HE. reflexivity.
    - destruct t1; rewrite HE; reflexivity.
    - destruct t1; try (rewrite HE; reflexivity).
      destruct t2; try (rewrite HE; reflexivity).
      destruct s0; try (rewrite HE; reflexivity).
      cbn [forallb not_eq_tok] in Hne. rewrite andb_false_r in Hne. discriminate. }
  cbn [parse_assertions]. rewrite HA. reflexivity.
Qed.

Corollary spec_min e : wf e = true -> parse_spec true (render_min e ++ [TSym SSemi]) = Some [(None, e)].
Proof. intros Hw. rewrite render_min_rp. apply spec_ok; [exact Hw|]. apply pgen_ok. exact I. Qed.

(* ---- the LTL front end: interval-free ASTs ---- *)
Fixpoint noiv (e : sexpr) : bool :=
  match e with
  | EId _ | ELit _ => true
  | EUn _ iv a => match iv with None => noiv a | Some _ => false end
  | EFun1 _ a => noiv a
  | EFun2 _ a b => noiv a && noiv b
  | EBin _ iv a b => match iv with None => noiv a && noiv b | Some _ => false end
  end.
Lemma wrap_nobrack k ts : no_brack ts -> no_brack (wrap k ts).
Proof.
  intros H. induction k as [|k IH]; [exact H|]. rewrite wrap_S. unfold no_brack in *.
  constructor; [discriminate|]. apply Forall_app. split; [exact IH|]. constructor; [discriminate|constructor].
Qed.
Lemma rp_nobrack e : forall par, noiv e = true -> no_brack (rp par e).
Proof.
  induction e; intros par H; rewrite rp_wrap; apply wrap_nobrack; cbn [body noiv] in *; unfold no_brack in *.
  - constructor; [discriminate|constructor].
  - constructor; [discriminate|constructor].
  - destruct iv; [discriminate|]. cbn [ivtoks app]. constructor; [destruct o; discriminate|]. apply IHe. exact H.
  - constructor; [destruct f; discriminate|]. constructor; [discriminate|]. apply Forall_app. split; [apply IHe; exact H|].
    constructor; [discriminate|constructor].
  - apply andb_prop in H as [H1 H2]. constructor; [destruct f; discriminate|]. constructor; [discriminate|].
    apply Forall_app. split; [apply IHe1; exact H1|]. constructor; [discriminate|]. apply Forall_app. split; [apply IHe2; exact H2|].
    constructor; [discriminate|constructor].
  - destruct iv; [discriminate|]. apply andb_prop in H as [H1 H2]. cbn [ivtoks app].
    apply Forall_app. split; [apply IHe1; exact H1|]. constructor; [destruct o; try destruct c; discriminate|]. apply IHe2. exact H2.
Qed.

(* the minimal rendering of an interval-free AST parses back to it under the LTL grammar too *)
Theorem roundtrip_min_ltl e : wf e = true -> noiv e = true ->
  forall fuel rest, need e <= fuel -> stopper rest -> no_brack rest ->
  parse_expr false fuel 0 (render_min e ++ rest) = Some (e, rest).
Proof.
  intros Hw Hn fuel rest Hf Hs Hr. rewrite ltl_stl_agree; [apply roundtrip_min; assumption|].
  rewrite render_min_rp. unfold no_brack. apply Forall_app. split; [apply rp_nobrack; exact Hn|exact Hr].
Qed.

From Coq Require Import String.
Local Open Scope string_scope.
(* non-vacuity: the renderings differ from the full one and the check does reject wrong parenthesisations *)
Example render_min_example :
  let e := EBin BSub None (EBin BAdd None (EId "d") (EBin BMul None (EId "a") (EUn UNot None (EId "b")))) (EId "c") in
  toks_text (render_min e) = "d + a * ( not b ) - c" /\
  okp noex e 0 = false /\ parse_expr true 20 0 (rp noex e) <> Some (e, []).
Proof. cbv zeta. split; [vm_compute; reflexivity|]. split; [vm_compute; reflexivity|]. vm_compute. discriminate. Qed.
