(* LipschitzExtZ.v — the executable instance satisfies the shift laws for every eps >= 0
   (up v = v + eps, dn v = v - eps; admissible constants = finite values). *)
From Coq Require Import ZArith List Bool Lia.
From RV Require Import Val Syntax Rho ExtZ Sat Lipschitz.
Local Open Scope Z_scope.

Definition ez_up (e : Z) (v : extz) : extz := ez_add v (Fin e).
Definition ez_dn (e : Z) (v : extz) : extz := ez_add v (Fin (- e)).
Definition ez_fin (v : extz) : Prop := exists k, v = Fin k.

Lemma ExtZ_shift_laws e : 0 <= e -> ShiftLaws ExtZArith (ez_up e) (ez_dn e) ez_fin.
Proof.
  intros He. constructor.
  - intros [|a|] [|b|]; simpl; intros H; try reflexivity; try discriminate. apply Z.leb_le in H. apply Z.leb_le. lia.
  - intros [|a|] [|b|]; simpl; intros H; try reflexivity; try discriminate. apply Z.leb_le in H. apply Z.leb_le. lia.
  - intros [|a|]; simpl; try reflexivity. apply Z.leb_le. lia.
  - intros [|a|]; simpl; try reflexivity. apply Z.leb_le. lia.
  - intros [|a|]; simpl; try reflexivity. f_equal. lia.
  - intros [|a|] [|a'|] c [k ->]; simpl; intros H1 H2; try discriminate; try (split; reflexivity).
    apply Z.leb_le in H1, H2. split; apply Z.leb_le; lia.
  - intros [|a|] [|a'|] c [k ->]; simpl; intros H1 H2; try discriminate; try (split; reflexivity).
    apply Z.leb_le in H1, H2. split; apply Z.leb_le; lia.
  - intros [|a|] [|a'|]; simpl; intros H1 H2; try discriminate; try (split; reflexivity).
    apply Z.leb_le in H1, H2. split; apply Z.leb_le; lia.
Qed.
