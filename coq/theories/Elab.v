(* Elab.v — what the parser visitor does with the parse tree: identifier
   resolution (constant, earlier assertion, variable), 'unless' desugaring,
   interval checks (0 <= begin <= end as durations, bound constants declared),
   and a canonical dump of the resulting AST forest. *)
From Coq Require Import List Bool Arith ZArith QArith Ascii String Lia.
From RV Require Import Lexer Parser Offline.
Import ListNotations.
Local Open Scope string_scope.

(* ---- decimal literals as exact rationals: digits [. digits] [e[+-]digits] ---- *)
Definition digit_val (c : ascii) : Z := Z.of_nat (nat_of_ascii c - 48).
Fixpoint digits_val (acc : Z) (l : chars) : Z :=
  match l with [] => acc | c :: r => digits_val (10 * acc + digit_val c) r end.
Definition lit_to_q (s : string) : option Q :=
  let l := to_chars s in
  let '(ip, r) := span is_digit l in
  let '(fp, r1) := match r with "."%char :: r' => span is_digit r' | _ => ([], r) end in
  match (ip ++ fp)%list with
  | [] => None
  | _ =>
    let mant := digits_val 0 (ip ++ fp)%list in
    let fl := Z.of_nat (List.length fp) in
    let ex : option Z :=
      match r1 with
      | [] => Some 0%Z
      | e :: r2 =>
          if (Ascii.eqb e "e" || Ascii.eqb e "E")%char then
            match r2 with
            | "-"%char :: ds => if forallb is_digit ds && negb (Nat.eqb (List.length ds) 0) then Some (- digits_val 0 ds)%Z else None
            | "+"%char :: ds => if forallb is_digit ds && negb (Nat.eqb (List.length ds) 0) then Some (digits_val 0 ds) else None
            | ds => if forallb is_digit ds && negb (Nat.eqb (List.length ds) 0) then Some (digits_val 0 ds) else None
            end
          else None
      end in
    match ex with
    | None => None
    | Some e =>
        let k := (e - fl)%Z in
        Some (if (0 <=? k)%Z then inject_Z (mant * 10 ^ k) else (mant # Z.to_pos (10 ^ (- k))))
    end
  end.

Definition unit_ns (k : kw) : Z :=
  match k with KS => 1000000000 | KMs => 1000000 | KUs => 1000 | _ => 1 end%Z.
Definition unit_text (u : option kw) : string :=
  match u with Some KS => "s" | Some KMs => "ms" | Some KUs => "us" | Some KNs => "ns" | _ => "_" end.

(* ---- environment of the visitor ---- *)
Record penv := {
  consts : list (string * string);       (* declared constants: name, value text *)
  subspecs : list (string * string);     (* earlier assertions: name, dump of their node *)
  default_unit : kw
}.
Fixpoint assoc (l : list (string * string)) (x : string) : option string :=
  match l with [] => None | (k, v) :: r => if String.eqb k x then Some v else assoc r x end.

Definition itime_text (env : penv) (t : itime) : option (string * option kw) :=
  match t with
  | ILit s u => Some (s, u)
  | IId s u => match assoc (consts env) s with Some v => Some (v, u) | None => None end   (* 'Bound not declared' *)
  end.

(* interval check as repaired: both ends resolved like time_unit_transformer, 0 <= begin <= end *)
Definition check_interval (env : penv) (iv : interval) : option (string * string) :=
  let '(a, b) := iv in
  match itime_text env a, itime_text env b with
  | Some (sa, ua), Some (sb, ub) =>
      let '(ra, rb) := match ua, ub with
                       | None, Some e => (e, e) | None, None => (default_unit env, default_unit env)
                       | Some x, None => (x, x) | Some x, Some y => (x, y) end in
      match lit_to_q sa, lit_to_q sb with
      | Some qa, Some qb =>
          if Qle_bool (qa * inject_Z (unit_ns ra)) (qb * inject_Z (unit_ns rb))
          then Some (sa ++ " " ++ unit_text ua, sb ++ " " ++ unit_text ub) else None
      | _, _ => None
      end
  | _, _ => None
  end.

Definition cmp_text (c : cmpk) : string :=
  match c with KLeq => "leq" | KGeq => "geq" | KLt => "lt" | KGt => "gt" | KEq => "eq" | KNeq => "neq" end.
Definition un_text (o : unop) : string :=
  match o with UNeg => "neg" | UNot => "not" | UAlways => "always" | UEv => "eventually" | UHist => "historically" | UOnce => "once"
             | UPrev => "prev" | UNext => "next" | USPrev => "sprev" | USNext => "snext" end.
Definition f1_text (f : fun1) : string :=
  match f with FAbs => "abs" | FSqrt => "sqrt" | FExp => "exp" | FLn => "ln" | FRise => "rise" | FFall => "fall" end.
Definition f2_text (f : fun2) : string := match f with FPow => "pow" | FLog => "log" end.
Definition bin_text (o : binop) : string :=
  match o with BMul => "mul" | BDiv => "div" | BAdd => "add" | BSub => "sub" | BCmp c => "pred " ++ cmp_text c
             | BUntil => "until" | BUnless => "unless" | BSince => "since" | BAnd => "and" | BOr => "or"
             | BImplies => "implies" | BIff => "iff" | BXor => "xor" end.

Definition d_un (l x : string) : string := "(" ++ l ++ " " ++ x ++ ")".
Definition d_bin (l x y : string) : string := "(" ++ l ++ " " ++ x ++ " " ++ y ++ ")".
Definition d_unt (l b e x : string) : string := "(" ++ l ++ "_t " ++ b ++ " " ++ e ++ " " ++ x ++ ")".
Definition d_bint (l b e x y : string) : string := "(" ++ l ++ "_t " ++ b ++ " " ++ e ++ " " ++ x ++ " " ++ y ++ ")".

(* None = RTAMTException raised by the visitor *)
Fixpoint dump (env : penv) (e : sexpr) : option string :=
  match e with
  | EId s =>
      match assoc (consts env) s with
      | Some v => Some ("(const " ++ v ++ ")")
      | None => match assoc (subspecs env) s with
                | Some d => Some d
                | None => Some ("(var " ++ s ++ ")")      (* declared, or implicitly declared as a float signal *)
                end
      end
  | ELit s => match lit_to_q s with Some _ => Some ("(const " ++ s ++ ")") | None => None end
  | EUn o None a => option_map (d_un (un_text o)) (dump env a)
  | EUn o (Some iv) a =>
      match check_interval env iv, dump env a with
      | Some (b, e'), Some x => Some (d_unt (un_text o) b e' x)
      | _, _ => None
      end
  | EFun1 f a => option_map (d_un (f1_text f)) (dump env a)
  | EFun2 f a b =>
      match dump env a, dump env b with
      | Some x, Some y => Some (d_bin (f2_text f) x y)
      | _, _ => None
      end
  | EBin BUnless None a b =>
      match dump env a, dump env b with
      | Some x, Some y => Some (d_bin "or" (d_un "always" x) (d_bin "until" x y))
      | _, _ => None
      end
  | EBin BUnless (Some iv) a b =>
      match check_interval env iv, dump env a, dump env b with
      | Some (bb, ee), Some x, Some y =>
          (* Interval(0, interval.end, interval.begin_unit, interval.end_unit) *)
          let ub := match fst iv with ILit _ u | IId _ u => u end in
          Some (d_bin "or" (d_unt "always" ("0 " ++ unit_text ub) ee x) (d_bint "until" bb ee x y))
      | _, _, _ => None
      end
  | EBin o None a b =>
      match dump env a, dump env b with
      | Some x, Some y => Some (d_bin (bin_text o) x y)
      | _, _ => None
      end
  | EBin o (Some iv) a b =>
      match check_interval env iv, dump env a, dump env b with
      | Some (bb, ee), Some x, Some y => Some (d_bint (bin_text o) bb ee x y)
      | _, _, _ => None
      end
  end.

(* the forest: every assertion is appended to ast.specs; its name (default 'out') is bound to its node *)
Fixpoint dump_forest (env : penv) (P : list (option string * sexpr)) : option (list string) :=
  match P with
  | [] => Some []
  | (nm, e) :: P' =>
      match dump env e with
      | None => None
      | Some d =>
          let name := match nm with Some s => s | None => "out" end in
          let env' := {| consts := consts env; subspecs := (name, d) :: subspecs env; default_unit := default_unit env |} in
          option_map (cons d) (dump_forest env' P')
      end
  end.

(* parse(): outcome classes.  Ok forest | Rtamt (lexer error, syntax error, visitor check); never Crash *)
Definition parse_outcome (stl : bool) (cs : list (string * string)) (du : kw) (text : string) : outcome (list string) :=
  match parse_text stl text with
  | None => Rtamt
  | Some P =>
      match dump_forest {| consts := cs; subspecs := []; default_unit := du |} P with
      | Some f => Ok f
      | None => Rtamt
      end
  end.
