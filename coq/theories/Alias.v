(* Alias.v — C11: which list objects the offline visitor returns and writes.
   A store of list objects with identities; the data set's columns are the
   objects 0..m-1.  visitVariable returns the caller's own object (an alias);
   every other visit allocates a new list; after the repair of
   visitTimedAlways/Eventually ('sample = sample + pad' instead of
   'sample += pad') no visit writes to an object it did not allocate. *)
From Coq Require Import List Bool Arith Lia.
From RV Require Import Val Syntax Rho Offline ListFacts.
Import ListNotations.

Section Alias.
Context {VS : Val} (AR : Arith VS).
Variable pk : formula -> formula -> pkind.

Definition store := list (list V).
Definition alloc (s : store) (l : list V) : nat * store := (length s, s ++ [l]).
Definition read (s : store) (id : nat) : list V := nth id s [].

(* the caller's data: the first m objects *)
Definition caller (m : nat) (s : store) : trace := firstn m s.

(* evaluation in the store; m = number of caller objects, n = number of samples.
   Children are visited first (each visit may allocate), then the node's own
   list is allocated with the content the list program computes. *)
Fixpoint eval_st (m n : nat) (p : formula) (s : store) {struct p} : nat * store :=
  match p with
  | Var x => (x, s)
  | Const _ => alloc s (eval_off AR pk p (caller m s) n)
  | A1 _ f | Not f | Rise f | Fall f | Prev f | SPrev f | Next f | SNext f
  | Once f | Hist f | Ev f | Alw f
  | OnceT _ _ f | HistT _ _ f | EvT _ _ f | AlwT _ _ f =>
      let '(_, s1) := eval_st m n f s in alloc s1 (eval_off AR pk p (caller m s) n)
  | A2 _ f g | Pred _ f g | And f g | Or f g | Implies f g | Iff f g | Xor f g
  | Since f g | Until f g
  | SinceT _ _ f g | UntilT _ _ f g | Precedes _ _ f g =>
      let '(_, s1) := eval_st m n f s in
      let '(_, s2) := eval_st m n g s1 in alloc s2 (eval_off AR pk p (caller m s) n)
  end.

(* the store only grows: every existing object, in particular the caller's data, is untouched *)
Lemma eval_st_frame m n p : forall s, exists ext, snd (eval_st m n p s) = s ++ ext.
Proof.
  induction p; intros s; simpl;
  try (exists []; rewrite app_nil_r; reflexivity);
  try (eexists; reflexivity);
  try (destruct (IHp s) as [e1 E1]; destruct (eval_st m n p s) as [i1 s1]; simpl in *; subst s1;
       eexists; rewrite <- app_assoc; reflexivity);
  try (destruct (IHp1 s) as [e1 E1]; destruct (eval_st m n p1 s) as [i1 s1]; simpl in *; subst s1;
       destruct (IHp2 (s ++ e1)) as [e2 E2]; destruct (eval_st m n p2 (s ++ e1)) as [i2 s2]; simpl in *; subst s2;
       eexists; rewrite <- !app_assoc; reflexivity).
Qed.

Theorem eval_st_caller_untouched m n p s id :
  id < length s -> read (snd (eval_st m n p s)) id = read s id.
Proof.
  intros H. destruct (eval_st_frame m n p s) as [ext E]. rewrite E. unfold read. apply app_nth1. exact H.
Qed.

(* the object returned holds the list the functional model computes *)
Theorem eval_st_result m n p s :
  m <= length s -> nvars p <= m ->
  read (snd (eval_st m n p s)) (fst (eval_st m n p s)) = eval_off AR pk p (caller m s) n.
Proof.
  intros Hm Hv. destruct p; simpl;
  try (unfold read; rewrite app_nth2 by lia; rewrite Nat.sub_diag; reflexivity);
  try (destruct (eval_st m n p s) as [i1 s1]; simpl; unfold read; rewrite app_nth2 by lia; rewrite Nat.sub_diag; reflexivity);
  try (destruct (eval_st m n p1 s) as [i1 s1]; destruct (eval_st m n p2 s1) as [i2 s2]; simpl; unfold read;
       rewrite app_nth2 by lia; rewrite Nat.sub_diag; reflexivity).
  (* Var: the alias *)
  simpl in Hv. unfold read, caller. symmetry. apply nth_firstn_lt. lia.
Qed.

(* evaluate() twice on the same data: the second run sees the same caller objects, hence returns the same list *)
Theorem eval_st_repeat m n p s :
  m <= length s -> nvars p <= m ->
  let s1 := snd (eval_st m n p s) in
  read (snd (eval_st m n p s1)) (fst (eval_st m n p s1)) = read s1 (fst (eval_st m n p s)).
Proof.
  intros Hm Hv. cbv zeta.
  destruct (eval_st_frame m n p s) as [ext E].
  rewrite (eval_st_result m n p (snd (eval_st m n p s))) by (try rewrite E, app_length; lia).
  rewrite (eval_st_result m n p s) by assumption.
  f_equal. unfold caller. rewrite E. rewrite firstn_app. replace (m - length s) with 0 by lia.
  simpl. rewrite app_nil_r. reflexivity.
Qed.

End Alias.
