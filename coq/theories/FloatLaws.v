(* FloatLaws.v — the laws the development ASSUMES of "floats without NaN", decided for the instance FloatVal /
   FloatArith: the operations respect the quotient by the sign of zero; -(l - r) = r - l; DiffLaws; SignLaws.
   (ShiftLaws is in FloatLip.v.)

   Method.  [ext] embeds the carrier in the reals (infinities at +-2^1024).  For finite operands
   ext (x - y) = clamp (round_NE (x - y)), clamp = saturation at +-2^1024 (Flocq's Bminus_correct, overflow
   included); t |-> clamp (round_NE t) is monotone, odd, and vanishes on a difference of two floats only when the
   difference is 0 (no flush-to-zero: gradual underflow, Flocq's round_plus_neq_0).  Infinite operands by cases. *)
From Coq Require Import ZArith Reals Bool Lia Lra.
From Flocq Require Import Core Plus_error IEEE754.BinarySingleNaN.
From RV Require Import Val Sat DenseIA FloatVal FloatArith.

Notation fe := (SpecFloat.fexp fprec femax).
#[export] Instance fe_valid : Valid_exp fe := FLT_exp_valid (SpecFloat.emin fprec femax) fprec.
#[export] Instance fe_mono : Monotone_exp fe := FLT_exp_monotone (SpecFloat.emin fprec femax) fprec.
Notation rnd := (round radix2 fe ZnearestE).
Notation M := (bpow radix2 femax).

Lemma M_pos : (0 < M)%R.
Proof. apply bpow_gt_0. Qed.

(* ---- saturation ---- *)
Definition clamp (r : R) : R := Rmax (- M) (Rmin M r).

Lemma clamp_id r : (Rabs r < M)%R -> clamp r = r.
Proof.
  intros H. apply Rabs_lt_inv in H. unfold clamp.
  rewrite Rmin_right by lra. rewrite Rmax_right by lra. reflexivity.
Qed.
Lemma clamp_id' r : (- M <= r <= M)%R -> clamp r = r.
Proof.
  intros H. unfold clamp. rewrite Rmin_right by lra. rewrite Rmax_right by lra. reflexivity.
Qed.
Lemma clamp_hi r : (M <= r)%R -> clamp r = M.
Proof.
  intros H. pose proof M_pos. unfold clamp. rewrite Rmin_left by lra. rewrite Rmax_right by lra. reflexivity.
Qed.
Lemma clamp_lo r : (r <= - M)%R -> clamp r = (- M)%R.
Proof.
  intros H. pose proof M_pos. unfold clamp. rewrite Rmin_right by lra. rewrite Rmax_left by lra. reflexivity.
Qed.
Lemma clamp_mono r s : (r <= s)%R -> (clamp r <= clamp s)%R.
Proof.
  intros H. unfold clamp. apply Rle_max_compat_l. apply Rle_min_compat_l. exact H.
Qed.
Lemma clamp_cases r : (r <= - M /\ clamp r = - M)%R \/ (- M <= r <= M /\ clamp r = r)%R \/ (M <= r /\ clamp r = M)%R.
Proof.
  destruct (Rle_or_lt r (- M)) as [A|A]; [left; split; [exact A|apply clamp_lo; exact A]|].
  destruct (Rle_or_lt M r) as [B|B]; [right; right; split; [exact B|apply clamp_hi; exact B]|].
  right; left. split; [lra|apply clamp_id'; lra].
Qed.
Lemma clamp_opp r : clamp (- r) = (- clamp r)%R.
Proof.
  pose proof M_pos as P.
  destruct (clamp_cases r) as [[A ->]|[[A ->]|[A ->]]].
  - rewrite clamp_hi by lra. lra.
  - apply clamp_id'. lra.
  - rewrite clamp_lo by lra. lra.
Qed.
Lemma clamp_range r : (- M <= clamp r <= M)%R.
Proof.
  pose proof M_pos as P. destruct (clamp_cases r) as [[A ->]|[[A ->]|[A ->]]]; lra.
Qed.
Lemma clamp_sign_le r : (clamp r <= 0)%R <-> (r <= 0)%R.
Proof.
  pose proof M_pos as P. destruct (clamp_cases r) as [[A ->]|[[A ->]|[A ->]]]; lra.
Qed.
Lemma clamp_sign_ge r : (0 <= clamp r)%R <-> (0 <= r)%R.
Proof.
  pose proof M_pos as P. destruct (clamp_cases r) as [[A ->]|[[A ->]|[A ->]]]; lra.
Qed.

(* ---- saturated rounding ---- *)
Definition cr (t : R) : R := clamp (rnd t).

Lemma cr_mono s t : (s <= t)%R -> (cr s <= cr t)%R.
Proof. intros H. apply clamp_mono. apply round_le; [apply fe_valid|apply valid_rnd_N|exact H]. Qed.
Lemma cr_opp t : cr (- t) = (- cr t)%R.
Proof. unfold cr. rewrite round_NE_opp. apply clamp_opp. Qed.
Lemma cr_0 : cr 0 = 0%R.
Proof. unfold cr. rewrite round_0 by apply valid_rnd_N. apply clamp_id. rewrite Rabs_R0. apply M_pos. Qed.
Lemma cr_range t : (- M <= cr t <= M)%R.
Proof. apply clamp_range. Qed.
Lemma cr_le_0 t : (t <= 0)%R -> (cr t <= 0)%R.
Proof. intros H. rewrite <- cr_0. apply cr_mono. exact H. Qed.
Lemma cr_ge_0 t : (0 <= t)%R -> (0 <= cr t)%R.
Proof. intros H. rewrite <- cr_0. apply cr_mono. exact H. Qed.

Lemma format_B2R (x : bf) : generic_format radix2 fe (B2R x).
Proof. apply generic_format_B2R. Qed.

(* a float in the open range is its own saturated rounding *)
Lemma cr_format r : generic_format radix2 fe r -> (- M <= r <= M)%R -> cr r = r.
Proof.
  intros F H. unfold cr. rewrite round_generic; [|apply valid_rnd_N|exact F]. apply clamp_id'. exact H.
Qed.

(* gradual underflow: the rounded difference of two floats vanishes only when the difference does *)
Lemma cr_diff_pos x y : generic_format radix2 fe x -> generic_format radix2 fe y -> (0 < x - y)%R -> (0 < cr (x - y))%R.
Proof.
  intros Fx Fy H.
  assert (N : rnd (x + - y) <> 0%R).
  { apply (round_plus_neq_0 radix2 fe ZnearestE x (- y) Fx (generic_format_opp _ _ _ Fy)). lra. }
  assert (G : (0 <= rnd (x + - y))%R).
  { rewrite <- (round_0 radix2 fe ZnearestE). apply round_le; [apply fe_valid|apply valid_rnd_N|lra]. }
  unfold cr. unfold Rminus.
  destruct (Rle_or_lt (clamp (rnd (x + - y))) 0) as [L|L]; [|exact L].
  apply (proj1 (clamp_sign_le _)) in L. exfalso. apply N. lra.
Qed.
Lemma cr_diff_sign_le x y : generic_format radix2 fe x -> generic_format radix2 fe y ->
  ((cr (x - y) <= 0)%R <-> (x <= y)%R).
Proof.
  intros Fx Fy. split; intros H.
  - destruct (Rle_or_lt x y) as [L|L]; [exact L|]. exfalso.
    pose proof (cr_diff_pos x y Fx Fy). lra.
  - apply cr_le_0. lra.
Qed.
Lemma cr_diff_sign_ge x y : generic_format radix2 fe x -> generic_format radix2 fe y ->
  ((0 <= cr (x - y))%R <-> (y <= x)%R).
Proof.
  intros Fx Fy. replace (x - y)%R with (- (y - x))%R by lra. rewrite cr_opp.
  pose proof (cr_diff_sign_le y x Fy Fx) as H. split; intros G.
  - apply H. lra.
  - apply H in G. lra.
Qed.

(* ---- the IEEE operations on finite operands, through ext ---- *)
Lemma Bsign_B2R (x : bf) : is_finite x = true -> if Bsign x then (B2R x <= 0)%R else (0 <= B2R x)%R.
Proof.
  destruct x as [s|s| |s m e H]; try discriminate; intros _.
  - simpl. destruct s; lra.
  - simpl. destruct s.
    + apply Rlt_le. apply F2R_lt_0. reflexivity.
    + apply Rlt_le. apply F2R_gt_0. reflexivity.
Qed.

Lemma overflow_cases (z : bf) (s : bool) (t : R) :
  B2SF z = binary_overflow fprec femax mode_NE s ->
  (M <= Rabs (rnd t))%R -> (if s then (t <= 0)%R else (0 <= t)%R) ->
  is_nan z = false /\ ext z = cr t.
Proof.
  intros E L S. unfold binary_overflow, overflow_to_inf in E.
  destruct z as [s'|s'| |s' m e H]; try discriminate. inversion E. subst s'. split; [reflexivity|].
  pose proof M_pos as P. unfold cr. destruct s.
  - rewrite ext_ninf. symmetry. apply clamp_lo.
    assert (G : (rnd t <= 0)%R).
    { rewrite <- (round_0 radix2 fe ZnearestE). apply round_le; [apply fe_valid|apply valid_rnd_N|exact S]. }
    rewrite Rabs_left1 in L by exact G. lra.
  - rewrite ext_pinf. symmetry. apply clamp_hi.
    assert (G : (0 <= rnd t)%R).
    { rewrite <- (round_0 radix2 fe ZnearestE). apply round_le; [apply fe_valid|apply valid_rnd_N|exact S]. }
    rewrite Rabs_pos_eq in L by exact G. exact L.
Qed.

Lemma finite_not_nan (z : bf) : is_finite z = true -> is_nan z = false.
Proof. destruct z; simpl; intros E; try reflexivity; discriminate. Qed.

Lemma ext_Bminus (x y : bf) : is_finite x = true -> is_finite y = true ->
  is_nan (Bminus mode_NE x y) = false /\ ext (Bminus mode_NE x y) = cr (B2R x - B2R y).
Proof.
  intros Fx Fy. pose proof (Bminus_correct fprec femax _ _ mode_NE x y Fx Fy) as H.
  change (round_mode mode_NE) with ZnearestE in H. revert H.
  case Rlt_bool_spec; intros L H.
  - destruct H as [E [F _]]. split; [apply finite_not_nan; exact F|].
    rewrite (ext_finite _ F), E. unfold cr. symmetry. apply clamp_id. exact L.
  - destruct H as [E S]. apply (overflow_cases _ (Bsign x)); [exact E|exact L|].
    pose proof (Bsign_B2R x Fx) as Sx. pose proof (Bsign_B2R y Fy) as Sy. rewrite S in Sx |- *.
    destruct (Bsign y); simpl in *; lra.
Qed.

Lemma ext_Bplus (x y : bf) : is_finite x = true -> is_finite y = true ->
  is_nan (Bplus mode_NE x y) = false /\ ext (Bplus mode_NE x y) = cr (B2R x + B2R y).
Proof.
  intros Fx Fy. pose proof (Bplus_correct fprec femax _ _ mode_NE x y Fx Fy) as H.
  change (round_mode mode_NE) with ZnearestE in H. revert H.
  case Rlt_bool_spec; intros L H.
  - destruct H as [E [F _]]. split; [apply finite_not_nan; exact F|].
    rewrite (ext_finite _ F), E. unfold cr. symmetry. apply clamp_id. exact L.
  - destruct H as [E S]. apply (overflow_cases _ (Bsign x)); [exact E|exact L|].
    pose proof (Bsign_B2R x Fx) as Sx. pose proof (Bsign_B2R y Fy) as Sy. rewrite S in Sx |- *.
    destruct (Bsign y); simpl in *; lra.
Qed.

(* ---- the carrier by cases ---- *)
Lemma fv_cases a : a = f_top \/ a = f_bot \/ f_fin a.
Proof.
  destruct a as [[s|[|]| |s m e H] C].
  - right. right. reflexivity.
  - right. left. apply fv_eq. reflexivity.
  - left. apply fv_eq. reflexivity.
  - discriminate C.
  - right. right. reflexivity.
Qed.

Lemma fext_fin a : f_fin a -> fext a = B2R (fval a).
Proof. intros F. apply ext_finite. exact F. Qed.
Lemma fext_fin_lt a : f_fin a -> (- M < fext a < M)%R.
Proof. intros F. apply ext_bounds. exact F. Qed.
Lemma fext_format a : f_fin a -> generic_format radix2 fe (fext a).
Proof. intros F. rewrite (fext_fin a F). apply format_B2R. Qed.

Lemma fext_sub_fin a b : f_fin a -> f_fin b -> fext (f_sub a b) = cr (fext a - fext b).
Proof.
  intros Fa Fb. unfold f_sub. rewrite fext_mk, (fext_fin a Fa), (fext_fin b Fb).
  apply ext_Bminus; assumption.
Qed.
Lemma fext_add_fin a b : f_fin a -> f_fin b -> fext (f_add a b) = cr (fext a + fext b).
Proof.
  intros Fa Fb. unfold f_add. rewrite fext_mk, (fext_fin a Fa), (fext_fin b Fb).
  apply ext_Bplus; assumption.
Qed.

(* infinite operands *)
Lemma f_sub_top_fin b : f_fin b -> f_sub f_top b = f_top.
Proof. destruct b as [[s|s| |s m e H] C]; intros F; try discriminate F; apply fv_eq; reflexivity. Qed.
Lemma f_sub_bot_fin b : f_fin b -> f_sub f_bot b = f_bot.
Proof. destruct b as [[s|s| |s m e H] C]; intros F; try discriminate F; apply fv_eq; reflexivity. Qed.
Lemma f_sub_fin_top a : f_fin a -> f_sub a f_top = f_bot.
Proof. destruct a as [[s|s| |s m e H] C]; intros F; try discriminate F; apply fv_eq; reflexivity. Qed.
Lemma f_sub_fin_bot a : f_fin a -> f_sub a f_bot = f_top.
Proof. destruct a as [[s|s| |s m e H] C]; intros F; try discriminate F; apply fv_eq; reflexivity. Qed.
Lemma f_sub_top_top : f_sub f_top f_top = f_zero. Proof. apply fv_eq. reflexivity. Qed.
Lemma f_sub_bot_bot : f_sub f_bot f_bot = f_zero. Proof. apply fv_eq. reflexivity. Qed.
Lemma f_sub_top_bot : f_sub f_top f_bot = f_top. Proof. apply fv_eq. reflexivity. Qed.
Lemma f_sub_bot_top : f_sub f_bot f_top = f_bot. Proof. apply fv_eq. reflexivity. Qed.

Lemma f_add_top_fin b : f_fin b -> f_add f_top b = f_top.
Proof. destruct b as [[s|s| |s m e H] C]; intros F; try discriminate F; apply fv_eq; reflexivity. Qed.
Lemma f_add_bot_fin b : f_fin b -> f_add f_bot b = f_bot.
Proof. destruct b as [[s|s| |s m e H] C]; intros F; try discriminate F; apply fv_eq; reflexivity. Qed.
Lemma f_add_fin_top a : f_fin a -> f_add a f_top = f_top.
Proof. destruct a as [[s|s| |s m e H] C]; intros F; try discriminate F; apply fv_eq; reflexivity. Qed.
Lemma f_add_fin_bot a : f_fin a -> f_add a f_bot = f_bot.
Proof. destruct a as [[s|s| |s m e H] C]; intros F; try discriminate F; apply fv_eq; reflexivity. Qed.

Lemma f_neg_top : f_neg f_top = f_bot. Proof. apply fv_eq. reflexivity. Qed.
Lemma f_neg_bot : f_neg f_bot = f_top. Proof. apply fv_eq. reflexivity. Qed.
Lemma f_neg_zero : f_neg f_zero = f_zero. Proof. apply fv_eq. reflexivity. Qed.
Lemma f_neg_fin a : f_fin a -> f_fin (f_neg a).
Proof. destruct a as [[s|s| |s m e H] C]; intros F; try discriminate F; reflexivity. Qed.
Lemma f_zero_fin : f_fin f_zero. Proof. reflexivity. Qed.

Lemma f_leb_top_fin a : f_fin a -> f_leb f_top a = false.
Proof. intros F. apply f_leb_false. rewrite fext_top. apply (fext_fin_lt a F). Qed.
Lemma f_leb_fin_bot a : f_fin a -> f_leb a f_bot = false.
Proof. intros F. apply f_leb_false. rewrite fext_bot. apply (fext_fin_lt a F). Qed.
Lemma f_leb_fin_top a : f_leb a f_top = true.
Proof. apply (@top_ge FloatVal). Qed.
Lemma f_leb_bot_fin a : f_leb f_bot a = true.
Proof. apply (@bot_le FloatVal). Qed.

(* abs *)
Lemma fext_abs a : fext (f_abs a) = Rabs (fext a).
Proof.
  pose proof M_pos as P. unfold f_abs. rewrite fext_mk. unfold fext.
  destruct (fval a) as [s|[|]| |s m e H].
  - simpl. rewrite Rabs_R0. reflexivity.
  - simpl Babs. rewrite ext_pinf, ext_ninf, Rabs_Ropp, Rabs_pos_eq by lra. reflexivity.
  - simpl Babs. rewrite ext_pinf, Rabs_pos_eq by lra. reflexivity.
  - simpl. rewrite Rabs_R0. reflexivity.
  - change (B2R (Babs (B754_finite s m e H)) = Rabs (B2R (B754_finite s m e H))). apply B2R_Babs.
Qed.

(* ---- the operations respect the quotient by the sign of zero ----
   For non-NaN data x, y (either zero allowed) inside the [ok] domain, operating on the representatives gives the
   representative of the IEEE result: the model is Python's arithmetic up to the sign of zero.  (Division by a zero
   is outside: IEEE x / -0 and x / +0 differ by more than the sign of a zero; Python raises there.) *)
Lemma f_a2_mk u_pow u_log (o : aop2) (x y : bf) :
  is_nan x = false -> is_nan y = false -> b_ok2 o x y = true ->
  f_a2 u_pow u_log o (mk x) (mk y) = mk (b_a2 o x y) /\ is_nan (b_a2 o x y) = false.
Proof.
  intros Nx Ny K. split.
  - apply fv_eq.
    destruct o; try discriminate K;
    destruct x as [[|]|sx| |sx mx ex Hx]; try discriminate Nx;
    destruct y as [[|]|sy| |sy my ey Hy]; try discriminate Ny; try discriminate K; try reflexivity;
    try (destruct sx; reflexivity); try (destruct sy; reflexivity).
  - destruct o; try discriminate K; simpl in K.
    + apply negb_true_iff in K. exact K.
    + apply negb_true_iff in K. exact K.
    + apply negb_true_iff in K. exact K.
    + apply andb_true_iff in K as [K _]. apply negb_true_iff in K. exact K.
Qed.
Lemma f_a1_mk u_exp u_ln (o : aop1) (x : bf) :
  is_nan x = false -> b_ok1 o x = true ->
  f_a1 u_exp u_ln o (mk x) = mk (b_a1 o x) /\ is_nan (b_a1 o x) = false.
Proof.
  intros Nx K. split.
  - apply fv_eq. destruct o; try discriminate K;
    destruct x as [[|]|sx| |sx mx ex Hx]; try discriminate Nx; try reflexivity.
  - destruct o; try discriminate K; simpl in K; apply negb_true_iff in K; exact K.
Qed.

(* ---- -(l - r) = r - l : TRUE (exactly, up to the sign of zero, in round-to-nearest-even; also with the convention) ---- *)
Theorem f_sub_neg l r : f_neg (f_sub l r) = f_sub r l.
Proof.
  destruct (fv_cases l) as [->|[->|Fl]]; destruct (fv_cases r) as [->|[->|Fr]];
    rewrite ?f_sub_top_top, ?f_sub_bot_bot, ?f_sub_top_bot, ?f_sub_bot_top,
            ?(f_sub_top_fin _ Fr), ?(f_sub_bot_fin _ Fr), ?(f_sub_fin_top _ Fl), ?(f_sub_fin_bot _ Fl),
            ?(f_sub_top_fin _ Fl), ?(f_sub_bot_fin _ Fl), ?(f_sub_fin_top _ Fr), ?(f_sub_fin_bot _ Fr),
            ?f_neg_top, ?f_neg_bot, ?f_neg_zero; try reflexivity.
  apply fext_inj. rewrite fext_neg, !fext_sub_fin by assumption. rewrite <- cr_opp. f_equal. lra.
Qed.

(* ---- the sign of the difference is the order of the operands ---- *)
Theorem f_sub_le_zero l r : f_leb (f_sub l r) f_zero = f_leb l r.
Proof.
  destruct (fv_cases l) as [->|[->|Fl]]; destruct (fv_cases r) as [->|[->|Fr]];
    rewrite ?f_sub_top_top, ?f_sub_bot_bot, ?f_sub_top_bot, ?f_sub_bot_top,
            ?(f_sub_top_fin _ Fr), ?(f_sub_bot_fin _ Fr), ?(f_sub_fin_top _ Fl), ?(f_sub_fin_bot _ Fl);
    try reflexivity;
    rewrite ?(f_leb_top_fin _ Fr), ?(f_leb_top_fin _ f_zero_fin), ?(f_leb_fin_bot _ Fl), ?f_leb_fin_top, ?f_leb_bot_fin;
    try reflexivity.
  rewrite !f_leb_ext, fext_sub_fin, fext_zero by assumption.
  pose proof (cr_diff_sign_le (fext l) (fext r) (fext_format l Fl) (fext_format r Fr)) as H.
  destruct (Rle_bool_spec (fext l) (fext r)) as [L|L].
  - apply Rle_bool_true. apply H. exact L.
  - apply Rle_bool_false. apply Rnot_le_lt. intros G. apply H in G. lra.
Qed.
Theorem f_sub_ge_zero l r : f_leb f_zero (f_sub l r) = f_leb r l.
Proof.
  rewrite <- (f_sub_neg r l). rewrite <- (f_sub_le_zero r l).
  rewrite <- f_neg_zero at 1. apply (@neg_anti_iff FloatVal).
Qed.

Lemma f_abs_nonneg d : f_leb f_zero (f_abs d) = true.
Proof. apply f_leb_true. rewrite fext_abs, fext_zero. apply Rabs_pos. Qed.
Lemma f_abs_zero d : @veqb FloatVal (f_abs d) f_zero = @veqb FloatVal d f_zero.
Proof.
  unfold veqb. change (@Val.leb FloatVal) with f_leb. rewrite !f_leb_ext, fext_abs, fext_zero.
  destruct (Rle_bool_spec (Rabs (fext d)) 0) as [A|A]; destruct (Rle_bool_spec 0 (Rabs (fext d))) as [B|B];
  destruct (Rle_bool_spec (fext d) 0) as [C|C]; destruct (Rle_bool_spec 0 (fext d)) as [D|D]; try reflexivity; exfalso;
  revert A B C D; unfold Rabs; destruct (Rcase_abs (fext d)); intros; lra.
Qed.

Section Laws.
Variables (u_exp u_ln : fv -> fv) (u_pow u_log : fv -> fv -> fv).
Notation FA := (FloatArith u_exp u_ln u_pow u_log).

Theorem float_sub_neg : forall l r : @V FloatVal, neg (a2 FA Sub l r) = a2 FA Sub r l.
Proof. exact f_sub_neg. Qed.

Theorem float_diff_laws : DiffLaws FA.
Proof.
  constructor.
  - exact f_neg_zero.
  - exact f_sub_le_zero.
  - exact f_sub_ge_zero.
  - exact f_abs_nonneg.
  - exact f_abs_zero.
Qed.

Theorem float_sign_laws : SignLaws FA.
Proof.
  constructor.
  - exact f_neg_zero.
  - intros l r. unfold ltb. change (negb (f_leb (f_sub l r) f_zero) = true -> negb (f_leb l r) = true).
    rewrite f_sub_le_zero. exact (fun H => H).
  - intros l r. unfold ltb. change (negb (f_leb f_zero (f_sub l r)) = true -> negb (f_leb r l) = true).
    rewrite f_sub_ge_zero. exact (fun H => H).
  - exact f_abs_nonneg.
  - intros l r. unfold ltb. change (negb (f_leb (f_abs (f_sub l r)) f_zero) = true -> @veqb FloatVal l r = false).
    intros H. apply negb_true_iff in H.
    assert (E : @veqb FloatVal (f_abs (f_sub l r)) f_zero = false).
    { unfold veqb. change (@Val.leb FloatVal) with f_leb. rewrite H. reflexivity. }
    rewrite f_abs_zero in E. unfold veqb in *. change (@Val.leb FloatVal) with f_leb in *.
    rewrite f_sub_le_zero, f_sub_ge_zero in E. exact E.
Qed.

End Laws.
