(* DenseFacts.v — basic facts about the tick windows of DenseSem.v and the
   denotation of sample lists. *)
From Coq Require Import List Bool Arith ZArith Lia.
From RV Require Import Val Syntax Rho ListFacts OfflineCorrect Dense DenseSem.
Import ListNotations.
Local Open Scope Z_scope.

Section DenseFacts.
Context {VS : Val}.

Lemma in_zrange lo hi t : In t (zrange lo hi) <-> lo <= t <= hi.
Proof.
  unfold zrange. rewrite in_map_iff. split.
  - intros (i & <- & Hi). apply in_seq in Hi. lia.
  - intros H. exists (Z.to_nat (t - lo)). split; [lia|]. apply in_seq. lia.
Qed.

Lemma zmax_ub (f : Z -> V) lo hi z : leb (zmax f lo hi) z = true <-> forall t, lo <= t <= hi -> leb (f t) z = true.
Proof.
  unfold zmax. rewrite maxl_ub. split.
  - intros H t Ht. apply H. apply in_map. apply in_zrange. exact Ht.
  - intros H x Hx. apply in_map_iff in Hx as (t & <- & Ht). apply H. apply in_zrange. exact Ht.
Qed.
Lemma zmin_lb (f : Z -> V) lo hi z : leb z (zmin f lo hi) = true <-> forall t, lo <= t <= hi -> leb z (f t) = true.
Proof.
  unfold zmin. rewrite minl_lb. split.
  - intros H t Ht. apply H. apply in_map. apply in_zrange. exact Ht.
  - intros H x Hx. apply in_map_iff in Hx as (t & <- & Ht). apply H. apply in_zrange. exact Ht.
Qed.

Lemma zmax_ext (f g : Z -> V) lo hi : (forall t, lo <= t <= hi -> f t = g t) -> zmax f lo hi = zmax g lo hi.
Proof. intros H. unfold zmax. f_equal. apply map_ext_in. intros t Ht. apply H. apply in_zrange. exact Ht. Qed.
Lemma zmin_ext (f g : Z -> V) lo hi : (forall t, lo <= t <= hi -> f t = g t) -> zmin f lo hi = zmin g lo hi.
Proof. intros H. unfold zmin. f_equal. apply map_ext_in. intros t Ht. apply H. apply in_zrange. exact Ht. Qed.

Lemma neg_zmax (f : Z -> V) lo hi : neg (zmax f lo hi) = zmin (fun t => neg (f t)) lo hi.
Proof. unfold zmax, zmin. rewrite neg_maxl, map_map. reflexivity. Qed.
Lemma neg_zmin (f : Z -> V) lo hi : neg (zmin f lo hi) = zmax (fun t => neg (f t)) lo hi.
Proof. unfold zmax, zmin. rewrite neg_minl, map_map. reflexivity. Qed.

(* a function of the tick that only depends on the grid cell t / P: tick window = index window *)
Lemma zmax_step (g : Z -> V) (G : nat -> V) P lo hi :
  0 < P -> 0 <= lo <= hi ->
  (forall t, lo <= t <= hi -> g t = G (Z.to_nat (t / P))) ->
  zmax g lo hi = wmax G (Z.to_nat (lo / P)) (Z.to_nat (hi / P)).
Proof.
  intros HP Hl Hg. apply eq_by_ub. intros z. rewrite zmax_ub, wmax_ub. split.
  - intros H j Hj.
    assert (Hlo : lo / P <= Z.of_nat j <= hi / P).
    { assert (0 <= lo / P) by (apply Z.div_pos; lia). assert (0 <= hi / P) by (apply Z.div_pos; lia). lia. }
    set (t := Z.max lo (Z.of_nat j * P)).
    assert (Ht : lo <= t <= hi).
    { unfold t. split; [lia|]. apply Z.max_lub; [lia|].
      pose proof (Z.mul_div_le hi P HP). nia. }
    assert (Hd : t / P = Z.of_nat j).
    { unfold t. destruct (Z.max_spec lo (Z.of_nat j * P)) as [[_ ->]|[Hge ->]].
      - apply Z.div_mul. lia.
      - apply Z.le_antisymm; [lia|].
        apply Z.div_le_lower_bound; [lia|]. lia. }
    specialize (H t Ht). rewrite (Hg t Ht), Hd, Nat2Z.id in H. exact H.
  - intros H t Ht. rewrite (Hg t Ht). apply H.
    pose proof (Z.div_le_mono lo t P HP ltac:(lia)). pose proof (Z.div_le_mono t hi P HP ltac:(lia)).
    assert (0 <= lo / P) by (apply Z.div_pos; lia). lia.
Qed.
Lemma zmin_step (g : Z -> V) (G : nat -> V) P lo hi :
  0 < P -> 0 <= lo <= hi ->
  (forall t, lo <= t <= hi -> g t = G (Z.to_nat (t / P))) ->
  zmin g lo hi = wmin G (Z.to_nat (lo / P)) (Z.to_nat (hi / P)).
Proof.
  intros HP Hl Hg. apply eq_by_lb. intros z. rewrite zmin_lb, wmin_lb. split.
  - intros H j Hj.
    assert (Hlo : lo / P <= Z.of_nat j <= hi / P).
    { assert (0 <= lo / P) by (apply Z.div_pos; lia). assert (0 <= hi / P) by (apply Z.div_pos; lia). lia. }
    set (t := Z.max lo (Z.of_nat j * P)).
    assert (Ht : lo <= t <= hi).
    { unfold t. split; [lia|]. apply Z.max_lub; [lia|].
      pose proof (Z.mul_div_le hi P HP). nia. }
    assert (Hd : t / P = Z.of_nat j).
    { unfold t. destruct (Z.max_spec lo (Z.of_nat j * P)) as [[_ ->]|[Hge ->]].
      - apply Z.div_mul. lia.
      - apply Z.le_antisymm; [lia|].
        apply Z.div_le_lower_bound; [lia|]. lia. }
    specialize (H t Ht). rewrite (Hg t Ht), Hd, Nat2Z.id in H. exact H.
  - intros H t Ht. rewrite (Hg t Ht). apply H.
    pose proof (Z.div_le_mono lo t P HP ltac:(lia)). pose proof (Z.div_le_mono t hi P HP ltac:(lia)).
    assert (0 <= lo / P) by (apply Z.div_pos; lia). lia.
Qed.

End DenseFacts.
