(* DenseSat.v — C07, dense time: the sign of the tick semantics rhoZ is sound
   with respect to the Boolean dense-time semantics satZ (same windows, same
   domains), for iff/xor-free formulas. *)
From Coq Require Import List Bool Arith ZArith Lia.
From RV Require Import Val Syntax Rho ListFacts OfflineCorrect Sat Dense DenseSem DenseFacts.
Import ListNotations.
Local Open Scope Z_scope.

Section DenseSat.
Context {VS : Val} (AR : Arith VS).
Hypothesis SL : SignLaws AR.
Let pk : formula -> formula -> pkind := fun _ _ => PStd.
Variable W : list dsig.
Variable tend : Z.

Definition zex (g : Z -> bool) (lo hi : Z) : bool := existsb g (zrange lo hi).
Definition zall (g : Z -> bool) (lo hi : Z) : bool := forallb g (zrange lo hi).

Notation RZ := (rhoZ AR pk W tend).

(* Boolean dense-time STL over the ticks, with the windows and domains of rhoZ *)
Fixpoint satZ (p : formula) (t : Z) {struct p} : bool :=
  let far q := Z.max t (tend + bsum q) in
  let t0 := dstart W p in
  match p with
  | Pred c f g => pred_sat c (RZ f t) (RZ g t)
  | Not f => negb (satZ f t)
  | And f g => satZ f t && satZ g t
  | Or f g => satZ f t || satZ g t
  | Implies f g => negb (satZ f t) || satZ g t
  | Once f => zex (satZ f) t0 t
  | Hist f => zall (satZ f) t0 t
  | Since f g => zex (fun t' => satZ g t' && zall (satZ f) t' t) t0 t
  | Ev f => zex (satZ f) t (far f)
  | Alw f => zall (satZ f) t (far f)
  | Until f g => zex (fun t' => satZ g t' && zall (satZ f) t t') t (far p)
  | OnceT b e f => if t - zb b <? t0 then false else zex (satZ f) (Z.max (t - zb e) t0) (t - zb b)
  | HistT b e f => if t - zb b <? t0 then true else zall (satZ f) (Z.max (t - zb e) t0) (t - zb b)
  | SinceT b e f g =>
      if t - zb b <? t0 then false
      else zex (fun t' => satZ g t' && zall (satZ f) t' t) (Z.max (t - zb e) t0) (t - zb b)
  | EvT b e f => zex (satZ f) (t + zb b) (t + zb e)
  | AlwT b e f => zall (satZ f) (t + zb b) (t + zb e)
  | UntilT b e f g => zex (fun t' => satZ g t' && zall (satZ f) t t') (t + zb b) (t + zb e)
  | _ => false
  end.

(* Boolean/temporal structure over predicates of arithmetic terms; dense-time operators only *)
Fixpoint dbool (p : formula) : bool :=
  match p with
  | Pred _ f g => is_term f && is_term g
  | Not f | Once f | Hist f | Ev f | Alw f | OnceT _ _ f | HistT _ _ f | EvT _ _ f | AlwT _ _ f => dbool f
  | And f g | Or f g | Implies f g | Since f g | Until f g | SinceT _ _ f g | UntilT _ _ f g => dbool f && dbool g
  | _ => false
  end.

Notation pos := (pos AR).
Notation negv := (negv AR).

Lemma pos_zmax (f : Z -> V) g lo hi : (forall i, lo <= i <= hi -> pos (f i) -> g i = true) ->
  pos (zmax f lo hi) -> zex g lo hi = true.
Proof.
  intros H Hp. unfold zmax in Hp. apply (pos_maxl AR) in Hp as (x & Hx & Hpx). apply in_map_iff in Hx as (i & <- & Hi).
  apply existsb_exists. exists i. split; [exact Hi|]. apply in_zrange in Hi. apply H; assumption.
Qed.
Lemma negv_zmax (f : Z -> V) g lo hi : (forall i, lo <= i <= hi -> negv (f i) -> g i = false) ->
  negv (zmax f lo hi) -> zex g lo hi = false.
Proof.
  intros H Hn. unfold zex. destruct (existsb g (zrange lo hi)) eqn:E; [|reflexivity]. exfalso.
  apply existsb_exists in E as (i & Hi & Hg). pose proof Hi as Hi'. apply in_zrange in Hi'.
  rewrite (H i) in Hg; [discriminate|exact Hi'|].
  apply (negv_maxl AR _ Hn). apply in_map. exact Hi.
Qed.
Lemma pos_zmin (f : Z -> V) g lo hi : (forall i, lo <= i <= hi -> pos (f i) -> g i = true) ->
  pos (zmin f lo hi) -> zall g lo hi = true.
Proof.
  intros H Hp. apply forallb_forall. intros i Hi. pose proof Hi as Hi'. apply in_zrange in Hi'.
  apply H; [exact Hi'|]. apply (pos_minl AR _ Hp). apply in_map. exact Hi.
Qed.
Lemma negv_zmin (f : Z -> V) g lo hi : (forall i, lo <= i <= hi -> negv (f i) -> g i = false) ->
  negv (zmin f lo hi) -> zall g lo hi = false.
Proof.
  intros H Hn. unfold zmin in Hn. apply (negv_minl AR) in Hn as (x & Hx & Hnx). apply in_map_iff in Hx as (i & <- & Hi).
  unfold zall. destruct (forallb g (zrange lo hi)) eqn:E; [|reflexivity]. exfalso.
  rewrite forallb_forall in E. specialize (E i Hi). apply in_zrange in Hi.
  rewrite (H i) in E; [discriminate|exact Hi|exact Hnx].
Qed.

(* the since/until bodies *)
Lemma body_pos (F G : Z -> V) (sf sg : Z -> bool) lo hi t' :
  (forall i, (pos (F i) -> sf i = true)) -> (pos (G t') -> sg t' = true) ->
  pos (vmin (G t') (zmin F lo hi)) -> sg t' && zall sf lo hi = true.
Proof.
  intros HF HG Hp. apply (pos_vmin AR) in Hp as [H1 H2]. rewrite (HG H1). cbn [andb].
  apply (pos_zmin F); [intros i _; apply HF|exact H2].
Qed.
Lemma body_neg (F G : Z -> V) (sf sg : Z -> bool) lo hi t' :
  (forall i, (negv (F i) -> sf i = false)) -> (negv (G t') -> sg t' = false) ->
  negv (vmin (G t') (zmin F lo hi)) -> sg t' && zall sf lo hi = false.
Proof.
  intros HF HG Hn. apply (negv_vmin AR) in Hn as [H1|H2]; [rewrite (HG H1); reflexivity|].
  rewrite (negv_zmin F sf lo hi); [apply andb_false_r|intros i _; apply HF|exact H2].
Qed.

Theorem satZ_sound (p : formula) : dbool p = true ->
  forall t, (pos (RZ p t) -> satZ p t = true) /\ (negv (RZ p t) -> satZ p t = false).
Proof.
  induction p; intros Hb t; cbn [dbool] in Hb; try discriminate;
  try (apply andb_prop in Hb as [Hb1 Hb2]);
  try (pose proof (IHp Hb) as IH); try (pose proof (IHp1 Hb1) as IH1); try (pose proof (IHp2 Hb2) as IH2);
  cbn [rhoZ satZ].
  - (* Pred *) apply (pred_sound AR SL).
  - (* Not *) rewrite (pos_neg AR SL), (negv_neg AR SL). destruct (IH t) as [P N]. split; intros H; [rewrite (N H)|rewrite (P H)]; reflexivity.
  - (* And *) rewrite (pos_vmin AR), (negv_vmin AR). destruct (IH1 t) as [P1 N1], (IH2 t) as [P2 N2]. split.
    + intros [H1 H2]. rewrite (P1 H1), (P2 H2). reflexivity.
    + intros [H|H]; [rewrite (N1 H); reflexivity|rewrite (N2 H); apply andb_false_r].
  - (* Or *) rewrite (pos_vmax AR), (negv_vmax AR). destruct (IH1 t) as [P1 N1], (IH2 t) as [P2 N2]. split.
    + intros [H|H]; [rewrite (P1 H); reflexivity|rewrite (P2 H); apply orb_true_r].
    + intros [H1 H2]. rewrite (N1 H1), (N2 H2). reflexivity.
  - (* Implies *) rewrite (pos_vmax AR), (negv_vmax AR), (pos_neg AR SL), (negv_neg AR SL).
    destruct (IH1 t) as [P1 N1], (IH2 t) as [P2 N2]. split.
    + intros [H|H]; [rewrite (N1 H); reflexivity|rewrite (P2 H); apply orb_true_r].
    + intros [H1 H2]. rewrite (P1 H1), (N2 H2). reflexivity.
  - (* Once *) split; [apply pos_zmax|apply negv_zmax]; intros i _; apply IH.
  - (* Hist *) split; [apply pos_zmin|apply negv_zmin]; intros i _; apply IH.
  - (* Since *) split.
    + apply pos_zmax. intros i _. apply body_pos; [intros j; apply IH1|apply IH2].
    + apply negv_zmax. intros i _. apply body_neg; [intros j; apply IH1|apply IH2].
  - (* Ev *) split; [apply pos_zmax|apply negv_zmax]; intros i _; apply IH.
  - (* Alw *) split; [apply pos_zmin|apply negv_zmin]; intros i _; apply IH.
  - (* Until *) split.
    + apply pos_zmax. intros i _. apply body_pos; [intros j; apply IH1|apply IH2].
    + apply negv_zmax. intros i _. apply body_neg; [intros j; apply IH1|apply IH2].
  - (* OnceT *) destruct (t - zb b <? _).
    + split; [intros H; exfalso; exact (pos_bot AR H)|reflexivity].
    + split; [apply pos_zmax|apply negv_zmax]; intros i _; apply IH.
  - (* HistT *) destruct (t - zb b <? _).
    + split; [reflexivity|intros H; exfalso; exact (negv_top AR H)].
    + split; [apply pos_zmin|apply negv_zmin]; intros i _; apply IH.
  - (* SinceT *) destruct (t - zb b <? _).
    + split; [intros H; exfalso; exact (pos_bot AR H)|reflexivity].
    + split.
      * apply pos_zmax. intros i _. apply body_pos; [intros j; apply IH1|apply IH2].
      * apply negv_zmax. intros i _. apply body_neg; [intros j; apply IH1|apply IH2].
  - (* EvT *) split; [apply pos_zmax|apply negv_zmax]; intros i _; apply IH.
  - (* AlwT *) split; [apply pos_zmin|apply negv_zmin]; intros i _; apply IH.
  - (* UntilT *) split.
    + apply pos_zmax. intros i _. apply body_pos; [intros j; apply IH1|apply IH2].
    + apply negv_zmax. intros i _. apply body_neg; [intros j; apply IH1|apply IH2].
Qed.

End DenseSat.
