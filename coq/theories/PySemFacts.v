(* PySemFacts.v — laws of the Python primitives of PySem.v used to relate the
   generated visitor (OfflineGen.v) to the hand model (Offline.v). *)
From Coq Require Import List Bool Arith ZArith Lia.
From RV Require Import Val Syntax Rho Offline ListFacts OfflineCorrect PySem.
Import ListNotations.

Section PyFacts.
Context {A B S : Type}.

Lemma py_range_length lo hi : length (py_range lo hi) = Z.to_nat (hi - lo).
Proof. unfold py_range. rewrite map_length, seq_length. reflexivity. Qed.

Lemma map_ofnat_shift lo a n :
  map (fun k => (Z.of_nat lo + Z.of_nat k)%Z) (seq a n) = map Z.of_nat (seq (lo + a) n).
Proof.
  revert a. induction n as [|n IH]; intros a; simpl; [reflexivity|].
  f_equal; [lia|]. rewrite IH. replace (lo + Datatypes.S a) with (Datatypes.S (lo + a)) by lia. reflexivity.
Qed.

Lemma py_range_nat lo n : py_range (Z.of_nat lo) (Z.of_nat (lo + n)) = map Z.of_nat (seq lo n).
Proof.
  unfold py_range. replace (Z.to_nat (Z.of_nat (lo + n) - Z.of_nat lo)) with n by lia.
  rewrite map_ofnat_shift. replace (lo + 0) with lo by lia. reflexivity.
Qed.

Lemma py_range_0 n : py_range 0 (Z.of_nat n) = map Z.of_nat (seq 0 n).
Proof. exact (py_range_nat 0 n). Qed.

(* range(n-1, -1, -1) *)
Lemma py_range3_down n : py_range3 (Z.of_nat n - 1) (-1) (-1) = map Z.of_nat (rev (seq 0 n)).
Proof.
  unfold py_range3. change (0 <? -1)%Z with false. change (-1 <? 0)%Z with true. cbv iota.
  assert (E : Z.to_nat ((Z.of_nat n - 1 - -1 - -1 - 1) / - -1) = n).
  { change (- -1)%Z with 1%Z. rewrite Z.div_1_r. lia. }
  rewrite E.
  apply nth_ext with (d := 0%Z) (d' := Z.of_nat 0).
  - rewrite !map_length, rev_length, !seq_length. reflexivity.
  - intros k Hk. rewrite map_length, seq_length in Hk.
    rewrite (nth_map_seq _ _ _ _ 0%Z) by exact Hk.
    rewrite map_nth. rewrite rev_nth by (rewrite seq_length; exact Hk).
    rewrite seq_length, seq_nth by lia. lia.
Qed.

Lemma py_for_app l1 l2 (body : A -> S -> option S) s :
  py_for (l1 ++ l2) body s = (s' <- py_for l1 body s ;; py_for l2 body s').
Proof.
  revert s. induction l1 as [|x l1 IH]; intros s; simpl; [reflexivity|].
  destruct (body x s); [apply IH|reflexivity].
Qed.

Lemma py_for_map {C} (g : C -> A) l (body : A -> S -> option S) s :
  py_for (map g l) body s = py_for l (fun x => body (g x)) s.
Proof.
  revert s. induction l as [|x l IH]; intros s; simpl; [reflexivity|].
  destruct (body (g x) s); [apply IH|reflexivity].
Qed.

Lemma py_for_ext l (body1 body2 : A -> S -> option S) s :
  (forall x s, In x l -> body1 x s = body2 x s) -> py_for l body1 s = py_for l body2 s.
Proof.
  revert s. induction l as [|x l IH]; intros s H; simpl; [reflexivity|].
  rewrite (H x s) by (left; reflexivity).
  destruct (body2 x s); [|reflexivity]. apply IH. intros y s' Hy. apply H. right. exact Hy.
Qed.

(* a loop that cannot raise is a fold *)
Lemma py_for_fold l (body : A -> S -> option S) (f : S -> A -> S) s :
  (forall x s, In x l -> body x s = Some (f s x)) -> py_for l body s = Some (fold_left f l s).
Proof.
  revert s. induction l as [|x l IH]; intros s H; simpl; [reflexivity|].
  rewrite (H x s) by (left; reflexivity). apply IH. intros y s' Hy. apply H. right. exact Hy.
Qed.

(* the trajectory rule: the i-th iteration takes state st i to st (i+1) *)
Lemma py_for_traj (l : list A) (body : A -> S -> option S) (st : nat -> S) d :
  (forall i, i < length l -> body (nth i l d) (st i) = Some (st (Datatypes.S i))) ->
  py_for l body (st 0) = Some (st (length l)).
Proof.
  revert st. induction l as [|x l IH]; intros st H; simpl; [reflexivity|].
  assert (H0 := H 0 ltac:(simpl; lia)). simpl in H0. rewrite H0.
  apply (IH (fun i => st (Datatypes.S i))). intros i Hi. apply (H (Datatypes.S i)). simpl. lia.
Qed.

(* l[i] in range *)
Lemma py_get_nat (l : list A) i d : i < length l -> py_get l (Z.of_nat i) = Some (nth i l d).
Proof.
  intros H. unfold py_get, py_len.
  destruct (Z.of_nat i <? 0)%Z eqn:E; [apply Z.ltb_lt in E; lia|].
  replace ((0 <=? Z.of_nat i)%Z && (Z.of_nat i <? Z.of_nat (length l))%Z) with true
    by (symmetry; apply andb_true_iff; split; [apply Z.leb_le|apply Z.ltb_lt]; lia).
  rewrite Nat2Z.id. apply nth_error_nth'. exact H.
Qed.
Lemma py_get_oob (l : list A) i : length l <= i -> py_get l (Z.of_nat i) = None.
Proof.
  intros H. unfold py_get, py_len.
  destruct (Z.of_nat i <? 0)%Z eqn:E; [apply Z.ltb_lt in E; lia|].
  replace (Z.of_nat i <? Z.of_nat (length l))%Z with false by (symmetry; apply Z.ltb_ge; lia).
  rewrite andb_false_r. reflexivity.
Qed.

Lemma py_mapM_some (f : A -> option B) (g : A -> B) l :
  (forall x, In x l -> f x = Some (g x)) -> py_mapM f l = Some (map g l).
Proof.
  induction l as [|x l IH]; intros H; simpl; [reflexivity|].
  rewrite (H x) by (left; reflexivity). rewrite IH by (intros y Hy; apply H; right; exact Hy). reflexivity.
Qed.

Lemma py_repeat_single (x : A) k : py_repeat [x] (Z.of_nat k) = repeat x k.
Proof.
  unfold py_repeat. rewrite Nat2Z.id. induction k as [|k IH]; simpl; [reflexivity|]. rewrite IH. reflexivity.
Qed.

Lemma map_const_repeat {C} (x : A) (l : list C) : map (fun _ => x) l = repeat x (length l).
Proof. induction l as [|y l IH]; simpl; [reflexivity|]. rewrite IH. reflexivity. Qed.

(* l[1:], l[:-1], l[i:j] *)
Lemma py_slice_tl (l : list A) : py_slice l (Some 1%Z) None = tl l.
Proof.
  unfold py_slice, py_clip, py_len. change (1 <? 0)%Z with false. cbv iota.
  destruct l as [|x l]; [reflexivity|].
  replace (Z.min 1 (Z.of_nat (length (x :: l)))) with 1%Z by (simpl length; lia).
  change (Z.to_nat 1) with 1. simpl skipn. simpl tl.
  replace (Z.to_nat (Z.of_nat (length (x :: l)) - 1)) with (length l) by (simpl length; lia).
  apply firstn_all.
Qed.
Lemma firstn_removelast (l : list A) x : firstn (length l) (x :: l) = removelast (x :: l).
Proof.
  revert x. induction l as [|y l IH]; intros x; [reflexivity|].
  simpl length. simpl firstn. simpl removelast. f_equal. apply (IH y).
Qed.
Lemma py_slice_removelast (l : list A) : py_slice l None (Some (-1)%Z) = removelast l.
Proof.
  unfold py_slice, py_clip, py_len. change (-1 <? 0)%Z with true. cbv iota. simpl skipn.
  destruct l as [|x l]; [reflexivity|].
  replace (Z.to_nat (Z.max 0 (-1 + Z.of_nat (length (x :: l))) - 0)) with (length l) by (simpl length; lia).
  apply firstn_removelast.
Qed.
End PyFacts.

Section PyLoops.
Context {A S : Type}.

(* for k in range(lo, lo+n) with a body that cannot raise there *)
Lemma py_for_range_fold lo n (body : Z -> S -> option S) (f : S -> nat -> S) s :
  (forall k s, lo <= k < lo + n -> body (Z.of_nat k) s = Some (f s k)) ->
  py_for (py_range (Z.of_nat lo) (Z.of_nat (lo + n))) body s = Some (fold_left f (seq lo n) s).
Proof.
  intros H. rewrite py_range_nat, py_for_map. apply py_for_fold.
  intros k s' Hk. apply in_seq in Hk. apply H. exact Hk.
Qed.

Lemma py_for_range_traj n (body : Z -> S -> option S) (st : nat -> S) :
  (forall i, i < n -> body (Z.of_nat i) (st i) = Some (st (Datatypes.S i))) ->
  py_for (py_range 0 (Z.of_nat n)) body (st 0) = Some (st n).
Proof.
  intros H. rewrite py_range_0, py_for_map.
  rewrite <- (seq_length n 0) at 2. apply py_for_traj with (d := 0).
  intros i Hi. rewrite seq_length in Hi. rewrite seq_nth by exact Hi. apply H. exact Hi.
Qed.

(* an index loop is a loop over the list *)
Lemma py_for_index (l : list A) d (body : Z -> S -> option S) (body' : A -> S -> option S) s :
  (forall i s, i < length l -> body (Z.of_nat i) s = body' (nth i l d) s) ->
  py_for (py_range 0 (py_len l)) body s = py_for l body' s.
Proof.
  intros H. unfold py_len. rewrite py_range_0, py_for_map.
  rewrite (list_as_tab l d) at 2. unfold tab. rewrite py_for_map.
  apply py_for_ext. intros i s' Hi. apply in_seq in Hi. apply H. lia.
Qed.
Lemma py_for_index_down (l : list A) d (body : Z -> S -> option S) (body' : A -> S -> option S) s :
  (forall i s, i < length l -> body (Z.of_nat i) s = body' (nth i l d) s) ->
  py_for (py_range3 (py_len l - 1) (-1) (-1)) body s = py_for (rev l) body' s.
Proof.
  intros H. unfold py_len. rewrite py_range3_down, py_for_map.
  rewrite (list_as_tab l d) at 2. unfold tab. rewrite <- map_rev, py_for_map.
  apply py_for_ext. intros i s' Hi. apply in_rev, in_seq in Hi. apply H. lia.
Qed.

End PyLoops.

Section PyValFacts.
Context {VS : Val}.

Lemma py_slice_nat (l : list V) i j :
  py_slice l (Some (Z.of_nat i)) (Some (Z.of_nat j)) = slice l i j.
Proof.
  unfold py_slice, py_clip, py_len, slice.
  destruct (Z.of_nat i <? 0)%Z eqn:Ei; [apply Z.ltb_lt in Ei; lia|].
  destruct (Z.of_nat j <? 0)%Z eqn:Ej; [apply Z.ltb_lt in Ej; lia|].
  destruct (Nat.le_gt_cases (length l) i) as [H|H].
  - rewrite !skipn_all2 by lia. rewrite !firstn_nil. reflexivity.
  - replace (Z.to_nat (Z.min (Z.of_nat i) (Z.of_nat (length l)))) with i by lia.
    replace (Z.to_nat (Z.min (Z.of_nat j) (Z.of_nat (length l)) - Z.min (Z.of_nat i) (Z.of_nat (length l))))
      with (Nat.min (j - i) (length (skipn i l))) by (rewrite skipn_length; lia).
    destruct (Nat.le_gt_cases (j - i) (length (skipn i l))).
    + rewrite Nat.min_l by assumption. reflexivity.
    + rewrite Nat.min_r by lia. rewrite firstn_all, firstn_all2 by lia. reflexivity.
Qed.

Lemma py_max_list_some (l : list V) : l <> [] -> py_max_list l = Some (maxl l).
Proof.
  destruct l as [|x l]; [congruence|]. intros _. simpl. f_equal.
  rewrite (fold_left_vmax_acc (fun v => v)), map_id. reflexivity.
Qed.
Lemma py_min_list_some (l : list V) : l <> [] -> py_min_list l = Some (minl l).
Proof.
  destruct l as [|x l]; [congruence|]. intros _. simpl. f_equal.
  rewrite (fold_left_vmin_acc (fun v => v)), map_id. reflexivity.
Qed.

(* a full deque *)
Lemma dq_append_full (l : list V) m x : py_len l = m -> l <> [] -> dq_append (l, m) x = (push l x, m).
Proof.
  intros H Hl. unfold dq_append.
  destruct (m =? 0)%Z eqn:E; [apply Z.eqb_eq in E; destruct l; [congruence|unfold py_len in H; simpl in H; lia]|].
  destruct (py_len l <? m)%Z eqn:E2; [apply Z.ltb_lt in E2; lia|]. reflexivity.
Qed.
Lemma dq_append_room (l : list V) m x : (py_len l < m)%Z -> dq_append (l, m) x = (l ++ [x], m).
Proof.
  intros H. unfold dq_append.
  destruct (m =? 0)%Z eqn:E; [apply Z.eqb_eq in E; unfold py_len in H; lia|].
  destruct (py_len l <? m)%Z eqn:E2; [reflexivity|apply Z.ltb_ge in E2; lia].
Qed.
Lemma push_length (l : list V) x : l <> [] -> length (push l x) = length l.
Proof. destruct l; [congruence|]. intros _. unfold push. simpl. rewrite app_length. simpl. lia. Qed.
End PyValFacts.
