(* ExplainFacts.v — interval lists of the explainer: membership and
   well-formedness (sorted, disjoint, inside the trace) of what each
   explain_* function returns. *)
From Coq Require Import List Bool Arith Lia.
From RV Require Import Explain.
Import ListNotations.

Notation "i ∈ iv" := (inI i iv = true) (at level 70).

Lemma inI_cons i b e r : i ∈ ((b, e) :: r) <-> (b <= i <= e) \/ i ∈ r.
Proof.
  unfold inI. cbn [existsb fst snd]. rewrite orb_true_iff, andb_true_iff, !Nat.leb_le. tauto.
Qed.
Lemma inI_nil i : ~ i ∈ [].
Proof. unfold inI. cbn. discriminate. Qed.
Lemma inI_app i l1 l2 : i ∈ (l1 ++ l2) <-> i ∈ l1 \/ i ∈ l2.
Proof. unfold inI. rewrite existsb_app, orb_true_iff. tauto. Qed.
Lemma inI_In i l : i ∈ l <-> exists b e, In (b, e) l /\ b <= i <= e.
Proof.
  unfold inI. rewrite existsb_exists. split.
  - intros ([b e] & Hin & H). cbn [fst snd] in H. apply andb_true_iff in H as [H1 H2].
    apply Nat.leb_le in H1, H2. exists b, e. auto.
  - intros (b & e & Hin & H). exists (b, e). split; [exact Hin|]. cbn [fst snd].
    apply andb_true_iff. rewrite !Nat.leb_le. lia.
Qed.
Lemma inI_flat_map {A} i (f : A -> list ivl) l : i ∈ (flat_map f l) <-> exists x, In x l /\ i ∈ (f x).
Proof.
  induction l as [|x l IH]; cbn [flat_map].
  - split; [intros H; destruct (inI_nil _ H)|intros (x & [] & _)].
  - rewrite inI_app, IH. split.
    + intros [H|(y & Hy & H)]; [exists x; split; [left; reflexivity|exact H]|exists y; split; [right; exact Hy|exact H]].
    + intros (y & [<-|Hy] & H); [left; exact H|right; exists y; split; assumption].
Qed.

(* ---------------- well-formed interval lists ---------------- *)
Fixpoint wfI (n : nat) (iv : list ivl) : Prop :=
  match iv with
  | [] => True
  | (b, e) :: r => b <= e /\ e < n /\ match r with [] => True | (b', _) :: _ => e < b' end /\ wfI n r
  end.
Definition lbI (lo : nat) (iv : list ivl) : Prop := forall b e, In (b, e) iv -> lo <= b.
Definition ubI (hi : nat) (iv : list ivl) : Prop := forall b e, In (b, e) iv -> e <= hi.

Lemma wfI_cons n b e r : b <= e -> e < n -> lbI (S e) r -> wfI n r -> wfI n ((b, e) :: r).
Proof.
  intros H1 H2 H3 H4. cbn [wfI]. repeat split; auto.
  destruct r as [|[b' e'] r']; [exact I|]. specialize (H3 b' e' (or_introl eq_refl)). lia.
Qed.
Lemma wfI_tail n x r : wfI n (x :: r) -> wfI n r.
Proof. destruct x. cbn [wfI]. tauto. Qed.
Lemma wfI_lb n b e r : wfI n ((b, e) :: r) -> lbI (S e) r.
Proof.
  revert b e. induction r as [|[b' e'] r IH]; intros b e H b0 e0 Hin; [destruct Hin|].
  cbn [wfI] in H. destruct H as (H1 & H2 & H3 & H4).
  destruct Hin as [E|Hin]; [injection E as <- <-; lia|].
  assert (Hr := IH b' e' H4 b0 e0 Hin). cbn [wfI] in H4. lia.
Qed.
Lemma wfI_each n iv b e : wfI n iv -> In (b, e) iv -> b <= e /\ e < n.
Proof.
  induction iv as [|[b' e'] r IH]; intros H Hin; [destruct Hin|].
  destruct Hin as [E|Hin]; [injection E as <- <-; cbn [wfI] in H; tauto|].
  apply IH; [eapply wfI_tail; eauto|exact Hin].
Qed.
(* the first interval starts first, the last one ends last *)
Lemma wfI_first n b e r : wfI n ((b, e) :: r) -> lbI b ((b, e) :: r).
Proof.
  intros H b0 e0 [E|Hin]; [injection E as <- <-; lia|].
  pose proof (wfI_lb _ _ _ _ H b0 e0 Hin). cbn [wfI] in H. lia.
Qed.
Lemma wfI_last n iv : wfI n iv -> ubI (last_end iv) iv.
Proof.
  unfold last_end. induction iv as [|[b e] r IH]; intros H b0 e0 Hin; [destruct Hin|].
  destruct r as [|x r'].
  - destruct Hin as [E|[]]. injection E as <- <-. cbn. lia.
  - change (last ((b, e) :: x :: r') (0, 0)) with (last (x :: r') (0, 0)).
    destruct Hin as [E|Hin].
    + injection E as <- <-. destruct x as [b' e'].
      assert (H' := wfI_tail _ _ _ H). specialize (IH H' b' e' (or_introl eq_refl)).
      cbn [wfI] in H. lia.
    + apply (IH (wfI_tail _ _ _ H) b0 e0 Hin).
Qed.
Lemma wfI_app n l1 l2 :
  wfI n l1 -> wfI n l2 -> (forall b e b' e', In (b, e) l1 -> In (b', e') l2 -> e < b') -> wfI n (l1 ++ l2).
Proof.
  induction l1 as [|[b e] r IH]; intros H1 H2 H; [exact H2|].
  cbn [app]. apply wfI_cons.
  - cbn [wfI] in H1. tauto.
  - cbn [wfI] in H1. tauto.
  - intros b' e' Hin. apply in_app_or in Hin as [Hin|Hin].
    + apply (wfI_lb _ _ _ _ H1 b' e' Hin).
    + specialize (H b e b' e' (or_introl eq_refl) Hin). lia.
  - apply IH; [exact (wfI_tail _ _ _ H1)|exact H2|].
    intros b1 e1 b2 e2 Hi1 Hi2. apply (H b1 e1 b2 e2); [right; exact Hi1|exact Hi2].
Qed.
Lemma wfI_single n b e : b <= e -> e < n -> wfI n [(b, e)].
Proof. intros. cbn. auto. Qed.

(* ---------------- scan ---------------- *)
Lemma scan_in test : forall k i st j,
  (forall s, st = Some s -> s <= i) ->
  ((exists s, st = Some s /\ s <= j < i) \/ (i <= j < i + k /\ test j = true)) ->
  j ∈ (scan test i k st).
Proof.
  induction k as [|k IH]; intros i st j Hst Hj; cbn [scan].
  - destruct Hj as [(s & -> & Hj)|[Hj _]]; [|lia]. apply inI_cons. left. lia.
  - destruct st as [s|]; destruct (test i) eqn:Ti.
    + (* open run continues *) apply IH.
      * intros s' E. injection E as <-. specialize (Hst s eq_refl). lia.
      * destruct Hj as [(s' & E & Hj)|[Hj Tj]].
        -- injection E as <-. left. exists s. split; [reflexivity|lia].
        -- destruct (Nat.eq_dec j i) as [->|Hne].
           ++ left. exists s. split; [reflexivity|]. specialize (Hst s eq_refl). lia.
           ++ right. split; [lia|exact Tj].
    + (* run closes at i-1 *) apply inI_cons.
      destruct Hj as [(s' & E & Hj)|[Hj Tj]].
      * injection E as <-. left. lia.
      * right. apply IH; [discriminate|]. right. split; [|exact Tj].
        destruct (Nat.eq_dec j i) as [->|Hne]; [congruence|lia].
    + (* run opens at i *) apply IH.
      * intros s' E. injection E as <-. lia.
      * destruct Hj as [(s' & E & _)|[Hj Tj]]; [discriminate|].
        destruct (Nat.eq_dec j i) as [->|Hne].
        -- left. exists i. split; [reflexivity|lia].
        -- right. split; [lia|exact Tj].
    + apply IH; [discriminate|].
      destruct Hj as [(s' & E & _)|[Hj Tj]]; [discriminate|].
      right. split; [|exact Tj]. destruct (Nat.eq_dec j i) as [->|Hne]; [congruence|lia].
Qed.

Lemma scan_wf n test : forall k i st,
  (forall s, st = Some s -> s < i) -> i + k <= n ->
  wfI n (scan test i k st) /\
  lbI (match st with Some s => s | None => i end) (scan test i k st) /\
  ubI (i + k - 1) (scan test i k st).
Proof.
  induction k as [|k IH]; intros i st Hst Hn; cbn [scan].
  - destruct st as [s|].
    + specialize (Hst s eq_refl). split; [apply wfI_single; lia|]. split.
      * intros b e [E|[]]. injection E as <- <-. lia.
      * intros b e [E|[]]. injection E as <- <-. lia.
    + split; [exact I|]. split; intros b e [].
  - destruct st as [s|]; destruct (test i) eqn:Ti.
    + destruct (IH (S i) (Some s)) as (W & L & U); [intros s' E; injection E as <-; specialize (Hst s eq_refl); lia|lia|].
      split; [exact W|]. split; [exact L|]. intros b e Hin. specialize (U b e Hin). lia.
    + destruct (IH (S i) None) as (W & L & U); [discriminate|lia|].
      specialize (Hst s eq_refl).
      split; [apply wfI_cons; [lia|lia| |exact W]|].
      * intros b e Hin. specialize (L b e Hin). lia.
      * split.
        -- intros b e [E|Hin]; [injection E as <- <-; lia|]. specialize (L b e Hin). lia.
        -- intros b e [E|Hin]; [injection E as <- <-; lia|]. specialize (U b e Hin). lia.
    + destruct (IH (S i) (Some i)) as (W & L & U); [intros s' E; injection E as <-; lia|lia|].
      split; [exact W|]. split; [exact L|]. intros b e Hin. specialize (U b e Hin). lia.
    + destruct (IH (S i) None) as (W & L & U); [discriminate|lia|].
      split; [exact W|]. split.
      * intros b e Hin. specialize (L b e Hin). lia.
      * intros b e Hin. specialize (U b e Hin). lia.
Qed.

(* ---------------- runs ---------------- *)
Lemma runs_in test iv j : j ∈ iv -> test j = true -> j ∈ (runs test iv).
Proof.
  intros Hj Tj. apply inI_In in Hj as (b & e & Hin & Hj).
  unfold runs. apply inI_flat_map. exists (b, e). split; [exact Hin|]. cbn [fst snd].
  apply scan_in; [discriminate|]. right. split; [lia|exact Tj].
Qed.

Lemma runs_wf n test iv : wfI n iv -> wfI n (runs test iv).
Proof.
  induction iv as [|[b e] r IH]; intros H; [exact I|].
  unfold runs. cbn [flat_map fst snd]. fold (runs test r).
  pose proof H as H'. cbn [wfI] in H'. destruct H' as (H1 & H2 & _ & H4).
  destruct (scan_wf n test (S e - b) b None) as (W & L & U); [discriminate|lia|].
  apply wfI_app; [exact W|apply IH; exact H4|].
  intros b1 e1 b2 e2 Hin1 Hin2.
  specialize (U b1 e1 Hin1).
  unfold runs in Hin2. apply in_flat_map in Hin2 as ([b' e'] & Hin' & Hin2). cbn [fst snd] in Hin2.
  pose proof (wfI_lb _ _ _ _ H b' e' Hin') as Hlb.
  destruct (wfI_each _ _ _ _ H4 Hin') as [Hbe He].
  destruct (scan_wf n test (S e' - b') b' None) as (_ & L' & _); [discriminate|lia|].
  specialize (L' b2 e2 Hin2). cbn in L'. lia.
Qed.

(* ---------------- interval_union ---------------- *)
Lemma ins_in x l y : In y (ins x l) <-> y = x \/ In y l.
Proof.
  induction l as [|z l IH]; cbn [ins].
  - cbn. intuition.
  - destruct (ivl_leb x z); cbn [In]; [intuition|]. rewrite IH. intuition.
Qed.
Lemma isort_in l y : In y (isort l) <-> In y l.
Proof.
  induction l as [|x l IH]; cbn [isort fold_right]; [tauto|].
  fold (isort l). rewrite ins_in, IH. cbn [In]. intuition.
Qed.
Fixpoint sb (l : list ivl) : Prop :=
  match l with [] => True | x :: r => (forall y, In y r -> fst x <= fst y) /\ sb r end.
Lemma ins_sb x l : sb l -> sb (ins x l).
Proof.
  induction l as [|z l IH]; intros H; cbn [ins]; [cbn; split; [intros y []|exact I]|].
  destruct H as [Hz Hl]. destruct (ivl_leb x z) eqn:E.
  - cbn [sb]. split; [|split; assumption].
    assert (fst x <= fst z).
    { unfold ivl_leb in E. apply orb_true_iff in E as [E|E]; [apply Nat.ltb_lt in E; lia|].
      apply andb_true_iff in E as [E _]. apply Nat.eqb_eq in E. lia. }
    intros y [<-|Hy]; [assumption|]. specialize (Hz y Hy). lia.
  - cbn [sb]. split; [|apply IH; exact Hl].
    intros y Hy. apply ins_in in Hy as [->|Hy]; [|apply Hz; exact Hy].
    unfold ivl_leb in E. apply orb_false_iff in E as [E _]. apply Nat.ltb_ge in E. exact E.
Qed.
Lemma isort_sb l : sb (isort l).
Proof. induction l as [|x l IH]; [exact I|]. cbn [isort fold_right]. apply ins_sb. exact IH. Qed.

Lemma merge_in : forall l cur j, sb (cur :: l) -> j ∈ (cur :: l) -> j ∈ (merge_from cur l).
Proof.
  induction l as [|[b e] r IH]; intros [cb ce] j Hs Hj; cbn [merge_from]; [exact Hj|].
  destruct Hs as [Hc Hs]. cbn [snd fst].
  destruct (b - 1 <=? ce) eqn:E.
  - apply IH.
    + cbn [sb fst]. split; [|exact (proj2 Hs)]. intros y Hy. apply (Hc y). right. exact Hy.
    + apply inI_cons in Hj as [Hj|Hj]; [apply inI_cons; left; lia|].
      apply inI_cons in Hj as [Hj|Hj]; [|apply inI_cons; right; exact Hj].
      apply inI_cons. left. specialize (Hc (b, e) (or_introl eq_refl)). cbn [fst] in Hc. lia.
  - apply inI_cons in Hj as [Hj|Hj]; [apply inI_cons; left; exact Hj|].
    apply inI_cons. right. apply IH; [exact Hs|exact Hj].
Qed.
Lemma merge_wf n : forall l cur,
  sb (cur :: l) -> (forall b e, In (b, e) (cur :: l) -> b <= e /\ e < n) ->
  wfI n (merge_from cur l) /\ lbI (fst cur) (merge_from cur l).
Proof.
  induction l as [|[b e] r IH]; intros [cb ce] Hs Hr; cbn [merge_from fst snd].
  - destruct (Hr cb ce (or_introl eq_refl)). split; [apply wfI_single; assumption|].
    intros b0 e0 [E|[]]. injection E as <- <-. lia.
  - destruct Hs as [Hc Hs].
    destruct (Hr cb ce (or_introl eq_refl)) as [Hc1 Hc2].
    destruct (Hr b e (or_intror (or_introl eq_refl))) as [Hb1 Hb2].
    destruct (b - 1 <=? ce) eqn:E.
    + destruct (IH (cb, Nat.max ce e)) as [W L].
      * cbn [sb fst]. split; [|exact (proj2 Hs)]. intros y Hy. apply (Hc y). right. exact Hy.
      * intros b0 e0 [E0|Hin]; [injection E0 as <- <-; lia|]. apply Hr. right. right. exact Hin.
      * split; assumption.
    + apply Nat.leb_gt in E.
      destruct (IH (b, e) Hs) as [W L].
      * intros b0 e0 Hin. apply Hr. right. exact Hin.
      * cbn [fst] in L. split.
        -- apply wfI_cons; [lia|lia| |exact W]. intros b0 e0 Hin. specialize (L b0 e0 Hin). lia.
        -- intros b0 e0 [E0|Hin]; [injection E0 as <- <-; lia|]. specialize (L b0 e0 Hin).
           specialize (Hc (b, e) (or_introl eq_refl)). cbn [fst] in Hc. lia.
Qed.

Lemma iunion_in l j : j ∈ l -> j ∈ (iunion l).
Proof.
  intros Hj. unfold iunion. pose proof (isort_sb l) as Hs.
  assert (Hj' : j ∈ (isort l)).
  { apply inI_In in Hj as (b & e & Hin & Hj). apply inI_In. exists b, e. split; [apply isort_in; exact Hin|exact Hj]. }
  destruct (isort l) as [|x r]; [exact Hj'|]. apply merge_in; assumption.
Qed.
Lemma iunion_wf n l : (forall b e, In (b, e) l -> b <= e /\ e < n) -> wfI n (iunion l).
Proof.
  intros H. unfold iunion. pose proof (isort_sb l) as Hs.
  assert (H' : forall b e, In (b, e) (isort l) -> b <= e /\ e < n) by (intros b e Hin; apply H, isort_in, Hin).
  destruct (isort l) as [|x r]; [exact I|]. apply merge_wf; assumption.
Qed.

(* ---------------- explain_prev / explain_next ---------------- *)
Lemma e_prev_in iv i : S i ∈ iv -> i ∈ (e_prev iv).
Proof.
  intros H. apply inI_In in H as (b & e & Hin & H). unfold e_prev. apply inI_flat_map. exists (b, e). split; [exact Hin|].
  cbn [fst snd]. destruct (Nat.ltb_spec 0 b) as [Hb|Hb]; destruct (Nat.ltb_spec 0 e) as [He|He]; cbn [andb]; try lia.
  - apply inI_cons. left. lia.
  - assert (E : (b <=? 0) = true) by (apply Nat.leb_le; lia). rewrite E. apply inI_cons. left. lia.
Qed.
Lemma e_next_in n iv i : i ∈ iv -> S i < n -> S i ∈ (e_next n iv).
Proof.
  intros H Hn. apply inI_In in H as (b & e & Hin & H). unfold e_next. apply inI_flat_map. exists (b, e). split; [exact Hin|].
  cbn [fst snd]. assert (Eb : (b <? n - 1) = true) by (apply Nat.ltb_lt; lia). rewrite Eb. cbn [andb].
  destruct (e <? n - 1) eqn:Ee.
  - apply inI_cons. left. lia.
  - apply Nat.ltb_ge in Ee. assert (Ee' : (n - 1 <=? e) = true) by (apply Nat.leb_le; lia). rewrite Ee'.
    apply inI_cons. left. lia.
Qed.

Lemma flat_map_wf {n} (f : ivl -> list ivl) :
  (forall b e, b <= e -> e < n -> wfI n (f (b, e))) ->
  (forall b e b' e' x y x' y', b <= e -> e < b' -> b' <= e' -> In (x, y) (f (b, e)) -> In (x', y') (f (b', e')) -> y < x') ->
  forall iv, wfI n iv -> wfI n (flat_map f iv).
Proof.
  intros Hf Hsep. induction iv as [|[b e] r IH]; intros H; [exact I|].
  cbn [flat_map]. pose proof H as H'. cbn [wfI] in H'. destruct H' as (H1 & H2 & _ & H4).
  apply wfI_app; [apply Hf; assumption|apply IH; exact H4|].
  intros x y x' y' Hin1 Hin2. apply in_flat_map in Hin2 as ([b' e'] & Hin' & Hin2).
  pose proof (wfI_lb _ _ _ _ H b' e' Hin'). destruct (wfI_each _ _ _ _ H4 Hin').
  apply (Hsep b e b' e' x y x' y'); try assumption; lia.
Qed.

Lemma e_prev_wf n iv : wfI n iv -> wfI n (e_prev iv).
Proof.
  unfold e_prev. apply flat_map_wf.
  - intros b e Hbe He. cbn [fst snd].
    destruct (Nat.ltb_spec 0 b) as [Hb|Hb]; destruct (Nat.ltb_spec 0 e) as [He'|He']; cbn [andb]; try exact I.
    + apply wfI_single; lia.
    + destruct (b <=? 0); exact I.
    + assert (E : (b <=? 0) = true) by (apply Nat.leb_le; lia). rewrite E. apply wfI_single; lia.
    + destruct (b <=? 0); exact I.
  - intros b e b' e' x y x' y' Hbe Hsep Hbe' H1 H2. cbn [fst snd] in H1, H2.
    destruct (Nat.ltb_spec 0 b) as [Hb|Hb]; destruct (Nat.ltb_spec 0 e) as [He|He]; cbn [andb] in H1;
    destruct (Nat.ltb_spec 0 b') as [Hb'|Hb']; destruct (Nat.ltb_spec 0 e') as [He'|He']; cbn [andb] in H2;
    repeat match goal with
    | H : In _ (if ?c then _ else _) |- _ => destruct c eqn:?; [|destruct H; fail]
    | H : In _ [_] |- _ => destruct H as [H|[]]; injection H as <- <-
    | H : In _ [] |- _ => destruct H
    end; lia.
Qed.
Lemma e_next_wf n iv : wfI n iv -> wfI n (e_next n iv).
Proof.
  unfold e_next. apply flat_map_wf.
  - intros b e Hbe He. cbn [fst snd].
    destruct (b <? n - 1) eqn:Eb; destruct (e <? n - 1) eqn:Ee; cbn [andb]; try exact I.
    + apply Nat.ltb_lt in Eb, Ee. apply wfI_single; lia.
    + apply Nat.ltb_lt in Eb. apply Nat.ltb_ge in Ee. destruct (n - 1 <=? e); [apply wfI_single; lia|exact I].
  - intros b e b' e' x y x' y' Hbe Hsep Hbe' H1 H2. cbn [fst snd] in H1, H2.
    destruct (b <? n - 1) eqn:Eb; destruct (e <? n - 1) eqn:Ee; cbn [andb] in H1; try (destruct H1; fail);
    destruct (b' <? n - 1) eqn:Eb'; destruct (e' <? n - 1) eqn:Ee'; cbn [andb] in H2; try (destruct H2; fail);
    repeat match goal with
    | H : In _ (if ?c then _ else _) |- _ => destruct c eqn:?; [|destruct H; fail]
    | H : In _ [_] |- _ => destruct H as [H|[]]; injection H as <- <-
    | H : In _ [] |- _ => destruct H
    | H : (_ <? _) = true |- _ => apply Nat.ltb_lt in H
    | H : (_ <? _) = false |- _ => apply Nat.ltb_ge in H
    | H : (_ <=? _) = true |- _ => apply Nat.leb_le in H
    end; lia.
Qed.

(* ---------------- unbounded and bounded temporal operators ---------------- *)
Lemma wfI_pos n iv i : wfI n iv -> i ∈ iv -> i < n.
Proof. intros H Hi. apply inI_In in Hi as (b & e & Hin & Hi). destruct (wfI_each _ _ _ _ H Hin). lia. Qed.
Lemma last_In (iv : list ivl) d : iv <> [] -> In (last iv d) iv.
Proof.
  induction iv as [|x r IH]; [congruence|]. intros _. destruct r as [|y r']; [left; reflexivity|].
  right. apply IH. discriminate.
Qed.
Lemma last_end_lt n iv : wfI n iv -> iv <> [] -> last_end iv < n.
Proof.
  intros H Hne. unfold last_end. pose proof (last_In iv (0, 0) Hne) as Hin.
  destruct (last iv (0, 0)) as [b e]. destruct (wfI_each _ _ _ _ H Hin). cbn. lia.
Qed.

Section Temporal.
Variable n : nat.
Variable iv : list ivl.
Hypothesis Hwf : wfI n iv.

Lemma first_le i : i ∈ iv -> match iv with [] => False | (b, _) :: _ => b <= i end.
Proof.
  intros Hi. destruct iv as [|[b e] r]; [destruct (inI_nil _ Hi)|].
  apply inI_In in Hi as (b' & e' & Hin & Hi). pose proof (wfI_first _ _ _ _ Hwf b' e' Hin). lia.
Qed.
Lemma le_last i : i ∈ iv -> i <= last_end iv.
Proof. intros Hi. apply inI_In in Hi as (b & e & Hin & Hi). pose proof (wfI_last _ _ Hwf b e Hin). lia. Qed.

Lemma e_from_first_in i j : i ∈ iv -> i <= j < n -> j ∈ (e_from_first n iv).
Proof.
  intros Hi Hj. pose proof (first_le i Hi) as H. unfold e_from_first. destruct iv as [|[b e] r]; [destruct H|].
  apply inI_cons. left. lia.
Qed.
Lemma e_from_first_wf : wfI n (e_from_first n iv).
Proof.
  unfold e_from_first. destruct iv as [|[b e] r]; [exact I|]. cbn [wfI] in Hwf. apply wfI_single; lia.
Qed.
Lemma e_scan_future_in test i j : i ∈ iv -> i <= j < n -> test j = true -> j ∈ (e_scan_future n test iv).
Proof.
  intros Hi Hj Tj. pose proof (first_le i Hi) as H. unfold e_scan_future. destruct iv as [|[b e] r]; [destruct H|].
  apply scan_in; [discriminate|]. right. split; [lia|exact Tj].
Qed.
Lemma e_scan_future_wf test : wfI n (e_scan_future n test iv).
Proof.
  unfold e_scan_future. destruct iv as [|[b e] r]; [exact I|]. cbn [wfI] in Hwf.
  apply (scan_wf n test (n - b) b None); [discriminate|lia].
Qed.
Lemma e_upto_last_in i j : i ∈ iv -> j <= i -> j ∈ (e_upto_last iv).
Proof.
  intros Hi Hj. pose proof (le_last i Hi). unfold e_upto_last. destruct iv; [destruct (inI_nil _ Hi)|].
  apply inI_cons. left. lia.
Qed.
Lemma e_upto_last_wf : wfI n (e_upto_last iv).
Proof.
  unfold e_upto_last. destruct iv as [|x r] eqn:E; [exact I|]. rewrite <- E in *.
  apply wfI_single; [lia|]. apply last_end_lt; [exact Hwf|rewrite E; discriminate].
Qed.
Lemma e_scan_past_in test i j : i ∈ iv -> j <= i -> test j = true -> j ∈ (e_scan_past test iv).
Proof.
  intros Hi Hj Tj. pose proof (le_last i Hi). unfold e_scan_past. destruct iv; [destruct (inI_nil _ Hi)|].
  apply scan_in; [discriminate|]. right. split; [lia|exact Tj].
Qed.
Lemma e_scan_past_wf test : wfI n (e_scan_past test iv).
Proof.
  unfold e_scan_past. destruct iv as [|x r] eqn:E; [exact I|]. rewrite <- E in *.
  assert (last_end iv < n) by (apply last_end_lt; [exact Hwf|rewrite E; discriminate]).
  apply (scan_wf n test (S (last_end iv)) 0 None); [discriminate|lia].
Qed.

Lemma e_window_in sh b e j : In (b, e) iv -> fst (sh (b, e)) <= j <= snd (sh (b, e)) -> j ∈ (e_window sh iv).
Proof.
  intros Hin Hj. unfold e_window. apply iunion_in. apply inI_In.
  exists (fst (sh (b, e))), (snd (sh (b, e))). split; [|exact Hj].
  rewrite <- surjective_pairing. apply in_map. exact Hin.
Qed.
Lemma e_scan_window_in sh test b e j :
  In (b, e) iv -> fst (sh (b, e)) <= j <= snd (sh (b, e)) -> test j = true -> j ∈ (e_scan_window sh test iv).
Proof.
  intros Hin Hj Tj. unfold e_scan_window. apply iunion_in. apply runs_in; [|exact Tj]. apply inI_In.
  exists (fst (sh (b, e))), (snd (sh (b, e))). split; [|exact Hj].
  rewrite <- surjective_pairing. apply in_map. exact Hin.
Qed.

Definition sh_ok (sh : ivl -> ivl) : Prop := forall b e, b <= e -> e < n -> fst (sh (b, e)) <= snd (sh (b, e)) /\ snd (sh (b, e)) < n.
Lemma map_sh_each sh : sh_ok sh -> forall x y, In (x, y) (map sh iv) -> x <= y /\ y < n.
Proof.
  intros Hs x y Hin. apply in_map_iff in Hin as ([b e] & E & Hin).
  destruct (wfI_each _ _ _ _ Hwf Hin) as [H1 H2]. specialize (Hs b e H1 H2). rewrite E in Hs. exact Hs.
Qed.
Lemma e_window_wf sh : sh_ok sh -> wfI n (e_window sh iv).
Proof. intros Hs. apply iunion_wf. apply map_sh_each. exact Hs. Qed.
Lemma e_scan_window_wf sh test : sh_ok sh -> wfI n (e_scan_window sh test iv).
Proof.
  intros Hs. apply iunion_wf. intros x y Hin. unfold runs in Hin.
  apply in_flat_map in Hin as ([b e] & Hin' & Hin). cbn [fst snd] in Hin.
  destruct (map_sh_each sh Hs b e Hin') as [H1 H2].
  destruct (scan_wf n test (S e - b) b None) as (W & _ & _); [discriminate|lia|].
  apply (wfI_each _ _ _ _ W Hin).
Qed.
End Temporal.

Lemma fwd_ok n a b : a <= b -> sh_ok n (fwd n a b).
Proof. intros Hab x y Hxy Hy. unfold fwd. cbn [fst snd]. lia. Qed.
Lemma bwd_ok n a b : a <= b -> sh_ok n (bwd a b).
Proof. intros Hab x y Hxy Hy. unfold bwd. cbn [fst snd]. lia. Qed.
