(* PastifyGenCorrect.v — the functions that tools/py2coq_pastifier.py generates from
   rtamt/pastifier/{ltl,stl}/{horizon,pastifier}.py (PastifyGen.v) compute what the hand model
   Pastify.v says, through the erasure NodeName.erase from the syntax nodes (bounds = exact
   rationals with unit texts) to core formulas (bounds = numbers of sampling periods).

   STL:  for a node n whose bounds are whole numbers of periods (erase n = Some f), f bounded-future with begin <= end,
     gen_stl_pastify du sample n = Some m   and   erase m = Some (pastify DelayOnce f (hor f))
   where sample = period / default unit (self.sample); the horizon the generated visitor computes is hor f periods.
   LTL:  the same for gen_ltl_pastify on nodes of LTL classes, with DelayPrev.
   [rel q k]: the Fraction q (in default units) is k sampling periods. *)
From Coq Require Import List Bool Arith ZArith QArith Qreduction Lia String Morphisms.
From RV Require Import Val Syntax Rho Offline Units NodeName PySem PySemFacts PyNode PastifyGen Pastify.
Import ListNotations.
Local Open Scope Q_scope.

(* ---------------------------------------------------------------- numbers *)
Lemma bound_q_nonneg b : 0 <= bound_q b.
Proof. unfold bound_q, Qle. cbn [Qnum Qden]. lia. Qed.

Lemma nn_bound_q q : 0 <= q -> bound_q (nn_bound q) == q.
Proof.
  intros Hq. transitivity (Qred q); [|apply Qred_correct].
  assert (H0 : 0 <= Qred q) by (rewrite Qred_correct; exact Hq).
  unfold nn_bound, bound_q. cbn [bnum bden]. destruct (Qred q) as [a d].
  unfold Qle in H0. cbn [Qnum Qden] in *. rewrite Z2N.id by lia. reflexivity.
Qed.

Lemma nn_bound_unit q : bunit (nn_bound q) = None.
Proof. reflexivity. Qed.

Lemma q_bound_nonneg q : 0 <= q -> q_bound q = Some (nn_bound q).
Proof.
  intros Hq. unfold q_bound. destruct (Qnum q <? 0)%Z eqn:E; [|reflexivity].
  apply Z.ltb_lt in E. unfold Qle in Hq. cbn [Qnum Qden] in Hq. lia.
Qed.

Lemma uval_nz u : ~ inject_Z (uval u) == 0.
Proof. destruct u; discriminate. Qed.

Lemma Qred_inject z : Qred (inject_Z z) = inject_Z z.
Proof.
  unfold Qred, inject_Z. pose proof (Z.ggcd_gcd z 1) as Hg. pose proof (Z.ggcd_correct_divisors z 1) as Hd.
  destruct (Z.ggcd z 1) as [g [a b]]. cbn [fst snd] in *. rewrite Z.gcd_1_r in Hg. subst g. destruct Hd as [Ha Hb].
  rewrite Z.mul_1_l in Ha, Hb. subst a b. reflexivity.
Qed.
Lemma is_int_inject z : is_int (inject_Z z) = true.
Proof. unfold is_int. rewrite Qred_inject. reflexivity. Qed.
Lemma to_nat_q_inject k : to_nat_q (inject_Z (Z.of_nat k)) = k.
Proof. unfold to_nat_q. rewrite Qred_inject. cbn. apply Nat2Z.id. Qed.

Section Stl.
Context {VS : Val}.
Variable vidx : string -> string -> nat.
Variable cval : string -> V.
Variable du : tunit.
Variable p : Z.
Variable pu : tunit.
Hypothesis Hp : (0 < p)%Z.

Let s : Q := sample_of du p pu.
Notation er := (erase vidx cval du p pu).

Lemma period_pos : 0 < period_ns p pu.
Proof. unfold period_ns. change 0 with (inject_Z 0). rewrite <- Zlt_Qlt. destruct pu; cbn; lia. Qed.
Lemma period_nz : ~ period_ns p pu == 0.
Proof. intros Hc. pose proof period_pos as H. rewrite Hc in H. exact (Qlt_irrefl 0 H). Qed.

Lemma s_pos : 0 < s.
Proof.
  unfold s, sample_of. apply Qlt_shift_div_l; [destruct du; reflexivity|]. rewrite Qmult_0_l. exact period_pos.
Qed.

Definition rel (q : Q) (k : nat) : Prop := q == inject_Z (Z.of_nat k) * s.

Global Instance rel_proper : Proper (Qeq ==> eq ==> iff) rel.
Proof. intros a b Hab x y <-. unfold rel. rewrite Hab. reflexivity. Qed.

Lemma rel_0 : rel (inject_Z 0) 0.
Proof. unfold rel. cbn. ring. Qed.
Lemma rel_s : rel s 1.
Proof. unfold rel. cbn. ring. Qed.
Lemma rel_plus a b x y : rel a x -> rel b y -> rel (a + b) (x + y).
Proof. unfold rel. intros -> ->. rewrite Nat2Z.inj_add, inject_Z_plus. ring. Qed.
Lemma rel_S a x : rel a x -> rel (a + s) (S x).
Proof. intros H. replace (S x) with (x + 1)%nat by lia. apply rel_plus; [exact H|exact rel_s]. Qed.
Lemma rel_minus a b x y : rel a x -> rel b y -> (y <= x)%nat -> rel (a - b) (x - y).
Proof.
  unfold rel. intros -> -> Hle. rewrite Nat2Z.inj_sub by exact Hle. unfold Z.sub. rewrite inject_Z_plus, inject_Z_opp. ring.
Qed.
Lemma rel_pred a x : rel a x -> (1 <= x)%nat -> rel (a - s) (x - 1).
Proof. intros H Hx. apply rel_minus; [exact H|exact rel_s|exact Hx]. Qed.

Lemma rel_le a b x y : rel a x -> rel b y -> (a <= b <-> (x <= y)%nat).
Proof.
  unfold rel. intros -> ->. rewrite (Qmult_le_r _ _ _ s_pos), <- Zle_Qle. lia.
Qed.
Lemma rel_nonneg a x : rel a x -> 0 <= a.
Proof. intros H. change 0 with (inject_Z 0). apply (rel_le _ _ _ _ rel_0 H). lia. Qed.

Lemma q_gt_rel a b x y : rel a x -> rel b y -> q_gt a b = (y <? x)%nat.
Proof.
  intros Ha Hb. unfold q_gt. pose proof (rel_le _ _ _ _ Ha Hb) as H. pose proof (Qle_bool_iff a b) as Hi.
  destruct (Qle_bool a b); destruct (y <? x)%nat eqn:E; try reflexivity.
  - apply Nat.ltb_lt in E. assert (x <= y)%nat by (apply H, Hi; reflexivity). lia.
  - apply Nat.ltb_ge in E. assert (true = true) by reflexivity. apply H in E. apply Hi in E. discriminate.
Qed.
Lemma q_gt0_rel a x : rel a x -> q_gt a (inject_Z 0) = (0 <? x)%nat.
Proof. intros H. apply q_gt_rel; [exact H|exact rel_0]. Qed.

Lemma rel_max a b x y : rel a x -> rel b y -> rel (q_max a b) (Nat.max x y).
Proof.
  intros Ha Hb. unfold q_max. rewrite (q_gt_rel _ _ _ _ Hb Ha).
  destruct (x <? y)%nat eqn:E; [apply Nat.ltb_lt in E; rewrite Nat.max_r by lia; exact Hb|apply Nat.ltb_ge in E; rewrite Nat.max_l by lia; exact Ha].
Qed.

Lemma q_bound_rel q k : rel q k -> q_bound q = Some (nn_bound q).
Proof. intros H. apply q_bound_nonneg. exact (rel_nonneg _ _ H). Qed.
Lemma nn_rel q k : rel q k -> rel (bound_q (nn_bound q)) k.
Proof. intros H. rewrite nn_bound_q; [exact H|exact (rel_nonneg _ _ H)]. Qed.

(* ---------------------------------------------------------------- bounds written without a unit <-> numbers of periods *)
Lemma samples_rel b e kb ke : bunit b = None -> bunit e = None ->
  to_samples du p pu (itv_of b e) = Ok (kb, ke) -> rel (bound_q b) kb /\ rel (bound_q e) ke.
Proof.
  intros Hb He Ht.
  destruct (to_samples_exact du p pu (itv_of b e) kb ke Hp (bound_q_nonneg b) (bound_q_nonneg e) Ht) as [E1 E2].
  unfold begin_ns, end_ns, resolve, ns in E1, E2. cbn [ib ie ibu ieu itv_of] in E1, E2. rewrite Hb, He in E1, E2. cbn [fst snd] in E1, E2.
  unfold rel, s, sample_of. change (uval du # 1) with (inject_Z (uval du)). pose proof (uval_nz du) as Hu.
  split.
  - apply (Qmult_inj_r _ _ (inject_Z (uval du)) Hu). rewrite <- E1. field. exact Hu.
  - apply (Qmult_inj_r _ _ (inject_Z (uval du)) Hu). rewrite <- E2. field. exact Hu.
Qed.

Lemma rel_samples b e kb ke : bunit b = None -> bunit e = None -> rel (bound_q b) kb -> rel (bound_q e) ke ->
  to_samples du p pu (itv_of b e) = Ok (kb, ke).
Proof.
  intros Hb He Rb Re. unfold rel in Rb, Re. unfold to_samples. pose proof (uval_nz du) as Hu. pose proof period_nz as Hn.
  assert (E1 : begin_ns du (itv_of b e) / period_ns p pu == inject_Z (Z.of_nat kb)).
  { unfold begin_ns, resolve, ns. cbn [ib ie ibu ieu itv_of]. rewrite Hb, He. cbn [fst snd]. rewrite Rb. unfold s, sample_of.
    change (uval du # 1) with (inject_Z (uval du)). field. split; assumption. }
  assert (E2 : end_ns du (itv_of b e) / period_ns p pu == inject_Z (Z.of_nat ke)).
  { unfold end_ns, resolve, ns. cbn [ib ie ibu ieu itv_of]. rewrite Hb, He. cbn [fst snd]. rewrite Re. unfold s, sample_of.
    change (uval du # 1) with (inject_Z (uval du)). field. split; assumption. }
  rewrite (is_int_ext _ _ E1), (is_int_ext _ _ E2), (to_nat_q_ext _ _ E1), (to_nat_q_ext _ _ E2), !is_int_inject, !to_nat_q_inject.
  reflexivity.
Qed.


(* ---------------------------------------------------------------- the horizon visitor *)
Local Hint Resolve rel_0 rel_s rel_plus rel_S rel_max nn_rel : relq.

Lemma gen_hor_ok : forall n f, unitless n = true -> er n = Some f -> bounded_future f = true ->
  exists h, gen_StlHorizon s n = Some h /\ rel h (hor f).
Proof.
  induction n as [v fd|t|o c IH|o b e c IH|o c1 IH1 c2 IH2|o c1 IH1 c2 IH2|o b e c1 IH1 c2 IH2]; intros f Hu He Hb;
    revert He; cbn [erase]; cbn [unitless] in Hu.
  - intros He. injection He as <-. eexists. split; [reflexivity|exact rel_0].
  - intros He. injection He as <-. eexists. split; [reflexivity|exact rel_0].
  - destruct (er c) as [g|] eqn:Ec; [|discriminate]. cbn [option_map]. intros He. injection He as <-.
    destruct o; cbn [un_formula bounded_future] in Hb; try discriminate Hb;
      destruct (IH g Hu eq_refl Hb) as [h [Hh Rh]]; cbn [gen_StlHorizon]; rewrite Hh; eexists; (split; [reflexivity|]);
      cbn [un_formula hor]; eauto with relq.
  - destruct (bunit b) eqn:Ub; [discriminate|]. destruct (bunit e) eqn:Ue; [discriminate|].
    destruct (to_samples du p pu (itv_of b e)) as [[kb ke]| |] eqn:Et; try discriminate.
    destruct (er c) as [g|] eqn:Ec; [|discriminate]. intros He. injection He as <-.
    destruct (samples_rel b e kb ke Ub Ue Et) as [Rb Re].
    destruct o; cbn [tun_formula bounded_future] in Hb;
      destruct (IH g Hu eq_refl Hb) as [h [Hh Rh]]; cbn [gen_StlHorizon]; rewrite Hh; eexists; (split; [reflexivity|]);
      cbn [tun_formula hor]; unfold q_of_bound; eauto with relq.
  - apply andb_prop in Hu. destruct Hu as [Hu1 Hu2].
    destruct (er c1) as [g1|] eqn:Ec1; [|discriminate]. destruct (er c2) as [g2|] eqn:Ec2; [|discriminate]. intros He. injection He as <-.
    destruct o; cbn [fn2_formula bounded_future] in Hb; apply andb_prop in Hb; destruct Hb as [Hb1 Hb2];
      destruct (IH1 g1 Hu1 eq_refl Hb1) as [h1 [Hh1 Rh1]]; destruct (IH2 g2 Hu2 eq_refl Hb2) as [h2 [Hh2 Rh2]];
      cbn [gen_StlHorizon]; rewrite Hh1, Hh2; eexists; (split; [reflexivity|]); cbn [fn2_formula hor]; eauto with relq.
  - apply andb_prop in Hu. destruct Hu as [Hu1 Hu2].
    destruct (er c1) as [g1|] eqn:Ec1; [|discriminate]. destruct (er c2) as [g2|] eqn:Ec2; [|discriminate]. intros He. injection He as <-.
    destruct o; cbn [bin_formula bounded_future] in Hb; try discriminate Hb; apply andb_prop in Hb; destruct Hb as [Hb1 Hb2];
      destruct (IH1 g1 Hu1 eq_refl Hb1) as [h1 [Hh1 Rh1]]; destruct (IH2 g2 Hu2 eq_refl Hb2) as [h2 [Hh2 Rh2]];
      cbn [gen_StlHorizon]; rewrite Hh1, Hh2; eexists; (split; [reflexivity|]); cbn [bin_formula hor]; eauto with relq.
  - destruct (bunit b) eqn:Ub; [discriminate|]. destruct (bunit e) eqn:Ue; [discriminate|].
    apply andb_prop in Hu. destruct Hu as [Hu1 Hu2].
    destruct (to_samples du p pu (itv_of b e)) as [[kb ke]| |] eqn:Et; try discriminate.
    destruct (er c1) as [g1|] eqn:Ec1; [|discriminate]. destruct (er c2) as [g2|] eqn:Ec2; [|discriminate]. intros He. injection He as <-.
    destruct (samples_rel b e kb ke Ub Ue Et) as [Rb Re].
    destruct o; cbn [tbin_formula bounded_future] in Hb; apply andb_prop in Hb; destruct Hb as [Hb1 Hb2];
      destruct (IH1 g1 Hu1 eq_refl Hb1) as [h1 [Hh1 Rh1]]; destruct (IH2 g2 Hu2 eq_refl Hb2) as [h2 [Hh2 Rh2]];
      cbn [gen_StlHorizon]; rewrite Hh1, Hh2; eexists; (split; [reflexivity|]); cbn [tbin_formula hor]; unfold q_of_bound; eauto with relq.
Qed.


(* ---------------------------------------------------------------- the pastifier *)
Arguments gen_StlHorizon : simpl never.

(* the two goals that remain once the generated clause has been evaluated: the new tree has no units and erases to the hand model *)
Ltac fin_unitless := cbn [unitless]; rewrite ?nn_bound_unit; repeat match goal with U : unitless _ = true |- _ => rewrite U; clear U end; reflexivity.
Ltac fin_erase := cbn [erase]; repeat match goal with E : er _ = Some _ |- _ => rewrite E; clear E end; cbn [option_map]; reflexivity.

Lemma gen_past_ok : forall n f, unitless n = true -> er n = Some f -> bounded_future f = true -> wf_bounds f = true ->
  forall H Hs, rel H Hs -> (hor f <= Hs)%nat ->
  exists m, gen_StlPastifier s n H = Some m /\ unitless m = true /\ er m = Some (pastify DelayOnce f Hs).
Proof.
  induction n as [v fd|t|o c IH|o b e c IH|o c1 IH1 c2 IH2|o c1 IH1 c2 IH2|o b e c1 IH1 c2 IH2]; intros f Hu He Hb Hw H Hs RH Hle;
    pose proof (gen_hor_ok _ _ Hu He Hb) as [h [Hh Rh]]; revert He; cbn [erase]; cbn [unitless] in Hu.
  - (* Variable *)
    intros He. injection He as <-. cbn [gen_StlPastifier pastify]. unfold delay.
    rewrite (q_gt0_rel _ _ RH), ?(q_bound_rel _ _ RH). destruct (0 <? Hs)%nat; eexists; (split; [reflexivity|]); (split; [fin_unitless|]).
    + cbn [erase]. rewrite (rel_samples _ _ _ _ (nn_bound_unit _) (nn_bound_unit _) (nn_rel _ _ RH) (nn_rel _ _ RH)). reflexivity.
    + reflexivity.
  - (* Constant *)
    intros He. injection He as <-. eexists. split; [reflexivity|]. split; reflexivity.
  - (* unary classes *)
    destruct (er c) as [g|] eqn:Ec; [|discriminate]. cbn [option_map]. intros He. injection He as <-.
    assert (Rd : rel (H - h) (Hs - hor (un_formula o g))) by (apply rel_minus; assumption).
    destruct o; cbn [un_formula bounded_future wf_bounds hor] in Hb, Hw, Hle, Rh, Rd; try discriminate Hb.
    all: try (destruct (IH g Hu eq_refl Hb Hw h (hor g) Rh (le_n _)) as [m1 [Hm1 [Um1 Em1]]];
      cbn [gen_StlPastifier]; rewrite Hh; cbv beta iota; rewrite Hm1, (q_gt0_rel _ _ Rd), ?(q_bound_rel _ _ Rd);
      cbn [un_formula pastify hor]; unfold delay;
      destruct (0 <? Hs - hor g)%nat; eexists; (split; [reflexivity|]); (split; [fin_unitless|]);
      cbn [erase]; rewrite ?(rel_samples _ _ _ _ (nn_bound_unit _) (nn_bound_unit _) (nn_rel _ _ Rd) (nn_rel _ _ Rd));
      fin_erase).
    (* next, s_next *)
    all: assert (Rn : rel (H - s) (Hs - 1)) by (apply rel_pred; [assumption|lia]);
      destruct (IH g Hu eq_refl Hb Hw (H - s) (Hs - 1)%nat Rn ltac:(lia)) as [m1 [Hm1 [Um1 Em1]]];
      cbn [gen_StlPastifier]; rewrite Hm1; eexists; (split; [reflexivity|]); (split; [exact Um1|]);
      cbn [un_formula pastify]; exact Em1.
  - (* unary classes with an interval *)
    destruct (bunit b) eqn:Ub; [discriminate|]. destruct (bunit e) eqn:Ue; [discriminate|].
    destruct (to_samples du p pu (itv_of b e)) as [[kb ke]| |] eqn:Et; try discriminate.
    destruct (er c) as [g|] eqn:Ec; [|discriminate]. intros He. injection He as <-.
    destruct (samples_rel b e kb ke Ub Ue Et) as [Rb Re].
    assert (Rd : rel (H - h) (Hs - hor (tun_formula o kb ke g))) by (apply rel_minus; assumption).
    destruct o; cbn [tun_formula bounded_future wf_bounds hor] in Hb, Hw, Hle, Rh, Rd;
      apply andb_prop in Hw; destruct Hw as [Hwb Hw]; apply Nat.leb_le in Hwb.
    + (* once[b,e]: the delay goes into the bounds *)
      destruct (IH g Hu eq_refl Hb Hw h (hor g) Rh (le_n _)) as [m1 [Hm1 [Um1 Em1]]].
      assert (Rb1 : rel (bound_q b + (H - h)) (kb + (Hs - hor g))) by (apply rel_plus; assumption).
      assert (Re1 : rel (bound_q e + (H - h)) (ke + (Hs - hor g))) by (apply rel_plus; assumption).
      cbn [gen_StlPastifier]. unfold q_of_bound. rewrite Hh. cbv beta iota.
      rewrite Hm1, (q_gt0_rel _ _ Rd), (q_bound_rel _ _ Rb1), (q_bound_rel _ _ Re1), (q_bound_rel _ _ Rb), (q_bound_rel _ _ Re).
      cbn [tun_formula pastify hor].
      destruct (0 <? Hs - hor g)%nat eqn:E; eexists; (split; [reflexivity|]); (split; [fin_unitless|]); cbn [erase].
      * rewrite (rel_samples _ _ _ _ (nn_bound_unit _) (nn_bound_unit _) (nn_rel _ _ Rb1) (nn_rel _ _ Re1)). fin_erase.
      * rewrite (rel_samples _ _ _ _ (nn_bound_unit _) (nn_bound_unit _) (nn_rel _ _ Rb) (nn_rel _ _ Re)).
        apply Nat.ltb_ge in E. assert (D0 : (Hs - hor g = 0)%nat) by lia. rewrite D0, !Nat.add_0_r. fin_erase.
    + (* historically[b,e] *)
      destruct (IH g Hu eq_refl Hb Hw h (hor g) Rh (le_n _)) as [m1 [Hm1 [Um1 Em1]]].
      cbn [gen_StlPastifier]. unfold q_of_bound. rewrite Hh. cbv beta iota.
      rewrite Hm1, (q_gt0_rel _ _ Rd), ?(q_bound_rel _ _ Rd), (q_bound_rel _ _ Rb), (q_bound_rel _ _ Re).
      cbn [tun_formula pastify hor]. unfold delay.
      destruct (0 <? Hs - hor g)%nat; eexists; (split; [reflexivity|]); (split; [fin_unitless|]); cbn [erase];
        rewrite ?(rel_samples _ _ _ _ (nn_bound_unit _) (nn_bound_unit _) (nn_rel _ _ Rd) (nn_rel _ _ Rd)),
                (rel_samples _ _ _ _ (nn_bound_unit _) (nn_bound_unit _) (nn_rel _ _ Rb) (nn_rel _ _ Re)); fin_erase.
    + (* eventually[b,e] *)
      assert (Rn : rel (H - bound_q e) (Hs - ke)) by (apply rel_minus; [assumption|assumption|lia]).
      assert (Rw : rel (bound_q e - bound_q b) (ke - kb)) by (apply rel_minus; assumption).
      destruct (IH g Hu eq_refl Hb Hw _ _ Rn ltac:(lia)) as [m1 [Hm1 [Um1 Em1]]].
      cbn [gen_StlPastifier]. unfold q_of_bound. rewrite Hm1, (q_gt0_rel _ _ Rw), (q_bound_rel _ _ rel_0), (q_bound_rel _ _ Rw).
      cbn [tun_formula pastify hor].
      destruct (0 <? ke - kb)%nat; eexists; (split; [reflexivity|]); (split; [fin_unitless|]); cbn [erase];
        rewrite ?(rel_samples _ _ _ _ (nn_bound_unit _) (nn_bound_unit _) (nn_rel _ _ rel_0) (nn_rel _ _ Rw)); fin_erase.
    + (* always[b,e] *)
      assert (Rn : rel (H - bound_q e) (Hs - ke)) by (apply rel_minus; [assumption|assumption|lia]).
      assert (Rw : rel (bound_q e - bound_q b) (ke - kb)) by (apply rel_minus; assumption).
      destruct (IH g Hu eq_refl Hb Hw _ _ Rn ltac:(lia)) as [m1 [Hm1 [Um1 Em1]]].
      cbn [gen_StlPastifier]. unfold q_of_bound. rewrite Hm1, (q_gt0_rel _ _ Rw), (q_bound_rel _ _ rel_0), (q_bound_rel _ _ Rw).
      cbn [tun_formula pastify hor].
      destruct (0 <? ke - kb)%nat; eexists; (split; [reflexivity|]); (split; [fin_unitless|]); cbn [erase];
        rewrite ?(rel_samples _ _ _ _ (nn_bound_unit _) (nn_bound_unit _) (nn_rel _ _ rel_0) (nn_rel _ _ Rw)); fin_erase.
  - (* pow, log *)
    apply andb_prop in Hu. destruct Hu as [Hu1 Hu2].
    destruct (er c1) as [g1|] eqn:Ec1; [|discriminate]. destruct (er c2) as [g2|] eqn:Ec2; [|discriminate]. intros He. injection He as <-.
    assert (Rd : rel (H - h) (Hs - hor (fn2_formula o g1 g2))) by (apply rel_minus; assumption).
    destruct o; cbn [fn2_formula bounded_future wf_bounds hor] in Hb, Hw, Hle, Rh, Rd;
      apply andb_prop in Hb; destruct Hb as [Hb1 Hb2]; apply andb_prop in Hw; destruct Hw as [Hw1 Hw2];
      destruct (IH1 g1 Hu1 eq_refl Hb1 Hw1 h _ Rh (Nat.le_max_l _ _)) as [m1 [Hm1 [Um1 Em1]]];
      destruct (IH2 g2 Hu2 eq_refl Hb2 Hw2 h _ Rh (Nat.le_max_r _ _)) as [m2 [Hm2 [Um2 Em2]]];
      cbn [gen_StlPastifier]; rewrite Hh; cbv beta iota; rewrite Hm1, Hm2, (q_gt0_rel _ _ Rd), ?(q_bound_rel _ _ Rd);
      cbn [fn2_formula pastify hor]; unfold delay;
      destruct (0 <? Hs - Nat.max (hor g1) (hor g2))%nat; eexists; (split; [reflexivity|]); (split; [fin_unitless|]);
      cbn [erase]; rewrite ?(rel_samples _ _ _ _ (nn_bound_unit _) (nn_bound_unit _) (nn_rel _ _ Rd) (nn_rel _ _ Rd));
      fin_erase.
  - (* binary classes *)
    apply andb_prop in Hu. destruct Hu as [Hu1 Hu2].
    destruct (er c1) as [g1|] eqn:Ec1; [|discriminate]. destruct (er c2) as [g2|] eqn:Ec2; [|discriminate]. intros He. injection He as <-.
    assert (Rd : rel (H - h) (Hs - hor (bin_formula o g1 g2))) by (apply rel_minus; assumption).
    destruct o; cbn [bin_formula bounded_future wf_bounds hor] in Hb, Hw, Hle, Rh, Rd; try discriminate Hb;
      apply andb_prop in Hb; destruct Hb as [Hb1 Hb2]; apply andb_prop in Hw; destruct Hw as [Hw1 Hw2];
      destruct (IH1 g1 Hu1 eq_refl Hb1 Hw1 h _ Rh (Nat.le_max_l _ _)) as [m1 [Hm1 [Um1 Em1]]];
      destruct (IH2 g2 Hu2 eq_refl Hb2 Hw2 h _ Rh (Nat.le_max_r _ _)) as [m2 [Hm2 [Um2 Em2]]];
      cbn [gen_StlPastifier]; rewrite Hh; cbv beta iota; rewrite Hm1, Hm2, (q_gt0_rel _ _ Rd), ?(q_bound_rel _ _ Rd);
      cbn [bin_formula pastify hor]; unfold delay;
      destruct (0 <? Hs - Nat.max (hor g1) (hor g2))%nat; eexists; (split; [reflexivity|]); (split; [fin_unitless|]);
      cbn [erase]; rewrite ?(rel_samples _ _ _ _ (nn_bound_unit _) (nn_bound_unit _) (nn_rel _ _ Rd) (nn_rel _ _ Rd));
      fin_erase.
  - (* binary classes with an interval *)
    destruct (bunit b) eqn:Ub; [discriminate|]. destruct (bunit e) eqn:Ue; [discriminate|].
    apply andb_prop in Hu. destruct Hu as [Hu1 Hu2].
    destruct (to_samples du p pu (itv_of b e)) as [[kb ke]| |] eqn:Et; try discriminate.
    destruct (er c1) as [g1|] eqn:Ec1; [|discriminate]. destruct (er c2) as [g2|] eqn:Ec2; [|discriminate]. intros He. injection He as <-.
    destruct (samples_rel b e kb ke Ub Ue Et) as [Rb Re].
    assert (Rd : rel (H - h) (Hs - hor (tbin_formula o kb ke g1 g2))) by (apply rel_minus; assumption).
    destruct o; cbn [tbin_formula bounded_future wf_bounds hor] in Hb, Hw, Hle, Rh, Rd;
      apply andb_prop in Hb; destruct Hb as [Hb1 Hb2]; apply andb_prop in Hw; destruct Hw as [Hw1 Hw2];
      apply andb_prop in Hw1; destruct Hw1 as [Hwb Hw1]; apply Nat.leb_le in Hwb.
    + (* since[b,e] *)
      destruct (IH1 g1 Hu1 eq_refl Hb1 Hw1 h _ Rh (Nat.le_max_l _ _)) as [m1 [Hm1 [Um1 Em1]]];
      destruct (IH2 g2 Hu2 eq_refl Hb2 Hw2 h _ Rh (Nat.le_max_r _ _)) as [m2 [Hm2 [Um2 Em2]]];
      cbn [gen_StlPastifier]; unfold q_of_bound; rewrite Hh; cbv beta iota;
      rewrite Hm1, Hm2, (q_gt0_rel _ _ Rd), ?(q_bound_rel _ _ Rd), (q_bound_rel _ _ Rb), (q_bound_rel _ _ Re);
      cbn [tbin_formula pastify hor]; unfold delay;
      destruct (0 <? Hs - Nat.max (hor g1) (hor g2))%nat; eexists; (split; [reflexivity|]); (split; [fin_unitless|]);
      cbn [erase]; rewrite ?(rel_samples _ _ _ _ (nn_bound_unit _) (nn_bound_unit _) (nn_rel _ _ Rd) (nn_rel _ _ Rd)),
                           (rel_samples _ _ _ _ (nn_bound_unit _) (nn_bound_unit _) (nn_rel _ _ Rb) (nn_rel _ _ Re));
      fin_erase.
    + (* until[b,e] *)
      assert (Rn : rel (H - bound_q e) (Hs - ke)) by (apply rel_minus; [assumption|assumption|lia]).
      destruct (IH1 g1 Hu1 eq_refl Hb1 Hw1 _ _ Rn ltac:(lia)) as [m1 [Hm1 [Um1 Em1]]];
      destruct (IH2 g2 Hu2 eq_refl Hb2 Hw2 _ _ Rn ltac:(lia)) as [m2 [Hm2 [Um2 Em2]]];
      cbn [gen_StlPastifier]; unfold q_of_bound; rewrite Hm1, Hm2, (q_bound_rel _ _ Rb), (q_bound_rel _ _ Re);
      cbn [tbin_formula pastify hor];
      eexists; (split; [reflexivity|]); (split; [fin_unitless|]);
      cbn [erase]; rewrite (rel_samples _ _ _ _ (nn_bound_unit _) (nn_bound_unit _) (nn_rel _ _ Rb) (nn_rel _ _ Re));
      fin_erase.
    + (* precedes[b,e] *)
      destruct (IH1 g1 Hu1 eq_refl Hb1 Hw1 h _ Rh (Nat.le_max_l _ _)) as [m1 [Hm1 [Um1 Em1]]];
      destruct (IH2 g2 Hu2 eq_refl Hb2 Hw2 h _ Rh (Nat.le_max_r _ _)) as [m2 [Hm2 [Um2 Em2]]];
      cbn [gen_StlPastifier]; unfold q_of_bound; rewrite Hh; cbv beta iota;
      rewrite Hm1, Hm2, (q_gt0_rel _ _ Rd), ?(q_bound_rel _ _ Rd), (q_bound_rel _ _ Rb), (q_bound_rel _ _ Re);
      cbn [tbin_formula pastify hor]; unfold delay;
      destruct (0 <? Hs - Nat.max (hor g1) (hor g2))%nat; eexists; (split; [reflexivity|]); (split; [fin_unitless|]);
      cbn [erase]; rewrite ?(rel_samples _ _ _ _ (nn_bound_unit _) (nn_bound_unit _) (nn_rel _ _ Rd) (nn_rel _ _ Rd)),
                           (rel_samples _ _ _ _ (nn_bound_unit _) (nn_bound_unit _) (nn_rel _ _ Rb) (nn_rel _ _ Re));
      fin_erase.
Qed.


(* ---------------------------------------------------------------- to_default_unit and pastify() *)
Lemma begin_ns_unitless b' e' : bunit b' = None -> bunit e' = None -> begin_ns du (itv_of b' e') = ns (bound_q b') du.
Proof. intros Hb He. unfold begin_ns, resolve. cbn [ib ie ibu ieu itv_of]. rewrite Hb, He. reflexivity. Qed.
Lemma end_ns_unitless b' e' : bunit b' = None -> bunit e' = None -> end_ns du (itv_of b' e') = ns (bound_q e') du.
Proof. intros Hb He. unfold end_ns, resolve. cbn [ib ie ibu ieu itv_of]. rewrite Hb, He. reflexivity. Qed.

Lemma default_bounds_ok b e :
  bunit (fst (default_bounds du b e)) = None /\ bunit (snd (default_bounds du b e)) = None /\
  to_samples du p pu (itv_of (fst (default_bounds du b e)) (snd (default_bounds du b e))) = to_samples du p pu (itv_of b e).
Proof.
  unfold default_bounds. destruct (resolve du (itv_of b e)) as [bu eu] eqn:R. cbn [fst snd].
  split; [reflexivity|]. split; [reflexivity|].
  assert (Hnn : forall x u, 0 <= bound_q x * (uval u # 1) / (uval du # 1)).
  { intros x u. apply Qle_shift_div_l; [destruct du; reflexivity|]. rewrite Qmult_0_l.
    apply Qmult_le_0_compat; [apply bound_q_nonneg|destruct u; discriminate]. }
  pose proof (uval_nz du) as Hu.
  apply to_samples_spelling; [| |reflexivity].
  - rewrite begin_ns_unitless by reflexivity. change (begin_ns du (itv_of b e)) with (ns (bound_q b) (fst (resolve du (itv_of b e)))).
    rewrite R. cbn [fst]. unfold ns. rewrite nn_bound_q by apply Hnn.
    change (uval du # 1) with (inject_Z (uval du)). change (uval bu # 1) with (inject_Z (uval bu)). field. exact Hu.
  - rewrite end_ns_unitless by reflexivity. change (end_ns du (itv_of b e)) with (ns (bound_q e) (snd (resolve du (itv_of b e)))).
    rewrite R. cbn [snd]. unfold ns. rewrite nn_bound_q by apply Hnn.
    change (uval du # 1) with (inject_Z (uval du)). change (uval eu # 1) with (inject_Z (uval eu)). field. exact Hu.
Qed.

(* to_default_unit removes the unit texts and does not change what the bounds mean *)
Lemma to_default_ok n : unitless (to_default_unit du n) = true /\ er (to_default_unit du n) = er n.
Proof.
  induction n as [v fd|t|o c [IHu IHe]|o b e c [IHu IHe]|o c1 [IHu1 IHe1] c2 [IHu2 IHe2]|o c1 [IHu1 IHe1] c2 [IHu2 IHe2]|o b e c1 [IHu1 IHe1] c2 [IHu2 IHe2]];
    cbn [to_default_unit]; try (split; reflexivity).
  - cbn [unitless erase]. rewrite IHe. split; [exact IHu|reflexivity].
  - destruct (default_bounds_ok b e) as [U1 [U2 T]]. destruct (default_bounds du b e) as [b' e']. cbn [fst snd] in *.
    cbn [unitless erase]. rewrite U1, U2, T, IHe. split; [exact IHu|reflexivity].
  - cbn [unitless erase]. rewrite IHe1, IHe2, IHu1, IHu2. split; reflexivity.
  - cbn [unitless erase]. rewrite IHe1, IHe2, IHu1, IHu2. split; reflexivity.
  - destruct (default_bounds_ok b e) as [U1 [U2 T]]. destruct (default_bounds du b e) as [b' e']. cbn [fst snd] in *.
    cbn [unitless erase]. rewrite U1, U2, T, IHe1, IHe2, IHu1, IHu2. split; reflexivity.
Qed.

(* pastify() of the discrete-time STL specification, as generated from the code: on a specification whose bounds are whole numbers of
   sampling periods, in whatever units they are written, the result erases to the hand model's pastified formula, and the horizon the
   code computes (in default units) is hor f periods *)
Theorem gen_stl_pastify_ok n f :
  er n = Some f -> bounded_future f = true -> wf_bounds f = true ->
  exists h m, gen_StlHorizon s (to_default_unit du n) = Some h /\ rel h (hor f) /\
              gen_stl_pastify du s n = Some m /\ unitless m = true /\ er m = Some (pastify DelayOnce f (hor f)).
Proof.
  intros He Hb Hw. destruct (to_default_ok n) as [Hu He']. rewrite <- He' in He.
  destruct (gen_hor_ok _ _ Hu He Hb) as [h [Hh Rh]].
  destruct (gen_past_ok _ _ Hu He Hb Hw h (hor f) Rh (le_n _)) as [m [Hm [Um Em]]].
  exists h, m. unfold gen_stl_pastify. rewrite Hh. repeat split; assumption.
Qed.

End Stl.

(* ---------------------------------------------------------------- LTL: ints, delays by nested previous *)
Section Ltl.
Context {VS : Val}.
Variable vidx : string -> string -> nat.
Variable cval : string -> V.
Variable du : tunit.
Variable p : Z.
Variable pu : tunit.
Notation er := (erase vidx cval du p pu).

Lemma z_max_nat x y : z_max (Z.of_nat x) (Z.of_nat y) = Z.of_nat (Nat.max x y).
Proof. unfold z_max, z_gt. destruct (Z.gtb_spec (Z.of_nat y) (Z.of_nat x)); lia. Qed.
Lemma z_gt0_nat x : z_gt (Z.of_nat x) 0 = (0 <? x)%nat.
Proof. unfold z_gt. destruct (Z.gtb_spec (Z.of_nat x) 0); destruct (Nat.ltb_spec 0 x); try reflexivity; lia. Qed.

Lemma gen_ltl_hor_ok : forall n f, ltl_node n = true -> er n = Some f -> bounded_future f = true ->
  gen_LtlHorizon n = Some (Z.of_nat (hor f)).
Proof.
  induction n as [v fd|t|o c IH|o b e c IH|o c1 IH1 c2 IH2|o c1 IH1 c2 IH2|o b e c1 IH1 c2 IH2]; intros f Hu He Hb;
    revert He; cbn [erase]; cbn [ltl_node] in Hu; try discriminate Hu.
  - intros He. injection He as <-. reflexivity.
  - intros He. injection He as <-. reflexivity.
  - destruct (er c) as [g|] eqn:Ec; [|discriminate]. cbn [option_map]. intros He. injection He as <-.
    destruct o; cbn [un_formula bounded_future] in Hb; try discriminate Hb;
      cbn [gen_LtlHorizon]; rewrite (IH g Hu eq_refl Hb); cbn [un_formula hor]; try reflexivity;
      rewrite Nat2Z.inj_succ, Z.add_1_r; reflexivity.
  - apply andb_prop in Hu. destruct Hu as [Hu1 Hu2].
    destruct (er c1) as [g1|] eqn:Ec1; [|discriminate]. destruct (er c2) as [g2|] eqn:Ec2; [|discriminate]. intros He. injection He as <-.
    destruct o; cbn [fn2_formula bounded_future] in Hb; apply andb_prop in Hb; destruct Hb as [Hb1 Hb2];
      cbn [gen_LtlHorizon]; rewrite (IH1 g1 Hu1 eq_refl Hb1), (IH2 g2 Hu2 eq_refl Hb2); cbn [fn2_formula hor]; rewrite z_max_nat; reflexivity.
  - apply andb_prop in Hu. destruct Hu as [Hu1 Hu2].
    destruct (er c1) as [g1|] eqn:Ec1; [|discriminate]. destruct (er c2) as [g2|] eqn:Ec2; [|discriminate]. intros He. injection He as <-.
    destruct o; cbn [bin_formula bounded_future] in Hb; try discriminate Hb; apply andb_prop in Hb; destruct Hb as [Hb1 Hb2];
      cbn [gen_LtlHorizon]; rewrite (IH1 g1 Hu1 eq_refl Hb1), (IH2 g2 Hu2 eq_refl Hb2); cbn [bin_formula hor]; rewrite z_max_nat; reflexivity.
Qed.

(* for i in range(d): node = Previous(node) *)
Fixpoint nprevs (d : nat) (x : node) : node := match d with O => x | S d' => NUn u_prev (nprevs d' x) end.
Lemma loop_prevs d x : py_for (py_range 0 (Z.of_nat d)) (fun (_ : Z) nd => Some (NUn u_prev nd)) x = Some (nprevs d x).
Proof. apply PySemFacts.py_for_range_traj with (st := fun i => nprevs i x). intros i Hi. reflexivity. Qed.
Lemma nprevs_ltl d x : ltl_node (nprevs d x) = ltl_node x.
Proof. induction d as [|d IH]; [reflexivity|exact IH]. Qed.
Lemma nprevs_erase d x : er (nprevs d x) = option_map (prevs d) (er x).
Proof.
  induction d as [|d IH]; cbn [nprevs prevs erase]; [destruct (er x); reflexivity|].
  rewrite IH. destruct (er x); reflexivity.
Qed.

Arguments gen_LtlHorizon : simpl never.

Lemma gen_ltl_past_ok : forall n f, ltl_node n = true -> er n = Some f -> bounded_future f = true ->
  forall Hs, (hor f <= Hs)%nat ->
  exists m, gen_LtlPastifier n (Z.of_nat Hs) = Some m /\ ltl_node m = true /\ er m = Some (pastify DelayPrev f Hs).
Proof.
  induction n as [v fd|t|o c IH|o b e c IH|o c1 IH1 c2 IH2|o c1 IH1 c2 IH2|o b e c1 IH1 c2 IH2]; intros f Hu He Hb Hs Hle;
    pose proof (gen_ltl_hor_ok _ _ Hu He Hb) as Hh; revert He; cbn [erase]; cbn [ltl_node] in Hu; try discriminate Hu.
  - intros He. injection He as <-. cbn [gen_LtlPastifier]. rewrite loop_prevs. eexists. split; [reflexivity|].
    split; [rewrite nprevs_ltl; reflexivity|]. rewrite nprevs_erase. reflexivity.
  - intros He. injection He as <-. eexists. split; [reflexivity|]. split; reflexivity.
  - destruct (er c) as [g|] eqn:Ec; [|discriminate]. cbn [option_map]. intros He. injection He as <-.
    destruct o; cbn [un_formula bounded_future hor] in Hb, Hle, Hh; try discriminate Hb.
    all: try (destruct (IH g Hu eq_refl Hb (hor g) (le_n _)) as [m1 [Hm1 [Um1 Em1]]];
      cbn [gen_LtlPastifier]; rewrite Hh; cbv beta iota; rewrite Hm1, <- Nat2Z.inj_sub by exact Hle; rewrite loop_prevs;
      eexists; (split; [reflexivity|]); (split; [rewrite nprevs_ltl; exact Um1|]);
      rewrite nprevs_erase; cbn [erase]; rewrite Em1; reflexivity).
    all: replace (Z.of_nat Hs - 1)%Z with (Z.of_nat (Hs - 1)) by lia;
      destruct (IH g Hu eq_refl Hb (Hs - 1)%nat ltac:(lia)) as [m1 [Hm1 [Um1 Em1]]];
      cbn [gen_LtlPastifier]; replace (Z.of_nat Hs - 1)%Z with (Z.of_nat (Hs - 1)) by lia; rewrite Hm1;
      eexists; (split; [reflexivity|]); (split; [exact Um1|]); cbn [un_formula pastify]; exact Em1.
  - apply andb_prop in Hu. destruct Hu as [Hu1 Hu2].
    destruct (er c1) as [g1|] eqn:Ec1; [|discriminate]. destruct (er c2) as [g2|] eqn:Ec2; [|discriminate]. intros He. injection He as <-.
    destruct o; cbn [fn2_formula bounded_future hor] in Hb, Hle, Hh; apply andb_prop in Hb; destruct Hb as [Hb1 Hb2];
      destruct (IH1 g1 Hu1 eq_refl Hb1 _ (Nat.le_max_l (hor g1) (hor g2))) as [m1 [Hm1 [Um1 Em1]]];
      destruct (IH2 g2 Hu2 eq_refl Hb2 _ (Nat.le_max_r (hor g1) (hor g2))) as [m2 [Hm2 [Um2 Em2]]];
      cbn [gen_LtlPastifier]; rewrite Hh; cbv beta iota; rewrite Hm1, Hm2, <- Nat2Z.inj_sub by exact Hle; rewrite loop_prevs;
      eexists; (split; [reflexivity|]); (split; [rewrite nprevs_ltl; cbn [ltl_node]; rewrite Um1, Um2; reflexivity|]);
      rewrite nprevs_erase; cbn [erase]; rewrite Em1, Em2; reflexivity.
  - apply andb_prop in Hu. destruct Hu as [Hu1 Hu2].
    destruct (er c1) as [g1|] eqn:Ec1; [|discriminate]. destruct (er c2) as [g2|] eqn:Ec2; [|discriminate]. intros He. injection He as <-.
    destruct o; cbn [bin_formula bounded_future hor] in Hb, Hle, Hh; try discriminate Hb; apply andb_prop in Hb; destruct Hb as [Hb1 Hb2];
      destruct (IH1 g1 Hu1 eq_refl Hb1 _ (Nat.le_max_l (hor g1) (hor g2))) as [m1 [Hm1 [Um1 Em1]]];
      destruct (IH2 g2 Hu2 eq_refl Hb2 _ (Nat.le_max_r (hor g1) (hor g2))) as [m2 [Hm2 [Um2 Em2]]];
      cbn [gen_LtlPastifier]; rewrite Hh; cbv beta iota; rewrite Hm1, Hm2, <- Nat2Z.inj_sub by exact Hle; rewrite loop_prevs;
      eexists; (split; [reflexivity|]); (split; [rewrite nprevs_ltl; cbn [ltl_node]; rewrite Um1, Um2; reflexivity|]);
      rewrite nprevs_erase; cbn [erase]; rewrite Em1, Em2; reflexivity.
Qed.

(* pastify() of the LTL front end, as generated from the code *)
Theorem gen_ltl_pastify_ok n f :
  ltl_node n = true -> er n = Some f -> bounded_future f = true ->
  exists m, gen_LtlHorizon n = Some (Z.of_nat (hor f)) /\ gen_ltl_pastify n = Some m /\ ltl_node m = true /\
            er m = Some (pastify DelayPrev f (hor f)).
Proof.
  intros Hu He Hb. destruct (gen_ltl_past_ok _ _ Hu He Hb (hor f) (le_n _)) as [m [Hm [Um Em]]].
  exists m. unfold gen_ltl_pastify. rewrite (gen_ltl_hor_ok _ _ Hu He Hb). repeat split; assumption.
Qed.

End Ltl.

(* ---------------------------------------------------------------- dense time: StlDenseTimePastifier only refuses next / s_next *)
Fixpoint no_next (n : node) : bool :=
  match n with
  | NVar _ _ | NConst _ => true
  | NUn u_next _ | NUn u_snext _ => false
  | NUn _ c | NTUn _ _ _ c => no_next c
  | NFn2 _ c1 c2 | NBin _ c1 c2 | NTBin _ _ _ c1 c2 => no_next c1 && no_next c2
  end.

Lemma gen_dense_same sample : forall n, no_next n = true -> forall H, gen_StlDenseTimePastifier sample n H = gen_StlPastifier sample n H.
Proof.
  induction n as [v fd|t|o c IH|o b e c IH|o c1 IH1 c2 IH2|o c1 IH1 c2 IH2|o b e c1 IH1 c2 IH2]; intros Hn H; try reflexivity.
  - destruct o; cbn [no_next] in Hn; try discriminate Hn; cbn [gen_StlDenseTimePastifier gen_StlPastifier]; try reflexivity;
      destruct (gen_StlHorizon sample _) as [t|]; try reflexivity; rewrite (IH Hn); reflexivity.
  - cbn [no_next] in Hn. destruct o; cbn [gen_StlDenseTimePastifier gen_StlPastifier];
      try (destruct (gen_StlHorizon sample _) as [t|]; [|reflexivity]); rewrite (IH Hn); reflexivity.
  - cbn [no_next] in Hn. apply andb_prop in Hn. destruct Hn as [H1 H2]. destruct o; cbn [gen_StlDenseTimePastifier gen_StlPastifier];
      (destruct (gen_StlHorizon sample _) as [t|]; [|reflexivity]); rewrite (IH1 H1), (IH2 H2); reflexivity.
  - cbn [no_next] in Hn. apply andb_prop in Hn. destruct Hn as [H1 H2]. destruct o; cbn [gen_StlDenseTimePastifier gen_StlPastifier]; try reflexivity;
      (destruct (gen_StlHorizon sample _) as [t|]; [|reflexivity]); rewrite (IH1 H1), (IH2 H2); reflexivity.
  - cbn [no_next] in Hn. apply andb_prop in Hn. destruct Hn as [H1 H2]. destruct o; cbn [gen_StlDenseTimePastifier gen_StlPastifier];
      try (destruct (gen_StlHorizon sample _) as [t|]; [|reflexivity]); rewrite (IH1 H1), (IH2 H2); reflexivity.
Qed.

Print Assumptions gen_stl_pastify_ok.
Print Assumptions gen_ltl_pastify_ok.
Print Assumptions gen_dense_same.
