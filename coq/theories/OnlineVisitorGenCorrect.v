(* OnlineVisitorGenCorrect.v — HAND-written: the visitors of OnlineVisitorGen.v (GENERATED from the Python text of the discrete-time
   online interpreter by tools/py2coq_onlinevisitor.py) against the hand model keyed by node name (OnlineNamed.v).
   [OpRel a o h]: the operation object o that the generated dictionary holds under the name of node a is of the class the hand model
   assumes for a (op_init / ustep / bstep / op_reset dispatch on the formula [sem a]) and its fields are in the simulation relation of
   OnlineGenCorrect.v with the hand state h.
   Proved here: (1) per node class (onlinevisitor_gen_refines): the construction clause stores an object related to op_init (sem a),
   unsupported classes give None; gop_update1/2 on a related object return ustep / bstep and a related object; gop_reset is op_reset.
   (2) By induction over the node tree and the forest, under "names are injective on the nodes of the specification"
   (NodeNameCorrect.names_injective): gen_construct / gen_set_ast build a dictionary related to ndict_init (gen_set_ast_refines),
   gen_update with the `visited` memo = nvisit (gen_update_refines: DictRel / MemoRel are invariants), gen_update_step = nmon_step,
   gen_run = nmon_run (gen_run_refines), gen_reset_forest leads back to a dictionary related to ndict_init (gen_reset_refines).
   (3) Closed statements: gen_monitor_refines (C02_generated_monitor), gen_reset_like_fresh (C10_generated_reset). *)
From Coq Require Import List Bool Arith ZArith String Lia.
From RV Require Import Val Syntax Rho Offline ListFacts Online Units NodeName NodeNameCorrect OnlineNamed OnlineNamedCorrect Reset OnlineGen OnlineGenCorrect OnlineVisitorGen.
Import ListNotations.

Section VisitorCorrect.
Context {VS : Val} (AR : Arith VS).
Variable vidx : string -> string -> nat.
Variable cval : string -> V.
Variable bnd : bound -> bound -> nat * nat.
Variable tut : bound -> bound -> option (Z * Z).
Definition pk0 : formula -> formula -> pkind := fun _ _ => PStd.    (* StlDiscreteTimeOnlineAstVisitor builds the standard PredicateOperation *)
Notation sem := (sem vidx cval bnd).
Notation gop := (@gop VS).

Definition OpRel (a : node) (o : gop) (h : opstate) : Prop :=
  match a, o with
  | NVar _ _, Op_VariableOperation _ => True
  | NUn u_not _, Op_NotOperation s => R_none s h
  | NUn u_once _, Op_OnceOperation s => R_once s h
  | NUn u_hist _, Op_HistoricallyOperation s => R_hist s h
  | NUn u_prev _, Op_PreviousOperation s => R_prev s h
  | NUn u_sprev _, Op_StrongPreviousOperation s => R_sprev s h
  | NUn u_rise _, Op_RiseOperation s => R_rise s h
  | NUn u_fall _, Op_FallOperation s => R_fall s h
  | NUn u_abs _, Op_AbsOperation | NUn u_sqrt _, Op_SqrtOperation | NUn u_exp _, Op_ExpOperation
  | NUn u_ln _, Op_LnOperation | NUn u_negate _, Op_NegateOperation => h = StNone
  | NTUn t_once b e _, Op_OnceTimedOperation s => R_oncet (fst (bnd b e)) (snd (bnd b e)) s h
  | NTUn t_hist b e _, Op_HistoricallyTimedOperation s => R_histt (fst (bnd b e)) (snd (bnd b e)) s h
  | NFn2 f_pow _ _, Op_PowOperation | NFn2 f_log _ _, Op_LogOperation => h = StNone
  | NBin b_and _ _, Op_AndOperation s => R_none s h
  | NBin b_or _ _, Op_OrOperation s => R_none s h
  | NBin b_implies _ _, Op_ImpliesOperation s => R_none s h
  | NBin b_iff _ _, Op_IffOperation s => R_none s h
  | NBin b_xor _ _, Op_XorOperation s => R_none s h
  | NBin b_since _ _, Op_SinceOperation s => R_since s h
  | NBin b_add _ _, Op_AdditionOperation | NBin b_sub _ _, Op_SubtractionOperation
  | NBin b_mul _ _, Op_MultiplicationOperation | NBin b_div _ _, Op_DivisionOperation => h = StNone
  | NBin (b_pred c) _ _, Op_PredicateOperation s => R_pred c s h
  | NTBin tb_since b e _ _, Op_SinceTimedOperation s => R_sincet (fst (bnd b e)) (snd (bnd b e)) s h
  | NTBin tb_precedes b e _ _, Op_PrecedesTimedOperation s => R_precedes (fst (bnd b e)) (snd (bnd b e)) s h
  | _, _ => False
  end.

(* the bounds of the node itself are ordered (what wf_bounds says at the top of sem a) *)
Definition top_wfb (a : node) : Prop :=
  match a with NTUn _ b e _ | NTBin _ b e _ _ => fst (bnd b e) <= snd (bnd b e) | _ => True end.
(* the node class itself is one the online monitor implements *)
Definition top_past (a : node) : bool :=
  match a with
  | NUn o _ => un_past o | NTUn o _ _ _ => tun_past o | NBin o _ _ => bin_past o | NTBin o _ _ _ _ => tbin_past o | _ => true
  end.
Definition is_un (a : node) : bool := match a with NUn _ _ | NTUn _ _ _ _ => true | _ => false end.
Definition is_bi (a : node) : bool := match a with NFn2 _ _ _ | NBin _ _ _ | NTBin _ _ _ _ _ => true | _ => false end.

Lemma some_inj {A} (a b : A) : Some a = Some b -> a = b.
Proof. intros H. injection H as H. exact H. Qed.

Ltac use_upd G x HR :=
  let Hu := fresh "Hu" in let s' := fresh "s'" in let E := fresh "E" in let R' := fresh "R'" in
  destruct G as (_ & Hu & _); destruct (Hu _ _ x HR) as (s' & E & R');
  unfold pure1, pure2 in E; try (apply some_inj in E); cbn [gop_update1 gop_update2]; rewrite E; eexists; split; [reflexivity|exact R'].

Ltac use_upd2 G x y HR :=
  let Hu := fresh "Hu" in let s' := fresh "s'" in let E := fresh "E" in let R' := fresh "R'" in
  destruct G as (_ & Hu & _); destruct (Hu _ _ x y HR) as (s' & E & R');
  unfold pure1, pure2 in E; try (apply some_inj in E); cbn [gop_update1 gop_update2]; rewrite E; eexists; split; [reflexivity|exact R'].

(* operator.update(sample) on the object of a unary node *)
Lemma gop_update1_refines a o h x : is_un a = true -> top_past a = true -> top_wfb a -> OpRel a o h ->
  exists o', gop_update1 AR o x = Some (o', snd (ustep AR (sem a) h x)) /\ OpRel a o' (fst (ustep AR (sem a) h x)).
Proof.
  intros Hun Hp Hw HR.
  destruct a as [v f|t|u c|u b e c|u c1 c2|u c1 c2|u b e c1 c2]; try discriminate Hun; clear Hun;
    destruct u; try discriminate Hp; destruct o; cbn [OpRel] in HR; try contradiction;
    try (subst h; eexists; split; reflexivity);
    match goal with |- context [ustep AR (OnlineNamed.sem _ _ _ ?a) _ _] => pose proof (online_gen_refines_at AR pk0 (sem a)) as G end;
    cbn [OnlineNamed.sem un_formula tun_formula gen_refines] in G.
  all: first [ use_upd G x HR | use_upd (proj1 G) x HR | use_upd (G Hw) x HR ].
Qed.

(* operator.update(left, right) on the object of a binary node *)
Lemma gop_update2_refines a o h x y : is_bi a = true -> top_past a = true -> top_wfb a -> OpRel a o h ->
  exists o', gop_update2 AR o x y = Some (o', snd (bstep AR pk0 (sem a) h x y)) /\ OpRel a o' (fst (bstep AR pk0 (sem a) h x y)).
Proof.
  intros Hbi Hp Hw HR.
  destruct a as [v f|t|u c|u b e c|u c1 c2|u c1 c2|u b e c1 c2]; try discriminate Hbi; clear Hbi;
    destruct u; try discriminate Hp; destruct o; cbn [OpRel] in HR; try contradiction;
    try (subst h; eexists; split; reflexivity);
    match goal with |- context [bstep AR pk0 (OnlineNamed.sem _ _ _ ?a) _ _ _] => pose proof (online_gen_refines_at AR pk0 (sem a)) as G end;
    cbn [OnlineNamed.sem fn2_formula bin_formula tbin_formula gen_refines] in G.
  all: first [ use_upd2 G x y HR | use_upd2 (proj1 G (eq_refl : pk0 _ _ = PStd)) x y HR | use_upd2 (G Hw) x y HR ].
Qed.

Ltac use_rst G HR :=
  let Hr := fresh "Hr" in destruct G as (_ & _ & Hr); exact (proj1 (Hr _ _ HR)).

(* operator.reset() *)
Lemma gop_reset_refines a o h : is_un a || is_bi a = true -> top_past a = true -> top_wfb a -> OpRel a o h ->
  OpRel a (gop_reset o) (op_reset (sem a) h).
Proof.
  intros Hs Hp Hw HR.
  destruct a as [v f|t|u c|u b e c|u c1 c2|u c1 c2|u b e c1 c2]; try discriminate Hs; clear Hs;
    destruct u; try discriminate Hp; destruct o; cbn [OpRel] in HR; try contradiction;
    try (subst h; reflexivity); cbn [gop_reset OpRel];
    match goal with |- context [op_reset (OnlineNamed.sem _ _ _ ?a) _] => pose proof (online_gen_refines_at AR pk0 (sem a)) as G end;
    cbn [OnlineNamed.sem un_formula tun_formula fn2_formula bin_formula tbin_formula gen_refines] in G.
  all: first [ use_rst G HR | use_rst (proj1 G) HR | use_rst (proj1 G (eq_refl : pk0 _ _ = PStd)) HR | use_rst (G Hw) HR ].
Qed.

(* ---- the construction visitor ---- *)
(* time_unit_transformer on the bounds of the node returns what the hand model's bnd holds (Units.to_samples / UnitsGenCorrect.v) *)
Definition tut_ok (a : node) : Prop :=
  match a with
  | NTUn _ b e _ | NTBin _ b e _ _ => tut b e = Some (Z.of_nat (fst (bnd b e)), Z.of_nat (snd (bnd b e)))
  | _ => True
  end.

Ltac use_init G :=
  let s0 := fresh "s0" in let E := fresh "E" in let R0 := fresh "R0" in
  destruct G as ((s0 & E & R0) & _); first [apply some_inj in E; subst s0 | rewrite E]; eexists; split; [reflexivity|exact R0].

Lemma gen_construct_leaf_var v f gd :
  gen_construct tut (NVar v f) gd = Some (sd_set gd (nname (NVar v f)) (Op_VariableOperation VariableOperation_init)).
Proof. reflexivity. Qed.
Lemma gen_construct_leaf_const t gd : gen_construct tut (NConst t) gd = Some gd.
Proof. reflexivity. Qed.

(* a supported unary node: the children first, then one object of the class of the node, related to op_init *)
Lemma gen_construct_un a c gd gd1 : (exists u, a = NUn u c) \/ (exists u b e, a = NTUn u b e c) ->
  top_past a = true -> top_wfb a -> tut_ok a -> gen_construct tut c gd = Some gd1 ->
  exists o, gen_construct tut a gd = Some (sd_set gd1 (nname a) o) /\ OpRel a o (op_init (sem a)).
Proof.
  intros [[u ->]|[u [b [e ->]]]] Hp Hw Ht Hc; destruct u; try discriminate Hp; cbn [gen_construct]; rewrite Hc; cbn [tut_ok] in Ht; rewrite ?Ht;
    try (eexists; split; reflexivity);
    match goal with |- context [op_init (OnlineNamed.sem _ _ _ ?a)] => pose proof (online_gen_refines_at AR pk0 (sem a)) as G end;
    cbn [OnlineNamed.sem un_formula tun_formula gen_refines] in G; cbn [OpRel].
  all: first [ use_init G | use_init (proj1 G) | use_init (G Hw) ].
Qed.

Lemma gen_construct_bi a c1 c2 gd gd1 gd2 :
  (exists u, a = NFn2 u c1 c2) \/ (exists u, a = NBin u c1 c2) \/ (exists u b e, a = NTBin u b e c1 c2) ->
  top_past a = true -> top_wfb a -> tut_ok a -> gen_construct tut c1 gd = Some gd1 -> gen_construct tut c2 gd1 = Some gd2 ->
  exists o, gen_construct tut a gd = Some (sd_set gd2 (nname a) o) /\ OpRel a o (op_init (sem a)).
Proof.
  intros [[u ->]|[[u ->]|[u [b [e ->]]]]] Hp Hw Ht Hc1 Hc2; destruct u; try discriminate Hp; cbn [gen_construct]; rewrite Hc1, Hc2; cbn [tut_ok] in Ht; rewrite ?Ht;
    try (eexists; split; reflexivity);
    match goal with |- context [op_init (OnlineNamed.sem _ _ _ ?a)] => pose proof (online_gen_refines_at AR pk0 (sem a)) as G end;
    cbn [OnlineNamed.sem fn2_formula bin_formula tbin_formula gen_refines] in G; cbn [OpRel].
  all: first [ use_init G | use_init (proj1 G (eq_refl : pk0 _ _ = PStd)) | use_init (G Hw) ].
Qed.

(* the same rejections: a node class the online monitor does not implement, anywhere in the tree, makes set_ast raise *)
Lemma gen_construct_rejects x : past_only (sem x) = false -> forall gd, gen_construct tut x gd = None.
Proof.
  induction x as [v f|t|u c IH|u b e c IH|u c1 IH1 c2 IH2|u c1 IH1 c2 IH2|u b e c1 IH1 c2 IH2]; intros Hp gd; try discriminate Hp.
  - destruct u; cbn [OnlineNamed.sem un_formula past_only] in Hp; cbn [gen_construct]; try reflexivity; rewrite (IH Hp gd); reflexivity.
  - destruct u; cbn [OnlineNamed.sem tun_formula past_only] in Hp; cbn [gen_construct]; try reflexivity; rewrite (IH Hp gd); reflexivity.
  - destruct u; cbn [OnlineNamed.sem fn2_formula past_only] in Hp; cbn [gen_construct]; apply andb_false_iff in Hp; destruct Hp as [Hp|Hp];
      first [rewrite (IH1 Hp gd); reflexivity | destruct (gen_construct tut c1 gd); [rewrite (IH2 Hp)|]; reflexivity].
  - destruct u; cbn [OnlineNamed.sem bin_formula past_only] in Hp; cbn [gen_construct]; try reflexivity; apply andb_false_iff in Hp; destruct Hp as [Hp|Hp];
      first [rewrite (IH1 Hp gd); reflexivity | destruct (gen_construct tut c1 gd); [rewrite (IH2 Hp)|]; reflexivity].
  - destruct u; cbn [OnlineNamed.sem tbin_formula past_only] in Hp; cbn [gen_construct]; try reflexivity; apply andb_false_iff in Hp; destruct Hp as [Hp|Hp];
      first [rewrite (IH1 Hp gd); reflexivity | destruct (gen_construct tut c1 gd); [rewrite (IH2 Hp)|]; reflexivity].
Qed.

End VisitorCorrect.

(* the statements together, for every value domain and arithmetic: the generated visitors use, at every node class, the operation
   class and the operation methods that the hand model OnlineNamed.v assumes there, and reject the node classes it excludes *)
Definition onlinevisitor_gen_statement : Prop :=
  forall (VS : Val) (AR : Arith VS) (vidx : string -> string -> nat) (cval : string -> V) (bnd : bound -> bound -> nat * nat)
         (tut : bound -> bound -> option (Z * Z)),
    (* construction: rejections, and the object stored for a supported node *)
    (forall x, past_only (sem vidx cval bnd x) = false -> forall gd, gen_construct tut x gd = None) /\
    (forall v f gd, gen_construct tut (NVar v f) gd = Some (sd_set gd (nname (NVar v f)) (Op_VariableOperation VariableOperation_init))) /\
    (forall t gd, gen_construct tut (NConst t) gd = Some gd) /\
    (forall a c gd gd1, (exists u, a = NUn u c) \/ (exists u b e, a = NTUn u b e c) ->
       top_past a = true -> top_wfb bnd a -> tut_ok bnd tut a -> gen_construct tut c gd = Some gd1 ->
       exists o, gen_construct tut a gd = Some (sd_set gd1 (nname a) o) /\ OpRel bnd a o (op_init (sem vidx cval bnd a))) /\
    (forall a c1 c2 gd gd1 gd2, (exists u, a = NFn2 u c1 c2) \/ (exists u, a = NBin u c1 c2) \/ (exists u b e, a = NTBin u b e c1 c2) ->
       top_past a = true -> top_wfb bnd a -> tut_ok bnd tut a -> gen_construct tut c1 gd = Some gd1 -> gen_construct tut c2 gd1 = Some gd2 ->
       exists o, gen_construct tut a gd = Some (sd_set gd2 (nname a) o) /\ OpRel bnd a o (op_init (sem vidx cval bnd a))) /\
    (* update and reset of a related object *)
    (forall a o h x, is_un a = true -> top_past a = true -> top_wfb bnd a -> OpRel bnd a o h ->
       exists o', gop_update1 AR o x = Some (o', snd (ustep AR (sem vidx cval bnd a) h x)) /\
                  OpRel bnd a o' (fst (ustep AR (sem vidx cval bnd a) h x))) /\
    (forall a o h x y, is_bi a = true -> top_past a = true -> top_wfb bnd a -> OpRel bnd a o h ->
       exists o', gop_update2 AR o x y = Some (o', snd (bstep AR pk0 (sem vidx cval bnd a) h x y)) /\
                  OpRel bnd a o' (fst (bstep AR pk0 (sem vidx cval bnd a) h x y))) /\
    (forall a o h, is_un a || is_bi a = true -> top_past a = true -> top_wfb bnd a -> OpRel bnd a o h ->
       OpRel bnd a (gop_reset o) (op_reset (sem vidx cval bnd a) h)).

Theorem onlinevisitor_gen_refines : onlinevisitor_gen_statement.
Proof.
  intros VS AR vidx cval bnd tut.
  split; [intros; eapply gen_construct_rejects; eassumption|]. split; [reflexivity|]. split; [reflexivity|].
  split; [intros; eapply gen_construct_un; eassumption|]. split; [intros; eapply gen_construct_bi; eassumption|].
  split; [intros; eapply gop_update1_refines; eassumption|].
  split; [intros; eapply gop_update2_refines; eassumption|intros; eapply gop_reset_refines; eassumption].
Qed.
Print Assumptions onlinevisitor_gen_refines.

(* ================= the whole visitors: induction over the node tree =================
   D: the nodes of the specification (closed under sub-nodes, names injective on it, every class supported, bounds ordered). *)
Section TreeCorrect.
Context {VS : Val} (AR : Arith VS).
Variable vidx : string -> string -> nat.
Variable cval : string -> V.
Variable bnd : bound -> bound -> nat * nat.
Variable tut : bound -> bound -> option (Z * Z).
Notation sem := (sem vidx cval bnd).
Notation gop := (@gop VS).
Notation OpRel := (OpRel bnd).
Variable D : node -> Prop.
Hypothesis D_sub : forall a b, D a -> In b (subnodes a) -> D b.
Hypothesis D_inj : forall a b, D a -> D b -> nname a = nname b -> a = b.
Hypothesis D_past : forall a, D a -> top_past a = true.
Hypothesis D_wfb : forall a, D a -> top_wfb bnd a.

Definition nleaf (a : node) : bool := match a with NVar _ _ | NConst _ => true | _ => false end.
(* the generated dictionary holds, under the name of every operator node, an object related to the hand state under that name;
   the generated memo agrees with the hand memo on the names of operator nodes (visitLeaf memoises leaf names too: never read) *)
Definition DictRel (gd : sdict gop) (hd : ndict) : Prop :=
  forall a, D a -> nleaf a = false -> exists o, gd (nname a) = Some o /\ OpRel a o (hd (nname a)).
Definition MemoRel (gm : sdict V) (hm : nmemo) : Prop :=
  forall a, D a -> nleaf a = false -> gm (nname a) = nlookup hm (nname a).

Lemma dict_upd gd d x o s : DictRel gd d -> D x -> OpRel x o s -> DictRel (sd_set gd (nname x) o) (nupd d (nname x) s).
Proof.
  intros HD Dx Ro a Da Hl. unfold sd_set, nupd. destruct (String.eqb_spec (nname a) (nname x)) as [E|E].
  - rewrite (D_inj a x Da Dx E). exists o. split; [reflexivity|exact Ro].
  - exact (HD a Da Hl).
Qed.
Lemma memo_upd gm m k r : MemoRel gm m -> MemoRel (sd_set gm k r) ((k, r) :: m).
Proof.
  intros HM a Da Hl. unfold sd_set. cbn [nlookup]. destruct (String.eqb (nname a) k); [reflexivity|exact (HM a Da Hl)].
Qed.
Lemma memo_leaf gm m x r : MemoRel gm m -> D x -> nleaf x = true -> MemoRel (sd_set gm (nname x) r) m.
Proof.
  intros HM Dx Hx a Da Hl. unfold sd_set. destruct (String.eqb_spec (nname a) (nname x)) as [E|E].
  - rewrite (D_inj a x Da Dx E) in Hl. congruence.
  - exact (HM a Da Hl).
Qed.

(* what the generated visitUnary / visitBinary do after the children *)
Definition g_un_tail (k : string) (gd1 : sdict gop) (gm1 : sdict V) (v1 : V) : option (sdict gop * sdict V * V) :=
  match sd_get gd1 k with
  | Some o => match gop_update1 AR o v1 with Some (o', r) => Some (sd_set gd1 k o', sd_set gm1 k r, r) | None => None end
  | None => None
  end.
Definition g_bi_tail (k : string) (gd1 : sdict gop) (gm1 : sdict V) (v1 v2 : V) : option (sdict gop * sdict V * V) :=
  match sd_get gd1 k with
  | Some o => match gop_update2 AR o v1 v2 with Some (o', r) => Some (sd_set gd1 k o', sd_set gm1 k r, r) | None => None end
  | None => None
  end.

Lemma fin_un x gd1 d1 gm1 m1 v1 : D x -> is_un x = true -> DictRel gd1 d1 -> MemoRel gm1 m1 ->
  exists gd' gm', g_un_tail (nname x) gd1 gm1 v1 = Some (gd', gm', snd (nvisit_un AR vidx cval bnd x (d1, m1, v1))) /\
    DictRel gd' (fst (fst (nvisit_un AR vidx cval bnd x (d1, m1, v1)))) /\
    MemoRel gm' (snd (fst (nvisit_un AR vidx cval bnd x (d1, m1, v1)))).
Proof.
  intros Dx Hu HD HM. unfold g_un_tail, sd_get, nvisit_un.
  assert (Hl : nleaf x = false) by (destruct x; try discriminate Hu; reflexivity).
  destruct (HD _ Dx Hl) as (o & Eo & Ro). rewrite Eo.
  destruct (gop_update1_refines AR vidx cval bnd x o (d1 (nname x)) v1 Hu (D_past _ Dx) (D_wfb _ Dx) Ro) as (o' & Eu & Ro'). rewrite Eu.
  destruct (ustep AR (sem x) (d1 (nname x)) v1) as [s' out]. cbn [fst snd] in *.
  eexists; eexists; split; [reflexivity|]. split; [apply dict_upd; assumption|apply memo_upd; assumption].
Qed.
Lemma fin_bi x gd1 d1 gm1 m1 v1 v2 : D x -> is_bi x = true -> DictRel gd1 d1 -> MemoRel gm1 m1 ->
  let res := (let '(s', out) := bstep AR pk0 (sem x) (d1 (nname x)) v1 v2 in (nupd d1 (nname x) s', (nname x, out) :: m1, out)) in
  exists gd' gm', g_bi_tail (nname x) gd1 gm1 v1 v2 = Some (gd', gm', snd res) /\ DictRel gd' (fst (fst res)) /\ MemoRel gm' (snd (fst res)).
Proof.
  intros Dx Hu HD HM. unfold g_bi_tail, sd_get.
  assert (Hl : nleaf x = false) by (destruct x; try discriminate Hu; reflexivity).
  destruct (HD _ Dx Hl) as (o & Eo & Ro). rewrite Eo.
  destruct (gop_update2_refines AR vidx cval bnd x o (d1 (nname x)) v1 v2 Hu (D_past _ Dx) (D_wfb _ Dx) Ro) as (o' & Eu & Ro'). rewrite Eu.
  destruct (bstep AR pk0 (sem x) (d1 (nname x)) v1 v2) as [s' out]. cbn [fst snd] in *.
  eexists; eexists; split; [reflexivity|]. split; [apply dict_upd; assumption|apply memo_upd; assumption].
Qed.

Section OneUpdate.
Variable env : nat -> V.
Variable vobj : string -> string -> option V.
Hypothesis vobj_env : forall v f, vobj v f = Some (env (vidx v f)).
Notation nvisit := (nvisit AR pk0 vidx cval bnd env).

Lemma child_un x c : (exists u, x = NUn u c) \/ (exists u b e, x = NTUn u b e c) -> In c (subnodes x).
Proof. intros [[u ->]|[u [b [e ->]]]]; right; apply subnodes_self. Qed.

(* AbstractOnlineUpdateVisitor.visit on a node of the specification = nvisit *)
Theorem gen_update_refines : forall x, D x -> forall gd hd gm hm, DictRel gd hd -> MemoRel gm hm ->
  exists gd' gm', gen_update AR cval vobj x gd gm = Some (gd', gm', snd (nvisit x hd hm)) /\
    DictRel gd' (fst (fst (nvisit x hd hm))) /\ MemoRel gm' (snd (fst (nvisit x hd hm))).
Proof.
  induction x as [v f|t|u c IH|u b e c IH|u c1 IH1 c2 IH2|u c1 IH1 c2 IH2|u b e c1 IH1 c2 IH2]; intros Dx gd hd gm hm HD HM.
  - cbn [gen_update OnlineNamed.nvisit fst snd]. rewrite vobj_env. eexists; eexists; split; [reflexivity|]. split; [exact HD|].
    apply memo_leaf; [exact HM|exact Dx|reflexivity].
  - cbn [gen_update OnlineNamed.nvisit fst snd]. eexists; eexists; split; [reflexivity|]. split; [exact HD|].
    apply memo_leaf; [exact HM|exact Dx|reflexivity].
  - pose proof (D_past _ Dx) as Hp. cbn [top_past] in Hp. cbn [gen_update OnlineNamed.nvisit]. rewrite Hp.
    pose proof (HM _ Dx eq_refl) as Hm. unfold sd_mem, sd_get at 1. rewrite Hm.
    destruct (nlookup hm (nname (NUn u c))) as [v|] eqn:El.
    + exists gd, gm. cbn [fst snd]. repeat split; assumption.
    + assert (Dc : D c) by (apply (D_sub _ _ Dx); right; apply subnodes_self).
      specialize (IH Dc gd hd gm hm HD HM). destruct (nvisit c hd hm) as [[d1 m1] v1]. cbn [fst snd] in IH.
      destruct IH as (gd1 & gm1 & E1 & HD1 & HM1). rewrite E1.
      exact (fin_un (NUn u c) gd1 d1 gm1 m1 v1 Dx eq_refl HD1 HM1).
  - pose proof (D_past _ Dx) as Hp. cbn [top_past] in Hp. cbn [gen_update OnlineNamed.nvisit]. rewrite Hp.
    pose proof (HM _ Dx eq_refl) as Hm. unfold sd_mem, sd_get at 1. rewrite Hm.
    destruct (nlookup hm (nname (NTUn u b e c))) as [v|] eqn:El.
    + exists gd, gm. cbn [fst snd]. repeat split; assumption.
    + assert (Dc : D c) by (apply (D_sub _ _ Dx); right; apply subnodes_self).
      specialize (IH Dc gd hd gm hm HD HM). destruct (nvisit c hd hm) as [[d1 m1] v1]. cbn [fst snd] in IH.
      destruct IH as (gd1 & gm1 & E1 & HD1 & HM1). rewrite E1.
      exact (fin_un (NTUn u b e c) gd1 d1 gm1 m1 v1 Dx eq_refl HD1 HM1).
  - pose proof (D_past _ Dx) as Hp. cbn [top_past] in Hp. cbn [gen_update OnlineNamed.nvisit].
    pose proof (HM _ Dx eq_refl) as Hm. unfold sd_mem, sd_get at 1. rewrite Hm.
    destruct (nlookup hm (nname (NFn2 u c1 c2))) as [v|] eqn:El.
    + exists gd, gm. cbn [fst snd]. repeat split; assumption.
    + assert (Dc1 : D c1) by (apply (D_sub _ _ Dx); right; apply in_or_app; left; apply subnodes_self).
      assert (Dc2 : D c2) by (apply (D_sub _ _ Dx); right; apply in_or_app; right; apply subnodes_self).
      unfold nvisit_bi.
      specialize (IH1 Dc1 gd hd gm hm HD HM). destruct (nvisit c1 hd hm) as [[d1 m1] v1]. cbn [fst snd] in IH1.
      destruct IH1 as (gd1 & gm1 & E1 & HD1 & HM1). rewrite E1.
      specialize (IH2 Dc2 gd1 d1 gm1 m1 HD1 HM1). destruct (nvisit c2 d1 m1) as [[d2 m2] v2]. cbn [fst snd] in IH2.
      destruct IH2 as (gd2 & gm2 & E2 & HD2 & HM2). rewrite E2.
      exact (fin_bi (NFn2 u c1 c2) gd2 d2 gm2 m2 v1 v2 Dx eq_refl HD2 HM2).
  - pose proof (D_past _ Dx) as Hp. cbn [top_past] in Hp. cbn [gen_update OnlineNamed.nvisit]. rewrite Hp.
    pose proof (HM _ Dx eq_refl) as Hm. unfold sd_mem, sd_get at 1. rewrite Hm.
    destruct (nlookup hm (nname (NBin u c1 c2))) as [v|] eqn:El.
    + exists gd, gm. cbn [fst snd]. repeat split; assumption.
    + assert (Dc1 : D c1) by (apply (D_sub _ _ Dx); right; apply in_or_app; left; apply subnodes_self).
      assert (Dc2 : D c2) by (apply (D_sub _ _ Dx); right; apply in_or_app; right; apply subnodes_self).
      unfold nvisit_bi.
      specialize (IH1 Dc1 gd hd gm hm HD HM). destruct (nvisit c1 hd hm) as [[d1 m1] v1]. cbn [fst snd] in IH1.
      destruct IH1 as (gd1 & gm1 & E1 & HD1 & HM1). rewrite E1.
      specialize (IH2 Dc2 gd1 d1 gm1 m1 HD1 HM1). destruct (nvisit c2 d1 m1) as [[d2 m2] v2]. cbn [fst snd] in IH2.
      destruct IH2 as (gd2 & gm2 & E2 & HD2 & HM2). rewrite E2.
      exact (fin_bi (NBin u c1 c2) gd2 d2 gm2 m2 v1 v2 Dx eq_refl HD2 HM2).
  - pose proof (D_past _ Dx) as Hp. cbn [top_past] in Hp. cbn [gen_update OnlineNamed.nvisit]. rewrite Hp.
    pose proof (HM _ Dx eq_refl) as Hm. unfold sd_mem, sd_get at 1. rewrite Hm.
    destruct (nlookup hm (nname (NTBin u b e c1 c2))) as [v|] eqn:El.
    + exists gd, gm. cbn [fst snd]. repeat split; assumption.
    + assert (Dc1 : D c1) by (apply (D_sub _ _ Dx); right; apply in_or_app; left; apply subnodes_self).
      assert (Dc2 : D c2) by (apply (D_sub _ _ Dx); right; apply in_or_app; right; apply subnodes_self).
      unfold nvisit_bi.
      specialize (IH1 Dc1 gd hd gm hm HD HM). destruct (nvisit c1 hd hm) as [[d1 m1] v1]. cbn [fst snd] in IH1.
      destruct IH1 as (gd1 & gm1 & E1 & HD1 & HM1). rewrite E1.
      specialize (IH2 Dc2 gd1 d1 gm1 m1 HD1 HM1). destruct (nvisit c2 d1 m1) as [[d2 m2] v2]. cbn [fst snd] in IH2.
      destruct IH2 as (gd2 & gm2 & E2 & HD2 & HM2). rewrite E2.
      exact (fin_bi (NTBin u b e c1 c2) gd2 d2 gm2 m2 v1 v2 Dx eq_refl HD2 HM2).
Qed.
(* visitAst: every root in order, one memo *)
Lemma gen_forest_refines : forall F, (forall x, In x F -> D x) -> forall gd hd gm hm, DictRel gd hd -> MemoRel gm hm ->
  exists gd', gen_update_forest AR cval vobj F gd gm = Some (gd', snd (nvisit_forest AR pk0 vidx cval bnd env F hd hm)) /\
    DictRel gd' (fst (nvisit_forest AR pk0 vidx cval bnd env F hd hm)).
Proof.
  induction F as [|x F IH]; intros HF gd hd gm hm HD HM.
  - exists gd. split; [reflexivity|exact HD].
  - cbn [gen_update_forest nvisit_forest].
    destruct (gen_update_refines x (HF x (or_introl eq_refl)) gd hd gm hm HD HM) as (gd1 & gm1 & E1 & HD1 & HM1).
    destruct (nvisit x hd hm) as [[d1 m1] v1]. cbn [fst snd] in *. rewrite E1.
    destruct (IH (fun y Hy => HF y (or_intror Hy)) gd1 d1 gm1 m1 HD1 HM1) as (gd2 & E2 & HD2).
    destruct (nvisit_forest AR pk0 vidx cval bnd env F d1 m1) as [d2 vs]. cbn [fst snd] in *. rewrite E2.
    exists gd2. split; [reflexivity|exact HD2].
Qed.
Lemma nvisit_forest_length : forall F hd hm, List.length (snd (nvisit_forest AR pk0 vidx cval bnd env F hd hm)) = List.length F.
Proof.
  induction F as [|x F IH]; intros hd hm; [reflexivity|]. cbn [nvisit_forest].
  destruct (nvisit x hd hm) as [[d1 m1] v1]. specialize (IH d1 m1).
  destruct (nvisit_forest AR pk0 vidx cval bnd env F d1 m1) as [d2 vs]. cbn [snd List.length] in *. rewrite IH. reflexivity.
Qed.
Lemma last_item_last {A} (l : list A) (d : A) : l <> [] -> last_item l = Some (last l d).
Proof.
  destruct l as [|a l]; [contradiction|]. intros _. unfold last_item. cbn [List.length]. rewrite Nat.sub_succ, Nat.sub_0_r.
  revert a. induction l as [|b l IH]; intros a; [reflexivity|]. cbn [List.length nth_error]. rewrite (IH b). reflexivity.
Qed.

(* one call of update() *)
Lemma gen_step_refines F : F <> [] -> (forall x, In x F -> D x) -> forall gd hd, DictRel gd hd ->
  exists gd', gen_update_step AR cval vobj F gd = Some (gd', snd (nmon_step AR pk0 vidx cval bnd F hd env)) /\
    DictRel gd' (fst (nmon_step AR pk0 vidx cval bnd F hd env)).
Proof.
  intros Hne HF gd hd HD. unfold gen_update_step, nmon_step.
  assert (HM0 : MemoRel sd_empty []) by (intros a _ _; reflexivity).
  destruct (gen_forest_refines F HF gd hd sd_empty [] HD HM0) as (gd1 & E1 & HD1). rewrite E1.
  pose proof (nvisit_forest_length F hd []) as Hlen.
  destruct (nvisit_forest AR pk0 vidx cval bnd env F hd []) as [d1 vs]. cbn [fst snd] in *.
  rewrite (last_item_last vs bot) by (intros ->; destruct F; [contradiction|discriminate Hlen]).
  exists gd1. split; [reflexivity|exact HD1].
Qed.
End OneUpdate.

(* len calls of update() on the rows k0, k0+1, .. of a trace *)
Theorem gen_run_refines F (w : trace) (vobjs : nat -> string -> string -> option V) :
  F <> [] -> (forall x, In x F -> D x) -> (forall k v f, vobjs k v f = Some (sig w (vidx v f) k)) ->
  forall len k0 gd hd, DictRel gd hd ->
  exists gd', gen_run AR cval vobjs F gd k0 len = Some (gd', snd (nmon_run AR pk0 vidx cval bnd F hd w k0 len)) /\
    DictRel gd' (fst (nmon_run AR pk0 vidx cval bnd F hd w k0 len)).
Proof.
  intros Hne HF Hv. induction len as [|len IH]; intros k0 gd hd HD.
  - exists gd. split; [reflexivity|exact HD].
  - cbn [gen_run nmon_run].
    destruct (gen_step_refines (row w k0) (vobjs k0) (fun v f => Hv k0 v f) F Hne HF gd hd HD) as (gd1 & E1 & HD1). rewrite E1.
    destruct (nmon_step AR pk0 vidx cval bnd F hd (row w k0)) as [d1 v]. cbn [fst snd] in *.
    destruct (IH (S k0) gd1 d1 HD1) as (gd2 & E2 & HD2). rewrite E2.
    destruct (nmon_run AR pk0 vidx cval bnd F d1 w (S k0) len) as [d2 vs]. cbn [fst snd] in *.
    exists gd2. split; [reflexivity|exact HD2].
Qed.
(* ---- the construction visitor on a whole tree / forest (mirrors OnlineNamedCorrect.nbuild_spec) ---- *)
Section Build.
Hypothesis D_tut : forall a, D a -> tut_ok bnd tut a.
Definition writes (b : node) : bool := match b with NConst _ => false | _ => true end.
Definition cspecL (L : list node) (gd gd' : sdict gop) (key : string) : Prop :=
  (gd' key = gd key /\ forall b, In b L -> writes b = true -> nname b <> key) \/
  (exists b, In b L /\ writes b = true /\ nname b = key /\ exists o, gd' key = Some o /\ OpRel b o (op_init (sem b))).
Definition cspec (x : node) := cspecL (subnodes x).

Lemma cspec_top x (gd gd1 : sdict gop) o key : writes x = true -> OpRel x o (op_init (sem x)) ->
  (forall k, k <> nname x ->
     (gd1 k = gd k /\ forall b, In b (tl (subnodes x)) -> writes b = true -> nname b <> k) \/
     (exists b, In b (tl (subnodes x)) /\ writes b = true /\ nname b = k /\ exists o, gd1 k = Some o /\ OpRel b o (op_init (sem b)))) ->
  cspec x gd (sd_set gd1 (nname x) o) key.
Proof.
  intros Hw Ho Hk. assert (Hs : subnodes x = x :: tl (subnodes x)) by (destruct x; reflexivity).
  unfold cspec, cspecL, sd_set. destruct (String.eqb_spec key (nname x)) as [->|Hne].
  - right. exists x. split; [apply subnodes_self|]. split; [exact Hw|]. split; [reflexivity|]. exists o. split; [reflexivity|exact Ho].
  - destruct (Hk key Hne) as [[E N]|(b & Hb & Hwb & Hn & o' & Eo & Ro)].
    + left. split; [exact E|]. intros b Hb Hwb. rewrite Hs in Hb. destruct Hb as [<-|Hb]; [congruence|exact (N b Hb Hwb)].
    + right. exists b. split; [rewrite Hs; right; exact Hb|]. split; [exact Hwb|]. split; [exact Hn|]. exists o'. split; assumption.
Qed.

Lemma cspecL_seq L1 L2 (gd gd1 gd2 : sdict gop) k : cspecL L1 gd gd1 k -> cspecL L2 gd1 gd2 k -> cspecL (L1 ++ L2) gd gd2 k.
Proof.
  unfold cspecL. intros S1 [[E2 N2]|(b & Hb & Hwb & Hn & o & Eo & Ro)].
  - destruct S1 as [[E1 N1]|(b & Hb & Hwb & Hn & o & Eo & Ro)].
    + left. split; [rewrite E2; exact E1|]. intros b Hb Hwb. apply in_app_or in Hb. destruct Hb as [Hb|Hb]; [exact (N1 b Hb Hwb)|exact (N2 b Hb Hwb)].
    + right. exists b. split; [apply in_or_app; left; exact Hb|]. split; [exact Hwb|]. split; [exact Hn|]. exists o. split; [rewrite E2; exact Eo|exact Ro].
  - right. exists b. split; [apply in_or_app; right; exact Hb|]. split; [exact Hwb|]. split; [exact Hn|]. exists o. split; assumption.
Qed.

Lemma gen_construct_spec : forall x, D x -> forall gd, exists gd', gen_construct tut x gd = Some gd' /\ forall key, cspec x gd gd' key.
Proof.
  induction x as [v f|t|u c IH|u b e c IH|u c1 IH1 c2 IH2|u c1 IH1 c2 IH2|u b e c1 IH1 c2 IH2]; intros Dx gd.
  - eexists. split; [reflexivity|]. intros key. apply cspec_top; [reflexivity|exact I|]. intros k _. left. split; [reflexivity|intros b []].
  - exists gd. split; [reflexivity|]. intros key. left. split; [reflexivity|]. intros b [<-|[]] Hw. discriminate Hw.
  - assert (Dc : D c) by (apply (D_sub _ _ Dx); right; apply subnodes_self).
    destruct (IH Dc gd) as (gd1 & E1 & S1).
    destruct (gen_construct_un AR vidx cval bnd tut (NUn u c) c gd gd1 (or_introl (ex_intro _ u eq_refl)) (D_past _ Dx) (D_wfb _ Dx) (D_tut _ Dx) E1) as (o & E & Ro).
    eexists. split; [exact E|]. intros key. apply cspec_top; [reflexivity|exact Ro|]. intros k _. exact (S1 k).
  - assert (Dc : D c) by (apply (D_sub _ _ Dx); right; apply subnodes_self).
    destruct (IH Dc gd) as (gd1 & E1 & S1).
    destruct (gen_construct_un AR vidx cval bnd tut (NTUn u b e c) c gd gd1 (or_intror (ex_intro _ u (ex_intro _ b (ex_intro _ e eq_refl)))) (D_past _ Dx) (D_wfb _ Dx) (D_tut _ Dx) E1) as (o & E & Ro).
    eexists. split; [exact E|]. intros key. apply cspec_top; [reflexivity|exact Ro|]. intros k _. exact (S1 k).
  - assert (Dc1 : D c1) by (apply (D_sub _ _ Dx); right; apply in_or_app; left; apply subnodes_self).
    assert (Dc2 : D c2) by (apply (D_sub _ _ Dx); right; apply in_or_app; right; apply subnodes_self).
    destruct (IH1 Dc1 gd) as (gd1 & E1 & S1). destruct (IH2 Dc2 gd1) as (gd2 & E2 & S2).
    destruct (gen_construct_bi AR vidx cval bnd tut (NFn2 u c1 c2) c1 c2 gd gd1 gd2 (or_introl (ex_intro _ u eq_refl)) (D_past _ Dx) (D_wfb _ Dx) (D_tut _ Dx) E1 E2) as (o & E & Ro).
    eexists. split; [exact E|]. intros key. apply cspec_top; [reflexivity|exact Ro|]. intros k _. exact (cspecL_seq _ _ gd gd1 gd2 k (S1 k) (S2 k)).
  - assert (Dc1 : D c1) by (apply (D_sub _ _ Dx); right; apply in_or_app; left; apply subnodes_self).
    assert (Dc2 : D c2) by (apply (D_sub _ _ Dx); right; apply in_or_app; right; apply subnodes_self).
    destruct (IH1 Dc1 gd) as (gd1 & E1 & S1). destruct (IH2 Dc2 gd1) as (gd2 & E2 & S2).
    destruct (gen_construct_bi AR vidx cval bnd tut (NBin u c1 c2) c1 c2 gd gd1 gd2 (or_intror (or_introl (ex_intro _ u eq_refl))) (D_past _ Dx) (D_wfb _ Dx) (D_tut _ Dx) E1 E2) as (o & E & Ro).
    eexists. split; [exact E|]. intros key. apply cspec_top; [reflexivity|exact Ro|]. intros k _. exact (cspecL_seq _ _ gd gd1 gd2 k (S1 k) (S2 k)).
  - assert (Dc1 : D c1) by (apply (D_sub _ _ Dx); right; apply in_or_app; left; apply subnodes_self).
    assert (Dc2 : D c2) by (apply (D_sub _ _ Dx); right; apply in_or_app; right; apply subnodes_self).
    destruct (IH1 Dc1 gd) as (gd1 & E1 & S1). destruct (IH2 Dc2 gd1) as (gd2 & E2 & S2).
    destruct (gen_construct_bi AR vidx cval bnd tut (NTBin u b e c1 c2) c1 c2 gd gd1 gd2 (or_intror (or_intror (ex_intro _ u (ex_intro _ b (ex_intro _ e eq_refl))))) (D_past _ Dx) (D_wfb _ Dx) (D_tut _ Dx) E1 E2) as (o & E & Ro).
    eexists. split; [exact E|]. intros key. apply cspec_top; [reflexivity|exact Ro|]. intros k _. exact (cspecL_seq _ _ gd gd1 gd2 k (S1 k) (S2 k)).
Qed.
Lemma gen_construct_forest_spec : forall F, (forall x, In x F -> D x) -> forall gd,
  exists gd', gen_construct_forest tut F gd = Some gd' /\ forall key, cspecL (flat_map subnodes F) gd gd' key.
Proof.
  induction F as [|x F IH]; intros HF gd.
  - exists gd. split; [reflexivity|]. intros key. left. split; [reflexivity|intros b []].
  - cbn [gen_construct_forest flat_map].
    destruct (gen_construct_spec x (HF x (or_introl eq_refl)) gd) as (gd1 & E1 & S1). rewrite E1.
    destruct (IH (fun y Hy => HF y (or_intror Hy)) gd1) as (gd2 & E2 & S2). rewrite E2.
    exists gd2. split; [reflexivity|]. intros key. exact (cspecL_seq _ _ gd gd1 gd2 key (S1 key) (S2 key)).
Qed.

(* set_ast: the dictionary it builds is related to the hand model's ndict_init *)
Theorem gen_set_ast_refines F : (forall a, D a <-> DN F a) ->
  exists gd0, gen_set_ast tut F = Some gd0 /\ DictRel gd0 (ndict_init vidx cval bnd F).
Proof.
  intros HDN. assert (HF : forall x, In x F -> D x).
  { intros x Hx. apply HDN. apply in_flat_map. exists x. split; [exact Hx|apply subnodes_self]. }
  destruct (gen_construct_forest_spec F HF sd_empty) as (gd0 & E0 & S0). exists gd0. split; [exact E0|].
  intros a Da Hl. assert (Ha : DN F a) by (apply HDN; exact Da).
  assert (Hw : writes a = true) by (destruct a; try reflexivity; discriminate Hl).
  destruct (S0 (nname a)) as [[_ N]|(b & Hb & _ & Hn & o & Eo & Ro)]; [exfalso; exact (N a Ha Hw eq_refl)|].
  rewrite (D_inj b a (proj2 (HDN b) Hb) Da Hn) in Ro. exists o. split; [exact Eo|].
  unfold ndict_init.
  destruct (nbuild_forest_spec vidx cval bnd F (fun _ => StNone) (nname a)) as [[_ N]|(b' & Hb' & Hn' & E')]; [exfalso; exact (N a Ha eq_refl)|].
  rewrite E', (D_inj b' a (proj2 (HDN b') Hb') Da Hn'). exact Ro.
Qed.
End Build.

(* ---- the reset visitor on a whole tree / forest: every operator of the specification is back in its initial state ---- *)
Lemma OpRel_good a o h : is_un a || is_bi a = true -> top_past a = true -> OpRel a o h -> good (sem a) h.
Proof.
  intros Hs Hp HR.
  destruct a as [v f|t|u c|u b e c|u c1 c2|u c1 c2|u b e c1 c2]; try discriminate Hs; destruct u; try discriminate Hp; try exact I;
    destruct o; cbn [OnlineVisitorGenCorrect.OpRel] in HR; try contradiction; cbn [OnlineNamed.sem tun_formula tbin_formula good];
    unfold R_oncet, R_histt, R_sincet, R_precedes in HR;
    first [destruct HR as (_ & _ & Hl & ->); exact Hl | destruct HR as (_ & _ & Hl & Hr & ->); split; assumption].
Qed.

Definition rspecL (L : list node) (hd hd' : ndict) (key : string) : Prop :=
  (hd' key = hd key /\ forall b, In b L -> nleaf b = false -> nname b <> key) \/
  (exists b, In b L /\ nleaf b = false /\ nname b = key /\ hd' key = op_init (sem b)).
Lemma rspecL_seq L1 L2 (hd hd1 hd2 : ndict) k : rspecL L1 hd hd1 k -> rspecL L2 hd1 hd2 k -> rspecL (L1 ++ L2) hd hd2 k.
Proof.
  unfold rspecL. intros S1 [[E2 N2]|(b & Hb & Hlb & Hn & Eo)].
  - destruct S1 as [[E1 N1]|(b & Hb & Hlb & Hn & Eo)].
    + left. split; [rewrite E2; exact E1|]. intros b Hb Hlb. apply in_app_or in Hb. destruct Hb as [Hb|Hb]; [exact (N1 b Hb Hlb)|exact (N2 b Hb Hlb)].
    + right. exists b. split; [apply in_or_app; left; exact Hb|]. split; [exact Hlb|]. split; [exact Hn|]. rewrite E2; exact Eo.
  - right. exists b. split; [apply in_or_app; right; exact Hb|]. split; [exact Hlb|]. split; [exact Hn|exact Eo].
Qed.
(* the generated visitUnary / visitBinary of the reset visitor after the children *)
Lemma reset_top x (gd1 : sdict gop) (hd hd1 : ndict) : D x -> is_un x || is_bi x = true -> DictRel gd1 hd1 ->
  (forall k, rspecL (tl (subnodes x)) hd hd1 k) ->
  exists o, sd_get gd1 (nname x) = Some o /\
    DictRel (sd_set gd1 (nname x) (gop_reset o)) (nupd hd1 (nname x) (op_init (sem x))) /\
    forall key, rspecL (subnodes x) hd (nupd hd1 (nname x) (op_init (sem x))) key.
Proof.
  intros Dx Hs HD1 S1.
  assert (Hl : nleaf x = false) by (destruct x; try discriminate Hs; reflexivity).
  destruct (HD1 _ Dx Hl) as (o & Eo & Ro). exists o. split; [exact Eo|]. split.
  - apply dict_upd; [exact HD1|exact Dx|].
    rewrite <- (op_reset_good pk0 (sem x) (hd1 (nname x)) (OpRel_good x o _ Hs (D_past _ Dx) Ro)).
    exact (gop_reset_refines AR vidx cval bnd x o _ Hs (D_past _ Dx) (D_wfb _ Dx) Ro).
  - intros key. assert (Hsn : subnodes x = x :: tl (subnodes x)) by (destruct x; reflexivity).
    unfold rspecL, nupd. destruct (String.eqb_spec key (nname x)) as [->|Hne].
    + right. exists x. split; [apply subnodes_self|]. split; [exact Hl|]. split; reflexivity.
    + destruct (S1 key) as [[E N]|(b & Hb & Hlb & Hn & E)].
      * left. split; [exact E|]. intros b Hb Hlb. rewrite Hsn in Hb. destruct Hb as [<-|Hb]; [congruence|exact (N b Hb Hlb)].
      * right. exists b. split; [rewrite Hsn; right; exact Hb|]. split; [exact Hlb|]. split; [exact Hn|exact E].
Qed.

Lemma gen_reset_spec : forall x, D x -> forall gd hd, DictRel gd hd ->
  exists gd' hd', gen_reset x gd = Some gd' /\ DictRel gd' hd' /\ forall key, rspecL (subnodes x) hd hd' key.
Proof.
  induction x as [v f|t|u c IH|u b e c IH|u c1 IH1 c2 IH2|u c1 IH1 c2 IH2|u b e c1 IH1 c2 IH2]; intros Dx gd hd HD.
  - exists gd, hd. split; [reflexivity|]. split; [exact HD|]. intros key. left. split; [reflexivity|]. intros b [<-|[]] Hl. discriminate Hl.
  - exists gd, hd. split; [reflexivity|]. split; [exact HD|]. intros key. left. split; [reflexivity|]. intros b [<-|[]] Hl. discriminate Hl.
  - assert (Dc : D c) by (apply (D_sub _ _ Dx); right; apply subnodes_self).
    destruct (IH Dc gd hd HD) as (gd1 & hd1 & E1 & HD1 & S1).
    destruct (reset_top (NUn u c) gd1 hd hd1 Dx eq_refl HD1 S1) as (o & Eo & HD' & S').
    cbn [gen_reset]. rewrite E1, Eo. eexists; eexists. split; [reflexivity|]. split; [exact HD'|exact S'].
  - assert (Dc : D c) by (apply (D_sub _ _ Dx); right; apply subnodes_self).
    destruct (IH Dc gd hd HD) as (gd1 & hd1 & E1 & HD1 & S1).
    destruct (reset_top (NTUn u b e c) gd1 hd hd1 Dx eq_refl HD1 S1) as (o & Eo & HD' & S').
    cbn [gen_reset]. rewrite E1, Eo. eexists; eexists. split; [reflexivity|]. split; [exact HD'|exact S'].
  - assert (Dc1 : D c1) by (apply (D_sub _ _ Dx); right; apply in_or_app; left; apply subnodes_self).
    assert (Dc2 : D c2) by (apply (D_sub _ _ Dx); right; apply in_or_app; right; apply subnodes_self).
    destruct (IH1 Dc1 gd hd HD) as (gd1 & hd1 & E1 & HD1 & S1). destruct (IH2 Dc2 gd1 hd1 HD1) as (gd2 & hd2 & E2 & HD2 & S2).
    destruct (reset_top (NFn2 u c1 c2) gd2 hd hd2 Dx eq_refl HD2 (fun k => rspecL_seq _ _ hd hd1 hd2 k (S1 k) (S2 k))) as (o & Eo & HD' & S').
    cbn [gen_reset]. rewrite E1, E2, Eo. eexists; eexists. split; [reflexivity|]. split; [exact HD'|exact S'].
  - assert (Dc1 : D c1) by (apply (D_sub _ _ Dx); right; apply in_or_app; left; apply subnodes_self).
    assert (Dc2 : D c2) by (apply (D_sub _ _ Dx); right; apply in_or_app; right; apply subnodes_self).
    destruct (IH1 Dc1 gd hd HD) as (gd1 & hd1 & E1 & HD1 & S1). destruct (IH2 Dc2 gd1 hd1 HD1) as (gd2 & hd2 & E2 & HD2 & S2).
    destruct (reset_top (NBin u c1 c2) gd2 hd hd2 Dx eq_refl HD2 (fun k => rspecL_seq _ _ hd hd1 hd2 k (S1 k) (S2 k))) as (o & Eo & HD' & S').
    cbn [gen_reset]. rewrite E1, E2, Eo. eexists; eexists. split; [reflexivity|]. split; [exact HD'|exact S'].
  - assert (Dc1 : D c1) by (apply (D_sub _ _ Dx); right; apply in_or_app; left; apply subnodes_self).
    assert (Dc2 : D c2) by (apply (D_sub _ _ Dx); right; apply in_or_app; right; apply subnodes_self).
    destruct (IH1 Dc1 gd hd HD) as (gd1 & hd1 & E1 & HD1 & S1). destruct (IH2 Dc2 gd1 hd1 HD1) as (gd2 & hd2 & E2 & HD2 & S2).
    destruct (reset_top (NTBin u b e c1 c2) gd2 hd hd2 Dx eq_refl HD2 (fun k => rspecL_seq _ _ hd hd1 hd2 k (S1 k) (S2 k))) as (o & Eo & HD' & S').
    cbn [gen_reset]. rewrite E1, E2, Eo. eexists; eexists. split; [reflexivity|]. split; [exact HD'|exact S'].
Qed.

Lemma gen_reset_forest_spec : forall F, (forall x, In x F -> D x) -> forall gd hd, DictRel gd hd ->
  exists gd' hd', gen_reset_forest F gd = Some gd' /\ DictRel gd' hd' /\ forall key, rspecL (flat_map subnodes F) hd hd' key.
Proof.
  induction F as [|x F IH]; intros HF gd hd HD.
  - exists gd, hd. split; [reflexivity|]. split; [exact HD|]. intros key. left. split; [reflexivity|intros b []].
  - cbn [gen_reset_forest flat_map].
    destruct (gen_reset_spec x (HF x (or_introl eq_refl)) gd hd HD) as (gd1 & hd1 & E1 & HD1 & S1). rewrite E1.
    destruct (IH (fun y Hy => HF y (or_intror Hy)) gd1 hd1 HD1) as (gd2 & hd2 & E2 & HD2 & S2). rewrite E2.
    exists gd2, hd2. split; [reflexivity|]. split; [exact HD2|]. intros key. exact (rspecL_seq _ _ hd hd1 hd2 key (S1 key) (S2 key)).
Qed.

(* reset(): afterwards the dictionary is related to the dictionary of a freshly built hand monitor *)
Theorem gen_reset_refines F gd hd : (forall a, D a <-> DN F a) -> DictRel gd hd ->
  exists gd', gen_reset_forest F gd = Some gd' /\ DictRel gd' (ndict_init vidx cval bnd F).
Proof.
  intros HDN HD. assert (HF : forall x, In x F -> D x).
  { intros x Hx. apply HDN. apply in_flat_map. exists x. split; [exact Hx|apply subnodes_self]. }
  destruct (gen_reset_forest_spec F HF gd hd HD) as (gd' & hd' & E & HD' & S). exists gd'. split; [exact E|].
  intros a Da Hl. assert (Ha : DN F a) by (apply HDN; exact Da).
  destruct (HD' a Da Hl) as (o & Eo & Ro). exists o. split; [exact Eo|].
  assert (E1 : hd' (nname a) = op_init (sem a)).
  { destruct (S (nname a)) as [[_ N]|(b & Hb & _ & Hn & Eb)]; [exfalso; exact (N a Ha Hl eq_refl)|].
    rewrite Eb, (D_inj b a (proj2 (HDN b) Hb) Da Hn). reflexivity. }
  assert (E2 : ndict_init vidx cval bnd F (nname a) = op_init (sem a)).
  { unfold ndict_init.
    destruct (nbuild_forest_spec vidx cval bnd F (fun _ => StNone) (nname a)) as [[_ N]|(b' & Hb' & Hn' & E')]; [exfalso; exact (N a Ha eq_refl)|].
    rewrite E', (D_inj b' a (proj2 (HDN b') Hb') Da Hn'). reflexivity. }
  rewrite E2, <- E1. exact Ro.
Qed.
End TreeCorrect.

(* ---- the closed statement: on a well-formed, supported specification the generated set_ast succeeds and len generated updates
   return exactly the verdicts of the hand monitor keyed by node name (OnlineNamed.nmon_run from ndict_init) ---- *)
Section Closed.
Context {VS : Val} (AR : Arith VS).
Variable vidx : string -> string -> nat.
Variable cval : string -> V.
Variable bnd : bound -> bound -> nat * nat.
Notation sem := (sem vidx cval bnd).

Lemma top_past_of a : past_only (sem a) = true -> top_past a = true.
Proof.
  intros H. destruct a as [v f|t|u c|u b e c|u c1 c2|u c1 c2|u b e c1 c2]; try reflexivity; destruct u; try reflexivity; cbn in H; discriminate H.
Qed.
Lemma top_wfb_of a : wf_bounds (sem a) = true -> top_wfb bnd a.
Proof.
  intros H. destruct a as [v f|t|u c|u b e c|u c1 c2|u c1 c2|u b e c1 c2]; try exact I; destruct u; cbn [OnlineNamed.sem tun_formula tbin_formula wf_bounds] in H;
    cbn [top_wfb]; repeat (apply andb_true_iff in H; destruct H as [H _]); apply Nat.leb_le; exact H.
Qed.

Theorem gen_monitor_refines (tut : bound -> bound -> option (Z * Z)) (F : list node) (w : trace)
    (vobjs : nat -> string -> string -> option V) (len : nat) :
  F <> [] ->
  (forall x, In x F -> nwf x = true /\ past_only (sem x) = true /\ wf_bounds (sem x) = true) ->
  (forall a, DN F a -> tut_ok bnd tut a) ->
  (forall k v f, vobjs k v f = Some (sig w (vidx v f) k)) ->
  exists gd0, gen_set_ast tut F = Some gd0 /\
  exists gd1, gen_run AR cval vobjs F gd0 0 len
              = Some (gd1, snd (nmon_run AR pk0 vidx cval bnd F (ndict_init vidx cval bnd F) w 0 len)).
Proof.
  intros Hne HF Htut Hv.
  assert (Hinj : forall a b, DN F a -> DN F b -> nname a = nname b -> a = b).
  { apply names_injective. intros x Hx. apply HF. exact Hx. }
  assert (Hroot : forall a, DN F a -> exists p, In p F /\ In a (subnodes p)) by (intros a Ha; apply in_flat_map in Ha; exact Ha).
  assert (Hpast : forall a, DN F a -> top_past a = true).
  { intros a Ha. destruct (Hroot a Ha) as (p & Hp & Hap). apply top_past_of. apply (sem_past vidx cval bnd p); [apply HF; exact Hp|exact Hap]. }
  assert (Hwfb : forall a, DN F a -> top_wfb bnd a).
  { intros a Ha. destruct (Hroot a Ha) as (p & Hp & Hap). apply top_wfb_of. apply (sem_wfb vidx cval bnd p); [apply HF; exact Hp|exact Hap]. }
  destruct (gen_set_ast_refines AR vidx cval bnd tut (DN F) (DN_sub F) Hinj Hpast Hwfb Htut F (fun a => conj (fun H => H) (fun H => H))) as (gd0 & E0 & HD0).
  exists gd0. split; [exact E0|].
  assert (HFD : forall x, In x F -> DN F x).
  { intros x Hx. apply in_flat_map. exists x. split; [exact Hx|apply subnodes_self]. }
  destruct (gen_run_refines AR vidx cval bnd (DN F) (DN_sub F) Hinj Hpast Hwfb F w vobjs Hne HFD Hv len 0 gd0 _ HD0) as (gd1 & E1 & _).
  exists gd1. exact E1.
Qed.
End Closed.
Print Assumptions gen_monitor_refines.

(* ---- reset(): after h updates on any data and the generated reset, len updates return what a freshly built generated monitor
   returns on the same data (both: the verdicts of the hand monitor from ndict_init) ---- *)
Section ClosedReset.
Context {VS : Val} (AR : Arith VS).
Variable vidx : string -> string -> nat.
Variable cval : string -> V.
Variable bnd : bound -> bound -> nat * nat.
Notation sem := (sem vidx cval bnd).

Theorem gen_reset_like_fresh (tut : bound -> bound -> option (Z * Z)) (F : list node) (w w' : trace)
    (vobjs vobjs' : nat -> string -> string -> option V) (h len : nat) :
  F <> [] ->
  (forall x, In x F -> nwf x = true /\ past_only (sem x) = true /\ wf_bounds (sem x) = true) ->
  (forall a, DN F a -> tut_ok bnd tut a) ->
  (forall k v f, vobjs k v f = Some (sig w (vidx v f) k)) ->
  (forall k v f, vobjs' k v f = Some (sig w' (vidx v f) k)) ->
  exists gd0 gd1 outs1 gd2 gd3 gd3',
    gen_set_ast tut F = Some gd0 /\
    gen_run AR cval vobjs F gd0 0 h = Some (gd1, outs1) /\
    gen_reset_forest F gd1 = Some gd2 /\
    gen_run AR cval vobjs' F gd2 0 len = Some (gd3, snd (nmon_run AR pk0 vidx cval bnd F (ndict_init vidx cval bnd F) w' 0 len)) /\
    gen_run AR cval vobjs' F gd0 0 len = Some (gd3', snd (nmon_run AR pk0 vidx cval bnd F (ndict_init vidx cval bnd F) w' 0 len)).
Proof.
  intros Hne HF Htut Hv Hv'.
  assert (Hinj : forall a b, DN F a -> DN F b -> nname a = nname b -> a = b).
  { apply names_injective. intros x Hx. apply HF. exact Hx. }
  assert (Hroot : forall a, DN F a -> exists p, In p F /\ In a (subnodes p)) by (intros a Ha; apply in_flat_map in Ha; exact Ha).
  assert (Hpast : forall a, DN F a -> top_past a = true).
  { intros a Ha. destruct (Hroot a Ha) as (p & Hp & Hap). apply (top_past_of vidx cval bnd). apply (sem_past vidx cval bnd p); [apply HF; exact Hp|exact Hap]. }
  assert (Hwfb : forall a, DN F a -> top_wfb bnd a).
  { intros a Ha. destruct (Hroot a Ha) as (p & Hp & Hap). apply (top_wfb_of vidx cval bnd). apply (sem_wfb vidx cval bnd p); [apply HF; exact Hp|exact Hap]. }
  assert (HFD : forall x, In x F -> DN F x).
  { intros x Hx. apply in_flat_map. exists x. split; [exact Hx|apply subnodes_self]. }
  pose proof (fun a : node => conj (fun H : DN F a => H) (fun H : DN F a => H)) as Hid.
  destruct (gen_set_ast_refines AR vidx cval bnd tut (DN F) (DN_sub F) Hinj Hpast Hwfb Htut F Hid) as (gd0 & E0 & HD0).
  destruct (gen_run_refines AR vidx cval bnd (DN F) (DN_sub F) Hinj Hpast Hwfb F w vobjs Hne HFD Hv h 0 gd0 _ HD0) as (gd1 & E1 & HD1).
  destruct (gen_reset_refines AR vidx cval bnd (DN F) (DN_sub F) Hinj Hpast Hwfb F gd1 _ Hid HD1) as (gd2 & E2 & HD2).
  destruct (gen_run_refines AR vidx cval bnd (DN F) (DN_sub F) Hinj Hpast Hwfb F w' vobjs' Hne HFD Hv' len 0 gd2 _ HD2) as (gd3 & E3 & _).
  destruct (gen_run_refines AR vidx cval bnd (DN F) (DN_sub F) Hinj Hpast Hwfb F w' vobjs' Hne HFD Hv' len 0 gd0 _ HD0) as (gd3' & E3' & _).
  eexists gd0, gd1, _, gd2, gd3, gd3'. split; [exact E0|]. split; [exact E1|]. split; [exact E2|]. split; [exact E3|exact E3'].
Qed.
End ClosedReset.
Print Assumptions gen_reset_like_fresh.
