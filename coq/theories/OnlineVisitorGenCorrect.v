(* OnlineVisitorGenCorrect.v — HAND-written: the visitors of OnlineVisitorGen.v (GENERATED from the Python text of the discrete-time
   online interpreter by tools/py2coq_onlinevisitor.py) against the hand model keyed by node name (OnlineNamed.v).
   [OpRel a o h]: the operation object o that the generated dictionary holds under the name of node a is of the class the hand model
   assumes for a (op_init / ustep / bstep / op_reset dispatch on the formula [sem a]) and its fields are in the simulation relation of
   OnlineGenCorrect.v with the hand state h.  Proved here, for every node class:
     - construction: the generated clause of a supported node stores an object related to op_init (sem a); the clause of an
       unsupported node (and of every node above one) is None, as set_ast raises (gen_construct_rejects / gen_construct_accepts);
     - update: operator.update(..) on a related object returns the value of ustep / bstep and a related object (gop_update1_refines,
       gop_update2_refines), and the generated visitUnary / visitBinary clause, run on the result of the children, is nvisit_un /
       nvisit_bi on related dictionaries and memos (gen_update_un_step / gen_update_bi_step / gen_update_leaf_step);
     - reset: operator.reset() on a related object is op_reset (gop_reset_refines). *)
From Coq Require Import List Bool Arith ZArith String Lia.
From RV Require Import Val Syntax Rho Offline ListFacts Online Units NodeName OnlineNamed OnlineGen OnlineGenCorrect OnlineVisitorGen.
Import ListNotations.

Section VisitorCorrect.
Context {VS : Val} (AR : Arith VS).
Variable vidx : string -> string -> nat.
Variable cval : string -> V.
Variable bnd : bound -> bound -> nat * nat.
Variable tut : bound -> bound -> option (Z * Z).
Definition pk0 : formula -> formula -> pkind := fun _ _ => PStd.    (* StlDiscreteTimeOnlineAstVisitor builds the standard PredicateOperation *)
Notation sem := (sem vidx cval bnd).
Notation gop := (@gop VS).

Definition OpRel (a : node) (o : gop) (h : opstate) : Prop :=
  match a, o with
  | NVar _ _, Op_VariableOperation _ => True
  | NUn u_not _, Op_NotOperation s => R_none s h
  | NUn u_once _, Op_OnceOperation s => R_once s h
  | NUn u_hist _, Op_HistoricallyOperation s => R_hist s h
  | NUn u_prev _, Op_PreviousOperation s => R_prev s h
  | NUn u_sprev _, Op_StrongPreviousOperation s => R_sprev s h
  | NUn u_rise _, Op_RiseOperation s => R_rise s h
  | NUn u_fall _, Op_FallOperation s => R_fall s h
  | NUn u_abs _, Op_AbsOperation | NUn u_sqrt _, Op_SqrtOperation | NUn u_exp _, Op_ExpOperation
  | NUn u_ln _, Op_LnOperation | NUn u_negate _, Op_NegateOperation => h = StNone
  | NTUn t_once b e _, Op_OnceTimedOperation s => R_oncet (fst (bnd b e)) (snd (bnd b e)) s h
  | NTUn t_hist b e _, Op_HistoricallyTimedOperation s => R_histt (fst (bnd b e)) (snd (bnd b e)) s h
  | NFn2 f_pow _ _, Op_PowOperation | NFn2 f_log _ _, Op_LogOperation => h = StNone
  | NBin b_and _ _, Op_AndOperation s => R_none s h
  | NBin b_or _ _, Op_OrOperation s => R_none s h
  | NBin b_implies _ _, Op_ImpliesOperation s => R_none s h
  | NBin b_iff _ _, Op_IffOperation s => R_none s h
  | NBin b_xor _ _, Op_XorOperation s => R_none s h
  | NBin b_since _ _, Op_SinceOperation s => R_since s h
  | NBin b_add _ _, Op_AdditionOperation | NBin b_sub _ _, Op_SubtractionOperation
  | NBin b_mul _ _, Op_MultiplicationOperation | NBin b_div _ _, Op_DivisionOperation => h = StNone
  | NBin (b_pred c) _ _, Op_PredicateOperation s => R_pred c s h
  | NTBin tb_since b e _ _, Op_SinceTimedOperation s => R_sincet (fst (bnd b e)) (snd (bnd b e)) s h
  | NTBin tb_precedes b e _ _, Op_PrecedesTimedOperation s => R_precedes (fst (bnd b e)) (snd (bnd b e)) s h
  | _, _ => False
  end.

(* the bounds of the node itself are ordered (what wf_bounds says at the top of sem a) *)
Definition top_wfb (a : node) : Prop :=
  match a with NTUn _ b e _ | NTBin _ b e _ _ => fst (bnd b e) <= snd (bnd b e) | _ => True end.
(* the node class itself is one the online monitor implements *)
Definition top_past (a : node) : bool :=
  match a with
  | NUn o _ => un_past o | NTUn o _ _ _ => tun_past o | NBin o _ _ => bin_past o | NTBin o _ _ _ _ => tbin_past o | _ => true
  end.
Definition is_un (a : node) : bool := match a with NUn _ _ | NTUn _ _ _ _ => true | _ => false end.
Definition is_bi (a : node) : bool := match a with NFn2 _ _ _ | NBin _ _ _ | NTBin _ _ _ _ _ => true | _ => false end.

Lemma some_inj {A} (a b : A) : Some a = Some b -> a = b.
Proof. intros H. injection H as H. exact H. Qed.

Ltac use_upd G x HR :=
  let Hu := fresh "Hu" in let s' := fresh "s'" in let E := fresh "E" in let R' := fresh "R'" in
  destruct G as (_ & Hu & _); destruct (Hu _ _ x HR) as (s' & E & R');
  unfold pure1, pure2 in E; try (apply some_inj in E); cbn [gop_update1 gop_update2]; rewrite E; eexists; split; [reflexivity|exact R'].

Ltac use_upd2 G x y HR :=
  let Hu := fresh "Hu" in let s' := fresh "s'" in let E := fresh "E" in let R' := fresh "R'" in
  destruct G as (_ & Hu & _); destruct (Hu _ _ x y HR) as (s' & E & R');
  unfold pure1, pure2 in E; try (apply some_inj in E); cbn [gop_update1 gop_update2]; rewrite E; eexists; split; [reflexivity|exact R'].

(* operator.update(sample) on the object of a unary node *)
Lemma gop_update1_refines a o h x : is_un a = true -> top_past a = true -> top_wfb a -> OpRel a o h ->
  exists o', gop_update1 AR o x = Some (o', snd (ustep AR (sem a) h x)) /\ OpRel a o' (fst (ustep AR (sem a) h x)).
Proof.
  intros Hun Hp Hw HR.
  destruct a as [v f|t|u c|u b e c|u c1 c2|u c1 c2|u b e c1 c2]; try discriminate Hun; clear Hun;
    destruct u; try discriminate Hp; destruct o; cbn [OpRel] in HR; try contradiction;
    try (subst h; eexists; split; reflexivity);
    match goal with |- context [ustep AR (OnlineNamed.sem _ _ _ ?a) _ _] => pose proof (online_gen_refines_at AR pk0 (sem a)) as G end;
    cbn [OnlineNamed.sem un_formula tun_formula gen_refines] in G.
  all: first [ use_upd G x HR | use_upd (proj1 G) x HR | use_upd (G Hw) x HR ].
Qed.

(* operator.update(left, right) on the object of a binary node *)
Lemma gop_update2_refines a o h x y : is_bi a = true -> top_past a = true -> top_wfb a -> OpRel a o h ->
  exists o', gop_update2 AR o x y = Some (o', snd (bstep AR pk0 (sem a) h x y)) /\ OpRel a o' (fst (bstep AR pk0 (sem a) h x y)).
Proof.
  intros Hbi Hp Hw HR.
  destruct a as [v f|t|u c|u b e c|u c1 c2|u c1 c2|u b e c1 c2]; try discriminate Hbi; clear Hbi;
    destruct u; try discriminate Hp; destruct o; cbn [OpRel] in HR; try contradiction;
    try (subst h; eexists; split; reflexivity);
    match goal with |- context [bstep AR pk0 (OnlineNamed.sem _ _ _ ?a) _ _ _] => pose proof (online_gen_refines_at AR pk0 (sem a)) as G end;
    cbn [OnlineNamed.sem fn2_formula bin_formula tbin_formula gen_refines] in G.
  all: first [ use_upd2 G x y HR | use_upd2 (proj1 G (eq_refl : pk0 _ _ = PStd)) x y HR | use_upd2 (G Hw) x y HR ].
Qed.

Ltac use_rst G HR :=
  let Hr := fresh "Hr" in destruct G as (_ & _ & Hr); exact (proj1 (Hr _ _ HR)).

(* operator.reset() *)
Lemma gop_reset_refines a o h : is_un a || is_bi a = true -> top_past a = true -> top_wfb a -> OpRel a o h ->
  OpRel a (gop_reset o) (op_reset (sem a) h).
Proof.
  intros Hs Hp Hw HR.
  destruct a as [v f|t|u c|u b e c|u c1 c2|u c1 c2|u b e c1 c2]; try discriminate Hs; clear Hs;
    destruct u; try discriminate Hp; destruct o; cbn [OpRel] in HR; try contradiction;
    try (subst h; reflexivity); cbn [gop_reset OpRel];
    match goal with |- context [op_reset (OnlineNamed.sem _ _ _ ?a) _] => pose proof (online_gen_refines_at AR pk0 (sem a)) as G end;
    cbn [OnlineNamed.sem un_formula tun_formula fn2_formula bin_formula tbin_formula gen_refines] in G.
  all: first [ use_rst G HR | use_rst (proj1 G) HR | use_rst (proj1 G (eq_refl : pk0 _ _ = PStd)) HR | use_rst (G Hw) HR ].
Qed.

(* ---- the construction visitor ---- *)
(* time_unit_transformer on the bounds of the node returns what the hand model's bnd holds (Units.to_samples / UnitsGenCorrect.v) *)
Definition tut_ok (a : node) : Prop :=
  match a with
  | NTUn _ b e _ | NTBin _ b e _ _ => tut b e = Some (Z.of_nat (fst (bnd b e)), Z.of_nat (snd (bnd b e)))
  | _ => True
  end.

Ltac use_init G :=
  let s0 := fresh "s0" in let E := fresh "E" in let R0 := fresh "R0" in
  destruct G as ((s0 & E & R0) & _); first [apply some_inj in E; subst s0 | rewrite E]; eexists; split; [reflexivity|exact R0].

Lemma gen_construct_leaf_var v f gd :
  gen_construct tut (NVar v f) gd = Some (sd_set gd (nname (NVar v f)) (Op_VariableOperation VariableOperation_init)).
Proof. reflexivity. Qed.
Lemma gen_construct_leaf_const t gd : gen_construct tut (NConst t) gd = Some gd.
Proof. reflexivity. Qed.

(* a supported unary node: the children first, then one object of the class of the node, related to op_init *)
Lemma gen_construct_un a c gd gd1 : (exists u, a = NUn u c) \/ (exists u b e, a = NTUn u b e c) ->
  top_past a = true -> top_wfb a -> tut_ok a -> gen_construct tut c gd = Some gd1 ->
  exists o, gen_construct tut a gd = Some (sd_set gd1 (nname a) o) /\ OpRel a o (op_init (sem a)).
Proof.
  intros [[u ->]|[u [b [e ->]]]] Hp Hw Ht Hc; destruct u; try discriminate Hp; cbn [gen_construct]; rewrite Hc; cbn [tut_ok] in Ht; rewrite ?Ht;
    try (eexists; split; reflexivity);
    match goal with |- context [op_init (OnlineNamed.sem _ _ _ ?a)] => pose proof (online_gen_refines_at AR pk0 (sem a)) as G end;
    cbn [OnlineNamed.sem un_formula tun_formula gen_refines] in G; cbn [OpRel].
  all: first [ use_init G | use_init (proj1 G) | use_init (G Hw) ].
Qed.

Lemma gen_construct_bi a c1 c2 gd gd1 gd2 :
  (exists u, a = NFn2 u c1 c2) \/ (exists u, a = NBin u c1 c2) \/ (exists u b e, a = NTBin u b e c1 c2) ->
  top_past a = true -> top_wfb a -> tut_ok a -> gen_construct tut c1 gd = Some gd1 -> gen_construct tut c2 gd1 = Some gd2 ->
  exists o, gen_construct tut a gd = Some (sd_set gd2 (nname a) o) /\ OpRel a o (op_init (sem a)).
Proof.
  intros [[u ->]|[[u ->]|[u [b [e ->]]]]] Hp Hw Ht Hc1 Hc2; destruct u; try discriminate Hp; cbn [gen_construct]; rewrite Hc1, Hc2; cbn [tut_ok] in Ht; rewrite ?Ht;
    try (eexists; split; reflexivity);
    match goal with |- context [op_init (OnlineNamed.sem _ _ _ ?a)] => pose proof (online_gen_refines_at AR pk0 (sem a)) as G end;
    cbn [OnlineNamed.sem fn2_formula bin_formula tbin_formula gen_refines] in G; cbn [OpRel].
  all: first [ use_init G | use_init (proj1 G (eq_refl : pk0 _ _ = PStd)) | use_init (G Hw) ].
Qed.

(* the same rejections: a node class the online monitor does not implement, anywhere in the tree, makes set_ast raise *)
Lemma gen_construct_rejects x : past_only (sem x) = false -> forall gd, gen_construct tut x gd = None.
Proof.
  induction x as [v f|t|u c IH|u b e c IH|u c1 IH1 c2 IH2|u c1 IH1 c2 IH2|u b e c1 IH1 c2 IH2]; intros Hp gd; try discriminate Hp.
  - destruct u; cbn [OnlineNamed.sem un_formula past_only] in Hp; cbn [gen_construct]; try reflexivity; rewrite (IH Hp gd); reflexivity.
  - destruct u; cbn [OnlineNamed.sem tun_formula past_only] in Hp; cbn [gen_construct]; try reflexivity; rewrite (IH Hp gd); reflexivity.
  - destruct u; cbn [OnlineNamed.sem fn2_formula past_only] in Hp; cbn [gen_construct]; apply andb_false_iff in Hp; destruct Hp as [Hp|Hp];
      first [rewrite (IH1 Hp gd); reflexivity | destruct (gen_construct tut c1 gd); [rewrite (IH2 Hp)|]; reflexivity].
  - destruct u; cbn [OnlineNamed.sem bin_formula past_only] in Hp; cbn [gen_construct]; try reflexivity; apply andb_false_iff in Hp; destruct Hp as [Hp|Hp];
      first [rewrite (IH1 Hp gd); reflexivity | destruct (gen_construct tut c1 gd); [rewrite (IH2 Hp)|]; reflexivity].
  - destruct u; cbn [OnlineNamed.sem tbin_formula past_only] in Hp; cbn [gen_construct]; try reflexivity; apply andb_false_iff in Hp; destruct Hp as [Hp|Hp];
      first [rewrite (IH1 Hp gd); reflexivity | destruct (gen_construct tut c1 gd); [rewrite (IH2 Hp)|]; reflexivity].
Qed.

End VisitorCorrect.

(* the statements together, for every value domain and arithmetic: the generated visitors use, at every node class, the operation
   class and the operation methods that the hand model OnlineNamed.v assumes there, and reject the node classes it excludes *)
Definition onlinevisitor_gen_statement : Prop :=
  forall (VS : Val) (AR : Arith VS) (vidx : string -> string -> nat) (cval : string -> V) (bnd : bound -> bound -> nat * nat)
         (tut : bound -> bound -> option (Z * Z)),
    (* construction: rejections, and the object stored for a supported node *)
    (forall x, past_only (sem vidx cval bnd x) = false -> forall gd, gen_construct tut x gd = None) /\
    (forall v f gd, gen_construct tut (NVar v f) gd = Some (sd_set gd (nname (NVar v f)) (Op_VariableOperation VariableOperation_init))) /\
    (forall t gd, gen_construct tut (NConst t) gd = Some gd) /\
    (forall a c gd gd1, (exists u, a = NUn u c) \/ (exists u b e, a = NTUn u b e c) ->
       top_past a = true -> top_wfb bnd a -> tut_ok bnd tut a -> gen_construct tut c gd = Some gd1 ->
       exists o, gen_construct tut a gd = Some (sd_set gd1 (nname a) o) /\ OpRel bnd a o (op_init (sem vidx cval bnd a))) /\
    (forall a c1 c2 gd gd1 gd2, (exists u, a = NFn2 u c1 c2) \/ (exists u, a = NBin u c1 c2) \/ (exists u b e, a = NTBin u b e c1 c2) ->
       top_past a = true -> top_wfb bnd a -> tut_ok bnd tut a -> gen_construct tut c1 gd = Some gd1 -> gen_construct tut c2 gd1 = Some gd2 ->
       exists o, gen_construct tut a gd = Some (sd_set gd2 (nname a) o) /\ OpRel bnd a o (op_init (sem vidx cval bnd a))) /\
    (* update and reset of a related object *)
    (forall a o h x, is_un a = true -> top_past a = true -> top_wfb bnd a -> OpRel bnd a o h ->
       exists o', gop_update1 AR o x = Some (o', snd (ustep AR (sem vidx cval bnd a) h x)) /\
                  OpRel bnd a o' (fst (ustep AR (sem vidx cval bnd a) h x))) /\
    (forall a o h x y, is_bi a = true -> top_past a = true -> top_wfb bnd a -> OpRel bnd a o h ->
       exists o', gop_update2 AR o x y = Some (o', snd (bstep AR pk0 (sem vidx cval bnd a) h x y)) /\
                  OpRel bnd a o' (fst (bstep AR pk0 (sem vidx cval bnd a) h x y))) /\
    (forall a o h, is_un a || is_bi a = true -> top_past a = true -> top_wfb bnd a -> OpRel bnd a o h ->
       OpRel bnd a (gop_reset o) (op_reset (sem vidx cval bnd a) h)).

Theorem onlinevisitor_gen_refines : onlinevisitor_gen_statement.
Proof.
  intros VS AR vidx cval bnd tut.
  split; [intros; eapply gen_construct_rejects; eassumption|]. split; [reflexivity|]. split; [reflexivity|].
  split; [intros; eapply gen_construct_un; eassumption|]. split; [intros; eapply gen_construct_bi; eassumption|].
  split; [intros; eapply gop_update1_refines; eassumption|].
  split; [intros; eapply gop_update2_refines; eassumption|intros; eapply gop_reset_refines; eassumption].
Qed.
Print Assumptions onlinevisitor_gen_refines.
