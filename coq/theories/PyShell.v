(* PyShell.v — the run-time library of tools/py2coq_shell.py: the state of the discrete-time offline interpreter and of the
   AST object it works on (rtamt/syntax/ast/parser/abstract_ast_parser.py: free_vars, var_object_dict, inputs, results, specs,
   phi_name_to_node_dict), Python dicts as association lists, the outcome monad (Ok / RTAMTException / any other exception),
   and the hand-written glue `py_visit` (StlDiscreteTimeOfflineAstVisitor.visit on a root node = OfflineGenEval.eval_gen on the
   columns of var_object_dict, result stored in results[node]).  The translator only composes these.
   Simplifications (stated, not hidden):
   * names and node identities are numbers; a Python object is either a column (list of values) or "something else" (VDefault:
     what create_var_from_name returns, float() / int() / an instance of an imported class);
   * `results` holds the entries of the ROOT nodes of ast.specs (keyed by the identity token of the node) and the 'time' entry;
     the entries of inner nodes, which visit() writes too, are not represented;
   * a data set is its 'time' entry (if any) and the ordered list of its other entries;
   * when a variable of the visited formula is not bound to a column py_visit returns Crash (Python: TypeError of len()/zip()/
     iteration over a float — except on an empty time column, where some visit methods return [] : not modelled). *)
From Coq Require Import List Bool Arith ZArith.
From RV Require Import Val Syntax Rho Offline PySem OfflineGen OfflineGenEval.
Import ListNotations.

Notation "x <-- e ;; k" := (match e with Ok x => k | Rtamt => Rtamt | Crash => Crash end)
  (at level 61, e at next level, right associativity, only parsing).
Notation "' p <-- e ;; k" := (match e with Ok p => k | Rtamt => Rtamt | Crash => Crash end)
  (at level 61, p pattern, e at next level, right associativity, only parsing).

Section Dict.
Context {A : Type}.
(* d[k] (None: KeyError), k in d, d[k] = v (an existing key keeps its position) *)
Fixpoint dict_get (d : list (nat * A)) (k : nat) : option A :=
  match d with [] => None | (k', v) :: d' => if Nat.eqb k' k then Some v else dict_get d' k end.
Definition dict_mem (d : list (nat * A)) (k : nat) : bool := match dict_get d k with Some _ => true | None => false end.
Fixpoint dict_set (d : list (nat * A)) (k : nat) (v : A) : list (nat * A) :=
  match d with [] => [(k, v)] | (k', v') :: d' => if Nat.eqb k' k then (k', v) :: d' else (k', v') :: dict_set d' k v end.
Definition dict_get_o (d : list (nat * A)) (k : nat) : outcome A :=
  match dict_get d k with Some v => Ok v | None => Crash end.
End Dict.

Section Loops.
Context {A S : Type}.
Fixpoint py_for_o (l : list A) (body : A -> S -> outcome S) (s : S) : outcome S :=
  match l with
  | [] => Ok s
  | x :: xs => s' <-- body x s ;; py_for_o xs body s'
  end.
Definition py_get_o (l : list A) (i : Z) : outcome A := match py_get l i with Some x => Ok x | None => Crash end.
End Loops.

Section PyShell.
Context {VS : Val} (AR : Arith VS).
Context {T C : Type}.

Inductive vobj := VDefault | VCol (l : list V).

Record dataset := mkDs { ds_time : option (list T); ds_cols : list (nat * list V) }.
(* dataset['time'], dataset[key] (KeyError: Crash), the keys other than 'time' in order *)
Definition ds_time_get (d : dataset) : outcome (list T) := match ds_time d with Some t => Ok t | None => Crash end.
Definition ds_col_get (d : dataset) (k : nat) : outcome vobj :=
  match dict_get (ds_cols d) k with Some l => Ok (VCol l) | None => Crash end.
Definition ds_keys (d : dataset) : list nat := map fst (ds_cols d).

Record st := mkSt {
  free_vars : list nat;
  var_object_dict : list (nat * vobj);
  inputs : list (nat * vobj);
  results_time : option (list T);
  results : list (nat * vobj);
  specs : list (nat * formula);
  phi_name_to_node_dict : list (nat * nat);
  sampling_violation_counter : C }.
Definition set_var_object_dict s x := mkSt (free_vars s) x (inputs s) (results_time s) (results s) (specs s) (phi_name_to_node_dict s) (sampling_violation_counter s).
Definition set_inputs s x := mkSt (free_vars s) (var_object_dict s) x (results_time s) (results s) (specs s) (phi_name_to_node_dict s) (sampling_violation_counter s).
Definition set_results_time s x := mkSt (free_vars s) (var_object_dict s) (inputs s) (Some x) (results s) (specs s) (phi_name_to_node_dict s) (sampling_violation_counter s).
Definition set_results s x := mkSt (free_vars s) (var_object_dict s) (inputs s) (results_time s) x (specs s) (phi_name_to_node_dict s) (sampling_violation_counter s).
Definition set_sampling_violation_counter s x := mkSt (free_vars s) (var_object_dict s) (inputs s) (results_time s) (results s) (specs s) (phi_name_to_node_dict s) x.

(* AbstractInterpreter.exist_ast (pinned): the state of the model always has an ast *)
Definition py_exist_ast (s : st) : outcome unit := Ok tt.

(* the variables a formula reads *)
Fixpoint pvars (p : formula) : list nat :=
  match p with
  | Var x => [x]
  | Const _ => []
  | A1 _ f | Not f | Rise f | Fall f | Prev f | SPrev f | Next f | SNext f | Once f | Hist f | Ev f | Alw f
  | OnceT _ _ f | HistT _ _ f | EvT _ _ f | AlwT _ _ f => pvars f
  | A2 _ f g | Pred _ f g | And f g | Or f g | Implies f g | Iff f g | Xor f g | Since f g | Until f g
  | SinceT _ _ f g | UntilT _ _ f g | Precedes _ _ f g => pvars f ++ pvars g
  end.

Definition is_col (o : option vobj) : bool := match o with Some (VCol _) => true | _ => false end.
Definition vars_bound (vod : list (nat * vobj)) (p : formula) : bool := forallb (fun x => is_col (dict_get vod x)) (pvars p).
Definition col_of (vod : list (nat * vobj)) (x : nat) : list V := match dict_get vod x with Some (VCol l) => l | _ => [] end.
Definition trace_of (vod : list (nat * vobj)) : trace := map (col_of vod) (seq 0 (S (fold_right Nat.max 0 (map fst vod)))).

(* StlDiscreteTimeOfflineAstVisitor.visit(node, length) on a root node (pinned by tools/py2coq_offline.py): the column of the
   generated visit methods, stored in results[node]; an exception of a visit method is not an RTAMTException *)
Definition py_visit (s : st) (node : nat * formula) (length : Z) : outcome (vobj * st) :=
  if vars_bound (var_object_dict s) (snd node) then
    match eval_gen AR (snd node) (trace_of (var_object_dict s)) (Z.to_nat length) with
    | Some r => Ok (VCol r, set_results s (dict_set (results s) (fst node) (VCol r)))
    | None => Crash
    end
  else Crash.

(* [[a[0], a[1]] for a in zip(ts, rob)]: zip of something that is not iterable raises TypeError *)
Definition py_zip_pairs (ts : list T) (rob : vobj) : outcome (list (T * V)) :=
  match rob with VCol l => Ok (combine ts l) | VDefault => Crash end.
End PyShell.
Arguments vobj {VS}.
Arguments st {VS} T C.
Arguments dataset {VS} T.
