(* DenseOfflineGenCorrect.v — the definitions that tools/py2coq_denseoffline.py generates from the dense-time OFFLINE visitor
   (DenseOfflineGen.v) compute the hand models of DenseEval.v / DenseWin.v / DenseVisitor.v, on which the C04 theorems are stated:
     gen_m_M                                   =  the function the hand visitor hands to isect
     point-wise visit methods                  =  dmap (a1 AR o) / dmap neg   (sqrt, ln: when no value is outside the domain, None otherwise)
     binary visit methods, and / subtraction   =  isect f
     visitPredicate                            =  ia_pred PStd = dedup (dmap (pred_of_diff c)) after the subtraction
     visitOnce / Historically                  =  once_op / hist_op            visitEventually / Always  =  ev_op / alw_op
     since_operation / until_operation         =  since_op / until_op
     once/historically/eventually/always_timed_operation = once_timed_op / hist_timed_op / ev_timed_op / alw_timed_op   (DenseOfflineGenWinCorrect.v)
     since_timed_operation / until_timed_...   =  since_timed_op / until_timed_op
     gen_deval                                 =  deval   (formulas without sqrt / ln: equality; all formulas: a result of gen_deval is the result of deval)
   intersection() itself is not generated: both sides call isect / split_isect.
   This file is re-checked against the regenerated text on every build. *)
From Coq Require Import List Bool Arith ZArith Lia.
From RV Require Import Val Syntax Rho Online Dense DenseMerge DenseMergeG DenseEval DenseWin DenseIA DenseVisitor PySem PyDense PyDenseOff
  DenseOfflineGen.
From RV Require Import DenseOfflineGenWinCorrect.
Import ListNotations.
Local Open Scope Z_scope.

Section Prims.
Context {A S : Type}.

Lemma py_for_app (l1 l2 : list A) (body : A -> S -> option S) (s : S) :
  py_for (l1 ++ l2) body s = match py_for l1 body s with Some s' => py_for l2 body s' | None => None end.
Proof.
  revert s. induction l1 as [|x r IH]; intros s; [reflexivity|].
  cbn [app py_for]. destruct (body x s) as [s'|]; [apply IH|reflexivity].
Qed.

Lemma py_enum_from_cons (k : Z) (x : A) (r : list A) : py_enum_from k (x :: r) = (k, x) :: py_enum_from (k + 1) r.
Proof. reflexivity. Qed.

Lemma py_len_cons (x : A) (r : list A) : py_len (x :: r) = py_len r + 1.
Proof. unfold py_len. cbn [length]. lia. Qed.
End Prims.

(* the goal is `match o with Some x => .. | None => None end = _` and E : o' = Some _ with o' convertible to o *)
Ltac head_is E :=
  lazymatch goal with
  | |- match ?o with _ => _ end = _ => let H := fresh "H" in assert (H : o = _) by (exact E); rewrite H; clear H
  end.

Section Correct.
Context {VS : Val} (AR : Arith VS).

Lemma veq_sym (x y : V) : veq x y = veq y x.
Proof. unfold veq. destruct (v_eq_dec x y) as [E|E], (v_eq_dec y x) as [F|F]; try reflexivity; congruence. Qed.

(* ---------------- the functions handed to intersection() ---------------- *)
Lemma gen_m_ok :
  gen_m_disjunction AR = vmax /\ gen_m_conjunction AR = vmin /\ gen_m_implication AR = (fun l r => vmax (neg l) r) /\
  gen_m_xor AR = (fun l r => a1 AR Abs (a2 AR Sub l r)) /\ gen_m_iff AR = (fun l r => neg (a1 AR Abs (a2 AR Sub l r))) /\
  gen_m_addition AR = a2 AR Add /\ gen_m_subtraction AR = a2 AR Sub /\ gen_m_multiplication AR = a2 AR Mul /\
  gen_m_division AR = a2 AR Div /\ gen_m_power AR = a2 AR Pow /\ gen_m_log AR = a2 AR Log.
Proof. repeat split; reflexivity. Qed.

Lemma obind_some {X : Type} (o : option X) : match o with Some x => Some x | None => None end = o.
Proof. destruct o; reflexivity. Qed.

Lemma gen_subtraction_operation_ok l r : gen_subtraction_operation AR l r = isect (a2 AR Sub) l r.
Proof. unfold gen_subtraction_operation. apply obind_some. Qed.
Lemma gen_and_operation_ok l r : gen_and_operation AR l r = isect vmin l r.
Proof. unfold gen_and_operation. apply obind_some. Qed.

(* ---------------- point-wise unary methods ---------------- *)
Lemma map_loop (g : V -> V) : forall (s acc : dsig),
  py_for s (fun i sample_return => Some (sample_return ++ [(fst i, g (snd i))])) acc = Some (acc ++ dmap g s).
Proof.
  induction s as [|[t v] r IH]; intros acc; [cbn; rewrite app_nil_r; reflexivity|].
  cbn [py_for dmap map fst snd]. rewrite IH. unfold dmap. rewrite <- app_assoc. reflexivity.
Qed.

Lemma gen_visitAbs_ok s : gen_visitAbs AR s = Some (dmap (a1 AR Abs) s).
Proof. unfold gen_visitAbs. cbv zeta. rewrite (map_loop (a1 AR Abs)). reflexivity. Qed.
Lemma gen_visitExp_ok s : gen_visitExp AR s = Some (dmap (a1 AR Exp) s).
Proof. unfold gen_visitExp. cbv zeta. rewrite (map_loop (a1 AR Exp)). reflexivity. Qed.
Lemma gen_visitNot_ok s : gen_visitNot AR s = Some (dmap neg s).
Proof. unfold gen_visitNot. cbv zeta. rewrite (map_loop neg). reflexivity. Qed.
Lemma gen_visitNegate_ok s : gen_visitNegate AR s = Some (dmap neg s).
Proof. unfold gen_visitNegate. cbv zeta. rewrite (map_loop neg). reflexivity. Qed.

(* sqrt / ln raise on a value outside the domain; the hand model (as the C04 theorems) does not model that exception *)
Lemma partial_loop (ok : V -> bool) (g : V -> V) (body : Z * V -> dsig -> option dsig)
  (Hb : forall i acc, body i acc = if ok (snd i) then Some (acc ++ [(fst i, g (snd i))]) else None) : forall (s acc : dsig),
  py_for s body acc = if forallb (fun q => ok (snd q)) s then Some (acc ++ dmap g s) else None.
Proof.
  induction s as [|[t v] r IH]; intros acc; [cbn; rewrite app_nil_r; reflexivity|].
  cbn [py_for forallb dmap map fst snd]. rewrite Hb. cbn [fst snd]. destruct (ok v); [|reflexivity].
  rewrite IH. cbn [andb]. destruct (forallb _ r); [|reflexivity]. unfold dmap. rewrite <- app_assoc. reflexivity.
Qed.

Definition sqrt_ok (v : V) : bool := negb (ltb v (azero AR)).
Definition ln_ok (v : V) : bool := negb (ltb v (azero AR)) && ltb (azero AR) v.

Lemma gen_visitSqrt_ok s : gen_visitSqrt AR s = if forallb (fun q => sqrt_ok (snd q)) s then Some (dmap (a1 AR Sqrt) s) else None.
Proof.
  unfold gen_visitSqrt. cbv zeta.
  rewrite (partial_loop sqrt_ok (a1 AR Sqrt)).
  - destruct (forallb _ s); reflexivity.
  - intros i acc. unfold sqrt_ok, py_sqrt. destruct (ltb (snd i) (azero AR)); reflexivity.
Qed.
Lemma gen_visitLn_ok s : gen_visitLn AR s = if forallb (fun q => ln_ok (snd q)) s then Some (dmap (a1 AR Ln) s) else None.
Proof.
  unfold gen_visitLn. cbv zeta.
  rewrite (partial_loop ln_ok (a1 AR Ln)).
  - destruct (forallb _ s); reflexivity.
  - intros i acc. unfold ln_ok, py_ln. destruct (ltb (snd i) (azero AR)); [reflexivity|]. cbn [negb andb].
    destruct (ltb (azero AR) (snd i)); reflexivity.
Qed.

(* ---------------- the forward loops with `if v != prev or i == len - 1: append` ---------------- *)
Lemma fold_loop (op : V -> V -> V) (n : Z) : forall (s : dsig) (k : Z) (prev : option V) (acc : dsig) (sp : V),
  k + py_len s = n ->
  exists p q, py_for (py_enum_from k s) (fun '(i, in_sample) '(prev, sample_return, self_prev) =>
      sample_return0 <- (if ((negb (ov_eq prev (op (snd in_sample) self_prev))) || (i =? (n - 1))) then
          Some (sample_return ++ [(fst in_sample, op (snd in_sample) self_prev)])
        else
          Some sample_return) ;;
      Some ((Some (op (snd in_sample) self_prev)), sample_return0, op (snd in_sample) self_prev)) (prev, acc, sp)
    = Some (p, acc ++ dedup_from prev (run_fold op sp s), q).
Proof.
  induction s as [|[t v] r IH]; intros k prev acc sp Hn.
  - exists prev, sp. cbn. rewrite app_nil_r. reflexivity.
  - rewrite py_len_cons in Hn. rewrite py_enum_from_cons. cbn [py_for fst snd].
    destruct r as [|[t' v'] r'].
    + replace (k =? n - 1) with true by (symmetry; apply Z.eqb_eq; unfold py_len in Hn; cbn in Hn; lia).
      rewrite orb_true_r. cbn [py_enum_from py_for run_fold dedup_from]. eexists _, _. reflexivity.
    + replace (k =? n - 1) with false by (symmetry; apply Z.eqb_neq; rewrite py_len_cons in Hn; unfold py_len in Hn; lia).
      rewrite orb_false_r.
      change (run_fold op sp ((t, v) :: (t', v') :: r')) with ((t, op v sp) :: run_fold op (op v sp) ((t', v') :: r')).
      cbn [dedup_from]. change (run_fold op (op v sp) ((t', v') :: r')) with ((t', op v' (op v sp)) :: run_fold op (op v' (op v sp)) r') at 1.
      cbv iota beta.
      change (match prev with Some p0 => veq p0 (op v sp) | None => false end) with (ov_eq prev (op v sp)).
      destruct (ov_eq prev (op v sp)); cbn [negb].
      * destruct (IH (k + 1) (Some (op v sp)) acc (op v sp)) as [p [q E]]; [lia|]. exists p, q. exact E.
      * destruct (IH (k + 1) (Some (op v sp)) (acc ++ [(t, op v sp)]) (op v sp)) as [p [q E]]; [lia|]. exists p, q.
        eapply eq_trans; [exact E|]. rewrite <- app_assoc. reflexivity.
Qed.

Lemma gen_visitOnce_ok s : gen_visitOnce AR s = Some (once_op s).
Proof.
  unfold gen_visitOnce, py_enumerate. cbv zeta.
  destruct (fold_loop vmax (py_len s) s 0 None [] bot) as [p [q E]]; [lia|].
  head_is E. reflexivity.
Qed.
Lemma gen_visitHistorically_ok s : gen_visitHistorically AR s = Some (hist_op s).
Proof.
  unfold gen_visitHistorically, py_enumerate. cbv zeta.
  destruct (fold_loop vmin (py_len s) s 0 None [] top) as [p [q E]]; [lia|].
  head_is E. reflexivity.
Qed.

(* ---------------- visitPredicate ---------------- *)
Lemma ov_eq2_some (y : V) (prev : option V) : ov_eq2 (Some y) prev = ov_eq prev y.
Proof. destruct prev as [z|]; cbn [ov_eq2 ov_eq]; [apply veq_sym|reflexivity]. Qed.

Lemma pred_loop (B : Z * (Z * V) -> option V * dsig -> option (option V * dsig)) (g : V -> V) (n : Z)
  (HB : forall i x prev acc, B (i, x) (prev, acc) =
        Some (Some (g (snd x)), if negb (ov_eq prev (g (snd x))) || (i =? n - 1) then acc ++ [(fst x, g (snd x))] else acc)) :
  forall (d : dsig) (k : Z) (prev : option V) (acc : dsig), k + py_len d = n ->
  exists p, py_for (py_enum_from k d) B (prev, acc) = Some (p, acc ++ dedup_from prev (dmap g d)).
Proof.
  induction d as [|[t v] r IH]; intros k prev acc Hn.
  - exists prev. cbn. rewrite app_nil_r. reflexivity.
  - rewrite py_len_cons in Hn. rewrite py_enum_from_cons. cbn [py_for]. rewrite HB. cbn [fst snd].
    destruct r as [|[t' v'] r'].
    + replace (k =? n - 1) with true by (symmetry; apply Z.eqb_eq; unfold py_len in Hn; cbn in Hn; lia).
      rewrite orb_true_r. cbn. eexists. reflexivity.
    + replace (k =? n - 1) with false by (symmetry; apply Z.eqb_neq; rewrite py_len_cons in Hn; unfold py_len in Hn; lia).
      rewrite orb_false_r.
      change (dmap g ((t, v) :: (t', v') :: r')) with ((t, g v) :: (t', g v') :: dmap g r').
      cbn [dedup_from]. change ((t', g v') :: dmap g r') with (dmap g ((t', v') :: r')).
      change (match prev with Some p0 => veq p0 (g v) | None => false end) with (ov_eq prev (g v)).
      destruct (ov_eq prev (g v)); cbn [negb].
      * destruct (IH (k + 1) (Some (g v)) acc) as [p E]; [lia|]. exists p. exact E.
      * destruct (IH (k + 1) (Some (g v)) (acc ++ [(t, g v)])) as [p E]; [lia|]. exists p.
        eapply eq_trans; [exact E|]. rewrite <- app_assoc. reflexivity.
Qed.

Lemma gen_visitPredicate_ok c l r : gen_visitPredicate AR c l r = option_map (ia_pred AR PStd c) (isect (a2 AR Sub) l r).
Proof.
  unfold gen_visitPredicate. rewrite gen_subtraction_operation_ok. destruct (isect (a2 AR Sub) l r) as [d|]; [|reflexivity].
  cbn [option_map]. rewrite ia_pred_std. cbv zeta. unfold py_enumerate.
  lazymatch goal with |- context [py_for _ ?B _] =>
    destruct (pred_loop B (pred_of_diff AR c) (py_len d)) with (d := d) (k := 0) (prev := @None V) (acc := @nil (Z * V)) as [p E] end.
  - intros i x prev acc. destruct c; cbn [cmp_eqb orb pred_of_diff py_notnan]; rewrite ov_eq2_some; destruct (negb _ || _); reflexivity.
  - lia.
  - head_is E. reflexivity.
Qed.

(* ---------------- since_operation ---------------- *)
Lemma since_loop (B : Z * (Z * (V * V)) -> V * dsig -> option (V * dsig)) (n : Z)
  (HB : forall i x prev acc, B (i, x) (prev, acc) =
        Some (step_val (snd x) prev,
              if (i =? 0) || negb (veq (step_val (snd x) prev) prev) || (i =? n - 1) then acc ++ [(fst x, step_val (snd x) prev)] else acc)) :
  forall (io : pairs) (k : Z) (prev : V) (acc : dsig), 0 <= k -> k + py_len io = n ->
  exists p, py_for (py_enum_from k io) B (prev, acc) = Some (p, acc ++ dedup_from (if k =? 0 then None else Some prev) (since_scan prev io)).
Proof.
  induction io as [|[t o] r IH]; intros k prev acc Hk Hn.
  - exists prev. cbn. rewrite app_nil_r. reflexivity.
  - rewrite py_len_cons in Hn. rewrite py_enum_from_cons. cbn [py_for]. rewrite HB. cbn [fst snd].
    destruct r as [|[t' o'] r'].
    + replace (k =? n - 1) with true by (symmetry; apply Z.eqb_eq; unfold py_len in Hn; cbn in Hn; lia).
      rewrite orb_true_r. cbn. eexists. reflexivity.
    + replace (k =? n - 1) with false by (symmetry; apply Z.eqb_neq; rewrite py_len_cons in Hn; unfold py_len in Hn; lia).
      rewrite orb_false_r.
      change (since_scan prev ((t, o) :: (t', o') :: r')) with ((t, step_val o prev) :: since_scan (step_val o prev) ((t', o') :: r')).
      cbn [dedup_from].
      change (since_scan (step_val o prev) ((t', o') :: r')) with ((t', step_val o' (step_val o prev)) :: since_scan (step_val o' (step_val o prev)) r') at 1.
      cbv iota beta.
      assert (Ek : (k + 1 =? 0) = false) by (apply Z.eqb_neq; lia).
      assert (Et : (match (if k =? 0 then None else Some prev) with Some p0 => veq p0 (step_val o prev) | None => false end)
                   = negb ((k =? 0) || negb (veq (step_val o prev) prev))).
      { destruct (k =? 0); [reflexivity|]. cbn [orb]. rewrite negb_involutive. apply veq_sym. }
      rewrite Et. destruct ((k =? 0) || negb (veq (step_val o prev) prev)); cbn [negb].
      * destruct (IH (k + 1) (step_val o prev) (acc ++ [(t, step_val o prev)])) as [p E]; [lia|lia|]. exists p.
        eapply eq_trans; [exact E|]. rewrite Ek, <- app_assoc. reflexivity.
      * destruct (IH (k + 1) (step_val o prev) acc) as [p E]; [lia|lia|]. exists p.
        eapply eq_trans; [exact E|]. rewrite Ek. reflexivity.
Qed.

Lemma gen_since_operation_ok l r : gen_since_operation AR l r = since_op l r.
Proof.
  unfold gen_since_operation, since_op. destruct (split_isect l r) as [io|]; [|reflexivity].
  cbn [option_map]. cbv zeta. unfold py_enumerate, dedup.
  lazymatch goal with |- context [py_for _ ?B _] =>
    destruct (since_loop B (py_len io)) with (io := io) (k := 0) (prev := bot) (acc := @nil (Z * V)) as [p E] end.
  - intros i x prev acc. unfold step_val, py_max2, py_min2. destruct (_ || _ || _); reflexivity.
  - lia.
  - lia.
  - head_is E. reflexivity.
Qed.

(* ---------------- the backward loops: visitEventually / visitAlways / until_operation ---------------- *)
Definition hdv (out : dsig) : option V := match out with (_, v) :: _ => Some v | [] => None end.

Lemma rev_loop (B : Z * (Z * V) -> option V * dsig * V -> option (option V * dsig * V)) (op : V -> V -> V) (n : Z)
  (HB : forall i x nx acc sn, B (i, x) (nx, acc, sn) =
        match (if ov_eq nx (op (snd x) sn) && (i <? n - 2) then py_pop0 acc else Some acc) with
        | Some acc' => Some (Some (op (snd x) sn), (fst x, op (snd x) sn) :: acc', op (snd x) sn)
        | None => None
        end) (u : V) :
  forall (s : dsig) (k : Z), k + py_len s = n ->
  py_for (rev (py_enum_from k s)) B (None, [], u) = Some (hdv (snd (rev_fold op u s)), snd (rev_fold op u s), fst (rev_fold op u s)).
Proof.
  induction s as [|[t v] r IH]; intros k Hn; [reflexivity|].
  rewrite py_len_cons in Hn. rewrite py_enum_from_cons. cbn [rev]. rewrite py_for_app, (IH (k + 1)) by lia.
  cbn [py_for]. rewrite HB. cbn [fst snd rev_fold]. destruct (rev_fold op u r) as [nxt out] eqn:ER. cbn [fst snd].
  destruct out as [|[t' v'] out']; [reflexivity|]. cbn [hdv ov_eq].
  replace (k <? n - 2) with (1 <? Z.of_nat (length r)) by (unfold py_len in Hn; destruct (1 <? Z.of_nat (length r)) eqn:E1, (k <? n - 2) eqn:E2; try reflexivity; lia).
  rewrite (veq_sym v'). destruct (veq (op v nxt) v' && (1 <? Z.of_nat (length r))); reflexivity.
Qed.

Lemma gen_visitEventually_ok s : gen_visitEventually AR s = Some (ev_op s).
Proof.
  unfold gen_visitEventually, py_enumerate, ev_op. cbv zeta.
  lazymatch goal with |- context [py_for _ ?B _] => pose proof (rev_loop B vmax (py_len s)) as E end.
  rewrite E with (u := bot) (k := 0); [reflexivity| |lia].
  intros i x nx acc sn. unfold py_max2. destruct (_ && _); [destruct (py_pop0 acc)|]; reflexivity.
Qed.
Lemma gen_visitAlways_ok s : gen_visitAlways AR s = Some (alw_op s).
Proof.
  unfold gen_visitAlways, py_enumerate, alw_op. cbv zeta.
  lazymatch goal with |- context [py_for _ ?B _] => pose proof (rev_loop B vmin (py_len s)) as E end.
  rewrite E with (u := top) (k := 0); [reflexivity| |lia].
  intros i x nx acc sn. unfold py_min2. destruct (_ && _); [destruct (py_pop0 acc)|]; reflexivity.
Qed.

Lemma until_rev_hd : forall io : pairs,
  match snd (until_rev io) with (_, v') :: _ => v' = fst (until_rev io) | [] => io = [] end.
Proof.
  induction io as [|[t o] r IH]; [reflexivity|].
  cbn [until_rev]. destruct (until_rev r) as [nxt out]. cbn [fst snd].
  destruct out as [|[t' v'] out']; [reflexivity|]. destruct (_ && _); reflexivity.
Qed.

Lemma until_loop (B : Z * (Z * (V * V)) -> V * dsig -> option (V * dsig)) (n : Z)
  (HB : forall i x nx acc, B (i, x) (nx, acc) =
        match (if veq (step_val (snd x) nx) nx && (i <? n - 2) then py_pop0 acc else Some acc) with
        | Some acc' => Some (step_val (snd x) nx, (fst x, step_val (snd x) nx) :: acc')
        | None => None
        end) :
  forall (io : pairs) (k : Z), k + py_len io = n ->
  py_for (rev (py_enum_from k io)) B (bot, []) = Some (until_rev io).
Proof.
  induction io as [|[t o] r IH]; intros k Hn; [reflexivity|].
  rewrite py_len_cons in Hn. rewrite py_enum_from_cons. cbn [rev]. rewrite py_for_app, (IH (k + 1)) by lia.
  cbn [py_for]. pose proof (until_rev_hd r) as Hh. cbn [until_rev]. destruct (until_rev r) as [nxt out] eqn:ER. rewrite HB. cbn [fst snd] in *.
  replace (k <? n - 2) with (1 <? Z.of_nat (length r)) by (unfold py_len in Hn; destruct (1 <? Z.of_nat (length r)) eqn:E1, (k <? n - 2) eqn:E2; try reflexivity; lia).
  destruct out as [|[t' v'] out'].
  - subst r. cbn [length Z.of_nat]. replace (1 <? 0) with false by reflexivity. rewrite andb_false_r. reflexivity.
  - subst v'. destruct (veq (step_val o nxt) nxt && (1 <? Z.of_nat (length r))); reflexivity.
Qed.

Lemma gen_until_operation_ok l r : gen_until_operation AR l r = until_op l r.
Proof.
  unfold gen_until_operation, until_op. destruct (split_isect l r) as [io|]; [|reflexivity].
  cbn [option_map]. cbv zeta. unfold py_enumerate.
  lazymatch goal with |- context [py_for _ ?B _] => pose proof (until_loop B (py_len io)) as E end.
  rewrite E with (k := 0); [destruct (until_rev io); reflexivity| |lia].
  intros i x nx acc. unfold step_val, py_max2, py_min2. destruct (_ && _); [destruct (py_pop0 acc)|]; reflexivity.
Qed.

(* ---------------- binary methods: one call of intersection() ---------------- *)
Lemma gen_visitPow_ok l r : gen_visitPow AR l r = isect (a2 AR Pow) l r. Proof. apply obind_some. Qed.
Lemma gen_visitLog_ok l r : gen_visitLog AR l r = isect (a2 AR Log) l r. Proof. apply obind_some. Qed.
Lemma gen_visitAddition_ok l r : gen_visitAddition AR l r = isect (a2 AR Add) l r. Proof. apply obind_some. Qed.
Lemma gen_visitSubtraction_ok l r : gen_visitSubtraction AR l r = isect (a2 AR Sub) l r.
Proof. unfold gen_visitSubtraction. rewrite gen_subtraction_operation_ok. apply obind_some. Qed.
Lemma gen_visitMultiplication_ok l r : gen_visitMultiplication AR l r = isect (a2 AR Mul) l r. Proof. apply obind_some. Qed.
Lemma gen_visitDivision_ok l r : gen_visitDivision AR l r = isect (a2 AR Div) l r. Proof. apply obind_some. Qed.
Lemma gen_visitAnd_ok l r : gen_visitAnd AR l r = isect vmin l r.
Proof. unfold gen_visitAnd. rewrite gen_and_operation_ok. apply obind_some. Qed.
Lemma gen_visitOr_ok l r : gen_visitOr AR l r = isect vmax l r. Proof. apply obind_some. Qed.
Lemma gen_visitImplies_ok l r : gen_visitImplies AR l r = isect (fun a b => vmax (neg a) b) l r. Proof. apply obind_some. Qed.
Lemma gen_visitIff_ok l r : gen_visitIff AR l r = isect (fun a b => neg (a1 AR Abs (a2 AR Sub a b))) l r. Proof. apply obind_some. Qed.
Lemma gen_visitXor_ok l r : gen_visitXor AR l r = isect (fun a b => a1 AR Abs (a2 AR Sub a b)) l r. Proof. apply obind_some. Qed.
Lemma gen_visitSince_ok l r : gen_visitSince AR l r = since_op l r.
Proof. unfold gen_visitSince. rewrite gen_since_operation_ok. apply obind_some. Qed.
Lemma gen_visitUntil_ok l r : gen_visitUntil AR l r = until_op l r.
Proof. unfold gen_visitUntil. rewrite gen_until_operation_ok. apply obind_some. Qed.

(* ---------------- the bounded operators: the window loops (DenseOfflineGenWinCorrect.v) and the decompositions ---------------- *)
Lemma gen_since_timed_operation_ok l r b e : gen_since_timed_operation AR l r b e = since_timed_op l r b e.
Proof.
  unfold gen_since_timed_operation, since_timed_op. cbv zeta. rewrite gen_since_operation_ok, !gen_once_timed_operation_ok.
  destruct (0 <? b); destruct (once_timed_op r b e) as [o1|]; cbn [obind]; try reflexivity;
    destruct (since_op l r) as [o2|]; cbn [obind]; try reflexivity.
  - rewrite gen_historically_timed_operation_ok. destruct (hist_timed_op o2 0 b) as [o3|]; cbn [obind]; [|reflexivity]. rewrite gen_and_operation_ok. destruct (isect vmin o1 o3); reflexivity.
  - rewrite gen_and_operation_ok. destruct (isect vmin o1 o2); reflexivity.
Qed.
Lemma gen_until_timed_operation_ok l r b e : gen_until_timed_operation AR l r b e = until_timed_op l r b e.
Proof.
  unfold gen_until_timed_operation, until_timed_op. cbv zeta. rewrite gen_until_operation_ok, !gen_eventually_timed_operation_ok.
  destruct (0 <? b); destruct (ev_timed_op r b e) as [o1|]; cbn [obind]; try reflexivity;
    destruct (until_op l r) as [o2|]; cbn [obind]; try reflexivity.
  - rewrite gen_always_timed_operation_ok. destruct (alw_timed_op o2 0 b) as [o3|]; cbn [obind]; [|reflexivity]. rewrite gen_and_operation_ok. destruct (isect vmin o1 o3); reflexivity.
  - rewrite gen_and_operation_ok. destruct (isect vmin o1 o2); reflexivity.
Qed.
Lemma gen_visitTimedOnce_ok s b e : gen_visitTimedOnce AR s b e = once_timed_op s b e. 
Proof. unfold gen_visitTimedOnce. rewrite gen_once_timed_operation_ok. apply obind_some. Qed.
Lemma gen_visitTimedHistorically_ok s b e : gen_visitTimedHistorically AR s b e = hist_timed_op s b e. 
Proof. unfold gen_visitTimedHistorically. rewrite gen_historically_timed_operation_ok. apply obind_some. Qed.
Lemma gen_visitTimedEventually_ok s b e : gen_visitTimedEventually AR s b e = ev_timed_op s b e. 
Proof. unfold gen_visitTimedEventually. rewrite gen_eventually_timed_operation_ok. apply obind_some. Qed.
Lemma gen_visitTimedAlways_ok s b e : gen_visitTimedAlways AR s b e = alw_timed_op s b e. 
Proof. unfold gen_visitTimedAlways. rewrite gen_always_timed_operation_ok. apply obind_some. Qed.
Lemma gen_visitTimedSince_ok l r b e : gen_visitTimedSince AR l r b e = since_timed_op l r b e.
Proof. unfold gen_visitTimedSince. rewrite gen_since_timed_operation_ok. apply obind_some. Qed.
Lemma gen_visitTimedUntil_ok l r b e : gen_visitTimedUntil AR l r b e = until_timed_op l r b e.
Proof. unfold gen_visitTimedUntil. rewrite gen_until_timed_operation_ok. apply obind_some. Qed.

(* ---------------- the visitor ---------------- *)
(* sqrt and ln raise on a negative input (ln also at 0); the hand model does not model these exceptions *)
Fixpoint total_arith (p : formula) : bool :=
  match p with
  | Var _ | Const _ => true
  | A1 Sqrt _ | A1 Ln _ => false
  | A1 _ f | Not f | Rise f | Fall f | Prev f | SPrev f | Next f | SNext f
  | Once f | Hist f | Ev f | Alw f | OnceT _ _ f | HistT _ _ f | EvT _ _ f | AlwT _ _ f => total_arith f
  | A2 _ f g | Pred _ f g | And f g | Or f g | Implies f g | Iff f g | Xor f g
  | Since f g | Until f g | SinceT _ _ f g | UntilT _ _ f g | Precedes _ _ f g => total_arith f && total_arith g
  end.

Ltac child IH :=
  lazymatch type of IH with
  | match ?g with _ => _ end =>
      let r := fresh "r" in destruct g as [r|];
      [rewrite IH | let T := fresh "T" in intros T; first [discriminate T | repeat rewrite andb_true_iff in T; rewrite IH by tauto; reflexivity]]
  end.
Ltac close :=
  cbn [obind option_map];
  first [reflexivity
        |lazymatch goal with
         | |- match ?h with _ => _ end => let E := fresh "E" in destruct h eqn:E; [first [reflexivity|exact E]|intros _; first [reflexivity|exact E]]
         end].

Lemma gen_deval_agrees (Hneg : forall x, a1 AR Neg x = neg x) (W : list dsig) : forall p : formula,
  match gen_deval AR p W with
  | Some r => deval AR p W = Some r
  | None => total_arith p = true -> deval AR p W = None
  end.
Proof.
  unfold deval.
  induction p as [x|c|o f IHf|o f IHf g IHg|c f IHf g IHg|f IHf|f IHf g IHg|f IHf g IHg|f IHf g IHg|f IHf g IHg|f IHf g IHg
                 |f IHf|f IHf|f IHf|f IHf|f IHf|f IHf|f IHf|f IHf|f IHf g IHg|f IHf|f IHf|f IHf g IHg
                 |b e f IHf|b e f IHf|b e f IHf g IHg|b e f IHf|b e f IHf|b e f IHf g IHg|b e f IHf g IHg];
    try (destruct o); cbn [gen_deval deval_pk total_arith]; cbv zeta;
    try reflexivity; try (intros _; reflexivity).
  - child IHf. rewrite gen_visitAbs_ok. close.
  - child IHf. rewrite gen_visitSqrt_ok. cbn [option_map]. destruct (forallb _ r); [reflexivity|discriminate].
  - child IHf. rewrite gen_visitExp_ok. close.
  - child IHf. rewrite gen_visitLn_ok. cbn [option_map]. destruct (forallb _ r); [reflexivity|discriminate].
  - child IHf. rewrite gen_visitNegate_ok. cbn [option_map]. f_equal. unfold dmap. apply map_ext. intros q. rewrite Hneg. reflexivity.
  - child IHf. child IHg. rewrite gen_visitAddition_ok. close.
  - child IHf. child IHg. rewrite gen_visitSubtraction_ok. close.
  - child IHf. child IHg. rewrite gen_visitMultiplication_ok. close.
  - child IHf. child IHg. rewrite gen_visitDivision_ok. close.
  - child IHf. child IHg. rewrite gen_visitPow_ok. close.
  - child IHf. child IHg. rewrite gen_visitLog_ok. close.
  - child IHf. child IHg. rewrite gen_visitPredicate_ok. close.
  - child IHf. rewrite gen_visitNot_ok. close.
  - child IHf. child IHg. rewrite gen_visitAnd_ok. close.
  - child IHf. child IHg. rewrite gen_visitOr_ok. close.
  - child IHf. child IHg. rewrite gen_visitImplies_ok. close.
  - child IHf. child IHg. rewrite gen_visitIff_ok. close.
  - child IHf. child IHg. rewrite gen_visitXor_ok. close.
  - child IHf. rewrite gen_visitOnce_ok. close.
  - child IHf. rewrite gen_visitHistorically_ok. close.
  - child IHf. child IHg. rewrite gen_visitSince_ok. close.
  - child IHf. rewrite gen_visitEventually_ok. close.
  - child IHf. rewrite gen_visitAlways_ok. close.
  - child IHf. child IHg. rewrite gen_visitUntil_ok. close.
  - child IHf. rewrite gen_visitTimedOnce_ok. close.
  - child IHf. rewrite gen_visitTimedHistorically_ok. close.
  - child IHf. child IHg. rewrite gen_visitTimedSince_ok. close.
  - child IHf. rewrite gen_visitTimedEventually_ok. close.
  - child IHf. rewrite gen_visitTimedAlways_ok. close.
  - child IHf. child IHg. rewrite gen_visitTimedUntil_ok. close.
Qed.

(* a list the generated visitor returns is the list the hand model returns; without sqrt / ln the two are equal (None included) *)
Theorem gen_deval_refines (Hneg : forall x, a1 AR Neg x = neg x) (p : formula) (W : list dsig) (r : dsig) :
  gen_deval AR p W = Some r -> deval AR p W = Some r.
Proof. intros E. pose proof (gen_deval_agrees Hneg W p) as H. rewrite E in H. exact H. Qed.

Theorem gen_deval_total (Hneg : forall x, a1 AR Neg x = neg x) (p : formula) (W : list dsig) :
  total_arith p = true -> gen_deval AR p W = deval AR p W.
Proof.
  intros T. pose proof (gen_deval_agrees Hneg W p) as H. destruct (gen_deval AR p W) as [r|]; [symmetry; exact H|symmetry; apply H; exact T].
Qed.

End Correct.

(* the per-function statements, in one conjunction (Props/C04.v) *)
Theorem dense_offline_gen_refines :
  forall (VS : Val) (AR : Arith VS),
  (forall l r, gen_subtraction_operation AR l r = isect (a2 AR Sub) l r) /\ (forall l r, gen_and_operation AR l r = isect vmin l r) /\
  (forall s, gen_visitAbs AR s = Some (dmap (a1 AR Abs) s)) /\ (forall s, gen_visitExp AR s = Some (dmap (a1 AR Exp) s)) /\
  (forall s, gen_visitNot AR s = Some (dmap neg s)) /\ (forall s, gen_visitNegate AR s = Some (dmap neg s)) /\
  (forall s, gen_visitSqrt AR s = if forallb (fun q => sqrt_ok AR (snd q)) s then Some (dmap (a1 AR Sqrt) s) else None) /\
  (forall s, gen_visitLn AR s = if forallb (fun q => ln_ok AR (snd q)) s then Some (dmap (a1 AR Ln) s) else None) /\
  (forall l r, gen_visitAddition AR l r = isect (a2 AR Add) l r) /\ (forall l r, gen_visitSubtraction AR l r = isect (a2 AR Sub) l r) /\
  (forall l r, gen_visitMultiplication AR l r = isect (a2 AR Mul) l r) /\ (forall l r, gen_visitDivision AR l r = isect (a2 AR Div) l r) /\
  (forall l r, gen_visitPow AR l r = isect (a2 AR Pow) l r) /\ (forall l r, gen_visitLog AR l r = isect (a2 AR Log) l r) /\
  (forall l r, gen_visitAnd AR l r = isect vmin l r) /\ (forall l r, gen_visitOr AR l r = isect vmax l r) /\
  (forall l r, gen_visitImplies AR l r = isect (fun a b => vmax (neg a) b) l r) /\
  (forall l r, gen_visitIff AR l r = isect (fun a b => neg (a1 AR Abs (a2 AR Sub a b))) l r) /\
  (forall l r, gen_visitXor AR l r = isect (fun a b => a1 AR Abs (a2 AR Sub a b)) l r) /\
  (forall c l r, gen_visitPredicate AR c l r = option_map (ia_pred AR PStd c) (isect (a2 AR Sub) l r)) /\
  (forall s, gen_visitOnce AR s = Some (once_op s)) /\ (forall s, gen_visitHistorically AR s = Some (hist_op s)) /\
  (forall s, gen_visitEventually AR s = Some (ev_op s)) /\ (forall s, gen_visitAlways AR s = Some (alw_op s)) /\
  (forall l r, gen_since_operation AR l r = since_op l r) /\ (forall l r, gen_until_operation AR l r = until_op l r) /\
  (forall l r, gen_visitSince AR l r = since_op l r) /\ (forall l r, gen_visitUntil AR l r = until_op l r) /\
  (forall s b e, gen_once_timed_operation AR s b e = once_timed_op s b e) /\ (forall s b e, gen_historically_timed_operation AR s b e = hist_timed_op s b e) /\
  (forall s b e, gen_eventually_timed_operation AR s b e = ev_timed_op s b e) /\ (forall s b e, gen_always_timed_operation AR s b e = alw_timed_op s b e) /\
  (forall l r b e, gen_since_timed_operation AR l r b e = since_timed_op l r b e) /\
  (forall l r b e, gen_until_timed_operation AR l r b e = until_timed_op l r b e) /\
  (forall s b e, gen_visitTimedOnce AR s b e = once_timed_op s b e) /\ (forall s b e, gen_visitTimedHistorically AR s b e = hist_timed_op s b e) /\
  (forall s b e, gen_visitTimedEventually AR s b e = ev_timed_op s b e) /\ (forall s b e, gen_visitTimedAlways AR s b e = alw_timed_op s b e) /\
  (forall l r b e, gen_visitTimedSince AR l r b e = since_timed_op l r b e) /\ (forall l r b e, gen_visitTimedUntil AR l r b e = until_timed_op l r b e) /\
  (* the whole visitor *)
  ((forall x, a1 AR Neg x = neg x) ->
   (forall p W r, gen_deval AR p W = Some r -> deval AR p W = Some r) /\
   (forall p W, total_arith p = true -> gen_deval AR p W = deval AR p W)).
Proof.
  intros VS AR. repeat match goal with |- _ /\ _ => split end.
  - apply gen_subtraction_operation_ok. - apply gen_and_operation_ok. - apply gen_visitAbs_ok. - apply gen_visitExp_ok.
  - apply gen_visitNot_ok. - apply gen_visitNegate_ok. - apply gen_visitSqrt_ok. - apply gen_visitLn_ok.
  - apply gen_visitAddition_ok. - apply gen_visitSubtraction_ok. - apply gen_visitMultiplication_ok. - apply gen_visitDivision_ok.
  - apply gen_visitPow_ok. - apply gen_visitLog_ok. - apply gen_visitAnd_ok. - apply gen_visitOr_ok. - apply gen_visitImplies_ok.
  - apply gen_visitIff_ok. - apply gen_visitXor_ok. - apply gen_visitPredicate_ok. - apply gen_visitOnce_ok. - apply gen_visitHistorically_ok.
  - apply gen_visitEventually_ok. - apply gen_visitAlways_ok. - apply gen_since_operation_ok. - apply gen_until_operation_ok.
  - apply gen_visitSince_ok. - apply gen_visitUntil_ok.
  - apply gen_once_timed_operation_ok. - apply gen_historically_timed_operation_ok. - apply gen_eventually_timed_operation_ok. - apply gen_always_timed_operation_ok.
  - apply gen_since_timed_operation_ok. - apply gen_until_timed_operation_ok.
  - apply gen_visitTimedOnce_ok. - apply gen_visitTimedHistorically_ok. - apply gen_visitTimedEventually_ok. - apply gen_visitTimedAlways_ok.
  - apply gen_visitTimedSince_ok. - apply gen_visitTimedUntil_ok.
  - intros Hneg. split; [intros p W r; apply gen_deval_refines; exact Hneg|intros p W; apply gen_deval_total; exact Hneg].
Qed.
Print Assumptions dense_offline_gen_refines.

