(* FloatVal.v — the intended instance of Val: IEEE-754 binary64 as Python has it, without NaN.

   Carrier.  [leb_antisym] is stated with Leibniz equality and IEEE comparison makes +0.0 and -0.0 equal, so the
   carrier is the set of CANONICAL values: Flocq's [binary_float 53 1024] (single-NaN formalisation,
   Flocq.IEEE754.BinarySingleNaN) that are neither NaN nor -0.  A value is a record of the float and a Boolean proof,
   so equality is decidable and proofs are unique.  [leb] is the IEEE comparison [Bleb], [neg] is IEEE negation
   [Bopp] followed by normalisation (-0 -> +0), [top]/[bot] are the infinities.

   Everything that depends on Flocq (hence on the axioms of the real numbers of Coq's standard library) lives in
   FloatVal.v, FloatArith.v, FloatLaws.v, FloatLip.v, FloatCheck.v and Props/FloatInstance.v; nothing else imports them. *)
From Coq Require Import ZArith Reals Bool Lia Lra.
From Flocq Require Import Core IEEE754.BinarySingleNaN.
From RV Require Import Val.

Definition fprec : Z := 53.
Definition femax : Z := 1024.
#[export] Instance fprec_gt_0 : Prec_gt_0 fprec := eq_refl.
#[export] Instance fprec_lt_emax : Prec_lt_emax fprec femax := eq_refl.

Notation bf := (binary_float fprec femax).

(* canonical representatives: no NaN, no -0 *)
Definition canonb (x : bf) : bool :=
  match x with
  | B754_nan => false
  | B754_zero true => false
  | _ => true
  end.

Definition bzero : bf := B754_zero false.

(* normalisation: -0 -> +0; the NaN of an invalid operation is sent to +0 too (the convention of the executable
   instance ExtZ; FloatArith.f_ok1/f_ok2 say exactly when it is used) *)
Definition bnorm (x : bf) : bf :=
  match x with
  | B754_zero _ => bzero
  | B754_nan => bzero
  | _ => x
  end.

Lemma canonb_bnorm x : canonb (bnorm x) = true.
Proof. destruct x as [s|s| |s m e H]; reflexivity. Qed.
Lemma bnorm_canon x : canonb x = true -> bnorm x = x.
Proof. destruct x as [[|]|s| |s m e H]; simpl; intros E; try reflexivity; discriminate. Qed.
Lemma canonb_not_nan x : canonb x = true -> is_nan x = false.
Proof. destruct x as [[|]|s| |s m e H]; simpl; intros E; try reflexivity; discriminate. Qed.

Record fv : Type := FV { fval : bf; fok : canonb fval = true }.

Definition mk (x : bf) : fv := FV (bnorm x) (canonb_bnorm x).

Lemma fv_eq (a b : fv) : fval a = fval b -> a = b.
Proof.
  destruct a as [x Hx], b as [y Hy]. simpl. intros E. subst y. f_equal.
  apply Eqdep_dec.UIP_dec. apply bool_dec.
Qed.
Lemma mk_fval a : mk (fval a) = a.
Proof. apply fv_eq. simpl. apply bnorm_canon. apply (fok a). Qed.

(* decidable equality of the carrier (through the raw triples) *)
Definition sf_eqb (x y : SpecFloat.spec_float) : bool :=
  match x, y with
  | SpecFloat.S754_zero a, SpecFloat.S754_zero b => Bool.eqb a b
  | SpecFloat.S754_infinity a, SpecFloat.S754_infinity b => Bool.eqb a b
  | SpecFloat.S754_nan, SpecFloat.S754_nan => true
  | SpecFloat.S754_finite a m e, SpecFloat.S754_finite b m' e' => Bool.eqb a b && Pos.eqb m m' && Z.eqb e e'
  | _, _ => false
  end.
Lemma sf_eqb_eq x y : sf_eqb x y = true <-> x = y.
Proof.
  destruct x as [a|a| |a m e], y as [b|b| |b m' e']; simpl; split; intros E; try discriminate; try reflexivity.
  - apply eqb_prop in E. congruence.
  - inversion E. apply eqb_reflx.
  - apply eqb_prop in E. congruence.
  - inversion E. apply eqb_reflx.
  - apply andb_true_iff in E as [E E3]. apply andb_true_iff in E as [E1 E2].
    apply eqb_prop in E1. apply Pos.eqb_eq in E2. apply Z.eqb_eq in E3. congruence.
  - inversion E. rewrite eqb_reflx, Pos.eqb_refl, Z.eqb_refl. reflexivity.
Qed.
Definition fv_eqb (a b : fv) : bool := sf_eqb (B2SF (fval a)) (B2SF (fval b)).
Lemma fv_eqb_eq a b : fv_eqb a b = true <-> a = b.
Proof.
  unfold fv_eqb. rewrite sf_eqb_eq. split; intros E.
  - apply fv_eq. apply B2SF_inj. exact E.
  - rewrite E. reflexivity.
Qed.
Lemma fv_eq_dec (a b : fv) : {a = b} + {a <> b}.
Proof.
  destruct (fv_eqb a b) eqn:E.
  - left. apply fv_eqb_eq. exact E.
  - right. intros H. apply fv_eqb_eq in H. congruence.
Qed.

(* ---- the order through an embedding into the reals: infinities go to +-2^1024 ---- *)
Definition ext (x : bf) : R :=
  match x with
  | B754_infinity false => bpow radix2 femax
  | B754_infinity true => (- bpow radix2 femax)%R
  | _ => B2R x
  end.

Lemma ext_pinf : ext (B754_infinity false) = bpow radix2 femax. Proof. reflexivity. Qed.
Lemma ext_ninf : ext (B754_infinity true) = (- bpow radix2 femax)%R. Proof. reflexivity. Qed.

Lemma ext_finite x : is_finite x = true -> ext x = B2R x.
Proof. destruct x as [s|s| |s m e H]; simpl; intros E; try reflexivity; discriminate. Qed.

Lemma ext_bounds x : is_finite x = true -> (- bpow radix2 femax < ext x < bpow radix2 femax)%R.
Proof.
  intros F. rewrite (ext_finite x F). pose proof (abs_B2R_lt_emax fprec femax x) as H.
  apply Rabs_lt_inv in H. exact H.
Qed.

Lemma ext_range x : (- bpow radix2 femax <= ext x <= bpow radix2 femax)%R.
Proof.
  pose proof (bpow_gt_0 radix2 femax) as P.
  destruct x as [s|[|]| |s m e H].
  - simpl. lra.
  - simpl. lra.
  - simpl. lra.
  - simpl. lra.
  - pose proof (ext_bounds (B754_finite s m e H) eq_refl). lra.
Qed.

Lemma Bleb_ext x y : is_nan x = false -> is_nan y = false -> Bleb x y = Rle_bool (ext x) (ext y).
Proof.
  intros Nx Ny.
  destruct (is_finite x) eqn:Fx; destruct (is_finite y) eqn:Fy.
  - rewrite (ext_finite x Fx), (ext_finite y Fy). apply Bleb_correct; assumption.
  - pose proof (ext_bounds x Fx) as Bx.
    destruct y as [s|[|]| |s m e H]; try discriminate.
    + rewrite Rle_bool_false by (rewrite ?ext_pinf, ?ext_ninf; lra).
      destruct x as [s|s| |s m e H]; try discriminate; try reflexivity; destruct s; reflexivity.
    + rewrite Rle_bool_true by (rewrite ?ext_pinf, ?ext_ninf; lra).
      destruct x as [s|s| |s m e H]; try discriminate; try reflexivity; destruct s; reflexivity.
  - pose proof (ext_bounds y Fy) as By.
    destruct x as [s|[|]| |s m e H]; try discriminate.
    + rewrite Rle_bool_true by (rewrite ?ext_pinf, ?ext_ninf; lra).
      destruct y as [s|s| |s m e H]; try discriminate; try reflexivity; destruct s; reflexivity.
    + rewrite Rle_bool_false by (rewrite ?ext_pinf, ?ext_ninf; lra).
      destruct y as [s|s| |s m e H]; try discriminate; try reflexivity; destruct s; reflexivity.
  - pose proof (bpow_gt_0 radix2 femax) as P.
    destruct x as [s|[|]| |s m e H]; try discriminate; destruct y as [s'|[|]| |s' m' e' H']; try discriminate; simpl ext.
    + rewrite Rle_bool_true by lra. reflexivity.
    + rewrite Rle_bool_true by lra. reflexivity.
    + rewrite Rle_bool_false by lra. reflexivity.
    + rewrite Rle_bool_true by lra. reflexivity.
Qed.

Lemma finite_B2R_nonzero s m e H : B2R (B754_finite s m e H : bf) <> 0%R.
Proof.
  simpl. intros E. apply eq_0_F2R in E. destruct s; discriminate.
Qed.

Lemma ext_inj x y : canonb x = true -> canonb y = true -> ext x = ext y -> x = y.
Proof.
  intros Cx Cy E.
  destruct (is_finite x) eqn:Fx; destruct (is_finite y) eqn:Fy.
  - rewrite (ext_finite x Fx), (ext_finite y Fy) in E.
    destruct x as [[|]|s| |s m e H]; try discriminate; destruct y as [[|]|s'| |s' m' e' H']; try discriminate.
    + reflexivity.
    + exfalso. apply (finite_B2R_nonzero s' m' e' H'). symmetry. exact E.
    + exfalso. apply (finite_B2R_nonzero s m e H). exact E.
    + apply B2R_inj; [reflexivity|reflexivity|exact E].
  - exfalso. pose proof (ext_bounds x Fx) as Bx.
    destruct y as [s|[|]| |s m e H]; try discriminate; rewrite ?ext_pinf, ?ext_ninf in E; lra.
  - exfalso. pose proof (ext_bounds y Fy) as By.
    destruct x as [s|[|]| |s m e H]; try discriminate; rewrite ?ext_pinf, ?ext_ninf in E; lra.
  - pose proof (bpow_gt_0 radix2 femax) as P.
    destruct x as [s|[|]| |s m e H]; try discriminate; destruct y as [s'|[|]| |s' m' e' H']; try discriminate;
      simpl ext in E; try reflexivity; exfalso; lra.
Qed.

Lemma ext_bnorm x : ext (bnorm x) = ext x.
Proof. destruct x as [s|s| |s m e H]; reflexivity. Qed.

Lemma ext_Bopp x : ext (Bopp x) = (- ext x)%R.
Proof.
  destruct x as [s|[|]| |s m e H]; simpl ext; try lra.
  change (B2R (Bopp (B754_finite s m e H)) = (- B2R (B754_finite s m e H))%R). apply B2R_Bopp.
Qed.

(* ---- the instance ---- *)
Definition f_leb (a b : fv) : bool := Bleb (fval a) (fval b).
Definition f_neg (a : fv) : fv := mk (Bopp (fval a)).
Definition f_top : fv := FV (B754_infinity false) eq_refl.
Definition f_bot : fv := FV (B754_infinity true) eq_refl.
Definition f_zero : fv := FV bzero eq_refl.

Definition fext (a : fv) : R := ext (fval a).

Lemma f_leb_ext a b : f_leb a b = Rle_bool (fext a) (fext b).
Proof. apply Bleb_ext; apply canonb_not_nan, fok. Qed.
Lemma f_leb_true a b : f_leb a b = true <-> (fext a <= fext b)%R.
Proof.
  rewrite f_leb_ext. split; intros H.
  - destruct (Rle_bool_spec (fext a) (fext b)) as [L|L]; [exact L|discriminate].
  - apply Rle_bool_true. exact H.
Qed.
Lemma f_leb_false a b : f_leb a b = false <-> (fext b < fext a)%R.
Proof.
  rewrite f_leb_ext. split; intros H.
  - destruct (Rle_bool_spec (fext a) (fext b)) as [L|L]; [discriminate|exact L].
  - apply Rle_bool_false. exact H.
Qed.
Lemma fext_inj a b : fext a = fext b -> a = b.
Proof. intros E. apply fv_eq. apply ext_inj; [apply fok|apply fok|exact E]. Qed.
Lemma fext_mk x : fext (mk x) = ext x.
Proof. apply ext_bnorm. Qed.
Lemma fext_neg a : fext (f_neg a) = (- fext a)%R.
Proof. unfold f_neg. rewrite fext_mk. apply ext_Bopp. Qed.
Lemma fext_zero : fext f_zero = 0%R.
Proof. reflexivity. Qed.
Lemma fext_top : fext f_top = bpow radix2 femax. Proof. reflexivity. Qed.
Lemma fext_bot : fext f_bot = (- bpow radix2 femax)%R. Proof. reflexivity. Qed.

#[export,refine] Instance FloatVal : Val := {|
  V := fv; leb := f_leb; neg := f_neg; top := f_top; bot := f_bot |}.
Proof.
  - intros x. apply f_leb_true. lra.
  - intros x y z H1 H2. apply f_leb_true in H1, H2. apply f_leb_true. lra.
  - intros x y H1 H2. apply f_leb_true in H1, H2. apply fext_inj. lra.
  - intros x y. destruct (Rle_or_lt (fext x) (fext y)) as [L|L].
    + left. apply f_leb_true. exact L.
    + right. apply f_leb_true. lra.
  - intros x. apply fext_inj. rewrite !fext_neg. lra.
  - intros x y H. apply f_leb_true in H. apply f_leb_true. rewrite !fext_neg. lra.
  - intros x. apply f_leb_true. rewrite fext_top. apply (ext_range (fval x)).
  - intros x. apply f_leb_true. rewrite fext_bot. apply (ext_range (fval x)).
Defined.

(* ---- in which sense this is "Python floats": values up to the sign of zero ----
   [mk] sends every non-NaN binary64 datum to its representative; two data have the same representative exactly
   when IEEE == holds between them (that is: they are the same datum, or they are the two zeros); and the order
   of the representatives is the IEEE order of the data. *)
Lemma mk_leb x y : is_nan x = false -> is_nan y = false -> f_leb (mk x) (mk y) = Bleb x y.
Proof.
  intros Nx Ny. rewrite f_leb_ext, !fext_mk. symmetry. apply Bleb_ext; assumption.
Qed.
Lemma mk_eq_iff x y : is_nan x = false -> is_nan y = false -> (mk x = mk y <-> Beqb x y = true).
Proof.
  intros Nx Ny.
  assert (E : Beqb x y = Bleb x y && Bleb y x).
  { unfold Beqb, Bleb, SpecFloat.SFeqb, SpecFloat.SFleb. fold (Bcompare x y). fold (Bcompare y x).
    rewrite (Bcompare_swap _ _ x y). destruct (Bcompare x y) as [[| |]|]; reflexivity. }
  rewrite E, <- !mk_leb by assumption. split; intros H.
  - rewrite H. change (Val.leb (mk y) (mk y) && Val.leb (mk y) (mk y) = true). rewrite leb_refl. reflexivity.
  - apply andb_true_iff in H as [H1 H2]. apply (@leb_antisym FloatVal); assumption.
Qed.
Lemma mk_neg x : is_nan x = false -> f_neg (mk x) = mk (Bopp x).
Proof.
  intros Nx. apply fext_inj. rewrite fext_neg, !fext_mk, ext_Bopp. reflexivity.
Qed.
(* the only identification is the one of the two zeros *)
Lemma mk_eq_cases x y : is_nan x = false -> is_nan y = false -> mk x = mk y ->
  x = y \/ (exists s s', x = B754_zero s /\ y = B754_zero s').
Proof.
  intros Nx Ny E. apply (f_equal fval) in E. simpl in E.
  destruct x as [s|s| |s m e H]; try discriminate; destruct y as [s'|s'| |s' m' e' H']; try discriminate; simpl in E;
    try (left; exact E); try discriminate.
  right. exists s, s'. split; reflexivity.
Qed.
