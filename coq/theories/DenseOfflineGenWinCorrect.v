(* DenseOfflineGenWinCorrect.v — the four bounded window loops that tools/py2coq_denseoffline.py generates from
   once_timed_operation / historically_timed_operation / always_timed_operation / eventually_timed_operation
   (rtamt/semantics/stl/dense_time/offline/ast_visitor.py, DenseOfflineGen.v) compute the hand models of DenseWin.v:
     gen_once_timed_operation AR s b e          =  once_timed_op s b e       gen_historically_timed_operation AR s b e  =  hist_timed_op s b e
     gen_eventually_timed_operation AR s b e    =  ev_timed_op s b e         gen_always_timed_operation AR s b e        =  alw_timed_op s b e
   (None included: IndexError of the popping loop on an emptied stack, a +inf stored as the start of a piece).
   Scheme: `past_gen lt pad` / `fut_gen lt` are the generated texts with the comparison (and the padding value) abstracted; the generated
   definitions are instances of them BY CONVERSION (`reflexivity`), so a change of the Python text that changes the generated term
   breaks `gen_*_is_*`; the loops are then tied to `past_env` / `fut_env`:
     inner `while` (popping)    : pop_loop / pop_loop_f   — fuel `S (length out)`; at most `length out - 1` iterations succeed, the next raises
     outer `while` (the pieces) : past_loop / fut_loop    — invariant: the Python list `out` is `rev` of the hand stack (past) / the hand list (future),
                                  i - 1 (past) / n - 1 - i (future) pieces are pushed; fuel `S (length input)` >= pieces still to push
     last `for` (enumerate)     : dedup_loop / clip_loop.
   This file is re-checked against the regenerated text on every build. *)
From Coq Require Import List Bool Arith ZArith Lia.
From RV Require Import Val Syntax Rho Online Dense DenseMerge DenseMergeG DenseEval DenseWin PySem PyDense PyDenseOff DenseOfflineGen.
Import ListNotations.
Local Open Scope Z_scope.

(* ---------------- the list primitives ---------------- *)
Section WinPrims.
Context {A : Type}.

Lemma wpy_len_app (l : list A) (x : A) : py_len (l ++ [x]) = py_len l + 1.
Proof. unfold py_len. rewrite app_length. cbn [length]. lia. Qed.

Lemma wpy_get_nth (l : list A) (z : Z) : 0 <= z -> py_get l z = nth_error l (Z.to_nat z).
Proof.
  intros Hz. unfold py_get. cbv zeta. replace (z <? 0) with false by (symmetry; apply Z.ltb_ge; exact Hz).
  replace (0 <=? z) with true by (symmetry; apply Z.leb_le; exact Hz). cbn [andb].
  destruct (z <? py_len l) eqn:E; [reflexivity|]. symmetry. apply nth_error_None. apply Z.ltb_ge in E. unfold py_len in E. lia.
Qed.

Lemma wpy_get_last (l : list A) (x : A) : py_get (l ++ [x]) (py_len (l ++ [x]) - 1) = Some x.
Proof.
  rewrite wpy_get_nth by (rewrite wpy_len_app; unfold py_len; lia).
  rewrite wpy_len_app. replace (Z.to_nat (py_len l + 1 - 1)) with (length l) by (unfold py_len; lia).
  rewrite nth_error_app2 by lia. rewrite Nat.sub_diag. reflexivity.
Qed.

Lemma wpy_get_last_nil : py_get (@nil A) (py_len (@nil A) - 1) = None.
Proof. reflexivity. Qed.

Lemma wpy_del_last (l : list A) (x : A) : py_del (l ++ [x]) (py_len (l ++ [x]) - 1) = Some l.
Proof.
  unfold py_del. cbv zeta. rewrite wpy_len_app.
  replace (py_len l + 1 - 1 <? 0) with false by (symmetry; apply Z.ltb_ge; unfold py_len; lia).
  replace (0 <=? py_len l + 1 - 1) with true by (symmetry; apply Z.leb_le; unfold py_len; lia).
  replace (py_len l + 1 - 1 <? py_len l + 1) with true by (symmetry; apply Z.ltb_lt; lia). cbn [andb].
  replace (Z.to_nat (py_len l + 1 - 1)) with (length l) by (unfold py_len; lia).
  rewrite firstn_app, Nat.sub_diag, firstn_all. cbn [firstn]. rewrite app_nil_r.
  replace (S (length l)) with (length (l ++ [x])) by (rewrite app_length; cbn [length]; lia).
  rewrite skipn_all, app_nil_r. reflexivity.
Qed.

Lemma wpy_truthy_app (l : list A) (x : A) : py_truthy (l ++ [x]) = true.
Proof. destruct l; reflexivity. Qed.

Lemma wpy_for_app {S : Type} (l1 l2 : list A) (body : A -> S -> option S) (s : S) :
  py_for (l1 ++ l2) body s = match py_for l1 body s with Some s' => py_for l2 body s' | None => None end.
Proof.
  revert s. induction l1 as [|x r IH]; intros s; [reflexivity|].
  cbn [app py_for]. destruct (body x s) as [s'|]; [apply IH|reflexivity].
Qed.

Lemma wpy_len_cons (x : A) (r : list A) : py_len (x :: r) = py_len r + 1.
Proof. unfold py_len. cbn [length]. lia. Qed.
Lemma py_get_last_some (l : list A) : py_truthy l = true -> exists x, py_get l (py_len l - 1) = Some x.
Proof.
  intros H. destruct (@exists_last _ l) as [l' [x E]]; [intros E; rewrite E in H; discriminate H|].
  exists x. rewrite E. apply wpy_get_last.
Qed.
End WinPrims.

Section WinCorrect.
Context {VS : Val} (AR : Arith VS).

(* ================= past: once / historically ================= *)
(* the generated text of once_timed_operation with `<` on the values (lt) and the padding value (pad) abstracted *)
Definition past_push (lt : V -> V -> bool) (out : list piece) (b : piece) : option (list piece) :=
  (if (negb (py_truthy out)) then
      let out := out ++ [b] in
      Some out
    else
      t8 <- py_get out ((py_len out) - 1) ;;
      let a := t8 in
      '(a, out) <- py_while (S (length out))%nat (fun '(a, out) => ((lt (pv a) (pv b)) && ((ps b) <? (ps a)))) (fun '(a, out) =>
          out <- py_del out ((py_len out) - 1) ;;
          t9 <- py_get out ((py_len out) - 1) ;;
          let a := t9 in
          Some (a, out)) (a, out) ;;
      out <- (if (negb (intersects (ps a) (pe a) (ps b) (pe b))) then
          let out := out ++ [b] in
          Some out
        else
          out <- (if (negb (lt (pv a) (pv b))) then
              t10 <- py_fin (pe a) ;;
              let out := out ++ [(t10, (pe b), (pv b))] in
              Some out
            else
              out <- py_del out ((py_len out) - 1) ;;
              out <- (if ((ps a) <? (ps b)) then
                  let out := out ++ [((ps a), (T (ps b)), (pv a))] in
                  Some out
                else
                  Some out) ;;
              let out := out ++ [((ps b), (pe b), (pv b))] in
              Some out) ;;
          Some out) ;;
      Some out).

Definition past_body (lt : V -> V -> bool) (pad : V) (input_list : dsig) (begin end_ : Z) : Z * list piece -> option (Z * list piece) :=
  fun '(i, out) =>
      out <- (if ((i =? 1) && (0 <? begin)) then
          t2 <- py_get input_list 0 ;;
          let out := out ++ [(0, (T ((fst t2) + begin)), pad)] in
          Some out
        else
          Some out) ;;
      b <- (if (i <? (py_len input_list)) then
          t3 <- py_get input_list (i - 1) ;;
          t4 <- py_get input_list i ;;
          t5 <- py_get input_list (i - 1) ;;
          let b := (((fst t3) + begin), (T ((fst t4) + end_)), (snd t5)) in
          Some b
        else
          t6 <- py_get input_list (i - 1) ;;
          t7 <- py_get input_list (i - 1) ;;
          let b := (((fst t6) + begin), TInf, (snd t7)) in
          Some b) ;;
      out <- past_push lt out b ;;
      let i := (i + 1) in
      Some (i, out).

Definition past_gen (lt : V -> V -> bool) (pad : V) (sample : dsig) (begin end_ : Z) : option dsig :=
  let input_list := sample in
  let i := 1 in
  'tt <- (if (py_truthy input_list) then
      t1 <- py_get input_list ((py_len input_list) - 1) ;;
      Some tt
    else
      Some tt) ;;
  let out := (@nil piece) in
  '(i, out) <- py_while (S (length input_list + length out))%nat (fun '(i, out) => (i <=? (py_len input_list)))
      (past_body lt pad input_list begin end_) (i, out) ;;
  let ans := (@nil (Z * V)%type) in
  let prev := (@None V) in
  '(ans, prev) <- py_for (py_enumerate out) (fun '(i, b) '(ans, prev) =>
      ans <- (if ((negb (ov_eq prev (pv b))) || (i =? ((py_len out) - 1))) then
          let ans := ans ++ [((ps b), (pv b))] in
          Some ans
        else
          Some ans) ;;
      let prev := (pv b) in
      Some (ans, (Some prev))) (ans, prev) ;;
  Some ans.

(* the generated definitions are these texts (by conversion) *)
Lemma gen_once_is_past s b e : gen_once_timed_operation AR s b e = past_gen ltb bot s b e.
Proof. reflexivity. Qed.
Lemma gen_hist_is_past s b e : gen_historically_timed_operation AR s b e = past_gen (fun x y => ltb y x) top s b e.
Proof. reflexivity. Qed.

Section Past.
Variable lt : V -> V -> bool.

(* the popping loop: while (a[2] < b[2]) and (b[0] < a[0]): del out[-1]; a = out[-1] *)
Lemma pop_loop (b : piece) : forall (r : list piece) (a : piece) (fuel : nat), (length (a :: r) <= fuel)%nat ->
  py_while fuel (fun '(a, out) => ((lt (pv a) (pv b)) && ((ps b) <? (ps a)))) (fun '(a, out) =>
      out <- py_del out ((py_len out) - 1) ;;
      t9 <- py_get out ((py_len out) - 1) ;;
      let a := t9 in
      Some (a, out)) (a, rev (a :: r))
  = match pop_dominated lt (a :: r) b with
    | Some (a' :: r') => Some (a', rev (a' :: r'))
    | _ => None
    end.
Proof.
  induction r as [|a2 r2 IH]; intros a fuel Hf; (destruct fuel as [|f]; [cbn [length] in Hf; lia|]).
  - cbn [py_while pop_dominated]. destruct (lt (pv a) (pv b) && (ps b <? ps a)); reflexivity.
  - cbn [py_while]. change (pop_dominated lt (a :: a2 :: r2) b) with
      (if lt (pv a) (pv b) && (ps b <? ps a) then pop_dominated lt (a2 :: r2) b else Some (a :: a2 :: r2)).
    destruct (lt (pv a) (pv b) && (ps b <? ps a)); [|reflexivity].
    change (rev (a :: a2 :: r2)) with (rev (a2 :: r2) ++ [a]). rewrite wpy_del_last.
    change (rev (a2 :: r2)) with (rev r2 ++ [a2]) at 1 2. rewrite wpy_get_last. cbv zeta.
    change (rev r2 ++ [a2]) with (rev (a2 :: r2)). apply IH. cbn [length] in *. lia.
Qed.

(* one piece pushed: the Python list is the reversed stack *)
Lemma past_push_ok (outh : list piece) (b : piece) :
  past_push lt (rev outh) b = option_map (@rev piece) (push_piece lt outh b).
Proof.
  unfold past_push, push_piece. destruct outh as [|a r]; [reflexivity|].
  change (rev (a :: r)) with (rev r ++ [a]) at 1. rewrite wpy_truthy_app. cbn [negb].
  change (rev (a :: r)) with (rev r ++ [a]) at 1 2. rewrite wpy_get_last. cbv zeta.
  rewrite pop_loop by (rewrite rev_length; lia).
  destruct (pop_dominated lt (a :: r) b) as [[|a' r']|]; try reflexivity.
  destruct (negb (intersects (ps a') (pe a') (ps b) (pe b))); [reflexivity|].
  destruct (negb (lt (pv a') (pv b))).
  - destruct (pe a') as [ae|]; reflexivity.
  - change (rev (a' :: r')) with (rev r' ++ [a']). rewrite wpy_del_last.
    destruct b as [[b0 b1] b2]. cbn [ps pe pv fst snd]. destruct (ps a' <? b0); cbn [option_map rev app]; rewrite ?rev_app_distr; cbn [rev app];
      rewrite <- ?app_assoc; reflexivity.
Qed.

Variable pad : V.
Variables (s : dsig) (b e : Z).

Definition past_pre (i : Z) (outh : list piece) : list piece :=
  if (i =? 1) && (0 <? b) then match s with (t1, _) :: _ => (0, T (t1 + b), pad) :: outh | [] => outh end else outh.

Lemma past_piece_nth : forall (l : dsig) (k : nat) (p : piece), nth_error (past_pieces l b e) k = Some p ->
  exists x, nth_error l k = Some x /\ p = (fst x + b, match nth_error l (S k) with Some y => T (fst y + e) | None => TInf end, snd x).
Proof.
  induction l as [|[t v] r IH]; intros k p H; [destruct k; discriminate H|].
  destruct k as [|k]; cbn [past_pieces nth_error] in H.
  - injection H as <-. exists (t, v). split; [reflexivity|]. cbn [fst snd nth_error]. destruct r as [|[t' v'] r']; reflexivity.
  - destruct (IH k p H) as [x [E1 E2]]. exists x. split; [exact E1|exact E2].
Qed.

(* the body of the outer loop at i, when the i-th piece exists *)
Lemma past_body_ok (i : Z) (outh : list piece) (p : piece) : 1 <= i -> nth_error (past_pieces s b e) (Z.to_nat (i - 1)) = Some p ->
  past_body lt pad s b e (i, rev outh) =
  match push_piece lt (past_pre i outh) p with Some o => Some (i + 1, rev o) | None => None end.
Proof.
  intros Hi Hp. destruct (past_piece_nth s _ p Hp) as [x [Ex Ep]].
  unfold past_body.
  assert (E0 : (out <- (if (i =? 1) && (0 <? b) then t2 <- py_get s 0;; (let out := rev outh ++ [(0, T (fst t2 + b), pad)] in Some out) else Some (rev outh));; Some out)
               = Some (rev (past_pre i outh))).
  { unfold past_pre. destruct ((i =? 1) && (0 <? b)); [|reflexivity]. destruct s as [|[t1 v1] r]; [destruct (Z.to_nat (i - 1)); discriminate Ex|]. reflexivity. }
  lazymatch goal with |- match ?o with _ => _ end = _ => replace o with (Some (rev (past_pre i outh))) end.
  2:{ symmetry. etransitivity; [|exact E0]. destruct (if (i =? 1) && (0 <? b) then _ else _); reflexivity. }
  rewrite !(wpy_get_nth s (i - 1)) by lia. rewrite Ex. rewrite (wpy_get_nth s i) by lia.
  replace (Z.to_nat i) with (S (Z.to_nat (i - 1))) by lia.
  assert (Eb : (i <? py_len s) = match nth_error s (S (Z.to_nat (i - 1))) with Some _ => true | None => false end).
  { destruct (nth_error s (S (Z.to_nat (i - 1)))) eqn:En.
    - apply Z.ltb_lt. assert (S (Z.to_nat (i - 1)) < length s)%nat by (apply nth_error_Some; congruence). unfold py_len. lia.
    - apply Z.ltb_ge. apply nth_error_None in En. unfold py_len. lia. }
  rewrite Eb. rewrite Ep.
  destruct (nth_error s (S (Z.to_nat (i - 1)))) as [y|]; cbv zeta; rewrite past_push_ok;
    destruct (push_piece lt (past_pre i outh) _); reflexivity.
Qed.

Lemma push_all_none : forall l : list piece, fold_left (fun acc p => obind acc (fun out => push_piece lt out p)) l None = None.
Proof. induction l as [|p r IH]; [reflexivity|exact IH]. Qed.

Lemma past_pre_other (i : Z) (outh : list piece) : i <> 1 \/ s = [] -> past_pre i outh = outh.
Proof.
  intros [H|H]; unfold past_pre.
  - replace (i =? 1) with false by (symmetry; apply Z.eqb_neq; exact H). reflexivity.
  - rewrite H. destruct ((i =? 1) && (0 <? b)); reflexivity.
Qed.

Lemma past_pieces_len : forall l : dsig, length (past_pieces l b e) = length l.
Proof. induction l as [|[t v] r IH]; [reflexivity|]. cbn [past_pieces length]. rewrite IH. reflexivity. Qed.

(* the outer loop: `done` pieces pushed, `todo` to push; fuel: the pieces still to push *)
Lemma past_loop (n : Z) (Hn : n = py_len s) : forall (todo done : list piece) (outh : list piece) (i : Z) (fuel : nat),
  past_pieces s b e = done ++ todo -> i = py_len done + 1 -> (length todo <= fuel)%nat ->
  py_while fuel (fun '(i, out) => (i <=? n)) (past_body lt pad s b e) (i, rev outh)
  = match push_all lt (past_pre i outh) todo with Some o => Some (n + 1, rev o) | None => None end.
Proof.
  assert (Hlen : py_len (past_pieces s b e) = n) by (subst n; unfold py_len; rewrite past_pieces_len; reflexivity).
  induction todo as [|p todo IH]; intros done outh i fuel Hd Hi Hf.
  - rewrite app_nil_r in Hd. rewrite Hd in Hlen.
    assert (Ec : (i <=? n) = false) by (apply Z.leb_gt; lia).
    assert (Ep : past_pre i outh = outh).
    { apply past_pre_other. destruct (Z.eq_dec i 1) as [E1|E1]; [right|left; exact E1].
      assert (E0 : length s = 0%nat) by (unfold py_len in *; lia). destruct s; [reflexivity|discriminate E0]. }
    unfold push_all. cbn [fold_left]. rewrite Ep. replace (n + 1) with i by lia.
    destruct fuel; cbn [py_while]; rewrite Ec; reflexivity.
  - destruct fuel as [|f]; [cbn [length] in Hf; lia|].
    assert (Hl : py_len (done ++ p :: todo) = n) by (rewrite <- Hd; exact Hlen).
    unfold py_len in Hl. rewrite app_length in Hl. cbn [length] in Hl.
    assert (Ec : (i <=? n) = true) by (apply Z.leb_le; unfold py_len in Hi; lia).
    cbn [py_while]. rewrite Ec.
    assert (Hp : nth_error (past_pieces s b e) (Z.to_nat (i - 1)) = Some p).
    { rewrite Hd. replace (Z.to_nat (i - 1)) with (length done) by (unfold py_len in Hi; lia).
      rewrite nth_error_app2 by lia. rewrite Nat.sub_diag. reflexivity. }
    rewrite (past_body_ok i outh p) by (unfold py_len in Hi; lia || exact Hp).
    unfold push_all. cbn [fold_left obind].
    destruct (push_piece lt (past_pre i outh) p) as [o|]; [|rewrite push_all_none; reflexivity].
    rewrite (IH (done ++ [p]) o (i + 1) f).
    + rewrite past_pre_other by (left; unfold py_len in Hi; lia). reflexivity.
    + rewrite <- app_assoc. exact Hd.
    + rewrite wpy_len_app. lia.
    + cbn [length] in Hf. lia.
Qed.

(* the last loop: if b[2] != prev or i == len(out) - 1: ans.append([b[0], b[2]]) *)
Lemma dedup_loop (n : Z) : forall (l : list piece) (k : Z) (prev : option V) (acc : dsig), k + py_len l = n ->
  exists q, py_for (py_enum_from k l) (fun '(i, b) '(ans, prev) =>
      ans <- (if ((negb (ov_eq prev (pv b))) || (i =? (n - 1))) then
          let ans := ans ++ [((ps b), (pv b))] in
          Some ans
        else
          Some ans) ;;
      let prev := (pv b) in
      Some (ans, (Some prev))) (acc, prev) = Some (acc ++ dedup_from prev (samples_of l), q).
Proof.
  induction l as [|[[p0 p1] p2] r IH]; intros k prev acc Hk.
  - exists prev. cbn. rewrite app_nil_r. reflexivity.
  - rewrite wpy_len_cons in Hk. cbn [py_enum_from py_for ps pe pv fst snd]. cbv zeta.
    destruct r as [|[[q0 q1] q2] r'].
    + replace (k =? n - 1) with true by (symmetry; apply Z.eqb_eq; unfold py_len in Hk; cbn in Hk; lia).
      rewrite orb_true_r. cbn. eexists. reflexivity.
    + replace (k =? n - 1) with false by (symmetry; apply Z.eqb_neq; rewrite wpy_len_cons in Hk; unfold py_len in Hk; lia).
      rewrite orb_false_r.
      change (samples_of ((p0, p1, p2) :: (q0, q1, q2) :: r')) with ((p0, p2) :: samples_of ((q0, q1, q2) :: r')).
      change (samples_of ((q0, q1, q2) :: r')) with ((q0, q2) :: samples_of r') at 1.
      cbn [dedup_from]. change ((q0, q2) :: samples_of r') with (samples_of ((q0, q1, q2) :: r')).
      change (match prev with Some p => veq p p2 | None => false end) with (ov_eq prev p2).
      destruct (ov_eq prev p2); cbn [negb].
      * destruct (IH (k + 1) (Some p2) acc) as [q E]; [lia|]. exists q. exact E.
      * destruct (IH (k + 1) (Some p2) (acc ++ [(p0, p2)])) as [q E]; [lia|]. exists q.
        eapply eq_trans; [exact E|]. rewrite <- app_assoc. reflexivity.
Qed.


Theorem past_gen_ok : past_gen lt pad s b e = option_map (fun out => dedup (samples_of (rev out))) (past_env lt pad s b e).
Proof.
  unfold past_gen. cbv zeta.
  assert (E1 : (if py_truthy s then t1 <- py_get s (py_len s - 1);; Some tt else Some tt) = Some tt).
  { destruct (py_truthy s) eqn:Et; [|reflexivity]. destruct (py_get_last_some s Et) as [x Ex]. rewrite Ex. reflexivity. }
  rewrite E1.
  pose proof (past_loop (py_len s) eq_refl (past_pieces s b e) [] [] 1 (S (length s + length (@nil piece)))) as EL.
  change (rev (@nil piece)) with (@nil piece) in EL. rewrite EL; [|reflexivity|reflexivity|rewrite past_pieces_len; lia]. clear EL.
  assert (Ei : past_pre 1 [] = match s with (t1, _) :: _ => if 0 <? b then [(0, T (t1 + b), pad)] else [] | [] => [] end).
  { unfold past_pre. cbn [Z.eqb andb Pos.eqb]. destruct s as [|[t1 v1] r]; destruct (0 <? b); reflexivity. }
  unfold past_env. rewrite Ei.
  destruct (push_all lt _ (past_pieces s b e)) as [o|]; [|reflexivity].
  cbn [option_map]. unfold py_enumerate, dedup.
  destruct (dedup_loop (py_len (rev o)) (rev o) 0 None []) as [q E]; [lia|].
  lazymatch goal with
  | |- match ?o with _ => _ end = _ => let H := fresh "H" in assert (H : o = _) by (exact E); rewrite H; clear H
  end.
  reflexivity.
Qed.

End Past.

(* ================= future: eventually / always ================= *)
Definition fut_push (lt : V -> V -> bool) (out : list piece) (b : piece) : option (list piece) :=
  (if (negb (py_truthy out)) then
      let out := b :: out in
      Some out
    else
      t7 <- py_get out 0 ;;
      let a := t7 in
      '(a, out) <- py_while (S (length out))%nat (fun '(a, out) => ((lt (pv a) (pv b)) && (tlt (pe a) (pe b)))) (fun '(a, out) =>
          out <- py_pop0 out ;;
          t8 <- py_get out 0 ;;
          let a := t8 in
          Some (a, out)) (a, out) ;;
      out <- (if (negb (intersects (ps a) (pe a) (ps b) (pe b))) then
          let out := b :: out in
          Some out
        else
          out <- (if (negb (lt (pv a) (pv b))) then
              let out := ((ps b), (T (ps a)), (pv b)) :: out in
              Some out
            else
              out <- py_pop0 out ;;
              out <- (if (tlt (pe b) (pe a)) then
                  t9 <- py_fin (pe b) ;;
                  let out := (t9, (pe a), (pv a)) :: out in
                  Some out
                else
                  Some out) ;;
              let out := ((ps b), (pe b), (pv b)) :: out in
              Some out) ;;
          Some out) ;;
      Some out).

Definition fut_body (lt : V -> V -> bool) (input_list : dsig) (begin end_ : Z) : Z * list piece -> option (Z * list piece) :=
  fun '(i, out) =>
      b <- (if (i =? ((py_len input_list) - 1)) then
          t2 <- py_get input_list i ;;
          t3 <- py_get input_list i ;;
          let b := (((fst t2) - end_), TInf, (snd t3)) in
          Some b
        else
          t4 <- py_get input_list i ;;
          t5 <- py_get input_list (i + 1) ;;
          t6 <- py_get input_list i ;;
          let b := (((fst t4) - end_), (T ((fst t5) - begin)), (snd t6)) in
          Some b) ;;
      out <- fut_push lt out b ;;
      let i := (i - 1) in
      Some (i, out).

Definition fut_gen (lt : V -> V -> bool) (sample : dsig) (begin end_ : Z) : option dsig :=
  let input_list := sample in
  let i := ((py_len input_list) - 1) in
  'tt <- (if (py_truthy input_list) then
      t1 <- py_get input_list ((py_len input_list) - 1) ;;
      Some tt
    else
      Some tt) ;;
  let out := (@nil piece) in
  '(i, out) <- py_while (S (length out + Z.to_nat (i + 1)))%nat (fun '(i, out) => (0 <=? i)) (fut_body lt input_list begin end_) (i, out) ;;
  let ans := (@nil (Z * V)%type) in
  ans <- py_for (py_enumerate out) (fun '(i, b) ans =>
      ans <- (if (((ps b) <=? 0) && (tlt (T 0) (pe b))) then
          let ans := ans ++ [(0, (pv b))] in
          Some ans
        else
          ans <- (if (0 <? (ps b)) then
              let ans := ans ++ [((ps b), (pv b))] in
              Some ans
            else
              Some ans) ;;
          Some ans) ;;
      Some ans) ans ;;
  Some ans.

Lemma gen_ev_is_fut s b e : gen_eventually_timed_operation AR s b e = fut_gen ltb s b e.
Proof. reflexivity. Qed.
Lemma gen_alw_is_fut s b e : gen_always_timed_operation AR s b e = fut_gen (fun x y => ltb y x) s b e.
Proof. reflexivity. Qed.

Section Fut.
Variable lt : V -> V -> bool.

(* the popping loop: while (a[2] < b[2]) and (b[1] > a[1]): out.pop(0); a = out[0] *)
Lemma pop_loop_f (b : piece) : forall (r : list piece) (a : piece) (fuel : nat), (length (a :: r) <= fuel)%nat ->
  py_while fuel (fun '(a, out) => ((lt (pv a) (pv b)) && (tlt (pe a) (pe b)))) (fun '(a, out) =>
      out <- py_pop0 out ;;
      t8 <- py_get out 0 ;;
      let a := t8 in
      Some (a, out)) (a, a :: r)
  = match pop_dominated_f lt (a :: r) b with
    | Some (a' :: r') => Some (a', a' :: r')
    | _ => None
    end.
Proof.
  induction r as [|a2 r2 IH]; intros a fuel Hf; (destruct fuel as [|f]; [cbn [length] in Hf; lia|]).
  - cbn [py_while pop_dominated_f]. destruct (lt (pv a) (pv b) && tlt (pe a) (pe b)); reflexivity.
  - cbn [py_while]. change (pop_dominated_f lt (a :: a2 :: r2) b) with
      (if lt (pv a) (pv b) && tlt (pe a) (pe b) then pop_dominated_f lt (a2 :: r2) b else Some (a :: a2 :: r2)).
    destruct (lt (pv a) (pv b) && tlt (pe a) (pe b)); [|reflexivity].
    cbn [py_pop0]. change (py_get (a2 :: r2) 0) with (Some a2). cbv zeta. apply IH. cbn [length] in *. lia.
Qed.

(* The hand model push_piece_f answers None when a piece that ends at +inf replaces the head of a non-empty list (it reads `pe b` as a
   finite stamp); the code does not raise there (`a[1] > inf` is false, nothing is re-inserted).  Only the first piece pushed ends at +inf,
   and the list is empty then: the equality is stated under that invariant. *)
Lemma fut_push_ok (out : list piece) (b : piece) : (pe b = TInf -> out = []) -> fut_push lt out b = push_piece_f lt out b.
Proof.
  intros Hinf. unfold fut_push, push_piece_f. destruct out as [|a r]; [reflexivity|].
  cbn [py_truthy negb]. change (py_get (a :: r) 0) with (Some a). cbv beta iota zeta.
  rewrite pop_loop_f by lia.
  destruct (pop_dominated_f lt (a :: r) b) as [[|a' r']|]; try reflexivity.
  destruct (negb (intersects (ps a') (pe a') (ps b) (pe b))); [reflexivity|].
  destruct (negb (lt (pv a') (pv b))); [reflexivity|].
  cbn [py_pop0]. destruct b as [[b0 b1] b2]. cbn [ps pe pv fst snd] in *.
  destruct b1 as [be|]; [|discriminate (Hinf eq_refl)].
  destruct (tlt (T be) (pe a')); reflexivity.
Qed.

Variables (s : dsig) (b e : Z).

Lemma fut_piece_nth : forall (l : dsig) (k : nat) (p : piece), nth_error (fut_pieces l b e) k = Some p ->
  exists x, nth_error l k = Some x /\ p = (fst x - e, match nth_error l (S k) with Some y => T (fst y - b) | None => TInf end, snd x).
Proof.
  induction l as [|[t v] r IH]; intros k p H; [destruct k; discriminate H|].
  destruct k as [|k]; cbn [fut_pieces nth_error] in H.
  - injection H as <-. exists (t, v). split; [reflexivity|]. cbn [fst snd nth_error]. destruct r as [|[t' v'] r']; reflexivity.
  - destruct (IH k p H) as [x [E1 E2]]. exists x. split; [exact E1|exact E2].
Qed.

Lemma fut_body_ok (i : Z) (out : list piece) (p : piece) : 0 <= i -> nth_error (fut_pieces s b e) (Z.to_nat i) = Some p ->
  (i = py_len s - 1 -> out = []) ->
  fut_body lt s b e (i, out) = match push_piece_f lt out p with Some o => Some (i - 1, o) | None => None end.
Proof.
  intros Hi Hp Hout. destruct (fut_piece_nth s _ p Hp) as [x [Ex Ep]].
  unfold fut_body.
  rewrite !(wpy_get_nth s i) by lia. rewrite Ex. rewrite (wpy_get_nth s (i + 1)) by lia.
  replace (Z.to_nat (i + 1)) with (S (Z.to_nat i)) by lia.
  assert (Hlt : (Z.to_nat i < length s)%nat) by (apply nth_error_Some; congruence).
  assert (Eb : (i =? py_len s - 1) = match nth_error s (S (Z.to_nat i)) with Some _ => false | None => true end).
  { destruct (nth_error s (S (Z.to_nat i))) eqn:En.
    - apply Z.eqb_neq. assert (S (Z.to_nat i) < length s)%nat by (apply nth_error_Some; congruence). unfold py_len. lia.
    - apply Z.eqb_eq. apply nth_error_None in En. unfold py_len. lia. }
  rewrite Eb, Ep.
  destruct (nth_error s (S (Z.to_nat i))) as [y|]; cbv zeta.
  - rewrite fut_push_ok by (cbn [pe fst snd]; discriminate). destruct (push_piece_f lt out _); reflexivity.
  - rewrite fut_push_ok by (intros _; apply Hout; apply Z.eqb_eq; exact Eb). destruct (push_piece_f lt out _); reflexivity.
Qed.

Lemma push_all_f_none : forall l : list piece, fold_left (fun acc p => obind acc (fun out => push_piece_f lt out p)) l None = None.
Proof. induction l as [|p r IH]; [reflexivity|exact IH]. Qed.

Lemma fut_pieces_len : forall l : dsig, length (fut_pieces l b e) = length l.
Proof. induction l as [|[t v] r IH]; [reflexivity|]. cbn [fut_pieces length]. rewrite IH. reflexivity. Qed.

(* the outer loop runs i = n - 1 .. 0: the pieces rl (in the order they are pushed, last first) are still to push; fuel: their number *)
Lemma fut_loop : forall (rl done : list piece) (out : list piece) (i : Z) (fuel : nat),
  fut_pieces s b e = rev rl ++ done -> i = py_len rl - 1 -> (length rl <= fuel)%nat -> (done = [] -> out = []) ->
  py_while fuel (fun '(i, out) => (0 <=? i)) (fut_body lt s b e) (i, out)
  = match fold_left (fun acc p => obind acc (fun out => push_piece_f lt out p)) rl (Some out) with Some o => Some (-1, o) | None => None end.
Proof.
  induction rl as [|p rl IH]; intros done out i fuel Hd Hi Hf Hinv.
  - assert (Ec : (0 <=? i) = false) by (apply Z.leb_gt; unfold py_len in Hi; cbn in Hi; lia).
    cbn [fold_left]. replace (-1) with i by (unfold py_len in Hi; cbn in Hi; lia).
    destruct fuel; cbn [py_while]; rewrite Ec; reflexivity.
  - destruct fuel as [|f]; [cbn [length] in Hf; lia|].
    rewrite wpy_len_cons in Hi.
    assert (Ec : (0 <=? i) = true) by (apply Z.leb_le; unfold py_len in Hi; lia).
    cbn [py_while]. rewrite Ec.
    assert (Hp : nth_error (fut_pieces s b e) (Z.to_nat i) = Some p).
    { rewrite Hd. cbn [rev]. rewrite <- app_assoc. replace (Z.to_nat i) with (length (rev rl)) by (rewrite rev_length; unfold py_len in Hi; lia).
      rewrite nth_error_app2 by lia. rewrite Nat.sub_diag. reflexivity. }
    rewrite (fut_body_ok i out p); [|unfold py_len in Hi; lia|exact Hp|].
    2:{ intros Elast. apply Hinv. assert (Hl : length (fut_pieces s b e) = length s) by apply fut_pieces_len.
        rewrite Hd in Hl. cbn [rev] in Hl. rewrite !app_length, rev_length in Hl. cbn [length] in Hl. unfold py_len in *.
        destruct done; [reflexivity|cbn [length] in Hl; lia]. }
    cbn [fold_left obind].
    destruct (push_piece_f lt out p) as [o|]; [|rewrite push_all_f_none; reflexivity].
    apply (IH (p :: done)).
    + rewrite Hd. cbn [rev]. rewrite <- app_assoc. reflexivity.
    + lia.
    + cbn [length] in Hf. lia.
    + discriminate.
Qed.

(* the last loop: if b[0] <= 0 and b[1] > 0: [0, v]  elif b[0] > 0: [b[0], v] *)
Lemma clip_loop : forall (l : list piece) (k : Z) (acc : dsig),
  py_for (py_enum_from k l) (fun '(i, b) ans =>
      ans <- (if (((ps b) <=? 0) && (tlt (T 0) (pe b))) then
          let ans := ans ++ [(0, (pv b))] in
          Some ans
        else
          ans <- (if (0 <? (ps b)) then
              let ans := ans ++ [((ps b), (pv b))] in
              Some ans
            else
              Some ans) ;;
          Some ans) ;;
      Some ans) acc = Some (acc ++ clip0 l).
Proof.
  induction l as [|p r IH]; intros k acc; [cbn; rewrite app_nil_r; reflexivity|].
  cbn [py_enum_from py_for]. unfold clip0. cbn [flat_map]. fold (clip0 r). cbv zeta.
  destruct ((ps p <=? 0) && tlt (T 0) (pe p)).
  - rewrite IH, <- app_assoc. reflexivity.
  - destruct (0 <? ps p); rewrite IH; [rewrite <- app_assoc|]; reflexivity.
Qed.

Theorem fut_gen_ok : fut_gen lt s b e = option_map clip0 (fut_env lt s b e).
Proof.
  unfold fut_gen. cbv zeta.
  assert (E1 : (if py_truthy s then t1 <- py_get s (py_len s - 1);; Some tt else Some tt) = Some tt).
  { destruct (py_truthy s) eqn:Et; [|reflexivity]. destruct (py_get_last_some s Et) as [x Ex]. rewrite Ex. reflexivity. }
  rewrite E1.
  rewrite (fut_loop (rev (fut_pieces s b e)) [] [] (py_len s - 1)).
  - unfold fut_env. destruct (fold_left _ (rev (fut_pieces s b e)) (Some [])) as [o|]; [|reflexivity].
    cbn [option_map]. unfold py_enumerate. rewrite clip_loop. reflexivity.
  - rewrite rev_involutive, app_nil_r. reflexivity.
  - unfold py_len. rewrite rev_length, fut_pieces_len. reflexivity.
  - rewrite rev_length, fut_pieces_len. cbn [length]. unfold py_len. lia.
  - reflexivity.
Qed.

End Fut.

Theorem gen_once_timed_operation_ok s b e : gen_once_timed_operation AR s b e = once_timed_op s b e.
Proof. rewrite gen_once_is_past. apply past_gen_ok. Qed.
Theorem gen_historically_timed_operation_ok s b e : gen_historically_timed_operation AR s b e = hist_timed_op s b e.
Proof. rewrite gen_hist_is_past. apply past_gen_ok. Qed.
Theorem gen_eventually_timed_operation_ok s b e : gen_eventually_timed_operation AR s b e = ev_timed_op s b e.
Proof. rewrite gen_ev_is_fut. apply fut_gen_ok. Qed.
Theorem gen_always_timed_operation_ok s b e : gen_always_timed_operation AR s b e = alw_timed_op s b e.
Proof. rewrite gen_alw_is_fut. apply fut_gen_ok. Qed.

End WinCorrect.

Theorem dense_offline_gen_windows :
  forall (VS : Val) (AR : Arith VS),
  (forall s b e, gen_once_timed_operation AR s b e = once_timed_op s b e) /\
  (forall s b e, gen_historically_timed_operation AR s b e = hist_timed_op s b e) /\
  (forall s b e, gen_eventually_timed_operation AR s b e = ev_timed_op s b e) /\
  (forall s b e, gen_always_timed_operation AR s b e = alw_timed_op s b e).
Proof.
  intros VS AR. repeat split; intros s b e.
  - apply gen_once_timed_operation_ok. - apply gen_historically_timed_operation_ok.
  - apply gen_eventually_timed_operation_ok. - apply gen_always_timed_operation_ok.
Qed.
Print Assumptions dense_offline_gen_windows.
