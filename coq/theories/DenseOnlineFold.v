(* DenseOnlineFold.v — implementation layer of dense-time ONLINE evaluation, the operations that
   keep a value (or nothing) from one batch to the next: line-by-line transcriptions of the
   [update] methods (and of the state they keep) of

     rtamt/semantics/stl/dense_time/online/once_operation.py           (unbounded once)
     rtamt/semantics/stl/dense_time/online/historically_operation.py   (unbounded historically)
     rtamt/semantics/stl/dense_time/online/always_operation.py         (same text as historically)
     rtamt/semantics/stl/dense_time/online/since_operation.py          (unbounded since)
     rtamt/semantics/stl/dense_time/online/not_operation.py            \
     rtamt/semantics/arithmetic/dense_time/online/abs_operation.py      |
     rtamt/semantics/arithmetic/dense_time/online/negate_operation.py   |  one generic
     rtamt/semantics/arithmetic/dense_time/online/exp_operation.py      |  [unary_update f]
     rtamt/semantics/arithmetic/dense_time/online/sqrt_operation.py     |
     rtamt/semantics/arithmetic/dense_time/online/ln_operation.py      /
     rtamt/semantics/stl/dense_time/online/constant_operation.py
     rtamt/semantics/stl/dense_time/online/variable_operation.py

   Conventions of the transcription
   * a Python list of samples [[t,v],...] is a list of pairs; the empty list [last = []] is [None];
   * the transcription is generic in the type T of the time stamps (the code only moves them around
     and, in since, compares them with <, >, max, min); it is instantiated with Z (finite stamps)
     and with [tz] of DenseMerge.v (stamps with +inf, as produced by the constants [[0,c],[inf,c]]);
   * every [update] has type  state -> batch(es) -> option (state * output) ; [None] is a Python
     exception.  Only the unary point-wise operations can raise one (sqrt of a negative value, ln
     of a non-positive one, ...): the function applied to a value is a parameter [f : V -> option V]
     and [f v = None] stands for 'the expression raises on v'.  These operations keep no state that
     [update] modifies, so nothing is half-updated when the exception leaves the loop;
   * [run_g upd st bs] calls [upd] on the successive batches [bs] and collects the returned lists;
   * the while loop of since runs on fuel; every iteration deletes one sample, so
     [length a + length b] iterations are never exhausted.

   NOTE (since_operation.py) unlike and_operation.py & co, since does NOT call intersection.py: it
   has its own two-pointer scan over  self.sample_left_buf + sample_left  and
   self.sample_right_buf + sample_right  (plain concatenation: a batch that repeats the last
   buffered sample is not filtered). *)
From Coq Require Import List Bool Arith ZArith Lia.
From RV Require Import Val Syntax Rho Online Dense DenseMerge DenseOnlineMerge.
Import ListNotations.
Local Open Scope Z_scope.

(* ------------------------------------------------------------------ *)
(* a sequence of update calls                                          *)
(* ------------------------------------------------------------------ *)
Section Run.
Variables St B O : Type.
Variable upd : St -> B -> option (St * O).

Fixpoint run_g (st : St) (bs : list B) : option (St * list O) :=
  match bs with
  | [] => Some (st, [])
  | b :: bs' =>
      match upd st b with
      | None => None
      | Some (st', o) =>
          match run_g st' bs' with
          | None => None
          | Some (st'', os) => Some (st'', o :: os)
          end
      end
  end.
End Run.
Arguments run_g {St B O} upd st bs.

Section FoldG.
Context {VS : Val}.
Variable T : Type.
Variable tltb : T -> T -> bool.        (* a < b on time stamps *)

Notation gsig := (list (T * V)).
Notation gsample := (T * V)%type.

(* ------------------------------------------------------------------ *)
(* once / historically / always (unbounded)                            *)
(*   self.prev = -inf (once) | +inf (historically, always)             *)
(*   for i in sample:                                                  *)
(*       out_value = max|min(i[1], self.prev)                          *)
(*       result.append([i[0], out_value]); self.prev = out_value       *)
(* ------------------------------------------------------------------ *)
Record fstate := { fprev : V }.

(* the for loop: returns self.prev after the loop and the result list *)
Fixpoint fold_loop (g : V -> V -> V) (prev : V) (batch : gsig) : V * gsig :=
  match batch with
  | [] => (prev, [])
  | (t, v) :: r =>
      let o := g v prev in
      let '(prev', out) := fold_loop g o r in
      (prev', (t, o) :: out)
  end.

Definition fold_update (g : V -> V -> V) (st : fstate) (batch : gsig) : option (fstate * gsig) :=
  let '(prev', out) := fold_loop g (fprev st) batch in
  Some ({| fprev := prev' |}, out).

Definition once_init : fstate := {| fprev := bot |}.
Definition hist_init : fstate := {| fprev := top |}.
Definition alw_init : fstate := {| fprev := top |}.
Definition once_update := fold_update vmax.
Definition hist_update := fold_update vmin.
Definition alw_update := fold_update vmin.        (* always_operation.py is historically_operation.py *)
Definition once_run := run_g once_update.
Definition hist_run := run_g hist_update.
Definition alw_run := run_g alw_update.

(* ------------------------------------------------------------------ *)
(* unary point-wise operations                                          *)
(*   for i in sample: result.append([i[0], f(i[1])])                    *)
(* [f v = None]: the expression raises on v                             *)
(* ------------------------------------------------------------------ *)
Definition ustate := unit.             (* NotOperation keeps self.input = [], never touched *)
Definition unary_init : ustate := tt.

Fixpoint unary_loop (f : V -> option V) (batch : gsig) : option gsig :=
  match batch with
  | [] => Some []
  | (t, v) :: r =>
      match f v with
      | None => None
      | Some o =>
          match unary_loop f r with
          | None => None
          | Some out => Some ((t, o) :: out)
          end
      end
  end.

Definition unary_update (f : V -> option V) (st : ustate) (batch : gsig) : option (ustate * gsig) :=
  match unary_loop f batch with
  | None => None
  | Some out => Some (st, out)
  end.
Definition unary_run (f : V -> option V) := run_g (unary_update f).

(* the six instances; the arithmetic ones take the function from an [Arith] *)
Definition not_fn : V -> option V := fun v => Some (neg v).
Definition total_fn (AR : Arith VS) (o : aop1) : V -> option V := fun v => Some (a1 AR o v).
(* sqrt_operation.py: if i[1] < 0: raise Exception('sqrt: input is smaller than 0.') *)
Definition sqrt_fn (AR : Arith VS) : V -> option V :=
  fun v => if ltb v (azero AR) then None else Some (a1 AR Sqrt v).
(* a function that raises outside a domain (math.log on x <= 0, math.exp on overflow) *)
Definition partial_fn (AR : Arith VS) (o : aop1) (dom : V -> bool) : V -> option V :=
  fun v => if dom v then Some (a1 AR o v) else None.

(* ------------------------------------------------------------------ *)
(* since (unbounded)                                                    *)
(* ------------------------------------------------------------------ *)
Record sstate := {
  s_lbuf : gsig;                 (* self.sample_left_buf *)
  s_rbuf : gsig;                 (* self.sample_right_buf *)
  s_prev : V;                    (* self.prev *)
  s_last : option gsample        (* self.last: [] or [hi, last_val] *)
}.
Definition since_init : sstate := {| s_lbuf := []; s_rbuf := []; s_prev := bot; s_last := None |}.

(* Python's max(a, b) / min(a, b) on stamps: the first argument unless the second is strictly better *)
Definition pymax (a b : T) : T := if tltb a b then b else a.
Definition pymin (a b : T) : T := if tltb b a then b else a.
(* max(min(x, y), min(x, prev)) *)
Definition sval (x y prev : V) : V := vmax (vmin x y) (vmin x prev).

(* while len(a) > 1 and len(b) > 1:   (i = j = 1 throughout)
   returns a, b, self.prev, last and the samples appended to sample_result *)
Fixpoint since_loop (fuel : nat) (a b : gsig) (prev : V) (last : option gsample)
  : gsig * gsig * V * option gsample * gsig :=
  match fuel with
  | O => (a, b, prev, last, [])
  | S fuel' =>
    match a, b with
    | (a_start, a_val) :: (((a_end, a_val_next) :: _) as a'),
      (b_start, b_val) :: (((b_end, b_val_next) :: _) as b') =>
        (* last_val is computed with self.prev as it is BEFORE this iteration updates it *)
        let '(last_val, a2, b2) :=
          if tltb a_end b_end then (sval a_val_next b_val prev, a', b)            (* del a[i-1] *)
          else if tltb b_end a_end then (sval a_val b_val_next prev, a, b')       (* del b[j-1] *)
          else (sval a_val_next b_val_next prev, a', b') in                       (* both *)
        let lo := pymax a_start b_start in
        let hi := pymin a_end b_end in
        if tltb lo hi then
          let val := sval a_val b_val prev in
          let '(af, bf, prevf, lastf, out) := since_loop fuel' a2 b2 val (Some (hi, last_val)) in
          (af, bf, prevf, lastf, (lo, val) :: out)
        else since_loop fuel' a2 b2 prev last
    | _, _ => (a, b, prev, last, [])
    end
  end.

Definition since_update (st : sstate) (bb : gsig * gsig) : option (sstate * gsig) :=
  let a := s_lbuf st ++ fst bb in
  let b := s_rbuf st ++ snd bb in
  let '(af, bf, prevf, lastf, out) := since_loop (length a + length b) a b (s_prev st) (s_last st) in
  Some ({| s_lbuf := af; s_rbuf := bf; s_prev := prevf; s_last := lastf |}, out).
Definition since_run := run_g since_update.

(* update_final(l, r) = update(l, r) + [self.last]   (the element [] when self.last is still []) *)
Definition since_update_final (st : sstate) (bb : gsig * gsig) : option (sstate * (gsig * option gsample)) :=
  match since_update st bb with
  | None => None
  | Some (st', out) => Some (st', (out, s_last st'))
  end.

End FoldG.

Arguments fprev {VS} _.
Arguments s_lbuf {VS T} _.
Arguments s_rbuf {VS T} _.
Arguments s_prev {VS T} _.
Arguments s_last {VS T} _.
Arguments since_init {VS T}.
Arguments once_init {VS}.
Arguments hist_init {VS}.
Arguments alw_init {VS}.

Section Leaves.
Context {VS : Val}.

(* ------------------------------------------------------------------ *)
(* constant_operation.py                                                *)
(*   if self.is_first_sample: out = [[0, val], [inf, val]]; flag off    *)
(*   else: out = []                                                     *)
(* ------------------------------------------------------------------ *)
Record cstate := { c_val : V; c_first : bool }.
Definition const_init (c : V) : cstate := {| c_val := c; c_first := true |}.
Definition const_update (st : cstate) (_ : unit) : option (cstate * esig) :=
  if c_first st
  then Some ({| c_val := c_val st; c_first := false |}, [(T 0, c_val st); (TInf, c_val st)])
  else Some (st, []).
Definition const_run := run_g const_update.

(* ------------------------------------------------------------------ *)
(* variable_operation.py                                                *)
(*   self.val = None ; update() returns self.val                        *)
(* The attribute is written from outside (nothing in rtamt writes it: the dense-time online
   interpreter reads the variables from var_object_dict and sets an attribute [sample]);
   [None] in the OUTPUT position is Python's None, not an exception. *)
(* ------------------------------------------------------------------ *)
Record vstate := { v_val : option dsig }.
Definition var_init : vstate := {| v_val := None |}.
Definition var_set (st : vstate) (x : option dsig) : vstate := {| v_val := x |}.
Definition var_update (st : vstate) (_ : unit) : option (vstate * option dsig) := Some (st, v_val st).
Definition var_run := run_g var_update.

End Leaves.

(* ------------------------------------------------------------------ *)
(* instances: finite integer stamps / stamps with +inf                  *)
(* ------------------------------------------------------------------ *)
Section Instances.
Context {VS : Val}.

Definition once_upd (st : fstate) (b : dsig) := once_update Z st b.
Definition hist_upd (st : fstate) (b : dsig) := hist_update Z st b.
Definition alw_upd (st : fstate) (b : dsig) := alw_update Z st b.
Definition unary_upd (f : V -> option V) (st : ustate) (b : dsig) := unary_update Z f st b.
Definition since_upd (st : @sstate VS Z) (bb : dsig * dsig) := since_update Z Z.ltb st bb.

Definition once_upd_e (st : fstate) (b : esig) := once_update tz st b.
Definition hist_upd_e (st : fstate) (b : esig) := hist_update tz st b.
Definition unary_upd_e (f : V -> option V) (st : ustate) (b : esig) := unary_update tz f st b.
Definition since_upd_e (st : @sstate VS tz) (bb : esig * esig) := since_update tz tlt st bb.

End Instances.
