(* DenseOfflineIAGenCorrect.v — the definitions that tools/py2coq_denseoffline_ia.py generates from the IA-STL dense-time OFFLINE visitors
   (DenseOfflineIAGen.v, from rtamt/semantics/iastl/dense_time/offline/ast_visitor.py) compute the hand model of DenseIA.v:
     gen_ia_visitPredicate (base class)          =  (robustness samples, flag samples) of ia_scan c None on the difference of the operands;
                                                    the first list is ia_pred PStd c
     gen_ia_{Output,Input}Robustness_...         =  ia_pred (if no_vars then PBool else PStd) c
     gen_ia_{Input,Output}Vacuity_...            =  ia_pred (if no_vars then PVac else PStd) c
   where no_vars is `not node.out_vars` / `not node.in_vars`.  No hypothesis on the arithmetic is needed: `x == 0` is veq = veqb,
   `x <= 0` is negb (ltb 0 x) = leb x 0.  This file is re-checked against the regenerated text on every build. *)
From Coq Require Import List Bool Arith ZArith Lia.
From RV Require Import Val Syntax Rho Online Dense DenseMerge DenseMergeG DenseEval DenseWin DenseIA PySem PyDense PyDenseOff PyDenseOffIA
  DenseOfflineGen DenseOfflineGenCorrect
  DenseOfflineIAGen.
Import ListNotations.
Local Open Scope Z_scope.

(* the goal contains py_for l B a and E : py_for l' B a' = _ with convertible arguments *)
Ltac py_for_is E :=
  lazymatch goal with
  | |- context [py_for ?l ?B ?a] => let H := fresh "H" in assert (H : py_for l B a = _) by (exact E); rewrite H; clear H
  end.

Section Correct.
Context {VS : Val} (AR : Arith VS).

Lemma ia_veq_veqb (x y : V) : veq x y = veqb x y.
Proof.
  unfold veq, veqb. destruct (v_eq_dec x y) as [->|N].
  - rewrite leb_refl. reflexivity.
  - destruct (leb x y) eqn:E1; [|reflexivity]. destruct (leb y x) eqn:E2; [|reflexivity].
    exfalso. apply N. apply leb_antisym; assumption.
Qed.
Lemma if_tf (b : bool) : (if b then true else false) = b.
Proof. destruct b; reflexivity. Qed.

Definition outs_of (L : list (Z * (V * bool))) : dsig := map (fun q => (fst q, fst (snd q))) L.
Definition sats_of (L : list (Z * (V * bool))) : list (Z * bool) := map (fun q => (fst q, snd (snd q))) L.

(* ---------------- the base class ---------------- *)
Lemma ia_loop (c : cmp) (B : Z * (Z * V) -> dsig * option V * list (Z * bool) -> option (dsig * option V * list (Z * bool))) (n : Z)
  (HB : forall i x outs prev sats, B (i, x) (outs, prev, sats) =
        Some (if negb (ov_eq prev (pred_of_diff AR c (snd x))) || (i =? n - 1) then outs ++ [(fst x, pred_of_diff AR c (snd x))] else outs,
              Some (pred_of_diff AR c (snd x)),
              if negb (ov_eq prev (pred_of_diff AR c (snd x))) || (i =? n - 1) then sats ++ [(fst x, sat_of_diff AR c (snd x))] else sats)) :
  forall (d : dsig) (k : Z) (prev : option V) (outs : dsig) (sats : list (Z * bool)), k + py_len d = n ->
  exists p, py_for (py_enum_from k d) B (outs, prev, sats)
            = Some (outs ++ outs_of (ia_scan AR c prev d), p, sats ++ sats_of (ia_scan AR c prev d)).
Proof.
  induction d as [|[t v] r IH]; intros k prev outs sats Hn.
  - exists prev. cbn. rewrite !app_nil_r. reflexivity.
  - rewrite py_len_cons in Hn. rewrite py_enum_from_cons. cbn [py_for]. rewrite HB. cbn [fst snd].
    destruct r as [|[t' v'] r'].
    + replace (k =? n - 1) with true by (symmetry; apply Z.eqb_eq; unfold py_len in Hn; cbn in Hn; lia).
      rewrite orb_true_r. cbn. eexists. reflexivity.
    + replace (k =? n - 1) with false by (symmetry; apply Z.eqb_neq; rewrite py_len_cons in Hn; unfold py_len in Hn; lia).
      rewrite orb_false_r.
      change (ia_scan AR c prev ((t, v) :: (t', v') :: r')) with
        (if (match prev with Some p => veq p (pred_of_diff AR c v) | None => false end)
         then ia_scan AR c (Some (pred_of_diff AR c v)) ((t', v') :: r')
         else (t, (pred_of_diff AR c v, sat_of_diff AR c v)) :: ia_scan AR c (Some (pred_of_diff AR c v)) ((t', v') :: r')).
      change (match prev with Some p0 => veq p0 (pred_of_diff AR c v) | None => false end) with (ov_eq prev (pred_of_diff AR c v)).
      destruct (ov_eq prev (pred_of_diff AR c v)); cbn [negb].
      * destruct (IH (k + 1) (Some (pred_of_diff AR c v)) outs sats) as [p E]; [lia|]. exists p. exact E.
      * destruct (IH (k + 1) (Some (pred_of_diff AR c v)) (outs ++ [(t, pred_of_diff AR c v)]) (sats ++ [(t, sat_of_diff AR c v)])) as [p E]; [lia|].
        exists p. eapply eq_trans; [exact E|]. unfold outs_of, sats_of. cbn [map fst snd]. rewrite <- !app_assoc. reflexivity.
Qed.

Lemma gen_ia_visitPredicate_ok c l r :
  gen_ia_visitPredicate AR c l r
  = option_map (fun d => (outs_of (ia_scan AR c None d), sats_of (ia_scan AR c None d))) (isect (a2 AR Sub) l r).
Proof.
  unfold gen_ia_visitPredicate. rewrite gen_subtraction_operation_ok. destruct (isect (a2 AR Sub) l r) as [d|]; [|reflexivity].
  cbn [option_map]. cbv zeta. unfold py_enumerate.
  lazymatch goal with |- context [py_for _ ?B _] =>
    destruct (ia_loop c B (py_len d)) with (d := d) (k := 0) (prev := @None V) (outs := @nil (Z * V)) (sats := @nil (Z * bool)) as [p E] end.
  - intros i x outs prev sats.
    destruct c; cbn [cmp_eqb orb pred_of_diff sat_of_diff py_notnan py_bound]; rewrite ov_eq2_some, !if_tf, ?ia_veq_veqb;
      unfold ltb; rewrite ?negb_involutive; destruct (negb _ || _); reflexivity.
  - lia.
  - head_is E. reflexivity.
Qed.

Lemma outs_of_std c d : outs_of (ia_scan AR c None d) = ia_pred AR PStd c d.
Proof. reflexivity. Qed.

(* ---------------- the four subclasses ---------------- *)
Lemma py_get_mid {A : Type} (pre : list A) (x : A) (suf : list A) : py_get (pre ++ x :: suf) (Z.of_nat (length pre)) = Some x.
Proof.
  unfold py_get, py_len. rewrite app_length. cbn [length].
  destruct (Z.of_nat (length pre) <? 0) eqn:E; [apply Z.ltb_lt in E; lia|].
  replace (0 <=? Z.of_nat (length pre)) with true by (symmetry; apply Z.leb_le; lia).
  replace (Z.of_nat (length pre) <? Z.of_nat (length pre + S (length suf))) with true by (symmetry; apply Z.ltb_lt; lia).
  cbn [andb]. rewrite Nat2Z.id. rewrite nth_error_app2 by lia. rewrite Nat.sub_diag. reflexivity.
Qed.

Lemma sub_loop (f : bool -> V) (L0 : list (Z * (V * bool))) (B : Z * (Z * bool) -> dsig -> option dsig)
  (HB : forall i s acc, B (i, s) acc = match py_get (outs_of L0) i with Some t1 => Some (acc ++ [(fst t1, f (snd s))]) | None => None end) :
  forall suf pre acc, L0 = pre ++ suf ->
  py_for (py_enum_from (Z.of_nat (length pre)) (sats_of suf)) B acc = Some (acc ++ map (fun q => (fst q, f (snd (snd q)))) suf).
Proof.
  induction suf as [|q suf IH]; intros pre acc E.
  - cbn. rewrite app_nil_r. reflexivity.
  - unfold sats_of. cbn [map]. fold (sats_of suf). rewrite py_enum_from_cons. cbn [py_for]. rewrite HB.
    assert (G : py_get (outs_of L0) (Z.of_nat (length pre)) = Some (fst q, fst (snd q))).
    { rewrite E. unfold outs_of. rewrite map_app. cbn [map].
      rewrite <- (map_length (fun q0 : Z * (V * bool) => (fst q0, fst (snd q0))) pre). apply py_get_mid. }
    rewrite G. cbn [fst snd].
    specialize (IH (pre ++ [q]) (acc ++ [(fst q, f (snd (snd q)))])).
    rewrite app_length in IH. cbn [length] in IH.
    replace (Z.of_nat (length pre + 1)) with (Z.of_nat (length pre) + 1) in IH by lia.
    rewrite IH by (rewrite <- app_assoc; exact E). cbn [map]. rewrite <- app_assoc. reflexivity.
Qed.

Lemma sub_bool c d : map (fun q : Z * (V * bool) => (fst q, if Bool.eqb (snd (snd q)) true then top else bot)) (ia_scan AR c None d) = ia_pred AR PBool c d.
Proof. unfold ia_pred. apply map_ext. intros [t [o b]]. cbn [fst snd ia_value]. destruct b; reflexivity. Qed.
Lemma sub_vac c d : map (fun q : Z * (V * bool) => (fst q, (fun _ : bool => azero AR) (snd (snd q)))) (ia_scan AR c None d) = ia_pred AR PVac c d.
Proof. reflexivity. Qed.

Ltac sub_tac c d f :=
  cbv zeta; unfold py_enumerate;
  let E := fresh "E" in
  lazymatch goal with |- context [py_for _ ?B _] =>
    pose proof (sub_loop f (ia_scan AR c None d) B (fun i s acc => eq_refl) (ia_scan AR c None d) [] [] eq_refl) as E end;
  py_for_is E.

Lemma gen_ia_OutputRobustness_ok c nv l r :
  gen_ia_OutputRobustness_visitPredicate AR c nv l r = option_map (ia_pred AR (if nv then PBool else PStd) c) (isect (a2 AR Sub) l r).
Proof.
  unfold gen_ia_OutputRobustness_visitPredicate. rewrite gen_ia_visitPredicate_ok. destruct (isect (a2 AR Sub) l r) as [d|]; [|reflexivity].
  cbn [option_map]. cbv beta iota. destruct nv; [|reflexivity].
  sub_tac c d (fun b : bool => if Bool.eqb b true then top else bot). cbn [app]. rewrite sub_bool. reflexivity.
Qed.
Lemma gen_ia_InputRobustness_ok c nv l r :
  gen_ia_InputRobustness_visitPredicate AR c nv l r = option_map (ia_pred AR (if nv then PBool else PStd) c) (isect (a2 AR Sub) l r).
Proof.
  unfold gen_ia_InputRobustness_visitPredicate. rewrite gen_ia_visitPredicate_ok. destruct (isect (a2 AR Sub) l r) as [d|]; [|reflexivity].
  cbn [option_map]. cbv beta iota. destruct nv; [|reflexivity].
  sub_tac c d (fun b : bool => if Bool.eqb b true then top else bot). cbn [app]. rewrite sub_bool. reflexivity.
Qed.
Lemma gen_ia_InputVacuity_ok c nv l r :
  gen_ia_InputVacuity_visitPredicate AR c nv l r = option_map (ia_pred AR (if nv then PVac else PStd) c) (isect (a2 AR Sub) l r).
Proof.
  unfold gen_ia_InputVacuity_visitPredicate. rewrite gen_ia_visitPredicate_ok. destruct (isect (a2 AR Sub) l r) as [d|]; [|reflexivity].
  cbn [option_map]. cbv beta iota. destruct nv; [|reflexivity].
  sub_tac c d (fun _ : bool => azero AR). cbn [app]. rewrite sub_vac. reflexivity.
Qed.
Lemma gen_ia_OutputVacuity_ok c nv l r :
  gen_ia_OutputVacuity_visitPredicate AR c nv l r = option_map (ia_pred AR (if nv then PVac else PStd) c) (isect (a2 AR Sub) l r).
Proof.
  unfold gen_ia_OutputVacuity_visitPredicate. rewrite gen_ia_visitPredicate_ok. destruct (isect (a2 AR Sub) l r) as [d|]; [|reflexivity].
  cbn [option_map]. cbv beta iota. destruct nv; [|reflexivity].
  sub_tac c d (fun _ : bool => azero AR). cbn [app]. rewrite sub_vac. reflexivity.
Qed.

End Correct.

Theorem dense_offline_gen_ia_predicate : forall (VS : Val) (AR : Arith VS),
  (forall c l r, option_map fst (gen_ia_visitPredicate AR c l r) = option_map (ia_pred AR PStd c) (isect (a2 AR Sub) l r)) /\
  (forall c l r, option_map snd (gen_ia_visitPredicate AR c l r)
                 = option_map (fun d => map (fun q => (fst q, snd (snd q))) (ia_scan AR c None d)) (isect (a2 AR Sub) l r)) /\
  (forall c nv l r, gen_ia_OutputRobustness_visitPredicate AR c nv l r
                    = option_map (ia_pred AR (if nv then PBool else PStd) c) (isect (a2 AR Sub) l r)) /\
  (forall c nv l r, gen_ia_InputRobustness_visitPredicate AR c nv l r
                    = option_map (ia_pred AR (if nv then PBool else PStd) c) (isect (a2 AR Sub) l r)) /\
  (forall c nv l r, gen_ia_InputVacuity_visitPredicate AR c nv l r
                    = option_map (ia_pred AR (if nv then PVac else PStd) c) (isect (a2 AR Sub) l r)) /\
  (forall c nv l r, gen_ia_OutputVacuity_visitPredicate AR c nv l r
                    = option_map (ia_pred AR (if nv then PVac else PStd) c) (isect (a2 AR Sub) l r)).
Proof.
  intros VS AR. repeat split.
  - intros c l r. rewrite gen_ia_visitPredicate_ok. destruct (isect (a2 AR Sub) l r); reflexivity.
  - intros c l r. rewrite gen_ia_visitPredicate_ok. destruct (isect (a2 AR Sub) l r); reflexivity.
  - apply gen_ia_OutputRobustness_ok.
  - apply gen_ia_InputRobustness_ok.
  - apply gen_ia_InputVacuity_ok.
  - apply gen_ia_OutputVacuity_ok.
Qed.
Print Assumptions dense_offline_gen_ia_predicate.

(* the parameter no_vars is `not node.out_vars` / `not node.in_vars`; with the lists the node constructors build (IA.in_vars_impl /
   out_vars_impl) the kind of every variant is IA.pk_impl, the kind the C06 theorems about the dense visitor (deval_pk) are stated on *)
From RV Require Import IA.
Theorem dense_offline_gen_ia_predicate_pk : forall (VS : Val) (AR : Arith VS) (io : nat -> bool) (f g : formula) c l r,
  let no_out := is_nil (out_vars_impl io f ++ out_vars_impl io g) in
  let no_in := is_nil (in_vars_impl io f ++ in_vars_impl io g) in
  gen_ia_OutputRobustness_visitPredicate AR c no_out l r = option_map (ia_pred AR (pk_impl io OutputRobustness f g) c) (isect (a2 AR Sub) l r) /\
  gen_ia_InputRobustness_visitPredicate AR c no_in l r = option_map (ia_pred AR (pk_impl io InputRobustness f g) c) (isect (a2 AR Sub) l r) /\
  gen_ia_InputVacuity_visitPredicate AR c no_in l r = option_map (ia_pred AR (pk_impl io InputVacuity f g) c) (isect (a2 AR Sub) l r) /\
  gen_ia_OutputVacuity_visitPredicate AR c no_out l r = option_map (ia_pred AR (pk_impl io OutputVacuity f g) c) (isect (a2 AR Sub) l r).
Proof.
  intros VS AR io f g c l r no_out no_in. destruct (dense_offline_gen_ia_predicate VS AR) as (_ & _ & H1 & H2 & H3 & H4).
  unfold pk_impl. fold no_out. fold no_in. repeat split; [apply H1|apply H2|apply H3|apply H4].
Qed.
Print Assumptions dense_offline_gen_ia_predicate_pk.
