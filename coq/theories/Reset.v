(* Reset.v — C10: the reset visitor returns every operation of the forest to
   its constructor state, so a reset monitor behaves like a fresh one. *)
From Coq Require Import List Bool Arith Lia.
From RV Require Import Val Syntax Rho Offline ListFacts OfflineCorrect Online OnlineCorrect.
Import ListNotations.

Section Reset.
Context {VS : Val} (AR : Arith VS).
Variable pk : formula -> formula -> pkind.
Notation opstate := (@opstate VS).

Lemma push_n_spec pad k : forall l, k <= length l -> push_n pad k l = skipn k l ++ repeat pad k.
Proof.
  unfold push_n. induction k as [|k IH]; intros l Hk.
  - simpl. rewrite app_nil_r. reflexivity.
  - rewrite seq_S, fold_left_app. simpl fold_left at 1. rewrite (IH l) by lia.
    unfold push. rewrite <- (tl_skipn l k).
    assert (Hne : skipn k l <> []).
    { intros E. apply (f_equal (@length V)) in E. rewrite skipn_length in E. simpl in E. lia. }
    destruct (skipn k l) as [|x s] eqn:Es; [congruence|]. simpl tl.
    rewrite <- app_assoc. f_equal.
    replace (S k) with (k + 1) by lia. rewrite repeat_app. reflexivity.
Qed.
Lemma push_n_full pad e l : length l = S e -> push_n pad (S e) l = repeat pad (S e).
Proof.
  intros H. rewrite push_n_spec by lia. rewrite skipn_all2 by lia. reflexivity.
Qed.

(* well-shaped states: the deques hold end+1 elements *)
Definition good (p : formula) (st : opstate) : Prop :=
  match p with
  | OnceT _ e _ | HistT _ e _ => match st with StBuf l => length l = S e | _ => False end
  | SinceT _ e _ _ | Precedes _ e _ _ =>
      match st with StBuf2 l r => length l = S e /\ length r = S e | _ => False end
  | _ => True
  end.

Lemma op_reset_good p st : good p st -> op_reset p st = op_init p.
Proof.
  destruct p; simpl; try reflexivity; destruct st; simpl; try tauto.
  - intros H. rewrite push_n_full by exact H. reflexivity.
  - intros H. rewrite push_n_full by exact H. reflexivity.
  - intros [H1 H2]. rewrite !push_n_full by assumption. reflexivity.
  - intros [H1 H2]. rewrite !push_n_full by assumption. reflexivity.
Qed.

Lemma good_init p : good p (op_init p).
Proof. destruct p; simpl; auto; rewrite ?repeat_length; auto. Qed.

Lemma buf_length pad (r : nat -> V) k e : length (buf pad r k e) = S e.
Proof. unfold buf. rewrite skipn_length, app_length, repeat_length, tab_length. lia. Qed.

Lemma good_canon w n p k : good p (canon AR pk w n p k).
Proof. destruct p; simpl; auto; rewrite ?buf_length; auto. Qed.

Lemma reset_visit_shape p d :
  reset_visit p d =
  match shape p with
  | SUn f => let d1 := reset_visit f d in upd d1 p (op_reset p (d1 p))
  | SBi f g => let d1 := reset_visit f d in let d2 := reset_visit g d1 in upd d2 p (op_reset p (d2 p))
  | _ => d
  end.
Proof. destruct p; reflexivity. Qed.

(* what one reset visit does to the dictionary; Dm = the formulas whose
   states are known to be well-shaped *)
Variable Dm : formula -> Prop.

Lemma reset_visit_spec : forall sz p d, size p <= sz ->
  (forall a, In a (subs p) -> Dm a) ->
  (forall a, Dm a -> good a (d a)) ->
  let d' := reset_visit p d in
  (forall a, Dm a -> good a (d' a)) /\
  (forall a, In a (subs p) -> is_leaf a \/ shape a = SUnsup \/ d' a = op_init a) /\
  (forall a, d a = op_init a -> d' a = op_init a).
Proof.
  induction sz as [|sz IH]; intros p d Hsz Hsub Hg.
  { destruct p; simpl in Hsz; lia. }
  cbv zeta. rewrite reset_visit_shape. destruct (shape p) eqn:Sh.
  - pose proof (subs_leaf p) as SL. rewrite Sh in SL. repeat split; auto.
    intros a Ha. rewrite SL in Ha. destruct Ha as [<-|[]]. left. unfold is_leaf. rewrite Sh. exact I.
  - pose proof (subs_leaf p) as SL. rewrite Sh in SL. repeat split; auto.
    intros a Ha. rewrite SL in Ha. destruct Ha as [<-|[]]. left. unfold is_leaf. rewrite Sh. exact I.
  - pose proof (shape_un AR pk [] 0 _ _ Sh) as (Hs & _).
    assert (Hsubf : forall a, In a (subs f) -> Dm a).
    { intros a Ha. apply Hsub. rewrite (subs_un _ _ Sh). right. exact Ha. }
    assert (HDp : Dm p) by (apply Hsub, in_subs_self).
    destruct (IH f d ltac:(lia) Hsubf Hg) as (G1 & S1 & K1). cbv zeta.
    set (d1 := reset_visit f d) in *.
    assert (E : op_reset p (d1 p) = op_init p) by (apply op_reset_good, G1, HDp).
    rewrite E. repeat split.
    + intros a Ha. destruct (formula_eq_dec a p) as [->|Hne]; [rewrite upd_eq; apply good_init|rewrite upd_ne by assumption; apply G1; exact Ha].
    + intros a Ha. rewrite (subs_un _ _ Sh) in Ha.
      destruct (formula_eq_dec a p) as [->|Hne]; [right; right; apply upd_eq|].
      destruct Ha as [<-|Ha]; [congruence|]. rewrite upd_ne by assumption. apply S1. exact Ha.
    + intros a Ha. destruct (formula_eq_dec a p) as [->|Hne]; [apply upd_eq|rewrite upd_ne by assumption; apply K1; exact Ha].
  - pose proof (shape_bi AR pk [] 0 _ _ _ Sh) as (Hs1 & Hs2 & _).
    assert (Hsubf : forall a, In a (subs f) -> Dm a).
    { intros a Ha. apply Hsub. rewrite (subs_bi _ _ _ Sh). right. apply in_or_app. left. exact Ha. }
    assert (Hsubg : forall a, In a (subs g) -> Dm a).
    { intros a Ha. apply Hsub. rewrite (subs_bi _ _ _ Sh). right. apply in_or_app. right. exact Ha. }
    assert (HDp : Dm p) by (apply Hsub, in_subs_self).
    destruct (IH f d ltac:(lia) Hsubf Hg) as (G1 & S1 & K1). cbv zeta.
    set (d1 := reset_visit f d) in *.
    destruct (IH g d1 ltac:(lia) Hsubg G1) as (G2 & S2 & K2). cbv zeta in G2, S2, K2.
    set (d2 := reset_visit g d1) in *.
    assert (E : op_reset p (d2 p) = op_init p) by (apply op_reset_good, G2, HDp).
    rewrite E. repeat split.
    + intros a Ha. destruct (formula_eq_dec a p) as [->|Hne]; [rewrite upd_eq; apply good_init|rewrite upd_ne by assumption; apply G2; exact Ha].
    + intros a Ha. rewrite (subs_bi _ _ _ Sh) in Ha.
      destruct (formula_eq_dec a p) as [->|Hne]; [right; right; apply upd_eq|].
      destruct Ha as [<-|Ha]; [congruence|]. rewrite upd_ne by assumption.
      apply in_app_or in Ha as [Ha|Ha].
      * destruct (S1 a Ha) as [?|[?|E1]]; auto.
      * apply S2. exact Ha.
    + intros a Ha. destruct (formula_eq_dec a p) as [->|Hne]; [apply upd_eq|rewrite upd_ne by assumption; apply K2, K1; exact Ha].
  - pose proof (subs_leaf p) as SL. rewrite Sh in SL. repeat split; auto.
    intros a Ha. rewrite SL in Ha. destruct Ha as [<-|[]]. right. left. exact Sh.
Qed.

Lemma reset_keeps_init : forall F d a,
  (forall p b, In p F -> In b (subs p) -> Dm b) ->
  (forall b, Dm b -> good b (d b)) ->
  d a = op_init a -> fold_left (fun d p => reset_visit p d) F d a = op_init a.
Proof.
  induction F as [|p F IH]; intros d a HD Hg E; simpl; [exact E|].
  destruct (reset_visit_spec (size p) p d (le_n _) (fun b Hb => HD p b (or_introl eq_refl) Hb) Hg) as (G' & _ & K').
  apply IH; [intros q b Hq Hb; apply (HD q b (or_intror Hq) Hb)|exact G'|apply K'; exact E].
Qed.

Lemma mon_reset_spec : forall F d,
  (forall p b, In p F -> In b (subs p) -> Dm b) ->
  (forall a, Dm a -> good a (d a)) ->
  let d' := mon_reset F d in
  (forall a, Dm a -> good a (d' a)) /\
  (forall p a, In p F -> In a (subs p) -> is_leaf a \/ shape a = SUnsup \/ d' a = op_init a) /\
  (forall a, d a = op_init a -> d' a = op_init a).
Proof.
  unfold mon_reset. induction F as [|p F IH]; intros d HD Hg; cbv zeta.
  - simpl. split; [exact Hg|]. split; [intros p a []|auto].
  - simpl. destruct (reset_visit_spec (size p) p d (le_n _) (fun b Hb => HD p b (or_introl eq_refl) Hb) Hg) as (G1 & S1 & K1).
    assert (HD' : forall q b, In q F -> In b (subs q) -> Dm b) by (intros q b Hq Hb; apply (HD q b (or_intror Hq) Hb)).
    destruct (IH (reset_visit p d) HD' G1) as (G2 & S2 & K2). cbv zeta in G2, S2, K2. split; [exact G2|]. split.
    + intros q a [<-|Hq] Ha.
      * destruct (S1 a Ha) as [?|[?|E1]]; [auto|auto|]. right. right. apply K2. exact E1.
      * eapply S2; eassumption.
    + intros a Ha. apply K2, K1, Ha.
Qed.

End Reset.

Section ResetReady.
Context {VS : Val} (AR : Arith VS).
Variable pk : formula -> formula -> pkind.

Lemma subs_past : forall sz (p a : formula), size p <= sz -> past_only p = true -> In a (subs p) -> past_only a = true.
Proof.
  induction sz as [|sz IH]; intros p a Hsz Hp Ha.
  { destruct p; simpl in Hsz; lia. }
  destruct (shape p) eqn:Sh.
  - pose proof (subs_leaf p) as SL. rewrite Sh in SL. rewrite SL in Ha. destruct Ha as [<-|[]]. exact Hp.
  - pose proof (subs_leaf p) as SL. rewrite Sh in SL. rewrite SL in Ha. destruct Ha as [<-|[]]. exact Hp.
  - pose proof (shape_un AR pk [] 0 _ _ Sh) as (Hs & Hpo & _).
    rewrite (subs_un _ _ Sh) in Ha. destruct Ha as [<-|Ha]; [exact Hp|]. apply (IH f a); [lia|auto|exact Ha].
  - pose proof (shape_bi AR pk [] 0 _ _ _ Sh) as (Hs1 & Hs2 & Hpo & _). destruct (Hpo Hp) as [Hp1 Hp2].
    rewrite (subs_bi _ _ _ Sh) in Ha. destruct Ha as [<-|Ha]; [exact Hp|].
    apply in_app_or in Ha as [Ha|Ha]; [apply (IH f a)|apply (IH g a)]; auto; lia.
  - pose proof (subs_leaf p) as SL. rewrite Sh in SL. rewrite SL in Ha. destruct Ha as [<-|[]]. exact Hp.
Qed.

Lemma unsup_not_past (a : formula) : shape a = SUnsup -> past_only a = false.
Proof. destruct a; simpl; intros H; try discriminate; reflexivity. Qed.

(* after reset every operation of the forest is in its constructor state,
   whatever state (reachable by k updates on any trace) it was in *)
Theorem reset_ready (w w' : trace) (n n' : nat) (F : list formula) (k : nat) (d : dict) :
  (forall p, In p F -> past_only p = true) ->
  Ready AR pk w n (DF F) k d ->
  Ready AR pk w' n' (DF F) 0 (mon_reset F d).
Proof.
  intros HF HR a (p & Hp & Ha).
  assert (Hg : forall b, DF F b -> good b (d b)).
  { intros b Hb. rewrite (HR b Hb). apply good_canon. }
  destruct (mon_reset_spec AR pk (DF F) F d (fun q b Hq Hb => ex_intro _ q (conj Hq Hb)) Hg) as (_ & S & K).
  cbv zeta in S, K. rewrite canon_0.
  destruct (S p a Hp Ha) as [Hl|[Hu|E]].
  - apply K. rewrite (HR a (ex_intro _ p (conj Hp Ha))), <- (canon_0 AR pk w n a). apply canon_leaf. exact Hl.
  - exfalso. pose proof (subs_past (size p) p a (le_n _) (HF p Hp) Ha) as H1.
    rewrite (unsup_not_past a Hu) in H1. discriminate.
  - exact E.
Qed.

(* C10 on the monitor model: history, reset, continuation = fresh monitor on the continuation *)
Theorem reset_like_fresh (w w' : trace) (n n' : nat) (F : list formula) (h len : nat) :
  F <> [] -> (forall p, In p F -> past_only p = true /\ wf_bounds p = true) ->
  let d := fst (mon_run AR pk F dict_init w 0 h) in
  snd (mon_run AR pk F (mon_reset F d) w' 0 len) = snd (mon_run AR pk F dict_init w' 0 len).
Proof.
  intros Hne HF. cbv zeta.
  assert (HR0 : Ready AR pk w n (DF F) 0 dict_init) by (intros a _; unfold dict_init; symmetry; apply canon_0).
  pose proof (mon_run_correct AR pk w n F h 0 dict_init Hne HF HR0) as H1.
  destruct (mon_run AR pk F dict_init w 0 h) as [d vs]. destruct H1 as [_ HRh]. simpl fst.
  assert (HR' : Ready AR pk w' n' (DF F) 0 (mon_reset F d)).
  { eapply reset_ready; [intros p Hp; apply HF; exact Hp|exact HRh]. }
  pose proof (mon_run_correct AR pk w' n' F len 0 (mon_reset F d) Hne HF HR') as H2.
  assert (HR0' : Ready AR pk w' n' (DF F) 0 dict_init) by (intros a _; unfold dict_init; symmetry; apply canon_0).
  pose proof (mon_run_correct AR pk w' n' F len 0 dict_init Hne HF HR0') as H3.
  destruct (mon_run AR pk F (mon_reset F d) w' 0 len) as [d2 vs2].
  destruct (mon_run AR pk F dict_init w' 0 len) as [d3 vs3].
  simpl. destruct H2 as [-> _]. destruct H3 as [-> _]. reflexivity.
Qed.

End ResetReady.
