(* DenseOnlineGenWinCorrect.v — the definitions that tools/py2coq_denseonline.py generates from
     rtamt/semantics/stl/dense_time/online/once_timed_operation.py          (gen_OnceTimed_update)
     rtamt/semantics/stl/dense_time/online/historically_timed_operation.py  (gen_HistoricallyTimed_update)
   are, on the stamps [tz] (Z + inf), state for state and batch for batch (exceptions included: None on both sides), the hand
   model [win_update_e] of DenseOnlineMon.v:   once = win_update_e ltb bot,  historically = win_update_e (fun x y => ltb y x) top.
   Scheme (the one of DenseOnlineGenCorrect.v): [win_core lt pad] is the common text of the two classes, cut at its binds; each
   generated update IS win_core (by computation, re-checked against the regenerated text on every build); win_core is
   win_update_e (one proof for both classes).
   Precondition: Python's `sample[0][0] == self.residual_start` cannot tell the initial float("inf") of historically ([XPos])
   from a stamp inf ([XFin TInf]), the hand model identifies them ([ET TInf]): the two agree when  started -> residual_start is
   not XPos  ([win_wf_weak]), in particular when  started -> residual_start is the stamp of a sample  ([win_wf]); both are
   invariants of the updates and hold initially. *)
From Coq Require Import List Bool Arith ZArith Lia.
From RV Require Import Val Syntax Rho Online Dense DenseMerge DenseEval PySem PyDense DenseMergeCorrect DenseOnlineMerge DenseOnlineMergeCorrect DenseOnlineFold DenseOnlineMon
  DenseOnlineGen DenseOnlineGenCorrect.
Import ListNotations.
Local Open Scope Z_scope.

(* ------------------------------------------------------------------ *)
(* the list primitives on out[-1] spelled out[len(out) - 1]            *)
(* ------------------------------------------------------------------ *)
Section PrimsW.
Context {A : Type}.

Lemma py_get_mid (pre : list A) (x : A) (post : list A) : py_get (pre ++ x :: post) (Z.of_nat (length pre)) = Some x.
Proof.
  unfold py_get, py_len. rewrite app_length. cbn [length].
  destruct (Z.of_nat (length pre) <? 0) eqn:E0; [apply Z.ltb_lt in E0; lia|].
  destruct (0 <=? Z.of_nat (length pre)) eqn:E1; [|apply Z.leb_gt in E1; lia].
  destruct (Z.of_nat (length pre) <? Z.of_nat (length pre + S (length post))) eqn:E2; [|apply Z.ltb_ge in E2; lia].
  cbn [andb]. rewrite Nat2Z.id, nth_error_app2 by lia. rewrite Nat.sub_diag. reflexivity.
Qed.

Lemma py_get_end (l : list A) : py_get l (Z.of_nat (length l)) = None.
Proof.
  unfold py_get, py_len.
  destruct (Z.of_nat (length l) <? 0) eqn:E0; [apply Z.ltb_lt in E0; lia|].
  destruct (Z.of_nat (length l) <? Z.of_nat (length l)) eqn:E2; [apply Z.ltb_lt in E2; lia|].
  rewrite andb_false_r. reflexivity.
Qed.

Lemma py_get_last (l : list A) (x : A) : py_get (l ++ [x]) (py_len (l ++ [x]) - 1) = Some x.
Proof.
  replace (py_len (l ++ [x]) - 1) with (Z.of_nat (length l)).
  - apply py_get_mid.
  - unfold py_len. rewrite app_length. cbn [length]. lia.
Qed.

Lemma py_get_last_nil : py_get (@nil A) (py_len (@nil A) - 1) = None.
Proof. reflexivity. Qed.

Lemma py_del_last (l : list A) (x : A) : py_del (l ++ [x]) (py_len (l ++ [x]) - 1) = Some l.
Proof.
  replace (py_len (l ++ [x]) - 1) with (Z.of_nat (length l)) by (unfold py_len; rewrite app_length; cbn [length]; lia).
  unfold py_del, py_len. rewrite app_length. cbn [length].
  destruct (Z.of_nat (length l) <? 0) eqn:E0; [apply Z.ltb_lt in E0; lia|].
  destruct (0 <=? Z.of_nat (length l)) eqn:E1; [|apply Z.leb_gt in E1; lia].
  destruct (Z.of_nat (length l) <? Z.of_nat (length l + 1)) eqn:E2; [|apply Z.ltb_ge in E2; lia].
  cbn [andb]. rewrite Nat2Z.id.
  rewrite firstn_app, Nat.sub_diag, firstn_all. cbn [firstn]. rewrite app_nil_r.
  rewrite skipn_app, skipn_all2 by lia.
  replace (S (length l) - length l)%nat with 1%nat by lia. cbn [skipn]. rewrite app_nil_r. reflexivity.
Qed.

Lemma py_del_last_nil : py_del (@nil A) (py_len (@nil A) - 1) = None.
Proof. reflexivity. Qed.

Lemma rev_cons_eq (l : list A) (x : A) (r : list A) : rev l = x :: r -> l = rev r ++ [x].
Proof. intro E. apply (f_equal (@rev A)) in E. rewrite rev_involutive in E. exact E. Qed.

Lemma rev_nil_eq (l : list A) : rev l = [] -> l = [].
Proof. intro E. apply (f_equal (@rev A)) in E. rewrite rev_involutive in E. exact E. Qed.
End PrimsW.

(* ------------------------------------------------------------------ *)
(* the order of tz                                                     *)
(* ------------------------------------------------------------------ *)
Lemma tz_le1 (a b : tz) : tlt a b || teq a b = negb (tlt b a).
Proof.
  destruct a as [x|], b as [y|]; cbn; try reflexivity.
  destruct (Z.ltb_spec x y), (Z.eqb_spec x y), (Z.ltb_spec y x); cbn; try reflexivity; lia.
Qed.
Lemma tz_le2 (a b : tz) : tlt a b || teq b a = negb (tlt b a).
Proof.
  destruct a as [x|], b as [y|]; cbn; try reflexivity.
  destruct (Z.ltb_spec x y), (Z.eqb_spec y x), (Z.ltb_spec y x); cbn; try reflexivity; lia.
Qed.

Section Win.
Context {VS : Val} (AR : Arith VS).

Notation piece := (@ppiece VS tz).
Notation xst := (xstamp tz).

Definition xs_abs (x : xstamp tz) : erstamp := match x with XNeg => ENeg | XFin t => ET t | XPos => ET TInf end.

Definition win_wf (rs : xstamp tz) (started : bool) : Prop := started = true -> exists t, rs = XFin t.
Definition win_wf_weak (rs : xstamp tz) (started : bool) : Prop := started = true -> rs <> XPos.

Lemma win_wf_weaken rs started : win_wf rs started -> win_wf_weak rs started.
Proof. intros H E. destruct (H E) as [t Ht]. subst rs. discriminate. Qed.

(* ================================================================== *)
(* the common text of the two classes                                  *)
(* ================================================================== *)
Section Core.
Variable lt : V -> V -> bool.
Variable pad : V.

Definition w_cond (started : bool) (rs : xst) (sample : esig) : option bool :=
  if py_truthy sample then (if started then (t1 <- py_get sample 0 ;; Some (xs_eqb teq (XFin (fst t1)) rs)) else Some false) else Some false.
Definition w_drop (c : bool) (sample : esig) : option esig :=
  if c then Some (py_slice sample (Some 1) None) else Some sample.
Definition w_ext (sample : esig) (out : list piece) (rs : xst) (end_ : Z) : option (list piece * xst) :=
  if py_truthy sample then
    t3 <- py_get sample (- 1) ;;
    out <- (if py_truthy out then
        t4 <- py_get out ((py_len out) - 1) ;;
        t5 <- py_get sample 0 ;;
        out <- py_del out ((py_len out) - 1) ;;
        Some (out ++ [((pp_lo t4), (tadd (fst t5) end_), (pp_v t4))])
      else
        Some out) ;;
    Some (out, XFin (fst t3))
  else
    Some (out, rs).
Definition w_padc (i : Z) (sample : esig) (started : bool) (begin : Z) : option bool :=
  if (i =? 1) then (t6 <- py_get sample 0 ;; if (teq (fst t6) (T 0)) then (if (begin >? 0) then (Some (negb started)) else Some false) else Some false) else Some false.
Definition w_pad (c : bool) (sample : esig) (begin : Z) (out : list piece) : option (list piece) :=
  if c then
    t8 <- py_get sample 0 ;;
    Some (out ++ [(T 0, (tadd (fst t8) begin), pad)])
  else
    Some out.
Definition w_piece (i : Z) (sample : esig) (begin end_ : Z) : option piece :=
  if (i =? (py_len sample)) then
    t9 <- py_get sample (i - 1) ;;
    t10 <- py_get sample (i - 1) ;;
    t11 <- py_get sample (i - 1) ;;
    Some ((tadd (fst t9) begin), (tadd (fst t10) end_), (snd t11))
  else
    t12 <- py_get sample (i - 1) ;;
    t13 <- py_get sample i ;;
    t14 <- py_get sample (i - 1) ;;
    Some ((tadd (fst t12) begin), (tadd (fst t13) end_), (snd t14)).
Definition w_pop (b a : piece) (out : list piece) : option (piece * list piece) :=
  py_while (length out)%nat (fun '(a, out) => ((lt (pp_v a) (pp_v b)) && (tlt (pp_lo b) (pp_lo a)))) (fun '(a, out) =>
      out <- py_del out ((py_len out) - 1) ;;
      t16 <- py_get out ((py_len out) - 1) ;;
      Some (t16, out)) (a, out).
Definition w_push (out : list piece) (b : piece) : option (list piece) :=
  if (negb (py_truthy out)) then
    Some (out ++ [b])
  else
    t15 <- py_get out ((py_len out) - 1) ;;
    '(a, out) <- w_pop b t15 out ;;
    out <- (if (negb (py_intersects tlt teq (pp_lo a) (pp_hi a) (pp_lo b) (pp_hi b))) then
        Some (out ++ [b])
      else
        out <- (if (negb (lt (pp_v a) (pp_v b))) then
            Some (out ++ [((pp_hi a), (pp_hi b), (pp_v b))])
          else
            out <- py_del out ((py_len out) - 1) ;;
            out <- (if (tlt (pp_lo a) (pp_lo b)) then
                Some (out ++ [((pp_lo a), (pp_lo b), (pp_v a))])
              else
                Some out) ;;
            Some (out ++ [((pp_lo b), (pp_hi b), (pp_v b))])) ;;
        Some out) ;;
    Some out.
Definition w_body (sample : esig) (started : bool) (begin end_ : Z) : Z * list piece -> option (Z * list piece) :=
  fun '(i, out) =>
    t7 <- w_padc i sample started begin ;;
    out <- w_pad t7 sample begin out ;;
    b <- w_piece i sample begin end_ ;;
    out <- w_push out b ;;
    Some (i + 1, out).
Definition w_loop (sample : esig) (started : bool) (begin end_ : Z) (out : list piece) : option (Z * list piece) :=
  py_while (length sample)%nat (fun '(i, out) => ((py_len sample) >=? i)) (w_body sample started begin end_) (1, out).
Definition w_started (sample : esig) (started : bool) : option bool :=
  if py_truthy sample then Some true else Some started.
Definition w_emit (b : piece) (prev : option V) (i n : Z) (last : option (tz * V)) (res : esig) : option esig :=
  if ((nv_neq (pp_v b) prev) || (i =? (n - 1))) then
    t17 <- os_get last ;;
    Some (res ++ [t17])
  else
    Some res.
Definition w_scan_body (rs : xst) (n : Z) : Z * piece -> option (tz * V) * option V * esig * list piece -> option (option (tz * V) * option V * esig * list piece) :=
  fun '(i, b) '(last, prev, sample_result, self_prev) =>
      '(last, sample_result, self_prev) <- (if (xs_ltb tlt (XFin (pp_hi b)) rs || xs_eqb teq rs (XFin (pp_hi b))) then
          let last := (Some ((pp_lo b), (pp_v b))) in
          sample_result <- w_emit b prev i n last sample_result ;;
          Some (last, sample_result, self_prev)
        else
          '(last, sample_result, self_prev) <- (if ((xs_ltb tlt (XFin (pp_lo b)) rs || xs_eqb teq (XFin (pp_lo b)) rs) && (xs_ltb tlt rs (XFin (pp_hi b)))) then
              let last := (Some ((pp_lo b), (pp_v b))) in
              sample_result <- w_emit b prev i n last sample_result ;;
              '(last, self_prev) <- (if (xs_ltb tlt (XFin (pp_lo b)) rs || xs_eqb teq rs (XFin (pp_lo b))) then
                  t19 <- xs_get rs ;;
                  let last := (Some (t19, (pp_v b))) in
                  t20 <- xs_get rs ;;
                  let self_prev := self_prev ++ [(t20, (pp_hi b), (pp_v b))] in
                  Some (last, self_prev)
                else
                  Some (last, self_prev)) ;;
              Some (last, sample_result, self_prev)
            else
              let self_prev := self_prev ++ [b] in
              Some (last, sample_result, self_prev)) ;;
          Some (last, sample_result, self_prev)) ;;
      let prev := (Some (pp_v b)) in
      Some (last, prev, sample_result, self_prev).
Definition w_addlast (sample_result : esig) (last : option (tz * V)) : option esig :=
  if (os_truthy last) then
    sample_result <- (if (negb (py_truthy sample_result)) then
        t21 <- os_get last ;;
        Some (sample_result ++ [t21])
      else
        t22 <- os_get last ;;
        t23 <- py_get sample_result (- 1) ;;
        sample_result <- (if (tlt (fst t23) (fst t22)) then
            t24 <- os_get last ;;
            Some (sample_result ++ [t24])
          else
            Some sample_result) ;;
        Some sample_result) ;;
    Some sample_result
  else
    Some sample_result.

Definition win_core {R : Type} (prev : list piece) (rs : xst) (begin end_ : Z) (started : bool) (sample : esig)
    (k : list piece -> xst -> bool -> esig -> option R) : option R :=
  t2 <- w_cond started rs sample ;;
  sample <- w_drop t2 sample ;;
  '(out, rs) <- w_ext sample prev rs end_ ;;
  '(i, out) <- w_loop sample started begin end_ out ;;
  started <- w_started sample started ;;
  '(last, prev, sample_result, self_prev) <- py_for (py_enumerate out) (w_scan_body rs (py_len out)) (None, None, [], []) ;;
  sample_result <- w_addlast sample_result last ;;
  k self_prev rs started sample_result.

(* ================================================================== *)
(* win_core is win_update_e                                            *)
(* ================================================================== *)

(* ---- the head of the method ---- *)
Definition new_xs (rs : xst) (sample : esig) : xst := match rev sample with (tn, _) :: _ => XFin tn | [] => rs end.

Lemma new_xs_abs rs sample : xs_abs (new_xs rs sample) = new_rs_e (xs_abs rs) sample.
Proof. unfold new_xs, new_rs_e. destruct (rev sample) as [|[tn vn] r]; reflexivity. Qed.

Lemma w_cond_drop_ok (st : wstate_e) started rs sample :
  win_wf_weak rs started -> we_started st = started -> we_rs st = xs_abs rs ->
  (t2 <- w_cond started rs sample ;; w_drop t2 sample) = Some (drop_repeat_e st sample).
Proof.
  intros Hwf Es Er. unfold w_cond, w_drop, drop_repeat_e. rewrite Es, Er, py_get_0, py_slice_1.
  destruct sample as [|[t0 v0] rest]; [reflexivity|]. cbn [py_truthy fst tl].
  destruct started; [|reflexivity]. cbn [andb].
  destruct rs as [|z|]; cbn [xs_eqb xs_abs ers_eqb].
  - reflexivity.
  - destruct (teq t0 z); reflexivity.
  - exfalso. apply Hwf; reflexivity.
Qed.

Lemma w_ext_ok sample out rs e :
  w_ext sample out rs e = Some (rev (extend_last_e (rev out) sample e), new_xs rs sample).
Proof.
  unfold w_ext, extend_last_e, new_xs. rewrite py_get_m1, py_get_0, (py_truthy_rev out).
  destruct sample as [|[t0 v0] rest]; [cbn [py_truthy rev]; rewrite rev_involutive; reflexivity|].
  cbn [py_truthy].
  destruct (rev ((t0, v0) :: rest)) as [|[tn vn] rr] eqn:E.
  { apply rev_nil_eq in E. discriminate. }
  cbn [fst].
  destruct (rev out) as [|q r] eqn:Eo.
  - apply rev_nil_eq in Eo. subst out. reflexivity.
  - apply rev_cons_eq in Eo. subst out. rewrite py_get_last, py_del_last. cbn [rev]. reflexivity.
Qed.

(* ---- the popping loop ---- *)
Definition pop_res (o : option (list piece)) : option (piece * list piece) :=
  match o with Some (a :: r) => Some (a, rev (a :: r)) | _ => None end.

Lemma w_pop_ok b : forall r a fuel, (length (a :: r) <= fuel)%nat ->
  py_while fuel (fun '(a, out) => ((lt (pp_v a) (pp_v b)) && (tlt (pp_lo b) (pp_lo a)))) (fun '(a, out) =>
      out <- py_del out ((py_len out) - 1) ;;
      t16 <- py_get out ((py_len out) - 1) ;;
      Some (t16, out)) (a, rev (a :: r)) = pop_res (pop_dominated_e lt (a :: r) b).
Proof.
  induction r as [|a' r' IH]; intros a fuel Hf.
  - destruct fuel as [|n]; [cbn [length] in Hf; lia|].
    cbn [py_while pop_dominated_e]. unfold eps, epv. fold (pp_v a) (pp_v b) (pp_lo a) (pp_lo b).
    destruct (lt (pp_v a) (pp_v b) && tlt (pp_lo b) (pp_lo a)); [|reflexivity].
    cbn [rev app]. change [a] with ([] ++ [a]). rewrite py_del_last. reflexivity.
  - destruct fuel as [|n]; [cbn [length] in Hf; lia|].
    cbn [py_while]. cbn [pop_dominated_e]. unfold eps at 1 2, epv at 1 2. fold (pp_v a) (pp_v b) (pp_lo a) (pp_lo b).
    destruct (lt (pp_v a) (pp_v b) && tlt (pp_lo b) (pp_lo a)); [|reflexivity].
    change (rev (a :: a' :: r')) with (rev (a' :: r') ++ [a]). rewrite py_del_last.
    change (rev (a' :: r')) with (rev r' ++ [a']). rewrite py_get_last.
    change (rev r' ++ [a']) with (rev (a' :: r')).
    apply IH. cbn [length] in *. lia.
Qed.

Lemma intersects_ok x1 x2 y1 y2 : py_intersects tlt teq x1 x2 y1 y2 = intersects_e x1 x2 y1 y2.
Proof. unfold py_intersects, intersects_e, tle. rewrite !tz_le1. reflexivity. Qed.

Lemma w_push_ok out b : w_push out b = option_map (@rev _) (push_piece_e lt (rev out) b).
Proof.
  unfold w_push, push_piece_e. rewrite (py_truthy_rev out).
  destruct (rev out) as [|a r] eqn:Eo.
  { apply rev_nil_eq in Eo. subst out. reflexivity. }
  apply rev_cons_eq in Eo. subst out. cbn [negb]. rewrite py_get_last.
  unfold w_pop. change (rev r ++ [a]) with (rev (a :: r)).
  rewrite w_pop_ok by (rewrite rev_length; apply le_n).
  destruct (pop_dominated_e lt (a :: r) b) as [[|a1 r1]|]; try reflexivity.
  cbn [pop_res]. rewrite intersects_ok. unfold eps, epe, epv.
  fold (pp_lo a1) (pp_hi a1) (pp_v a1) (pp_lo b) (pp_hi b) (pp_v b).
  destruct (negb (intersects_e (pp_lo a1) (pp_hi a1) (pp_lo b) (pp_hi b))); [reflexivity|].
  destruct (negb (lt (pp_v a1) (pp_v b))); [reflexivity|].
  change (rev (a1 :: r1)) with (rev r1 ++ [a1]). rewrite py_del_last.
  destruct b as [[lob hib] vb]. unfold pp_lo, pp_hi, pp_v. cbn [fst snd].
  destruct (tlt (fst (fst a1)) lob); cbn [option_map app rev]; reflexivity.
Qed.

(* ---- the loop over the sample ---- *)
Definition piece_of (x : tz * V) (post : esig) (b e : Z) : piece :=
  (tadd (fst x) b, match post with (t', _) :: _ => tadd t' e | [] => tadd (fst x) e end, snd x).

Lemma win_pieces_cons x post b e : win_pieces_e (x :: post) b e = piece_of x post b e :: win_pieces_e post b e.
Proof. destruct x as [t v]. reflexivity. Qed.

Lemma w_piece_ok pre x post b e :
  w_piece (Z.of_nat (length pre) + 1) (pre ++ x :: post) b e = Some (piece_of x post b e).
Proof.
  unfold w_piece, piece_of.
  replace (Z.of_nat (length pre) + 1 - 1) with (Z.of_nat (length pre)) by lia.
  rewrite py_get_mid.
  destruct post as [|[t' v'] post'].
  - replace (Z.of_nat (length pre) + 1 =? py_len (pre ++ [x])) with true; [reflexivity|].
    symmetry. apply Z.eqb_eq. unfold py_len. rewrite app_length. cbn [length]. lia.
  - replace (Z.of_nat (length pre) + 1 =? py_len (pre ++ x :: (t', v') :: post')) with false.
    2:{ symmetry. apply Z.eqb_neq. unfold py_len. rewrite app_length. cbn [length]. lia. }
    replace (pre ++ x :: (t', v') :: post') with ((pre ++ [x]) ++ (t', v') :: post') by (rewrite <- app_assoc; reflexivity).
    replace (Z.of_nat (length pre) + 1) with (Z.of_nat (length (pre ++ [x]))) by (rewrite app_length; cbn [length]; lia).
    rewrite py_get_mid. reflexivity.
Qed.

Definition push_step (acc : option (list piece)) (p : piece) : option (list piece) := obind acc (fun out => push_piece_e lt out p).

Lemma push_fold_none l : fold_left push_step l None = None.
Proof. induction l as [|p l IH]; [reflexivity|]. cbn [fold_left]. exact IH. Qed.

Definition loop_res (n : Z) (o : option (list piece)) : option (Z * list piece) :=
  match o with Some out => Some (n, rev out) | None => None end.

Lemma w_loop_tail started b e : forall post pre out fuel, pre <> [] -> (length post <= fuel)%nat ->
  py_while fuel (fun '(i, out) => ((py_len (pre ++ post)) >=? i)) (w_body (pre ++ post) started b e) (Z.of_nat (length pre) + 1, out) =
  loop_res (py_len (pre ++ post) + 1) (fold_left push_step (win_pieces_e post b e) (Some (rev out))).
Proof.
  induction post as [|x post IH]; intros pre out fuel Hpre Hf.
  - rewrite app_nil_r. cbn [win_pieces_e fold_left loop_res]. rewrite rev_involutive.
    assert (Ec : (py_len pre >=? Z.of_nat (length pre) + 1) = false).
    { unfold py_len. rewrite Z.geb_leb. apply Z.leb_gt. lia. }
    destruct fuel; cbn [py_while]; rewrite Ec; reflexivity.
  - destruct fuel as [|n]; [cbn [length] in Hf; lia|].
    assert (Ec : (py_len (pre ++ x :: post) >=? Z.of_nat (length pre) + 1) = true).
    { unfold py_len. rewrite app_length. cbn [length]. rewrite Z.geb_leb. apply Z.leb_le. lia. }
    cbn [py_while]. rewrite Ec.
    unfold w_body at 1. unfold w_padc.
    replace (Z.of_nat (length pre) + 1 =? 1) with false.
    2:{ symmetry. apply Z.eqb_neq. destruct pre; [contradiction|cbn [length]; lia]. }
    cbn [w_pad]. rewrite w_piece_ok, w_push_ok, win_pieces_cons. cbn [fold_left]. unfold push_step at 2. cbn [obind].
    destruct (push_piece_e lt (rev out) (piece_of x post b e)) as [o|].
    2:{ cbn [option_map]. rewrite push_fold_none. reflexivity. }
    cbn [option_map].
    replace (pre ++ x :: post) with ((pre ++ [x]) ++ post) by (rewrite <- app_assoc; reflexivity).
    replace (Z.of_nat (length pre) + 1 + 1) with (Z.of_nat (length (pre ++ [x])) + 1) by (rewrite app_length; cbn [length]; lia).
    rewrite IH.
    + rewrite rev_involutive. reflexivity.
    + intro E. apply app_eq_nil in E. destruct E; discriminate.
    + cbn [length] in Hf. lia.
Qed.

Lemma w_loop_ok sample started b e out :
  w_loop sample started b e out =
  loop_res (py_len sample + 1) (push_all_e lt (add_pad_e pad started (rev out) sample b) (win_pieces_e sample b e)).
Proof.
  unfold w_loop, push_all_e. change (fun acc p => obind acc (fun out0 => push_piece_e lt out0 p)) with push_step.
  destruct sample as [|x post].
  { cbn [length py_while py_len add_pad_e win_pieces_e fold_left loop_res]. rewrite rev_involutive. reflexivity. }
  assert (Ec : (py_len (x :: post) >=? 1) = true).
  { unfold py_len. cbn [length]. rewrite Z.geb_leb. apply Z.leb_le. lia. }
  cbn [length py_while]. rewrite Ec.
  unfold w_body at 1. unfold w_padc, w_pad. rewrite py_get_0.
  pose proof (w_piece_ok [] x post b e) as Hp. cbn [length app] in Hp. change (Z.of_nat 0 + 1) with 1 in Hp. rewrite Hp.
  rewrite win_pieces_cons. cbn [fold_left]. unfold push_step at 2.
  replace (1 =? 1) with true by reflexivity.
  destruct x as [t0 v0]. cbn [fst add_pad_e].
  rewrite (Z.gtb_ltb b 0).
  assert (Hgen : forall out1 : list piece,
    (s' <- (out2 <- w_push out1 (piece_of (t0, v0) post b e) ;; Some (1 + 1, out2)) ;;
     py_while (length post) (fun '(i, out) => ((py_len ((t0, v0) :: post)) >=? i)) (w_body ((t0, v0) :: post) started b e) s') =
    loop_res (py_len ((t0, v0) :: post) + 1)
      (fold_left push_step (win_pieces_e post b e) (obind (Some (rev out1)) (fun out0 => push_piece_e lt out0 (piece_of (t0, v0) post b e))))).
  { intro out1. rewrite w_push_ok. cbn [obind].
    destruct (push_piece_e lt (rev out1) (piece_of (t0, v0) post b e)) as [o|].
    2:{ cbn [option_map]. rewrite push_fold_none. reflexivity. }
    cbn [option_map].
    pose proof (w_loop_tail started b e post [(t0, v0)] (rev o) (length post)) as Ht.
    cbn [length app] in Ht. change (Z.of_nat 1 + 1) with (1 + 1) in Ht.
    rewrite Ht; [rewrite rev_involutive; reflexivity|discriminate|apply le_n]. }
  destruct (teq t0 (T 0)); cbn [andb].
  2:{ apply Hgen. }
  destruct (0 <? b); cbn [andb].
  2:{ apply Hgen. }
  destruct started; cbn [negb].
  { apply Hgen. }
  rewrite Hgen. rewrite rev_app_distr. reflexivity.
Qed.

(* ---- the scan of out ---- *)
Definition keep (last' last : option (tz * V)) : option (tz * V) := match last' with Some y => Some y | None => last end.
Definition is_nil {A : Type} (l : list A) : bool := match l with [] => true | _ => false end.

Lemma scan_e_cons rs (b : piece) (l : list piece) pv0 :
  scan_e rs (b :: l) pv0 =
  let '(res', last', np') := scan_e rs l (Some (pp_v b)) in
  if ers_geb rs (pp_hi b) then
    ((if nv_neq (pp_v b) pv0 || is_nil l then [(pp_lo b, pp_v b)] else []) ++ res', keep last' (Some (pp_lo b, pp_v b)), np')
  else if ers_in rs (pp_lo b) (pp_hi b) then
    match rs with
    | ET z => ((if nv_neq (pp_v b) pv0 || is_nil l then [(pp_lo b, pp_v b)] else []) ++ res', keep last' (Some (z, pp_v b)), (z, pp_hi b, pp_v b) :: np')
    | ENeg => ((if nv_neq (pp_v b) pv0 || is_nil l then [(pp_lo b, pp_v b)] else []) ++ res', keep last' (Some (pp_lo b, pp_v b)), np')
    end
  else (res', last', b :: np').
Proof. reflexivity. Qed.

Lemma w_scan_ok rs n : forall l k last prev res sp, (k + length l)%nat = n ->
  option_map (fun '(last, prev, res, sp) => (last, res, sp))
    (py_for (combine (map Z.of_nat (seq k (length l))) l) (w_scan_body rs (Z.of_nat n)) (last, prev, res, sp)) =
  let sc := scan_e (xs_abs rs) l prev in Some (keep (snd (fst sc)) last, res ++ fst (fst sc), sp ++ snd sc).
Proof.
  cbv zeta.
  induction l as [|b l IH]; intros k last prev res sp Hn.
  - cbn. rewrite !app_nil_r. reflexivity.
  - rewrite scan_e_cons. cbn [length seq map combine py_for].
    assert (Ei : (Z.of_nat k =? Z.of_nat n - 1) = is_nil l).
    { destruct l as [|b' l']; cbn [length is_nil] in *.
      - apply Z.eqb_eq. lia.
      - apply Z.eqb_neq. lia. }
    specialize (IH (S k)).
    assert (Hn' : (S k + length l)%nat = n) by (cbn [length] in Hn; lia).
    destruct (scan_e (xs_abs rs) l (Some (pp_v b))) as [[res' last'] np'] eqn:Es.
    unfold w_scan_body at 1. unfold w_emit. rewrite Ei. unfold os_get.
    generalize (nv_neq (pp_v b) prev || is_nil l). intro emit.
    destruct rs as [|z|]; cbn [xs_abs] in Es, IH; cbn [xs_ltb xs_eqb xs_abs ers_geb ers_in orb andb xs_get].
    + (* XNeg *)
      etransitivity; [apply IH; exact Hn'|]. rewrite Es. cbn [fst snd].
      rewrite <- app_assoc. reflexivity.
    + (* XFin z *)
      unfold tle. rewrite tz_le2.
      destruct (negb (tlt z (pp_hi b))) eqn:E1.
      * destruct emit.
        -- etransitivity; [apply IH; exact Hn'|]. rewrite Es. cbn [fst snd].
           rewrite <- app_assoc. destruct last'; reflexivity.
        -- etransitivity; [apply IH; exact Hn'|]. rewrite Es. cbn [fst snd].
           destruct last'; reflexivity.
      * rewrite tz_le1.
        destruct (negb (tlt z (pp_lo b)) && tlt z (pp_hi b)) eqn:E2.
        -- apply andb_prop in E2. destruct E2 as [E2 E3].
           rewrite tz_le2, E2.
           destruct emit.
           ++ etransitivity; [apply IH; exact Hn'|]. rewrite Es. cbn [fst snd].
              rewrite <- !app_assoc. destruct last'; reflexivity.
           ++ etransitivity; [apply IH; exact Hn'|]. rewrite Es. cbn [fst snd].
              rewrite <- !app_assoc. destruct last'; reflexivity.
        -- etransitivity; [apply IH; exact Hn'|]. rewrite Es. cbn [fst snd].
           rewrite <- app_assoc. reflexivity.
    + (* XPos *)
      unfold tle. cbn [tlt negb].
      destruct emit.
      * etransitivity; [apply IH; exact Hn'|]. rewrite Es. cbn [fst snd].
        rewrite <- app_assoc. destruct last'; reflexivity.
      * etransitivity; [apply IH; exact Hn'|]. rewrite Es. cbn [fst snd].
        destruct last'; reflexivity.
Qed.

Lemma w_addlast_ok res last : w_addlast res last = Some (add_last_e res last).
Proof.
  unfold w_addlast, add_last_e, os_truthy, os_get. destruct last as [la|]; [|reflexivity].
  rewrite py_get_m1, py_truthy_rev.
  destruct (rev res) as [|[tr vr] rr] eqn:E.
  { apply rev_nil_eq in E. subst res. reflexivity. }
  cbn [negb fst]. destruct (tlt tr (fst la)); reflexivity.
Qed.

Lemma w_started_ok sample started :
  w_started sample started = Some (started || match sample with [] => false | _ => true end).
Proof. unfold w_started. destruct sample; cbn [py_truthy]; [rewrite orb_false_r|rewrite orb_true_r]; reflexivity. Qed.

(* ---- the method ---- *)
Lemma win_core_ok {R : Type} (st : wstate_e) prev rs b e started sample0 (k : list piece -> xst -> bool -> esig -> option R) :
  win_wf_weak rs started ->
  st = {| we_prev := prev; we_rs := xs_abs rs; we_started := started; we_begin := b; we_end := e |} ->
  win_core prev rs b e started sample0 k =
  let sample := drop_repeat_e st sample0 in
  match win_update_e lt pad st sample0 with
  | None => None
  | Some (st', o) => k (we_prev st') (new_xs rs sample) (we_started st') o
  end.
Proof.
  intros Hwf Est. subst st. unfold win_core.
  pose proof (w_cond_drop_ok {| we_prev := prev; we_rs := xs_abs rs; we_started := started; we_begin := b; we_end := e |}
                started rs sample0 Hwf eq_refl eq_refl) as Hd.
  destruct (w_cond started rs sample0) as [t2|]; [|discriminate Hd].
  rewrite Hd. unfold win_update_e. cbv zeta. cbn [we_prev we_rs we_started we_begin we_end].
  set (sample := drop_repeat_e _ sample0).
  rewrite w_ext_ok, w_loop_ok, rev_involutive.
  match goal with |- context [loop_res _ ?p] => set (P := p) end.
  match goal with |- _ = match (match ?q with Some _ => _ | None => _ end) with Some _ => _ | None => _ end => change q with P end.
  clearbody P. destruct P as [out|]; [|reflexivity].
  cbn [loop_res]. rewrite w_started_ok.
  pose proof (w_scan_ok (new_xs rs sample) (length (rev out)) (rev out) 0 None None [] [] eq_refl) as Hs.
  unfold py_enumerate, py_len. rewrite new_xs_abs in Hs. cbv zeta in Hs.
  match type of Hs with option_map _ ?x = _ => set (X := x) in Hs end.
  match goal with |- match ?y with Some _ => _ | None => _ end = _ => change y with X end.
  match goal with |- _ = match (match ?s with pair _ _ => _ end) with Some _ => _ | None => _ end => set (S := s) end.
  match type of Hs with context [scan_e ?a1 ?a2 ?a3] => change (scan_e a1 a2 a3) with S in Hs end.
  clearbody X S. destruct X as [[[[last1 prev1] res1] sp1]|]; cbn [option_map] in Hs; [|discriminate Hs].
  destruct S as [[res' last'] np']. cbn [fst snd] in Hs.
  injection Hs as E1 E2 E3. subst last1 res1 sp1. cbn [app].
  rewrite w_addlast_ok. cbn [we_prev we_started].
  destruct last'; reflexivity.
Qed.

End Core.

(* ================================================================== *)
(* the two classes                                                     *)
(* ================================================================== *)
Definition OnceTimed_abs (st : OnceTimed_state tz) : wstate_e :=
  {| we_prev := OnceTimed_prev st; we_rs := xs_abs (OnceTimed_residual_start st); we_started := OnceTimed_started st;
     we_begin := OnceTimed_begin st; we_end := OnceTimed_end st |}.
Definition HistoricallyTimed_abs (st : HistoricallyTimed_state tz) : wstate_e :=
  {| we_prev := HistoricallyTimed_prev st; we_rs := xs_abs (HistoricallyTimed_residual_start st); we_started := HistoricallyTimed_started st;
     we_begin := HistoricallyTimed_begin st; we_end := HistoricallyTimed_end st |}.

(* the generated text IS win_core (by computation) *)
Lemma gen_OnceTimed_update_core st s :
  gen_OnceTimed_update AR tz tlt teq tadd (T 0) st s =
  win_core ltb bot (OnceTimed_prev st) (OnceTimed_residual_start st) (OnceTimed_begin st) (OnceTimed_end st) (OnceTimed_started st) s
    (fun np rs started res => Some (mk_OnceTimed_state np rs (OnceTimed_max st) (OnceTimed_begin st) (OnceTimed_end st) started, res)).
Proof. reflexivity. Qed.

Lemma gen_HistoricallyTimed_update_core st s :
  gen_HistoricallyTimed_update AR tz tlt teq tadd (T 0) st s =
  win_core (fun x y => ltb y x) top (HistoricallyTimed_prev st) (HistoricallyTimed_residual_start st) (HistoricallyTimed_begin st)
    (HistoricallyTimed_end st) (HistoricallyTimed_started st) s
    (fun np rs started res =>
       Some (mk_HistoricallyTimed_state np rs (HistoricallyTimed_max st) (HistoricallyTimed_begin st) (HistoricallyTimed_end st) started, res)).
Proof. reflexivity. Qed.


(* ---- what win_update_e does to the fields it only copies ---- *)
Definition nonempty {A : Type} (l : list A) : bool := match l with [] => false | _ => true end.

Lemma win_update_e_fields lt pad st s st' o : win_update_e lt pad st s = Some (st', o) ->
  we_rs st' = new_rs_e (we_rs st) (drop_repeat_e st s) /\ we_started st' = we_started st || nonempty (drop_repeat_e st s) /\
  we_begin st' = we_begin st /\ we_end st' = we_end st.
Proof.
  unfold win_update_e. destruct (push_all_e lt _ _) as [out|]; [|discriminate].
  destruct (scan_e _ _ _) as [[res last] np]. intro H. injection H as H1 H2. subst st'. cbn. repeat split; reflexivity.
Qed.

Lemma new_xs_wf rs started sample : win_wf rs started -> win_wf (new_xs rs sample) (started || nonempty sample).
Proof.
  unfold win_wf, new_xs. intros H E. destruct sample as [|x r].
  - cbn [rev]. apply H. cbn [nonempty] in E. rewrite orb_false_r in E. exact E.
  - destruct (rev (x :: r)) as [|[tn vn] rr] eqn:Er.
    + apply rev_nil_eq in Er. discriminate.
    + exists tn. reflexivity.
Qed.

Lemma new_xs_wf_weak rs started sample : win_wf_weak rs started -> win_wf_weak (new_xs rs sample) (started || nonempty sample).
Proof.
  unfold win_wf_weak, new_xs. intros H E. destruct sample as [|x r].
  - cbn [rev]. apply H. cbn [nonempty] in E. rewrite orb_false_r in E. exact E.
  - destruct (rev (x :: r)) as [|[tn vn] rr] eqn:Er.
    + apply rev_nil_eq in Er. discriminate.
    + discriminate.
Qed.

(* ---------------- once_timed_operation.py ---------------- *)
Lemma gen_OnceTimed_update_shape st s st' o :
  win_wf_weak (OnceTimed_residual_start st) (OnceTimed_started st) ->
  gen_OnceTimed_update AR tz tlt teq tadd (T 0) st s = Some (st', o) ->
  let sample := drop_repeat_e (OnceTimed_abs st) s in
  OnceTimed_residual_start st' = new_xs (OnceTimed_residual_start st) sample /\
  OnceTimed_started st' = OnceTimed_started st || nonempty sample /\
  OnceTimed_max st' = OnceTimed_max st /\ OnceTimed_begin st' = OnceTimed_begin st /\ OnceTimed_end st' = OnceTimed_end st.
Proof.
  intros Hwf. rewrite gen_OnceTimed_update_core, (win_core_ok ltb bot (OnceTimed_abs st) _ _ _ _ _ _ _ Hwf eq_refl). cbv zeta.
  destruct (win_update_e ltb bot (OnceTimed_abs st) s) as [[st'' o']|] eqn:E; [|discriminate].
  apply win_update_e_fields in E. destruct E as (E1 & E2 & E3 & E4).
  intro H. injection H as H1 H2. subst st'. cbn. rewrite E2. repeat split; reflexivity.
Qed.

Theorem gen_OnceTimed_update_ok_weak st s :
  win_wf_weak (OnceTimed_residual_start st) (OnceTimed_started st) ->
  option_map (fun p => (OnceTimed_abs (fst p), snd p)) (gen_OnceTimed_update AR tz tlt teq tadd (T 0) st s) =
  once_timed_update_e (OnceTimed_abs st) s.
Proof.
  intros Hwf. rewrite gen_OnceTimed_update_core, (win_core_ok ltb bot (OnceTimed_abs st) _ _ _ _ _ _ _ Hwf eq_refl). cbv zeta.
  unfold once_timed_update_e.
  destruct (win_update_e ltb bot (OnceTimed_abs st) s) as [[st'' o']|] eqn:E; [|reflexivity].
  apply win_update_e_fields in E. destruct E as (E1 & E2 & E3 & E4).
  cbn [option_map fst snd]. unfold OnceTimed_abs at 1.
  cbn [OnceTimed_prev OnceTimed_residual_start OnceTimed_started OnceTimed_begin OnceTimed_end].
  rewrite new_xs_abs. destruct st'' as [p1 r1 s1 b1 e1]. cbn in *. subst. reflexivity.
Qed.

Theorem gen_OnceTimed_update_ok : forall st s, win_wf (OnceTimed_residual_start st) (OnceTimed_started st) ->
  option_map (fun p => (OnceTimed_abs (fst p), snd p)) (gen_OnceTimed_update AR tz tlt teq tadd (T 0) st s) =
  once_timed_update_e (OnceTimed_abs st) s.
Proof. intros st s Hwf. apply gen_OnceTimed_update_ok_weak, win_wf_weaken, Hwf. Qed.

Lemma gen_OnceTimed_update_wf st s st' o : win_wf (OnceTimed_residual_start st) (OnceTimed_started st) ->
  gen_OnceTimed_update AR tz tlt teq tadd (T 0) st s = Some (st', o) ->
  win_wf (OnceTimed_residual_start st') (OnceTimed_started st').
Proof.
  intros Hwf H. destruct (gen_OnceTimed_update_shape st s st' o (win_wf_weaken _ _ Hwf) H) as (E1 & E2 & _).
  rewrite E1, E2. apply new_xs_wf, Hwf.
Qed.

Lemma gen_OnceTimed_update_wf_weak st s st' o : win_wf_weak (OnceTimed_residual_start st) (OnceTimed_started st) ->
  gen_OnceTimed_update AR tz tlt teq tadd (T 0) st s = Some (st', o) ->
  win_wf_weak (OnceTimed_residual_start st') (OnceTimed_started st').
Proof.
  intros Hwf H. destruct (gen_OnceTimed_update_shape st s st' o Hwf H) as (E1 & E2 & _).
  rewrite E1, E2. apply new_xs_wf_weak, Hwf.
Qed.

Lemma gen_OnceTimed_update_frame st s st' o : win_wf (OnceTimed_residual_start st) (OnceTimed_started st) ->
  gen_OnceTimed_update AR tz tlt teq tadd (T 0) st s = Some (st', o) ->
  OnceTimed_max st' = OnceTimed_max st /\ OnceTimed_begin st' = OnceTimed_begin st /\ OnceTimed_end st' = OnceTimed_end st.
Proof.
  intros Hwf H. destruct (gen_OnceTimed_update_shape st s st' o (win_wf_weaken _ _ Hwf) H) as (_ & _ & E). exact E.
Qed.

Lemma OnceTimed_init_wf b e : win_wf (OnceTimed_residual_start (OnceTimed_init tz b e)) (OnceTimed_started (OnceTimed_init tz b e)).
Proof. intro H. discriminate H. Qed.
Lemma OnceTimed_init_abs b e : OnceTimed_abs (OnceTimed_init tz b e) = owin_init_e b e.
Proof. reflexivity. Qed.

(* ---------------- historically_timed_operation.py ---------------- *)
Lemma gen_HistoricallyTimed_update_shape st s st' o :
  win_wf_weak (HistoricallyTimed_residual_start st) (HistoricallyTimed_started st) ->
  gen_HistoricallyTimed_update AR tz tlt teq tadd (T 0) st s = Some (st', o) ->
  let sample := drop_repeat_e (HistoricallyTimed_abs st) s in
  HistoricallyTimed_residual_start st' = new_xs (HistoricallyTimed_residual_start st) sample /\
  HistoricallyTimed_started st' = HistoricallyTimed_started st || nonempty sample /\
  HistoricallyTimed_max st' = HistoricallyTimed_max st /\ HistoricallyTimed_begin st' = HistoricallyTimed_begin st /\
  HistoricallyTimed_end st' = HistoricallyTimed_end st.
Proof.
  intros Hwf.
  rewrite gen_HistoricallyTimed_update_core, (win_core_ok (fun x y => ltb y x) top (HistoricallyTimed_abs st) _ _ _ _ _ _ _ Hwf eq_refl). cbv zeta.
  destruct (win_update_e (fun x y => ltb y x) top (HistoricallyTimed_abs st) s) as [[st'' o']|] eqn:E; [|discriminate].
  apply win_update_e_fields in E. destruct E as (E1 & E2 & E3 & E4).
  intro H. injection H as H1 H2. subst st'. cbn. rewrite E2. repeat split; reflexivity.
Qed.

Theorem gen_HistoricallyTimed_update_ok_weak st s :
  win_wf_weak (HistoricallyTimed_residual_start st) (HistoricallyTimed_started st) ->
  option_map (fun p => (HistoricallyTimed_abs (fst p), snd p)) (gen_HistoricallyTimed_update AR tz tlt teq tadd (T 0) st s) =
  hist_timed_update_e (HistoricallyTimed_abs st) s.
Proof.
  intros Hwf.
  rewrite gen_HistoricallyTimed_update_core, (win_core_ok (fun x y => ltb y x) top (HistoricallyTimed_abs st) _ _ _ _ _ _ _ Hwf eq_refl). cbv zeta.
  unfold hist_timed_update_e.
  destruct (win_update_e (fun x y => ltb y x) top (HistoricallyTimed_abs st) s) as [[st'' o']|] eqn:E; [|reflexivity].
  apply win_update_e_fields in E. destruct E as (E1 & E2 & E3 & E4).
  cbn [option_map fst snd]. unfold HistoricallyTimed_abs at 1.
  cbn [HistoricallyTimed_prev HistoricallyTimed_residual_start HistoricallyTimed_started HistoricallyTimed_begin HistoricallyTimed_end].
  rewrite new_xs_abs. destruct st'' as [p1 r1 s1 b1 e1]. cbn in *. subst. reflexivity.
Qed.

Theorem gen_HistoricallyTimed_update_ok : forall st s, win_wf (HistoricallyTimed_residual_start st) (HistoricallyTimed_started st) ->
  option_map (fun p => (HistoricallyTimed_abs (fst p), snd p)) (gen_HistoricallyTimed_update AR tz tlt teq tadd (T 0) st s) =
  hist_timed_update_e (HistoricallyTimed_abs st) s.
Proof. intros st s Hwf. apply gen_HistoricallyTimed_update_ok_weak, win_wf_weaken, Hwf. Qed.

Lemma gen_HistoricallyTimed_update_wf st s st' o : win_wf (HistoricallyTimed_residual_start st) (HistoricallyTimed_started st) ->
  gen_HistoricallyTimed_update AR tz tlt teq tadd (T 0) st s = Some (st', o) ->
  win_wf (HistoricallyTimed_residual_start st') (HistoricallyTimed_started st').
Proof.
  intros Hwf H. destruct (gen_HistoricallyTimed_update_shape st s st' o (win_wf_weaken _ _ Hwf) H) as (E1 & E2 & _).
  rewrite E1, E2. apply new_xs_wf, Hwf.
Qed.

Lemma gen_HistoricallyTimed_update_wf_weak st s st' o :
  win_wf_weak (HistoricallyTimed_residual_start st) (HistoricallyTimed_started st) ->
  gen_HistoricallyTimed_update AR tz tlt teq tadd (T 0) st s = Some (st', o) ->
  win_wf_weak (HistoricallyTimed_residual_start st') (HistoricallyTimed_started st').
Proof.
  intros Hwf H. destruct (gen_HistoricallyTimed_update_shape st s st' o Hwf H) as (E1 & E2 & _).
  rewrite E1, E2. apply new_xs_wf_weak, Hwf.
Qed.

Lemma gen_HistoricallyTimed_update_frame st s st' o : win_wf (HistoricallyTimed_residual_start st) (HistoricallyTimed_started st) ->
  gen_HistoricallyTimed_update AR tz tlt teq tadd (T 0) st s = Some (st', o) ->
  HistoricallyTimed_max st' = HistoricallyTimed_max st /\ HistoricallyTimed_begin st' = HistoricallyTimed_begin st /\
  HistoricallyTimed_end st' = HistoricallyTimed_end st.
Proof.
  intros Hwf H. destruct (gen_HistoricallyTimed_update_shape st s st' o (win_wf_weaken _ _ Hwf) H) as (_ & _ & E). exact E.
Qed.

Lemma HistoricallyTimed_init_wf b e :
  win_wf (HistoricallyTimed_residual_start (HistoricallyTimed_init tz b e)) (HistoricallyTimed_started (HistoricallyTimed_init tz b e)).
Proof. intro H. discriminate H. Qed.
Lemma HistoricallyTimed_init_abs b e : HistoricallyTimed_abs (HistoricallyTimed_init tz b e) = hwin_init_e b e.
Proof. reflexivity. Qed.

(* the precondition cannot be dropped: a started historically whose residual_start is still float("inf") keeps a first sample
   stamped inf (Python: inf == inf is only asked between a stamp and the attribute), the hand model drops it *)
Lemma win_wf_needed (v : V) :
  let st := mk_HistoricallyTimed_state [] XPos XPos 0 0 true in
  option_map (fun p => (HistoricallyTimed_abs (fst p), snd p)) (gen_HistoricallyTimed_update AR tz tlt teq tadd (T 0) st [(TInf, v)]) <>
  hist_timed_update_e (HistoricallyTimed_abs st) [(TInf, v)].
Proof. cbv zeta. intro H. vm_compute in H. discriminate H. Qed.

(* ================================================================== *)
(* summary                                                             *)
(* ================================================================== *)
Theorem dense_online_gen_win_refines :
  (* once_timed_operation.py *)
  (forall st s, win_wf (OnceTimed_residual_start st) (OnceTimed_started st) ->
     option_map (fun p => (OnceTimed_abs (fst p), snd p)) (gen_OnceTimed_update AR tz tlt teq tadd (T 0) st s) =
     once_timed_update_e (OnceTimed_abs st) s) /\
  (forall b e, OnceTimed_abs (OnceTimed_init tz b e) = owin_init_e b e) /\
  (forall b e, win_wf (OnceTimed_residual_start (OnceTimed_init tz b e)) (OnceTimed_started (OnceTimed_init tz b e))) /\
  (forall st s st' o, win_wf (OnceTimed_residual_start st) (OnceTimed_started st) ->
     gen_OnceTimed_update AR tz tlt teq tadd (T 0) st s = Some (st', o) ->
     win_wf (OnceTimed_residual_start st') (OnceTimed_started st') /\
     OnceTimed_max st' = OnceTimed_max st /\ OnceTimed_begin st' = OnceTimed_begin st /\ OnceTimed_end st' = OnceTimed_end st) /\
  (* historically_timed_operation.py *)
  (forall st s, win_wf (HistoricallyTimed_residual_start st) (HistoricallyTimed_started st) ->
     option_map (fun p => (HistoricallyTimed_abs (fst p), snd p)) (gen_HistoricallyTimed_update AR tz tlt teq tadd (T 0) st s) =
     hist_timed_update_e (HistoricallyTimed_abs st) s) /\
  (forall b e, HistoricallyTimed_abs (HistoricallyTimed_init tz b e) = hwin_init_e b e) /\
  (forall b e, win_wf (HistoricallyTimed_residual_start (HistoricallyTimed_init tz b e)) (HistoricallyTimed_started (HistoricallyTimed_init tz b e))) /\
  (forall st s st' o, win_wf (HistoricallyTimed_residual_start st) (HistoricallyTimed_started st) ->
     gen_HistoricallyTimed_update AR tz tlt teq tadd (T 0) st s = Some (st', o) ->
     win_wf (HistoricallyTimed_residual_start st') (HistoricallyTimed_started st') /\
     HistoricallyTimed_max st' = HistoricallyTimed_max st /\ HistoricallyTimed_begin st' = HistoricallyTimed_begin st /\
     HistoricallyTimed_end st' = HistoricallyTimed_end st).
Proof.
  split; [exact gen_OnceTimed_update_ok|].
  split; [exact OnceTimed_init_abs|].
  split; [exact OnceTimed_init_wf|].
  split.
  { intros st s st' o Hwf H. split; [exact (gen_OnceTimed_update_wf st s st' o Hwf H)|exact (gen_OnceTimed_update_frame st s st' o Hwf H)]. }
  split; [exact gen_HistoricallyTimed_update_ok|].
  split; [exact HistoricallyTimed_init_abs|].
  split; [exact HistoricallyTimed_init_wf|].
  intros st s st' o Hwf H.
  split; [exact (gen_HistoricallyTimed_update_wf st s st' o Hwf H)|exact (gen_HistoricallyTimed_update_frame st s st' o Hwf H)].
Qed.

End Win.

Print Assumptions dense_online_gen_win_refines.

(* ================================================================== *)
(* since[a,b] on the stamps tz, and the summary for C05                *)
(* ================================================================== *)
Section SinceTimedE.
Context {VS : Val} (AR : Arith VS).

Definition PO_e (st : OnceTimed_state tz) : Prop := win_wf (OnceTimed_residual_start st) (OnceTimed_started st).
Definition PH_e (st : HistoricallyTimed_state tz) : Prop := win_wf (HistoricallyTimed_residual_start st) (HistoricallyTimed_started st).
Definition SinceTimed_abs_e : SinceTimed_state tz -> @ststate VS tz (@wstate_e VS) := SinceTimed_abs tz (@wstate_e VS) OnceTimed_abs HistoricallyTimed_abs.
Definition SinceTimed_wf (st : SinceTimed_state tz) : Prop := PO_e (SinceTimed_once st) /\ PH_e (SinceTimed_hist st).

(* since_timed_operation.py on tz = the hand model since_timed_update_g over the hand models of the two bounded operations
   (DenseOnlineMon.since_timed_E) *)
Theorem gen_SinceTimed_update_ok_e st l r : SinceTimed_wf st ->
  option_map (fun p => (SinceTimed_abs_e (fst p), snd p)) (gen_SinceTimed_update AR tz tlt teq tadd (T 0) st l r)
  = since_timed_update_g tz tlt teq (@wstate_e VS) once_timed_update_e hist_timed_update_e (SinceTimed_abs_e st) l r.
Proof.
  intros [HO HH].
  apply (gen_SinceTimed_update_ok AR tz tlt teq tadd (T 0) (@wstate_e VS) once_timed_update_e hist_timed_update_e
           OnceTimed_abs HistoricallyTimed_abs PO_e PH_e); [| |exact HO|exact HH].
  - intros s0 x H0. apply (gen_OnceTimed_update_ok AR s0 x H0).
  - intros s0 x H0. apply (gen_HistoricallyTimed_update_ok AR s0 x H0).
Qed.

Lemma gen_SinceTimed_update_wf st l r st' o : SinceTimed_wf st ->
  gen_SinceTimed_update AR tz tlt teq tadd (T 0) st l r = Some (st', o) -> SinceTimed_wf st'.
Proof.
  intros [HO HH]. unfold gen_SinceTimed_update. cbv zeta.
  destruct (gen_OnceTimed_update AR tz tlt teq tadd (T 0) (SinceTimed_once st) r) as [[once' out1]|] eqn:E1; [|discriminate].
  destruct (gen_Since_update AR tz tlt teq (SinceTimed_since st) l r) as [[since' out2]|]; [|discriminate].
  destruct (gen_HistoricallyTimed_update AR tz tlt teq tadd (T 0) (SinceTimed_hist st) out2) as [[hist' out3]|] eqn:E3; [|discriminate].
  destruct (gen_And_update AR tz tlt teq (SinceTimed_andop st) out1 out3) as [[and' res]|]; [|discriminate].
  intros E. injection E as <- _. split; cbn [SinceTimed_once SinceTimed_hist].
  - exact (gen_OnceTimed_update_wf AR _ _ _ _ HO E1).
  - exact (gen_HistoricallyTimed_update_wf AR _ _ _ _ HH E3).
Qed.

Lemma SinceTimed_init_wf b e : SinceTimed_wf (SinceTimed_init tz b e).
Proof. split; intro H; discriminate H. Qed.
Lemma SinceTimed_init_abs b e :
  SinceTimed_abs_e (SinceTimed_init tz b e) = st_init (hwin_init_e 0 b) (owin_init_e b e).
Proof. reflexivity. Qed.
End SinceTimedE.

(* The bounded operations, as GENERATED from the Python text, on the stamps tz = Z + inf (the instance the hand-written monitor
   DenseOnlineMon runs on closed operands and, through lift / unlift, on all others: DenseOnlineMonMore.win_e_lift): in every state that
   satisfies the invariant [win_wf] (true of a fresh object, preserved by update: the reachable states), every batch: the generated update
   is the hand model (None = an exception on both sides). *)
Theorem dense_online_gen_bounded_refines :
  forall (VS : Val) (AR : Arith VS),
  (* once[a,b] *)
  (forall st s, PO_e st ->
     option_map (fun p => (OnceTimed_abs (fst p), snd p)) (gen_OnceTimed_update AR tz tlt teq tadd (T 0) st s) = once_timed_update_e (OnceTimed_abs st) s) /\
  (forall b e, OnceTimed_abs (OnceTimed_init tz b e) = owin_init_e b e /\ PO_e (OnceTimed_init tz b e)) /\
  (forall st s st' o, PO_e st -> gen_OnceTimed_update AR tz tlt teq tadd (T 0) st s = Some (st', o) -> PO_e st') /\
  (* historically[a,b] *)
  (forall st s, PH_e st ->
     option_map (fun p => (HistoricallyTimed_abs (fst p), snd p)) (gen_HistoricallyTimed_update AR tz tlt teq tadd (T 0) st s)
     = hist_timed_update_e (HistoricallyTimed_abs st) s) /\
  (forall b e, HistoricallyTimed_abs (HistoricallyTimed_init tz b e) = hwin_init_e b e /\ PH_e (HistoricallyTimed_init tz b e)) /\
  (forall st s st' o, PH_e st -> gen_HistoricallyTimed_update AR tz tlt teq tadd (T 0) st s = Some (st', o) -> PH_e st') /\
  (* since[a,b] *)
  (forall st l r, SinceTimed_wf st ->
     option_map (fun p => (SinceTimed_abs_e (fst p), snd p)) (gen_SinceTimed_update AR tz tlt teq tadd (T 0) st l r)
     = since_timed_update_g tz tlt teq (@wstate_e VS) once_timed_update_e hist_timed_update_e (SinceTimed_abs_e st) l r) /\
  (forall b e, SinceTimed_abs_e (SinceTimed_init tz b e) = st_init (hwin_init_e 0 b) (owin_init_e b e) /\ SinceTimed_wf (SinceTimed_init tz b e)) /\
  (forall st l r st' o, SinceTimed_wf st -> gen_SinceTimed_update AR tz tlt teq tadd (T 0) st l r = Some (st', o) -> SinceTimed_wf st') /\
  (* constant *)
  (forall st, gen_Constant_update AR tz tlt teq (T 0) TInf st =
     match const_update (Constant_abs st) tt with None => None | Some (st', o) => Some (Constant_conc st', o) end) /\
  (forall c, Constant_abs (Constant_init tz c) = const_init c).
Proof.
  intros VS AR. repeat match goal with |- _ /\ _ => split end.
  - intros st s H. apply (gen_OnceTimed_update_ok AR st s H).
  - intros b e. split; [apply OnceTimed_init_abs|apply OnceTimed_init_wf].
  - intros st s st' o H E. exact (gen_OnceTimed_update_wf AR _ _ _ _ H E).
  - intros st s H. apply (gen_HistoricallyTimed_update_ok AR st s H).
  - intros b e. split; [apply HistoricallyTimed_init_abs|apply HistoricallyTimed_init_wf].
  - intros st s st' o H E. exact (gen_HistoricallyTimed_update_wf AR _ _ _ _ H E).
  - intros st l r H. apply (gen_SinceTimed_update_ok_e AR st l r H).
  - intros b e. split; [apply SinceTimed_init_abs|apply SinceTimed_init_wf].
  - intros st l r st' o H E. exact (gen_SinceTimed_update_wf AR _ _ _ _ _ H E).
  - intros st. apply gen_Constant_update_ok.
  - intros c. reflexivity.
Qed.
Print Assumptions dense_online_gen_bounded_refines.
