(* Syntax.v — core formulas: bounds are already sample counts (what
   time_unit_transformer returns); variables are indices into the data set. *)
From Coq Require Import List Bool Arith Lia.
From RV Require Import Val.
Import ListNotations.

Inductive cmp := CLeq | CLt | CGeq | CGt | CEq | CNeq.

Section Syntax.
Context {VS : Val}.

Inductive formula :=
| Var (x : nat)
| Const (c : V)
| A1 (o : aop1) (f : formula)
| A2 (o : aop2) (f g : formula)
| Pred (c : cmp) (f g : formula)
| Not (f : formula)
| And (f g : formula) | Or (f g : formula) | Implies (f g : formula)
| Iff (f g : formula) | Xor (f g : formula)
| Rise (f : formula) | Fall (f : formula)
| Prev (f : formula) | SPrev (f : formula)
| Next (f : formula) | SNext (f : formula)
| Once (f : formula) | Hist (f : formula) | Since (f g : formula)
| Ev (f : formula) | Alw (f : formula) | Until (f g : formula)
| OnceT (b e : nat) (f : formula) | HistT (b e : nat) (f : formula)
| SinceT (b e : nat) (f g : formula)
| EvT (b e : nat) (f : formula) | AlwT (b e : nat) (f : formula)
| UntilT (b e : nat) (f g : formula)
| Precedes (b e : nat) (f g : formula).

(* every interval has begin <= end (what the parser guarantees after the
   interval check) *)
Fixpoint wf_bounds (p : formula) : bool :=
  match p with
  | Var _ | Const _ => true
  | A1 _ f | Not f | Rise f | Fall f | Prev f | SPrev f | Next f | SNext f
  | Once f | Hist f | Ev f | Alw f => wf_bounds f
  | A2 _ f g | Pred _ f g | And f g | Or f g | Implies f g | Iff f g | Xor f g
  | Since f g | Until f g => wf_bounds f && wf_bounds g
  | OnceT b e f | HistT b e f | EvT b e f | AlwT b e f => (b <=? e) && wf_bounds f
  | SinceT b e f g | UntilT b e f g | Precedes b e f g => (b <=? e) && wf_bounds f && wf_bounds g
  end.

(* largest variable index + 1 *)
Fixpoint nvars (p : formula) : nat :=
  match p with
  | Var x => S x
  | Const _ => 0
  | A1 _ f | Not f | Rise f | Fall f | Prev f | SPrev f | Next f | SNext f
  | Once f | Hist f | Ev f | Alw f
  | OnceT _ _ f | HistT _ _ f | EvT _ _ f | AlwT _ _ f => nvars f
  | A2 _ f g | Pred _ f g | And f g | Or f g | Implies f g | Iff f g | Xor f g
  | Since f g | Until f g
  | SinceT _ _ f g | UntilT _ _ f g | Precedes _ _ f g => Nat.max (nvars f) (nvars g)
  end.

(* no future operator at all (what the online monitors accept) *)
Fixpoint past_only (p : formula) : bool :=
  match p with
  | Var _ | Const _ => true
  | A1 _ f | Not f | Rise f | Fall f | Prev f | SPrev f
  | Once f | Hist f | OnceT _ _ f | HistT _ _ f => past_only f
  | A2 _ f g | Pred _ f g | And f g | Or f g | Implies f g | Iff f g | Xor f g
  | Since f g | SinceT _ _ f g | Precedes _ _ f g => past_only f && past_only g
  | Next _ | SNext _ | Ev _ | Alw _ | Until _ _
  | EvT _ _ _ | AlwT _ _ _ | UntilT _ _ _ _ => false
  end.

(* no Precedes node (it is created by the pastifier only) *)
Fixpoint no_precedes (p : formula) : bool :=
  match p with
  | Var _ | Const _ => true
  | A1 _ f | Not f | Rise f | Fall f | Prev f | SPrev f | Next f | SNext f
  | Once f | Hist f | Ev f | Alw f
  | OnceT _ _ f | HistT _ _ f | EvT _ _ f | AlwT _ _ f => no_precedes f
  | A2 _ f g | Pred _ f g | And f g | Or f g | Implies f g | Iff f g | Xor f g
  | Since f g | Until f g
  | SinceT _ _ f g | UntilT _ _ f g => no_precedes f && no_precedes g
  | Precedes _ _ _ _ => false
  end.

(* no unbounded future operator *)
Fixpoint bounded_future (p : formula) : bool :=
  match p with
  | Var _ | Const _ => true
  | A1 _ f | Not f | Rise f | Fall f | Prev f | SPrev f | Next f | SNext f
  | Once f | Hist f
  | OnceT _ _ f | HistT _ _ f | EvT _ _ f | AlwT _ _ f => bounded_future f
  | A2 _ f g | Pred _ f g | And f g | Or f g | Implies f g | Iff f g | Xor f g
  | Since f g
  | SinceT _ _ f g | UntilT _ _ f g | Precedes _ _ f g => bounded_future f && bounded_future g
  | Ev _ | Alw _ | Until _ _ => false
  end.

(* the specification horizon: samples of look-ahead (next counts 1) *)
Fixpoint hor (p : formula) : nat :=
  match p with
  | Var _ | Const _ => 0
  | A1 _ f | Not f | Rise f | Fall f | Prev f | SPrev f
  | Once f | Hist f | OnceT _ _ f | HistT _ _ f => hor f
  | A2 _ f g | Pred _ f g | And f g | Or f g | Implies f g | Iff f g | Xor f g
  | Since f g | SinceT _ _ f g | Precedes _ _ f g => Nat.max (hor f) (hor g)
  | Next f | SNext f => S (hor f)
  | EvT _ e f | AlwT _ e f => hor f + e
  | UntilT _ e f g => Nat.max (hor f) (hor g) + e
  | Ev f | Alw f => hor f
  | Until f g => Nat.max (hor f) (hor g)
  end.

End Syntax.
