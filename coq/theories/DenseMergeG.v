(* DenseMergeG.v — the same merge with an arbitrary result type (since/until merge their operands into pairs) — implementation layer of dense-time offline evaluation: the
   13-case merge of rtamt/semantics/stl/dense_time/offline/intersection.py
   (with its _append) and the point-wise visitors built on it. *)
From Coq Require Import List Bool Arith ZArith Lia.
From RV Require Import Val Syntax Rho Online Dense DenseMerge.
Import ListNotations.
Local Open Scope Z_scope.

Section MergeG.
Context {VS : Val}.
Variable B : Type.
Variable beq : B -> B -> bool.

(* time-stamps extended with +inf (the sample appended for the finitary interpretation) *)
(* tz, tlt, teq, esig, extend, action, decide come from DenseMerge *)
(* _append: drop a sample that repeats the previous value *)
Definition append_g (out : list (tz * B)) (item : tz * B) : list (tz * B) :=
  match rev out with
  | [] => [item]
  | (_, pv) :: _ => if beq pv (snd item) then out else out ++ [item]
  end.

(* None = 'Unexpected case in the intersection' *)
Fixpoint isect_loop_g (fuel : nat) (f : V -> V -> B) (l1 l2 : esig) (out : list (tz * B)) : option (list (tz * B)) :=
  match fuel with
  | O => Some out
  | S fuel' =>
    match l1, l2 with
    | (p1, v1) :: ((c1, _) :: _) as r1, (p2, v2) :: ((c2, _) :: _) as r2 =>
        match decide p1 c1 p2 c2 with
        | Pop1 => isect_loop_g fuel' f r1 l2 out
        | Pop2 => isect_loop_g fuel' f l1 r2 out
        | Emit1 b => isect_loop_g fuel' f r1 l2 (append_g out (if b then p2 else p1, f v1 v2))
        | Emit2 b => isect_loop_g fuel' f l1 r2 (append_g out (if b then p2 else p1, f v1 v2))
        | Bad => None
        end
    | _, _ => Some out
    end
  end.

Definition finite_g (l : list (tz * B)) : list (Z * B) :=
  flat_map (fun p => match fst p with T z => [(z, snd p)] | TInf => [] end) l.

Definition isect_g (f : V -> V -> B) (s1 s2 : dsig) : option (list (Z * B)) :=
  match s1, s2 with
  | [], _ | _, [] => Some []
  | _, _ => option_map finite_g (isect_loop_g (length s1 + length s2 + 2) f (extend s1) (extend s2) [])
  end.

End MergeG.
