(* ParserCorrect.v — soundness of the parser w.r.t. the grammar, parentheses,
   the LTL front end, finite grouping tables, visitor checks. *)
From Coq Require Import List Bool Arith Ascii String Lia.
From RV Require Import Lexer PrecTable Parser Elab Offline.
Import ListNotations.

Section Sound.
Variable stl : bool.

(* intervalTime : literal unit? | Identifier unit? *)
Inductive ItDerives : itime -> list token -> Prop :=
| ItInt s : ItDerives (ILit s None) [TInt s]
| ItReal s : ItDerives (ILit s None) [TReal s]
| ItId s : ItDerives (IId s None) [TId s]
| ItIntU s k : is_unit k = true -> ItDerives (ILit s (Some k)) [TInt s; TKw k]
| ItRealU s k : is_unit k = true -> ItDerives (ILit s (Some k)) [TReal s; TKw k]
| ItIdU s k : is_unit k = true -> ItDerives (IId s (Some k)) [TId s; TKw k].

(* the interval part of a production: absent, or '[' t (':' | ',') t ']' (STL only, where the operator allows one) *)
Inductive IvDerives : bool -> option interval -> list token -> Prop :=
| IvNone ok : IvDerives ok None []
| IvSome a b u1 sep u2 : stl = true -> ItDerives a u1 -> ItDerives b u2 -> (sep = TSym SColon \/ sep = TSym SComma) ->
    IvDerives true (Some (a, b)) (TSym SLBrack :: u1 ++ sep :: u2 ++ [TSym SRBrack]).

(* StlParser.g4 / LtlParser.g4, rule 'expression', as a derivation relation (any parenthesisation) *)
Inductive Derives : sexpr -> list token -> Prop :=
| DId s : Derives (EId s) [TId s]
| DInt s : Derives (ELit s) [TInt s]
| DReal s : Derives (ELit s) [TReal s]
| DParen e ts : Derives e ts -> Derives e (TSym SLParen :: ts ++ [TSym SRParen])
| DFun1 t fn e ts : fun1_of t = Some fn -> Derives e ts ->
    Derives (EFun1 fn e) (t :: TSym SLParen :: ts ++ [TSym SRParen])
| DFun2 t fn e1 ts1 e2 ts2 : fun2_of t = Some fn -> Derives e1 ts1 -> Derives e2 ts2 ->
    Derives (EFun2 fn e1 e2) (t :: TSym SLParen :: ts1 ++ TSym SComma :: ts2 ++ [TSym SRParen])
| DUn t o lvl ivok iv ivts e ts : unop_of t = Some (o, lvl, ivok) -> IvDerives ivok iv ivts -> Derives e ts ->
    Derives (EUn o iv e) (t :: ivts ++ ts)
| DBin t o lvl rl ivok iv ivts e1 ts1 e2 ts2 : binop_of t = Some (o, lvl, rl, ivok) -> IvDerives ivok iv ivts ->
    Derives e1 ts1 -> Derives e2 ts2 -> Derives (EBin o iv e1 e2) (ts1 ++ t :: ivts ++ ts2).

Definition sound_pe (pe : nat -> list token -> option (sexpr * list token)) : Prop :=
  forall lvl ts e r, pe lvl ts = Some (e, r) -> exists used, ts = used ++ r /\ Derives e used.

Lemma parse_itime_sound ts a r : parse_itime ts = Some (a, r) -> exists used, ts = used ++ r /\ ItDerives a used.
Proof.
  unfold parse_itime. destruct ts as [|t ts]; [discriminate|].
  destruct t; try discriminate;
  (destruct ts as [|t2 ts2]; [intros H; injection H as <- <-; eexists [_]; split; [reflexivity|constructor]|]);
  (destruct t2; try (intros H; injection H as <- <-; eexists [_]; split; [reflexivity|constructor]));
  (destruct (is_unit k) eqn:Ek; intros H; injection H as <- <-;
   [eexists [_; _]; split; [reflexivity|constructor; exact Ek]|eexists [_]; split; [reflexivity|constructor]]).
Qed.

Lemma parse_interval_sound ts iv r : stl = true -> parse_interval ts = Some (iv, r) ->
  exists used, ts = used ++ r /\ IvDerives true (Some iv) used.
Proof.
  intros Hstl. unfold parse_interval. destruct ts as [|t ts]; [discriminate|]. destruct t; try discriminate. destruct s; try discriminate.
  destruct (parse_itime ts) as [[a r1]|] eqn:E1; [|discriminate].
  destruct r1 as [|sep r1]; [discriminate|].
  destruct (parse_itime_sound _ _ _ E1) as (u1 & H1 & D1).
  assert (Hcase : forall (H : match parse_itime r1 with
                              | Some (b, TSym SRBrack :: r2) => Some ((a, b), r2)
                              | _ => None end = Some (iv, r)),
            exists b u2, iv = (a, b) /\ r1 = u2 ++ TSym SRBrack :: r /\ ItDerives b u2).
  { intros H. destruct (parse_itime r1) as [[b r2]|] eqn:E2; [|discriminate].
    destruct r2 as [|cl r2]; [discriminate|]. destruct cl; try discriminate. destruct s; try discriminate.
    injection H as <- <-. destruct (parse_itime_sound _ _ _ E2) as (u2 & H2 & D2). exists b, u2. auto. }
  destruct sep; try discriminate. destruct s; try discriminate; intros H; destruct (Hcase H) as (b & u2 & -> & -> & D2);
  (eexists (TSym SLBrack :: u1 ++ _ :: u2 ++ [TSym SRBrack]); split;
   [simpl; f_equal; rewrite H1, <- !app_assoc; simpl; rewrite <- app_assoc; reflexivity
   |constructor; auto]).
Qed.

Lemma opt_interval_sound ok ts iv r : opt_interval stl ok ts = Some (iv, r) ->
  exists used, ts = used ++ r /\ IvDerives ok iv used.
Proof.
  unfold opt_interval. destruct ts as [|t ts'].
  - intros H. injection H as <- <-. exists []. split; [reflexivity|constructor].
  - assert (Hother : t <> TSym SLBrack -> Some (@None interval, t :: ts') = Some (iv, r) ->
                     exists used, t :: ts' = used ++ r /\ IvDerives ok iv used).
    { intros _ H. injection H as <- <-. exists []. split; [reflexivity|constructor]. }
    destruct t; try (apply Hother; discriminate). destruct s; try (apply Hother; discriminate).
    intros H. destruct stl eqn:Es; destruct ok; cbn [andb] in H; try discriminate H.
    revert H. destruct (parse_interval (TSym SLBrack :: ts')) as [[iv' r']|] eqn:E; intros H; [|discriminate H].
    injection H as <- <-. apply parse_interval_sound; [exact Es|exact E].
Qed.

Lemma primary_sound pe ts e r : sound_pe pe -> parse_primary stl pe ts = Some (e, r) ->
  exists used, ts = used ++ r /\ Derives e used.
Proof.
  intros Hpe. unfold parse_primary. destruct ts as [|t ts']; [discriminate|].
  assert (Hgen : match fun1_of t with
      | Some fn => match ts' with
                   | TSym SLParen :: r1 => match pe 0 r1 with Some (e0, TSym SRParen :: r2) => Some (EFun1 fn e0, r2) | _ => None end
                   | _ => None end
      | None => match fun2_of t with
          | Some fn => match ts' with
                       | TSym SLParen :: r1 => match pe 0 r1 with
                            | Some (e1, TSym SComma :: r2) => match pe 0 r2 with Some (e2, TSym SRParen :: r3) => Some (EFun2 fn e1 e2, r3) | _ => None end
                            | _ => None end
                       | _ => None end
          | None => match unop_of t with
              | Some (o, lvl, ivok) => match opt_interval stl ivok ts' with
                    | Some (iv, r1) => match pe lvl r1 with Some (e0, r2) => Some (EUn o iv e0, r2) | None => None end
                    | None => None end
              | None => None end
          end
      end = Some (e, r) -> exists used, t :: ts' = used ++ r /\ Derives e used).
  { destruct (fun1_of t) as [fn|] eqn:F1.
    - destruct ts' as [|t1 r1]; [discriminate|]. destruct t1; try discriminate. destruct s; try discriminate.
      destruct (pe 0 r1) as [[e0 r2]|] eqn:E; [|discriminate]. destruct r2 as [|c r2]; [discriminate|].
      destruct c; try discriminate. destruct s; try discriminate. intros H. injection H as <- <-.
      destruct (Hpe _ _ _ _ E) as (u & Hu & Du). exists (t :: TSym SLParen :: u ++ [TSym SRParen]). split.
      + simpl. rewrite Hu, <- app_assoc. reflexivity.
      + eapply DFun1; eassumption.
    - destruct (fun2_of t) as [fn|] eqn:F2.
      + destruct ts' as [|t1 r1]; [discriminate|]. destruct t1; try discriminate. destruct s; try discriminate.
        destruct (pe 0 r1) as [[e1 r2]|] eqn:E1; [|discriminate]. destruct r2 as [|c r2]; [discriminate|].
        destruct c; try discriminate. destruct s; try discriminate.
        destruct (pe 0 r2) as [[e2 r3]|] eqn:E2; [|discriminate]. destruct r3 as [|c r3]; [discriminate|].
        destruct c; try discriminate. destruct s; try discriminate. intros H. injection H as <- <-.
        destruct (Hpe _ _ _ _ E1) as (u1 & Hu1 & D1). destruct (Hpe _ _ _ _ E2) as (u2 & Hu2 & D2).
        exists (t :: TSym SLParen :: u1 ++ TSym SComma :: u2 ++ [TSym SRParen]). split.
        * simpl. rewrite Hu1, Hu2, <- !app_assoc. simpl. rewrite <- app_assoc. reflexivity.
        * eapply DFun2; eassumption.
      + destruct (unop_of t) as [[[o lvl] ivok]|] eqn:U; [|discriminate].
        destruct (opt_interval stl ivok ts') as [[iv r1]|] eqn:EI; [|discriminate].
        destruct (pe lvl r1) as [[e0 r2]|] eqn:E; [|discriminate]. intros H. injection H as <- <-.
        destruct (opt_interval_sound _ _ _ _ EI) as (ui & Hi & Di). destruct (Hpe _ _ _ _ E) as (u & Hu & Du).
        exists (t :: ui ++ u). split.
        * simpl. rewrite Hi, Hu, <- app_assoc. reflexivity.
        * eapply DUn; eassumption. }
  destruct t; try exact Hgen.
  - (* symbols: only '(' is special *)
    destruct s; try exact Hgen.
    destruct (pe 0 ts') as [[e0 r2]|] eqn:E; [|discriminate]. destruct r2 as [|c r2]; [discriminate|].
    destruct c; try discriminate. destruct s; try discriminate. intros H. injection H as <- <-.
    destruct (Hpe _ _ _ _ E) as (u & Hu & Du). exists (TSym SLParen :: u ++ [TSym SRParen]). split.
    + simpl. rewrite Hu, <- app_assoc. reflexivity.
    + apply DParen. exact Du.
  - intros H. injection H as <- <-. exists [TId s]. split; [reflexivity|constructor].
  - intros H. injection H as <- <-. exists [TInt s]. split; [reflexivity|constructor].
  - intros H. injection H as <- <-. exists [TReal s]. split; [reflexivity|constructor].
Qed.

Lemma loop_sound pe p : sound_pe pe -> forall g lft ts e r used0,
  Derives lft used0 -> parse_loop stl pe p g lft ts = Some (e, r) ->
  exists used, ts = used ++ r /\ Derives e (used0 ++ used).
Proof.
  intros Hpe. induction g as [|g IH]; intros lft ts e r used0 D0; simpl; [discriminate|].
  destruct ts as [|t ts'].
  - intros H. injection H as <- <-. exists []. split; [reflexivity|rewrite app_nil_r; exact D0].
  - assert (Hstop : Some (lft, t :: ts') = Some (e, r) -> exists used, t :: ts' = used ++ r /\ Derives e (used0 ++ used)).
    { intros H. injection H as <- <-. exists []. split; [reflexivity|rewrite app_nil_r; exact D0]. }
    destruct (binop_of t) as [[[[o lvl] rlvl] ivok]|] eqn:B; [|exact Hstop].
    destruct (p <=? lvl); [|exact Hstop].
    destruct (opt_interval stl ivok ts') as [[iv r1]|] eqn:EI; [|discriminate].
    destruct (pe rlvl r1) as [[rgt r2]|] eqn:E; [|discriminate].
    intros H. destruct (opt_interval_sound _ _ _ _ EI) as (ui & Hi & Di). destruct (Hpe _ _ _ _ E) as (u & Hu & Du).
    assert (D1 : Derives (EBin o iv lft rgt) (used0 ++ t :: ui ++ u)) by (eapply DBin; eassumption).
    destruct (IH _ _ _ _ _ D1 H) as (u' & Hu' & Du').
    exists ((t :: ui ++ u) ++ u'). split.
    + simpl. rewrite Hi, Hu, Hu', <- !app_assoc. reflexivity.
    + rewrite app_assoc. exact Du'.
Qed.

(* C14: whatever the parser accepts is derivable from the grammar, and it says exactly which tokens it consumed *)
Theorem parse_expr_sound : forall fuel, sound_pe (parse_expr stl fuel).
Proof.
  induction fuel as [|f IH]; intros p ts e r H; [discriminate H|].
  cbn [parse_expr] in H.
  destruct (parse_primary stl (parse_expr stl f) ts) as [[e0 r0]|] eqn:EP; [|discriminate H].
  destruct (primary_sound _ _ _ _ IH EP) as (u0 & H0 & D0).
  destruct (loop_sound _ p IH _ _ _ _ _ _ D0 H) as (u & Hu & Du).
  exists (u0 ++ u). split; [rewrite H0, Hu, app_assoc; reflexivity|exact Du].
Qed.

End Sound.

(* ---- C15: redundant parentheses, the LTL front end ---- *)

(* a parenthesised expression is a primary that yields the AST of the inner expression *)
Lemma paren_primary stl pe ts e r :
  pe 0 ts = Some (e, TSym SRParen :: r) -> parse_primary stl pe (TSym SLParen :: ts) = Some (e, r).
Proof. intros H. simpl. rewrite H. reflexivity. Qed.

Definition no_brack (ts : list token) : Prop := Forall (fun t => t <> TSym SLBrack) ts.

Lemma opt_interval_ltl ok ts : no_brack ts -> opt_interval false ok ts = opt_interval true ok ts.
Proof.
  intros H. unfold opt_interval. destruct ts as [|t ts']; [reflexivity|].
  inversion H as [|? ? Ht _]; subst. destruct t; try reflexivity. destruct s; try reflexivity. congruence.
Qed.

Lemma no_brack_suffix (u r : list token) : no_brack (u ++ r) -> no_brack r.
Proof. unfold no_brack. rewrite Forall_app. tauto. Qed.

(* on token lists without '[' the LTL grammar and the STL grammar parse alike *)
Theorem ltl_stl_agree : forall fuel p ts, no_brack ts -> parse_expr false fuel p ts = parse_expr true fuel p ts.
Proof.
  induction fuel as [|f IH]; intros p ts Hnb; [reflexivity|].
  cbn [parse_expr].
  assert (HP : parse_primary false (parse_expr false f) ts = parse_primary true (parse_expr true f) ts).
  { unfold parse_primary. destruct ts as [|t ts']; [reflexivity|].
    assert (Hts' : no_brack ts') by (inversion Hnb; assumption).
    assert (Hsub : forall lvl r e r', no_brack r -> parse_expr true f lvl r = Some (e, r') -> no_brack r').
    { intros lvl r e r' Hr H. destruct (parse_expr_sound true f lvl r e r' H) as (u & Hu & _). rewrite Hu in Hr.
      eapply no_brack_suffix; exact Hr. }
    destruct t; try reflexivity.
    - (* keyword tokens: functions and prefix operators *)
      destruct (fun1_of (TKw k)); [|destruct (fun2_of (TKw k))].
      + destruct ts' as [|t1 r1]; [reflexivity|]. destruct t1; try reflexivity. destruct s; try reflexivity.
        rewrite IH by (inversion Hts'; assumption). reflexivity.
      + destruct ts' as [|t1 r1]; [reflexivity|]. destruct t1; try reflexivity. destruct s; try reflexivity.
        assert (Hr1 : no_brack r1) by (inversion Hts'; assumption).
        rewrite IH by exact Hr1. destruct (parse_expr true f 0 r1) as [[e1 r2]|] eqn:E1; [|reflexivity].
        destruct r2 as [|c r2]; [reflexivity|]. destruct c; try reflexivity. destruct s; try reflexivity.
        pose proof (Hsub _ _ _ _ Hr1 E1) as Hr2. rewrite IH by (inversion Hr2; assumption). reflexivity.
      + destruct (unop_of (TKw k)) as [[[o lvl] ivok]|]; [|reflexivity].
        rewrite opt_interval_ltl by exact Hts'.
        destruct (opt_interval true ivok ts') as [[iv r1]|] eqn:EI; [|reflexivity].
        assert (Hr1 : no_brack r1).
        { destruct (opt_interval_sound true _ _ _ _ EI) as (u & Hu & _). rewrite Hu in Hts'. eapply no_brack_suffix; exact Hts'. }
        rewrite IH by exact Hr1. reflexivity.
    - destruct s; try reflexivity.
      + (* unary minus *)
        simpl. rewrite opt_interval_ltl by exact Hts'.
        destruct (opt_interval true false ts') as [[iv r1]|] eqn:EI; [|reflexivity].
        assert (Hr1 : no_brack r1).
        { destruct (opt_interval_sound true _ _ _ _ EI) as (u & Hu & _). rewrite Hu in Hts'. eapply no_brack_suffix; exact Hts'. }
        rewrite IH by exact Hr1. reflexivity.
      + (* '(' *) rewrite IH by exact Hts'. reflexivity. }
  rewrite HP. destruct (parse_primary true (parse_expr true f) ts) as [[e0 r0]|] eqn:EP; [|reflexivity].
  assert (Hr0 : no_brack r0).
  { destruct (primary_sound true _ _ _ _ (parse_expr_sound true f) EP) as (u & Hu & _). rewrite Hu in Hnb. eapply no_brack_suffix; exact Hnb. }
  clear HP EP. generalize (S (List.length r0)). intros g. revert e0 r0 Hr0.
  induction g as [|g IHg]; intros e0 r0 Hr0; [reflexivity|].
  simpl. destruct r0 as [|t r]; [reflexivity|].
  assert (Hr : no_brack r) by (inversion Hr0; assumption).
  destruct (binop_of t) as [[[[o lvl] rlvl] ivok]|]; [|reflexivity].
  destruct (p <=? lvl); [|reflexivity].
  rewrite opt_interval_ltl by exact Hr.
  destruct (opt_interval true ivok r) as [[iv r1]|] eqn:EI; [|reflexivity].
  assert (Hr1 : no_brack r1).
  { destruct (opt_interval_sound true _ _ _ _ EI) as (u & Hu & _). rewrite Hu in Hr. eapply no_brack_suffix; exact Hr. }
  rewrite IH by exact Hr1.
  destruct (parse_expr true f rlvl r1) as [[rgt r2]|] eqn:E2; [|reflexivity].
  apply IHg.
  destruct (parse_expr_sound true f rlvl r1 rgt r2 E2) as (u & Hu & _). rewrite Hu in Hr1. eapply no_brack_suffix; exact Hr1.
Qed.

(* assertions: (Identifier '=')? expression ';' *)
Theorem parse_assertion_sound stl ts a r : parse_assertion stl ts = Some (a, r) ->
  exists used, ts = used ++ r /\ exists e, snd a = e /\
    (exists body, Derives stl e body /\ (used = body ++ [TSym SSemi] \/ exists n, used = TId n :: TSym SEq :: body ++ [TSym SSemi])).
Proof.
  unfold parse_assertion.
  assert (Hplain : forall ts0, match parse_expr stl (S (List.length ts)) 0 ts0 with
                      | Some (e, TSym SSemi :: r') => Some ((@None string, e), r')
                      | _ => None end = Some (a, r) ->
          exists body, ts0 = body ++ TSym SSemi :: r /\ Derives stl (snd a) body).
  { intros ts0 H. destruct (parse_expr stl (S (List.length ts)) 0 ts0) as [[e r0]|] eqn:E; [|discriminate].
    destruct r0 as [|c r0]; [discriminate|]. destruct c; try discriminate. destruct s; try discriminate.
    injection H as <- <-. destruct (parse_expr_sound stl _ _ _ _ _ E) as (u & Hu & Du). exists u. split; [exact Hu|exact Du]. }
  assert (Hnamed : forall nm ts0, match parse_expr stl (S (List.length ts)) 0 ts0 with
                      | Some (e, TSym SSemi :: r') => Some ((Some nm, e), r')
                      | _ => None end = Some (a, r) ->
          exists body, ts0 = body ++ TSym SSemi :: r /\ Derives stl (snd a) body).
  { intros nm ts0 H. destruct (parse_expr stl (S (List.length ts)) 0 ts0) as [[e r0]|] eqn:E; [|discriminate].
    destruct r0 as [|c r0]; [discriminate|]. destruct c; try discriminate. destruct s; try discriminate.
    injection H as <- <-. destruct (parse_expr_sound stl _ _ _ _ _ E) as (u & Hu & Du). exists u. split; [exact Hu|exact Du]. }
  assert (Fin : forall ts0, (exists body, ts0 = body ++ TSym SSemi :: r /\ Derives stl (snd a) body) -> ts = ts0 ->
     exists used, ts = used ++ r /\ exists e, snd a = e /\
       (exists body, Derives stl e body /\ (used = body ++ [TSym SSemi] \/ exists n, used = TId n :: TSym SEq :: body ++ [TSym SSemi]))).
  { intros ts0 (body & Hb & Db) ->. exists (body ++ [TSym SSemi]). split; [rewrite Hb, <- app_assoc; reflexivity|].
    exists (snd a). split; [reflexivity|]. exists body. split; [exact Db|left; reflexivity]. }
  destruct ts as [|t1 ts1].
  - intros H. apply (Fin []); [apply Hplain; exact H|reflexivity].
  - destruct t1 as [k|sy|nm|i|rl].
    1, 2, 4, 5: (intros H; match goal with |- exists used, ?X = _ /\ _ => apply (Fin X); [apply Hplain; exact H|reflexivity] end).
    destruct ts1 as [|t2 ts2]; [intros H; apply (Fin [TId nm]); [apply Hplain; exact H|reflexivity]|].
    destruct t2 as [k2|sy2|nm2|i2|rl2].
    1, 3, 4, 5: (intros H; match goal with |- exists used, ?X = _ /\ _ => apply (Fin X); [apply Hplain; exact H|reflexivity] end).
    destruct sy2;
    try (intros H; match goal with |- exists used, ?X = _ /\ _ => apply (Fin X); [apply Hplain; exact H|reflexivity] end).
    intros H. destruct (Hnamed nm ts2 H) as (body & Hb & Db).
    exists (TId nm :: TSym SEq :: body ++ [TSym SSemi]). split; [simpl; rewrite Hb, <- app_assoc; reflexivity|].
    exists (snd a). split; [reflexivity|]. exists body. split; [exact Db|right; exists nm; reflexivity].
Qed.
