(* Parser.v — the expression / assertion grammar of StlParser.g4 as a
   precedence-climbing parser over tokens (levels from the generated
   PrecTable.v), the AST the parser visitor builds (parentheses dropped,
   'unless' desugared), and the checks of the visitor. *)
From Coq Require Import List Bool Arith Ascii String Lia.
From RV Require Import Lexer PrecTable.
Import ListNotations.

Inductive unop := UNeg | UNot | UAlways | UEv | UHist | UOnce | UPrev | UNext | USPrev | USNext.
Inductive fun1 := FAbs | FSqrt | FExp | FLn | FRise | FFall.
Inductive fun2 := FPow | FLog.
Inductive cmpk := KLeq | KGeq | KLt | KGt | KEq | KNeq.
Inductive binop := BMul | BDiv | BAdd | BSub | BCmp (c : cmpk) | BUntil | BUnless | BSince
                 | BAnd | BOr | BImplies | BIff | BXor.

(* an interval bound: literal or identifier, optional unit (s ms us ns) *)
Inductive itime := ILit (s : string) (u : option kw) | IId (s : string) (u : option kw).
Definition interval := (itime * itime)%type.

Inductive sexpr :=
| EId (s : string)
| ELit (s : string)
| EUn (o : unop) (iv : option interval) (e : sexpr)
| EFun1 (f : fun1) (e : sexpr)
| EFun2 (f : fun2) (e1 e2 : sexpr)
| EBin (o : binop) (iv : option interval) (e1 e2 : sexpr).

(* binary operator tokens: (operator, precpred level, level of the right operand, may carry an interval) *)
Definition binop_of (t : token) : option (binop * nat * nat * bool) :=
  match t with
  | TSym STimes => Some (BMul, lvl_muldiv, rlvl_muldiv, false)
  | TSym SDivide => Some (BDiv, lvl_muldiv, rlvl_muldiv, false)
  | TSym SPlus => Some (BAdd, lvl_addsub, rlvl_addsub, false)
  | TSym SMinus => Some (BSub, lvl_addsub, rlvl_addsub, false)
  | TSym SLeq => Some (BCmp KLeq, lvl_cmp, rlvl_cmp, false)
  | TSym SGeq => Some (BCmp KGeq, lvl_cmp, rlvl_cmp, false)
  | TSym SLt => Some (BCmp KLt, lvl_cmp, rlvl_cmp, false)
  | TSym SGt => Some (BCmp KGt, lvl_cmp, rlvl_cmp, false)
  | TSym SEqEq => Some (BCmp KEq, lvl_cmp, rlvl_cmp, false)
  | TSym SNeq => Some (BCmp KNeq, lvl_cmp, rlvl_cmp, false)
  | TKw KUntil => Some (BUntil, lvl_until, rlvl_until, true)
  | TKw KUnless => Some (BUnless, lvl_unless, rlvl_unless, true)
  | TKw KSince => Some (BSince, lvl_since, rlvl_since, true)
  | TKw KAnd => Some (BAnd, lvl_and, rlvl_and, false)
  | TKw KOr => Some (BOr, lvl_or, rlvl_or, false)
  | TKw KImplies => Some (BImplies, lvl_implies, rlvl_implies, false)
  | TKw KIff => Some (BIff, lvl_iff, rlvl_iff, false)
  | TKw KXor => Some (BXor, lvl_xor, rlvl_xor, false)
  | _ => None
  end.

(* prefix operator tokens: (operator, level of the operand, may carry an interval) *)
Definition unop_of (t : token) : option (unop * nat * bool) :=
  match t with
  | TSym SMinus => Some (UNeg, olvl_neg, false)
  | TKw KNot => Some (UNot, olvl_not, false)
  | TKw KAlways => Some (UAlways, olvl_always, true)
  | TKw KEventually => Some (UEv, olvl_ev, true)
  | TKw KHist => Some (UHist, olvl_hist, true)
  | TKw KOnce => Some (UOnce, olvl_once, true)
  | TKw KPrev => Some (UPrev, olvl_prev, false)
  | TKw KNext => Some (UNext, olvl_next, false)
  | TKw KSPrev => Some (USPrev, olvl_sprev, false)
  | TKw KSNext => Some (USNext, olvl_snext, false)
  | _ => None
  end.

Definition fun1_of (t : token) : option fun1 :=
  match t with
  | TKw KAbs => Some FAbs | TKw KSqrt => Some FSqrt | TKw KExp => Some FExp | TKw KLn => Some FLn
  | TKw KRise => Some FRise | TKw KFall => Some FFall | _ => None
  end.
Definition fun2_of (t : token) : option fun2 :=
  match t with TKw KPow => Some FPow | TKw KLog => Some FLog | _ => None end.

Definition is_unit (k : kw) : bool := match k with KS | KMs | KUs | KNs => true | _ => false end.

(* intervalTime : literal unit? | Identifier unit? *)
Definition parse_itime (ts : list token) : option (itime * list token) :=
  let with_unit (mk : option kw -> itime) (r : list token) :=
    match r with
    | TKw k :: r' => if is_unit k then Some (mk (Some k), r') else Some (mk None, r)
    | _ => Some (mk None, r)
    end in
  match ts with
  | TInt s :: r | TReal s :: r => with_unit (ILit s) r
  | TId s :: r => with_unit (IId s) r
  | _ => None
  end.

(* interval : '[' intervalTime (':' | ',') intervalTime ']' *)
Definition parse_interval (ts : list token) : option (interval * list token) :=
  match ts with
  | TSym SLBrack :: r =>
      match parse_itime r with
      | Some (a, sep :: r1) =>
          match sep with
          | TSym SColon | TSym SComma =>
              match parse_itime r1 with
              | Some (b, TSym SRBrack :: r2) => Some ((a, b), r2)
              | _ => None
              end
          | _ => None
          end
      | _ => None
      end
  | _ => None
  end.

(* "( interval )?" when stl = true; the LTL grammar has no intervals *)
Definition opt_interval (stl allowed : bool) (ts : list token) : option (option interval * list token) :=
  match ts with
  | TSym SLBrack :: _ =>
      if stl && allowed then
        match parse_interval ts with Some (iv, r) => Some (Some iv, r) | None => None end
      else None
  | _ => Some (None, ts)
  end.

Section Parse.
Variable stl : bool.

(* pe lvl ts : the parser for sub-expressions at level lvl (the recursive call with less fuel) *)
Definition parse_primary (pe : nat -> list token -> option (sexpr * list token)) (ts : list token)
  : option (sexpr * list token) :=
  match ts with
  | [] => None
  | t :: r =>
    match t with
    | TSym SLParen =>
        match pe 0 r with
        | Some (e, TSym SRParen :: r') => Some (e, r')
        | _ => None
        end
    | TId s => Some (EId s, r)
    | TInt s | TReal s => Some (ELit s, r)
    | _ =>
      match fun1_of t with
      | Some fn =>
          match r with
          | TSym SLParen :: r1 =>
              match pe 0 r1 with
              | Some (e, TSym SRParen :: r2) => Some (EFun1 fn e, r2)
              | _ => None
              end
          | _ => None
          end
      | None =>
        match fun2_of t with
        | Some fn =>
            match r with
            | TSym SLParen :: r1 =>
                match pe 0 r1 with
                | Some (e1, TSym SComma :: r2) =>
                    match pe 0 r2 with
                    | Some (e2, TSym SRParen :: r3) => Some (EFun2 fn e1 e2, r3)
                    | _ => None
                    end
                | _ => None
                end
            | _ => None
            end
        | None =>
          match unop_of t with
          | Some (o, lvl, ivok) =>
              match opt_interval stl ivok r with
              | Some (iv, r1) =>
                  match pe lvl r1 with
                  | Some (e, r2) => Some (EUn o iv e, r2)
                  | None => None
                  end
              | None => None
              end
          | None => None
          end
        end
      end
    end
  end.

(* the loop over binary operators whose level is >= p; g bounds the number of iterations *)
Fixpoint parse_loop (pe : nat -> list token -> option (sexpr * list token)) (p g : nat) (lft : sexpr) (ts : list token)
  {struct g} : option (sexpr * list token) :=
  match g with
  | O => None
  | S g' =>
    match ts with
    | [] => Some (lft, [])
    | t :: r =>
      match binop_of t with
      | Some (o, lvl, rlvl, ivok) =>
          if p <=? lvl then
            match opt_interval stl ivok r with
            | Some (iv, r1) =>
                match pe rlvl r1 with
                | Some (rgt, r2) => parse_loop pe p g' (EBin o iv lft rgt) r2
                | None => None
                end
            | None => None
            end
          else Some (lft, ts)
      | None => Some (lft, ts)
      end
    end
  end.

(* expression(p) *)
Fixpoint parse_expr (fuel : nat) (p : nat) (ts : list token) {struct fuel} : option (sexpr * list token) :=
  match fuel with
  | O => None
  | S f =>
    match parse_primary (parse_expr f) ts with
    | None => None
    | Some (e0, r0) => parse_loop (parse_expr f) p (S (List.length r0)) e0 r0
    end
  end.

(* assertion : (Identifier EQUAL)? expression SEMICOLON *)
Definition parse_assertion (ts : list token) : option ((option string * sexpr) * list token) :=
  let fuel := S (List.length ts) in
  match ts with
  | TId name :: TSym SEq :: r =>
      match parse_expr fuel 0 r with
      | Some (e, TSym SSemi :: r') => Some ((Some name, e), r')
      | _ => None
      end
  | _ =>
      match parse_expr fuel 0 ts with
      | Some (e, TSym SSemi :: r') => Some ((None, e), r')
      | _ => None
      end
  end.

(* specification : assertion+ EOF  (declarations, imports and annotations are outside the modelled fragment) *)
Fixpoint parse_assertions (fuel : nat) (ts : list token) : option (list (option string * sexpr)) :=
  match fuel with
  | O => None
  | S f =>
    match parse_assertion ts with
    | Some (a, []) => Some [a]
    | Some (a, r) => option_map (cons a) (parse_assertions f r)
    | None => None
    end
  end.
Definition parse_spec (ts : list token) : option (list (option string * sexpr)) :=
  parse_assertions (S (List.length ts)) ts.

End Parse.

(* parse(): the text gets a final ';' unless its last token is one (decided on the token stream, so that white space and
   comments after the last token do not matter, as repaired: D53) *)
Definition prepare (ts : list token) : list token :=
  match rev ts with
  | TSym SSemi :: _ => ts
  | _ => ts ++ [TSym SSemi]
  end.

Definition parse_text (stl : bool) (s : string) : option (list (option string * sexpr)) :=
  let l := to_chars s in
  match lex (S (List.length l)) l with
  | Some ts => parse_spec stl (prepare ts)
  | None => None
  end.
