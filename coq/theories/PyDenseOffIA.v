(* PyDenseOffIA.v — the one primitive tools/py2coq_denseoffline_ia.py needs beyond PySem.v / PyDense.v / PyDenseOff.v.
   A local name that only some paths through an `if` bind is an option: None = not bound by this pass through the statement.
   Reading it when it is None is None: Python raises UnboundLocalError, or (inside a loop) reads what an earlier iteration left
   there, and such a run is outside the model. *)
Definition py_bound {A : Type} (o : option A) : option A := o.
