(* DenseReal.v — the tick semantics rhoZ (DenseSem.v) is the dense-time semantics: over rational time, with the
   sample lists read as right-continuous step functions whose break-points are integers (ticks) and with integer
   bounds, the robustness of a formula at any rational time t — suprema and infima over closed windows of rationals —
   exists, is unique, and equals rhoZ at the tick floor(t). *)
From Coq Require Import List Bool Arith ZArith QArith Qround Qminmax Lia Lqa.
From RV Require Import Val Syntax Rho ListFacts OfflineCorrect Online Dense DenseSem DenseFacts DenseMergeCorrect DenseEvalCorrect DenseTimedLaws DenseConst.
Import ListNotations.

Section Floors.
Local Open Scope Q_scope.

Definition fl (t : Q) : Z := Qfloor t.
Definition iz (z : Z) : Q := inject_Z z.

Lemma iz_le a b : (a <= b)%Z <-> iz a <= iz b.
Proof. unfold iz. rewrite Zle_Qle. reflexivity. Qed.
Lemma iz_lt a b : (a < b)%Z <-> iz a < iz b.
Proof. unfold iz. rewrite Zlt_Qlt. reflexivity. Qed.
Lemma iz_add a b : iz (a + b) == iz a + iz b.
Proof. unfold iz. rewrite inject_Z_plus. reflexivity. Qed.
Lemma iz_sub a b : iz (a - b) == iz a - iz b.
Proof. unfold iz, Z.sub. rewrite inject_Z_plus, inject_Z_opp. reflexivity. Qed.

Lemma fl_le t : iz (fl t) <= t.
Proof. apply Qfloor_le. Qed.
Lemma fl_lt t : t < iz (fl t + 1).
Proof. apply Qlt_floor. Qed.
Lemma fl_mono a b : a <= b -> (fl a <= fl b)%Z.
Proof. apply Qfloor_resp_le. Qed.
Lemma fl_iz z : fl (iz z) = z.
Proof. apply Qfloor_Z. Qed.

Lemma fl_unique t z : iz z <= t -> t < iz (z + 1) -> fl t = z.
Proof.
  intros H1 H2. apply Z.le_antisymm.
  - apply Z.lt_succ_r. apply (proj2 (iz_lt _ _)). eapply Qle_lt_trans; [apply fl_le|]. replace (Z.succ z) with (z + 1)%Z by lia. exact H2.
  - rewrite <- (fl_iz z). apply fl_mono. exact H1.
Qed.

Lemma fl_shift t z : fl (t + iz z) = (fl t + z)%Z.
Proof.
  apply fl_unique.
  - rewrite iz_add. pose proof (fl_le t). lra.
  - replace (fl t + z + 1)%Z with ((fl t + 1) + z)%Z by lia. rewrite iz_add. pose proof (fl_lt t). lra.
Qed.
Lemma fl_shift_sub t z : fl (t - iz z) = (fl t - z)%Z.
Proof.
  apply fl_unique.
  - rewrite iz_sub. pose proof (fl_le t). lra.
  - replace (fl t - z + 1)%Z with ((fl t + 1) - z)%Z by lia. rewrite iz_sub. pose proof (fl_lt t). lra.
Qed.

(* the floors of a closed window of rationals are exactly the integers between the floors of its ends *)
Lemma window_floors lo hi t' : lo <= t' <= hi -> (fl lo <= fl t' <= fl hi)%Z.
Proof. intros [H1 H2]. split; apply fl_mono; assumption. Qed.

Lemma window_witness lo hi k : lo <= hi -> (fl lo <= k <= fl hi)%Z -> exists t', lo <= t' <= hi /\ fl t' = k.
Proof.
  intros Hlh [H1 H2]. destruct (Z.eq_dec k (fl lo)) as [->|Hne].
  - exists lo. split; [split; [apply Qle_refl|exact Hlh]|reflexivity].
  - exists (iz k). split; [|apply fl_iz]. split.
    + apply Qlt_le_weak. eapply Qlt_le_trans; [apply (fl_lt lo)|]. apply (proj1 (iz_le _ _)). lia.
    + eapply Qle_trans; [|apply (fl_le hi)]. apply (proj1 (iz_le _ _)). lia.
Qed.

End Floors.

Section RealTime.
Context {VS : Val} (AR : Arith VS).
Variable pk : formula -> formula -> pkind.
Variable W : list dsig.
Variable tend : Z.
Local Open Scope Q_scope.

(* v is the least upper bound of the values h takes on S (attained), bot if S is empty; dually for is_inf *)
Definition is_sup (S : Q -> Prop) (h : Q -> V -> Prop) (v : V) : Prop :=
  (forall t' v', S t' -> h t' v' -> leb v' v = true) /\
  ((exists t', S t') -> exists t', S t' /\ h t' v) /\
  ((forall t', ~ S t') -> v = bot).
Definition is_inf (S : Q -> Prop) (h : Q -> V -> Prop) (v : V) : Prop :=
  (forall t' v', S t' -> h t' v' -> leb v v' = true) /\
  ((exists t', S t') -> exists t', S t' /\ h t' v) /\
  ((forall t', ~ S t') -> v = top).

(* the dense-time quantitative semantics over rational time; variables are the step functions of their sample lists *)
Fixpoint RS (p : formula) (t : Q) (v : V) {struct p} : Prop :=
  let t0 := iz (dstart W p) in
  let un (g : V -> V) f := exists a, RS f t a /\ v = g a in
  let bin (g : V -> V -> V) f1 f2 := exists a b, RS f1 t a /\ RS f2 t b /\ v = g a b in
  let sinceval f g lo hi := fun t' v' => exists vg vf, RS g t' vg /\ is_inf (fun t'' => lo t' <= t'' <= hi t') (RS f) vf /\ v' = vmin vg vf in
  match p with
  | Var x => v = den (nth x W []) (fl t)
  | Const c => v = c
  | A1 o f => un (a1 AR o) f
  | Not f => un neg f
  | A2 o f g => bin (a2 AR o) f g
  | Pred c f g => bin (pred_val AR (pk f g) c) f g
  | And f g => bin vmin f g
  | Or f g => bin vmax f g
  | Implies f g => bin (fun a b => vmax (neg a) b) f g
  | Iff f g => bin (fun a b => neg (a1 AR Abs (a2 AR Sub a b))) f g
  | Xor f g => bin (fun a b => a1 AR Abs (a2 AR Sub a b)) f g
  | Once f => is_sup (fun t' => t0 <= t' <= t) (RS f) v
  | Hist f => is_inf (fun t' => t0 <= t' <= t) (RS f) v
  | Since f g => is_sup (fun t' => t0 <= t' <= t) (sinceval f g (fun t' => t') (fun _ => t)) v
  | Ev f => is_sup (fun t' => t <= t') (RS f) v
  | Alw f => is_inf (fun t' => t <= t') (RS f) v
  | Until f g => is_sup (fun t' => t <= t') (sinceval f g (fun _ => t) (fun t' => t')) v
  | OnceT b e f => is_sup (fun t' => Qmax t0 (t - iz (zb e)) <= t' <= t - iz (zb b)) (RS f) v
  | HistT b e f => is_inf (fun t' => Qmax t0 (t - iz (zb e)) <= t' <= t - iz (zb b)) (RS f) v
  | SinceT b e f g => is_sup (fun t' => Qmax t0 (t - iz (zb e)) <= t' <= t - iz (zb b)) (sinceval f g (fun t' => t') (fun _ => t)) v
  | EvT b e f => is_sup (fun t' => t + iz (zb b) <= t' <= t + iz (zb e)) (RS f) v
  | AlwT b e f => is_inf (fun t' => t + iz (zb b) <= t' <= t + iz (zb e)) (RS f) v
  | UntilT b e f g => is_sup (fun t' => t + iz (zb b) <= t' <= t + iz (zb e)) (sinceval f g (fun _ => t) (fun t' => t')) v
  | _ => v = bot   (* prev / next / rise / fall / precedes have no dense-time meaning *)
  end.

(* ---------------- suprema of grid step functions ---------------- *)
(* h is, on S, the graph of the step function F o floor *)
Definition graph_on (S : Q -> Prop) (h : Q -> V -> Prop) (F : Z -> V) : Prop :=
  forall t', S t' -> h t' (F (fl t')) /\ forall v', h t' v' -> v' = F (fl t').

Lemma is_sup_grid (S : Q -> Prop) (h : Q -> V -> Prop) (F : Z -> V) (lo hi : Z) : (lo <= hi)%Z ->
  (forall t', S t' -> (lo <= fl t' <= hi)%Z) -> (forall k, (lo <= k <= hi)%Z -> exists t', S t' /\ fl t' = k) ->
  graph_on S h F -> is_sup S h (zmax F lo hi).
Proof.
  intros Hlh Hin Hw Hg. split; [|split].
  - intros t' v' Ht' Hh. rewrite (proj2 (Hg t' Ht') v' Hh). apply zmax_ge. apply Hin. exact Ht'.
  - intros _. destruct (zmax_attained F lo hi Hlh) as (k & Hk & E). destruct (Hw k Hk) as (t' & Ht' & Ef).
    exists t'. split; [exact Ht'|]. rewrite E, <- Ef. apply (proj1 (Hg t' Ht')).
  - intros He. exfalso. destruct (Hw lo ltac:(lia)) as (t' & Ht' & _). exact (He t' Ht').
Qed.

Lemma zmin_attained (f : Z -> V) lo hi : (lo <= hi)%Z -> exists u, (lo <= u <= hi)%Z /\ zmin f lo hi = f u.
Proof.
  intros H. destruct (zmax_attained (fun u => neg (f u)) lo hi H) as (u & Hu & E). exists u. split; [exact Hu|].
  rewrite <- (neg_invol (zmin f lo hi)), neg_zmin, E. apply neg_invol.
Qed.
Lemma zmin_le (f : Z -> V) lo hi u : (lo <= u <= hi)%Z -> leb (zmin f lo hi) (f u) = true.
Proof. intros H. apply (proj1 (zmin_lb f lo hi (zmin f lo hi)) (leb_refl _) u H). Qed.

Lemma is_inf_grid (S : Q -> Prop) (h : Q -> V -> Prop) (F : Z -> V) (lo hi : Z) : (lo <= hi)%Z ->
  (forall t', S t' -> (lo <= fl t' <= hi)%Z) -> (forall k, (lo <= k <= hi)%Z -> exists t', S t' /\ fl t' = k) ->
  graph_on S h F -> is_inf S h (zmin F lo hi).
Proof.
  intros Hlh Hin Hw Hg. split; [|split].
  - intros t' v' Ht' Hh. rewrite (proj2 (Hg t' Ht') v' Hh). apply zmin_le. apply Hin. exact Ht'.
  - intros _. destruct (zmin_attained F lo hi Hlh) as (k & Hk & E). destruct (Hw k Hk) as (t' & Ht' & Ef).
    exists t'. split; [exact Ht'|]. rewrite E, <- Ef. apply (proj1 (Hg t' Ht')).
  - intros He. exfalso. destruct (Hw lo ltac:(lia)) as (t' & Ht' & _). exact (He t' Ht').
Qed.

Lemma is_sup_empty (S : Q -> Prop) (h : Q -> V -> Prop) : (forall t', ~ S t') -> is_sup S h bot.
Proof. intros He. split; [|split]; [intros t' v' Ht'; exfalso; exact (He t' Ht')|intros (t' & Ht'); exfalso; exact (He t' Ht')|reflexivity]. Qed.
Lemma is_inf_empty (S : Q -> Prop) (h : Q -> V -> Prop) : (forall t', ~ S t') -> is_inf S h top.
Proof. intros He. split; [|split]; [intros t' v' Ht'; exfalso; exact (He t' Ht')|intros (t' & Ht'); exfalso; exact (He t' Ht')|reflexivity]. Qed.

(* suprema are unique *)
Lemma is_sup_unique (S : Q -> Prop) (h : Q -> V -> Prop) v v' : is_sup S h v -> is_sup S h v' -> (exists t', S t') \/ (forall t', ~ S t') -> v = v'.
Proof.
  intros (U1 & A1 & E1) (U2 & A2 & E2) [Hne|He].
  - destruct (A1 Hne) as (t1 & S1 & H1), (A2 Hne) as (t2 & S2 & H2). apply leb_antisym; [apply (U2 t1 v S1 H1)|apply (U1 t2 v' S2 H2)].
  - rewrite (E1 He), (E2 He). reflexivity.
Qed.
Lemma is_inf_unique (S : Q -> Prop) (h : Q -> V -> Prop) v v' : is_inf S h v -> is_inf S h v' -> (exists t', S t') \/ (forall t', ~ S t') -> v = v'.
Proof.
  intros (U1 & A1 & E1) (U2 & A2 & E2) [Hne|He].
  - destruct (A1 Hne) as (t1 & S1 & H1), (A2 Hne) as (t2 & S2 & H2). apply leb_antisym; [apply (U1 t2 v' S2 H2)|apply (U2 t1 v S1 H1)].
  - rewrite (E1 He), (E2 He). reflexivity.
Qed.

End RealTime.

Section RealMain.
Context {VS : Val} (AR : Arith VS).
Variable pk : formula -> formula -> pkind.
Variable W : list dsig.
Variable tend : Z.
Hypothesis Htend : (0 <= tend)%Z.
Hypothesis HW : forall s, In s W -> dsorted s /\ s <> [] /\ ub tend s.
Notation RZ := (rhoZ AR pk W tend).
Notation RSp := (RS AR pk W).
Local Open Scope Q_scope.

(* the statement proved by induction: at every rational time of its domain the formula has exactly one value, rhoZ at the tick *)
Definition exact (p : formula) : Prop :=
  forall t, iz (dstart W p) <= t -> RSp p t (RZ p (fl t)) /\ forall v, RSp p t v -> v = RZ p (fl t).

Lemma graph_of_exact f (S : Q -> Prop) : exact f -> (forall t', S t' -> iz (dstart W f) <= t') -> graph_on S (RSp f) (RZ f).
Proof. intros E H t' Ht'. apply E. apply H. exact Ht'. Qed.

Lemma fl_Qmax a b : fl (Qmax a b) = Z.max (fl a) (fl b).
Proof.
  destruct (Q.max_spec a b) as [[H E]|[H E]]; unfold fl; rewrite (Qfloor_comp _ _ E).
  - pose proof (Qfloor_resp_le a b (Qlt_le_weak _ _ H)). lia.
  - pose proof (Qfloor_resp_le b a H). lia.
Qed.

(* closed windows [lo, hi] *)
Lemma sup_window f (lo hi : Q) : exact f -> iz (dstart W f) <= lo -> lo <= hi ->
  is_sup (fun t' => lo <= t' <= hi) (RSp f) (zmax (RZ f) (fl lo) (fl hi)).
Proof.
  intros E H0 Hlh. apply is_sup_grid.
  - apply fl_mono. exact Hlh.
  - intros t' Ht'. apply window_floors. exact Ht'.
  - intros k Hk. apply window_witness; assumption.
  - apply graph_of_exact; [exact E|]. intros t' [Ht' _]. lra.
Qed.
Lemma inf_window f (lo hi : Q) : exact f -> iz (dstart W f) <= lo -> lo <= hi ->
  is_inf (fun t' => lo <= t' <= hi) (RSp f) (zmin (RZ f) (fl lo) (fl hi)).
Proof.
  intros E H0 Hlh. apply is_inf_grid.
  - apply fl_mono. exact Hlh.
  - intros t' Ht'. apply window_floors. exact Ht'.
  - intros k Hk. apply window_witness; assumption.
  - apply graph_of_exact; [exact E|]. intros t' [Ht' _]. lra.
Qed.

(* a general step function F on a closed window *)
Lemma sup_window_gen (h : Q -> V -> Prop) (F : Z -> V) (lo hi : Q) : lo <= hi ->
  graph_on (fun t' => lo <= t' <= hi) h F -> is_sup (fun t' => lo <= t' <= hi) h (zmax F (fl lo) (fl hi)).
Proof.
  intros Hlh G. apply is_sup_grid; [apply fl_mono; exact Hlh|intros t' Ht'; apply window_floors; exact Ht'|intros k Hk; apply window_witness; assumption|exact G].
Qed.

(* unbounded windows [t, oo): the step function is constant from `far` on *)
Lemma sup_tail (h : Q -> V -> Prop) (F : Z -> V) (t : Q) (far : Z) : (fl t <= far)%Z -> (forall k, (far <= k)%Z -> F k = F far) ->
  graph_on (fun t' => t <= t') h F -> is_sup (fun t' => t <= t') h (zmax F (fl t) far).
Proof.
  intros Hf Hc G. split; [|split].
  - intros t' v' Ht' Hh. rewrite (proj2 (G t' Ht') v' Hh). pose proof (fl_mono _ _ Ht') as Hm.
    destruct (Z.le_gt_cases (fl t') far) as [Hle|Hgt]; [apply zmax_ge; lia|]. rewrite Hc by lia. apply zmax_ge. lia.
  - intros _. destruct (zmax_attained F (fl t) far Hf) as (k & Hk & E).
    destruct (window_witness t (iz (far + 1)) k) as (t' & Ht' & Ef).
    + apply Qlt_le_weak. eapply Qlt_le_trans; [apply (fl_lt t)|]. apply (proj1 (iz_le _ _)). lia.
    + rewrite fl_iz. lia.
    + exists t'. split; [apply Ht'|]. rewrite E, <- Ef. apply (proj1 (G t' (proj1 Ht'))).
  - intros He. exfalso. apply (He t). apply Qle_refl.
Qed.
Lemma inf_tail (h : Q -> V -> Prop) (F : Z -> V) (t : Q) (far : Z) : (fl t <= far)%Z -> (forall k, (far <= k)%Z -> F k = F far) ->
  graph_on (fun t' => t <= t') h F -> is_inf (fun t' => t <= t') h (zmin F (fl t) far).
Proof.
  intros Hf Hc G. split; [|split].
  - intros t' v' Ht' Hh. rewrite (proj2 (G t' Ht') v' Hh). pose proof (fl_mono _ _ Ht') as Hm.
    destruct (Z.le_gt_cases (fl t') far) as [Hle|Hgt]; [apply zmin_le; lia|]. rewrite Hc by lia. apply zmin_le. lia.
  - intros _. destruct (zmin_attained F (fl t) far Hf) as (k & Hk & E).
    destruct (window_witness t (iz (far + 1)) k) as (t' & Ht' & Ef).
    + apply Qlt_le_weak. eapply Qlt_le_trans; [apply (fl_lt t)|]. apply (proj1 (iz_le _ _)). lia.
    + rewrite fl_iz. lia.
    + exists t'. split; [apply Ht'|]. rewrite E, <- Ef. apply (proj1 (G t' (proj1 Ht'))).
  - intros He. exfalso. apply (He t). apply Qle_refl.
Qed.


Lemma iz_max_l a b t : iz (Z.max a b) <= t -> iz a <= t.
Proof. intros H. eapply Qle_trans; [|exact H]. apply (proj1 (iz_le _ _)). lia. Qed.
Lemma iz_max_r a b t : iz (Z.max a b) <= t -> iz b <= t.
Proof. intros H. eapply Qle_trans; [|exact H]. apply (proj1 (iz_le _ _)). lia. Qed.
Lemma fl_ge z t : iz z <= t -> (z <= fl t)%Z.
Proof. intros H. rewrite <- (fl_iz z). apply fl_mono. exact H. Qed.

(* the value of "g at t' and f throughout [lo, hi]" *)
Lemma since_point f g (t' lo hi : Q) : exact f -> exact g -> iz (dstart W g) <= t' -> iz (dstart W f) <= lo -> lo <= hi ->
  (exists vg vf, RSp g t' vg /\ is_inf (fun t'' => lo <= t'' <= hi) (RSp f) vf /\ vmin (RZ g (fl t')) (zmin (RZ f) (fl lo) (fl hi)) = vmin vg vf) /\
  forall v', (exists vg vf, RSp g t' vg /\ is_inf (fun t'' => lo <= t'' <= hi) (RSp f) vf /\ v' = vmin vg vf) ->
             v' = vmin (RZ g (fl t')) (zmin (RZ f) (fl lo) (fl hi)).
Proof.
  intros Ef Eg Hg Hlo Hlh. pose proof (inf_window f lo hi Ef Hlo Hlh) as I0. split.
  - exists (RZ g (fl t')), (zmin (RZ f) (fl lo) (fl hi)). split; [apply (Eg t' Hg)|]. split; [exact I0|reflexivity].
  - intros v' (vg & vf & Hvg & Hvf & ->). rewrite (proj2 (Eg t' Hg) vg Hvg). f_equal.
    apply (is_inf_unique _ _ _ _ Hvf I0). left. exists lo. split; [apply Qle_refl|exact Hlh].
Qed.

Lemma iz_zb_nonneg n : 0 <= iz (zb n).
Proof. unfold zb. change 0 with (iz 0). apply (proj1 (iz_le _ _)). lia. Qed.
Lemma iz_zb_le a b : (a <= b)%nat -> iz (zb a) <= iz (zb b).
Proof. intros H. unfold zb. apply (proj1 (iz_le _ _)). lia. Qed.

(* the window of a bounded past operator: [max(t0, t - e), t - b] *)
Lemma past_window z0 t (b e : nat) : (b <= e)%nat ->
  fl (Qmax (iz z0) (t - iz (zb e))) = Z.max (fl t - zb e) z0 /\ fl (t - iz (zb b)) = (fl t - zb b)%Z /\
  ((fl t - zb b <? z0)%Z = true -> forall t', ~ (Qmax (iz z0) (t - iz (zb e)) <= t' <= t - iz (zb b))) /\
  ((fl t - zb b <? z0)%Z = false -> Qmax (iz z0) (t - iz (zb e)) <= t - iz (zb b)).
Proof.
  intros Hbe. assert (E1 : fl (Qmax (iz z0) (t - iz (zb e))) = Z.max (fl t - zb e) z0) by (rewrite fl_Qmax, fl_iz, fl_shift_sub; lia).
  assert (E2 : fl (t - iz (zb b)) = (fl t - zb b)%Z) by apply fl_shift_sub.
  split; [exact E1|]. split; [exact E2|]. split.
  - intros Hlt t' [H1 H2]. apply Z.ltb_lt in Hlt. pose proof (fl_mono _ _ H1) as M1. pose proof (fl_mono _ _ H2) as M2. rewrite E1 in M1. rewrite E2 in M2. lia.
  - intros Hge. apply Z.ltb_ge in Hge. apply Q.max_lub.
    + eapply Qle_trans; [apply (proj1 (iz_le z0 (fl t - zb b)) Hge)|]. rewrite iz_sub. pose proof (fl_le t). lra.
    + pose proof (iz_zb_le b e Hbe). lra.
Qed.

Theorem real_time p : dfrag p = true -> wf_bounds p = true -> (nvars p <= length W)%nat -> exact p.
Proof.
  induction p; intros Hf Hb Hn; cbn [dfrag] in Hf; try discriminate; cbn [nvars] in Hn; cbn [wf_bounds] in Hb;
  repeat match goal with H : _ && _ = true |- _ => apply andb_prop in H; destruct H end;
  repeat match goal with H : (_ <=? _)%nat = true |- _ => apply Nat.leb_le in H end;
  intros t Ht; cbn [dstart] in Ht.
  - (* Var *) cbn [RS rhoZ]. split; [reflexivity|intros v ->; reflexivity].
  - cbn [RS rhoZ]. split; [reflexivity|intros v ->; reflexivity].
  - (* A1 *) destruct (IHp ltac:(assumption) ltac:(assumption) Hn t Ht) as [E1 E2]. cbn [RS rhoZ]. split.
    + exists (RZ p (fl t)). split; [exact E1|reflexivity].
    + intros v (a & Ha & ->). rewrite (E2 a Ha). reflexivity.
  - (* A2 *) destruct (IHp1 ltac:(assumption) ltac:(assumption) ltac:(lia) t (iz_max_l _ _ _ Ht)) as [E1 E2].
    destruct (IHp2 ltac:(assumption) ltac:(assumption) ltac:(lia) t (iz_max_r _ _ _ Ht)) as [G1 G2]. cbn [RS rhoZ]. split.
    + exists (RZ p1 (fl t)), (RZ p2 (fl t)). split; [exact E1|]. split; [exact G1|reflexivity].
    + intros v (a & b & Ha & Hb' & ->). rewrite (E2 a Ha), (G2 b Hb'). reflexivity.
  - (* Pred *) destruct (IHp1 ltac:(assumption) ltac:(assumption) ltac:(lia) t (iz_max_l _ _ _ Ht)) as [E1 E2].
    destruct (IHp2 ltac:(assumption) ltac:(assumption) ltac:(lia) t (iz_max_r _ _ _ Ht)) as [G1 G2]. cbn [RS rhoZ]. split.
    + exists (RZ p1 (fl t)), (RZ p2 (fl t)). split; [exact E1|]. split; [exact G1|reflexivity].
    + intros v (a & b & Ha & Hb' & ->). rewrite (E2 a Ha), (G2 b Hb'). reflexivity.
  - (* Not *) destruct (IHp ltac:(assumption) ltac:(assumption) Hn t Ht) as [E1 E2]. cbn [RS rhoZ]. split.
    + exists (RZ p (fl t)). split; [exact E1|reflexivity].
    + intros v (a & Ha & ->). rewrite (E2 a Ha). reflexivity.
  - destruct (IHp1 ltac:(assumption) ltac:(assumption) ltac:(lia) t (iz_max_l _ _ _ Ht)) as [E1 E2].
    destruct (IHp2 ltac:(assumption) ltac:(assumption) ltac:(lia) t (iz_max_r _ _ _ Ht)) as [G1 G2]. cbn [RS rhoZ]. split.
    + exists (RZ p1 (fl t)), (RZ p2 (fl t)). split; [exact E1|]. split; [exact G1|reflexivity].
    + intros v (a & b & Ha & Hb' & ->). rewrite (E2 a Ha), (G2 b Hb'). reflexivity.
  - destruct (IHp1 ltac:(assumption) ltac:(assumption) ltac:(lia) t (iz_max_l _ _ _ Ht)) as [E1 E2].
    destruct (IHp2 ltac:(assumption) ltac:(assumption) ltac:(lia) t (iz_max_r _ _ _ Ht)) as [G1 G2]. cbn [RS rhoZ]. split.
    + exists (RZ p1 (fl t)), (RZ p2 (fl t)). split; [exact E1|]. split; [exact G1|reflexivity].
    + intros v (a & b & Ha & Hb' & ->). rewrite (E2 a Ha), (G2 b Hb'). reflexivity.
  - destruct (IHp1 ltac:(assumption) ltac:(assumption) ltac:(lia) t (iz_max_l _ _ _ Ht)) as [E1 E2].
    destruct (IHp2 ltac:(assumption) ltac:(assumption) ltac:(lia) t (iz_max_r _ _ _ Ht)) as [G1 G2]. cbn [RS rhoZ]. split.
    + exists (RZ p1 (fl t)), (RZ p2 (fl t)). split; [exact E1|]. split; [exact G1|reflexivity].
    + intros v (a & b & Ha & Hb' & ->). rewrite (E2 a Ha), (G2 b Hb'). reflexivity.
  - destruct (IHp1 ltac:(assumption) ltac:(assumption) ltac:(lia) t (iz_max_l _ _ _ Ht)) as [E1 E2].
    destruct (IHp2 ltac:(assumption) ltac:(assumption) ltac:(lia) t (iz_max_r _ _ _ Ht)) as [G1 G2]. cbn [RS rhoZ]. split.
    + exists (RZ p1 (fl t)), (RZ p2 (fl t)). split; [exact E1|]. split; [exact G1|reflexivity].
    + intros v (a & b & Ha & Hb' & ->). rewrite (E2 a Ha), (G2 b Hb'). reflexivity.
  - destruct (IHp1 ltac:(assumption) ltac:(assumption) ltac:(lia) t (iz_max_l _ _ _ Ht)) as [E1 E2].
    destruct (IHp2 ltac:(assumption) ltac:(assumption) ltac:(lia) t (iz_max_r _ _ _ Ht)) as [G1 G2]. cbn [RS rhoZ]. split.
    + exists (RZ p1 (fl t)), (RZ p2 (fl t)). split; [exact E1|]. split; [exact G1|reflexivity].
    + intros v (a & b & Ha & Hb' & ->). rewrite (E2 a Ha), (G2 b Hb'). reflexivity.
  - (* Once *) pose proof (IHp ltac:(assumption) ltac:(assumption) Hn) as E. cbn [RS rhoZ dstart].
    pose proof (sup_window p (iz (dstart W p)) t E (Qle_refl _) Ht) as S0. rewrite fl_iz in S0.
    split; [exact S0|]. intros v Hv. apply (is_sup_unique _ _ _ _ Hv S0). left. exists t. split; [exact Ht|apply Qle_refl].
  - (* Hist *) pose proof (IHp ltac:(assumption) ltac:(assumption) Hn) as E. cbn [RS rhoZ dstart].
    pose proof (inf_window p (iz (dstart W p)) t E (Qle_refl _) Ht) as S0. rewrite fl_iz in S0.
    split; [exact S0|]. intros v Hv. apply (is_inf_unique _ _ _ _ Hv S0). left. exists t. split; [exact Ht|apply Qle_refl].
  - (* Since *) pose proof (IHp1 ltac:(assumption) ltac:(assumption) ltac:(lia)) as Ef. pose proof (IHp2 ltac:(assumption) ltac:(assumption) ltac:(lia)) as Eg.
    cbn [RS rhoZ dstart]. set (z0 := Z.max (dstart W p1) (dstart W p2)) in *.
    assert (S0 : is_sup (fun t' => iz z0 <= t' <= t)
                   (fun t' v' => exists vg vf, RSp p2 t' vg /\ is_inf (fun t'' => t' <= t'' <= t) (RSp p1) vf /\ v' = vmin vg vf)
                   (zmax (fun k => vmin (RZ p2 k) (zmin (RZ p1) k (fl t))) (fl (iz z0)) (fl t))).
    { apply sup_window_gen; [exact Ht|]. intros t' [Hw1 Hw2].
      apply (since_point p1 p2 t' t' t Ef Eg (iz_max_r _ _ _ Hw1) (iz_max_l _ _ _ Hw1) Hw2). }
    rewrite fl_iz in S0. split; [exact S0|]. intros v Hv. apply (is_sup_unique _ _ _ _ Hv S0). left. exists t. split; [exact Ht|apply Qle_refl].
  - (* Ev *) pose proof (IHp ltac:(assumption) ltac:(assumption) Hn) as E. cbn [RS rhoZ].
    pose proof (bsum_nonneg p) as Hbs.
    assert (S0 : is_sup (fun t' => t <= t') (RSp p) (zmax (RZ p) (fl t) (Z.max (fl t) (tend + bsum p)))).
    { apply sup_tail; [lia| |apply graph_of_exact; [exact E|intros t' Ht'; lra]].
      apply (const_weaken _ _ _ (rhoZ_const AR pk W tend Htend HW p ltac:(assumption) ltac:(assumption) Hn)). lia. }
    split; [exact S0|]. intros v Hv. apply (is_sup_unique _ _ _ _ Hv S0). left. exists t. apply Qle_refl.
  - (* Alw *) pose proof (IHp ltac:(assumption) ltac:(assumption) Hn) as E. cbn [RS rhoZ].
    assert (S0 : is_inf (fun t' => t <= t') (RSp p) (zmin (RZ p) (fl t) (Z.max (fl t) (tend + bsum p)))).
    { apply inf_tail; [lia| |apply graph_of_exact; [exact E|intros t' Ht'; lra]].
      apply (const_weaken _ _ _ (rhoZ_const AR pk W tend Htend HW p ltac:(assumption) ltac:(assumption) Hn)). lia. }
    split; [exact S0|]. intros v Hv. apply (is_inf_unique _ _ _ _ Hv S0). left. exists t. apply Qle_refl.
  - (* Until *) pose proof (IHp1 ltac:(assumption) ltac:(assumption) ltac:(lia)) as Ef. pose proof (IHp2 ltac:(assumption) ltac:(assumption) ltac:(lia)) as Eg.
    cbn [RS rhoZ bsum]. pose proof (bsum_nonneg p1). pose proof (bsum_nonneg p2).
    set (far := Z.max (fl t) (tend + (bsum p1 + bsum p2))).
    pose proof (const_weaken _ _ far (rhoZ_const AR pk W tend Htend HW p1 ltac:(assumption) ltac:(assumption) ltac:(lia)) ltac:(unfold far; lia)) as C1.
    pose proof (const_weaken _ _ far (rhoZ_const AR pk W tend Htend HW p2 ltac:(assumption) ltac:(assumption) ltac:(lia)) ltac:(unfold far; lia)) as C2.
    assert (S0 : is_sup (fun t' => t <= t')
                   (fun t' v' => exists vg vf, RSp p2 t' vg /\ is_inf (fun t'' => t <= t'' <= t') (RSp p1) vf /\ v' = vmin vg vf)
                   (zmax (fun k => vmin (RZ p2 k) (zmin (RZ p1) (fl t) k)) (fl t) far)).
    { apply sup_tail; [unfold far; lia| |].
      - intros k Hk. rewrite (C2 k Hk). f_equal. apply zmin_tail_const; [unfold far in *; lia|]. intros u Hu. apply C1. lia.
      - intros t' Ht'. apply (since_point p1 p2 t' t t' Ef Eg); [eapply Qle_trans; [exact (iz_max_r _ _ _ Ht)|exact Ht']|exact (iz_max_l _ _ _ Ht)|exact Ht']. }
    split; [exact S0|]. intros v Hv. apply (is_sup_unique _ _ _ _ Hv S0). left. exists t. apply Qle_refl.
  - (* OnceT *) pose proof (IHp ltac:(assumption) ltac:(assumption) Hn) as E. cbn [RS rhoZ dstart].
    destruct (past_window (dstart W p) t b e ltac:(assumption)) as (E1 & E2 & Hemp & Hne).
    destruct (fl t - zb b <? dstart W p)%Z eqn:Ec.
    + pose proof (is_sup_empty _ (RSp p) (Hemp eq_refl)) as S0. split; [exact S0|]. intros v Hv. apply (is_sup_unique _ _ _ _ Hv S0). right. exact (Hemp eq_refl).
    + pose proof (sup_window p _ _ E (Q.le_max_l _ _) (Hne eq_refl)) as S0. rewrite E1, E2 in S0.
      split; [exact S0|]. intros v Hv. apply (is_sup_unique _ _ _ _ Hv S0). left. exists (t - iz (zb b)). split; [exact (Hne eq_refl)|apply Qle_refl].
  - (* HistT *) pose proof (IHp ltac:(assumption) ltac:(assumption) Hn) as E. cbn [RS rhoZ dstart].
    destruct (past_window (dstart W p) t b e ltac:(assumption)) as (E1 & E2 & Hemp & Hne).
    destruct (fl t - zb b <? dstart W p)%Z eqn:Ec.
    + pose proof (is_inf_empty _ (RSp p) (Hemp eq_refl)) as S0. split; [exact S0|]. intros v Hv. apply (is_inf_unique _ _ _ _ Hv S0). right. exact (Hemp eq_refl).
    + pose proof (inf_window p _ _ E (Q.le_max_l _ _) (Hne eq_refl)) as S0. rewrite E1, E2 in S0.
      split; [exact S0|]. intros v Hv. apply (is_inf_unique _ _ _ _ Hv S0). left. exists (t - iz (zb b)). split; [exact (Hne eq_refl)|apply Qle_refl].
  - (* SinceT *) pose proof (IHp1 ltac:(assumption) ltac:(assumption) ltac:(lia)) as Ef. pose proof (IHp2 ltac:(assumption) ltac:(assumption) ltac:(lia)) as Eg.
    cbn [RS rhoZ dstart]. set (z0 := Z.max (dstart W p1) (dstart W p2)) in *.
    destruct (past_window z0 t b e ltac:(assumption)) as (E1 & E2 & Hemp & Hne).
    destruct (fl t - zb b <? z0)%Z eqn:Ec.
    + pose proof (is_sup_empty _ (fun t' v' => exists vg vf, RSp p2 t' vg /\ is_inf (fun t'' => t' <= t'' <= t) (RSp p1) vf /\ v' = vmin vg vf) (Hemp eq_refl)) as S0.
      split; [exact S0|]. intros v Hv. apply (is_sup_unique _ _ _ _ Hv S0). right. exact (Hemp eq_refl).
    + assert (S0 : is_sup (fun t' => Qmax (iz z0) (t - iz (zb e)) <= t' <= t - iz (zb b))
                     (fun t' v' => exists vg vf, RSp p2 t' vg /\ is_inf (fun t'' => t' <= t'' <= t) (RSp p1) vf /\ v' = vmin vg vf)
                     (zmax (fun k => vmin (RZ p2 k) (zmin (RZ p1) k (fl t))) (fl (Qmax (iz z0) (t - iz (zb e)))) (fl (t - iz (zb b))))).
      { apply sup_window_gen; [exact (Hne eq_refl)|]. intros t' [Hw1 Hw2].
        assert (Hz : iz z0 <= t') by (eapply Qle_trans; [apply Q.le_max_l|exact Hw1]).
        apply (since_point p1 p2 t' t' t Ef Eg (iz_max_r _ _ _ Hz) (iz_max_l _ _ _ Hz)). pose proof (iz_zb_nonneg b). lra. }
      rewrite E1, E2 in S0. split; [exact S0|]. intros v Hv. apply (is_sup_unique _ _ _ _ Hv S0). left. exists (t - iz (zb b)). split; [exact (Hne eq_refl)|apply Qle_refl].
  - (* EvT *) pose proof (IHp ltac:(assumption) ltac:(assumption) Hn) as E. cbn [RS rhoZ].
    pose proof (iz_zb_nonneg b). pose proof (iz_zb_le b e ltac:(assumption)).
    pose proof (sup_window p (t + iz (zb b)) (t + iz (zb e)) E ltac:(lra) ltac:(lra)) as S0. rewrite !fl_shift in S0.
    split; [exact S0|]. intros v Hv. apply (is_sup_unique _ _ _ _ Hv S0). left. exists (t + iz (zb b)). split; [apply Qle_refl|lra].
  - (* AlwT *) pose proof (IHp ltac:(assumption) ltac:(assumption) Hn) as E. cbn [RS rhoZ].
    pose proof (iz_zb_nonneg b). pose proof (iz_zb_le b e ltac:(assumption)).
    pose proof (inf_window p (t + iz (zb b)) (t + iz (zb e)) E ltac:(lra) ltac:(lra)) as S0. rewrite !fl_shift in S0.
    split; [exact S0|]. intros v Hv. apply (is_inf_unique _ _ _ _ Hv S0). left. exists (t + iz (zb b)). split; [apply Qle_refl|lra].
  - (* UntilT *) pose proof (IHp1 ltac:(assumption) ltac:(assumption) ltac:(lia)) as Ef. pose proof (IHp2 ltac:(assumption) ltac:(assumption) ltac:(lia)) as Eg.
    cbn [RS rhoZ]. pose proof (iz_zb_nonneg b). pose proof (iz_zb_le b e ltac:(assumption)).
    assert (S0 : is_sup (fun t' => t + iz (zb b) <= t' <= t + iz (zb e))
                   (fun t' v' => exists vg vf, RSp p2 t' vg /\ is_inf (fun t'' => t <= t'' <= t') (RSp p1) vf /\ v' = vmin vg vf)
                   (zmax (fun k => vmin (RZ p2 k) (zmin (RZ p1) (fl t) k)) (fl (t + iz (zb b))) (fl (t + iz (zb e))))).
    { apply sup_window_gen; [lra|]. intros t' [Hw1 Hw2].
      apply (since_point p1 p2 t' t t' Ef Eg); [pose proof (iz_max_r _ _ _ Ht); lra|exact (iz_max_l _ _ _ Ht)|lra]. }
    rewrite !fl_shift in S0. split; [exact S0|]. intros v Hv. apply (is_sup_unique _ _ _ _ Hv S0). left. exists (t + iz (zb b)). split; [apply Qle_refl|lra].
Qed.

End RealMain.
