(* DenseIA.v — visitPredicate of the IA-STL dense-time offline visitors (rtamt/semantics/iastl/dense_time/offline/
   ast_visitor.py): the difference of the operands, the robustness and the satisfaction flag of every sample of it,
   de-duplicated on the robustness; a predicate the semantics is insensitive to reports +-inf (robustness variants) or
   0 (vacuity variants) at the kept stamps.  With the standard kind it is the STL visitPredicate. *)
From Coq Require Import List Bool Arith ZArith Lia.
From RV Require Import Val Syntax Rho Online Dense DenseMerge DenseEval.
Import ListNotations.
Local Open Scope Z_scope.

Section DenseIA.
Context {VS : Val} (AR : Arith VS).
Notation zero := (azero AR).

Definition sat_of_diff (c : cmp) (d : V) : bool :=
  match c with
  | CLeq => leb d zero | CLt => ltb d zero
  | CGeq => leb zero d | CGt => ltb zero d
  | CEq => veqb d zero | CNeq => ltb zero (a1 AR Abs d)
  end.

Fixpoint ia_scan (c : cmp) (prev : option V) (d : dsig) : list (Z * (V * bool)) :=
  match d with
  | [] => []
  | (t, x) :: r =>
      let o := pred_of_diff AR c x in
      match r with
      | [] => [(t, (o, sat_of_diff c x))]
      | _ => if (match prev with Some p => veq p o | None => false end)
             then ia_scan c (Some o) r else (t, (o, sat_of_diff c x)) :: ia_scan c (Some o) r
      end
  end.

Definition ia_value (k : pkind) (q : V * bool) : V :=
  match k with PStd => fst q | PBool => if snd q then top else bot | PVac => zero end.
Definition ia_pred (k : pkind) (c : cmp) (d : dsig) : dsig := map (fun q => (fst q, ia_value k (snd q))) (ia_scan c None d).

(* the satisfaction flag read off the robustness value *)
Definition sat_of_rob (c : cmp) (o : V) : bool :=
  match c with
  | CLeq | CGeq => leb zero o
  | CLt | CGt | CNeq => ltb zero o
  | CEq => veqb o zero
  end.
Definition rob_value (k : pkind) (c : cmp) (o : V) : V :=
  match k with PStd => o | PBool => if sat_of_rob c o then top else bot | PVac => zero end.

(* what the proofs need of the arithmetic (true of floats without NaN; proved for the executable instance) *)
Record DiffLaws := {
  dl_zero_neg : neg zero = zero;
  dl_sub_le : forall l r, leb (a2 AR Sub l r) zero = leb l r;
  dl_sub_ge : forall l r, leb zero (a2 AR Sub l r) = leb r l;
  dl_abs_nonneg : forall d, leb zero (a1 AR Abs d) = true;
  dl_abs_zero : forall d, veqb (a1 AR Abs d) zero = veqb d zero
}.

Lemma ltb_neg_zero (DL : DiffLaws) d : ltb zero (neg d) = ltb d zero.
Proof. unfold ltb. f_equal. rewrite <- (dl_zero_neg DL) at 1. apply neg_anti_iff. Qed.
Lemma leb_neg_zero (DL : DiffLaws) d : leb zero (neg d) = leb d zero.
Proof. rewrite <- (dl_zero_neg DL) at 1. apply neg_anti_iff. Qed.
Lemma veqb_neg_zero (DL : DiffLaws) d : veqb (neg d) zero = veqb d zero.
Proof.
  unfold veqb. rewrite <- (dl_zero_neg DL) at 1 2. rewrite !neg_anti_iff. apply andb_comm.
Qed.

Lemma sat_rob (DL : DiffLaws) c d : sat_of_diff c d = sat_of_rob c (pred_of_diff AR c d).
Proof.
  destruct c; cbn [sat_of_diff sat_of_rob pred_of_diff].
  - symmetry. apply leb_neg_zero. exact DL.
  - symmetry. apply ltb_neg_zero. exact DL.
  - reflexivity.
  - reflexivity.
  - rewrite (veqb_neg_zero DL), (dl_abs_zero DL). reflexivity.
  - reflexivity.
Qed.

Lemma ia_scan_dedup (DL : DiffLaws) c : forall d prev,
  map (fun q => (fst q, fst (snd q))) (ia_scan c prev d) = dedup_from prev (dmap (pred_of_diff AR c) d) /\
  forall q, In q (ia_scan c prev d) -> snd (snd q) = sat_of_rob c (fst (snd q)).
Proof.
  induction d as [|[t x] r IH]; intros prev; [split; [reflexivity|intros q []]|].
  cbn [ia_scan dmap map dedup_from fst snd]. fold (dmap (pred_of_diff AR c) r).
  destruct r as [|[t' x'] r'].
  - cbn [dmap map]. split; [reflexivity|]. intros q [<-|[]]. cbn [fst snd]. apply sat_rob. exact DL.
  - cbn [dmap map fst snd]. fold (dmap (pred_of_diff AR c) r').
    change ((t', pred_of_diff AR c x') :: dmap (pred_of_diff AR c) r') with (dmap (pred_of_diff AR c) ((t', x') :: r')).
    destruct (IH (Some (pred_of_diff AR c x))) as [I1 I2].
    destruct (match prev with Some p => veq p (pred_of_diff AR c x) | None => false end).
    + split; [exact I1|exact I2].
    + cbn [map fst snd]. split; [f_equal; exact I1|]. intros q [<-|Hin]; [cbn [fst snd]; apply sat_rob; exact DL|apply I2; exact Hin].
Qed.

(* the list is the de-duplicated robustness list with every value mapped through rob_value *)
Theorem ia_pred_dmap (DL : DiffLaws) k c d : ia_pred k c d = dmap (rob_value k c) (dedup (dmap (pred_of_diff AR c) d)).
Proof.
  unfold ia_pred, dedup. destruct (ia_scan_dedup DL c d None) as [E S]. rewrite <- E. unfold dmap. rewrite map_map.
  apply map_ext_in. intros q Hin. cbn [fst snd]. f_equal. destruct k; cbn [ia_value rob_value]; [reflexivity| |reflexivity].
  rewrite (S q Hin). reflexivity.
Qed.
Lemma ia_pred_std c d : ia_pred PStd c d = dedup (dmap (pred_of_diff AR c) d).
Proof.
  unfold ia_pred, dedup. generalize (@None V) as prev. induction d as [|[t x] r IH]; intros prev; [reflexivity|].
  cbn [ia_scan dmap map dedup_from fst snd]. fold (dmap (pred_of_diff AR c) r). destruct r as [|[t' x'] r']; [reflexivity|].
  cbn [dmap map fst snd]. fold (dmap (pred_of_diff AR c) r').
  change ((t', pred_of_diff AR c x') :: dmap (pred_of_diff AR c) r') with (dmap (pred_of_diff AR c) ((t', x') :: r')).
  destruct (match prev with Some p => veq p (pred_of_diff AR c x) | None => false end); [apply IH|].
  cbn [map fst snd ia_value]. f_equal. apply IH.
Qed.

(* the value is the predicate value of the semantics *)
Lemma rob_value_sem (DL : DiffLaws) (SubNeg : forall l r, neg (a2 AR Sub l r) = a2 AR Sub r l) k c l r :
  rob_value k c (pred_of_diff AR c (a2 AR Sub l r)) = pred_val AR k c l r.
Proof.
  assert (Estd : pred_of_diff AR c (a2 AR Sub l r) = pred_std AR c l r) by (destruct c; cbn [pred_of_diff pred_std]; try reflexivity; apply SubNeg).
  assert (Esat : sat_of_rob c (pred_std AR c l r) = pred_sat c l r).
  { destruct c; cbn [sat_of_rob pred_std pred_sat].
    - apply (dl_sub_ge DL).
    - unfold ltb. rewrite (dl_sub_le DL). reflexivity.
    - apply (dl_sub_ge DL).
    - unfold ltb. rewrite (dl_sub_le DL). reflexivity.
    - rewrite (veqb_neg_zero DL), (dl_abs_zero DL). unfold veqb. rewrite (dl_sub_le DL), (dl_sub_ge DL). reflexivity.
    - assert (E : ltb zero (a1 AR Abs (a2 AR Sub l r)) = negb (veqb (a1 AR Abs (a2 AR Sub l r)) zero)).
      { unfold ltb, veqb. rewrite (dl_abs_nonneg DL), andb_true_r. reflexivity. }
      rewrite E, (dl_abs_zero DL). unfold veqb. rewrite (dl_sub_le DL), (dl_sub_ge DL). reflexivity. }
  destruct k; cbn [rob_value pred_val]; [exact Estd| |reflexivity].
  rewrite Estd, Esat. reflexivity.
Qed.

End DenseIA.
