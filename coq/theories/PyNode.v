(* PyNode.v — the run-time library of tools/py2coq_pastifier.py: what the visit
   methods of rtamt/pastifier/{ltl,stl}/{horizon,pastifier}.py use besides the
   recursion through self.visit, as total Gallina functions over the node type
   of NodeName.v.  The translator only composes these (with the option monad,
   py_for and py_range of PySem.v); what a primitive means is decided here.

   Numbers.  The horizons and bounds of the STL classes are Python ints and
   Fractions (exact): Q here.  The LTL classes only ever see ints (0, + 1,
   max, -, range()): Z.  A Fraction is always in lowest terms; Q is not, so a
   number that is stored in a node goes through Qred ([q_bound]).

   Hand-modelled and pinned by source digests in the translator (not
   translated): StlPastifier.to_default_unit ([to_default_unit] below; an
   in-place mutation of the bounds of every node, a different shape of code)
   and pastify() itself (the epilogue of the generated file). *)
From Coq Require Import List Bool ZArith QArith Qreduction String.
From RV Require Import Val Syntax Offline Units NodeName.
Import ListNotations.

(* a > b on ints / Fractions *)
Definition q_gt (a b : Q) : bool := negb (Qle_bool a b).
Definition z_gt (a b : Z) : bool := (a >? b)%Z.
(* max(a, b): the first argument unless the second is greater *)
Definition q_max (a b : Q) : Q := if q_gt b a then b else a.
Definition z_max (a b : Z) : Z := if z_gt b a then b else a.
(* min(a, b): the first argument unless the second is smaller *)
Definition q_min (a b : Q) : Q := if q_gt a b then b else a.
Definition z_min (a b : Z) : Z := if z_gt a b then b else a.

(* node.begin / node.end as a number *)
Definition q_of_bound (b : bound) : Q := bound_q b.

(* the bound Interval(x, ..) holds: the number x in lowest terms, unit ''.
   [bound] has no negative numbers (NodeName.v: the parser and the pastifier never make one): None, which here does
   NOT mean that Python raises — the correctness statements assert Some. *)
Definition nn_bound (q : Q) : bound :=
  let r := Qred q in {| bnum := Z.to_N (Qnum r); bden := Qden r; bunit := None |}.
Definition q_bound (q : Q) : option bound :=
  if (Qnum q <? 0)%Z then None else Some (nn_bound q).

(* ---- StlPastifier.to_default_unit (hand model, pinned) ----
   for child in node.children: self.to_default_unit(child)
   if isinstance(node, Interval): resolve the units as visitInterval / time_unit_transformer do,
     node.begin = node.begin * Fraction(U[b_unit], U[unit]); the same for end; both unit texts become '' *)
Definition default_bounds (du : tunit) (b e : bound) : bound * bound :=
  let '(bu, eu) := resolve du (itv_of b e) in
  (nn_bound (bound_q b * (uval bu # 1) / (uval du # 1)), nn_bound (bound_q e * (uval eu # 1) / (uval du # 1))).

Fixpoint to_default_unit (du : tunit) (n : node) : node :=
  match n with
  | NVar v f => NVar v f
  | NConst t => NConst t
  | NUn o c => NUn o (to_default_unit du c)
  | NTUn o b e c => let c' := to_default_unit du c in let '(b', e') := default_bounds du b e in NTUn o b' e' c'
  | NFn2 o c1 c2 => NFn2 o (to_default_unit du c1) (to_default_unit du c2)
  | NBin o c1 c2 => NBin o (to_default_unit du c1) (to_default_unit du c2)
  | NTBin o b e c1 c2 =>
      let c1' := to_default_unit du c1 in let c2' := to_default_unit du c2 in
      let '(b', e') := default_bounds du b e in NTBin o b' e' c1' c2'
  end.

(* self.sample = Fraction(str(ast.sampling_period)) * ast.U[ast.sampling_period_unit] / ast.U[ast.unit] *)
Definition sample_of (du : tunit) (p : Z) (pu : tunit) : Q := period_ns p pu / (uval du # 1).

(* every bound of the tree is written without a unit (what to_default_unit leaves) *)
Fixpoint unitless (n : node) : bool :=
  match n with
  | NVar _ _ | NConst _ => true
  | NUn _ c => unitless c
  | NTUn _ b e c => match bunit b, bunit e with None, None => unitless c | _, _ => false end
  | NFn2 _ c1 c2 | NBin _ c1 c2 => unitless c1 && unitless c2
  | NTBin _ b e c1 c2 => match bunit b, bunit e with None, None => unitless c1 && unitless c2 | _, _ => false end
  end.

(* no node of an STL-only class (what the LTL visitors dispatch on) *)
Fixpoint ltl_node (n : node) : bool :=
  match n with
  | NVar _ _ | NConst _ => true
  | NUn _ c => ltl_node c
  | NFn2 _ c1 c2 | NBin _ c1 c2 => ltl_node c1 && ltl_node c2
  | NTUn _ _ _ _ | NTBin _ _ _ _ _ => false
  end.
