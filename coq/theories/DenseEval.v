(* DenseEval.v — implementation layer of dense-time offline evaluation, untimed fragment:
   the visitors of rtamt/semantics/stl/dense_time/offline/ast_visitor.py for variables,
   constants, point-wise arithmetic and Boolean operators (through the 13-case merge),
   predicates, the unbounded once / historically / eventually / always loops, and the
   unbounded since / until (since_operation / until_operation: the operands merged into
   pairs, then the segment-wise recursion result_i = max(min(o1,o2), min(o1, result_{i-1}))).
   The visitor itself (deval) is in DenseVisitor.v, after the bounded operators of DenseWin.v.
   A signal is represented by its finite samples; the sample at +inf that a constant
   carries ([[0,c],[inf,c]]) is the implicit extension of DenseMerge.extend. *)
From Coq Require Import List Bool Arith ZArith Lia.
From RV Require Import Val Syntax Rho Online Dense DenseMerge DenseMergeG.
Import ListNotations.
Local Open Scope Z_scope.

Section DenseEval.
Context {VS : Val} (AR : Arith VS).

Definition dmap (g : V -> V) (s : dsig) : dsig := map (fun p => (fst p, g (snd p))) s.

(* "if out_value != prev or i == len(sample) - 1: append": a sample is dropped when it repeats the
   value of the previous one, except the last sample, which is always kept *)
Fixpoint dedup_from (prev : option V) (s : dsig) : dsig :=
  match s with
  | [] => []
  | (t, v) :: r =>
      match r with
      | [] => [(t, v)]
      | _ => if (match prev with Some p => veq p v | None => false end)
             then dedup_from (Some v) r else (t, v) :: dedup_from (Some v) r
      end
  end.
Definition dedup (s : dsig) : dsig := dedup_from None s.

(* the running max / min of visitOnce / visitHistorically *)
Fixpoint run_fold (op : V -> V -> V) (acc : V) (s : dsig) : dsig :=
  match s with
  | [] => []
  | (t, v) :: r => let a := op v acc in (t, a) :: run_fold op a r
  end.
Definition once_op (s : dsig) : dsig := dedup (run_fold vmax bot s).
Definition hist_op (s : dsig) : dsig := dedup (run_fold vmin top s).

(* visitEventually / visitAlways: from the last sample backwards; a sample whose value equals the
   one after it replaces it (the later one is popped) unless it is one of the last two samples *)
Fixpoint rev_fold (op : V -> V -> V) (unit : V) (s : dsig) : V * dsig :=
  match s with
  | [] => (unit, [])
  | (t, v) :: r =>
      let '(nxt, out) := rev_fold op unit r in
      let a := op v nxt in
      (a, match out with
          | (t', v') :: out' => if veq a v' && (1 <? Z.of_nat (length r)) then (t, a) :: out' else (t, a) :: out
          | [] => [(t, a)]
          end)
  end.
Definition ev_op (s : dsig) : dsig := snd (rev_fold vmax bot s).
Definition alw_op (s : dsig) : dsig := snd (rev_fold vmin top s).

(* since_operation / until_operation: the operands are merged into pairs (intersect.split through the
   same 13-case merge, DenseMergeG.isect_g), then
       result_i = max(min(o1_i, o2_i), min(o1_i, result_{i-1}))     (until: from the last segment backwards) *)
Definition pairs := list (Z * (V * V)).
Definition peq (x y : V * V) : bool := veq (fst x) (fst y) && veq (snd x) (snd y).
Definition split_isect (s1 s2 : dsig) : option pairs := isect_g (V * V) peq (fun a b => (a, b)) s1 s2.

Definition step_val (o : V * V) (prev : V) : V := vmax (vmin (fst o) (snd o)) (vmin (fst o) prev).

Fixpoint since_scan (prev : V) (io : pairs) : dsig :=
  match io with
  | [] => []
  | (t, o) :: r => let res := step_val o prev in (t, res) :: since_scan res r
  end.
Definition since_op (s1 s2 : dsig) : option dsig := option_map (fun io => dedup (since_scan bot io)) (split_isect s1 s2).

Fixpoint until_rev (io : pairs) : V * dsig :=
  match io with
  | [] => (bot, [])
  | (t, o) :: r =>
      let '(nxt, out) := until_rev r in
      let a := step_val o nxt in
      (a, match out with
          | (t', v') :: out' => if veq a v' && (1 <? Z.of_nat (length r)) then (t, a) :: out' else (t, a) :: out
          | [] => [(t, a)]
          end)
  end.
Definition until_op (s1 s2 : dsig) : option dsig := option_map (fun io => snd (until_rev io)) (split_isect s1 s2).

(* visitPredicate: the difference through the merge, then the robustness of the comparison, deduplicated *)
Definition pred_of_diff (c : cmp) (d : V) : V :=
  match c with
  | CLeq | CLt => neg d
  | CGeq | CGt => d
  | CEq => neg (a1 AR Abs d)
  | CNeq => a1 AR Abs d
  end.

Definition obind {A B} (x : option A) (f : A -> option B) : option B := match x with Some a => f a | None => None end.

End DenseEval.
