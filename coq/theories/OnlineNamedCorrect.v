(* OnlineNamedCorrect.v — the monitor keyed by node NAME (OnlineNamed.v, what the
   code does) returns at the k-th update the robustness rho at sample k of the
   formula its last assertion denotes, hence exactly what the monitor keyed by the
   FORMULA (Online.v, what C02 was proved for) returns.  The only property of the
   names that is used: among the nodes of the specification, equal names are
   equal nodes (NodeNameCorrect.names_injective).  The proof is the one of
   OnlineCorrect.v with the keys replaced (same canonical states, same step
   lemmas). *)
From Coq Require Import List Bool Arith ZArith String Lia.
From RV Require Import Val Syntax Rho Offline ListFacts OfflineCorrect Online OnlineCorrect Units NodeName NodeNameCorrect OnlineNamed.
Import ListNotations.

Section NamedCorrect.
Context {VS : Val} (AR : Arith VS).
Variable pk : formula -> formula -> pkind.
Variable vidx : string -> string -> nat.
Variable cval : string -> V.
Variable bnd : bound -> bound -> nat * nat.
Variable w : trace.
Variable n : nat.

Notation r := (fun p => rho AR pk p w n).
Notation sem := (sem vidx cval bnd).
Notation nvisit := (nvisit AR pk vidx cval bnd).
Notation canon := (canon AR pk w n).

(* ---- shapes of nodes, as the update visitor treats them ---- *)
Inductive nshp := NSLeaf | NSUn (c : node) | NSBi (c1 c2 : node) | NSUnsup.
Definition nshape (x : node) : nshp :=
  match x with
  | NVar _ _ | NConst _ => NSLeaf
  | NUn o c => if un_past o then NSUn c else NSUnsup
  | NTUn o _ _ c => if tun_past o then NSUn c else NSUnsup
  | NFn2 _ c1 c2 => NSBi c1 c2
  | NBin o c1 c2 => if bin_past o then NSBi c1 c2 else NSUnsup
  | NTBin o _ _ c1 c2 => if tbin_past o then NSBi c1 c2 else NSUnsup
  end.
Definition leafv (env : nat -> V) (x : node) : V :=
  match x with NVar v f => env (vidx v f) | NConst t => cval t | _ => bot end.
Fixpoint nsize (x : node) : nat :=
  match x with
  | NVar _ _ | NConst _ => 1
  | NUn _ c | NTUn _ _ _ c => S (nsize c)
  | NFn2 _ c1 c2 | NBin _ c1 c2 | NTBin _ _ _ c1 c2 => S (nsize c1 + nsize c2)
  end.

Lemma nvisit_shape env x d m :
  nvisit env x d m =
  match nshape x with
  | NSLeaf => (d, m, leafv env x)
  | NSUn c => match nlookup m (nname x) with Some v => (d, m, v)
              | None => nvisit_un AR vidx cval bnd x (nvisit env c d m) end
  | NSBi c1 c2 => match nlookup m (nname x) with Some v => (d, m, v)
                  | None => nvisit_bi AR pk vidx cval bnd x (nvisit env c1) (nvisit env c2) d m end
  | NSUnsup => match nlookup m (nname x) with Some v => (d, m, v) | None => (d, m, bot) end
  end.
Proof.
  destruct x as [v f|t|o c|o b e c|o c1 c2|o c1 c2|o b e c1 c2]; try reflexivity;
    cbn [OnlineNamed.nvisit nshape]; destruct o; try destruct c; reflexivity.
Qed.

Lemma nshape_leaf x : nshape x = NSLeaf -> is_leaf (sem x) /\ forall k, r (sem x) k = leafv (row w k) x.
Proof.
  destruct x as [v f|t|o c|o b e c|o c1 c2|o c1 c2|o b e c1 c2]; simpl; intros H;
    try (destruct o; try destruct c; discriminate H); split; try exact I; reflexivity.
Qed.
Lemma nshape_un x c : nshape x = NSUn c ->
  shape (sem x) = SUn (sem c) /\ nsize c < nsize x /\ subnodes x = x :: subnodes c.
Proof.
  destruct x as [v f|t|o c0|o b e c0|o c1 c2|o c1 c2|o b e c1 c2]; simpl; intros H; try discriminate H;
    try (destruct o; try destruct c0; discriminate H);
    destruct o; simpl in H; try discriminate H; injection H as <-; simpl; repeat split; lia.
Qed.
Lemma nshape_bi x c1 c2 : nshape x = NSBi c1 c2 ->
  shape (sem x) = SBi (sem c1) (sem c2) /\ nsize c1 < nsize x /\ nsize c2 < nsize x /\
  subnodes x = x :: subnodes c1 ++ subnodes c2.
Proof.
  destruct x as [v f|t|o c0|o b e c0|o d1 d2|o d1 d2|o b e d1 d2]; simpl; intros H; try discriminate H;
    try (destruct o; discriminate H);
    destruct o; simpl in H; try discriminate H; injection H as <- <-; simpl; repeat split; lia.
Qed.
Lemma nshape_unsup x : nshape x = NSUnsup -> past_only (sem x) = false.
Proof.
  destruct x as [v f|t|o c0|o b e c0|o d1 d2|o d1 d2|o b e d1 d2]; simpl; intros H; try discriminate H;
    destruct o; simpl in H; try discriminate H; reflexivity.
Qed.

Lemma subnodes_self x : In x (subnodes x).
Proof. destruct x; left; reflexivity. Qed.
Lemma subnodes_size x : forall b, In b (subnodes x) -> nsize b <= nsize x.
Proof.
  induction x as [v f|t|o c IH|o b e c IH|o c1 IH1 c2 IH2|o c1 IH1 c2 IH2|o b e c1 IH1 c2 IH2]; simpl; intros a [<-|H];
    simpl; try lia; try contradiction;
    try (specialize (IH a H); lia);
    (apply in_app_or in H; destruct H as [H|H]; [specialize (IH1 a H)|specialize (IH2 a H)]; lia).
Qed.
Lemma subnodes_trans x : forall a b, In a (subnodes x) -> In b (subnodes a) -> In b (subnodes x).
Proof.
  induction x as [v f|t|o c IH|o b e c IH|o c1 IH1 c2 IH2|o c1 IH1 c2 IH2|o b e c1 IH1 c2 IH2]; simpl; intros a b' [<-|H] Hb;
    try exact Hb; try contradiction; right;
    try (exact (IH a b' H Hb));
    (apply in_or_app; apply in_app_or in H; destruct H as [H|H]; [left; exact (IH1 a b' H Hb)|right; exact (IH2 a b' H Hb)]).
Qed.

(* ---- dictionary / memo facts ---- *)
Lemma nlookup_cons_eq k v (m : nmemo) : nlookup ((k, v) :: m) k = Some v.
Proof. simpl. rewrite String.eqb_refl. reflexivity. Qed.
Lemma nlookup_cons_ne k k' v (m : nmemo) : k <> k' -> nlookup ((k', v) :: m) k = nlookup m k.
Proof. intros H. simpl. destruct (String.eqb_spec k k'); [contradiction|reflexivity]. Qed.
Lemma nupd_eq (d : ndict) k s : nupd d k s k = s.
Proof. unfold nupd. rewrite String.eqb_refl. reflexivity. Qed.
Lemma nupd_ne (d : ndict) k k' s : k' <> k -> nupd d k s k' = d k'.
Proof. intros H. unfold nupd. destruct (String.eqb_spec k' k); [contradiction|reflexivity]. Qed.

Definition nmemo_of (x : ndict * nmemo * V) : nmemo := snd (fst x).

(* a visit only adds the names of nodes under the visited node *)
Lemma nvisit_keys env : forall sz x d m key u, nsize x <= sz ->
  nlookup (nmemo_of (nvisit env x d m)) key = Some u ->
  nlookup m key = Some u \/ exists b, In b (subnodes x) /\ nname b = key.
Proof.
  induction sz as [|sz IH]; intros x d m key u Hsz.
  { destruct x; simpl in Hsz; lia. }
  rewrite nvisit_shape. destruct (nshape x) eqn:Sh; try (simpl; auto; fail).
  - destruct (nlookup m (nname x)); [simpl; auto|].
    apply nshape_un in Sh as (_ & Hs & Hsub).
    specialize (IH c d m key u). destruct (nvisit env c d m) as [[d1 m1] v1].
    unfold nvisit_un. destruct (ustep AR (sem x) (d1 (nname x)) v1) as [s' out]. unfold nmemo_of in *. simpl in *.
    destruct (String.eqb_spec key (nname x)) as [->|Hne].
    + intros _. right. exists x. split; [apply subnodes_self|reflexivity].
    + intros H. destruct (IH ltac:(lia) H) as [H'|[b [Hb Hn]]]; [auto|right]. exists b. split; [|exact Hn].
      rewrite Hsub. right. exact Hb.
  - destruct (nlookup m (nname x)); [simpl; auto|].
    apply nshape_bi in Sh as (_ & Hs1 & Hs2 & Hsub).
    unfold nvisit_bi.
    pose proof (IH c1 d m key u) as IH1. destruct (nvisit env c1 d m) as [[d1 m1] v1].
    pose proof (IH c2 d1 m1 key u) as IH2. destruct (nvisit env c2 d1 m1) as [[d2 m2] v2].
    destruct (bstep AR pk (sem x) (d2 (nname x)) v1 v2) as [s' out]. unfold nmemo_of in *. simpl in *.
    destruct (String.eqb_spec key (nname x)) as [->|Hne].
    + intros _. right. exists x. split; [apply subnodes_self|reflexivity].
    + intros H. rewrite Hsub.
      destruct (IH2 ltac:(lia) H) as [H2|[b [Hb Hn]]].
      * destruct (IH1 ltac:(lia) H2) as [H1|[b [Hb Hn]]]; [auto|right]. exists b. split; [|exact Hn].
        right. apply in_or_app. left. exact Hb.
      * right. exists b. split; [|exact Hn]. right. apply in_or_app. right. exact Hb.
  - destruct (nlookup m (nname x)); simpl; auto.
Qed.

(* ---- the nodes the monitor owns ---- *)
Variable D : node -> Prop.
Hypothesis D_sub : forall a b, D a -> In b (subnodes a) -> D b.
Hypothesis D_inj : forall a b, D a -> D b -> nname a = nname b -> a = b.
Hypothesis D_past : forall a, D a -> past_only (sem a) = true.
Hypothesis D_wfb : forall a, D a -> wf_bounds (sem a) = true.

Definition NInv (k : nat) (d : ndict) (m : nmemo) : Prop :=
  (forall a, D a -> match nlookup m (nname a) with
            | Some v => v = r (sem a) k /\ d (nname a) = canon (sem a) (S k)
            | None => d (nname a) = canon (sem a) k
            end) /\
  (forall a v, D a -> nlookup m (nname a) = Some v ->
               forall b, In b (subnodes a) -> nshape b = NSLeaf \/ nlookup m (nname b) <> None).

Definition npost (k : nat) (x : node) (m : nmemo) (res : ndict * nmemo * V) : Prop :=
  let '(d', m', v) := res in
  NInv k d' m' /\ v = r (sem x) k /\ (forall key u, nlookup m key = Some u -> nlookup m' key = Some u) /\
  (forall b, In b (subnodes x) -> nshape b = NSLeaf \/ nlookup m' (nname b) <> None).

Lemma not_in_own_child x c : In x (subnodes c) -> nsize c < nsize x -> False.
Proof. intros H Hs. apply subnodes_size in H. lia. Qed.

Lemma nvisit_ok k : forall sz x d m, nsize x <= sz -> D x -> NInv k d m ->
  npost k x m (nvisit (row w k) x d m).
Proof.
  induction sz as [|sz IH]; intros x d m Hsz HD HI.
  { destruct x; simpl in Hsz; lia. }
  rewrite nvisit_shape. destruct (nshape x) eqn:Sh.
  - (* leaf *)
    destruct (nshape_leaf x Sh) as [_ Hv]. unfold npost. repeat split; try apply HI; auto.
    intros b Hb. destruct x; simpl in Sh, Hb; try (destruct o; try destruct c; discriminate Sh);
      destruct Hb as [<-|[]]; left; reflexivity.
  - (* unary *)
    destruct HI as [HI MC].
    destruct (nlookup m (nname x)) eqn:L.
    { pose proof (HI x HD) as H. rewrite L in H. unfold npost. repeat split; try tauto.
      intros b Hb. eapply MC; eassumption. }
    pose proof (nshape_un _ _ Sh) as (Shf & Hs & Hsubn).
    pose proof (shape_un AR pk w n _ _ Shf) as (_ & _ & _ & Hstep).
    assert (HDc : D c). { apply (D_sub x c HD). rewrite Hsubn. right. apply subnodes_self. }
    pose proof (IH c d m ltac:(lia) HDc (conj HI MC)) as IHc.
    pose proof (nvisit_keys (row w k) (nsize c) c d m (nname x)) as K.
    destruct (nvisit (row w k) c d m) as [[d1 m1] v1]. destruct IHc as ([HI1 MC1] & Hv & Hmono & Hsub).
    assert (L1 : nlookup m1 (nname x) = None).
    { destruct (nlookup m1 (nname x)) eqn:L1; [|reflexivity]. exfalso.
      destruct (K v (le_n _) L1) as [K1|[b [Hb Hn]]]; [congruence|].
      assert (b = x) by (apply D_inj; [exact (D_sub c b HDc Hb)|exact HD|exact Hn]). subst b.
      exact (not_in_own_child x c Hb Hs). }
    unfold nvisit_un. pose proof (HI1 x HD) as Hp. rewrite L1 in Hp. rewrite Hp, Hv, (Hstep (D_wfb x HD)).
    unfold npost. cbv beta iota zeta.
    assert (Hgrow : forall key, nlookup m1 key <> None -> nlookup ((nname x, r (sem x) k) :: m1) key <> None).
    { intros key Hb. destruct (string_dec key (nname x)) as [->|Hne]; [rewrite nlookup_cons_eq; discriminate|].
      rewrite nlookup_cons_ne by assumption. exact Hb. }
    assert (Hsubp : forall b, In b (subnodes x) -> nshape b = NSLeaf \/ nlookup ((nname x, r (sem x) k) :: m1) (nname b) <> None).
    { intros b Hb. rewrite Hsubn in Hb. destruct Hb as [<-|Hb].
      - right. rewrite nlookup_cons_eq. discriminate.
      - destruct (Hsub b Hb); [left; assumption|right; auto]. }
    split; [split|split; [|split]].
    + intros a Ha. destruct (string_dec (nname a) (nname x)) as [E|Hne].
      * rewrite E, nlookup_cons_eq, nupd_eq. rewrite (D_inj a x Ha HD E). auto.
      * rewrite nlookup_cons_ne, nupd_ne by assumption. apply HI1. exact Ha.
    + intros a v Ha La b Hb. destruct (string_dec (nname a) (nname x)) as [E|Hne].
      * apply Hsubp. rewrite <- (D_inj a x Ha HD E). exact Hb.
      * rewrite nlookup_cons_ne in La by assumption.
        destruct (MC1 a v Ha La b Hb); [left; assumption|right; auto].
    + reflexivity.
    + intros key u Hb. destruct (string_dec key (nname x)) as [->|Hne]; [rewrite (Hmono _ _ Hb) in L1; discriminate|].
      rewrite nlookup_cons_ne by assumption. auto.
    + exact Hsubp.
  - (* binary *)
    destruct HI as [HI MC].
    destruct (nlookup m (nname x)) eqn:L.
    { pose proof (HI x HD) as H. rewrite L in H. unfold npost. repeat split; try tauto.
      intros b Hb. eapply MC; eassumption. }
    pose proof (nshape_bi _ _ _ Sh) as (Shf & Hs1 & Hs2 & Hsubn).
    pose proof (shape_bi AR pk w n _ _ _ Shf) as (_ & _ & _ & _ & Hstep).
    assert (HD1 : D c1). { apply (D_sub x c1 HD). rewrite Hsubn. right. apply in_or_app. left. apply subnodes_self. }
    assert (HD2 : D c2). { apply (D_sub x c2 HD). rewrite Hsubn. right. apply in_or_app. right. apply subnodes_self. }
    unfold nvisit_bi.
    pose proof (IH c1 d m ltac:(lia) HD1 (conj HI MC)) as IHf.
    pose proof (nvisit_keys (row w k) (nsize c1) c1 d m (nname x)) as K1.
    destruct (nvisit (row w k) c1 d m) as [[d1 m1] v1]. destruct IHf as (HI1 & Hv1 & Hmono1 & Hsub1).
    pose proof (IH c2 d1 m1 ltac:(lia) HD2 HI1) as IHg.
    pose proof (nvisit_keys (row w k) (nsize c2) c2 d1 m1 (nname x)) as K2.
    destruct (nvisit (row w k) c2 d1 m1) as [[d2 m2] v2]. destruct IHg as ([HI2 MC2] & Hv2 & Hmono2 & Hsub2).
    assert (L2 : nlookup m2 (nname x) = None).
    { destruct (nlookup m2 (nname x)) eqn:L2; [|reflexivity]. exfalso.
      destruct (K2 v (le_n _) L2) as [K|[b [Hb Hn]]].
      - destruct (K1 v (le_n _) K) as [K'|[b [Hb Hn]]]; [congruence|].
        assert (b = x) by (apply D_inj; [exact (D_sub c1 b HD1 Hb)|exact HD|exact Hn]). subst b.
        exact (not_in_own_child x c1 Hb Hs1).
      - assert (b = x) by (apply D_inj; [exact (D_sub c2 b HD2 Hb)|exact HD|exact Hn]). subst b.
        exact (not_in_own_child x c2 Hb Hs2). }
    pose proof (HI2 x HD) as Hp. rewrite L2 in Hp. rewrite Hp, Hv1, Hv2, (Hstep (D_wfb x HD)).
    unfold npost. cbv beta iota zeta.
    assert (Hgrow : forall key, nlookup m2 key <> None -> nlookup ((nname x, r (sem x) k) :: m2) key <> None).
    { intros key Hb. destruct (string_dec key (nname x)) as [->|Hne]; [rewrite nlookup_cons_eq; discriminate|].
      rewrite nlookup_cons_ne by assumption. exact Hb. }
    assert (Hkeep : forall key, nlookup m1 key <> None -> nlookup m2 key <> None).
    { intros key Hb. destruct (nlookup m1 key) eqn:E; [|congruence]. rewrite (Hmono2 _ _ E). discriminate. }
    assert (Hsubp : forall b, In b (subnodes x) -> nshape b = NSLeaf \/ nlookup ((nname x, r (sem x) k) :: m2) (nname b) <> None).
    { intros b Hb. rewrite Hsubn in Hb. destruct Hb as [<-|Hb].
      - right. rewrite nlookup_cons_eq. discriminate.
      - apply in_app_or in Hb as [Hb|Hb].
        + destruct (Hsub1 b Hb); [left; assumption|right; auto].
        + destruct (Hsub2 b Hb); [left; assumption|right; auto]. }
    split; [split|split; [|split]].
    + intros a Ha. destruct (string_dec (nname a) (nname x)) as [E|Hne].
      * rewrite E, nlookup_cons_eq, nupd_eq. rewrite (D_inj a x Ha HD E). auto.
      * rewrite nlookup_cons_ne, nupd_ne by assumption. apply HI2. exact Ha.
    + intros a v Ha La b Hb. destruct (string_dec (nname a) (nname x)) as [E|Hne].
      * apply Hsubp. rewrite <- (D_inj a x Ha HD E). exact Hb.
      * rewrite nlookup_cons_ne in La by assumption.
        destruct (MC2 a v Ha La b Hb); [left; assumption|right; auto].
    + reflexivity.
    + intros key u Hb. destruct (string_dec key (nname x)) as [->|Hne].
      * rewrite (Hmono2 _ _ (Hmono1 _ _ Hb)) in L2. discriminate.
      * rewrite nlookup_cons_ne by assumption. auto.
    + exact Hsubp.
  - (* unsupported: excluded by past_only *)
    exfalso. pose proof (nshape_unsup x Sh) as H. rewrite (D_past x HD) in H. discriminate.
Qed.

Lemma nforest_ok k : forall F d m,
  (forall p, In p F -> D p) -> NInv k d m ->
  let '(d', vs) := nvisit_forest AR pk vidx cval bnd (row w k) F d m in
  vs = map (fun p => r (sem p) k) F /\
  exists m', NInv k d' m' /\ (forall key u, nlookup m key = Some u -> nlookup m' key = Some u) /\
             (forall p b, In p F -> In b (subnodes p) -> nshape b = NSLeaf \/ nlookup m' (nname b) <> None).
Proof.
  induction F as [|p F IH]; intros d m HF HI.
  - simpl. split; [reflexivity|]. exists m. split; [exact HI|]. split; [auto|]. intros p b [].
  - simpl. pose proof (nvisit_ok k (nsize p) p d m (le_n _) (HF p (or_introl eq_refl)) HI) as Hv.
    destruct (nvisit (row w k) p d m) as [[d1 m1] v]. destruct Hv as (HI1 & Hv & Hmono & Hsub).
    specialize (IH d1 m1 (fun q Hq => HF q (or_intror Hq)) HI1).
    destruct (nvisit_forest AR pk vidx cval bnd (row w k) F d1 m1) as [d2 vs]. destruct IH as (Hvs & m' & HI' & Hmono' & Hsub').
    split; [rewrite Hv, Hvs; reflexivity|]. exists m'. split; [exact HI'|]. split.
    + intros b u Hb. apply Hmono', Hmono, Hb.
    + intros q b [<-|Hq] Hb.
      * destruct (Hsub b Hb) as [Hl|Hn]; [left; exact Hl|right].
        destruct (nlookup m1 (nname b)) eqn:E; [|congruence]. rewrite (Hmono' _ _ E). discriminate.
      * eapply Hsub'; eassumption.
Qed.

Definition NReady (k : nat) (d : ndict) : Prop := forall a, D a -> d (nname a) = canon (sem a) k.

Lemma nstep_ok k F d :
  F <> [] ->
  (forall p, In p F -> D p) ->
  (forall a, D a -> exists p, In p F /\ In a (subnodes p)) ->
  NReady k d ->
  let '(d', v) := nmon_step AR pk vidx cval bnd F d (row w k) in
  v = r (sem (last F (NConst EmptyString))) k /\ NReady (S k) d'.
Proof.
  intros Hne HF Hcov HR. unfold nmon_step.
  assert (HI : NInv k d []).
  { split; [intros a Ha; simpl; apply HR; exact Ha|]. intros a v _ L. discriminate. }
  pose proof (nforest_ok k F d [] HF HI) as H.
  destruct (nvisit_forest AR pk vidx cval bnd (row w k) F d []) as [d' vs]. destruct H as (Hvs & m' & [HI' _] & _ & Hsub).
  split.
  - rewrite Hvs. apply (last_map (fun p => r (sem p) k)). exact Hne.
  - intros a Ha. destruct (Hcov a Ha) as (p & Hp & Hin).
    pose proof (HI' a Ha) as Hinv.
    destruct (Hsub p a Hp Hin) as [Hl|Hn].
    + destruct (nlookup m' (nname a)); [tauto|]. rewrite Hinv. apply canon_leaf. apply nshape_leaf. exact Hl.
    + destruct (nlookup m' (nname a)); [tauto|congruence].
Qed.

End NamedCorrect.

Section NamedRun.
Context {VS : Val} (AR : Arith VS).
Variable pk : formula -> formula -> pkind.
Variable vidx : string -> string -> nat.
Variable cval : string -> V.
Variable bnd : bound -> bound -> nat * nat.
Variable w : trace.
Variable n : nat.

Notation sem := (sem vidx cval bnd).

(* all the nodes of all the assertions *)
Definition DN (F : list node) (a : node) : Prop := In a (flat_map subnodes F).

Lemma DN_sub F a b : DN F a -> In b (subnodes a) -> DN F b.
Proof.
  unfold DN. intros Ha Hb. apply in_flat_map in Ha. destruct Ha as [p [Hp Ha]].
  apply in_flat_map. exists p. split; [exact Hp|]. exact (subnodes_trans p a b Ha Hb).
Qed.

Lemma sem_past x : past_only (sem x) = true -> forall b, In b (subnodes x) -> past_only (sem b) = true.
Proof.
  induction x as [v f|t|o c IH|o b0 e c IH|o c1 IH1 c2 IH2|o c1 IH1 c2 IH2|o b0 e c1 IH1 c2 IH2];
    intros H b Hb; simpl in Hb; destruct Hb as [<-|Hb]; try exact H; try contradiction.
  - apply IH; [|exact Hb]. destruct o; simpl in H; try discriminate H; exact H.
  - apply IH; [|exact Hb]. destruct o; simpl in H; try discriminate H; exact H.
  - assert (H' : past_only (sem c1) = true /\ past_only (sem c2) = true).
    { destruct o; simpl in H; apply andb_prop in H; exact H. }
    apply in_app_or in Hb. destruct Hb as [Hb|Hb]; [apply IH1|apply IH2]; tauto.
  - assert (H' : past_only (sem c1) = true /\ past_only (sem c2) = true).
    { destruct o; simpl in H; try discriminate H; apply andb_prop in H; exact H. }
    apply in_app_or in Hb. destruct Hb as [Hb|Hb]; [apply IH1|apply IH2]; tauto.
  - assert (H' : past_only (sem c1) = true /\ past_only (sem c2) = true).
    { destruct o; simpl in H; try discriminate H; apply andb_prop in H; exact H. }
    apply in_app_or in Hb. destruct Hb as [Hb|Hb]; [apply IH1|apply IH2]; tauto.
Qed.

Lemma sem_wfb x : wf_bounds (sem x) = true -> forall b, In b (subnodes x) -> wf_bounds (sem b) = true.
Proof.
  induction x as [v f|t|o c IH|o b0 e c IH|o c1 IH1 c2 IH2|o c1 IH1 c2 IH2|o b0 e c1 IH1 c2 IH2];
    intros H b Hb; simpl in Hb; destruct Hb as [<-|Hb]; try exact H; try contradiction.
  - apply IH; [|exact Hb]. destruct o; simpl in H; exact H.
  - apply IH; [|exact Hb]. destruct o; simpl in H; apply andb_prop in H; tauto.
  - assert (H' : wf_bounds (sem c1) = true /\ wf_bounds (sem c2) = true).
    { destruct o; simpl in H; apply andb_prop in H; exact H. }
    apply in_app_or in Hb. destruct Hb as [Hb|Hb]; [apply IH1|apply IH2]; tauto.
  - assert (H' : wf_bounds (sem c1) = true /\ wf_bounds (sem c2) = true).
    { destruct o; simpl in H; apply andb_prop in H; exact H. }
    apply in_app_or in Hb. destruct Hb as [Hb|Hb]; [apply IH1|apply IH2]; tauto.
  - assert (H' : wf_bounds (sem c1) = true /\ wf_bounds (sem c2) = true).
    { destruct o; simpl in H; apply andb_prop in H; destruct H as [H H2]; apply andb_prop in H; tauto. }
    apply in_app_or in Hb. destruct Hb as [Hb|Hb]; [apply IH1|apply IH2]; tauto.
Qed.

(* the constructor visitor: afterwards the key of every node holds a freshly built operation of a node with that name *)
Lemma nbuild_spec x : forall (d : ndict) key,
  (nbuild vidx cval bnd x d key = d key /\ forall b, In b (subnodes x) -> nname b <> key) \/
  (exists b, In b (subnodes x) /\ nname b = key /\ nbuild vidx cval bnd x d key = op_init (sem b)).
Proof.
  induction x as [v f|t|o c IH|o b0 e c IH|o c1 IH1 c2 IH2|o c1 IH1 c2 IH2|o b0 e c1 IH1 c2 IH2]; intros d key;
    (match goal with |- context [nbuild _ _ _ ?x _ key = _] => destruct (string_dec key (nname x)) as [->|Hne] end;
     [right; eexists; split; [left; reflexivity|split; [reflexivity|cbn [nbuild]; apply nupd_eq]]|]);
    cbn [nbuild subnodes]; rewrite nupd_ne by exact Hne.
  - left. split; [reflexivity|]. intros b [<-|[]]. congruence.
  - left. split; [reflexivity|]. intros b [<-|[]]. congruence.
  - destruct (IH d key) as [[E N]|[b [Hb [Hn E]]]].
    + left. split; [exact E|]. intros b [<-|Hb]; [congruence|exact (N b Hb)].
    + right. exists b. split; [right; exact Hb|split; assumption].
  - destruct (IH d key) as [[E N]|[b [Hb [Hn E]]]].
    + left. split; [exact E|]. intros b [<-|Hb]; [congruence|exact (N b Hb)].
    + right. exists b. split; [right; exact Hb|split; assumption].
  - destruct (IH2 (nbuild vidx cval bnd c1 d) key) as [[E2 N2]|[b [Hb [Hn E]]]].
    + destruct (IH1 d key) as [[E1 N1]|[b [Hb [Hn E]]]].
      * left. split; [rewrite E2; exact E1|]. intros b [<-|Hb]; [congruence|].
        apply in_app_or in Hb. destruct Hb as [Hb|Hb]; [exact (N1 b Hb)|exact (N2 b Hb)].
      * right. exists b. split; [right; apply in_or_app; left; exact Hb|split; [exact Hn|rewrite E2; exact E]].
    + right. exists b. split; [right; apply in_or_app; right; exact Hb|split; assumption].
  - destruct (IH2 (nbuild vidx cval bnd c1 d) key) as [[E2 N2]|[b [Hb [Hn E]]]].
    + destruct (IH1 d key) as [[E1 N1]|[b [Hb [Hn E]]]].
      * left. split; [rewrite E2; exact E1|]. intros b [<-|Hb]; [congruence|].
        apply in_app_or in Hb. destruct Hb as [Hb|Hb]; [exact (N1 b Hb)|exact (N2 b Hb)].
      * right. exists b. split; [right; apply in_or_app; left; exact Hb|split; [exact Hn|rewrite E2; exact E]].
    + right. exists b. split; [right; apply in_or_app; right; exact Hb|split; assumption].
  - destruct (IH2 (nbuild vidx cval bnd c1 d) key) as [[E2 N2]|[b [Hb [Hn E]]]].
    + destruct (IH1 d key) as [[E1 N1]|[b [Hb [Hn E]]]].
      * left. split; [rewrite E2; exact E1|]. intros b [<-|Hb]; [congruence|].
        apply in_app_or in Hb. destruct Hb as [Hb|Hb]; [exact (N1 b Hb)|exact (N2 b Hb)].
      * right. exists b. split; [right; apply in_or_app; left; exact Hb|split; [exact Hn|rewrite E2; exact E]].
    + right. exists b. split; [right; apply in_or_app; right; exact Hb|split; assumption].
Qed.

Lemma nbuild_forest_spec F : forall (d : ndict) key,
  (fold_left (fun d x => nbuild vidx cval bnd x d) F d key = d key /\ forall b, DN F b -> nname b <> key) \/
  (exists b, DN F b /\ nname b = key /\ fold_left (fun d x => nbuild vidx cval bnd x d) F d key = op_init (sem b)).
Proof.
  unfold DN. induction F as [|x F IH]; intros d key; simpl.
  - left. split; [reflexivity|]. intros b [].
  - destruct (IH (nbuild vidx cval bnd x d) key) as [[E N]|[b [Hb [Hn E]]]].
    + destruct (nbuild_spec x d key) as [[E1 N1]|[b [Hb [Hn E1]]]].
      * left. split; [rewrite E; exact E1|]. intros b Hb. apply in_app_or in Hb. destruct Hb as [Hb|Hb]; [exact (N1 b Hb)|exact (N b Hb)].
      * right. exists b. split; [apply in_or_app; left; exact Hb|split; [exact Hn|rewrite E; exact E1]].
    + right. exists b. split; [apply in_or_app; right; exact Hb|split; assumption].
Qed.

Section Forest.
Variable F : list node.
Hypothesis F_inj : forall a b, DN F a -> DN F b -> nname a = nname b -> a = b.
Hypothesis F_ok : forall x, In x F -> past_only (sem x) = true /\ wf_bounds (sem x) = true.

Lemma DN_past a : DN F a -> past_only (sem a) = true.
Proof. unfold DN. intros H. apply in_flat_map in H. destruct H as [p [Hp Ha]]. exact (sem_past p (proj1 (F_ok p Hp)) a Ha). Qed.
Lemma DN_wfb a : DN F a -> wf_bounds (sem a) = true.
Proof. unfold DN. intros H. apply in_flat_map in H. destruct H as [p [Hp Ha]]. exact (sem_wfb p (proj2 (F_ok p Hp)) a Ha). Qed.
Lemma DN_root p : In p F -> DN F p.
Proof. intros Hp. apply in_flat_map. exists p. split; [exact Hp|apply subnodes_self]. Qed.

Lemma ndict_init_ready : NReady AR pk vidx cval bnd w n (DN F) 0 (ndict_init vidx cval bnd F).
Proof.
  intros a Ha. unfold ndict_init.
  destruct (nbuild_forest_spec F (fun _ => StNone) (nname a)) as [[_ N]|[b [Hb [Hn E]]]].
  - exfalso. exact (N a Ha eq_refl).
  - rewrite E, (F_inj b a Hb Ha Hn). symmetry. apply canon_0.
Qed.

Theorem nmon_run_correct : forall len k d,
  F <> [] ->
  NReady AR pk vidx cval bnd w n (DN F) k d ->
  let '(d', vs) := nmon_run AR pk vidx cval bnd F d w k len in
  vs = map (rho AR pk (sem (last F (NConst EmptyString))) w n) (seq k len) /\
  NReady AR pk vidx cval bnd w n (DN F) (k + len) d'.
Proof.
  induction len as [|len IH]; intros k d Hne HR.
  - simpl. rewrite Nat.add_0_r. auto.
  - simpl.
    pose proof (nstep_ok AR pk vidx cval bnd w n (DN F) (DN_sub F) F_inj DN_past DN_wfb k F d Hne DN_root) as Hs.
    assert (Hcov : forall a, DN F a -> exists p, In p F /\ In a (subnodes p)).
    { intros a Ha. apply in_flat_map in Ha. exact Ha. }
    specialize (Hs Hcov HR).
    destruct (nmon_step AR pk vidx cval bnd F d (row w k)) as [d1 v]. destruct Hs as [Hv HR1].
    specialize (IH (S k) d1 Hne HR1).
    destruct (nmon_run AR pk vidx cval bnd F d1 w (S k) len) as [d2 vs]. destruct IH as [Hvs HR2].
    split; [rewrite Hv, Hvs; reflexivity|]. replace (k + S len) with (S k + len) by lia. exact HR2.
Qed.
End Forest.

(* the monitor of the code: operations and memo keyed by node.name *)
Theorem named_online_correct (F : list node) (len : nat) :
  F <> [] ->
  (forall x, In x F -> nwf x = true /\ past_only (sem x) = true /\ wf_bounds (sem x) = true) ->
  snd (nmon_run AR pk vidx cval bnd F (ndict_init vidx cval bnd F) w 0 len)
  = tab (rho AR pk (sem (last F (NConst EmptyString))) w n) len.
Proof.
  intros Hne HF.
  assert (Hinj : forall a b, DN F a -> DN F b -> nname a = nname b -> a = b).
  { apply names_injective. intros x Hx. apply HF. exact Hx. }
  assert (Hok : forall x, In x F -> past_only (sem x) = true /\ wf_bounds (sem x) = true).
  { intros x Hx. destruct (HF x Hx) as [_ H]. exact H. }
  pose proof (nmon_run_correct F Hinj Hok len 0 (ndict_init vidx cval bnd F) Hne (ndict_init_ready F Hinj)) as H.
  destruct (nmon_run AR pk vidx cval bnd F (ndict_init vidx cval bnd F) w 0 len) as [d' vs]. apply H.
Qed.

(* ... returns what the monitor keyed by the formula returns *)
Theorem named_online_is_online (F : list node) (len : nat) :
  F <> [] ->
  (forall x, In x F -> nwf x = true /\ past_only (sem x) = true /\ wf_bounds (sem x) = true) ->
  snd (nmon_run AR pk vidx cval bnd F (ndict_init vidx cval bnd F) w 0 len)
  = snd (mon_run AR pk (map sem F) dict_init w 0 len).
Proof.
  intros Hne HF. rewrite (named_online_correct F len Hne HF).
  rewrite (online_correct AR pk w n (map sem F) len).
  - rewrite (last_map sem F (NConst EmptyString) (Const bot) Hne). reflexivity.
  - destruct F; [contradiction|discriminate].
  - intros p Hp. apply in_map_iff in Hp. destruct Hp as [x [<- Hx]]. destruct (HF x Hx) as [_ H]. exact H.
Qed.

End NamedRun.

Lemma bnd_of_ok du p pu b e x : to_samples du p pu (itv_of b e) = Ok x -> bnd_of du p pu b e = x.
Proof. unfold bnd_of. intros ->. reflexivity. Qed.

(* [sem] with the bounds of time_unit_transformer is [erase] wherever that one is defined *)
Lemma erase_sem {VS : Val} (vidx : string -> string -> nat) (cval : string -> V) (du : tunit) (p : Z) (pu : tunit) (x : node) :
  forall f, erase vidx cval du p pu x = Some f -> sem vidx cval (bnd_of du p pu) x = f.
Proof.
  induction x as [v g|t|o c IH|o b e c IH|o c1 IH1 c2 IH2|o c1 IH1 c2 IH2|o b e c1 IH1 c2 IH2]; simpl; intros f H.
  - injection H as <-. reflexivity.
  - injection H as <-. reflexivity.
  - destruct (erase vidx cval du p pu c) as [fc|]; [|discriminate]. injection H as <-. rewrite (IH fc eq_refl). reflexivity.
  - destruct (to_samples du p pu (itv_of b e)) as [[b' e']| |] eqn:E; try discriminate.
    destruct (erase vidx cval du p pu c) as [fc|]; [|discriminate]. injection H as <-.
    rewrite (IH fc eq_refl), (bnd_of_ok _ _ _ _ _ _ E). reflexivity.
  - destruct (erase vidx cval du p pu c1) as [f1|]; [|discriminate]. destruct (erase vidx cval du p pu c2) as [f2|]; [|discriminate].
    injection H as <-. rewrite (IH1 f1 eq_refl), (IH2 f2 eq_refl). reflexivity.
  - destruct (erase vidx cval du p pu c1) as [f1|]; [|discriminate]. destruct (erase vidx cval du p pu c2) as [f2|]; [|discriminate].
    injection H as <-. rewrite (IH1 f1 eq_refl), (IH2 f2 eq_refl). reflexivity.
  - destruct (to_samples du p pu (itv_of b e)) as [[b' e']| |] eqn:E; try discriminate.
    destruct (erase vidx cval du p pu c1) as [f1|]; [|discriminate]. destruct (erase vidx cval du p pu c2) as [f2|]; [|discriminate].
    injection H as <-. rewrite (IH1 f1 eq_refl), (IH2 f2 eq_refl), (bnd_of_ok _ _ _ _ _ _ E). reflexivity.
Qed.
