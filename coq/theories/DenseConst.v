(* DenseConst.v — after the last break-point of the inputs plus the sum of all upper bounds of a formula (tend + bsum p)
   the tick semantics of the formula no longer changes; for every predicate kind pk. *)
From Coq Require Import List Bool Arith ZArith Lia.
From RV Require Import Val Syntax Rho ListFacts OfflineCorrect Online Dense DenseSem DenseFacts DenseMerge DenseMergeCorrect DenseEval DenseEvalCorrect DenseSinceCorrect.
Import ListNotations.
Local Open Scope Z_scope.

Section DenseConst.
Context {VS : Val} (AR : Arith VS).
Variable pk : formula -> formula -> pkind.
Variable W : list dsig.
Variable tend : Z.
Hypothesis Htend : 0 <= tend.
Hypothesis HW : forall s, In s W -> dsorted s /\ s <> [] /\ ub tend s.
Notation RZ := (rhoZ AR pk W tend).

(* the operators of the dense-time monitor: everything but prev / next / rise / fall / precedes *)
Fixpoint dfrag (p : formula) : bool :=
  match p with
  | Var _ | Const _ => true
  | A1 _ f | Not f | Once f | Hist f | Ev f | Alw f | OnceT _ _ f | HistT _ _ f | EvT _ _ f | AlwT _ _ f => dfrag f
  | A2 _ f g | Pred _ f g | And f g | Or f g | Implies f g | Iff f g | Xor f g | Since f g | Until f g
  | SinceT _ _ f g | UntilT _ _ f g => dfrag f && dfrag g
  | _ => false
  end.

Lemma in_W x : (x < length W)%nat -> dsorted (nth x W []) /\ nth x W [] <> [] /\ ub tend (nth x W []).
Proof. intros H. apply HW. apply nth_In. exact H. Qed.

Lemma start_le_tend s : dsorted s -> s <> [] -> ub tend s -> start s <= tend.
Proof. intros _ N U. destruct s as [|[a v] r]; [congruence|]. cbn [start]. apply (U a v). left. reflexivity. Qed.

Lemma dstart_le_tend p : dfrag p = true -> (nvars p <= length W)%nat -> dstart W p <= tend.
Proof.
  induction p; intros Hu Hn; cbn [dfrag] in Hu; try discriminate; cbn [nvars] in Hn; cbn [dstart];
  try (apply andb_prop in Hu as [Hu1 Hu2]); try lia; try (apply IHp; assumption);
  try (apply Z.max_lub; [apply IHp1|apply IHp2]; try assumption; lia).
  destruct (in_W x ltac:(lia)) as (S & N & U). apply start_le_tend; assumption.
Qed.
Lemma bsum_nonneg p : 0 <= bsum p.
Proof. induction p; cbn [bsum]; lia. Qed.

(* ---------------- after tend + bsum p nothing changes any more ---------------- *)
Definition const_from (F : Z -> V) (c : Z) : Prop := forall u, c <= u -> F u = F c.
Lemma const_weaken F c c' : const_from F c -> c <= c' -> const_from F c'.
Proof. intros H Hc u Hu. rewrite (H u) by lia. rewrite (H c') by lia. reflexivity. Qed.
Lemma zmax_const (f : Z -> V) lo hi v : lo <= hi -> (forall u, lo <= u <= hi -> f u = v) -> zmax f lo hi = v.
Proof.
  intros H Hc. apply eq_by_ub. intros z. rewrite zmax_ub. split.
  - intros Hz. rewrite <- (Hc lo) by lia. apply Hz. lia.
  - intros Hz u Hu. rewrite Hc by lia. exact Hz.
Qed.
Lemma zmin_const (f : Z -> V) lo hi v : lo <= hi -> (forall u, lo <= u <= hi -> f u = v) -> zmin f lo hi = v.
Proof.
  intros H Hc. apply eq_by_lb. intros z. rewrite zmin_lb. split.
  - intros Hz. rewrite <- (Hc lo) by lia. apply Hz. lia.
  - intros Hz u Hu. rewrite Hc by lia. exact Hz.
Qed.

Lemma rhoZ_const p : dfrag p = true -> wf_bounds p = true -> (nvars p <= length W)%nat -> const_from (RZ p) (tend + bsum p).
Proof.
  induction p; intros Hu Hb Hn; cbn [dfrag] in Hu; try discriminate; cbn [nvars] in Hn; cbn [wf_bounds] in Hb; cbn [bsum];
  repeat match goal with H : _ && _ = true |- _ => apply andb_prop in H; destruct H end;
  repeat match goal with H : (_ <=? _)%nat = true |- _ => apply Nat.leb_le in H end.
  - (* Var *) rewrite Z.add_0_r. intros u Hge. cbn [rhoZ]. destruct (in_W x ltac:(lia)) as (S & N & U). unfold den. rewrite (den_const_after _ tend U u Hge). reflexivity.
  - intros u _. reflexivity.
  - (* A1 *) intros u Hge. cbn [rhoZ]. rewrite (IHp Hu Hb Hn u Hge). reflexivity.
  - (* A2 *) pose proof (bsum_nonneg p1). pose proof (bsum_nonneg p2). intros u Hge. cbn [rhoZ].
    rewrite (const_weaken _ _ (tend + (bsum p1 + bsum p2)) (IHp1 ltac:(assumption) ltac:(assumption) ltac:(lia)) ltac:(lia) u Hge).
    rewrite (const_weaken _ _ (tend + (bsum p1 + bsum p2)) (IHp2 ltac:(assumption) ltac:(assumption) ltac:(lia)) ltac:(lia) u Hge). reflexivity.
  - pose proof (bsum_nonneg p1). pose proof (bsum_nonneg p2). intros u Hge. cbn [rhoZ].
    rewrite (const_weaken _ _ (tend + (bsum p1 + bsum p2)) (IHp1 ltac:(assumption) ltac:(assumption) ltac:(lia)) ltac:(lia) u Hge).
    rewrite (const_weaken _ _ (tend + (bsum p1 + bsum p2)) (IHp2 ltac:(assumption) ltac:(assumption) ltac:(lia)) ltac:(lia) u Hge). reflexivity.
  - (* Not *) intros u Hge. cbn [rhoZ]. rewrite (IHp Hu Hb Hn u Hge). reflexivity.
  - pose proof (bsum_nonneg p1). pose proof (bsum_nonneg p2). intros u Hge. cbn [rhoZ].
    rewrite (const_weaken _ _ (tend + (bsum p1 + bsum p2)) (IHp1 ltac:(assumption) ltac:(assumption) ltac:(lia)) ltac:(lia) u Hge).
    rewrite (const_weaken _ _ (tend + (bsum p1 + bsum p2)) (IHp2 ltac:(assumption) ltac:(assumption) ltac:(lia)) ltac:(lia) u Hge). reflexivity.
  - pose proof (bsum_nonneg p1). pose proof (bsum_nonneg p2). intros u Hge. cbn [rhoZ].
    rewrite (const_weaken _ _ (tend + (bsum p1 + bsum p2)) (IHp1 ltac:(assumption) ltac:(assumption) ltac:(lia)) ltac:(lia) u Hge).
    rewrite (const_weaken _ _ (tend + (bsum p1 + bsum p2)) (IHp2 ltac:(assumption) ltac:(assumption) ltac:(lia)) ltac:(lia) u Hge). reflexivity.
  - pose proof (bsum_nonneg p1). pose proof (bsum_nonneg p2). intros u Hge. cbn [rhoZ].
    rewrite (const_weaken _ _ (tend + (bsum p1 + bsum p2)) (IHp1 ltac:(assumption) ltac:(assumption) ltac:(lia)) ltac:(lia) u Hge).
    rewrite (const_weaken _ _ (tend + (bsum p1 + bsum p2)) (IHp2 ltac:(assumption) ltac:(assumption) ltac:(lia)) ltac:(lia) u Hge). reflexivity.
  - pose proof (bsum_nonneg p1). pose proof (bsum_nonneg p2). intros u Hge. cbn [rhoZ].
    rewrite (const_weaken _ _ (tend + (bsum p1 + bsum p2)) (IHp1 ltac:(assumption) ltac:(assumption) ltac:(lia)) ltac:(lia) u Hge).
    rewrite (const_weaken _ _ (tend + (bsum p1 + bsum p2)) (IHp2 ltac:(assumption) ltac:(assumption) ltac:(lia)) ltac:(lia) u Hge). reflexivity.
  - pose proof (bsum_nonneg p1). pose proof (bsum_nonneg p2). intros u Hge. cbn [rhoZ].
    rewrite (const_weaken _ _ (tend + (bsum p1 + bsum p2)) (IHp1 ltac:(assumption) ltac:(assumption) ltac:(lia)) ltac:(lia) u Hge).
    rewrite (const_weaken _ _ (tend + (bsum p1 + bsum p2)) (IHp2 ltac:(assumption) ltac:(assumption) ltac:(lia)) ltac:(lia) u Hge). reflexivity.
  - (* Once *) intros u Hge. cbn [rhoZ]. pose proof (dstart_le_tend p Hu Hn). pose proof (bsum_nonneg p). cbn [dstart].
    apply zmax_tail_const; [lia|]. intros u' Hu'. apply (IHp Hu Hb Hn). lia.
  - (* Hist *) intros u Hge. cbn [rhoZ]. pose proof (dstart_le_tend p Hu Hn). pose proof (bsum_nonneg p). cbn [dstart].
    apply zmin_tail_const; [lia|]. intros u' Hu'. apply (IHp Hu Hb Hn). lia.
  - (* Since *) pose proof (bsum_nonneg p1). pose proof (bsum_nonneg p2). intros u Hge. cbn [rhoZ].
    apply (Sv_const_after (RZ p1) (RZ p2) (dstart W (Since p1 p2)) (tend + (bsum p1 + bsum p2))); [| |exact Hge].
    + cbn [dstart]. pose proof (dstart_le_tend p1 ltac:(assumption) ltac:(lia)). pose proof (dstart_le_tend p2 ltac:(assumption) ltac:(lia)). lia.
    + intros u' Hu'. split; [apply (const_weaken _ _ _ (IHp1 ltac:(assumption) ltac:(assumption) ltac:(lia)))|apply (const_weaken _ _ _ (IHp2 ltac:(assumption) ltac:(assumption) ltac:(lia)))]; lia.
  - (* Ev *) intros u Hge. cbn [rhoZ]. replace (Z.max u (tend + bsum p)) with u by lia. replace (Z.max (tend + bsum p) (tend + bsum p)) with (tend + bsum p) by lia.
    rewrite !zmax_one. apply (IHp Hu Hb Hn). exact Hge.
  - (* Alw *) intros u Hge. cbn [rhoZ]. replace (Z.max u (tend + bsum p)) with u by lia. replace (Z.max (tend + bsum p) (tend + bsum p)) with (tend + bsum p) by lia.
    rewrite !zmin_one. apply (IHp Hu Hb Hn). exact Hge.
  - (* Until *) pose proof (bsum_nonneg p1). pose proof (bsum_nonneg p2). intros u Hge. cbn [rhoZ bsum].
    apply (Uv_const_after (RZ p1) (RZ p2) (tend + (bsum p1 + bsum p2))); [|exact Hge].
    intros u' Hu'. split; [apply (const_weaken _ _ _ (IHp1 ltac:(assumption) ltac:(assumption) ltac:(lia)))|apply (const_weaken _ _ _ (IHp2 ltac:(assumption) ltac:(assumption) ltac:(lia)))]; lia.
  - (* OnceT *) pose proof (bsum_nonneg p). pose proof (dstart_le_tend p ltac:(assumption) Hn) as Hd. pose proof (IHp ltac:(assumption) ltac:(assumption) Hn) as C.
    assert (Hall : forall u, tend + (Z.of_nat e + bsum p) <= u -> RZ (OnceT b e p) u = RZ p (tend + bsum p)).
    { intros u Hge. cbn [rhoZ dstart]. unfold zb. destruct (Z.ltb_spec (u - Z.of_nat b) (dstart W p)); [lia|].
      apply zmax_const; [lia|]. intros u' Hu'. apply C. lia. }
    intros u Hge. rewrite (Hall u Hge), (Hall _ (Z.le_refl _)). reflexivity.
  - (* HistT *) pose proof (bsum_nonneg p). pose proof (dstart_le_tend p ltac:(assumption) Hn) as Hd. pose proof (IHp ltac:(assumption) ltac:(assumption) Hn) as C.
    assert (Hall : forall u, tend + (Z.of_nat e + bsum p) <= u -> RZ (HistT b e p) u = RZ p (tend + bsum p)).
    { intros u Hge. cbn [rhoZ dstart]. unfold zb. destruct (Z.ltb_spec (u - Z.of_nat b) (dstart W p)); [lia|].
      apply zmin_const; [lia|]. intros u' Hu'. apply C. lia. }
    intros u Hge. rewrite (Hall u Hge), (Hall _ (Z.le_refl _)). reflexivity.
  - (* SinceT *) pose proof (bsum_nonneg p1). pose proof (bsum_nonneg p2).
    pose proof (dstart_le_tend p1 ltac:(assumption) ltac:(lia)) as Hd1. pose proof (dstart_le_tend p2 ltac:(assumption) ltac:(lia)) as Hd2.
    pose proof (const_weaken _ _ (tend + (bsum p1 + bsum p2)) (IHp1 ltac:(assumption) ltac:(assumption) ltac:(lia)) ltac:(lia)) as C1.
    pose proof (const_weaken _ _ (tend + (bsum p1 + bsum p2)) (IHp2 ltac:(assumption) ltac:(assumption) ltac:(lia)) ltac:(lia)) as C2.
    assert (Hall : forall u, tend + (Z.of_nat e + bsum p1 + bsum p2) <= u ->
               RZ (SinceT b e p1 p2) u = vmin (RZ p2 (tend + (bsum p1 + bsum p2))) (RZ p1 (tend + (bsum p1 + bsum p2)))).
    { intros u Hge. cbn [rhoZ dstart]. unfold zb. destruct (Z.ltb_spec (u - Z.of_nat b) (Z.max (dstart W p1) (dstart W p2))); [lia|].
      apply zmax_const; [lia|]. intros u' Hu'. rewrite (C2 u') by lia. f_equal. apply zmin_const; [lia|]. intros w Hw. apply C1. lia. }
    intros u Hge. rewrite (Hall u Hge), (Hall _ (Z.le_refl _)). reflexivity.
  - (* EvT *) pose proof (bsum_nonneg p). pose proof (IHp ltac:(assumption) ltac:(assumption) Hn) as C.
    assert (Hall : forall u, tend + (Z.of_nat e + bsum p) <= u -> RZ (EvT b e p) u = RZ p (tend + bsum p)).
    { intros u Hge. cbn [rhoZ]. unfold zb. apply zmax_const; [lia|]. intros u' Hu'. apply C. lia. }
    intros u Hge. rewrite (Hall u Hge), (Hall _ (Z.le_refl _)). reflexivity.
  - (* AlwT *) pose proof (bsum_nonneg p). pose proof (IHp ltac:(assumption) ltac:(assumption) Hn) as C.
    assert (Hall : forall u, tend + (Z.of_nat e + bsum p) <= u -> RZ (AlwT b e p) u = RZ p (tend + bsum p)).
    { intros u Hge. cbn [rhoZ]. unfold zb. apply zmin_const; [lia|]. intros u' Hu'. apply C. lia. }
    intros u Hge. rewrite (Hall u Hge), (Hall _ (Z.le_refl _)). reflexivity.
  - (* UntilT *) pose proof (bsum_nonneg p1). pose proof (bsum_nonneg p2).
    pose proof (const_weaken _ _ (tend + (bsum p1 + bsum p2)) (IHp1 ltac:(assumption) ltac:(assumption) ltac:(lia)) ltac:(lia)) as C1.
    pose proof (const_weaken _ _ (tend + (bsum p1 + bsum p2)) (IHp2 ltac:(assumption) ltac:(assumption) ltac:(lia)) ltac:(lia)) as C2.
    assert (Hall : forall u, tend + (Z.of_nat e + bsum p1 + bsum p2) <= u ->
               RZ (UntilT b e p1 p2) u = vmin (RZ p2 (tend + (bsum p1 + bsum p2))) (RZ p1 (tend + (bsum p1 + bsum p2)))).
    { intros u Hge. cbn [rhoZ]. unfold zb. apply zmax_const; [lia|]. intros u' Hu'. rewrite (C2 u') by lia. f_equal.
      apply zmin_const; [lia|]. intros w Hw. apply C1. lia. }
    intros u Hge. rewrite (Hall u Hge), (Hall _ (Z.le_refl _)). reflexivity.
Qed.

End DenseConst.
