(* Jitter.v — the sampling-violation counter (DiscreteTimeInterpreter.
   update_sampling_violation_counter and its two callers, as repaired: the gap
   is converted from the default unit to the unit of the period; the offline
   loop checks every gap). *)
From Coq Require Import ZArith QArith List Bool Lia Lqa.
Import ListNotations.
Local Open Scope Q_scope.

Definition qltb (a b : Q) : bool := negb (Qle_bool b a).

(* duration < period - tolerance or duration > period + tolerance *)
Definition bad (p tol d : Q) : bool := qltb d (p - p * tol) || qltb (p + p * tol) d.

Record jstate := { jcnt : nat; jprev : Q; jviol : nat }.
Definition jinit : jstate := {| jcnt := 0; jprev := 0; jviol := 0 |}.

(* online update(): norm converts a gap in default units into period units *)
Definition jstep (p tol norm : Q) (s : jstate) (t : Q) : jstate :=
  {| jcnt := S (jcnt s); jprev := t;
     jviol := if (0 <? jcnt s)%nat && bad p tol ((t - jprev s) * norm) then S (jviol s) else jviol s |}.
Definition jrun (p tol norm : Q) (ts : list Q) : jstate := fold_left (jstep p tol norm) ts jinit.

(* offline evaluate(): for i in range(len(ts) - 1): update(ts[i+1] - ts[i]) *)
Fixpoint joff (p tol norm : Q) (ts : list Q) : nat :=
  match ts with
  | a :: ((b :: _) as rest) => (if bad p tol ((b - a) * norm) then 1 else 0)%nat + joff p tol norm rest
  | _ => 0%nat
  end.

(* specification: gaps outside [P(1-tol), P(1+tol)], P in time-stamp units *)
Definition out_of_tol (P tol g : Q) : bool := qltb g (P * (1 - tol)) || qltb (P * (1 + tol)) g.
Fixpoint count_bad (P tol : Q) (ts : list Q) : nat :=
  match ts with
  | a :: ((b :: _) as rest) => (if out_of_tol P tol (b - a) then 1 else 0)%nat + count_bad P tol rest
  | _ => 0%nat
  end.

Lemma qltb_spec a b : qltb a b = true <-> a < b.
Proof.
  unfold qltb. rewrite negb_true_iff. split.
  - intros H. apply Qnot_le_lt. intros Hc. apply Qle_bool_iff in Hc. congruence.
  - intros H. destruct (Qle_bool b a) eqn:E; [|reflexivity]. apply Qle_bool_iff in E. exfalso. apply (Qlt_not_le _ _ H E).
Qed.
Lemma qltb_ext a b a' b' : a == a' -> b == b' -> qltb a b = qltb a' b'.
Proof.
  intros Ha Hb. destruct (qltb a b) eqn:E1; destruct (qltb a' b') eqn:E2; try reflexivity.
  - apply qltb_spec in E1. rewrite Ha, Hb in E1. apply qltb_spec in E1. congruence.
  - apply qltb_spec in E2. rewrite <- Ha, <- Hb in E2. apply qltb_spec in E2. congruence.
Qed.

(* scaling the gap into period units is the same as expressing the period in gap units *)
Lemma bad_scale p tol norm g : 0 < norm -> bad p tol (g * norm) = out_of_tol (p / norm) tol g.
Proof.
  intros Hn. unfold bad, out_of_tol.
  assert (E : forall a b, qltb (a * norm) b = qltb a (b / norm) /\ qltb b (a * norm) = qltb (b / norm) a).
  { intros a b. split.
    - destruct (qltb (a * norm) b) eqn:E1; symmetry.
      + apply qltb_spec. apply qltb_spec in E1. apply Qlt_shift_div_l; assumption.
      + destruct (qltb a (b / norm)) eqn:E2; [|reflexivity]. apply qltb_spec in E2.
        assert (a * norm < b). { setoid_replace b with (b / norm * norm) by (field; lra). apply Qmult_lt_compat_r; assumption. }
        apply qltb_spec in H. congruence.
    - destruct (qltb b (a * norm)) eqn:E1; symmetry.
      + apply qltb_spec. apply qltb_spec in E1. apply Qlt_shift_div_r; assumption.
      + destruct (qltb (b / norm) a) eqn:E2; [|reflexivity]. apply qltb_spec in E2.
        assert (b < a * norm). { setoid_replace b with (b / norm * norm) by (field; lra). apply Qmult_lt_compat_r; assumption. }
        apply qltb_spec in H. congruence. }
  destruct (E g (p - p * tol)) as [E1 _]. destruct (E g (p + p * tol)) as [_ E2].
  rewrite E1, E2. f_equal; apply qltb_ext; try reflexivity; field; lra.
Qed.

(* the online fold: counter after feeding ts *)
Lemma jrun_spec p tol norm : forall ts s, 
  jviol (fold_left (jstep p tol norm) ts s) =
  (jviol s + match ts with [] => 0 | t :: _ => (if (0 <? jcnt s)%nat && bad p tol ((t - jprev s) * norm) then 1 else 0) end
   + joff p tol norm ts)%nat.
Proof.
  induction ts as [|t ts IH]; intros s; simpl.
  - lia.
  - rewrite IH. simpl. destruct ts as [|t2 ts]; simpl.
    + destruct ((0 <? jcnt s)%nat && bad p tol ((t - jprev s) * norm)); simpl; lia.
    + destruct ((0 <? jcnt s)%nat && bad p tol ((t - jprev s) * norm)); simpl;
      destruct (bad p tol ((t2 - t) * norm)); simpl; lia.
Qed.

Theorem jitter_online p tol norm ts : 0 < norm ->
  jviol (jrun p tol norm ts) = count_bad (p / norm) tol ts.
Proof.
  intros Hn. unfold jrun. rewrite jrun_spec. simpl.
  replace (match ts with [] => 0%nat | _ :: _ => 0%nat end) with 0%nat by (destruct ts; reflexivity).
  simpl. induction ts as [|a ts IH]; [reflexivity|]. destruct ts as [|b ts]; [reflexivity|].
  change (joff p tol norm (a :: b :: ts)) with ((if bad p tol ((b - a) * norm) then 1 else 0) + joff p tol norm (b :: ts))%nat.
  change (count_bad (p / norm) tol (a :: b :: ts)) with ((if out_of_tol (p / norm) tol (b - a) then 1 else 0) + count_bad (p / norm) tol (b :: ts))%nat.
  rewrite bad_scale by exact Hn. rewrite IH. reflexivity.
Qed.

Theorem jitter_offline p tol norm ts : 0 < norm ->
  joff p tol norm ts = count_bad (p / norm) tol ts.
Proof.
  intros Hn. induction ts as [|a ts IH]; [reflexivity|]. destruct ts as [|b ts]; [reflexivity|].
  change (joff p tol norm (a :: b :: ts)) with ((if bad p tol ((b - a) * norm) then 1 else 0) + joff p tol norm (b :: ts))%nat.
  change (count_bad (p / norm) tol (a :: b :: ts)) with ((if out_of_tol (p / norm) tol (b - a) then 1 else 0) + count_bad (p / norm) tol (b :: ts))%nat.
  rewrite bad_scale by exact Hn. rewrite IH. reflexivity.
Qed.

(* reset(): counters restart *)
Definition jreset (s : jstate) : jstate := jinit.
