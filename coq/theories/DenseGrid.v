(* DenseGrid.v — C19: on step signals that change only at multiples of the
   sampling period P (in ticks) and for bounds that are multiples of P, the
   dense-time semantics at every tick of grid cell k equals the discrete-time
   robustness at sample k, inside the settled region. *)
From Coq Require Import List Bool Arith ZArith Lia.
From RV Require Import Val Syntax Rho ListFacts OfflineCorrect Dense DenseSem DenseFacts.
Import ListNotations.
Local Open Scope Z_scope.

Section DenseGrid.
Context {VS : Val} (AR : Arith VS).
Variable pk : formula -> formula -> pkind.

(* the fragment of C19 *)
Fixpoint frag (p : formula) : bool :=
  match p with
  | Var _ | Const _ => true
  | A1 _ f | Not f | Once f | Hist f | OnceT _ _ f | HistT _ _ f | EvT _ _ f | AlwT _ _ f => frag f
  | A2 _ f g | Pred _ f g | And f g | Or f g | Implies f g | Iff f g | Xor f g => frag f && frag g
  | _ => false
  end.

(* bounds multiplied by the period (in ticks) *)
Fixpoint scaleF (P : nat) (p : formula) : formula :=
  match p with
  | Var _ | Const _ => p
  | A1 o f => A1 o (scaleF P f) | Not f => Not (scaleF P f) | Once f => Once (scaleF P f) | Hist f => Hist (scaleF P f)
  | OnceT b e f => OnceT (b * P) (e * P) (scaleF P f) | HistT b e f => HistT (b * P) (e * P) (scaleF P f)
  | EvT b e f => EvT (b * P) (e * P) (scaleF P f) | AlwT b e f => AlwT (b * P) (e * P) (scaleF P f)
  | A2 o f g => A2 o (scaleF P f) (scaleF P g) | Pred c f g => Pred c (scaleF P f) (scaleF P g)
  | And f g => And (scaleF P f) (scaleF P g) | Or f g => Or (scaleF P f) (scaleF P g)
  | Implies f g => Implies (scaleF P f) (scaleF P g) | Iff f g => Iff (scaleF P f) (scaleF P g) | Xor f g => Xor (scaleF P f) (scaleF P g)
  | _ => p
  end.

(* a discrete column as a step signal: sample k at tick k * P *)
Definition stepsig (P : Z) (col : list V) : dsig :=
  map (fun k => (Z.of_nat k * P, nth k col bot)) (seq 0 (length col)).

(* value of a sample list with increasing stamps: the sample whose cell contains t *)
Lemma den_opt_index (s : dsig) : forall i t,
  (forall a b, (a < b < length s)%nat -> fst (nth a s (0, bot)) < fst (nth b s (0, bot))) ->
  (i < length s)%nat -> fst (nth i s (0, bot)) <= t ->
  ((S i < length s)%nat -> t < fst (nth (S i) s (0, bot))) ->
  den_opt s t = Some (snd (nth i s (0, bot))).
Proof.
  induction s as [|[t1 v1] s IH]; intros i t Hs Hi Hle Hlt; simpl in Hi; [lia|].
  simpl den_opt.
  assert (H1 : t1 <= t).
  { destruct i as [|i]; [exact Hle|]. specialize (Hs 0%nat (S i) ltac:(simpl; lia)). simpl in Hs, Hle. simpl. lia. }
  destruct (Z.leb_spec t1 t) as [_|]; [|lia].
  destruct i as [|i].
  - (* the first sample is the one: the rest starts after t *)
    destruct s as [|[t2 v2] s']; [reflexivity|].
    specialize (Hlt ltac:(simpl; lia)). simpl in Hlt. simpl den_opt.
    destruct (Z.leb_spec t2 t); [lia|reflexivity].
  - assert (IHs : den_opt s t = Some (snd (nth i s (0, bot)))).
    { apply IH.
      - intros a b Hab. apply (Hs (S a) (S b)). simpl. lia.
      - simpl in Hi. lia.
      - exact Hle.
      - intros H. apply Hlt. simpl. lia. }
    rewrite IHs. reflexivity.
Qed.

Lemma stepsig_nth P col i : (i < length col)%nat ->
  nth i (stepsig P col) (0, bot) = (Z.of_nat i * P, nth i col bot).
Proof.
  intros H. unfold stepsig. rewrite nth_map_seq by exact H. reflexivity.
Qed.

Lemma den_stepsig P col t k : 0 < P -> 0 <= t -> k = Z.to_nat (t / P) -> (k < length col)%nat ->
  den (stepsig P col) t = nth k col bot.
Proof.
  intros HP Ht -> Hk. unfold den.
  assert (Hlen : length (stepsig P col) = length col) by (unfold stepsig; rewrite map_length, seq_length; reflexivity).
  rewrite (den_opt_index (stepsig P col) (Z.to_nat (t / P)) t).
  - rewrite stepsig_nth by exact Hk. reflexivity.
  - intros a b Hab. rewrite Hlen in Hab. rewrite !stepsig_nth by lia. simpl. nia.
  - rewrite Hlen. exact Hk.
  - rewrite stepsig_nth by exact Hk. simpl. rewrite Z2Nat.id by (apply Z.div_pos; lia).
    rewrite Z.mul_comm. apply Z.mul_div_le. exact HP.
  - rewrite Hlen. intros H. rewrite stepsig_nth by exact H. cbn [fst].
    assert (0 <= t / P) by (apply Z.div_pos; lia).
    pose proof (Z.mod_pos_bound t P HP). pose proof (Z.div_mod t P ltac:(lia)). nia.
Qed.

Section Grid.
Variable Pn : nat.
Variable w : trace.
Variable n : nat.
Variable tend : Z.
Hypothesis HP : (0 < Pn)%nat.
Hypothesis Hcols : forall x, (x < length w)%nat -> length (nth x w []) = n.
Hypothesis pk_scale : forall f g, pk (scaleF Pn f) (scaleF Pn g) = pk f g.
Let P : Z := Z.of_nat Pn.
Let W : list dsig := map (stepsig P) w.

Lemma cell_sub t c : 0 <= t -> 0 <= t - Z.of_nat (c * Pn) -> Z.to_nat ((t - Z.of_nat (c * Pn)) / P) = (Z.to_nat (t / P) - c)%nat.
Proof.
  intros Ht Hc. unfold P. rewrite Nat2Z.inj_mul.
  replace (t - Z.of_nat c * Z.of_nat Pn) with (t + (- Z.of_nat c) * Z.of_nat Pn) by lia.
  rewrite Z.div_add by lia. assert (0 <= t / Z.of_nat Pn) by (apply Z.div_pos; lia). lia.
Qed.
Lemma cell_add t c : 0 <= t -> Z.to_nat ((t + Z.of_nat (c * Pn)) / P) = (Z.to_nat (t / P) + c)%nat.
Proof.
  intros Ht. unfold P. rewrite Nat2Z.inj_mul. rewrite Z.div_add by lia.
  assert (0 <= t / Z.of_nat Pn) by (apply Z.div_pos; lia). lia.
Qed.
Lemma cell_neg t c : 0 <= t -> (t - Z.of_nat (c * Pn) <? 0) = (Z.to_nat (t / P) <? c)%nat.
Proof.
  intros Ht. unfold P. rewrite Nat2Z.inj_mul.
  assert (HPz : 0 < Z.of_nat Pn) by lia.
  pose proof (Z.mod_pos_bound t (Z.of_nat Pn) HPz). pose proof (Z.div_mod t (Z.of_nat Pn) ltac:(lia)).
  assert (0 <= t / Z.of_nat Pn) by (apply Z.div_pos; lia).
  destruct (Z.ltb_spec (t - Z.of_nat c * Z.of_nat Pn) 0); destruct (Nat.ltb_spec (Z.to_nat (t / Z.of_nat Pn)) c); try reflexivity; nia.
Qed.

Lemma start_stepsig col : start (stepsig P col) = 0.
Proof. destruct col; reflexivity. Qed.
Lemma dstart_grid q : dstart W q = 0.
Proof.
  induction q; cbn [dstart]; rewrite ?IHq, ?IHq1, ?IHq2; try reflexivity.
  unfold W. destruct (Nat.lt_ge_cases x (length w)) as [Hx|Hx].
  - rewrite (nth_indep _ [] (stepsig P [])) by (rewrite map_length; exact Hx). rewrite map_nth. apply start_stepsig.
  - rewrite nth_overflow by (rewrite map_length; exact Hx). reflexivity.
Qed.

Theorem grid_agree (p : formula) : frag p = true -> wf_bounds p = true ->
  forall t, 0 <= t -> (Z.to_nat (t / P) + hor p < n)%nat ->
  rhoZ AR pk W tend (scaleF Pn p) t = rho AR pk p w n (Z.to_nat (t / P)).
Proof.
  assert (HPz : 0 < P) by (unfold P; lia).
  assert (Hcell : forall t' t, 0 <= t' <= t -> (Z.to_nat (t' / P) <= Z.to_nat (t / P))%nat).
  { intros t' t H. pose proof (Z.div_le_mono t' t P HPz ltac:(lia)). assert (0 <= t' / P) by (apply Z.div_pos; lia). lia. }
  induction p; intros Hf Hwf t Ht Hk; simpl in Hf, Hk, Hwf; try discriminate;
  try (apply andb_prop in Hf as [Hf1 Hf2]);
  repeat match goal with
  | H : _ && _ = true |- _ => apply andb_prop in H; destruct H
  | H : (_ <=? _)%nat = true |- _ => apply Nat.leb_le in H
  end;
  cbn [scaleF rhoZ rho]; rewrite ?dstart_grid.
  - (* Var *) unfold W, sig. destruct (Nat.lt_ge_cases x (length w)) as [Hx|Hx].
    + rewrite (nth_indep _ [] (stepsig P [])) by (rewrite map_length; exact Hx). rewrite map_nth.
      apply den_stepsig; [exact HPz|exact Ht|reflexivity|rewrite (Hcols x Hx); lia].
    + rewrite (nth_overflow (map (stepsig P) w)) by (rewrite map_length; exact Hx).
      rewrite (nth_overflow w) by exact Hx. destruct (Z.to_nat (t / P)); reflexivity.
  - reflexivity.
  - rewrite IHp by (auto; lia). reflexivity.
  - rewrite IHp1, IHp2 by (auto; lia). reflexivity.
  - rewrite IHp1, IHp2 by (auto; lia). rewrite pk_scale. reflexivity.
  - rewrite IHp by (auto; lia). reflexivity.
  - rewrite IHp1, IHp2 by (auto; lia). reflexivity.
  - rewrite IHp1, IHp2 by (auto; lia). reflexivity.
  - rewrite IHp1, IHp2 by (auto; lia). reflexivity.
  - rewrite IHp1, IHp2 by (auto; lia). reflexivity.
  - rewrite IHp1, IHp2 by (auto; lia). reflexivity.
  - (* Once *) rewrite (zmax_step _ (rho AR pk p w n) P 0 t HPz ltac:(lia)).
    + rewrite Z.div_0_l by lia. reflexivity.
    + intros t' Ht'. apply IHp; [exact Hf|exact Hwf|lia|]. pose proof (Hcell t' t ltac:(lia)). lia.
  - rewrite (zmin_step _ (rho AR pk p w n) P 0 t HPz ltac:(lia)).
    + rewrite Z.div_0_l by lia. reflexivity.
    + intros t' Ht'. apply IHp; [exact Hf|exact Hwf|lia|]. pose proof (Hcell t' t ltac:(lia)). lia.
  - (* OnceT *) unfold zb. rewrite cell_neg by exact Ht.
    destruct (Nat.ltb_spec (Z.to_nat (t / P)) b) as [Hlt|Hge]; [reflexivity|].
    assert (Hnn : 0 <= t - Z.of_nat (b * Pn)).
    { pose proof (cell_neg t b Ht) as E. destruct (Z.ltb_spec (t - Z.of_nat (b * Pn)) 0); [|lia].
      destruct (Nat.ltb_spec (Z.to_nat (t / P)) b); [lia|discriminate]. }
    assert (Hbe : (b * Pn <= e * Pn)%nat) by (apply Nat.mul_le_mono_r; assumption).
    rewrite (zmax_step _ (rho AR pk p w n) P _ _ HPz).
    + rewrite cell_sub by assumption. f_equal.
      destruct (Z.max_spec (t - Z.of_nat (e * Pn)) 0) as [[Hm ->]|[Hm ->]].
      * rewrite Z.div_0_l by lia. pose proof (cell_neg t e Ht) as E.
        destruct (Z.ltb_spec (t - Z.of_nat (e * Pn)) 0); [|lia]. destruct (Nat.ltb_spec (Z.to_nat (t / P)) e); [lia|discriminate].
      * apply cell_sub; assumption.
    + split; [lia|]. apply Z.max_lub; lia.
    + intros t' Ht'. apply IHp; [assumption|assumption|lia|]. pose proof (Hcell t' t ltac:(lia)). lia.
  - (* HistT *) unfold zb. rewrite cell_neg by exact Ht.
    destruct (Nat.ltb_spec (Z.to_nat (t / P)) b) as [Hlt|Hge]; [reflexivity|].
    assert (Hnn : 0 <= t - Z.of_nat (b * Pn)).
    { pose proof (cell_neg t b Ht) as E. destruct (Z.ltb_spec (t - Z.of_nat (b * Pn)) 0); [|lia].
      destruct (Nat.ltb_spec (Z.to_nat (t / P)) b); [lia|discriminate]. }
    assert (Hbe : (b * Pn <= e * Pn)%nat) by (apply Nat.mul_le_mono_r; assumption).
    rewrite (zmin_step _ (rho AR pk p w n) P _ _ HPz).
    + rewrite cell_sub by assumption. f_equal.
      destruct (Z.max_spec (t - Z.of_nat (e * Pn)) 0) as [[Hm ->]|[Hm ->]].
      * rewrite Z.div_0_l by lia. pose proof (cell_neg t e Ht) as E.
        destruct (Z.ltb_spec (t - Z.of_nat (e * Pn)) 0); [|lia]. destruct (Nat.ltb_spec (Z.to_nat (t / P)) e); [lia|discriminate].
      * apply cell_sub; assumption.
    + split; [lia|]. apply Z.max_lub; lia.
    + intros t' Ht'. apply IHp; [assumption|assumption|lia|]. pose proof (Hcell t' t ltac:(lia)). lia.
  - (* EvT *) unfold zb.
    assert (Hbe : (b * Pn <= e * Pn)%nat) by (apply Nat.mul_le_mono_r; assumption).
    destruct (Nat.leb_spec n (Z.to_nat (t / P) + b)) as [Hc|Hc]; [lia|].
    replace (Nat.min (Z.to_nat (t / P) + e) (n - 1)) with (Z.to_nat (t / P) + e)%nat by lia.
    rewrite (zmax_step _ (rho AR pk p w n) P _ _ HPz).
    + rewrite !cell_add by exact Ht. reflexivity.
    + lia.
    + intros t' Ht'. apply IHp; [assumption|assumption|lia|].
      pose proof (Hcell t' (t + Z.of_nat (e * Pn)) ltac:(lia)). rewrite cell_add in H1 by exact Ht. lia.
  - (* AlwT *) unfold zb.
    assert (Hbe : (b * Pn <= e * Pn)%nat) by (apply Nat.mul_le_mono_r; assumption).
    destruct (Nat.leb_spec n (Z.to_nat (t / P) + b)) as [Hc|Hc]; [lia|].
    replace (Nat.min (Z.to_nat (t / P) + e) (n - 1)) with (Z.to_nat (t / P) + e)%nat by lia.
    rewrite (zmin_step _ (rho AR pk p w n) P _ _ HPz).
    + rewrite !cell_add by exact Ht. reflexivity.
    + lia.
    + intros t' Ht'. apply IHp; [assumption|assumption|lia|].
      pose proof (Hcell t' (t + Z.of_nat (e * Pn)) ltac:(lia)). rewrite cell_add in H1 by exact Ht. lia.
Qed.

End Grid.
End DenseGrid.
