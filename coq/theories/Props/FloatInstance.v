(* FloatInstance — the property theorems instantiated at the float instance (FloatVal / FloatArith), with the
   assumptions "floats satisfy the Val laws", SubNeg, SignLaws, DiffLaws DISCHARGED, and ShiftLaws decided:
   discharged for the constant 0, refuted for finite constants in general.

   These corollaries depend on Flocq, hence on the axioms of Coq's real numbers (printed below); the generic
   theorems in C01..C20 stay closed under the global context. *)
From Coq Require Import List Arith ZArith Lia Bool.
From RV Require Import Val Syntax Rho Offline ListFacts OfflineCorrect Online OnlineCorrect Sat Lipschitz Transfer IA
  Dense DenseSem DenseLaws DenseSat DenseIA DenseMerge DenseMergeCorrect DenseEval DenseEvalCorrect DenseVisitor DenseConst DenseEvalMain
  FloatVal FloatArith FloatLaws FloatLip.
From RV.Props Require C01 C04 C06 C07.
Import ListNotations.

(* the trusted statement of every MANIFEST entry, as a theorem: the canonical non-NaN binary64 values with the IEEE
   comparison, IEEE negation (normalised), +inf and -inf are a Val *)
Theorem Float_is_Val :
  @V FloatVal = fv /\ (forall a b : fv, @Val.leb FloatVal a b = Flocq.IEEE754.BinarySingleNaN.Bleb (fval a) (fval b)) /\
    (forall a : fv, fval (@neg FloatVal a) = bnorm (Flocq.IEEE754.BinarySingleNaN.Bopp (fval a))) /\
    fval (@top FloatVal) = Flocq.IEEE754.BinarySingleNaN.B754_infinity false /\
    fval (@bot FloatVal) = Flocq.IEEE754.BinarySingleNaN.B754_infinity true.
Proof. repeat split. Qed.
Print Assumptions Float_is_Val.

Section Inst.
Variables (u_exp u_ln : fv -> fv) (u_pow u_log : fv -> fv -> fv).
Notation FA := (FloatArith u_exp u_ln u_pow u_log).

Theorem Float_sub_neg : forall l r : @V FloatVal, neg (a2 FA Sub l r) = a2 FA Sub r l.
Proof. exact (float_sub_neg u_exp u_ln u_pow u_log). Qed.
Theorem Float_sign_laws : SignLaws FA.
Proof. exact (float_sign_laws u_exp u_ln u_pow u_log). Qed.
Theorem Float_diff_laws : DiffLaws FA.
Proof. exact (float_diff_laws u_exp u_ln u_pow u_log). Qed.

(* C01: offline evaluate() computes rho, on floats *)
Theorem C01_rho_float :
  forall (pk : formula -> formula -> pkind) (p : @formula FloatVal) (w : trace) (n : nat),
    1 <= n -> wf_bounds p = true -> wf_trace p w n ->
    eval_off FA pk p w n = tab (rho FA pk p w n) n.
Proof. exact (C01.C01_rho FloatVal FA). Qed.

(* C07, first half: the sign is sound, on floats, no assumption left *)
Theorem C07_sound_float :
  forall (p : @formula FloatVal) (w : trace) (n : nat), is_bool p = true ->
  forall t, (ltb f_zero (rho FA (fun _ _ => PStd) p w n t) = true -> sat FA p w n t = true) /\
            (ltb (rho FA (fun _ _ => PStd) p w n t) f_zero = true -> sat FA p w n t = false).
Proof. exact (C07.C07_sound FloatVal FA Float_sign_laws). Qed.
Theorem C07_ia_float :
  forall (pk : formula -> formula -> pkind) (p : @formula FloatVal) (w : trace) (n : nat), is_bool p = true ->
  forall t, (ltb f_zero (rho FA pk p w n t) = true -> sat FA p w n t = true) /\
            (ltb (rho FA pk p w n t) f_zero = true -> sat FA p w n t = false).
Proof. exact (C07.C07_ia FloatVal FA Float_sign_laws). Qed.
Theorem C07_offline_float :
  forall (p : @formula FloatVal) (w : trace) (n : nat) (d : fv), is_bool p = true -> off_ok p w n ->
  forall t, t < n ->
    let v := nth t (eval_off FA (fun _ _ => PStd) p w n) d in
    (ltb f_zero v = true -> sat FA p w n t = true) /\ (ltb v f_zero = true -> sat FA p w n t = false).
Proof. exact (C07.C07_offline FloatVal FA Float_sign_laws). Qed.
Theorem C07_online_float :
  forall (p : @formula FloatVal) (w : trace) (n len : nat) (d : fv), is_bool p = true -> on_ok p ->
  forall t, t < len ->
    let v := nth t (snd (mon_run FA (fun _ _ => PStd) [p] dict_init w 0 len)) d in
    (ltb f_zero v = true -> sat FA p w n t = true) /\ (ltb v f_zero = true -> sat FA p w n t = false).
Proof. exact (C07.C07_online FloatVal FA Float_sign_laws). Qed.
Theorem C07_dense_float :
  forall (W : list dsig) (tend : Z) (p : @formula FloatVal), dbool p = true ->
  forall t : Z,
    (ltb f_zero (rhoZ FA (fun _ _ => PStd) W tend p t) = true -> satZ FA W tend p t = true) /\
    (ltb (rhoZ FA (fun _ _ => PStd) W tend p t) f_zero = true -> satZ FA W tend p t = false).
Proof. exact (C07.C07_dense FloatVal FA Float_sign_laws). Qed.

(* C04 / C06 dense time: the hypothesis -(l - r) = r - l and DiffLaws are theorems on floats *)
Theorem C04_visitor_float :
  forall (W : list dsig) (tend : Z), (0 <= tend)%Z ->
    (forall s, In s W -> dsorted s /\ s <> [] /\ (forall a v, In (a, v) s -> (a <= tend)%Z)) ->
    (forall s, In s W -> start s = 0%Z) ->
  forall p : @formula FloatVal, dfrag p = true -> wf_bounds p = true -> (nvars p <= length W)%nat ->
    exists s, deval FA p W = Some s /\ dsorted s /\ s <> [] /\ start s = 0%Z /\
      forall t, den_opt s t = if (t <? 0)%Z then None else Some (rhoZ FA (fun _ _ => PStd) W tend p t).
Proof. exact (C04.C04_visitor FloatVal FA Float_sub_neg). Qed.
Theorem C06_dense_visitor_float :
  forall (io : nat -> bool) (sem : semantics) (W : list dsig) (tend : Z), (0 <= tend)%Z ->
    (forall s, In s W -> dsorted s /\ s <> [] /\ (forall a v, In (a, v) s -> (a <= tend)%Z)) ->
    (forall s, In s W -> start s = 0%Z) ->
  forall p : @formula FloatVal, dfrag p = true -> wf_bounds p = true -> (nvars p <= length W)%nat ->
    exists s, deval_pk FA (pk_impl io sem) p W = Some s /\ dsorted s /\ s <> [] /\ start s = 0%Z /\
      forall t, den_opt s t = if (t <? 0)%Z then None else Some (rhoZ FA (pk_spec io sem) W tend p t).
Proof. exact (C06.C06_dense_visitor FloatVal FA Float_sub_neg Float_diff_laws). Qed.

(* C07, second half.  With IEEE "+ eps" / "- eps" the generic hypotheses ShiftLaws hold when predicates compare a
   variable with the constant 0 ... *)
Theorem C07_lipschitz_float_zero :
  forall eps : fv, f_fin eps -> f_leb f_zero eps = true ->
  forall (w w' : trace) (n : nat),
    (forall x i, f_leb (f_dn eps (sig w x i)) (sig w' x i) = true /\ f_leb (sig w' x i) (f_up eps (sig w x i)) = true) ->
  forall p : @formula FloatVal, simple (fun c => c = f_zero) p -> forall t,
    f_leb (f_dn eps (rho FA (fun _ _ => PStd) p w n t)) (rho FA (fun _ _ => PStd) p w' n t) = true /\
    f_leb (rho FA (fun _ _ => PStd) p w' n t) (f_up eps (rho FA (fun _ _ => PStd) p w n t)) = true.
Proof.
  intros eps Fe Pe. exact (C07.C07_lipschitz FloatVal FA (f_up eps) (f_dn eps) _ (float_shift_laws_zero eps Fe Pe u_exp u_ln u_pow u_log)).
Qed.
Theorem C07_robust_float_zero :
  forall eps : fv, f_fin eps -> f_leb f_zero eps = true ->
  forall (w w' : trace) (n : nat),
    (forall x i, f_leb (f_dn eps (sig w x i)) (sig w' x i) = true /\ f_leb (sig w' x i) (f_up eps (sig w x i)) = true) ->
  forall p : @formula FloatVal, simple (fun c => c = f_zero) p -> is_bool p = true -> forall t,
    (ltb f_zero (f_dn eps (rho FA (fun _ _ => PStd) p w n t)) = true -> sat FA p w' n t = true) /\
    (ltb (f_up eps (rho FA (fun _ _ => PStd) p w n t)) f_zero = true -> sat FA p w' n t = false).
Proof.
  intros eps Fe Pe.
  exact (C07.C07_robust FloatVal FA Float_sign_laws (f_up eps) (f_dn eps) _ (float_shift_laws_zero eps Fe Pe u_exp u_ln u_pow u_log)).
Qed.

(* ... and FAIL for finite constants in general: C07_lipschitz and C07_robust are theorems about exact arithmetic.
   eps = 1, spec  x >= -2^53, trace x = 1, perturbed trace x' = 2 (= x + eps):
   rho(w) = fl(1 + 2^53) = 2^53, rho(w) + eps = fl(2^53 + 1) = 2^53, but rho(w') = 2^53 + 2. *)
Definition lip_p : @formula FloatVal := Pred CGeq (Var 0) (Const fl_m2p53).
Lemma close_one_sample (a b : fv) :
  f_leb (f_dn fl_1 a) b = true -> f_leb b (f_up fl_1 a) = true ->
  forall x i, f_leb (f_dn fl_1 (sig [[a]] x i)) (sig [[b]] x i) = true /\ f_leb (sig [[b]] x i) (f_up fl_1 (sig [[a]] x i)) = true.
Proof.
  intros H1 H2 x i. destruct x as [|x].
  - destruct i as [|i]; [split; assumption|]. destruct i; split; vm_compute; reflexivity.
  - destruct x; destruct i; split; vm_compute; reflexivity.
Qed.
Example C07_lipschitz_float_refuted :
  (forall x i, f_leb (f_dn fl_1 (sig [[fl_1]] x i)) (sig [[fl_2]] x i) = true /\ f_leb (sig [[fl_2]] x i) (f_up fl_1 (sig [[fl_1]] x i)) = true) /\
  simple f_fin lip_p /\
  f_leb (rho FA (fun _ _ => PStd) lip_p [[fl_2]] 1 0) (f_up fl_1 (rho FA (fun _ _ => PStd) lip_p [[fl_1]] 1 0)) = false.
Proof.
  split; [apply close_one_sample; vm_compute; reflexivity|]. split; [reflexivity|]. vm_compute. reflexivity.
Qed.

(* the verdict half with a strict predicate: eps = 1, spec x > 2^53, x = 2^53 + 2 (rho = 2, rho - eps = 1 > 0),
   x' = 2^53 satisfies x - eps <= x' in floats (fl(2^53 + 1) = 2^53) and violates the spec *)
Definition rob_p : @formula FloatVal := Pred CGt (Var 0) (Const fl_2p53).
Example C07_robust_float_refuted :
  (forall x i, f_leb (f_dn fl_1 (sig [[fl_2p53p2]] x i)) (sig [[fl_2p53]] x i) = true /\
               f_leb (sig [[fl_2p53]] x i) (f_up fl_1 (sig [[fl_2p53p2]] x i)) = true) /\
  simple f_fin rob_p /\ is_bool rob_p = true /\
  ltb f_zero (f_dn fl_1 (rho FA (fun _ _ => PStd) rob_p [[fl_2p53p2]] 1 0)) = true /\
  sat FA rob_p [[fl_2p53]] 1 0 = false.
Proof.
  split; [apply close_one_sample; vm_compute; reflexivity|]. repeat split; vm_compute; reflexivity.
Qed.

End Inst.

Print Assumptions Float_sub_neg.
Print Assumptions Float_sign_laws.
Print Assumptions Float_diff_laws.
Print Assumptions float_shift_core.
Print Assumptions float_shift_laws_zero.
Print Assumptions float_shift_laws_refuted.
Print Assumptions float_sub_l_weak.
Print Assumptions f_a2_mk.
Print Assumptions mk_eq_iff.
Print Assumptions C01_rho_float.
Print Assumptions C07_sound_float.
Print Assumptions C07_ia_float.
Print Assumptions C07_offline_float.
Print Assumptions C07_online_float.
Print Assumptions C07_dense_float.
Print Assumptions C04_visitor_float.
Print Assumptions C06_dense_visitor_float.
Print Assumptions C07_lipschitz_float_zero.
Print Assumptions C07_robust_float_zero.
Print Assumptions C07_lipschitz_float_refuted.
Print Assumptions C07_robust_float_refuted.
Print Assumptions float_sub_r_weak.
Print Assumptions float_geq_verdict.
Print Assumptions float_leq_verdict.
Print Assumptions mk_leb.
Print Assumptions f_a1_mk.
