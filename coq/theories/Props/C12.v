(* C12 — get_value(name) is the robustness of the formula bound to that name
   evaluated as a stand-alone specification. *)
From Coq Require Import List Arith ZArith.
From RV Require Import Val Syntax Rho Offline ListFacts OfflineCorrect Online OnlineCorrect Shell ExtZ.
Import ListNotations.

(* online: after the k-th update the result stored for the j-th assertion is what a
   stand-alone monitor of that assertion's formula returns at its k-th update *)
Theorem C12_get_online :
  forall (VS : Val) (AR : Arith VS) (pk : formula -> formula -> pkind) (w : trace) (n : nat)
         (F : list formula) (len : nat),
    (forall p, In p F -> past_only p = true /\ wf_bounds p = true) ->
    snd (mon_run_all AR pk F dict_init w 0 len) =
    map (fun k => map (fun p => nth k (snd (mon_run AR pk [p] dict_init w 0 len)) bot) F) (seq 0 len).
Proof. intros VS AR pk w n F len. exact (get_value_online AR pk w n F len). Qed.
Print Assumptions C12_get_online.

(* offline: results[node] of the j-th assertion is the whole signal of its formula, one value per sample *)
Theorem C12_get_offline :
  forall (VS : Val) (AR : Arith VS) (pk : formula -> formula -> pkind) (w : trace) (n : nat) (F : list formula),
    1 <= n ->
    (forall p, In p F -> wf_bounds p = true /\ wf_trace p w n) ->
    map (fun p => eval_off AR pk p w n) F = map (fun p => tab (rho AR pk p w n) n) F.
Proof.
  intros VS AR pk w n F Hn HF. apply map_ext_in. intros p Hp. destruct (HF p Hp) as (H1 & H3).
  apply eval_off_correct; assumption.
Qed.
Print Assumptions C12_get_offline.

Example C12_nonvacuous :
  let q : @formula ExtZVal := Prev (Pred CGeq (Var 0) (Const (Fin 1))) in
  let F := [q; And (Since q q) (Once q)] in
  let w := [[Fin 3; Fin 0; Fin (-1); Fin 4]] in
  snd (mon_run_all ExtZArith (fun _ _ => PStd) F dict_init w 0 4) =
  [[PosInf; PosInf]; [Fin 2; Fin 2]; [Fin (-1); Fin (-1)]; [Fin (-2); Fin (-2)]].
Proof. cbv zeta. vm_compute. reflexivity. Qed.
