(* C12 — get_value(name) is the robustness of the formula bound to that name
   evaluated as a stand-alone specification. *)
From Coq Require Import List Arith ZArith.
From RV Require Import Val Syntax Rho Offline ListFacts OfflineCorrect Online OnlineCorrect Shell ExtZ.
Import ListNotations.

(* online: after the k-th update the result stored for the j-th assertion is what a
   stand-alone monitor of that assertion's formula returns at its k-th update *)
Theorem C12_get_online :
  forall (VS : Val) (AR : Arith VS) (pk : formula -> formula -> pkind) (w : trace) (n : nat)
         (F : list formula) (len : nat),
    (forall p, In p F -> past_only p = true /\ wf_bounds p = true) ->
    snd (mon_run_all AR pk F dict_init w 0 len) =
    map (fun k => map (fun p => nth k (snd (mon_run AR pk [p] dict_init w 0 len)) bot) F) (seq 0 len).
Proof. intros VS AR pk w n F len. exact (get_value_online AR pk w n F len). Qed.
Print Assumptions C12_get_online.

(* offline: results[node] of the j-th assertion is the whole signal of its formula, one value per sample *)
Theorem C12_get_offline :
  forall (VS : Val) (AR : Arith VS) (pk : formula -> formula -> pkind) (w : trace) (n : nat) (F : list formula),
    1 <= n ->
    (forall p, In p F -> wf_bounds p = true /\ wf_trace p w n) ->
    map (fun p => eval_off AR pk p w n) F = map (fun p => tab (rho AR pk p w n) n) F.
Proof.
  intros VS AR pk w n F Hn HF. apply map_ext_in. intros p Hp. destruct (HF p Hp) as (H1 & H3).
  apply eval_off_correct; assumption.
Qed.
Print Assumptions C12_get_offline.

Example C12_nonvacuous :
  let q : @formula ExtZVal := Prev (Pred CGeq (Var 0) (Const (Fin 1))) in
  let F := [q; And (Since q q) (Once q)] in
  let w := [[Fin 3; Fin 0; Fin (-1); Fin 4]] in
  snd (mon_run_all ExtZArith (fun _ _ => PStd) F dict_init w 0 4) =
  [[PosInf; PosInf]; [Fin 2; Fin 2]; [Fin (-1); Fin (-1)]; [Fin (-2); Fin (-2)]].
Proof. cbv zeta. vm_compute. reflexivity. Qed.

(* ------------------------------------------------------------------ *)
(* discrete time, offline: what the code says NOW.  ShellGen.v is regenerated on every build from the text of
   AbstractDiscreteTimeOfflineInterpreter.evaluate / set_variable_to_ast_from_dataset, AbstractAstVisitor.visitAst,
   AbstractAst.get_value and AbstractSpecification.get_value (tools/py2coq_shell.py, fail-closed).  On a data set with a 'time'
   column of n >= 1 stamps that binds every variable the assertions read to a column of n values: evaluate() returns
   Offline.evaluate of the LAST assertion, and afterwards get_value(name) is the whole column Offline.eval_off of the assertion
   bound to the name (hence, by C12_get_offline, tab rho).  gap / update_sampling_violation_counter / create_var_from_name are
   pinned hand-modelled parameters that are assumed not to raise. *)
From RV Require PySem PyShell ShellGen ShellGenCorrect.
Theorem C12_generated_get_offline :
  forall (VS : Val) (AR : Arith VS) (T C D : Type) (gap : T -> T -> outcome D) (upd_svc : D -> C -> outcome C) (svc0 : C)
         (create_var : nat -> outcome PyShell.vobj),
    (forall x, create_var x = Ok PyShell.VDefault) -> (forall a b, exists d, gap a b = Ok d) ->
    (forall d c, exists c', upd_svc d c = Ok c') ->
    forall (s : PyShell.st T C) (ds : PyShell.dataset T) (ts : list T),
      PyShell.ds_time ds = Some ts -> 1 <= length ts -> PyShell.specs s <> [] -> (forall x, a1 AR Neg x = neg x) ->
      let vod := PyShell.var_object_dict (ShellGenCorrect.load s ds) in
      let w := PyShell.trace_of vod in
      (forall nd, In nd (PyShell.specs s) ->
         PyShell.vars_bound vod (snd nd) = true /\ wf_bounds (snd nd) = true /\ wf_trace (snd nd) w (length ts)) ->
      exists r s',
        ShellGen.gen_evaluate AR gap upd_svc svc0 create_var s ds = Ok (r, s') /\
        Ok r = evaluate AR (fun _ _ => PStd) (snd (last (PyShell.specs s) (0, Var 0))) ts w /\
        PyShell.inputs s' = PyShell.inputs (ShellGenCorrect.load s ds) /\
        forall name id p, PyShell.dict_get (PyShell.phi_name_to_node_dict s) name = Some id -> In (id, p) (PyShell.specs s) ->
          (forall p', In (id, p') (PyShell.specs s) -> p' = p) ->
          ShellGen.gen_spec_get_value s' name = Ok (PyShell.VCol (eval_off AR (fun _ _ => PStd) p w (length ts))).
Proof. exact @ShellGenCorrect.shell_gen_refines. Qed.
Print Assumptions C12_generated_get_offline.

(* ------------------------------------------------------------------ *)
(* dense time, online (models DenseOnlineMon.v / DenseOnlineForest.v)  *)
(* ------------------------------------------------------------------ *)
From RV Require Dense DenseSem DenseMerge DenseMergeCorrect DenseOnlineMergeCorrect DenseOnlineMon DenseOnlineMonCorrect DenseOnlineMonMore DenseIA
  DenseOnlineForest DenseOnlineForestCorrect.

(* EVERY forest of assertions (no fragment, any predicate kinds), every sequence of updates that does not raise: the
   results recorded for assertion j, update after update (what get_value(name_j) returns after each update), are the
   lists a stand-alone monitor of formula j returns for the same data sets.  rs: per update, the memo and the list of
   the assertions' results; forest_get j = the j-th result. *)
Theorem C12_dense_get_online :
  forall (VS : Val) (AR : Arith VS) (pk : formula -> formula -> pkind) (F : list formula)
         (envs : list (list Dense.dsig)) d rs (j : nat) (p : formula),
    DenseOnlineForest.forest_run AR pk F (DenseOnlineForest.forest_init F) envs = Some (d, rs) ->
    nth_error F j = Some p ->
    exists dj, DenseOnlineMon.mon_run AR pk p (DenseOnlineMon.mon_init p) envs = Some (dj, map (DenseOnlineForest.forest_get j) rs).
Proof. exact @DenseOnlineForestCorrect.forest_get_standalone. Qed.
Print Assumptions C12_dense_get_online.

(* the same for get_value(printed text of any sub-formula a of an assertion): results[node] of every reachable node *)
Theorem C12_dense_get_sub_online :
  forall (VS : Val) (AR : Arith VS) (pk : formula -> formula -> pkind) (F : list formula)
         (envs : list (list Dense.dsig)) d rs (r a : formula),
    DenseOnlineForest.forest_run AR pk F (DenseOnlineForest.forest_init F) envs = Some (d, rs) ->
    In r F -> In a (DenseOnlineMonCorrect.subs r) ->
    exists da os, DenseOnlineMon.mon_run AR pk a (DenseOnlineMon.mon_init a) envs = Some (da, os) /\
                  map (DenseOnlineForest.forest_get_sub a) rs = map Some os.
Proof. exact @DenseOnlineForestCorrect.forest_get_sub_standalone. Qed.
Print Assumptions C12_dense_get_sub_online.

(* and an update of the forest raises exactly when an update of the stand-alone monitor of some assertion raises *)
Theorem C12_dense_raises :
  forall (VS : Val) (AR : Arith VS) (pk : formula -> formula -> pkind) (F : list formula) (envs : list (list Dense.dsig)),
    DenseOnlineForest.forest_run AR pk F (DenseOnlineForest.forest_init F) envs = None <->
    exists p, In p F /\ DenseOnlineMon.mon_run AR pk p (DenseOnlineMon.mon_init p) envs = None.
Proof. exact @DenseOnlineForestCorrect.forest_raises_iff. Qed.
Print Assumptions C12_dense_raises.

(* assertions of the proved fragment with a variable (the hypotheses of C05_monitor_general on every assertion): no
   update raises, and what is recorded for assertion j has finite stamps and denotes rhoZ of formula j, at every tick
   from 0 to the last stamp returned, which is never beyond the last sample of a variable of formula j *)
Theorem C12_dense_get_online_correct :
  forall (VS : Val) (AR : Arith VS) (pk : formula -> formula -> pkind),
    (forall f g, pk f g = PStd) \/ DenseIA.DiffLaws AR -> (forall l r : V, neg (a2 AR Sub l r) = a2 AR Sub r l) ->
    forall (F : list formula) (W : list Dense.dsig) (tend : Z) (envs : list (list Dense.dsig)),
      (forall x, DenseOnlineMonCorrect.feedsI [] (map (fun env => nth x env []) envs) (nth x W [])) ->
      (forall x, DenseMergeCorrect.dsorted (nth x W [])) ->
      (forall x, nth x W [] <> [] -> Dense.start (nth x W []) = 0%Z) ->
      (forall p, In p F -> DenseOnlineMonMore.cl p = DenseOnlineMonMore.COpen /\ DenseOnlineMonMore.safe AR pk W tend p) ->
      exists d rs,
        DenseOnlineForest.forest_run AR pk F (DenseOnlineForest.forest_init F) envs = Some (d, rs) /\ length rs = length envs /\
        forall j p, nth_error F j = Some p ->
          exists dj outs S,
            DenseOnlineMon.mon_run_fin AR pk p (DenseOnlineMon.mon_init p) envs = Some (dj, outs) /\
            map (DenseOnlineForest.forest_get j) rs = map DenseOnlineMon.lift outs /\
            DenseOnlineMonCorrect.feedsI [] outs S /\ DenseMergeCorrect.dsorted S /\
            DenseOnlineMergeCorrect.wsorted (concat outs) /\
            (forall a v, In (a, v) (concat outs) -> (0 <= a <= DenseOnlineMergeCorrect.lastT (concat outs))%Z) /\
            (forall t, concat outs <> [] -> (0 <= t <= DenseOnlineMergeCorrect.lastT (concat outs))%Z ->
                       Dense.den_opt (concat outs) t = Some (DenseSem.rhoZ AR pk W tend p t)) /\
            (forall x, In x (DenseOnlineMonCorrect.fvars p) ->
                       (DenseOnlineMergeCorrect.lastT (concat outs) <= DenseOnlineMergeCorrect.lastT (nth x W []))%Z) /\
            (DenseOnlineMonMore.pg p = true ->
               exists x, In x (DenseOnlineMonCorrect.fvars p) /\
                         DenseOnlineMergeCorrect.lastT (concat outs) = DenseOnlineMergeCorrect.lastT (nth x W [])).
Proof. exact @DenseOnlineForestCorrect.forest_online_correct. Qed.
Print Assumptions C12_dense_get_online_correct.

Example C12_dense_nonvacuous :
  (* sp = once[0,2](x0 >= 1);  out = (sp since sp) and not(sp): two updates; per update the results of (sp, out) *)
  let q : @formula ExtZVal := OnceT 0 2 (Pred CGeq (Var 0) (Const (Fin 1))) in
  let F := [q; And (Since q q) (Not q)] in
  let envs := [[[(0%Z, Fin 3); (2%Z, Fin 0)]]; [[(5%Z, Fin (-1)); (6%Z, Fin 4)]]] in
  (forall p, In p F -> DenseOnlineMonMore.cl p = DenseOnlineMonMore.COpen) /\
  option_map (fun x => map snd (snd x)) (DenseOnlineForest.forest_run ExtZArith (fun _ _ => PStd) F (DenseOnlineForest.forest_init F) envs)
    = Some [[[(DenseMerge.T 0%Z, Fin 2); (DenseMerge.T 2%Z, Fin 2)]; [(DenseMerge.T 0%Z, Fin (-2))]];
            [[(DenseMerge.T 2%Z, Fin 2); (DenseMerge.T 4%Z, Fin (-1)); (DenseMerge.T 6%Z, Fin 3)]; [(DenseMerge.T 4%Z, Fin (-1))]]].
Proof.
  cbv zeta. split.
  - intros p [<-|[<-|[]]]; vm_compute; reflexivity.
  - vm_compute. reflexivity.
Qed.
