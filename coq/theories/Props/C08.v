(* C08 — temporal bounds denote physical durations whatever the unit notation. *)
From Coq Require Import ZArith QArith List.
From RV Require Import Offline Units.
Local Open Scope Q_scope.

(* the bound in samples times the period is exactly the duration: never rounded *)
Theorem C08_exact :
  forall du p pu i b e, (0 < p)%Z -> 0 <= ib i -> 0 <= ie i ->
    to_samples du p pu i = Ok (b, e) ->
    inject_Z (Z.of_nat b) * period_ns p pu == begin_ns du i /\
    inject_Z (Z.of_nat e) * period_ns p pu == end_ns du i.
Proof. exact to_samples_exact. Qed.
Print Assumptions C08_exact.

(* a bound that is not an integer multiple of the sampling period is rejected *)
Theorem C08_reject :
  forall du p pu i,
    is_int (begin_ns du i / period_ns p pu) = false \/ is_int (end_ns du i / period_ns p pu) = false ->
    to_samples du p pu i = Rtamt.
Proof. exact to_samples_reject. Qed.
Print Assumptions C08_reject.

(* equivalent spellings (units on either or both ends, default unit, period unit) give the same bounds *)
Theorem C08_spelling :
  forall du1 p1 pu1 i1 du2 p2 pu2 i2,
    begin_ns du1 i1 == begin_ns du2 i2 -> end_ns du1 i1 == end_ns du2 i2 ->
    period_ns p1 pu1 == period_ns p2 pu2 ->
    to_samples du1 p1 pu1 i1 = to_samples du2 p2 pu2 i2.
Proof. exact to_samples_spelling. Qed.
Print Assumptions C08_spelling.

(* dense time: the bound handed to the operators, in default units, denotes the duration *)
Theorem C08_dense :
  forall du i,
    fst (to_default du i) * inject_Z (uval du) == begin_ns du i /\
    snd (to_default du i) * inject_Z (uval du) == end_ns du i.
Proof. exact to_default_exact. Qed.
Print Assumptions C08_dense.

Example C08_nonvacuous :
  (* once[500ms, 1.5] with default unit s and a period of 500000 us = once[1000000us:1500ms] ... = samples (1,3) *)
  to_samples US 500000 UUS {| ib := 500; ie := 3#2; ibu := Some UMS; ieu := None |} = Rtamt /\
  to_samples US 500000 UUS {| ib := 1#2; ie := 1500; ibu := None; ieu := Some UMS |} = Rtamt /\
  to_samples US 500000 UUS {| ib := 1#2; ie := 3#2; ibu := None; ieu := None |} = Ok (1%nat, 3%nat) /\
  to_samples UMS 500 UMS {| ib := 500000; ie := 1500; ibu := Some UUS; ieu := Some UMS |} = Ok (1%nat, 3%nat) /\
  to_samples US 1 US {| ib := 500; ie := 1500; ibu := Some UMS; ieu := Some UMS |} = Rtamt.
Proof. repeat split; vm_compute; reflexivity. Qed.
