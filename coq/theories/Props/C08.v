(* C08 — temporal bounds denote physical durations whatever the unit notation. *)
From Coq Require Import ZArith QArith List String.
From RV Require Import PyUnits UnitsGen.    (* before UnitsLift: `normalize` below is UnitsLift.normalize, not the attribute of the interpreter *)
From RV Require Import Val Syntax Rho Offline Pastify Units UnitsLift UnitsLiftCorrect ExtZ.
From RV Require Import UnitsGenCorrect.
Import ListNotations.
Local Open Scope Q_scope.

(* the bound in samples times the period is exactly the duration: never rounded *)
Theorem C08_exact :
  forall du p pu i b e, (0 < p)%Z -> 0 <= ib i -> 0 <= ie i ->
    to_samples du p pu i = Ok (b, e) ->
    inject_Z (Z.of_nat b) * period_ns p pu == begin_ns du i /\
    inject_Z (Z.of_nat e) * period_ns p pu == end_ns du i.
Proof. exact to_samples_exact. Qed.
Print Assumptions C08_exact.

(* a bound that is not an integer multiple of the sampling period is rejected *)
Theorem C08_reject :
  forall du p pu i,
    is_int (begin_ns du i / period_ns p pu) = false \/ is_int (end_ns du i / period_ns p pu) = false ->
    to_samples du p pu i = Rtamt.
Proof. exact to_samples_reject. Qed.
Print Assumptions C08_reject.

(* equivalent spellings (units on either or both ends, default unit, period unit) give the same bounds *)
Theorem C08_spelling :
  forall du1 p1 pu1 i1 du2 p2 pu2 i2,
    begin_ns du1 i1 == begin_ns du2 i2 -> end_ns du1 i1 == end_ns du2 i2 ->
    period_ns p1 pu1 == period_ns p2 pu2 ->
    to_samples du1 p1 pu1 i1 = to_samples du2 p2 pu2 i2.
Proof. exact to_samples_spelling. Qed.
Print Assumptions C08_spelling.

(* dense time: the bound handed to the operators, in default units, denotes the duration *)
Theorem C08_dense :
  forall du i,
    fst (to_default du i) * inject_Z (uval du) == begin_ns du i /\
    snd (to_default du i) * inject_Z (uval du) == end_ns du i.
Proof. exact to_default_exact. Qed.
Print Assumptions C08_dense.

Example C08_nonvacuous :
  (* once[500ms, 1.5] with default unit s and a period of 500000 us = once[1000000us:1500ms] ... = samples (1,3) *)
  to_samples US 500000 UUS {| ib := 500; ie := 3#2; ibu := Some UMS; ieu := None |} = Rtamt /\
  to_samples US 500000 UUS {| ib := 1#2; ie := 1500; ibu := None; ieu := Some UMS |} = Rtamt /\
  to_samples US 500000 UUS {| ib := 1#2; ie := 3#2; ibu := None; ieu := None |} = Ok (1%nat, 3%nat) /\
  to_samples UMS 500 UMS {| ib := 500000; ie := 1500; ibu := Some UUS; ieu := Some UMS |} = Ok (1%nat, 3%nat) /\
  to_samples US 1 US {| ib := 500; ie := 1500; ibu := Some UMS; ieu := Some UMS |} = Rtamt.
Proof. repeat split; vm_compute; reflexivity. Qed.

(* ---------- whole formulas (UnitsLift.v: every temporal node carries its interval as it is written) ---------- *)

(* two specifications of the same shape whose corresponding bounds denote the same durations (units on either end,
   default unit, declared constants), under settings whose sampling periods denote the same duration, are normalised
   to the SAME core formula, or are rejected in the same class *)
Theorem C08_formula_spelling :
  forall (VS : Val) st1 ce1 (u1 : uformula) st2 ce2 (u2 : uformula),
    same_period st1 st2 ->
    brel (same_duration (s_du st1) ce1 (s_du st2) ce2) u1 u2 ->
    normalize st1 ce1 u1 = normalize st2 ce2 u2.
Proof. exact @normalize_spelling. Qed.
Print Assumptions C08_formula_spelling.

(* hence identical outputs on identical inputs: offline, online, and both after pastify() *)
Theorem C08_formula_monitors :
  forall (VS : Val) (AR : Arith VS) (pk : formula -> formula -> pkind) st1 ce1 (u1 : uformula) st2 ce2 (u2 : uformula),
    same_period st1 st2 ->
    brel (same_duration (s_du st1) ce1 (s_du st2) ce2) u1 u2 ->
    (forall (T : Type) (ts : list T) w, spec_evaluate AR pk st1 ce1 u1 ts w = spec_evaluate AR pk st2 ce2 u2 ts w) /\
    (forall w n, spec_online AR pk st1 ce1 u1 w n = spec_online AR pk st2 ce2 u2 w n) /\
    (forall dk w n, spec_pastified_online AR pk dk st1 ce1 u1 w n = spec_pastified_online AR pk dk st2 ce2 u2 w n) /\
    (forall (T : Type) dk (ts : list T) w,
       spec_pastified_evaluate AR pk dk st1 ce1 u1 ts w = spec_pastified_evaluate AR pk dk st2 ce2 u2 ts w).
Proof. exact @monitors_spelling. Qed.
Print Assumptions C08_formula_monitors.

(* one bound, anywhere in the specification, that is not a whole number of sampling periods: RTAMTException *)
Theorem C08_formula_reject :
  forall (VS : Val) st ce (u : uformula) ub i,
    In ub (bounds u) -> resolve_bound ce ub = Ok i ->
    is_int (begin_ns (s_du st) i / period_q (s_p st) (s_pu st)) = false \/
    is_int (end_ns (s_du st) i / period_q (s_p st) (s_pu st)) = false ->
    normalize st ce u = Rtamt.
Proof. exact @normalize_reject. Qed.
Print Assumptions C08_formula_reject.

Theorem C08_formula_reject_monitors :
  forall (VS : Val) (AR : Arith VS) (pk : formula -> formula -> pkind) st ce (u : uformula) ub i,
    In ub (bounds u) -> resolve_bound ce ub = Ok i ->
    is_int (begin_ns (s_du st) i / period_q (s_p st) (s_pu st)) = false \/
    is_int (end_ns (s_du st) i / period_q (s_p st) (s_pu st)) = false ->
    (forall (T : Type) (ts : list T) w, spec_evaluate AR pk st ce u ts w = Rtamt) /\
    (forall w n, spec_online AR pk st ce u w n = Rtamt) /\
    (forall dk w n, spec_pastified_online AR pk dk st ce u w n = Rtamt) /\
    (forall (T : Type) dk (ts : list T) w, spec_pastified_evaluate AR pk dk st ce u ts w = Rtamt).
Proof. exact @monitors_reject. Qed.
Print Assumptions C08_formula_reject_monitors.

(* nothing is rounded anywhere: the sample counts of the normalised formula times the period are the written durations *)
Theorem C08_formula_exact :
  forall (VS : Val) st ce (u : uformula) p,
    normalize st ce u = Ok p ->
    Forall2 (fun ub be => exists i, resolve_bound ce ub = Ok i /\
               inject_Z (Z.of_nat (fst be)) * period_q (s_p st) (s_pu st) == begin_ns (s_du st) i /\
               inject_Z (Z.of_nat (snd be)) * period_q (s_p st) (s_pu st) == end_ns (s_du st) i)
            (bounds u) (bounds (of_formula p)).
Proof. exact @normalize_exact. Qed.
Print Assumptions C08_formula_exact.

(* the normalisation raises RTAMTException or nothing *)
Theorem C08_formula_no_other_exception :
  forall (VS : Val) st ce (u : uformula), normalize st ce u <> Crash.
Proof. exact @normalize_no_crash. Qed.
Print Assumptions C08_formula_no_other_exception.

(* dense time: never rejected for being off a grid (only by the parser, or for a bound beyond the floats) *)
Theorem C08_formula_dense_total :
  forall (VS : Val) du ce (u : uformula) v,
    parse_bounds du ce u = Ok v ->
    (forall i, In i (bounds v) ->
       float_overflow (Qred (fst (to_default du i))) = false /\ float_overflow (Qred (snd (to_default du i))) = false) ->
    exists q, normalize_dense du ce u = Ok q.
Proof. exact @normalize_dense_total. Qed.
Print Assumptions C08_formula_dense_total.

(* dense time, same default unit: same bounds, same results of both dense monitors *)
Theorem C08_formula_dense :
  forall (VS : Val) (AR : Arith VS) (pk : formula -> formula -> pkind) du tick ce1 (u1 : uformula) ce2 (u2 : uformula),
    brel (same_duration du ce1 du ce2) u1 u2 ->
    normalize_dense du ce1 u1 = normalize_dense du ce2 u2 /\
    (forall W, spec_dense_evaluate AR pk du tick ce1 u1 W = spec_dense_evaluate AR pk du tick ce2 u2 W) /\
    (forall bs, spec_dense_online AR pk du tick ce1 u1 bs = spec_dense_online AR pk du tick ce2 u2 bs).
Proof.
  intros VS AR pk du tick ce1 u1 ce2 u2 H. split.
  - exact (normalize_dense_spelling du ce1 u1 ce2 u2 H).
  - exact (dense_monitors_spelling AR pk du tick ce1 u1 ce2 u2 H).
Qed.
Print Assumptions C08_formula_dense.

(* dense time, default units (= unit of the time stamps) that differ: same results on ticks of the same duration *)
Theorem C08_formula_dense_units :
  forall (VS : Val) (AR : Arith VS) (pk : formula -> formula -> pkind)
         du1 tick1 ce1 (u1 : uformula) du2 tick2 ce2 (u2 : uformula) q1 q2,
    0 < tick1 -> 0 < tick2 ->
    tick1 * inject_Z (uval du1) == tick2 * inject_Z (uval du2) ->
    brel (same_duration du1 ce1 du2 ce2) u1 u2 ->
    normalize_dense du1 ce1 u1 = Ok q1 -> normalize_dense du2 ce2 u2 = Ok q2 ->
    (forall W, spec_dense_evaluate AR pk du1 tick1 ce1 u1 W = spec_dense_evaluate AR pk du2 tick2 ce2 u2 W) /\
    (forall bs, spec_dense_online AR pk du1 tick1 ce1 u1 bs = spec_dense_online AR pk du2 tick2 ce2 u2 bs).
Proof. exact @dense_monitors_units. Qed.
Print Assumptions C08_formula_dense_units.

(* the conversion functions GENERATED from the Python text on every build (tools/py2coq_units.py -> UnitsGen.v) compute the hand models
   above: the unit dictionaries of the interpreter and of the AST are uval; DiscreteTimeInterpreter.time_unit_transformer returns the
   two ints of to_samples_z or fails in the same class (RTAMTException / another exception); DenseTimeInterpreter.time_unit_transformer
   returns the bounds of to_dense (an int by value, a float as the reduced rational it rounds) or RTAMTException,
   a bound being a Python int exactly when it is a whole number of default units;
   check_pastified_bounds converts every stored interval, the first failure is its result *)
Theorem C08_generated_conversion :
  (forall u, gen_U u = uval u) /\ (forall u, gen_ast_U u = uval u) /\
  (forall s i, to_outcome (gen_time_unit_transformer s i) =
               to_samples_z (ast_unit (dti_ast s)) (sampling_period s) (sampling_period_unit s) i) /\
  (forall s i, to_outcome (res_map nn_val (gen_dense_time_unit_transformer s i)) = to_dense (ast_unit (dnti_ast s)) i) /\
  (forall s i b e, gen_dense_time_unit_transformer s i = Ret (b, e) ->
     is_nint b = is_int (fst (to_default (ast_unit (dnti_ast s)) i)) /\ is_nint e = is_int (snd (to_default (ast_unit (dnti_ast s)) i))) /\
  (forall s, to_outcome (gen_check_pastified_bounds s) =
             rmap (fun _ => s) (check_all (to_samples_z (ast_unit (dti_ast s)) (sampling_period s) (sampling_period_unit s))
                                          (ast_pastified_intervals (dti_ast s)))).
Proof. exact @units_gen_refines. Qed.
Print Assumptions C08_generated_conversion.

(* non-vacuity, on the executable instance:
     default unit s,  period 500000 us:  (once[500ms, 1500] (x0 >= 1)) since[k0 : k1 s] (always[0, 2000ms] (x1 >= 0))   with k0 = 0, k1 = 1
     default unit ms, period 0.5 s    :  (once[0.5s, 1500000us] (x0 >= 1)) since[0 : 1000] (always[0us, c] (x1 >= 0))  with c = 2000000
   (a unit on one end only is the unit of both ends)
   are related, are both normalised to (once[1,3] ..) since[0,2] (always[0,4] ..); with one bound moved by 1 ms both are rejected,
   and the dense monitors accept that specification *)
Section Examples.
Local Open Scope string_scope.
Let leaf (x : nat) (c : Z) : @uformula ExtZVal := BBin (OPred CGeq) (BVar x) (BConst (Fin c)).
Let ex1 : @uformula ExtZVal :=
  BBinT TSince {| u_b := UId "k0"; u_bu := None; u_e := UId "k1"; u_eu := Some US |}
    (BUnT TOnce {| u_b := ULit 500; u_bu := Some UMS; u_e := ULit 1500; u_eu := None |} (leaf 0 1))
    (BUnT TAlw {| u_b := ULit 0; u_bu := None; u_e := ULit 2000; u_eu := Some UMS |} (leaf 1 0)).
Let ex2 : @uformula ExtZVal :=
  BBinT TSince {| u_b := ULit 0; u_bu := None; u_e := ULit 1000; u_eu := None |}
    (BUnT TOnce {| u_b := ULit (1 # 2); u_bu := Some US; u_e := ULit 1500000; u_eu := Some UUS |} (leaf 0 1))
    (BUnT TAlw {| u_b := ULit 0; u_bu := Some UUS; u_e := UId "c"; u_eu := None |} (leaf 1 0)).
Let ex3 : @uformula ExtZVal :=
  BBinT TSince {| u_b := ULit 0; u_bu := None; u_e := ULit 1000; u_eu := None |}
    (BUnT TOnce {| u_b := ULit (501 # 1000); u_bu := Some US; u_e := ULit 1500000; u_eu := Some UUS |} (leaf 0 1))
    (BUnT TAlw {| u_b := ULit 0; u_bu := Some UUS; u_e := UId "c"; u_eu := None |} (leaf 1 0)).
Let st1 := {| s_du := US; s_p := 500000; s_pu := UUS |}.
Let st2 := {| s_du := UMS; s_p := 1 # 2; s_pu := US |}.
Let ce1 : cenv := [("k0", Some 0); ("k1", Some 1)].
Let ce2 : cenv := [("c", Some 2000000)].
Let core : @formula ExtZVal :=
  SinceT 0 2 (OnceT 1 3 (Pred CGeq (Var 0) (Const (Fin 1)))) (AlwT 0 4 (Pred CGeq (Var 1) (Const (Fin 0)))).

Example C08_formula_nonvacuous :
  same_period st1 st2 /\
  brel (same_duration (s_du st1) ce1 (s_du st2) ce2) ex1 ex2 /\
  normalize st1 ce1 ex1 = Ok core /\ normalize st2 ce2 ex2 = Ok core /\
  normalize st2 ce2 ex3 = Rtamt /\
  normalize st2 [] ex2 = Rtamt /\
  (exists q, normalize_dense (s_du st2) ce2 ex3 = Ok q /\ on_ticks 250 q = false /\ on_ticks 1 q = true) /\
  (exists q1 q2, normalize_dense US ce1 ex1 = Ok q1 /\ normalize_dense UMS ce2 ex2 = Ok q2 /\
                 tick_formula (1 # 4) q1 = tick_formula 250 q2 /\ on_ticks (1 # 4) q1 = true).
Proof.
  split; [reflexivity|]. split.
  { unfold ex1, ex2, leaf.
    repeat first [ apply RBinT | apply RUnT | apply RBin | apply RVar | apply RConst | (vm_compute; split; reflexivity) ]. }
  split; [vm_compute; reflexivity|]. split; [vm_compute; reflexivity|].
  split; [vm_compute; reflexivity|]. split; [vm_compute; reflexivity|].
  split.
  - eexists. split; [vm_compute; reflexivity|]. split; vm_compute; reflexivity.
  - eexists. eexists. split; [vm_compute; reflexivity|]. split; [vm_compute; reflexivity|]. split; vm_compute; reflexivity.
Qed.
End Examples.
