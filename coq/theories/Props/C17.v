(* C17 — outcome classes: supported constructs evaluate, unsupported ones are
   rejected with RTAMTException, never another exception.  The model contains
   only the crash paths written into it; that there are no others in the code
   is what the correspondence stream of degenerate shapes validates (partial). *)
From Coq Require Import List Arith ZArith.
From RV Require Import Val Syntax Rho Offline ListFacts OfflineCorrect Online OnlineCorrect Support ExtZ.
Import ListNotations.

(* discrete offline: every construct is supported (also precedes[b,e], so every pastified specification);
   every well-formed data set, including one-sample traces, yields a value *)
Theorem C17_offline_supports_all :
  forall (VS : Val) (p q : formula), supported DiscOff p = true /\ supported_pastified DiscOff p q = true.
Proof. intros VS p q. split; reflexivity. Qed.
Print Assumptions C17_offline_supports_all.

Theorem C17_ok_offline :
  forall (VS : Val) (AR : Arith VS) (pk : formula -> formula -> pkind) (T : Type)
         (p : formula) (ts : list T) (w : trace),
    1 <= length ts -> wf_bounds p = true -> wf_trace p w (length ts) ->
    exists r, evaluate AR pk p ts w = Ok r /\ length r = length ts.
Proof.
  intros VS AR pk T p ts w Hn Hb Hw.
  exists (combine ts (tab (rho AR pk p w (length ts)) (length ts))). split.
  - apply evaluate_correct; assumption.
  - rewrite combine_length, tab_length. apply Nat.min_id.
Qed.
Print Assumptions C17_ok_offline.

(* discrete online: one value per update for every supported forest *)
Theorem C17_ok_online :
  forall (VS : Val) (AR : Arith VS) (pk : formula -> formula -> pkind) (w : trace) (n : nat) (F : list formula) (len : nat),
    F <> [] -> (forall p, In p F -> supported DiscOn p = true /\ wf_bounds p = true) ->
    length (snd (mon_run AR pk F dict_init w 0 len)) = len.
Proof.
  intros VS AR pk w n F len Hne HF.
  rewrite (online_correct AR pk w n F len Hne HF). apply tab_length.
Qed.
Print Assumptions C17_ok_online.

(* every monitor kind: an unsupported construct is rejected, and nothing ever crashes in the model *)
Theorem C17_reject :
  forall (VS : Val) (k : mkind) (p : formula), supported k p = false -> first_eval k p = Rtamt.
Proof. exact @first_eval_reject. Qed.
Print Assumptions C17_reject.

(* after pastify(): next / s_next (and every other sample operator) in a dense-time monitor stay rejected, although the
   pastified formula no longer contains them *)
Theorem C17_reject_pastified :
  forall (VS : Val) (k : mkind) (p q : formula),
    k = DenseOff \/ k = DenseOn -> no_sample_ops p = false -> supported_pastified k p q = false.
Proof. exact @pastified_sample_ops_rejected. Qed.
Print Assumptions C17_reject_pastified.

Theorem C17_never_other_exception :
  forall (VS : Val) (k : mkind) (p : formula), first_eval k p <> Crash.
Proof. exact @first_eval_never_crashes. Qed.
Print Assumptions C17_never_other_exception.

Example C17_nonvacuous :
  let p : @formula ExtZVal := Or (UntilT 0 1 (Var 0) (Var 1)) (Once (Var 0)) in
  supported DiscOff p = true /\ supported DiscOn p = false /\ supported DenseOff p = true /\ supported DenseOn p = false /\
  supported DenseOff (SPrev (Var 0)) = false /\
  (* the pastified form of p: supported by both discrete-time monitors, by no dense-time monitor *)
  let q : @formula ExtZVal := Or (Precedes 0 1 (Var 0) (Var 1)) (OnceT 1 1 (Once (Var 0))) in
  supported DiscOff q = true /\ supported DiscOn q = true /\ supported DenseOff q = false /\ supported DenseOn q = false.
Proof. repeat split. Qed.
