(* C17 — outcome classes: supported constructs evaluate, unsupported ones are
   rejected with RTAMTException, never another exception.  The model contains
   only the crash paths written into it; that there are no others in the code
   is what the correspondence stream of degenerate shapes validates (partial). *)
From Coq Require Import List Arith ZArith.
From RV Require Import Val Syntax Rho Offline ListFacts OfflineCorrect Online OnlineCorrect Support ExtZ.
From RV Require Dense DenseSem DenseMergeCorrect DenseEval DenseVisitor DenseConst DenseEvalMain DenseIA DenseOnlineMon DenseOnlineMonCorrect DenseOnlineMonMore.
Import ListNotations.

(* discrete offline: every construct is supported (also precedes[b,e], so every pastified specification);
   every well-formed data set, including one-sample traces, yields a value *)
Theorem C17_offline_supports_all :
  forall (VS : Val) (p q : formula), supported DiscOff p = true /\ supported_pastified DiscOff p q = true.
Proof. intros VS p q. split; reflexivity. Qed.
Print Assumptions C17_offline_supports_all.

Theorem C17_ok_offline :
  forall (VS : Val) (AR : Arith VS) (pk : formula -> formula -> pkind) (T : Type)
         (p : formula) (ts : list T) (w : trace),
    1 <= length ts -> wf_bounds p = true -> wf_trace p w (length ts) ->
    exists r, evaluate AR pk p ts w = Ok r /\ length r = length ts.
Proof.
  intros VS AR pk T p ts w Hn Hb Hw.
  exists (combine ts (tab (rho AR pk p w (length ts)) (length ts))). split.
  - apply evaluate_correct; assumption.
  - rewrite combine_length, tab_length. apply Nat.min_id.
Qed.
Print Assumptions C17_ok_offline.

(* discrete online: one value per update for every supported forest *)
Theorem C17_ok_online :
  forall (VS : Val) (AR : Arith VS) (pk : formula -> formula -> pkind) (w : trace) (n : nat) (F : list formula) (len : nat),
    F <> [] -> (forall p, In p F -> supported DiscOn p = true /\ wf_bounds p = true) ->
    length (snd (mon_run AR pk F dict_init w 0 len)) = len.
Proof.
  intros VS AR pk w n F len Hne HF.
  rewrite (online_correct AR pk w n F len Hne HF). apply tab_length.
Qed.
Print Assumptions C17_ok_online.

(* every monitor kind: an unsupported construct is rejected, and nothing ever crashes in the model *)
Theorem C17_reject :
  forall (VS : Val) (k : mkind) (p : formula), supported k p = false -> first_eval k p = Rtamt.
Proof. exact @first_eval_reject. Qed.
Print Assumptions C17_reject.

(* after pastify(): next / s_next (and every other sample operator) in a dense-time monitor stay rejected, although the
   pastified formula no longer contains them *)
Theorem C17_reject_pastified :
  forall (VS : Val) (k : mkind) (p q : formula),
    k = DenseOff \/ k = DenseOn -> no_sample_ops p = false -> supported_pastified k p q = false.
Proof. exact @pastified_sample_ops_rejected. Qed.
Print Assumptions C17_reject_pastified.

Theorem C17_never_other_exception :
  forall (VS : Val) (k : mkind) (p : formula), first_eval k p <> Crash.
Proof. exact @first_eval_never_crashes. Qed.
Print Assumptions C17_never_other_exception.

(* ---- dense time: the supported constructs evaluate (the models of the two dense-time monitors return a value, i.e. reach no raise) ---- *)

(* the fragment of the dense-time offline correctness theorem is exactly what that monitor supports *)
Lemma dfrag_is_supported : forall (VS : Val) (p : formula), DenseConst.dfrag p = supported DenseOff p.
Proof.
  intros VS p. cbn [supported].
  induction p; cbn [DenseConst.dfrag no_sample_ops]; try reflexivity; try exact IHp; rewrite IHp1, IHp2; reflexivity.
Qed.

(* dense offline: every supported well-formed formula on strictly increasing non-empty signals that start at 0 yields a value
   (a non-empty list with increasing stamps); C04_visitor says which one *)
Theorem C17_ok_dense_offline :
  forall (VS : Val) (AR : Arith VS), (forall l r, neg (a2 AR Sub l r) = a2 AR Sub r l) ->
  forall (W : list Dense.dsig) (tend : Z), (0 <= tend)%Z ->
    (forall s, In s W -> DenseMergeCorrect.dsorted s /\ s <> [] /\ (forall a v, In (a, v) s -> (a <= tend)%Z)) ->
    (forall s, In s W -> Dense.start s = 0%Z) ->
  forall p, supported DenseOff p = true -> wf_bounds p = true -> (nvars p <= length W)%nat ->
    exists s, DenseVisitor.deval AR p W = Some s /\ DenseMergeCorrect.dsorted s /\ s <> [].
Proof.
  intros VS AR SN W tend Ht HW H0 p Hs Hb Hn. rewrite <- dfrag_is_supported in Hs.
  destruct (DenseEvalMain.deval_correct AR SN W tend Ht HW p Hs Hb (or_intror H0) Hn) as (s & E & S & N & _).
  exists s. repeat split; assumption.
Qed.
Print Assumptions C17_ok_dense_offline.

(* dense online: what the proved fragment contains is supported *)
Lemma cl_supported : forall (VS : Val) (p : formula), DenseOnlineMonMore.cl p <> DenseOnlineMonMore.CBad -> supported DenseOn p = true.
Proof.
  intros VS p. cbn [supported].
  assert (J : forall a b, DenseOnlineMonMore.join a b <> DenseOnlineMonMore.CBad -> a <> DenseOnlineMonMore.CBad /\ b <> DenseOnlineMonMore.CBad).
  { intros a b H. split; intros E; subst; apply H; [reflexivity|destruct a; reflexivity]. }
  assert (G : forall c x, DenseOnlineMonMore.guard c x <> DenseOnlineMonMore.CBad -> x <> DenseOnlineMonMore.CBad).
  { intros c x H E. subst. apply H. destruct c; reflexivity. }
  induction p; cbn [DenseOnlineMonMore.cl past_only no_sample_ops]; intros H; try reflexivity; try (exfalso; apply H; reflexivity);
  try (apply IHp; exact H);
  try (apply J in H as [H1 H2]; specialize (IHp1 H1); specialize (IHp2 H2); apply andb_prop in IHp1 as [A1 A2]; apply andb_prop in IHp2 as [B1 B2];
       rewrite A1, A2, B1, B2; reflexivity).
  - apply G in H. apply IHp. intros E. rewrite E in H. apply H. reflexivity.
  - apply G in H. apply IHp. intros E. rewrite E in H. apply H. reflexivity.
  - apply G in H.
    assert (H1 : DenseOnlineMonMore.cl p1 <> DenseOnlineMonMore.CBad) by (intros E; rewrite E in H; apply H; reflexivity).
    assert (H2 : DenseOnlineMonMore.cl p2 <> DenseOnlineMonMore.CBad) by (intros E; rewrite E in H; apply H; destruct (DenseOnlineMonMore.cl p1); reflexivity).
    specialize (IHp1 H1); specialize (IHp2 H2); apply andb_prop in IHp1 as [A1 A2]; apply andb_prop in IHp2 as [B1 B2].
    rewrite A1, A2, B1, B2; reflexivity.
Qed.

(* … and on it no update() of any sequence of batches raises: one output list per update (C05_monitor_general says which);
   sqrt / ln under the hypothesis `safe` that they receive no value outside their domain (otherwise the update raises: partial_op_raises) *)
Theorem C17_ok_dense_online :
  forall (VS : Val) (AR : Arith VS) (pk : formula -> formula -> pkind),
    (forall f g, pk f g = PStd) \/ DenseIA.DiffLaws AR -> (forall l r : V, neg (a2 AR Sub l r) = a2 AR Sub r l) ->
    forall (p : formula) (W : list Dense.dsig) (tend : Z) (envs : list (list Dense.dsig)),
      DenseOnlineMonMore.cl p <> DenseOnlineMonMore.CBad ->
      (forall x, DenseOnlineMonCorrect.feedsI [] (map (fun env => nth x env []) envs) (nth x W [])) ->
      (forall x, DenseMergeCorrect.dsorted (nth x W [])) ->
      (forall x, nth x W [] <> [] -> Dense.start (nth x W []) = 0%Z) ->
      DenseOnlineMonMore.safe AR pk W tend p ->
      supported DenseOn p = true /\
      exists d ys, DenseOnlineMon.mon_run AR pk p (DenseOnlineMon.mon_init p) envs = Some (d, ys) /\ length ys = length envs.
Proof.
  intros VS AR pk Hpk SN p W tend envs Hc HF HS H0 Hsafe. split; [apply cl_supported; exact Hc|].
  destruct (DenseOnlineMonMore.cl p) eqn:E; [|
    destruct (DenseOnlineMonMore.mon_online_correct_pk AR pk Hpk SN p W tend envs E HF HS H0 Hsafe) as (d & outs & S & R & _ & L & _) |
    destruct (DenseOnlineMonMore.mon_online_closed AR pk Hpk SN p W tend envs E HF HS H0 Hsafe) as (d & ys & R & L & _) ].
  - exfalso. apply Hc. reflexivity.
  - exists d, (map DenseOnlineMon.lift outs). split; [exact R|]. rewrite map_length. exact L.
  - exists d, ys. split; assumption.
Qed.
Print Assumptions C17_ok_dense_online.

Example C17_nonvacuous :
  let p : @formula ExtZVal := Or (UntilT 0 1 (Var 0) (Var 1)) (Once (Var 0)) in
  supported DiscOff p = true /\ supported DiscOn p = false /\ supported DenseOff p = true /\ supported DenseOn p = false /\
  supported DenseOff (SPrev (Var 0)) = false /\
  (* the pastified form of p: supported by both discrete-time monitors, by no dense-time monitor *)
  let q : @formula ExtZVal := Or (Precedes 0 1 (Var 0) (Var 1)) (OnceT 1 1 (Once (Var 0))) in
  supported DiscOff q = true /\ supported DiscOn q = true /\ supported DenseOff q = false /\ supported DenseOn q = false.
Proof. repeat split. Qed.
