(* C03 — pastify(): same robustness, delayed by the horizon.  The guard
   future_above_past is a genuine limitation of delay-based pastification
   (refuted without it below, and recorded as a known finding). *)
From Coq Require Import List Arith ZArith Bool Lia.
From RV Require Import Val Syntax Rho Offline ListFacts OfflineCorrect Online OnlineCorrect Extend Pastify PastifyCorrect Transfer ExtZ.
Import ListNotations.

(* the rho-level statement, for both delay schemes (STL: once[d,d]; LTL: d x prev) *)
Theorem C03_delay :
  forall (VS : Val) (AR : Arith VS) (dk : delay_kind) (w : trace) (p : formula),
    wf_bounds p = true -> bounded_future p = true -> future_above_past p = true ->
    forall H i n, hor p <= H -> H <= i ->
      rho AR (fun _ _ => PStd) (pastify dk p H) w n i = rho AR (fun _ _ => PStd) p w (S i) (i - H).
Proof.
  intros VS AR dk w p H1 H2 H3. apply pastify_delay; [reflexivity|repeat split; assumption].
Qed.
Print Assumptions C03_delay.

(* pastify() does not change the meaning of a specification without future operators *)
Theorem C03_pastify_past_only :
  forall (VS : Val) (AR : Arith VS) (dk : delay_kind) (w : trace) (p : formula),
    past_only p = true ->
    forall n t, rho AR (fun _ _ => PStd) (pastify dk p 0) w n t = rho AR (fun _ _ => PStd) p w n t.
Proof. intros VS AR dk w p Hp. apply pastify_zero; [reflexivity|exact Hp]. Qed.
Print Assumptions C03_pastify_past_only.

(* what the i-th online update() of the pastified specification returns *)
Theorem C03_online :
  forall (VS : Val) (AR : Arith VS) (dk : delay_kind) (w : trace) (p : formula) (len i : nat) (d : V),
    wf_bounds p = true -> bounded_future p = true -> future_above_past p = true ->
    hor p <= i -> i < len ->
    nth i (snd (mon_run AR (fun _ _ => PStd) [pastify dk p (hor p)] dict_init w 0 len)) d
    = rho AR (fun _ _ => PStd) p w (S i) (i - hor p).
Proof.
  intros VS AR dk w p len i d Hw Hb Hg Hi Hl.
  destruct (pastify_shape (fun _ _ => PStd) dk (fun _ _ _ _ => eq_refl) p Hb Hw (hor p)) as [P1 P2].
  rewrite (on_value AR (fun _ _ => PStd) (pastify dk p (hor p)) w len len i d) by (try split; assumption).
  apply pastify_delay; [reflexivity|repeat split; assumption|apply Nat.le_refl|exact Hi].
Qed.
Print Assumptions C03_online.

(* ... which is the offline robustness at i - h of the trace seen so far *)
Theorem C03_seen_so_far :
  forall (VS : Val) (AR : Arith VS) (w1 w2 : trace) (p : formula) (n t : nat),
    (forall x t, t < n -> sig w2 x t = sig w1 x t) -> t < n ->
    rho AR (fun _ _ => PStd) p w2 n t = rho AR (fun _ _ => PStd) p w1 n t.
Proof. intros. apply rho_local; assumption. Qed.
Print Assumptions C03_seen_so_far.

(* the guard cannot be dropped: a past operator above a future operator *)
Theorem C03_refuted_past_over_future :
  exists (p : @formula ExtZVal) (w : trace) (i : nat),
    wf_bounds p = true /\ bounded_future p = true /\ future_above_past p = false /\ hor p <= i /\
    rho ExtZArith (fun _ _ => PStd) (pastify DelayOnce p (hor p)) w 3 i <> rho ExtZArith (fun _ _ => PStd) p w (S i) (i - hor p).
Proof.
  exists (HistT 1 2 (EvT 1 1 (Var 0))), [[Fin 1; Fin 2; Fin 3]], 1.
  repeat split; try reflexivity. vm_compute. discriminate.
Qed.
Print Assumptions C03_refuted_past_over_future.

Example C03_nonvacuous :
  let p : @formula ExtZVal := And (EvT 1 2 (Pred CGeq (Var 0) (Const (Fin 1)))) (Next (Not (AlwT 0 1 (Pred CLt (Var 0) (Const (Fin 2)))))) in
  wf_bounds p = true /\ bounded_future p = true /\ future_above_past p = true /\ hor p = 2 /\
  let w := [[Fin 3; Fin 0; Fin (-1); Fin 4; Fin 2]] in
  snd (mon_run ExtZArith (fun _ _ => PStd) [pastify DelayOnce p (hor p)] dict_init w 0 5) =
  [Fin 1; Fin 1; Fin (-2); Fin 2; Fin 2].
Proof. cbv zeta. repeat split; vm_compute; reflexivity. Qed.
