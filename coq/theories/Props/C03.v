(* C03 — pastify(): same robustness, delayed by the horizon.  The guard
   future_above_past is a genuine limitation of delay-based pastification
   (refuted without it below, and recorded as a known finding). *)
From Coq Require Import List Arith ZArith QArith Bool Lia String.
From RV Require Import Val Syntax Rho Offline ListFacts OfflineCorrect Online OnlineCorrect Extend Pastify PastifyCorrect Transfer ExtZ.
From RV Require Import Units NodeName PyNode PastifyGen PastifyGenCorrect.
Close Scope Q_scope.
Import ListNotations.

(* the rho-level statement, for both delay schemes (STL: once[d,d]; LTL: d x prev) *)
Theorem C03_delay :
  forall (VS : Val) (AR : Arith VS) (dk : delay_kind) (w : trace) (p : formula),
    wf_bounds p = true -> bounded_future p = true -> future_above_past p = true ->
    forall H i n, hor p <= H -> H <= i ->
      rho AR (fun _ _ => PStd) (pastify dk p H) w n i = rho AR (fun _ _ => PStd) p w (S i) (i - H).
Proof.
  intros VS AR dk w p H1 H2 H3. apply pastify_delay; [reflexivity|repeat split; assumption].
Qed.
Print Assumptions C03_delay.

(* pastify() does not change the meaning of a specification without future operators *)
Theorem C03_pastify_past_only :
  forall (VS : Val) (AR : Arith VS) (dk : delay_kind) (w : trace) (p : formula),
    past_only p = true ->
    forall n t, rho AR (fun _ _ => PStd) (pastify dk p 0) w n t = rho AR (fun _ _ => PStd) p w n t.
Proof. intros VS AR dk w p Hp. apply pastify_zero; [reflexivity|exact Hp]. Qed.
Print Assumptions C03_pastify_past_only.

(* what the i-th online update() of the pastified specification returns *)
Theorem C03_online :
  forall (VS : Val) (AR : Arith VS) (dk : delay_kind) (w : trace) (p : formula) (len i : nat) (d : V),
    wf_bounds p = true -> bounded_future p = true -> future_above_past p = true ->
    hor p <= i -> i < len ->
    nth i (snd (mon_run AR (fun _ _ => PStd) [pastify dk p (hor p)] dict_init w 0 len)) d
    = rho AR (fun _ _ => PStd) p w (S i) (i - hor p).
Proof.
  intros VS AR dk w p len i d Hw Hb Hg Hi Hl.
  destruct (pastify_shape (fun _ _ => PStd) dk (fun _ _ _ _ => eq_refl) p Hb Hw (hor p)) as [P1 P2].
  rewrite (on_value AR (fun _ _ => PStd) (pastify dk p (hor p)) w len len i d) by (try split; assumption).
  apply pastify_delay; [reflexivity|repeat split; assumption|apply Nat.le_refl|exact Hi].
Qed.
Print Assumptions C03_online.

(* ... which is the offline robustness at i - h of the trace seen so far *)
Theorem C03_seen_so_far :
  forall (VS : Val) (AR : Arith VS) (w1 w2 : trace) (p : formula) (n t : nat),
    (forall x t, t < n -> sig w2 x t = sig w1 x t) -> t < n ->
    rho AR (fun _ _ => PStd) p w2 n t = rho AR (fun _ _ => PStd) p w1 n t.
Proof. intros. apply rho_local; assumption. Qed.
Print Assumptions C03_seen_so_far.

(* the guard cannot be dropped: a past operator above a future operator *)
Theorem C03_refuted_past_over_future :
  exists (p : @formula ExtZVal) (w : trace) (i : nat),
    wf_bounds p = true /\ bounded_future p = true /\ future_above_past p = false /\ hor p <= i /\
    rho ExtZArith (fun _ _ => PStd) (pastify DelayOnce p (hor p)) w 3 i <> rho ExtZArith (fun _ _ => PStd) p w (S i) (i - hor p).
Proof.
  exists (HistT 1 2 (EvT 1 1 (Var 0))), [[Fin 1; Fin 2; Fin 3]], 1.
  repeat split; try reflexivity. vm_compute. discriminate.
Qed.
Print Assumptions C03_refuted_past_over_future.

(* the pastifier and the horizon visitor AS TRANSLATED FROM THE PYTHON SOURCE (tools/py2coq_pastifier.py -> PastifyGen.v, regenerated on
   every build): on a syntax tree n of rtamt whose bounds -- in whatever units they are written -- are whole numbers of sampling periods
   (erase n = Some f), bounded future, begin <= end: the horizon the code computes is hor f periods (expressed in default units), the
   tree the code builds erases to the hand model's pastify f (hor f), hence (inside the guard) the i-th update of the monitor of that
   tree returns the robustness of the original specification at i - hor f on the trace seen so far *)
Theorem C03_generated_pastifier :
  forall (VS : Val) (AR : Arith VS) (vidx : string -> string -> nat) (cval : string -> V) (du : tunit) (p : Z) (pu : tunit)
         (n : NodeName.node) (f : formula),
    (0 < p)%Z -> erase vidx cval du p pu n = Some f -> bounded_future f = true -> wf_bounds f = true ->
    exists (h : Q) (m : NodeName.node),
      gen_StlHorizon (sample_of du p pu) (to_default_unit du n) = Some h /\
      (h == inject_Z (Z.of_nat (hor f)) * sample_of du p pu)%Q /\
      gen_stl_pastify du (sample_of du p pu) n = Some m /\
      erase vidx cval du p pu m = Some (pastify DelayOnce f (hor f)) /\
      (future_above_past f = true -> forall (w : trace) (len i : nat) (d : V), hor f <= i -> i < len ->
         nth i (snd (mon_run AR (fun _ _ => PStd) [pastify DelayOnce f (hor f)] dict_init w 0 len)) d
         = rho AR (fun _ _ => PStd) f w (S i) (i - hor f)).
Proof.
  intros VS AR vidx cval du p pu n f Hp He Hb Hw.
  destruct (@gen_stl_pastify_ok VS vidx cval du p pu Hp n f He Hb Hw) as [h [m [Hh [Rh [Hm [_ Em]]]]]].
  exists h, m. repeat split; try assumption.
  intros Hg w len i d Hi Hl. apply C03_online; assumption.
Qed.
Print Assumptions C03_generated_pastifier.

(* the same for the LTL pastifier (ints, delays by nested previous) on trees of LTL classes *)
Theorem C03_generated_ltl_pastifier :
  forall (VS : Val) (AR : Arith VS) (vidx : string -> string -> nat) (cval : string -> V) (du : tunit) (p : Z) (pu : tunit)
         (n : NodeName.node) (f : formula),
    ltl_node n = true -> erase vidx cval du p pu n = Some f -> bounded_future f = true -> wf_bounds f = true ->
    exists (m : NodeName.node),
      gen_LtlHorizon n = Some (Z.of_nat (hor f)) /\ gen_ltl_pastify n = Some m /\
      erase vidx cval du p pu m = Some (pastify DelayPrev f (hor f)) /\
      (future_above_past f = true -> forall (w : trace) (len i : nat) (d : V), hor f <= i -> i < len ->
         nth i (snd (mon_run AR (fun _ _ => PStd) [pastify DelayPrev f (hor f)] dict_init w 0 len)) d
         = rho AR (fun _ _ => PStd) f w (S i) (i - hor f)).
Proof.
  intros VS AR vidx cval du p pu n f Hl He Hb Hw.
  destruct (@gen_ltl_pastify_ok VS vidx cval du p pu n f Hl He Hb) as [m [Hh [Hm [_ Em]]]].
  exists m. repeat split; try assumption.
  intros Hg w len i d Hi Hlen. apply C03_online; assumption.
Qed.
Print Assumptions C03_generated_ltl_pastifier.

(* the generated functions run: always[1s,2000ms](x >= 1) and next(not y) with a period of 500 ms, default unit s *)
Example C03_generated_nonvacuous :
  let n := NBin b_and (NTUn t_alw {| bnum := 1; bden := 1; bunit := Some US |} {| bnum := 2000; bden := 1; bunit := Some UMS |}
                         (NBin (b_pred CGeq) (NVar "x" "") (NConst "1.0")))
                      (NUn u_next (NUn u_not (NVar "y" ""))) in
  gen_StlHorizon (sample_of US 500 UMS) (to_default_unit US n) = Some (2 # 1)%Q /\
  option_map nname (gen_stl_pastify US (sample_of US 500 UMS) n)
  = Some "(historically[0,1]((x)>=(1.0)))and(once[3/2,3/2](not(y)))"%string.
Proof. cbv zeta. split; vm_compute; reflexivity. Qed.

Example C03_nonvacuous :
  let p : @formula ExtZVal := And (EvT 1 2 (Pred CGeq (Var 0) (Const (Fin 1)))) (Next (Not (AlwT 0 1 (Pred CLt (Var 0) (Const (Fin 2)))))) in
  wf_bounds p = true /\ bounded_future p = true /\ future_above_past p = true /\ hor p = 2 /\
  let w := [[Fin 3; Fin 0; Fin (-1); Fin 4; Fin 2]] in
  snd (mon_run ExtZArith (fun _ _ => PStd) [pastify DelayOnce p (hor p)] dict_init w 0 5) =
  [Fin 1; Fin 1; Fin (-2); Fin 2; Fin 2].
Proof. cbv zeta. repeat split; vm_compute; reflexivity. Qed.
