(* C06 — interface-aware semantics differ from standard only at insensitive
   predicates (discrete time; offline and online monitor models). *)
From Coq Require Import List Arith Bool ZArith Lia.
From RV Require Import Val Syntax Rho Offline ListFacts OfflineCorrect Online OnlineCorrect IA Transfer ExtZ.
Import ListNotations.

(* node.out_vars (in_vars) is empty exactly when no output (input) variable occurs *)
Theorem C06_vars :
  forall (VS : Val) (io : nat -> bool) (p : formula),
    is_nil (out_vars_impl io p) = negb (occurs (fun x => negb (io x)) p) /\
    is_nil (in_vars_impl io p) = negb (occurs io p).
Proof. intros. split; [apply out_vars_spec|apply in_vars_spec]. Qed.
Print Assumptions C06_vars.

(* the override computed by the implementation is the one the property states *)
Theorem C06_override :
  forall (VS : Val) (io : nat -> bool) sem f g, pk_impl io sem f g = pk_spec io sem f g.
Proof. exact @pk_impl_spec. Qed.
Print Assumptions C06_override.

(* offline: evaluation with the IA visitor = rho in which every insensitive
   predicate contributes +-inf (robustness kinds) or 0 (vacuity kinds) *)
Theorem C06_offline :
  forall (VS : Val) (AR : Arith VS) (io : nat -> bool) (sem : semantics) (p : formula) (w : trace) (n : nat),
    off_ok p w n ->
    eval_off AR (pk_impl io sem) p w n = tab (rho AR (pk_spec io sem) p w n) n.
Proof.
  intros VS AR io sem p w n (H1 & H2 & H4).
  rewrite eval_off_correct by assumption. apply tab_ext. intros t _.
  apply rho_pk_ext. apply pk_impl_spec.
Qed.
Print Assumptions C06_offline.

Theorem C06_online :
  forall (VS : Val) (AR : Arith VS) (io : nat -> bool) (sem : semantics) (p : formula) (w : trace) (n len : nat),
    on_ok p ->
    snd (mon_run AR (pk_impl io sem) [p] dict_init w 0 len) = tab (rho AR (pk_spec io sem) p w n) len.
Proof.
  intros VS AR io sem p w n len [H1 H2].
  rewrite (online_correct AR (pk_impl io sem) w n [p] len); try discriminate.
  - apply tab_ext. intros t _. apply rho_pk_ext. apply pk_impl_spec.
  - intros x [<-|[]]; auto.
Qed.
Print Assumptions C06_online.

(* with Semantics.STANDARD the io declarations have no effect at all *)
Theorem C06_standard :
  forall (VS : Val) (AR : Arith VS) (io io' : nat -> bool) (p : formula) (w : trace) (n : nat),
    eval_off AR (pk_impl io Standard) p w n = eval_off AR (pk_impl io' Standard) p w n /\
    forall len, mon_run AR (pk_impl io Standard) [p] dict_init w 0 len = mon_run AR (pk_impl io' Standard) [p] dict_init w 0 len.
Proof. intros. split; reflexivity. Qed.
Print Assumptions C06_standard.

(* dense time: the tick semantics under the override the IA visitors compute equals the tick semantics under the
   property's definition of insensitive predicates *)
From RV Require Import Dense DenseSem DenseLaws.
Theorem C06_dense :
  forall (VS : Val) (AR : Arith VS) (io : nat -> bool) (sem : semantics) (W : list dsig) (tend : Z) (p : formula) (t : Z),
    rhoZ AR (pk_impl io sem) W tend p t = rhoZ AR (pk_spec io sem) W tend p t.
Proof. intros. apply rhoZ_pk_ext. apply pk_impl_spec. Qed.
Print Assumptions C06_dense.

(* the IA-STL dense-time offline visitors (model DenseVisitor.deval_pk with the predicate kinds the visitors compute, compared
   list for list with evaluate() by the check): the list they build denotes the tick semantics with the property's kinds.
   DiffLaws: sign laws of the difference and of abs (true of floats without NaN; ExtZ_diff_laws for the executable instance) *)
From RV Require Import DenseMergeCorrect DenseEvalCorrect DenseIA DenseVisitor DenseConst DenseEvalMain.
Theorem C06_dense_visitor :
  forall (VS : Val) (AR : Arith VS), (forall l r, neg (a2 AR Sub l r) = a2 AR Sub r l) -> DiffLaws AR ->
  forall (io : nat -> bool) (sem : semantics) (W : list dsig) (tend : Z), (0 <= tend)%Z ->
    (forall s, In s W -> dsorted s /\ s <> [] /\ (forall a v, In (a, v) s -> (a <= tend)%Z)) ->
    (forall s, In s W -> start s = 0%Z) ->
  forall p, dfrag p = true -> wf_bounds p = true -> (nvars p <= length W)%nat ->
    exists s, deval_pk AR (pk_impl io sem) p W = Some s /\ dsorted s /\ s <> [] /\ start s = 0%Z /\
      forall t, den_opt s t = if (t <? 0)%Z then None else Some (rhoZ AR (pk_spec io sem) W tend p t).
Proof.
  intros VS AR SN DL io sem W tend Ht HW H0 p Hf Hb Hn.
  destruct (deval_pk_correct AR (pk_impl io sem) SN (or_intror DL) W tend Ht HW p Hf Hb (or_intror H0) Hn) as (s & E & G).
  rewrite (dstart0 W p H0 Hn) in G. destruct G as (G1 & G2 & G3 & G4). exists s. split; [exact E|]. split; [exact G1|]. split; [exact G2|]. split; [exact G3|].
  intros t. rewrite G4. destruct (t <? 0)%Z; [reflexivity|]. f_equal. apply rhoZ_pk_ext. apply pk_impl_spec.
Qed.
Print Assumptions C06_dense_visitor.

Lemma ExtZ_diff_laws : DiffLaws ExtZArith.
Proof.
  split.
  - reflexivity.
  - intros [|a|] [|b|]; cbn; try reflexivity; destruct (Z.leb_spec (a + - b) 0), (Z.leb_spec a b); try reflexivity; lia.
  - intros [|a|] [|b|]; cbn; try reflexivity; destruct (Z.leb_spec 0 (a + - b)), (Z.leb_spec b a); try reflexivity; lia.
  - intros [|a|]; cbn; try reflexivity. apply Z.leb_le. lia.
  - intros [|a|]; try reflexivity. unfold veqb. cbn. destruct (Z.leb_spec (Z.abs a) 0), (Z.leb_spec 0 (Z.abs a)), (Z.leb_spec a 0), (Z.leb_spec 0 a); cbn; try reflexivity; lia.
Qed.

Example C06_dense_visitor_nonvacuous :
  let io := fun x => Nat.eqb x 0 in
  let p : @formula ExtZVal := OnceT 0 2 (And (Pred CGt (Var 0) (Const (Fin 1))) (Pred CLeq (Var 1) (Const (Fin 2)))) in
  let W : list (@dsig ExtZVal) := [[(0%Z, Fin 3); (4%Z, Fin 1); (9%Z, Fin 5)]; [(0%Z, Fin 2); (4%Z, Fin 3); (6%Z, Fin 0)]] in
  deval_pk ExtZArith (pk_impl io OutputRobustness) p W = Some [(0%Z, Fin 0); (6%Z, NegInf); (9%Z, Fin 2)] /\
  deval_pk ExtZArith (pk_impl io Standard) p W = deval ExtZArith p W.
Proof. cbv zeta. split; vm_compute; reflexivity. Qed.

Example C06_nonvacuous :
  let io := fun x => Nat.eqb x 0 in   (* variable 0 is an input, variable 1 an output *)
  let p : @formula ExtZVal := And (Pred CGeq (Var 0) (Const (Fin 1))) (Once (Pred CLeq (A2 Add (Var 0) (Var 1)) (Const (Fin 5)))) in
  let w := [[Fin 3; Fin 0; Fin 2]; [Fin 1; Fin 1; Fin 9]] in
  eval_off ExtZArith (pk_impl io OutputRobustness) p w 3 = [Fin 1; NegInf; Fin 4] /\
  eval_off ExtZArith (pk_impl io Standard) p w 3 = [Fin 1; Fin (-1); Fin 1] /\
  eval_off ExtZArith (pk_impl io InputVacuity) p w 3 = [Fin 1; Fin (-1); Fin 1].
Proof. cbv zeta. repeat split; vm_compute; reflexivity. Qed.

(* the IA-STL dense-time online monitors (model DenseOnlineMon.mon_run with the predicate kinds the visitors compute, compared list for list with
   update() by the dense stream of the check): for every formula of the online fragment, signals that start at 0 and ANY sequence of batches,
   the concatenated outputs denote the tick semantics with the property's kinds up to their last stamp *)
From RV Require DenseOnlineMon DenseOnlineMonCorrect DenseOnlineMonMore DenseOnlineMergeCorrect.
Theorem C06_dense_online :
  forall (VS : Val) (AR : Arith VS), (forall l r, neg (a2 AR Sub l r) = a2 AR Sub r l) -> DiffLaws AR ->
  forall (io : nat -> bool) (sem : semantics) (p : formula) (W : list dsig) (tend : Z) (envs : list (list dsig)),
    DenseOnlineMonCorrect.frag p = true ->
    (forall x, DenseOnlineMonCorrect.feedsI [] (map (fun env => nth x env []) envs) (nth x W [])) ->
    (forall x, dsorted (nth x W [])) ->
    (forall x, nth x W [] <> [] -> start (nth x W []) = 0%Z) ->
    exists d outs,
      DenseOnlineMon.mon_run_fin AR (pk_impl io sem) p (DenseOnlineMon.mon_init p) envs = Some (d, outs) /\
      DenseOnlineMergeCorrect.wsorted (concat outs) /\
      (forall t, concat outs <> [] -> (0 <= t <= DenseOnlineMergeCorrect.lastT (concat outs))%Z ->
         den_opt (concat outs) t = Some (rhoZ AR (pk_spec io sem) W tend p t)).
Proof.
  intros VS AR SN DL io sem p W tend envs Hf Hfe Hs H0.
  destruct (DenseOnlineMonMore.mon_online_correct_frag_pk AR (pk_impl io sem) (or_intror DL) SN p W tend envs Hf Hfe Hs H0)
    as (d & outs & S & _ & E & _ & _ & _ & Hw & _ & Hd & _).
  exists d, outs. split; [exact E|]. split; [exact Hw|].
  intros t Hne Ht. rewrite (Hd t Hne Ht). f_equal. apply rhoZ_pk_ext. apply pk_impl_spec.
Qed.
Print Assumptions C06_dense_online.

(* the IA-STL dense-time online PredicateOperation as GENERATED from the Python text (DenseOnlineGen.v, tools/py2coq_denseonline.py):
   its update is the hand model pred_update_ia with the kind its attributes select, which is pk_impl for the attributes the visitor passes *)
From RV Require Import PyDense DenseOnlineGen DenseOnlineGenCorrect.
Import DenseOnlineMon.
Theorem C06_generated_ia_predicate :
  forall (VS : Val) (AR : Arith VS) (T : Type) (tltb teqb : T -> T -> bool),
  (forall st l r, option_map (fun p => (IAPredicate_abs T (fst p), snd p)) (gen_IAPredicate_update AR T tltb teqb st l r)
                  = pred_update_ia AR T tltb teqb (ia_kind (IAPredicate_semantics st) (IAPredicate_in_vars st) (IAPredicate_out_vars st))
                      (Predicate_comparison_op (IAPredicate_base st)) (IAPredicate_abs T st) l r) /\
  (forall c sem iv ov, IAPredicate_abs T (IAPredicate_init T c sem iv ov) = pred_init /\
                       Predicate_comparison_op (IAPredicate_base (IAPredicate_init T c sem iv ov)) = c /\
                       IAPredicate_semantics (IAPredicate_init T c sem iv ov) = sem /\
                       IAPredicate_in_vars (IAPredicate_init T c sem iv ov) = iv /\ IAPredicate_out_vars (IAPredicate_init T c sem iv ov) = ov) /\
  (forall (io : nat -> bool) (sem : semantics) (f g : formula),
     ia_kind sem (in_vars_impl io f ++ in_vars_impl io g) (out_vars_impl io f ++ out_vars_impl io g) = pk_impl io sem f g).
Proof. exact @dense_online_gen_ia_predicate. Qed.
Print Assumptions C06_generated_ia_predicate.

(* the visitPredicate overrides of the IA-STL dense-time OFFLINE visitors as GENERATED from the Python text
   (rtamt/semantics/iastl/dense_time/offline/ast_visitor.py -> DenseOfflineIAGen.v, tools/py2coq_denseoffline_ia.py, on every build):
   the base method returns the pair (robustness samples, satisfaction flags) of the hand model ia_scan, every variant returns
   ia_pred with its kind — PBool / PVac when `not node.out_vars` (`not node.in_vars`), PStd otherwise — after the same merge
   (isect (a2 AR Sub), None = intersection() raises); with the lists the node constructors build the kind is pk_impl, i.e. the
   predicate case of deval_pk (C06_dense_visitor). *)
From RV Require Import DenseMerge PyDenseOff PyDenseOffIA DenseOfflineGen DenseOfflineIAGen DenseOfflineIAGenCorrect.
Theorem C06_generated_dense_offline_predicate :
  forall (VS : Val) (AR : Arith VS),
  (forall c l r, option_map fst (gen_ia_visitPredicate AR c l r) = option_map (ia_pred AR PStd c) (isect (a2 AR Sub) l r)) /\
  (forall c l r, option_map snd (gen_ia_visitPredicate AR c l r)
                 = option_map (fun d => map (fun q => (fst q, snd (snd q))) (ia_scan AR c None d)) (isect (a2 AR Sub) l r)) /\
  (forall c nv l r, gen_ia_OutputRobustness_visitPredicate AR c nv l r
                    = option_map (ia_pred AR (if nv then PBool else PStd) c) (isect (a2 AR Sub) l r)) /\
  (forall c nv l r, gen_ia_InputRobustness_visitPredicate AR c nv l r
                    = option_map (ia_pred AR (if nv then PBool else PStd) c) (isect (a2 AR Sub) l r)) /\
  (forall c nv l r, gen_ia_InputVacuity_visitPredicate AR c nv l r
                    = option_map (ia_pred AR (if nv then PVac else PStd) c) (isect (a2 AR Sub) l r)) /\
  (forall c nv l r, gen_ia_OutputVacuity_visitPredicate AR c nv l r
                    = option_map (ia_pred AR (if nv then PVac else PStd) c) (isect (a2 AR Sub) l r)).
Proof. exact @dense_offline_gen_ia_predicate. Qed.
Print Assumptions C06_generated_dense_offline_predicate.

Theorem C06_generated_dense_offline_predicate_kind :
  forall (VS : Val) (AR : Arith VS) (io : nat -> bool) (f g : formula) c l r,
  let no_out := is_nil (out_vars_impl io f ++ out_vars_impl io g) in
  let no_in := is_nil (in_vars_impl io f ++ in_vars_impl io g) in
  gen_ia_OutputRobustness_visitPredicate AR c no_out l r = option_map (ia_pred AR (pk_impl io OutputRobustness f g) c) (isect (a2 AR Sub) l r) /\
  gen_ia_InputRobustness_visitPredicate AR c no_in l r = option_map (ia_pred AR (pk_impl io InputRobustness f g) c) (isect (a2 AR Sub) l r) /\
  gen_ia_InputVacuity_visitPredicate AR c no_in l r = option_map (ia_pred AR (pk_impl io InputVacuity f g) c) (isect (a2 AR Sub) l r) /\
  gen_ia_OutputVacuity_visitPredicate AR c no_out l r = option_map (ia_pred AR (pk_impl io OutputVacuity f g) c) (isect (a2 AR Sub) l r).
Proof. exact @dense_offline_gen_ia_predicate_pk. Qed.
Print Assumptions C06_generated_dense_offline_predicate_kind.
