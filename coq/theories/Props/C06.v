(* C06 — interface-aware semantics differ from standard only at insensitive
   predicates (discrete time; offline and online monitor models). *)
From Coq Require Import List Arith Bool ZArith Lia.
From RV Require Import Val Syntax Rho Offline ListFacts OfflineCorrect Online OnlineCorrect IA Transfer ExtZ.
Import ListNotations.

(* node.out_vars (in_vars) is empty exactly when no output (input) variable occurs *)
Theorem C06_vars :
  forall (VS : Val) (io : nat -> bool) (p : formula),
    is_nil (out_vars_impl io p) = negb (occurs (fun x => negb (io x)) p) /\
    is_nil (in_vars_impl io p) = negb (occurs io p).
Proof. intros. split; [apply out_vars_spec|apply in_vars_spec]. Qed.
Print Assumptions C06_vars.

(* the override computed by the implementation is the one the property states *)
Theorem C06_override :
  forall (VS : Val) (io : nat -> bool) sem f g, pk_impl io sem f g = pk_spec io sem f g.
Proof. exact @pk_impl_spec. Qed.
Print Assumptions C06_override.

(* offline: evaluation with the IA visitor = rho in which every insensitive
   predicate contributes +-inf (robustness kinds) or 0 (vacuity kinds) *)
Theorem C06_offline :
  forall (VS : Val) (AR : Arith VS) (io : nat -> bool) (sem : semantics) (p : formula) (w : trace) (n : nat),
    off_ok p w n ->
    eval_off AR (pk_impl io sem) p w n = tab (rho AR (pk_spec io sem) p w n) n.
Proof.
  intros VS AR io sem p w n (H1 & H2 & H3 & H4).
  rewrite eval_off_correct by assumption. apply tab_ext. intros t _.
  apply rho_pk_ext. apply pk_impl_spec.
Qed.
Print Assumptions C06_offline.

Theorem C06_online :
  forall (VS : Val) (AR : Arith VS) (io : nat -> bool) (sem : semantics) (p : formula) (w : trace) (n len : nat),
    on_ok p ->
    snd (mon_run AR (pk_impl io sem) [p] dict_init w 0 len) = tab (rho AR (pk_spec io sem) p w n) len.
Proof.
  intros VS AR io sem p w n len [H1 H2].
  rewrite (online_correct AR (pk_impl io sem) w n [p] len); try discriminate.
  - apply tab_ext. intros t _. apply rho_pk_ext. apply pk_impl_spec.
  - intros x [<-|[]]; auto.
Qed.
Print Assumptions C06_online.

(* with Semantics.STANDARD the io declarations have no effect at all *)
Theorem C06_standard :
  forall (VS : Val) (AR : Arith VS) (io io' : nat -> bool) (p : formula) (w : trace) (n : nat),
    eval_off AR (pk_impl io Standard) p w n = eval_off AR (pk_impl io' Standard) p w n /\
    forall len, mon_run AR (pk_impl io Standard) [p] dict_init w 0 len = mon_run AR (pk_impl io' Standard) [p] dict_init w 0 len.
Proof. intros. split; reflexivity. Qed.
Print Assumptions C06_standard.

(* dense time: the tick semantics under the override the IA visitors compute equals the tick semantics under the
   property's definition of insensitive predicates *)
From RV Require Import Dense DenseSem DenseLaws.
Theorem C06_dense :
  forall (VS : Val) (AR : Arith VS) (io : nat -> bool) (sem : semantics) (W : list dsig) (tend : Z) (p : formula) (t : Z),
    rhoZ AR (pk_impl io sem) W tend p t = rhoZ AR (pk_spec io sem) W tend p t.
Proof. intros. apply rhoZ_pk_ext. apply pk_impl_spec. Qed.
Print Assumptions C06_dense.

Example C06_nonvacuous :
  let io := fun x => Nat.eqb x 0 in   (* variable 0 is an input, variable 1 an output *)
  let p : @formula ExtZVal := And (Pred CGeq (Var 0) (Const (Fin 1))) (Once (Pred CLeq (A2 Add (Var 0) (Var 1)) (Const (Fin 5)))) in
  let w := [[Fin 3; Fin 0; Fin 2]; [Fin 1; Fin 1; Fin 9]] in
  eval_off ExtZArith (pk_impl io OutputRobustness) p w 3 = [Fin 1; NegInf; Fin 4] /\
  eval_off ExtZArith (pk_impl io Standard) p w 3 = [Fin 1; Fin (-1); Fin 1] /\
  eval_off ExtZArith (pk_impl io InputVacuity) p w 3 = [Fin 1; Fin (-1); Fin 1].
Proof. cbv zeta. repeat split; vm_compute; reflexivity. Qed.
