(* C05 — dense-time online output does not depend on how the input is chunked.

   Full statement (decided by the correspondence check harness/c05.py: every
   chunking of the same signals is fed to the online monitor and the
   concatenated outputs are compared, tick by tick, with DenseSem.rhoZ of the
   (pastified) specification and with each other).

   Proved here for all inputs (C05_partial — the semantic half: the value
   that any chunking has to produce at an instant is fixed by the data fed
   so far; the per-operator carry-over buffers of the implementation are
   covered by the correspondence check only):
   - C05_prefix_determined: for a specification without unbounded future
     operators, the robustness at every t with t + horizon <= e is the same
     for all signal sets that agree up to e — so the samples an online
     monitor may emit once its input reaches e are the same whatever arrives
     in later update() calls and however the data up to e was cut.
   - C05_past_now: for past specifications (horizon 0) this is the value at
     the knowledge frontier itself. *)
From Coq Require Import List ZArith Lia.
From RV Require Import Val Syntax Rho Dense DenseSem DenseLaws ExtZ.
Import ListNotations.
Local Open Scope Z_scope.

Theorem C05_prefix_determined :
  forall (VS : Val) (AR : Arith VS) (pk : formula -> formula -> pkind)
         (W1 W2 : list dsig) (tend1 tend2 e : Z) (p : formula),
    (forall x, start (nth x W2 []) = start (nth x W1 [])) ->
    (forall x t, t <= e -> den (nth x W2 []) t = den (nth x W1 []) t) ->
    dbounded p = true ->
    forall t, t + dhor p <= e -> rhoZ AR pk W2 tend2 p t = rhoZ AR pk W1 tend1 p t.
Proof. exact (fun VS AR pk W1 W2 tend1 tend2 e p => rhoZ_extend AR pk W1 W2 tend1 tend2 e p). Qed.
Print Assumptions C05_prefix_determined.

Theorem C05_past_now :
  forall (VS : Val) (AR : Arith VS) (pk : formula -> formula -> pkind)
         (W1 W2 : list dsig) (tend1 tend2 : Z) (p : formula) (t : Z),
    (forall x, start (nth x W2 []) = start (nth x W1 [])) ->
    (forall x t', t' <= t -> den (nth x W2 []) t' = den (nth x W1 []) t') ->
    dbounded p = true -> dhor p = 0 ->
    rhoZ AR pk W2 tend2 p t = rhoZ AR pk W1 tend1 p t.
Proof.
  intros VS AR pk W1 W2 tend1 tend2 p t HS HW Hb Hh.
  apply (rhoZ_extend AR pk W1 W2 tend1 tend2 t p HS HW Hb). lia.
Qed.
Print Assumptions C05_past_now.

Example C05_nonvacuous :
  let p : @formula ExtZVal := Or (Once (Pred CGeq (Var 0) (Const (Fin 1)))) (OnceT 1 2 (Pred CLeq (Var 0) (Const (Fin 3)))) in
  let W1 : list (@dsig ExtZVal) := [[(0, Fin 3); (4, Fin 0)]] in
  let W2 : list (@dsig ExtZVal) := [[(0, Fin 3); (4, Fin 0); (7, Fin 9)]] in
  dbounded p = true /\ dhor p = 0 /\
  map (rhoZ ExtZArith (fun _ _ => PStd) W2 7 p) [0; 3; 6] = map (rhoZ ExtZArith (fun _ _ => PStd) W1 4 p) [0; 3; 6] /\
  rhoZ ExtZArith (fun _ _ => PStd) W2 7 p 7 <> rhoZ ExtZArith (fun _ _ => PStd) W1 4 p 7.
Proof. cbv zeta. repeat split; try reflexivity. vm_compute. discriminate. Qed.
