(* C05 — dense-time online output does not depend on how the input is chunked.

   Full statement (decided by the correspondence check harness/c05.py: every
   chunking of the same signals is fed to the online monitor and the
   concatenated outputs are compared, tick by tick, with DenseSem.rhoZ of the
   (pastified) specification and with each other).

   Proved here for all inputs (C05_partial — the semantic half: the value
   that any chunking has to produce at an instant is fixed by the data fed
   so far; the per-operator carry-over buffers of the implementation are
   covered by the correspondence check only):
   - C05_prefix_determined: for a specification without unbounded future
     operators, the robustness at every t with t + horizon <= e is the same
     for all signal sets that agree up to e — so the samples an online
     monitor may emit once its input reaches e are the same whatever arrives
     in later update() calls and however the data up to e was cut.
   - C05_past_now: for past specifications (horizon 0) this is the value at
     the knowledge frontier itself.

   Proved for the implementation layer of every binary operation (the carry-over
   buffers themselves; model DenseOnlineMerge.v = online/intersection.py and the
   update() wrapper of and_operation.py, compared with the code on every run by
   the `binrun` / `oisect` streams of harness/c05.py; finite integer stamps):
   - C05_binary_merge: on strictly increasing non-empty inputs the online merge
     never raises; out ++ [last] has non-decreasing stamps inside the common
     domain [t0, F] and denotes f (den s1 t) (den s2 t) at every tick of it;
     the remainders are non-empty suffixes that still denote the inputs from F on.
   - C05_binary_run: feeding the two signals in any sequence of batches (a batch
     may repeat the last sample already sent, with any value: update() drops it)
     yields outputs whose concatenation has non-decreasing stamps and denotes
     f (den s1 t) (den s2 t) on [t0, F].
   - C05_binary_chunking: two chunkings of the same two signals never disagree
     at any instant of the common domain. *)
From Coq Require Import List ZArith Lia.
From RV Require Import Val Syntax Rho Dense DenseSem DenseLaws ExtZ DenseMerge DenseMergeCorrect DenseOnlineMerge DenseOnlineMergeCorrect.
Import ListNotations.
Local Open Scope Z_scope.

Theorem C05_prefix_determined :
  forall (VS : Val) (AR : Arith VS) (pk : formula -> formula -> pkind)
         (W1 W2 : list dsig) (tend1 tend2 e : Z) (p : formula),
    (forall x, start (nth x W2 []) = start (nth x W1 [])) ->
    (forall x t, t <= e -> den (nth x W2 []) t = den (nth x W1 []) t) ->
    dbounded p = true ->
    forall t, t + dhor p <= e -> rhoZ AR pk W2 tend2 p t = rhoZ AR pk W1 tend1 p t.
Proof. exact (fun VS AR pk W1 W2 tend1 tend2 e p => rhoZ_extend AR pk W1 W2 tend1 tend2 e p). Qed.
Print Assumptions C05_prefix_determined.

Theorem C05_past_now :
  forall (VS : Val) (AR : Arith VS) (pk : formula -> formula -> pkind)
         (W1 W2 : list dsig) (tend1 tend2 : Z) (p : formula) (t : Z),
    (forall x, start (nth x W2 []) = start (nth x W1 [])) ->
    (forall x t', t' <= t -> den (nth x W2 []) t' = den (nth x W1 []) t') ->
    dbounded p = true -> dhor p = 0 ->
    rhoZ AR pk W2 tend2 p t = rhoZ AR pk W1 tend1 p t.
Proof.
  intros VS AR pk W1 W2 tend1 tend2 p t HS HW Hb Hh.
  apply (rhoZ_extend AR pk W1 W2 tend1 tend2 t p HS HW Hb). lia.
Qed.
Print Assumptions C05_past_now.

Theorem C05_binary_merge :
  forall (VS : Val) (f : V -> V -> V) (s1 s2 : dsig),
    dsorted s1 -> dsorted s2 -> s1 <> [] -> s2 <> [] ->
    let F := Z.min (lastT s1) (lastT s2) in
    let t0 := Z.max (start s1) (start s2) in
    exists out la r1 r2,
      oisect f s1 s2 = Some (out, la, r1, r2) /\
      wsorted (olist out la) /\
      (forall a v, In (a, v) (olist out la) -> t0 <= a <= F) /\
      (forall t, t0 <= t <= F -> den_opt (olist out la) t = Some (f (den s1 t) (den s2 t))) /\
      suffix r1 s1 /\ suffix r2 s2 /\ r1 <> [] /\ r2 <> [] /\
      (forall t, F <= t -> den_opt r1 t = den_opt s1 t) /\
      (forall t, F <= t -> den_opt r2 t = den_opt s2 t).
Proof. exact @oisect_correct. Qed.
Print Assumptions C05_binary_merge.

Theorem C05_binary_run :
  forall (VS : Val) (f : V -> V -> V) (s1 s2 : dsig) (bs : list (dsig * dsig)),
    dsorted s1 -> dsorted s2 -> s1 <> [] -> s2 <> [] ->
    feeds [] [] bs s1 s2 ->
    let F := Z.min (lastT s1) (lastT s2) in
    let t0 := Z.max (start s1) (start s2) in
    exists st outs,
      bin_run f ostate0 bs = Some (st, outs) /\
      wsorted (concat outs) /\
      (forall a v, In (a, v) (concat outs) -> t0 <= a <= F) /\
      (forall t, t0 <= t <= F -> den_opt (concat outs) t = Some (f (den s1 t) (den s2 t))).
Proof. exact @bin_run_correct_rep. Qed.
Print Assumptions C05_binary_run.

Theorem C05_binary_chunking :
  forall (VS : Val) (f : V -> V -> V) (s1 s2 : dsig) (bs bs' : list (dsig * dsig)),
    dsorted s1 -> dsorted s2 -> s1 <> [] -> s2 <> [] ->
    concat (map fst bs) = s1 -> concat (map snd bs) = s2 ->
    concat (map fst bs') = s1 -> concat (map snd bs') = s2 ->
    exists st outs st' outs',
      bin_run f ostate0 bs = Some (st, outs) /\ bin_run f ostate0 bs' = Some (st', outs') /\
      forall t, Z.max (start s1) (start s2) <= t <= Z.min (lastT s1) (lastT s2) ->
                den_opt (concat outs) t = den_opt (concat outs') t.
Proof. exact @bin_run_chunking. Qed.
Print Assumptions C05_binary_chunking.

(* two chunkings of the same signals (one sample at a time with a repeated boundary sample / everything at once): different
   sample lists per call, the same step function *)
Example C05_binary_nonvacuous :
  let s1 : @dsig ExtZVal := [(0, Fin 3); (2, Fin 6); (5, Fin 4)] in
  let s2 : @dsig ExtZVal := [(0, Fin 2); (3, Fin 5); (6, Fin 0)] in
  let f := @vmin ExtZVal in
  dsorted s1 /\ dsorted s2 /\
  option_map snd (bin_run f ostate0 [(s1, s2)]) = Some [[(0, Fin 2); (3, Fin 5); (5, Fin 4)]] /\
  option_map snd (bin_run f ostate0 [([(0, Fin 3)], [(0, Fin 2)]); ([(0, Fin 9); (2, Fin 6)], [(3, Fin 5)]); ([(5, Fin 4)], [(6, Fin 0)])])
    = Some [[(0, Fin 2)]; [(2, Fin 2)]; [(3, Fin 5); (5, Fin 4)]].
Proof. cbv zeta. repeat split; vm_compute; try reflexivity; auto. Qed.

Example C05_nonvacuous :
  let p : @formula ExtZVal := Or (Once (Pred CGeq (Var 0) (Const (Fin 1)))) (OnceT 1 2 (Pred CLeq (Var 0) (Const (Fin 3)))) in
  let W1 : list (@dsig ExtZVal) := [[(0, Fin 3); (4, Fin 0)]] in
  let W2 : list (@dsig ExtZVal) := [[(0, Fin 3); (4, Fin 0); (7, Fin 9)]] in
  dbounded p = true /\ dhor p = 0 /\
  map (rhoZ ExtZArith (fun _ _ => PStd) W2 7 p) [0; 3; 6] = map (rhoZ ExtZArith (fun _ _ => PStd) W1 4 p) [0; 3; 6] /\
  rhoZ ExtZArith (fun _ _ => PStd) W2 7 p 7 <> rhoZ ExtZArith (fun _ _ => PStd) W1 4 p 7.
Proof. cbv zeta. repeat split; try reflexivity. vm_compute. discriminate. Qed.
