(* C05 — dense-time online output does not depend on how the input is chunked.

   Full statement (decided by the correspondence check harness/c05.py: every
   chunking of the same signals is fed to the online monitor and the
   concatenated outputs are compared, tick by tick, with DenseSem.rhoZ of the
   (pastified) specification and with each other).

   Proved here for all inputs (C05_partial — the semantic half: the value
   that any chunking has to produce at an instant is fixed by the data fed
   so far; the per-operator carry-over buffers of the implementation are
   covered by the correspondence check only):
   - C05_prefix_determined: for a specification without unbounded future
     operators, the robustness at every t with t + horizon <= e is the same
     for all signal sets that agree up to e — so the samples an online
     monitor may emit once its input reaches e are the same whatever arrives
     in later update() calls and however the data up to e was cut.
   - C05_past_now: for past specifications (horizon 0) this is the value at
     the knowledge frontier itself.

   Proved for the implementation layer of every binary operation (the carry-over
   buffers themselves; model DenseOnlineMerge.v = online/intersection.py and the
   update() wrapper of and_operation.py, compared with the code on every run by
   the `binrun` / `oisect` streams of harness/c05.py; finite integer stamps):
   - C05_binary_merge: on strictly increasing non-empty inputs the online merge
     never raises; out ++ [last] has non-decreasing stamps inside the common
     domain [t0, F] and denotes f (den s1 t) (den s2 t) at every tick of it;
     the remainders are non-empty suffixes that still denote the inputs from F on.
   - C05_binary_run: feeding the two signals in any sequence of batches (a batch
     may repeat the last sample already sent, with any value: update() drops it)
     yields outputs whose concatenation has non-decreasing stamps and denotes
     f (den s1 t) (den s2 t) on [t0, F].
   - C05_binary_chunking: two chunkings of the same two signals never disagree
     at any instant of the common domain.

   Proved for the other online operations (models DenseOnlineFold.v =
   once/historically/always_operation.py, since_operation.py, the unary
   point-wise operations, constant and variable; DenseOnlineWin.v =
   once_timed_operation.py, historically_timed_operation.py; all compared with
   the operation classes on every run by harness/c05.py; integer stamps):
   - C05_once_timed / C05_historically_timed: a signal that starts at 0, fed in
     any batch sequence (a batch may repeat the last sample already sent, with
     any value): no update() raises, the concatenated outputs have
     non-decreasing stamps inside [0, last stamp] and denote rhoZ of
     once[a,b] / historically[a,b] at every tick of it; C05_timed_chunking.
   - C05_once / C05_historically: running maximum / minimum, any cutting.
   - C05_since / C05_since_chunking: the outputs cover [t0, F) and carry rhoZ of
     the unbounded since.
   - C05_unary: the point-wise operations, sample by sample.
   Proved for the whole monitor (model DenseOnlineMon.v = the update visitor of
   abstract_dense_time_online_interpreter.py / abstract_online_interpreter.py:
   one operation per formula, stepped once per update through the memo,
   predicate_operation.py, since_timed_operation.py, multiplication; compared
   list for list with update() of StlDenseTimeOnlineSpecification on every
   chunking of every case by harness/c05.py):
   - C05_monitor / C05_monitor_chunking: see below.
   - C05_monitor_general / C05_monitor_closed (DenseOnlineMonMore.v): the IA-STL
     predicate kinds, constants at almost every position, sqrt / ln under a
     no-raise hypothesis, progress for since-free formulas.
   Tie between the hand models of the operation classes and the Python text (DenseOnlineGen.v is GENERATED from
   rtamt/semantics/{stl,arithmetic,iastl}/dense_time/online/*_operation.py by tools/py2coq_denseonline.py on every build;
   intersection() and variable_operation.py stay hand-modelled and are pinned by digest):
   - C05_generated_operations: the generated update() of the translated classes IS the hand model of its operation
     (bin_update_g f / mul_update_g / unary_update f / fold_update g / since_update / pred_update_g, sat_scan / pred_update_ia /
     the constant), for every type of stamps, every state, every batch(es); None = an exception on both sides.
   - C05_generated_bounded_operations: the same for once[a,b] / historically[a,b] / since[a,b] / the constant on the stamps tz
     (win_update_e / since_timed_update_g / const_update), in the states that satisfy the invariant win_wf.
   - C05_generated_binary_chunking: hence C05_binary_run holds of the generated and / or / implies / iff / xor /
     addition / subtraction / division / pow / log classes themselves.
   - C05_generated_merge: intersection() and _append() of online/intersection.py themselves, as re-generated on every build
     (MergeGen.v, tools/py2coq_merge.py), ARE the model oisect_g of C05_binary_merge: same result for every type of stamps
     (an exception or a loop that does not end where the model has None), and with trichotomous comparisons (integer stamps,
     stamps with +inf) the fuel allotted to the three while loops suffices and an exception is exactly the model's None.
   Outside the proved fragment (modelled and compared only): a constant
   sub-formula that is not a literal under a bounded operator, since[a,b] with
   two constant operands, signals that start after 0 (the open known finding). *)
From Coq Require Import List ZArith Lia.
From RV Require Import Val Syntax Rho Dense DenseSem DenseLaws ExtZ DenseMerge DenseMergeCorrect DenseOnlineMerge DenseOnlineMergeCorrect
  DenseSinceCorrect DenseOnlineFold DenseOnlineFoldCorrect DenseOnlineWin DenseOnlineWinCorrect.
From RV Require DenseOnlineMon DenseOnlineMonCorrect DenseOnlineMonMore DenseIA.
From RV Require Import IA DenseEval PyDense DenseOnlineGen DenseOnlineGenCorrect DenseOnlineGenWinCorrect.
From RV Require Import PyMerge MergeGen MergeGenCorrect.
Import DenseOnlineMon.
Import ListNotations.
Local Open Scope Z_scope.

Theorem C05_prefix_determined :
  forall (VS : Val) (AR : Arith VS) (pk : formula -> formula -> pkind)
         (W1 W2 : list dsig) (tend1 tend2 e : Z) (p : formula),
    (forall x, start (nth x W2 []) = start (nth x W1 [])) ->
    (forall x t, t <= e -> den (nth x W2 []) t = den (nth x W1 []) t) ->
    dbounded p = true ->
    forall t, t + dhor p <= e -> rhoZ AR pk W2 tend2 p t = rhoZ AR pk W1 tend1 p t.
Proof. exact (fun VS AR pk W1 W2 tend1 tend2 e p => rhoZ_extend AR pk W1 W2 tend1 tend2 e p). Qed.
Print Assumptions C05_prefix_determined.

Theorem C05_past_now :
  forall (VS : Val) (AR : Arith VS) (pk : formula -> formula -> pkind)
         (W1 W2 : list dsig) (tend1 tend2 : Z) (p : formula) (t : Z),
    (forall x, start (nth x W2 []) = start (nth x W1 [])) ->
    (forall x t', t' <= t -> den (nth x W2 []) t' = den (nth x W1 []) t') ->
    dbounded p = true -> dhor p = 0 ->
    rhoZ AR pk W2 tend2 p t = rhoZ AR pk W1 tend1 p t.
Proof.
  intros VS AR pk W1 W2 tend1 tend2 p t HS HW Hb Hh.
  apply (rhoZ_extend AR pk W1 W2 tend1 tend2 t p HS HW Hb). lia.
Qed.
Print Assumptions C05_past_now.

Theorem C05_binary_merge :
  forall (VS : Val) (f : V -> V -> V) (s1 s2 : dsig),
    dsorted s1 -> dsorted s2 -> s1 <> [] -> s2 <> [] ->
    let F := Z.min (lastT s1) (lastT s2) in
    let t0 := Z.max (start s1) (start s2) in
    exists out la r1 r2,
      oisect f s1 s2 = Some (out, la, r1, r2) /\
      wsorted (olist out la) /\
      (forall a v, In (a, v) (olist out la) -> t0 <= a <= F) /\
      (forall t, t0 <= t <= F -> den_opt (olist out la) t = Some (f (den s1 t) (den s2 t))) /\
      suffix r1 s1 /\ suffix r2 s2 /\ r1 <> [] /\ r2 <> [] /\
      (forall t, F <= t -> den_opt r1 t = den_opt s1 t) /\
      (forall t, F <= t -> den_opt r2 t = den_opt s2 t).
Proof. exact @oisect_correct. Qed.
Print Assumptions C05_binary_merge.

Theorem C05_binary_run :
  forall (VS : Val) (f : V -> V -> V) (s1 s2 : dsig) (bs : list (dsig * dsig)),
    dsorted s1 -> dsorted s2 -> s1 <> [] -> s2 <> [] ->
    feeds [] [] bs s1 s2 ->
    let F := Z.min (lastT s1) (lastT s2) in
    let t0 := Z.max (start s1) (start s2) in
    exists st outs,
      bin_run f ostate0 bs = Some (st, outs) /\
      wsorted (concat outs) /\
      (forall a v, In (a, v) (concat outs) -> t0 <= a <= F) /\
      (forall t, t0 <= t <= F -> den_opt (concat outs) t = Some (f (den s1 t) (den s2 t))).
Proof. exact @bin_run_correct_rep. Qed.
Print Assumptions C05_binary_run.

Theorem C05_binary_chunking :
  forall (VS : Val) (f : V -> V -> V) (s1 s2 : dsig) (bs bs' : list (dsig * dsig)),
    dsorted s1 -> dsorted s2 -> s1 <> [] -> s2 <> [] ->
    concat (map fst bs) = s1 -> concat (map snd bs) = s2 ->
    concat (map fst bs') = s1 -> concat (map snd bs') = s2 ->
    exists st outs st' outs',
      bin_run f ostate0 bs = Some (st, outs) /\ bin_run f ostate0 bs' = Some (st', outs') /\
      forall t, Z.max (start s1) (start s2) <= t <= Z.min (lastT s1) (lastT s2) ->
                den_opt (concat outs) t = den_opt (concat outs') t.
Proof. exact @bin_run_chunking. Qed.
Print Assumptions C05_binary_chunking.

(* ---- the other online operations (models DenseOnlineFold.v, DenseOnlineWin.v; see the header of this file) ---- *)

(* bounded once / historically: any batch sequence (a batch may repeat the last sample already sent), signal starting at 0 *)
Theorem C05_once_timed :
  forall (VS : Val) (AR : Arith VS) (pk : formula -> formula -> pkind) (tend : Z) (nb ne : nat) (s : dsig) (bs : list dsig),
    (nb <= ne)%nat -> dsorted s -> s <> [] -> start s = 0 -> feeds1 [] bs s ->
    exists st outs,
      once_timed_run (owin_init (zb nb) (zb ne)) bs = Some (st, outs) /\
      wsorted (concat outs) /\
      (forall a v, In (a, v) (concat outs) -> 0 <= a <= lastT s) /\
      (forall t, 0 <= t <= lastT s -> den_opt (concat outs) t = Some (rhoZ AR pk [s] tend (OnceT nb ne (Var 0)) t)).
Proof. exact @once_timed_online_rhoZ. Qed.
Print Assumptions C05_once_timed.

Theorem C05_historically_timed :
  forall (VS : Val) (AR : Arith VS) (pk : formula -> formula -> pkind) (tend : Z) (nb ne : nat) (s : dsig) (bs : list dsig),
    (nb <= ne)%nat -> dsorted s -> s <> [] -> start s = 0 -> feeds1 [] bs s ->
    exists st outs,
      hist_timed_run (hwin_init (zb nb) (zb ne)) bs = Some (st, outs) /\
      wsorted (concat outs) /\
      (forall a v, In (a, v) (concat outs) -> 0 <= a <= lastT s) /\
      (forall t, 0 <= t <= lastT s -> den_opt (concat outs) t = Some (rhoZ AR pk [s] tend (HistT nb ne (Var 0)) t)).
Proof. exact @hist_timed_online_rhoZ. Qed.
Print Assumptions C05_historically_timed.

Theorem C05_timed_chunking :
  forall (VS : Val) (b e : Z) (s : dsig) (bs bs' : list dsig),
    0 <= b -> b <= e -> dsorted s -> s <> [] -> start s = 0 -> feeds1 [] bs s -> feeds1 [] bs' s ->
    (exists st outs st' outs',
      once_timed_run (owin_init b e) bs = Some (st, outs) /\ once_timed_run (owin_init b e) bs' = Some (st', outs') /\
      forall t, 0 <= t <= lastT s -> den_opt (concat outs) t = den_opt (concat outs') t) /\
    (exists st outs st' outs',
      hist_timed_run (hwin_init b e) bs = Some (st, outs) /\ hist_timed_run (hwin_init b e) bs' = Some (st', outs') /\
      forall t, 0 <= t <= lastT s -> den_opt (concat outs) t = den_opt (concat outs') t).
Proof.
  intros VS b e s bs bs' H0 H1 H2 H3 H4 H5 H6. split.
  - exact (once_timed_online_chunking b e s bs bs' H0 H1 H2 H3 H4 H5 H6).
  - exact (hist_timed_online_chunking b e s bs bs' H0 H1 H2 H3 H4 H5 H6).
Qed.
Print Assumptions C05_timed_chunking.

(* unbounded once / historically: running maximum / minimum from the start of the signal, any cutting *)
Theorem C05_once :
  forall (VS : Val) (s : dsig) (bs : list dsig),
    dsorted s -> s <> [] -> concat bs = s ->
    exists st outs,
      once_run Z once_init bs = Some (st, outs) /\ map fst (concat outs) = map fst s /\ dsorted (concat outs) /\
      (forall t, start s <= t -> den_opt (concat outs) t = Some (zmax (den s) (start s) t)) /\
      (forall t, t < start s -> den_opt (concat outs) t = None) /\ fprev st = zmax (den s) (start s) (lastT s).
Proof. exact @once_run_correct. Qed.
Print Assumptions C05_once.

Theorem C05_historically :
  forall (VS : Val) (s : dsig) (bs : list dsig),
    dsorted s -> s <> [] -> concat bs = s ->
    exists st outs,
      hist_run Z hist_init bs = Some (st, outs) /\ map fst (concat outs) = map fst s /\ dsorted (concat outs) /\
      (forall t, start s <= t -> den_opt (concat outs) t = Some (zmin (den s) (start s) t)) /\
      (forall t, t < start s -> den_opt (concat outs) t = None) /\ fprev st = zmin (den s) (start s) (lastT s).
Proof. exact @hist_run_correct. Qed.
Print Assumptions C05_historically.

(* unbounded since: the outputs cover [t0, F) (F excluded) and carry the dense-time since value *)
Theorem C05_since :
  forall (VS : Val) (AR : Arith VS) (pk : formula -> formula -> pkind) (s1 s2 : dsig) (bs : list (dsig * dsig)) (tend : Z),
    dsorted s1 -> dsorted s2 -> s1 <> [] -> s2 <> [] ->
    concat (map fst bs) = s1 -> concat (map snd bs) = s2 ->
    exists st outs,
      since_run Z Z.ltb since_init bs = Some (st, outs) /\
      (forall t, Z.max (start s1) (start s2) <= t < Z.min (lastT s1) (lastT s2) ->
         den_opt (concat outs) t = Some (rhoZ AR pk [s1; s2] tend (Since (Var 0) (Var 1)) t)).
Proof. exact @since_run_rhoZ. Qed.
Print Assumptions C05_since.

Theorem C05_since_chunking :
  forall (VS : Val) (s1 s2 : dsig) (bs bs' : list (dsig * dsig)),
    dsorted s1 -> dsorted s2 -> s1 <> [] -> s2 <> [] ->
    concat (map fst bs) = s1 -> concat (map snd bs) = s2 -> concat (map fst bs') = s1 -> concat (map snd bs') = s2 ->
    exists st outs st' outs',
      since_run Z Z.ltb since_init bs = Some (st, outs) /\ since_run Z Z.ltb since_init bs' = Some (st', outs') /\
      forall t, Z.max (start s1) (start s2) <= t < Z.min (lastT s1) (lastT s2) -> den_opt (concat outs) t = den_opt (concat outs') t.
Proof. exact @since_run_chunking. Qed.
Print Assumptions C05_since_chunking.

(* unary point-wise operations (not, abs, unary minus, sqrt, exp, ln): sample by sample, whatever the cutting; f v = None models a raising sample *)
Theorem C05_unary :
  forall (VS : Val) (f : V -> option V) (g : V -> V) (s : dsig) (bs : list dsig),
    concat bs = s -> (forall a v, In (a, v) s -> f v = Some (g v)) ->
    exists outs,
      unary_run Z f unary_init bs = Some (unary_init, outs) /\ concat outs = gmap g s /\
      map fst (concat outs) = map fst s /\ (dsorted s -> dsorted (concat outs)) /\
      (forall t, den_opt (concat outs) t = option_map g (den_opt s t)).
Proof. exact @unary_run_correct. Qed.
Print Assumptions C05_unary.

(* ---- the whole monitor: the update visitor that composes the operations (model DenseOnlineMon.v) ---- *)

(* for every formula of the fragment `frag` (variables; abs, unary minus, exp; + - * / pow log, the six comparisons, and / or / implies / iff / xor
   over two open operands or one open operand and a constant; not, once, historically, since and their bounded forms), signals that are strictly
   increasing and start at 0, and ANY sequence of per-variable batches (a batch may begin with a repetition of the last sample already sent):
   no update() raises, the concatenated outputs have non-decreasing stamps and denote rhoZ of the formula at every tick up to their last stamp,
   which never lies beyond the last stamp of a variable of the formula *)
Theorem C05_monitor :
  forall (VS : Val) (AR : Arith VS) (pk : formula -> formula -> pkind),
    (forall f g, pk f g = PStd) -> (forall l r : V, neg (a2 AR Sub l r) = a2 AR Sub r l) ->
    forall (p : formula) (W : list dsig) (tend : Z) (envs : list (list dsig)),
      DenseOnlineMonCorrect.frag p = true ->
      (forall x, DenseOnlineMonCorrect.feedsI [] (map (fun env => nth x env []) envs) (nth x W [])) ->
      (forall x, dsorted (nth x W [])) ->
      (forall x, nth x W [] <> [] -> start (nth x W []) = 0) ->
      exists d outs S,
        DenseOnlineMon.mon_run AR pk p (DenseOnlineMon.mon_init p) envs = Some (d, map DenseOnlineMon.lift outs) /\
        DenseOnlineMon.mon_run_fin AR pk p (DenseOnlineMon.mon_init p) envs = Some (d, outs) /\
        length outs = length envs /\
        DenseOnlineMonCorrect.feedsI [] outs S /\ dsorted S /\
        wsorted (concat outs) /\
        (forall a v, In (a, v) (concat outs) -> 0 <= a <= lastT (concat outs)) /\
        (forall t, concat outs <> [] -> 0 <= t <= lastT (concat outs) -> den_opt (concat outs) t = Some (rhoZ AR pk W tend p t)) /\
        (forall x, In x (DenseOnlineMonCorrect.fvars p) -> lastT (concat outs) <= lastT (nth x W [])).
Proof. exact @DenseOnlineMonCorrect.mon_online_correct. Qed.
Print Assumptions C05_monitor.

Theorem C05_monitor_chunking :
  forall (VS : Val) (AR : Arith VS) (pk : formula -> formula -> pkind),
    (forall f g, pk f g = PStd) -> (forall l r : V, neg (a2 AR Sub l r) = a2 AR Sub r l) ->
    forall (p : formula) (W : list dsig) (envs envs' : list (list dsig)),
      DenseOnlineMonCorrect.frag p = true ->
      (forall x, DenseOnlineMonCorrect.feedsI [] (map (fun env => nth x env []) envs) (nth x W [])) ->
      (forall x, DenseOnlineMonCorrect.feedsI [] (map (fun env => nth x env []) envs') (nth x W [])) ->
      (forall x, dsorted (nth x W [])) ->
      (forall x, nth x W [] <> [] -> start (nth x W []) = 0) ->
      exists d outs d' outs',
        DenseOnlineMon.mon_run_fin AR pk p (DenseOnlineMon.mon_init p) envs = Some (d, outs) /\
        DenseOnlineMon.mon_run_fin AR pk p (DenseOnlineMon.mon_init p) envs' = Some (d', outs') /\
        (forall t, concat outs <> [] -> concat outs' <> [] ->
           0 <= t <= Z.min (lastT (concat outs)) (lastT (concat outs')) ->
           den_opt (concat outs) t = den_opt (concat outs') t).
Proof. exact @DenseOnlineMonCorrect.mon_online_chunking. Qed.
Print Assumptions C05_monitor_chunking.

(* the larger fragment (DenseOnlineMonMore.v): every predicate kind of the IA-STL semantics (under the sign laws of the difference, DiffLaws), constants at
   every operand position of the untimed operators and as the operand of a bounded operator (cl p = COpen: the formula has a variable and no unsupported
   node), sqrt and ln under the hypothesis `safe` (no value they receive inside the horizon makes them raise); and progress: for since-free formulas
   whose bounded operators have a positive upper bound (pg) the outputs reach the last stamp of one of the variables *)
Theorem C05_monitor_general :
  forall (VS : Val) (AR : Arith VS) (pk : formula -> formula -> pkind),
    (forall f g, pk f g = PStd) \/ DenseIA.DiffLaws AR -> (forall l r : V, neg (a2 AR Sub l r) = a2 AR Sub r l) ->
    forall (p : formula) (W : list dsig) (tend : Z) (envs : list (list dsig)),
      DenseOnlineMonMore.cl p = DenseOnlineMonMore.COpen ->
      (forall x, DenseOnlineMonCorrect.feedsI [] (map (fun env => nth x env []) envs) (nth x W [])) ->
      (forall x, dsorted (nth x W [])) ->
      (forall x, nth x W [] <> [] -> start (nth x W []) = 0) ->
      DenseOnlineMonMore.safe AR pk W tend p ->
      exists d outs S,
        DenseOnlineMon.mon_run AR pk p (DenseOnlineMon.mon_init p) envs = Some (d, map DenseOnlineMon.lift outs) /\
        DenseOnlineMon.mon_run_fin AR pk p (DenseOnlineMon.mon_init p) envs = Some (d, outs) /\
        length outs = length envs /\
        DenseOnlineMonCorrect.feedsI [] outs S /\ dsorted S /\
        wsorted (concat outs) /\
        (forall a v, In (a, v) (concat outs) -> 0 <= a <= lastT (concat outs)) /\
        (forall t, concat outs <> [] -> 0 <= t <= lastT (concat outs) -> den_opt (concat outs) t = Some (rhoZ AR pk W tend p t)) /\
        (forall x, In x (DenseOnlineMonCorrect.fvars p) -> lastT (concat outs) <= lastT (nth x W [])) /\
        (DenseOnlineMonMore.pg p = true -> exists x, In x (DenseOnlineMonCorrect.fvars p) /\ lastT (concat outs) = lastT (nth x W [])).
Proof. exact @DenseOnlineMonMore.mon_online_correct_pk. Qed.
Print Assumptions C05_monitor_general.

(* a formula without variables (constants only): the monitor returns the constant signal, on stamps with +inf *)
Theorem C05_monitor_closed :
  forall (VS : Val) (AR : Arith VS) (pk : formula -> formula -> pkind),
    (forall f g, pk f g = PStd) \/ DenseIA.DiffLaws AR -> (forall l r : V, neg (a2 AR Sub l r) = a2 AR Sub r l) ->
    forall (p : formula) (W : list dsig) (tend : Z) (envs : list (list dsig)),
      DenseOnlineMonMore.cl p = DenseOnlineMonMore.CClosed ->
      (forall x, DenseOnlineMonCorrect.feedsI [] (map (fun env => nth x env []) envs) (nth x W [])) ->
      (forall x, dsorted (nth x W [])) ->
      (forall x, nth x W [] <> [] -> start (nth x W []) = 0) ->
      DenseOnlineMonMore.safe AR pk W tend p ->
      exists d ys,
        DenseOnlineMon.mon_run AR pk p (DenseOnlineMon.mon_init p) envs = Some (d, ys) /\ length ys = length envs /\
        (forall t, 0 <= t -> (exists a v, In (a, v) (concat ys) /\ DenseOnlineMon.tle (T t) a = true) ->
           DenseOnlineMonMore.eden_opt (concat ys) t = Some (rhoZ AR pk W tend p t)).
Proof. exact @DenseOnlineMonMore.mon_online_closed. Qed.
Print Assumptions C05_monitor_closed.

(* the hypotheses on the instance hold for the executable one, and a formula with a shared sub-formula is in the fragment *)
Example C05_monitor_nonvacuous :
  (forall l r : extz, @neg ExtZVal (a2 ExtZArith Sub l r) = a2 ExtZArith Sub r l) /\
  let P : @formula ExtZVal := Pred CGeq (Var 0) (Const (Fin 1)) in
  let p := And (OnceT 0 2 P) (Since (Not P) (Pred CLeq (A2 Add (Var 0) (Var 1)) (Const (Fin 3)))) in
  DenseOnlineMonCorrect.frag p = true /\
  option_map snd (DenseOnlineMon.mon_run_fin ExtZArith (fun _ _ => PStd) p (DenseOnlineMon.mon_init p)
     [[[(0, Fin 3)]; [(0, Fin 1)]]; [[(2, Fin 0); (5, Fin 2)]; [(4, Fin 0)]]; [[(7, Fin 0)]; [(7, Fin 1)]]])
  = Some [[]; [(0, Fin (-2)); (2, Fin 1)]; [(4, Fin (-1)); (5, Fin (-1))]].
Proof. split; [exact DenseOnlineMonCorrect.extz_SubNeg|]. cbv zeta. split; vm_compute; reflexivity. Qed.

(* two chunkings of the same signals (one sample at a time with a repeated boundary sample / everything at once): different
   sample lists per call, the same step function *)
Example C05_binary_nonvacuous :
  let s1 : @dsig ExtZVal := [(0, Fin 3); (2, Fin 6); (5, Fin 4)] in
  let s2 : @dsig ExtZVal := [(0, Fin 2); (3, Fin 5); (6, Fin 0)] in
  let f := @vmin ExtZVal in
  dsorted s1 /\ dsorted s2 /\
  option_map snd (bin_run f ostate0 [(s1, s2)]) = Some [[(0, Fin 2); (3, Fin 5); (5, Fin 4)]] /\
  option_map snd (bin_run f ostate0 [([(0, Fin 3)], [(0, Fin 2)]); ([(0, Fin 9); (2, Fin 6)], [(3, Fin 5)]); ([(5, Fin 4)], [(6, Fin 0)])])
    = Some [[(0, Fin 2)]; [(2, Fin 2)]; [(3, Fin 5); (5, Fin 4)]].
Proof. cbv zeta. repeat split; vm_compute; try reflexivity; auto. Qed.

Example C05_nonvacuous :
  let p : @formula ExtZVal := Or (Once (Pred CGeq (Var 0) (Const (Fin 1)))) (OnceT 1 2 (Pred CLeq (Var 0) (Const (Fin 3)))) in
  let W1 : list (@dsig ExtZVal) := [[(0, Fin 3); (4, Fin 0)]] in
  let W2 : list (@dsig ExtZVal) := [[(0, Fin 3); (4, Fin 0); (7, Fin 9)]] in
  dbounded p = true /\ dhor p = 0 /\
  map (rhoZ ExtZArith (fun _ _ => PStd) W2 7 p) [0; 3; 6] = map (rhoZ ExtZArith (fun _ _ => PStd) W1 4 p) [0; 3; 6] /\
  rhoZ ExtZArith (fun _ _ => PStd) W2 7 p 7 <> rhoZ ExtZArith (fun _ _ => PStd) W1 4 p 7.
Proof. cbv zeta. repeat split; try reflexivity. vm_compute. discriminate. Qed.

(* ---------------- the operation classes as GENERATED from the Python text (DenseOnlineGen.v) ---------------- *)
Theorem C05_generated_operations :
  forall (VS : Val) (AR : Arith VS) (T : Type) (tltb teqb : T -> T -> bool),
  let B := fun f => bin_update_g T tltb teqb f in
  let S (A : Type) (abs : A -> @ostate VS T) (r : option (A * list (T * V))) := option_map (fun p => (abs (fst p), snd p)) r in
  (* binary classes built on intersection() *)
  (forall st b1 b2, S _ (And_abs T) (gen_And_update AR T tltb teqb st b1 b2) = B vmin (And_abs T st) b1 b2) /\
  (forall st b1 b2, option_map (fun p => And_sample_last_buf (fst p)) (gen_And_update AR T tltb teqb st b1 b2)
                    = option_map (fun _ => And_sample_last_buf st) (B vmin (And_abs T st) b1 b2)) /\
  (forall st b1 b2, S _ (Or_abs T) (gen_Or_update AR T tltb teqb st b1 b2) = B vmax (Or_abs T st) b1 b2) /\
  (forall st b1 b2, S _ (Implies_abs T) (gen_Implies_update AR T tltb teqb st b1 b2) = B (fun l r => vmax (neg l) r) (Implies_abs T st) b1 b2) /\
  (forall st b1 b2, S _ (Iff_abs T) (gen_Iff_update AR T tltb teqb st b1 b2) = B (fun l r => neg (a1 AR Abs (a2 AR Sub l r))) (Iff_abs T st) b1 b2) /\
  (forall st b1 b2, S _ (Xor_abs T) (gen_Xor_update AR T tltb teqb st b1 b2) = B (fun l r => a1 AR Abs (a2 AR Sub l r)) (Xor_abs T st) b1 b2) /\
  (forall st b1 b2, S _ (Addition_abs T) (gen_Addition_update AR T tltb teqb st b1 b2) = B (a2 AR Add) (Addition_abs T st) b1 b2) /\
  (forall st b1 b2, S _ (Subtraction_abs T) (gen_Subtraction_update AR T tltb teqb st b1 b2) = B (a2 AR Sub) (Subtraction_abs T st) b1 b2) /\
  (forall st b1 b2, S _ (Division_abs T) (gen_Division_update AR T tltb teqb st b1 b2) = B (a2 AR Div) (Division_abs T st) b1 b2) /\
  (forall st b1 b2, S _ (Pow_abs T) (gen_Pow_update AR T tltb teqb st b1 b2) = B (a2 AR Pow) (Pow_abs T st) b1 b2) /\
  (forall st b1 b2, S _ (Log_abs T) (gen_Log_update AR T tltb teqb st b1 b2) = B (a2 AR Log) (Log_abs T st) b1 b2) /\
  (* multiplication: last_output is forgotten at every update *)
  (forall st b1 b2 lo, gen_Multiplication_update AR T tltb teqb st b1 b2 =
     match mul_update_g T tltb teqb (a2 AR Mul)
             {| lbuf := Multiplication_sample_left_buf st; rbuf := Multiplication_sample_right_buf st; lout := lo |} b1 b2 with
     | None => None
     | Some (st', o) => Some (mk_Multiplication_state (lbuf st') (rbuf st'), o)
     end) /\
  (* unary point-wise classes *)
  (forall st s, gen_Not_update AR T tltb teqb st s = match unary_update T not_fn tt s with None => None | Some (_, o) => Some (st, o) end) /\
  (forall st s, gen_Abs_update AR T tltb teqb st s = unary_update T (total_fn AR Abs) st s) /\
  (forall st s, gen_Negate_update AR T tltb teqb st s = unary_update T not_fn st s) /\
  (forall st s, gen_Sqrt_update AR T tltb teqb st s = unary_update T (sqrt_fn AR) st s) /\
  (forall st s, gen_Exp_update AR T tltb teqb st s = unary_update T (total_fn AR Exp) st s) /\
  (forall st s, gen_Ln_update AR T tltb teqb st s = unary_update T (partial_fn AR Ln (fun v => ltb (azero AR) v)) st s) /\
  (* once / historically / always *)
  (forall st s, gen_Once_update AR T tltb teqb st s =
     match once_update T {| fprev := Once_prev st |} s with None => None | Some (st', o) => Some (mk_Once_state (fprev st'), o) end) /\
  (forall st s, gen_Historically_update AR T tltb teqb st s =
     match hist_update T {| fprev := Historically_prev st |} s with None => None | Some (st', o) => Some (mk_Historically_state (fprev st'), o) end) /\
  (forall st s, gen_Always_update AR T tltb teqb st s =
     match alw_update T {| fprev := Always_prev st |} s with None => None | Some (st', o) => Some (mk_Always_state (fprev st'), o) end) /\
  (* since *)
  (forall st b1 b2, gen_Since_update AR T tltb teqb st b1 b2 =
     match since_update T tltb (Since_abs T st) (b1, b2) with None => None | Some (st', o) => Some (Since_conc T st', o) end) /\
  (* predicate (STL): update and sat; predicate (IA-STL): update *)
  (forall st l r, option_map (fun p => (Predicate_abs T (fst p), snd p)) (gen_Predicate_update AR T tltb teqb st l r)
                  = pred_update_g AR T tltb teqb (Predicate_comparison_op st) (Predicate_abs T st) l r) /\
  (forall st l r, gen_Predicate_sat AR T tltb teqb st l r
                  = Some (st, sat_scan AR T (Predicate_comparison_op st) None (Predicate_subtraction_output st))) /\
  (forall st l r, option_map (fun p => (IAPredicate_abs T (fst p), snd p)) (gen_IAPredicate_update AR T tltb teqb st l r)
                  = pred_update_ia AR T tltb teqb (ia_kind (IAPredicate_semantics st) (IAPredicate_in_vars st) (IAPredicate_out_vars st))
                      (Predicate_comparison_op (IAPredicate_base st)) (IAPredicate_abs T st) l r) /\
  (forall st l r st' o, gen_IAPredicate_update AR T tltb teqb st l r = Some (st', o) ->
     IAPredicate_semantics st' = IAPredicate_semantics st /\ IAPredicate_in_vars st' = IAPredicate_in_vars st /\
     IAPredicate_out_vars st' = IAPredicate_out_vars st /\
     Predicate_comparison_op (IAPredicate_base st') = Predicate_comparison_op (IAPredicate_base st)) /\
  (forall c, Predicate_abs T (Predicate_init T c) = pred_init) /\
  (* constant *)
  (forall tzero tinf st, gen_Constant_update AR T tltb teqb tzero tinf st =
     Some (mk_Constant_state (Constant_val st) false,
           if Constant_is_first_sample st then [(tzero, Constant_val st); (tinf, Constant_val st)] else [])) /\
  (* __init__ and the functions handed to intersection() *)
  And_abs T (And_init T) = ostate0 /\ Since_abs T (Since_init T) = since_init /\ Once_prev (Once_init T) = bot /\
  Historically_prev (Historically_init T) = top /\ Always_prev (Always_init T) = top /\
  gen_m_conjunction AR = vmin /\ gen_m_disjunction AR = vmax /\ gen_m_multiplication AR = a2 AR Mul /\ gen_m_division AR = a2 AR Div /\
  gen_m_power AR = a2 AR Pow /\ gen_m_log AR = a2 AR Log.
Proof. exact @dense_online_gen_refines. Qed.
Print Assumptions C05_generated_operations.

(* the bounded operations once[a,b] / historically[a,b] / since[a,b] and the constant, as GENERATED from the Python text, on the stamps tz:
   in every state that satisfies the invariant win_wf (started -> residual_start is the stamp of a sample; true of a fresh object and
   preserved by update) the generated update IS the hand model win_update_e / since_timed_update_g / const_update *)
Theorem C05_generated_bounded_operations :
  forall (VS : Val) (AR : Arith VS),
  (* once[a,b] *)
  (forall st s, PO_e st ->
     option_map (fun p => (OnceTimed_abs (fst p), snd p)) (gen_OnceTimed_update AR tz tlt teq tadd (T 0) st s) = once_timed_update_e (OnceTimed_abs st) s) /\
  (forall b e, OnceTimed_abs (OnceTimed_init tz b e) = owin_init_e b e /\ PO_e (OnceTimed_init tz b e)) /\
  (forall st s st' o, PO_e st -> gen_OnceTimed_update AR tz tlt teq tadd (T 0) st s = Some (st', o) -> PO_e st') /\
  (* historically[a,b] *)
  (forall st s, PH_e st ->
     option_map (fun p => (HistoricallyTimed_abs (fst p), snd p)) (gen_HistoricallyTimed_update AR tz tlt teq tadd (T 0) st s)
     = hist_timed_update_e (HistoricallyTimed_abs st) s) /\
  (forall b e, HistoricallyTimed_abs (HistoricallyTimed_init tz b e) = hwin_init_e b e /\ PH_e (HistoricallyTimed_init tz b e)) /\
  (forall st s st' o, PH_e st -> gen_HistoricallyTimed_update AR tz tlt teq tadd (T 0) st s = Some (st', o) -> PH_e st') /\
  (* since[a,b] *)
  (forall st l r, SinceTimed_wf st ->
     option_map (fun p => (SinceTimed_abs_e (fst p), snd p)) (gen_SinceTimed_update AR tz tlt teq tadd (T 0) st l r)
     = since_timed_update_g tz tlt teq (@wstate_e VS) once_timed_update_e hist_timed_update_e (SinceTimed_abs_e st) l r) /\
  (forall b e, SinceTimed_abs_e (SinceTimed_init tz b e) = st_init (hwin_init_e 0 b) (owin_init_e b e) /\ SinceTimed_wf (SinceTimed_init tz b e)) /\
  (forall st l r st' o, SinceTimed_wf st -> gen_SinceTimed_update AR tz tlt teq tadd (T 0) st l r = Some (st', o) -> SinceTimed_wf st') /\
  (* constant *)
  (forall st, gen_Constant_update AR tz tlt teq (T 0) TInf st =
     match const_update (Constant_abs st) tt with None => None | Some (st', o) => Some (Constant_conc st', o) end) /\
  (forall c, Constant_abs (Constant_init tz c) = const_init c).
Proof. exact @dense_online_gen_bounded_refines. Qed.
Print Assumptions C05_generated_bounded_operations.

Theorem C05_generated_binary_chunking :
  forall (VS : Val) (AR : Arith VS) (s1 s2 : dsig) (bs : list (dsig * dsig)),
  dsorted s1 -> dsorted s2 -> s1 <> [] -> s2 <> [] -> feeds [] [] bs s1 s2 ->
  let F := Z.min (lastT s1) (lastT s2) in
  let t0 := Z.max (start s1) (start s2) in
  let OK (St : Type) (upd : St -> dsig -> dsig -> option (St * dsig)) (i : St) (f : V -> V -> V) :=
    exists st outs,
      run_g (fun st (b : dsig * dsig) => upd st (fst b) (snd b)) i bs = Some (st, outs) /\
      wsorted (concat outs) /\
      (forall a v, In (a, v) (concat outs) -> t0 <= a <= F) /\
      (forall t, t0 <= t <= F -> den_opt (concat outs) t = Some (f (den s1 t) (den s2 t))) in
  OK _ (gen_And_update AR Z Z.ltb Z.eqb) (And_init Z) vmin /\
  OK _ (gen_Or_update AR Z Z.ltb Z.eqb) (Or_init Z) vmax /\
  OK _ (gen_Implies_update AR Z Z.ltb Z.eqb) (Implies_init Z) (fun l r => vmax (neg l) r) /\
  OK _ (gen_Iff_update AR Z Z.ltb Z.eqb) (Iff_init Z) (fun l r => neg (a1 AR Abs (a2 AR Sub l r))) /\
  OK _ (gen_Xor_update AR Z Z.ltb Z.eqb) (Xor_init Z) (fun l r => a1 AR Abs (a2 AR Sub l r)) /\
  OK _ (gen_Addition_update AR Z Z.ltb Z.eqb) (Addition_init Z) (a2 AR Add) /\
  OK _ (gen_Subtraction_update AR Z Z.ltb Z.eqb) (Subtraction_init Z) (a2 AR Sub) /\
  OK _ (gen_Division_update AR Z Z.ltb Z.eqb) (Division_init Z) (a2 AR Div) /\
  OK _ (gen_Pow_update AR Z Z.ltb Z.eqb) (Pow_init Z) (a2 AR Pow) /\
  OK _ (gen_Log_update AR Z Z.ltb Z.eqb) (Log_init Z) (a2 AR Log).
Proof. exact @dense_online_gen_binary_chunking. Qed.
Print Assumptions C05_generated_binary_chunking.

(* the generated Division class (no direct correspondence stream reaches it) on a concrete run: the boundary sample is dropped *)
Example C05_generated_nonvacuous :
  option_map snd (run_g (fun st (b : list (Z * extz) * list (Z * extz)) => gen_Division_update ExtZArith Z Z.ltb Z.eqb st (fst b) (snd b))
                        (Division_init Z)
                        [([(0, Fin 6)], [(0, Fin 2)]); ([(0, Fin 9); (2, Fin 8)], [(3, Fin 4)]); ([(5, Fin 4)], [(6, Fin 1)])])
  = Some [[(0, Fin 3)]; [(2, Fin 4)]; [(3, Fin 2); (5, Fin 1)]].
Proof. vm_compute. reflexivity. Qed.

(* ---------------- intersection() as GENERATED from the Python text (MergeGen.v) ---------------- *)
Theorem C05_generated_merge :
  forall (VS : Val) (T : Type) (tltb teqb : T -> T -> bool) (f : V -> V -> V),
  (forall out item, gen_on_append T V veq out item = Ok (oappend T out item)) /\
  (* for every type of stamps: the same result, Raise or NoFuel where the model has None *)
  (forall s1 s2, res_opt (gen_on_intersection T tltb teqb V veq f s1 s2) = oisect_g T tltb teqb f s1 s2) /\
  (* the fuel suffices when the comparisons are trichotomous: NoFuel does not occur, Raise = None *)
  (trichotomous T tltb teqb -> forall s1 s2, gen_on_intersection T tltb teqb V veq f s1 s2 = rlift (oisect_g T tltb teqb f s1 s2)).
Proof. exact @merge_gen_on_refines. Qed.
Print Assumptions C05_generated_merge.

(* integer stamps (the model of C05_binary_merge) and stamps with +inf *)
Theorem C05_generated_merge_instances :
  forall (VS : Val) (f : V -> V -> V),
  (forall s1 s2 : dsig, gen_on_intersection Z Z.ltb Z.eqb V veq f s1 s2 = rlift (oisect f s1 s2)) /\
  (forall s1 s2 : esig, gen_on_intersection tz tlt teq V veq f s1 s2 = rlift (oisect_e f s1 s2)).
Proof. exact @merge_gen_on_instances. Qed.
Print Assumptions C05_generated_merge_instances.

(* without trichotomy NoFuel does occur: the first tail loop has no final else; CPython never returns from
   intersection([[0, 1], [nan, 2]], [[1, 5]], conjunction) *)
Example C05_generated_merge_nofuel_witness :
  forall (VS : Val) (f : V -> V -> V),
  gen_on_intersection Z (fun _ _ => false) (fun _ _ => false) V veq f [(0, bot); (1, bot)] [(0, bot)] = NoFuel.
Proof. exact @gen_on_intersection_nofuel_witness. Qed.

(* ---- the visitors of the dense-time online interpreter, re-generated from the Python text on every build
   (tools/py2coq_denseonlinevisitor.py, DenseOnlineVisitorGen.v): for every node class, the construction visitor stores an object of
   the operation class whose generated update (DenseOnlineGen.v, on the stamps tz) is const_update / ustep / bstep of the hand model
   DenseOnlineMon.v on its tz-instance state at that node, and rejects exactly the specifications that Support.supported DenseOn
   excludes: the dispatch "node class -> operation class -> update" of DenseOnlineMon.v / DenseOnlineReset.v is the one of the code.
   (The whole-run equation gen_drun = mon_run is NOT proved: see the header of DenseOnlineVisitorGenCorrect.v.) ---- *)
From Coq Require String.
From RV Require Import Units NodeName DenseOnlineVisitorGen DenseOnlineVisitorGenCorrect.
From RV Require OnlineNamed Support.
Theorem C05_generated_monitor : denseonlinevisitor_gen_statement.
Proof. exact @denseonlinevisitor_gen_refines. Qed.
Print Assumptions C05_generated_monitor.

(* a rejected specification: a node class the dense-time online monitor does not implement, anywhere in a root, makes set_ast raise;
   every other specification whose bounds time_unit_transformer converts is accepted *)
Theorem C05_generated_monitor_rejects :
  forall (VS : Val) (vidx : String.string -> String.string -> nat) (cval : String.string -> V) (bnd : bound -> bound -> nat * nat)
         (tut : bound -> bound -> option (Z * Z)) (x : node),
    (Support.supported Support.DenseOn (OnlineNamed.sem vidx cval bnd x) = false -> forall gd, gen_dconstruct tut cval x gd = None) /\
    (Support.supported Support.DenseOn (OnlineNamed.sem vidx cval bnd x) = true -> tut_total tut x = true ->
     forall gd, exists gd', gen_dconstruct tut cval x gd = Some gd').
Proof.
  intros VS vidx cval bnd tut x. split.
  - intros H. apply (@gen_dconstruct_rejects VS vidx cval bnd tut x). rewrite supported_dense_on. exact H.
  - intros H Ht. apply (@gen_dconstruct_accepts VS vidx cval bnd tut x); [rewrite supported_dense_on; exact H|exact Ht].
Qed.
Print Assumptions C05_generated_monitor_rejects.

(* the update visitor, clause by clause: at every node class gen_dupdate has the shape of DenseOnlineMon.visit (memo test, children left
   to right, the object under the node's name stepped once with the children's lists in this order and written back, result memoised) *)
Theorem C05_generated_monitor_update : denseonlinevisitor_gen_update_statement.
Proof. exact @denseonlinevisitor_gen_update_shape. Qed.
Print Assumptions C05_generated_monitor_update.

(* ... and on the specification and the batches of C05_monitor_nonvacuous (a shared sub-formula: the `visited` memo is hit; a bounded
   operator; constants) the generated set_ast / update run end to end and return the lists of the hand monitor mon_run *)
Import String.
Local Open Scope string_scope.
Example C05_generated_monitor_nonvacuous :
  let vidx := fun (v f : String.string) => if String.eqb v "x" then 0%nat else 1%nat in
  let cval := fun t : String.string => if String.eqb t "1.0" then Fin 1 else Fin 3 in
  let bnd := fun b e : bound => (N.to_nat (bnum b), N.to_nat (bnum e)) in
  let tut := fun b e : bound => Some (Z.of_N (bnum b), Z.of_N (bnum e)) in
  let mkb := fun n => {| bnum := n; bden := 1; bunit := None |} in
  let P := NBin (b_pred CGeq) (NVar "x" "") (NConst "1.0") in
  let p := NBin b_and (NTUn t_once (mkb 0%N) (mkb 2%N) P)
                      (NBin b_since (NUn u_not P) (NBin (b_pred CLeq) (NBin b_add (NVar "x" "") (NVar "y" "")) (NConst "3.0"))) in
  let bs : list (list (list (Z * extz))) := [[[(0, Fin 3)]; [(0, Fin 1)]]; [[(2, Fin 0); (5, Fin 2)]; [(4, Fin 0)]]; [[(7, Fin 0)]; [(7, Fin 1)]]] in
  let vobjs := fun (k : nat) (v f : String.string) => Some (lift (nth (vidx v f) (nth k bs []) [])) in
  let f := OnlineNamed.sem vidx cval bnd p in
  match gen_dset_ast tut cval [p] with
  | None => False
  | Some d0 =>
      option_map snd (gen_drun ExtZArith vobjs [p] d0 0 3) = option_map snd (mon_run ExtZArith (fun _ _ => PStd) f (mon_init f) bs) /\
      option_map snd (gen_drun ExtZArith vobjs [p] d0 0 3) = Some [[]; [(T 0, Fin (-2)); (T 2, Fin 1)]; [(T 4, Fin (-1)); (T 5, Fin (-1))]]
  end.
Proof. cbv zeta. vm_compute. split; reflexivity. Qed.
