(* C19 — dense-time and discrete-time interpretations agree on sampled step
   signals: the dense-time semantics (DenseSem.rhoZ) of the formula with bounds
   multiplied by the period P, on the step signals that hold sample k during
   [kP, (k+1)P), equals the discrete-time robustness rho at sample k — at the
   sampling instant kP and in fact at every tick of that grid cell — whenever
   k + horizon < n.  Independent of the code; tied to it by C01 (discrete) and
   by the correspondence checks of C04/C19 (dense). *)
From Coq Require Import List Arith ZArith Lia.
From RV Require Import Val Syntax Rho Offline Dense DenseSem DenseGrid DenseVisitor DenseGridVisitor ExtZ.
Import ListNotations.

Theorem C19_grid :
  forall (VS : Val) (AR : Arith VS) (Pn : nat) (w : trace) (n : nat) (tend : Z) (p : formula),
    (0 < Pn)%nat -> (forall x, (x < length w)%nat -> length (nth x w []) = n) ->
    frag p = true -> wf_bounds p = true ->
    forall t : Z, (0 <= t)%Z -> (Z.to_nat (t / Z.of_nat Pn) + hor p < n)%nat ->
      rhoZ AR (fun _ _ => PStd) (map (stepsig (Z.of_nat Pn)) w) tend (scaleF Pn p) t
      = rho AR (fun _ _ => PStd) p w n (Z.to_nat (t / Z.of_nat Pn)).
Proof.
  intros VS AR Pn w n tend p HP Hc Hf Hw t Ht Hk.
  apply (grid_agree AR (fun _ _ => PStd) Pn w n tend HP Hc (fun _ _ => eq_refl) p Hf Hw t Ht Hk).
Qed.
Print Assumptions C19_grid.

(* at the sampling instants *)
Corollary C19_sampling_instants :
  forall (VS : Val) (AR : Arith VS) (Pn : nat) (w : trace) (n : nat) (tend : Z) (p : formula) (k : nat),
    (0 < Pn)%nat -> (forall x, (x < length w)%nat -> length (nth x w []) = n) ->
    frag p = true -> wf_bounds p = true -> (k + hor p < n)%nat ->
      rhoZ AR (fun _ _ => PStd) (map (stepsig (Z.of_nat Pn)) w) tend (scaleF Pn p) (Z.of_nat k * Z.of_nat Pn)
      = rho AR (fun _ _ => PStd) p w n k.
Proof.
  intros VS AR Pn w n tend p k HP Hc Hf Hw Hk.
  assert (E : Z.to_nat (Z.of_nat k * Z.of_nat Pn / Z.of_nat Pn) = k) by (rewrite Z.div_mul by lia; apply Nat2Z.id).
  rewrite <- E at 2. apply C19_grid; try assumption; [lia|rewrite E; exact Hk].
Qed.
Print Assumptions C19_sampling_instants.

(* the same statement about the two implementation-layer models: the list built by the dense-time visitor (bounds times P),
   read at k*P, is the k-th entry of the list built by the discrete-time visitor *)
Theorem C19_visitors :
  forall (VS : Val) (AR : Arith VS), (forall l r, neg (a2 AR Sub l r) = a2 AR Sub r l) ->
  forall (Pn : nat) (w : trace) (n : nat) (p : formula),
    (0 < Pn)%nat -> (1 <= n)%nat -> (forall x, (x < length w)%nat -> length (nth x w []) = n) ->
    frag p = true -> wf_bounds p = true -> (nvars p <= length w)%nat ->
    exists s, deval AR (scaleF Pn p) (map (stepsig (Z.of_nat Pn)) w) = Some s /\
      forall k, (k + hor p < n)%nat -> den s (Z.of_nat k * Z.of_nat Pn) = nth k (eval_off AR (fun _ _ => PStd) p w n) bot.
Proof. intros VS AR SN Pn w n p HP. exact (grid_visitors AR SN Pn HP w n p). Qed.
Print Assumptions C19_visitors.

Example C19_visitors_nonvacuous :
  let p : @formula ExtZVal := And (OnceT 1 2 (Pred CGeq (Var 0) (Const (Fin 1)))) (AlwT 0 1 (Pred CLeq (Var 0) (Const (Fin 3)))) in
  let w := [[Fin 3; Fin 0; Fin (-1); Fin 4; Fin 2]] in
  exists s, deval ExtZArith (scaleF 4 p) (map (stepsig 4) w) = Some s /\
    map (fun k => den s (Z.of_nat k * 4)) [0;1;2;3]%nat = firstn 4 (eval_off ExtZArith (fun _ _ => PStd) p w 5).
Proof. cbv zeta. eexists. split; [vm_compute; reflexivity|vm_compute; reflexivity]. Qed.

Example C19_nonvacuous :
  let p : @formula ExtZVal := And (OnceT 1 2 (Pred CGeq (Var 0) (Const (Fin 1)))) (AlwT 0 1 (Pred CLeq (Var 0) (Const (Fin 3)))) in
  let w := [[Fin 3; Fin 0; Fin (-1); Fin 4; Fin 2]] in
  frag p = true /\ hor p = 1%nat /\
  map (fun k => rhoZ ExtZArith (fun _ _ => PStd) (map (stepsig 4) w) 16 (scaleF 4 p) (Z.of_nat k * 4)) [0;1;2;3]%nat
  = map (rho ExtZArith (fun _ _ => PStd) p w 5) [0;1;2;3]%nat.
Proof. cbv zeta. repeat split; vm_compute; reflexivity. Qed.
