(* C10 — reset() returns an online monitor to its initial state: after any
   history the reset monitor's outputs on any continuation are those of a fresh
   monitor, and the jitter state restarts. *)
From Coq Require Import List Arith ZArith.
From RV Require Import Val Syntax Rho Offline Online OnlineCorrect Reset Jitter ExtZ.
Import ListNotations.

Theorem C10_reset :
  forall (VS : Val) (AR : Arith VS) (pk : formula -> formula -> pkind)
         (w w' : trace) (n n' : nat) (F : list formula) (h len : nat),
    F <> [] -> (forall p, In p F -> past_only p = true /\ wf_bounds p = true) ->
    let d := fst (mon_run AR pk F dict_init w 0 h) in
    snd (mon_run AR pk F (mon_reset F d) w' 0 len) = snd (mon_run AR pk F dict_init w' 0 len).
Proof. exact @reset_like_fresh. Qed.
Print Assumptions C10_reset.

(* reset() before the first update is harmless *)
Theorem C10_reset_first :
  forall (VS : Val) (AR : Arith VS) (pk : formula -> formula -> pkind)
         (w' : trace) (n' : nat) (F : list formula) (len : nat),
    F <> [] -> (forall p, In p F -> past_only p = true /\ wf_bounds p = true) ->
    snd (mon_run AR pk F (mon_reset F dict_init) w' 0 len) = snd (mon_run AR pk F dict_init w' 0 len).
Proof.
  intros VS AR pk w' n' F len Hne HF.
  exact (reset_like_fresh AR pk [] w' 0 n' F 0 len Hne HF).
Qed.
Print Assumptions C10_reset_first.

(* the sampling-violation counter, the update counter and the previous time restart *)
Theorem C10_counters : forall s, jreset s = jinit.
Proof. reflexivity. Qed.
Print Assumptions C10_counters.

Example C10_nonvacuous :
  let p : @formula ExtZVal := And (Since (Pred CGeq (Var 0) (Const (Fin 1))) (OnceT 1 2 (Pred CLeq (Var 0) (Const (Fin 0))))) (Prev (Var 0)) in
  let w := [[Fin 3; Fin 0; Fin (-1); Fin 4]] in
  let w' := [[Fin 2; Fin 2; Fin 0]] in
  let pk := fun _ _ => PStd in
  snd (mon_run ExtZArith pk [p] (mon_reset [p] (fst (mon_run ExtZArith pk [p] dict_init w 0 4))) w' 0 3)
  = snd (mon_run ExtZArith pk [p] dict_init w' 0 3)
  /\ snd (mon_run ExtZArith pk [p] (fst (mon_run ExtZArith pk [p] dict_init w 0 4)) w' 0 3)
  <> snd (mon_run ExtZArith pk [p] dict_init w' 0 3).
Proof. cbv zeta. split; vm_compute; [reflexivity|discriminate]. Qed.
