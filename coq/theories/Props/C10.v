(* C10 — reset() returns an online monitor to its initial state: after any
   history the reset monitor's outputs on any continuation are those of a fresh
   monitor, and the jitter state restarts. *)
From Coq Require Import List Arith ZArith.
From RV Require Import Val Syntax Rho Offline Online OnlineCorrect Reset Jitter ExtZ.
From RV Require Dense DenseSem DenseMerge DenseMergeCorrect DenseOnlineMergeCorrect DenseOnlineMon DenseOnlineMonCorrect DenseOnlineReset DenseOnlineResetCorrect.
Import ListNotations.

Theorem C10_reset :
  forall (VS : Val) (AR : Arith VS) (pk : formula -> formula -> pkind)
         (w w' : trace) (n n' : nat) (F : list formula) (h len : nat),
    F <> [] -> (forall p, In p F -> past_only p = true /\ wf_bounds p = true) ->
    let d := fst (mon_run AR pk F dict_init w 0 h) in
    snd (mon_run AR pk F (mon_reset F d) w' 0 len) = snd (mon_run AR pk F dict_init w' 0 len).
Proof. exact @reset_like_fresh. Qed.
Print Assumptions C10_reset.

(* reset() before the first update is harmless *)
Theorem C10_reset_first :
  forall (VS : Val) (AR : Arith VS) (pk : formula -> formula -> pkind)
         (w' : trace) (n' : nat) (F : list formula) (len : nat),
    F <> [] -> (forall p, In p F -> past_only p = true /\ wf_bounds p = true) ->
    snd (mon_run AR pk F (mon_reset F dict_init) w' 0 len) = snd (mon_run AR pk F dict_init w' 0 len).
Proof.
  intros VS AR pk w' n' F len Hne HF.
  exact (reset_like_fresh AR pk [] w' 0 n' F 0 len Hne HF).
Qed.
Print Assumptions C10_reset_first.

(* the sampling-violation counter, the update counter and the previous time restart *)
Theorem C10_counters : forall s, jreset s = jinit.
Proof. reflexivity. Qed.
Print Assumptions C10_counters.

Example C10_nonvacuous :
  let p : @formula ExtZVal := And (Since (Pred CGeq (Var 0) (Const (Fin 1))) (OnceT 1 2 (Pred CLeq (Var 0) (Const (Fin 0))))) (Prev (Var 0)) in
  let w := [[Fin 3; Fin 0; Fin (-1); Fin 4]] in
  let w' := [[Fin 2; Fin 2; Fin 0]] in
  let pk := fun _ _ => PStd in
  snd (mon_run ExtZArith pk [p] (mon_reset [p] (fst (mon_run ExtZArith pk [p] dict_init w 0 4))) w' 0 3)
  = snd (mon_run ExtZArith pk [p] dict_init w' 0 3)
  /\ snd (mon_run ExtZArith pk [p] (fst (mon_run ExtZArith pk [p] dict_init w 0 4)) w' 0 3)
  <> snd (mon_run ExtZArith pk [p] dict_init w' 0 3).
Proof. cbv zeta. split; vm_compute; [reflexivity|discriminate]. Qed.

(* ---------------------------------------------------------------------------------------------------------------- *)
(* Dense time.  reset() of the dense-time online monitor builds every operation again (set_ast); [mon_reset] is that
   code, [mon_init p] the initial state of the monitor model all dense online theorems (C05, C06) are about, [subs p]
   the nodes the update visitor reaches, [supported p]: no operator the dense online visitor rejects.
   After ANY history of updates on which the monitor did not raise, reset() returns, every operation of the formula is
   in its constructor state, and the lists returned on ANY continuation are those of a fresh monitor. *)
Theorem C10_dense_reset :
  forall (VS : Val) (AR : Arith VS) (pk : formula -> formula -> pkind) (p : formula)
         (hist : list (list Dense.dsig)) (st : DenseOnlineMon.dict) (outs : list DenseMerge.esig) (post : list (list Dense.dsig)),
    hist <> [] \/ DenseOnlineReset.supported p = true ->
    DenseOnlineMon.mon_run AR pk p (DenseOnlineMon.mon_init p) hist = Some (st, outs) ->
    exists d, DenseOnlineReset.mon_reset p st = Some d /\
      (forall a, In a (DenseOnlineMonCorrect.subs p) -> d a = DenseOnlineMon.mon_init p a) /\
      option_map snd (DenseOnlineMon.mon_run AR pk p d post) =
      option_map snd (DenseOnlineMon.mon_run AR pk p (DenseOnlineMon.mon_init p) post).
Proof. exact @DenseOnlineResetCorrect.dense_reset_main. Qed.
Print Assumptions C10_dense_reset.

(* reset() before the first update is harmless *)
Theorem C10_dense_reset_first :
  forall (VS : Val) (AR : Arith VS) (pk : formula -> formula -> pkind) (p : formula) (post : list (list Dense.dsig)),
    DenseOnlineReset.supported p = true ->
    exists d, DenseOnlineReset.mon_reset p (DenseOnlineMon.mon_init p) = Some d /\
      option_map snd (DenseOnlineMon.mon_run AR pk p d post) =
      option_map snd (DenseOnlineMon.mon_run AR pk p (DenseOnlineMon.mon_init p) post).
Proof. exact @DenseOnlineResetCorrect.dense_reset_first. Qed.
Print Assumptions C10_dense_reset_first.

(* what the reset monitor then computes (with C05, fragment [frag], standard predicates): the tick semantics rhoZ of the
   CONTINUATION's signals W alone, from 0 to the last stamp returned, whatever the batches in which W is fed *)
Theorem C10_dense_reset_correct :
  forall (VS : Val) (AR : Arith VS) (pk : formula -> formula -> pkind),
    (forall f g : formula, pk f g = PStd) -> (forall l r : V, neg (a2 AR Sub l r) = a2 AR Sub r l) ->
    forall (p : formula) (hist : list (list Dense.dsig)) (st : DenseOnlineMon.dict) (outs : list DenseMerge.esig)
           (W : list Dense.dsig) (tend : BinNums.Z) (post : list (list Dense.dsig)),
    hist <> [] \/ DenseOnlineReset.supported p = true ->
    DenseOnlineMon.mon_run AR pk p (DenseOnlineMon.mon_init p) hist = Some (st, outs) ->
    DenseOnlineMonCorrect.frag p = true ->
    (forall x, DenseOnlineMonCorrect.feedsI [] (map (fun env => nth x env []) post) (nth x W [])) ->
    (forall x, DenseMergeCorrect.dsorted (nth x W [])) ->
    (forall x, nth x W [] <> [] -> Dense.start (nth x W []) = BinNums.Z0) ->
    exists d outs',
      DenseOnlineReset.mon_reset p st = Some d /\
      option_map snd (DenseOnlineMon.mon_run_fin AR pk p d post) = Some outs' /\
      length outs' = length post /\
      (forall t, concat outs' <> [] -> BinInt.Z.le BinNums.Z0 t /\ BinInt.Z.le t (DenseOnlineMergeCorrect.lastT (concat outs')) ->
                 Dense.den_opt (concat outs') t = Some (DenseSem.rhoZ AR pk W tend p t)) /\
      (forall x, In x (DenseOnlineMonCorrect.fvars p) ->
                 BinInt.Z.le (DenseOnlineMergeCorrect.lastT (concat outs')) (DenseOnlineMergeCorrect.lastT (nth x W []))).
Proof. exact @DenseOnlineResetCorrect.dense_reset_correct. Qed.
Print Assumptions C10_dense_reset_correct.

(* any sequence of update() and reset() calls on one object ([run_api]: segments of updates, a reset() between two
   consecutive segments, set_ast at the first call) that raises nowhere and ends with reset() + a continuation: the lists
   returned on the continuation are those of a fresh object ([run_fresh]: set_ast, then the continuation alone) *)
Theorem C10_dense_reset_calls :
  forall (VS : Val) (AR : Arith VS) (pk : formula -> formula -> pkind) (p : formula)
         (segs : list (list (list Dense.dsig))) (post : list (list Dense.dsig)) (outs : list (list DenseMerge.esig)),
    segs <> [] -> DenseOnlineReset.run_api AR pk p (segs ++ [post]) = Some outs ->
    exists pre o, outs = pre ++ [o] /\ DenseOnlineReset.run_fresh AR pk p post = Some o.
Proof. exact @DenseOnlineResetCorrect.run_api_last. Qed.
Print Assumptions C10_dense_reset_calls.

(* an operator the dense online monitor rejects: reset() raises, like the first (and every) update of a fresh object *)
Theorem C10_dense_reset_unsupported :
  forall (VS : Val) (AR : Arith VS) (pk : formula -> formula -> pkind) (p : formula) (st : DenseOnlineMon.dict),
    DenseOnlineReset.supported p = false ->
    DenseOnlineReset.mon_reset p st = None /\ DenseOnlineReset.mon_fresh p = None /\
    forall d env, DenseOnlineMon.mon_update AR pk p d env = None.
Proof. exact @DenseOnlineResetCorrect.reset_unsupported. Qed.
Print Assumptions C10_dense_reset_unsupported.

(* the reset() methods of the dense operation classes (all `pass`) and the reset visitor would NOT do: a monitor reset that way
   goes on as if nothing had happened.  Not observable: the dense interpreter overrides reset() and never uses them. *)
Theorem C10_dense_inherited_reset_is_no_reset :
  forall (VS : Val) (AR : Arith VS) (pk : formula -> formula -> pkind) (p : formula) (d : DenseOnlineMon.dict)
         (post : list (list Dense.dsig)),
    option_map snd (DenseOnlineMon.mon_run AR pk p (DenseOnlineReset.mon_reset_inherited p d) post) =
    option_map snd (DenseOnlineMon.mon_run AR pk p d post).
Proof. exact @DenseOnlineResetCorrect.inherited_reset_is_no_reset. Qed.
Print Assumptions C10_dense_inherited_reset_is_no_reset.

(* ---- the reset visitor of the code, re-generated from the Python text on every build (OnlineVisitorGen.v): after any h updates and
   the generated reset(), the generated monitor returns on new data what a freshly built generated monitor returns (both the verdicts
   of the hand monitor OnlineNamed.nmon_run from ndict_init, to which C10_reset applies through C02_online_named_is_online) ---- *)
From Coq Require Import String.
From RV Require Import Units NodeName OnlineNamed OnlineNamedCorrect OnlineVisitorGen OnlineVisitorGenCorrect.
Theorem C10_generated_reset :
  forall (VS : Val) (AR : Arith VS) (vidx : string -> string -> nat) (cval : string -> V) (bnd : bound -> bound -> nat * nat)
         (tut : bound -> bound -> option (Z * Z)) (F : list node) (w w' : trace)
         (vobjs vobjs' : nat -> string -> string -> option V) (h len : nat),
    F <> [] ->
    (forall x, In x F -> nwf x = true /\ past_only (sem vidx cval bnd x) = true /\ wf_bounds (sem vidx cval bnd x) = true) ->
    (forall a, DN F a -> tut_ok bnd tut a) ->
    (forall k v f, vobjs k v f = Some (sig w (vidx v f) k)) ->
    (forall k v f, vobjs' k v f = Some (sig w' (vidx v f) k)) ->
    exists gd0 gd1 outs1 gd2 gd3 gd3',
      gen_set_ast tut F = Some gd0 /\
      gen_run AR cval vobjs F gd0 0 h = Some (gd1, outs1) /\
      gen_reset_forest F gd1 = Some gd2 /\
      gen_run AR cval vobjs' F gd2 0 len = Some (gd3, snd (nmon_run AR pk0 vidx cval bnd F (ndict_init vidx cval bnd F) w' 0 len)) /\
      gen_run AR cval vobjs' F gd0 0 len = Some (gd3', snd (nmon_run AR pk0 vidx cval bnd F (ndict_init vidx cval bnd F) w' 0 len)).
Proof. exact @gen_reset_like_fresh. Qed.
Print Assumptions C10_generated_reset.
