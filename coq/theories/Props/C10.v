From RV Require Import Val Syntax Rho Offline Online.
Theorem C10_placeholder : True. Proof. exact I. Qed.
Print Assumptions C10_placeholder.
