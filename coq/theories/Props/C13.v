(* C13 — the sampling-violation counter counts exactly the out-of-tolerance
   gaps, the period being expressed in the unit of the time-stamps. *)
From Coq Require Import QArith List.
From RV Require Import Jitter JitterFacts.
From RV Require Import Units PyUnits UnitsGen UnitsGenCorrect.
From RV Require Val Syntax Rho Offline ListFacts OfflineCorrect Online OnlineCorrect.
Import ListNotations.
Local Open Scope Q_scope.

(* online: one update per time-stamp; p = period in its own unit, norm = default unit / period unit,
   so p / norm is the period in time-stamp (default) units *)
Theorem C13_count_online :
  forall (p tol norm : Q) (ts : list Q), 0 < norm ->
    jviol (jrun p tol norm ts) = count_bad (p / norm) tol ts.
Proof. exact jitter_online. Qed.
Print Assumptions C13_count_online.

(* offline: the time column of the data set *)
Theorem C13_count_offline :
  forall (p tol norm : Q) (ts : list Q), 0 < norm ->
    joff p tol norm ts = count_bad (p / norm) tol ts.
Proof. exact jitter_offline. Qed.
Print Assumptions C13_count_offline.

(* "The robustness values are not affected by the jitter": the offline monitor pairs the time-stamps with values that do not
   depend on them (two time columns of the same length give the same values), and update() of the online monitor does not read
   the time-stamp at all (the model's mon_run takes no time argument: C02_online) *)
Theorem C13_values_independent_of_stamps :
  forall (VS : Val.Val) (AR : Val.Arith VS) (pk : Syntax.formula -> Syntax.formula -> Rho.pkind) (T T' : Type)
         (p : Syntax.formula) (ts : list T) (ts' : list T') (w : Rho.trace),
    (1 <= length ts)%nat -> length ts' = length ts -> Syntax.wf_bounds p = true -> OfflineCorrect.wf_trace p w (length ts) ->
    exists r r', Offline.evaluate AR pk p ts w = Offline.Ok r /\ Offline.evaluate AR pk p ts' w = Offline.Ok r' /\
                 map snd r = map snd r' /\ map fst r = ts /\ map fst r' = ts'.
Proof.
  intros VS AR pk T T' p ts ts' w Hn Hl Hb Hw.
  exists (combine ts (ListFacts.tab (Rho.rho AR pk p w (length ts)) (length ts))),
         (combine ts' (ListFacts.tab (Rho.rho AR pk p w (length ts')) (length ts'))).
  assert (Hn' : (1 <= length ts')%nat) by (rewrite Hl; exact Hn).
  assert (Hw' : OfflineCorrect.wf_trace p w (length ts')) by (rewrite Hl; exact Hw).
  split; [apply OfflineCorrect.evaluate_correct; assumption|].
  split; [apply OfflineCorrect.evaluate_correct; assumption|].
  assert (L : forall (A : Type) (l : list A) (k : list Val.V), length k = length l -> map snd (combine l k) = k /\ map fst (combine l k) = l).
  { intros A l. induction l as [|a l IH]; intros [|b k] Hk; cbn in *; try discriminate; [split; reflexivity|].
    destruct (IH k ltac:(congruence)) as [E1 E2]. rewrite E1, E2. split; reflexivity. }
  destruct (L T ts (ListFacts.tab (Rho.rho AR pk p w (length ts)) (length ts)) (ListFacts.tab_length _ _)) as [A1 A2].
  destruct (L T' ts' (ListFacts.tab (Rho.rho AR pk p w (length ts')) (length ts')) (ListFacts.tab_length _ _)) as [B1 B2].
  rewrite A1, B1, A2, B2, Hl. repeat split; reflexivity.
Qed.
Print Assumptions C13_values_independent_of_stamps.

(* the counter GENERATED from the Python text on every build (tools/py2coq_units.py -> UnitsGen.v: gap, update_sampling_violation_counter,
   the counter statements of update() / reset() / evaluate(), __init__, set_sampling_period) computes the hand model above: one update()
   is jstep, the updates of a fresh or reset monitor are jrun, evaluate() is joff, reset() is jreset, __init__ gives jinit;
   jperiod s = sampling_period * U[its unit] / ast.U[ast.unit] is the period in time-stamp units, normalize s is 1 after __init__ *)
Theorem C13_generated_counter :
  (forall s t, (0 <= update_counter s)%Z -> (0 <= sampling_violation_counter s)%Z ->
     exists s', gen_online_update_counter s t = Ret s' /\
                jabs s' = jstep (jperiod s) (sampling_tolerance s) (normalize s) (jabs s) t /\
                same_settings s s' /\ (0 <= update_counter s')%Z /\ (0 <= sampling_violation_counter s')%Z) /\
  (forall s ts, update_counter s = 0%Z -> previous_time s = 0 -> sampling_violation_counter s = 0%Z ->
     exists s', gen_online_run s ts = Ret s' /\ jabs s' = jrun (jperiod s) (sampling_tolerance s) (normalize s) ts) /\
  (forall s ts, exists s', gen_offline_evaluate_counter s ts = Ret s' /\
     sampling_violation_counter s' = Z.of_nat (joff (jperiod s) (sampling_tolerance s) (normalize s) ts) /\
     same_settings s s' /\ update_counter s' = update_counter s /\ previous_time s' = previous_time s) /\
  (forall s, exists s', gen_online_reset_counter s = Ret s' /\ jabs s' = jreset (jabs s) /\ same_settings s s') /\
  (forall a, exists s, gen_init (dti_blank a) = Ret s /\ jabs s = jinit /\ normalize s = 1 /\
     sampling_period s = 1 /\ sampling_period_unit s = US /\ sampling_tolerance s = 1 # 10 /\ dti_ast s = a) /\
  (forall s p u tol, gen_set_sampling_period s p u tol =
     if qltb tol 0 || qltb 1 tol then Raise PyException
     else Ret (set_sampling_tolerance_ (set_sampling_period_unit_ (set_sampling_period_ s p) u) tol)).
Proof. exact @counter_gen_refines. Qed.
Print Assumptions C13_generated_counter.

(* what "counts exactly" implies for a user who reads the counter while the monitor runs: each update adds the verdict of the
   one new gap and nothing else (so the counter never decreases and never jumps by more than one), it never exceeds the number of
   gaps, it is 0 exactly when every gap is within tolerance, and it does not depend on where the time axis starts *)
Theorem C13_counter_is_incremental :
  forall (p tol norm : Q) (ts : list Q) (a t : Q), 0 < norm ->
    jviol (jrun p tol norm ((ts ++ [a]) ++ [t])) =
    (jviol (jrun p tol norm (ts ++ [a])) + (if out_of_tol (p / norm) tol (t - a) then 1 else 0))%nat.
Proof. exact jrun_step_increment. Qed.
Print Assumptions C13_counter_is_incremental.

Theorem C13_counter_monotone_bounded :
  forall (p tol norm : Q) (ts us : list Q), 0 < norm ->
    and (le (jviol (jrun p tol norm ts)) (jviol (jrun p tol norm (ts ++ us))))
        (le (jviol (jrun p tol norm ts)) (length ts - 1)%nat).
Proof. intros p tol norm ts us Hn. split; [apply jrun_mono|apply jrun_bounded]; exact Hn. Qed.
Print Assumptions C13_counter_monotone_bounded.

Theorem C13_zero_iff_all_within_tolerance :
  forall (P tol : Q) (ts : list Q),
    count_bad P tol ts = 0%nat <-> forall g, In g (gaps ts) -> out_of_tol P tol g = false.
Proof. exact count_bad_zero_iff. Qed.
Print Assumptions C13_zero_iff_all_within_tolerance.

Theorem C13_translation_invariant :
  forall (P tol c : Q) (ts : list Q), count_bad P tol (shift c ts) = count_bad P tol ts.
Proof. exact count_bad_shift. Qed.
Print Assumptions C13_translation_invariant.

(* the two monitor kinds agree: feeding the time-stamps one by one to the online monitor gives the counter that the offline monitor
   reports for the same time column *)
Theorem C13_online_offline_agree :
  forall (p tol norm : Q) (ts : list Q), 0 < norm -> jviol (jrun p tol norm ts) = joff p tol norm ts.
Proof. intros p tol norm ts Hn. rewrite jitter_online, jitter_offline by exact Hn. reflexivity. Qed.
Print Assumptions C13_online_offline_agree.

Example C13_nonvacuous :
  (* period 500 ms, default unit s: norm = 10^9/10^6; stamps 0, 0.5, 1.25, 1.75: one bad gap *)
  jviol (jrun 500 (1#10) 1000 [0; 1#2; 5#4; 7#4]) = 1%nat /\ count_bad (500 / 1000) (1#10) [0; 1#2; 5#4; 7#4] = 1%nat.
Proof. split; vm_compute; reflexivity. Qed.
