(* C13 — the sampling-violation counter counts exactly the out-of-tolerance
   gaps, the period being expressed in the unit of the time-stamps. *)
From Coq Require Import QArith List.
From RV Require Import Jitter.
Import ListNotations.
Local Open Scope Q_scope.

(* online: one update per time-stamp; p = period in its own unit, norm = default unit / period unit,
   so p / norm is the period in time-stamp (default) units *)
Theorem C13_count_online :
  forall (p tol norm : Q) (ts : list Q), 0 < norm ->
    jviol (jrun p tol norm ts) = count_bad (p / norm) tol ts.
Proof. exact jitter_online. Qed.
Print Assumptions C13_count_online.

(* offline: the time column of the data set *)
Theorem C13_count_offline :
  forall (p tol norm : Q) (ts : list Q), 0 < norm ->
    joff p tol norm ts = count_bad (p / norm) tol ts.
Proof. exact jitter_offline. Qed.
Print Assumptions C13_count_offline.

Example C13_nonvacuous :
  (* period 500 ms, default unit s: norm = 10^9/10^6; stamps 0, 0.5, 1.25, 1.75: one bad gap *)
  jviol (jrun 500 (1#10) 1000 [0; 1#2; 5#4; 7#4]) = 1%nat /\ count_bad (500 / 1000) (1#10) [0; 1#2; 5#4; 7#4] = 1%nat.
Proof. split; vm_compute; reflexivity. Qed.
