(* C07 — the sign of the reported robustness is sound w.r.t. Boolean
   satisfaction (first half of the property; the perturbation half is stated
   in DESIGN.md as not yet proved).  Property theorems only. *)
From Coq Require Import List Arith ZArith Lia.
From RV Require Import Val Syntax Rho Offline ListFacts OfflineCorrect Online OnlineCorrect Sat Transfer ExtZ ExtZFacts.
Import ListNotations.

Theorem C07_sound :
  forall (VS : Val) (AR : Arith VS), SignLaws AR ->
  forall (p : formula) (w : trace) (n : nat), is_bool p = true ->
  forall t, (ltb (azero AR) (rho AR (fun _ _ => PStd) p w n t) = true -> sat AR p w n t = true) /\
            (ltb (rho AR (fun _ _ => PStd) p w n t) (azero AR) = true -> sat AR p w n t = false).
Proof. exact @sat_sound. Qed.
Print Assumptions C07_sound.

(* the sign stays sound under every predicate semantics (standard, +-inf by satisfaction, 0): the interface-aware monitors *)
Theorem C07_ia :
  forall (VS : Val) (AR : Arith VS), SignLaws AR ->
  forall (pk : formula -> formula -> pkind) (p : formula) (w : trace) (n : nat), is_bool p = true ->
  forall t, (ltb (azero AR) (rho AR pk p w n t) = true -> sat AR p w n t = true) /\
            (ltb (rho AR pk p w n t) (azero AR) = true -> sat AR p w n t = false).
Proof. exact @sat_sound_pk. Qed.
Print Assumptions C07_ia.

(* the same for the value offline evaluate() reports at sample t *)
Theorem C07_offline :
  forall (VS : Val) (AR : Arith VS), SignLaws AR ->
  forall (p : formula) (w : trace) (n : nat) (d : V), is_bool p = true -> off_ok p w n ->
  forall t, t < n ->
    let v := nth t (eval_off AR (fun _ _ => PStd) p w n) d in
    (ltb (azero AR) v = true -> sat AR p w n t = true) /\ (ltb v (azero AR) = true -> sat AR p w n t = false).
Proof.
  intros VS AR SL p w n d Hb Hok t Ht. cbv zeta.
  rewrite (off_value AR (fun _ _ => PStd)) by assumption. apply sat_sound; assumption.
Qed.
Print Assumptions C07_offline.

(* and for the value the t-th online update() reports *)
Theorem C07_online :
  forall (VS : Val) (AR : Arith VS), SignLaws AR ->
  forall (p : formula) (w : trace) (n len : nat) (d : V), is_bool p = true -> on_ok p ->
  forall t, t < len ->
    let v := nth t (snd (mon_run AR (fun _ _ => PStd) [p] dict_init w 0 len)) d in
    (ltb (azero AR) v = true -> sat AR p w n t = true) /\ (ltb v (azero AR) = true -> sat AR p w n t = false).
Proof.
  intros VS AR SL p w n len d Hb Hok t Ht. cbv zeta.
  rewrite (on_value AR (fun _ _ => PStd) p w n len) by assumption. apply sat_sound; assumption.
Qed.
Print Assumptions C07_online.

Example C07_nonvacuous :
  SignLaws ExtZArith /\
  let p : @formula ExtZVal := Until (Pred CGeq (Var 0) (Const (Fin 1))) (AlwT 0 1 (Not (Pred CLt (Var 0) (Const (Fin 0))))) in
  let w := [[Fin 3; Fin 0; Fin (-1); Fin 4; Fin 2]] in
  is_bool p = true /\ map (rho ExtZArith (fun _ _ => PStd) p w 5) [0;1;2;3;4] = [Fin 0; Fin (-1); Fin (-1); Fin 2; Fin 2]
  /\ map (sat ExtZArith p w 5) [0;1;2;3;4] = [true; false; false; true; true].
Proof. split; [exact ExtZ_sign_laws|]. cbv zeta. repeat split; vm_compute; reflexivity. Qed.

(* dense time: the sign of the tick semantics rhoZ against the Boolean dense-time semantics satZ *)
From Coq Require Import ZArith.
From RV Require Import Dense DenseSem DenseSat.
Theorem C07_dense :
  forall (VS : Val) (AR : Arith VS), SignLaws AR ->
  forall (W : list dsig) (tend : Z) (p : formula), dbool p = true ->
  forall t : Z,
    (ltb (azero AR) (rhoZ AR (fun _ _ => PStd) W tend p t) = true -> satZ AR W tend p t = true) /\
    (ltb (rhoZ AR (fun _ _ => PStd) W tend p t) (azero AR) = true -> satZ AR W tend p t = false).
Proof. exact @satZ_sound. Qed.
Print Assumptions C07_dense.

(* second half of the property: the robustness is 1-Lipschitz in the trace for predicates that compare one
   variable with a constant, so a perturbation smaller than |rho| keeps the verdict.  up / dn are "+ eps" /
   "- eps" for one fixed eps >= 0 (ShiftLaws), instantiated for the executable instance below. *)
From RV Require Import Lipschitz LipschitzExtZ.
Theorem C07_lipschitz :
  forall (VS : Val) (AR : Arith VS) (up dn : V -> V) (okc : V -> Prop), ShiftLaws AR up dn okc ->
  forall (w w' : trace) (n : nat),
    (forall x i, Val.leb (dn (sig w x i)) (sig w' x i) = true /\ Val.leb (sig w' x i) (up (sig w x i)) = true) ->
  forall p, simple okc p -> forall t,
    Val.leb (dn (rho AR (fun _ _ => PStd) p w n t)) (rho AR (fun _ _ => PStd) p w' n t) = true /\
    Val.leb (rho AR (fun _ _ => PStd) p w' n t) (up (rho AR (fun _ _ => PStd) p w n t)) = true.
Proof. exact @rho_lipschitz. Qed.
Print Assumptions C07_lipschitz.

Theorem C07_robust :
  forall (VS : Val) (AR : Arith VS), SignLaws AR ->
  forall (up dn : V -> V) (okc : V -> Prop), ShiftLaws AR up dn okc ->
  forall (w w' : trace) (n : nat),
    (forall x i, Val.leb (dn (sig w x i)) (sig w' x i) = true /\ Val.leb (sig w' x i) (up (sig w x i)) = true) ->
  forall p, simple okc p -> is_bool p = true -> forall t,
    (ltb (azero AR) (dn (rho AR (fun _ _ => PStd) p w n t)) = true -> sat AR p w' n t = true) /\
    (ltb (up (rho AR (fun _ _ => PStd) p w n t)) (azero AR) = true -> sat AR p w' n t = false).
Proof. exact @robust_verdict. Qed.
Print Assumptions C07_robust.

Example C07_robust_nonvacuous :
  ShiftLaws ExtZArith (ez_up 2) (ez_dn 2) ez_fin /\
  let p : @formula ExtZVal := Since (Pred CGeq (Var 0) (Const (Fin 1))) (AlwT 0 1 (Not (Pred CLt (Var 0) (Const (Fin 0))))) in
  let w := [[Fin 8; Fin 5; Fin 9; Fin 7]] in
  let w' := [[Fin 6; Fin 7; Fin 8; Fin 9]] in
  simple ez_fin p /\ is_bool p = true /\
  rho ExtZArith (fun _ _ => PStd) p w 4 2 = Fin 7 /\ sat ExtZArith p w' 4 2 = true.
Proof.
  split; [apply ExtZ_shift_laws; lia|]. cbv zeta. split; [cbn; repeat split; eexists; reflexivity|].
  repeat split; vm_compute; reflexivity.
Qed.
