(* C11 — purity of evaluation on the alias model of the offline visitor: the
   caller's lists are never written, evaluating twice gives the same result.
   Hash-seed independence and isolation between specification objects are
   properties of the Python runtime that this functional model cannot exhibit;
   they are covered by differential testing only (partial). *)
From Coq Require Import List Arith ZArith.
From RV Require Import Val Syntax Rho Offline Alias AliasFacts ExtZ.
Import ListNotations.

(* evaluate() never modifies an object that existed before the call (the data set's columns included) *)
Theorem C11_frame :
  forall (VS : Val) (AR : Arith VS) (pk : formula -> formula -> pkind) (m n : nat) (p : formula) (s : store) (id : nat),
    id < length s -> read (snd (eval_st AR pk m n p s)) id = read s id.
Proof. exact @eval_st_caller_untouched. Qed.
Print Assumptions C11_frame.

(* what it returns is the list of the functional model, computed from the caller's data *)
Theorem C11_result :
  forall (VS : Val) (AR : Arith VS) (pk : formula -> formula -> pkind) (m n : nat) (p : formula) (s : store),
    m <= length s -> nvars p <= m ->
    read (snd (eval_st AR pk m n p s)) (fst (eval_st AR pk m n p s)) = eval_off AR pk p (caller m s) n.
Proof. exact @eval_st_result. Qed.
Print Assumptions C11_result.

(* evaluating the same object again on the same data returns the same result *)
Theorem C11_repeat :
  forall (VS : Val) (AR : Arith VS) (pk : formula -> formula -> pkind) (m n : nat) (p : formula) (s : store),
    m <= length s -> nvars p <= m ->
    let s1 := snd (eval_st AR pk m n p s) in
    read (snd (eval_st AR pk m n p s1)) (fst (eval_st AR pk m n p s1)) = read s1 (fst (eval_st AR pk m n p s)).
Proof. exact @eval_st_repeat. Qed.
Print Assumptions C11_repeat.

(* isolation between specifications that share the caller's data (the list-object half of it; what separate Python objects could
   share beyond lists — class attributes, module state — is outside this model and covered by the differential check): whatever
   specifications were evaluated before, in any order, q returns what it returns on a fresh store, and the caller's columns are intact *)
Theorem C11_isolated :
  forall (VS : Val) (AR : Arith VS) (pk : formula -> formula -> pkind) (m n : nat) (ps : list formula) (q : formula) (s : store),
    m <= length s -> nvars q <= m ->
    let s1 := eval_all AR pk m n ps s in
    read (snd (eval_st AR pk m n q s1)) (fst (eval_st AR pk m n q s1)) = eval_off AR pk q (caller m s) n /\
    read (snd (eval_st AR pk m n q s1)) (fst (eval_st AR pk m n q s1)) = read (snd (eval_st AR pk m n q s)) (fst (eval_st AR pk m n q s)).
Proof. exact @eval_st_isolated. Qed.
Print Assumptions C11_isolated.

Theorem C11_frame_all :
  forall (VS : Val) (AR : Arith VS) (pk : formula -> formula -> pkind) (m n : nat) (ps : list formula) (s : store),
    m <= length s -> caller m (eval_all AR pk m n ps s) = caller m s.
Proof. exact @eval_all_caller_untouched. Qed.
Print Assumptions C11_frame_all.

Example C11_nonvacuous :
  let p : @formula ExtZVal := And (AlwT 0 3 (Var 0)) (Pred CGeq (A2 Add (Var 0) (Var 1)) (Const (Fin 0))) in
  let s := [[Fin 1; Fin (-2)]; [Fin 5; Fin 5]] in
  caller 2 (snd (eval_st ExtZArith (fun _ _ => PStd) 2 2 p s)) = s /\
  read (snd (eval_st ExtZArith (fun _ _ => PStd) 2 2 p s)) (fst (eval_st ExtZArith (fun _ _ => PStd) 2 2 p s)) = [Fin (-2); Fin (-2)].
Proof. cbv zeta. split; vm_compute; reflexivity. Qed.
