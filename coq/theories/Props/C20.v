(* C20 — explanations of a violation are a sufficient cause.

   Model: Explain.explain (the explainer of rtamt/explanation, with the table
   restricted to the input variables), compared table-for-table with
   spec.explainer.explanations on every run; `results` of the model are
   rho = what offline evaluate() returns (C01).

   C20_sufficient: for every list of assertions of the explainable fragment
     (Boolean / temporal structure over predicates: not, and, or, implies,
     (bounded) eventually / always / once / historically, prev, next, rise, fall;
     iff/xor only over polarity-insensitive operands), every trace w, and every trace
     w' that coincides with w on all reported (variable, sample) positions,
     every assertion violated at time 0 on w is violated at time 0 on w'.
   C20_silent: if every assertion is satisfied at time 0 nothing is reported.
   C20_total: on that fragment explain() does not raise.
   C20_refuted_iff, C20_refuted_temporal_under_predicate: outside the fragment
     the statement is false of the faithful model (the two open known findings),
     with the witnesses replayed on the implementation by the check.
   The specification is the assertion evaluate() reports (the last one): the
   check hands that assertion, with the named sub-specifications it refers to
   inlined, to the model (repair D46).
   C20_generated_explainer: the explainer AS TRANSLATED FROM THE PYTHON SOURCE (tools/py2coq_explainer.py -> ExplainGen.v,
     regenerated on every build) computes Explain.explain through the erasure of the syntax nodes, the stored robustness
     lists (= rho, C01) and the relation between the dict of names and the table of columns. *)
From Coq Require Import List Arith ZArith Lia.
From Coq Require Import String.
From RV Require Import Val Syntax Rho Sat Offline Units NodeName Explain ExplainFacts ExplainCorrect ExtZ ExtZFacts PyExplain ExplainGen ExplainGenCorrect.
Import ListNotations.

Theorem C20_sufficient :
  forall (VS : Val) (AR : Arith VS), SignLaws AR ->
  forall (pk : formula -> formula -> pkind) (w w' : trace) (n : nat) (ps : list formula) (tb : table),
    0 < n -> (forall p, In p ps -> explainable p = true) ->
    explain AR pk w n ps = Some tb ->
    (forall x j, inI j (tb_get x tb) = true -> sig w' x j = sig w x j) ->
    forall p, In p ps ->
      ltb (rho AR pk p w n 0) (azero AR) = true -> ltb (rho AR pk p w' n 0) (azero AR) = true.
Proof. exact @explain_sufficient. Qed.
Print Assumptions C20_sufficient.

Theorem C20_silent :
  forall (VS : Val) (AR : Arith VS) (pk : formula -> formula -> pkind) (w : trace) (n : nat) (ps : list formula),
    (forall p, In p ps -> leb (azero AR) (rho AR pk p w n 0) = true) ->
    explain AR pk w n ps = Some [].
Proof. exact @explain_silent. Qed.
Print Assumptions C20_silent.

Theorem C20_total :
  forall (VS : Val) (AR : Arith VS) (pk : formula -> formula -> pkind) (w : trace) (n : nat) (ps : list formula),
    (forall p, In p ps -> explainable p = true) -> explain AR pk w n ps <> None.
Proof. exact @explain_total. Qed.
Print Assumptions C20_total.

Definition std : @formula ExtZVal -> @formula ExtZVal -> pkind := fun _ _ => PStd.

(* rise / fall: the previous sample is explored with the opposite polarity (repair D42; before it, next(rise(x)) on
   [1; 0] reported only sample 1 and the violation disappeared on [-1; 0]) *)
Example C20_rise_fall :
  let p : @formula ExtZVal := Next (Rise (Var 0)) in
  let q : @formula ExtZVal := Alw (Not (Fall (Pred CGeq (Var 0) (Const (Fin 1))))) in
  explainable p = true /\ explainable q = true /\
  explain ExtZArith std [[Fin 1; Fin 0]] 2 [p] = Some [(0, [(0, 1)])] /\
  ltb (rho ExtZArith std q [[Fin 3; Fin 0; Fin 2]] 3 0) (Fin 0) = true /\
  explain ExtZArith std [[Fin 3; Fin 0; Fin 2]] 3 [q] = Some [(0, [(0, 1)])].
Proof. cbv zeta. repeat split; vm_compute; reflexivity. Qed.

(* the operands of iff are explored with the polarity of the iff: ((x and x) iff y) *)
Theorem C20_refuted_iff :
  exists (p : @formula ExtZVal) (w w' : trace) (tb : table),
    explain ExtZArith std w 1 [p] = Some tb /\
    (forall x j, inI j (tb_get x tb) = true -> sig w' x j = sig w x j) /\
    ltb (rho ExtZArith std p w 1 0) (Fin 0) = true /\ ltb (rho ExtZArith std p w' 1 0) (Fin 0) = false.
Proof.
  exists (Iff (And (Var 0) (Var 0)) (Var 1)), [[Fin 1]; [Fin 0]], [[Fin 0]; [Fin 0]], [(0, []); (1, [(0, 0)])].
  split; [vm_compute; reflexivity|]. split; [|split; vm_compute; reflexivity].
  intros x j H. destruct x as [|[|x]]; try discriminate.
  destruct j as [|j]; try discriminate; reflexivity.
Qed.
Print Assumptions C20_refuted_iff.

(* a temporal operator below a comparison: its samples are filtered by sign, which means nothing for a numeric operand
   ((always[0,0] x) >= 1 on x = 0 reports nothing, and x = 5 satisfies it) *)
Theorem C20_refuted_temporal_under_predicate :
  exists (p : @formula ExtZVal) (w w' : trace) (tb : table),
    explain ExtZArith std w 1 [p] = Some tb /\
    (forall x j, inI j (tb_get x tb) = true -> sig w' x j = sig w x j) /\
    ltb (rho ExtZArith std p w 1 0) (Fin 0) = true /\ ltb (rho ExtZArith std p w' 1 0) (Fin 0) = false.
Proof.
  exists (Pred CGeq (AlwT 0 0 (Var 0)) (@Const ExtZVal (Fin 1))), [[Fin 0]], [[Fin 5]], [(0, [])].
  split; [vm_compute; reflexivity|]. split; [|split; vm_compute; reflexivity].
  intros x j H. destruct x as [|x]; discriminate.
Qed.
Print Assumptions C20_refuted_temporal_under_predicate.

Example C20_nonvacuous :
  SignLaws ExtZArith /\
  let P : @formula ExtZVal := Pred CGeq (Var 0) (Const (Fin 0)) in
  let Q : @formula ExtZVal := Pred CGeq (Var 1) (Const (Fin 0)) in
  let p := Alw (Implies (And P Q) (EvT 0 1 (Not P))) in
  let w := [[Fin 1; Fin 2; Fin 3; Fin (-1)]; [Fin (-1); Fin 1; Fin (-2); Fin 0]] in
  explainable p = true /\ rho ExtZArith std p w 4 0 = Fin (-1) /\
  explain ExtZArith std w 4 [p] = Some [(0, [(1, 2)]); (1, [(1, 1)])].
Proof. split; [exact ExtZ_sign_laws|]. cbv zeta. repeat split; vm_compute; reflexivity. Qed.

(* the explainer AS TRANSLATED FROM THE PYTHON SOURCE: on a syntax tree nd of rtamt with well-formed leaves whose bounds -- in whatever
   units they are written -- are whole numbers of sampling periods with begin <= end (erase nd = Some f, wf_bounds f), when self.spec.results
   holds for every node the robustness of its formula at 0 .. n-1 (what evaluate() stores: C01) and different variables are different
   columns: explain() of the code raises iff Explain.explain does, and then the intervals its dict holds under the name of every variable
   are the intervals of that variable's column in the model's table (for which C20_sufficient is proved) *)
Theorem C20_generated_explainer :
  forall (VS : Val) (AR : Arith VS) (pk : formula -> formula -> pkind) (w : trace) (n : nat),
    0 < n ->
  forall (vidx : string -> string -> nat) (cval : string -> V) (du : tunit) (per : Z) (pu : tunit) (results : NodeName.node -> list V),
    (forall c f, erase vidx cval du per pu c = Some f -> results c = map (fun i => rho AR pk f w n i) (seq 0 n)) ->
    (forall v f v' f', var_ok v = true -> field_ok f = true -> var_ok v' = true -> field_ok f' = true ->
       vidx v f = vidx v' f' -> v = v' /\ f = f') ->
  forall (pre : list NodeName.node) (nd : NodeName.node) (f : formula),
    nwf nd = true -> erase vidx cval du per pu nd = Some f -> wf_bounds f = true ->
    match gen_stl_explain AR results du per pu (pre ++ [nd]), explain AR pk w n [f] with
    | Some d, Some tb => forall v fl, var_ok v = true -> field_ok fl = true ->
                           py_dget (KName (var_name v fl)) [] d = tb_get (vidx v fl) tb
    | None, None => True
    | _, _ => False
    end.
Proof. exact @gen_stl_explain_refines. Qed.
Print Assumptions C20_generated_explainer.

(* the generated explainer runs: always((x >= 0) -> eventually[0,1s](y >= 1)) with period 500 ms on 4 samples; the violation at
   sample 1 (x >= 0, y < 1 at 1..3) is explained by x at [1,1] and y at [1,3] *)
Example C20_generated_nonvacuous :
  let b0 := {| bnum := 0; bden := 1; bunit := None |} in
  let b1 := {| bnum := 1; bden := 1; bunit := Some US |} in
  let px := NBin (b_pred CGeq) (NVar "x" "") (NConst "0.0") in
  let py := NBin (b_pred CGeq) (NVar "y" "") (NConst "1.0") in
  let nd := NUn u_alw (NBin b_implies px (NTUn t_ev b0 b1 py)) in
  let sx : list (@V ExtZVal) := [Fin 1; Fin 1; Fin (-1); Fin (-1)] in
  let sy : list (@V ExtZVal) := [Fin 1; Fin (-1); Fin (-1); Fin (-1)] in
  let res := fun c : NodeName.node =>
    if String.eqb (nname c) (nname px) then sx else if String.eqb (nname c) (nname py) then sy
    else if String.eqb (nname c) (nname (NTUn t_ev b0 b1 py)) then [Fin 1; Fin (-1); Fin (-1); Fin (-1)]
    else if String.eqb (nname c) (nname (NBin b_implies px (NTUn t_ev b0 b1 py))) then [Fin 1; Fin (-1); Fin 1; Fin 1]
    else if String.eqb (nname c) (nname nd) then [Fin (-1); Fin (-1); Fin 1; Fin 1] else [] in
  option_map (fun d => (py_dget (KName "x") [] d, py_dget (KName "y") [] d)) (gen_stl_explain ExtZArith res US 500 UMS [nd])
  = Some ([(1, 1)], [(1, 3)]).
Proof. cbv zeta. vm_compute. reflexivity. Qed.
