(* C20 — explanations of a violation are a sufficient cause.

   Model: Explain.explain (the explainer of rtamt/explanation, with the table
   restricted to the input variables), compared table-for-table with
   spec.explainer.explanations on every run; `results` of the model are
   rho = what offline evaluate() returns (C01).

   C20_sufficient: for every list of assertions of the explainable fragment
     (Boolean / temporal structure over predicates: not, and, or, implies,
     (bounded) eventually / always / once / historically, prev, next, rise, fall;
     iff/xor only over polarity-insensitive operands), every trace w, and every trace
     w' that coincides with w on all reported (variable, sample) positions,
     every assertion violated at time 0 on w is violated at time 0 on w'.
   C20_silent: if every assertion is satisfied at time 0 nothing is reported.
   C20_total: on that fragment explain() does not raise.
   C20_refuted_iff, C20_refuted_temporal_under_predicate: outside the fragment
     the statement is false of the faithful model (the two open known findings),
     with the witnesses replayed on the implementation by the check.
   The specification is the assertion evaluate() reports (the last one): the
   check hands that assertion, with the named sub-specifications it refers to
   inlined, to the model (repair D46). *)
From Coq Require Import List Arith ZArith Lia.
From RV Require Import Val Syntax Rho Sat Explain ExplainFacts ExplainCorrect ExtZ ExtZFacts.
Import ListNotations.

Theorem C20_sufficient :
  forall (VS : Val) (AR : Arith VS), SignLaws AR ->
  forall (pk : formula -> formula -> pkind) (w w' : trace) (n : nat) (ps : list formula) (tb : table),
    0 < n -> (forall p, In p ps -> explainable p = true) ->
    explain AR pk w n ps = Some tb ->
    (forall x j, inI j (tb_get x tb) = true -> sig w' x j = sig w x j) ->
    forall p, In p ps ->
      ltb (rho AR pk p w n 0) (azero AR) = true -> ltb (rho AR pk p w' n 0) (azero AR) = true.
Proof. exact @explain_sufficient. Qed.
Print Assumptions C20_sufficient.

Theorem C20_silent :
  forall (VS : Val) (AR : Arith VS) (pk : formula -> formula -> pkind) (w : trace) (n : nat) (ps : list formula),
    (forall p, In p ps -> leb (azero AR) (rho AR pk p w n 0) = true) ->
    explain AR pk w n ps = Some [].
Proof. exact @explain_silent. Qed.
Print Assumptions C20_silent.

Theorem C20_total :
  forall (VS : Val) (AR : Arith VS) (pk : formula -> formula -> pkind) (w : trace) (n : nat) (ps : list formula),
    (forall p, In p ps -> explainable p = true) -> explain AR pk w n ps <> None.
Proof. exact @explain_total. Qed.
Print Assumptions C20_total.

Definition std : @formula ExtZVal -> @formula ExtZVal -> pkind := fun _ _ => PStd.

(* rise / fall: the previous sample is explored with the opposite polarity (repair D42; before it, next(rise(x)) on
   [1; 0] reported only sample 1 and the violation disappeared on [-1; 0]) *)
Example C20_rise_fall :
  let p : @formula ExtZVal := Next (Rise (Var 0)) in
  let q : @formula ExtZVal := Alw (Not (Fall (Pred CGeq (Var 0) (Const (Fin 1))))) in
  explainable p = true /\ explainable q = true /\
  explain ExtZArith std [[Fin 1; Fin 0]] 2 [p] = Some [(0, [(0, 1)])] /\
  ltb (rho ExtZArith std q [[Fin 3; Fin 0; Fin 2]] 3 0) (Fin 0) = true /\
  explain ExtZArith std [[Fin 3; Fin 0; Fin 2]] 3 [q] = Some [(0, [(0, 1)])].
Proof. cbv zeta. repeat split; vm_compute; reflexivity. Qed.

(* the operands of iff are explored with the polarity of the iff: ((x and x) iff y) *)
Theorem C20_refuted_iff :
  exists (p : @formula ExtZVal) (w w' : trace) (tb : table),
    explain ExtZArith std w 1 [p] = Some tb /\
    (forall x j, inI j (tb_get x tb) = true -> sig w' x j = sig w x j) /\
    ltb (rho ExtZArith std p w 1 0) (Fin 0) = true /\ ltb (rho ExtZArith std p w' 1 0) (Fin 0) = false.
Proof.
  exists (Iff (And (Var 0) (Var 0)) (Var 1)), [[Fin 1]; [Fin 0]], [[Fin 0]; [Fin 0]], [(0, []); (1, [(0, 0)])].
  split; [vm_compute; reflexivity|]. split; [|split; vm_compute; reflexivity].
  intros x j H. destruct x as [|[|x]]; try discriminate.
  destruct j as [|j]; try discriminate; reflexivity.
Qed.
Print Assumptions C20_refuted_iff.

(* a temporal operator below a comparison: its samples are filtered by sign, which means nothing for a numeric operand
   ((always[0,0] x) >= 1 on x = 0 reports nothing, and x = 5 satisfies it) *)
Theorem C20_refuted_temporal_under_predicate :
  exists (p : @formula ExtZVal) (w w' : trace) (tb : table),
    explain ExtZArith std w 1 [p] = Some tb /\
    (forall x j, inI j (tb_get x tb) = true -> sig w' x j = sig w x j) /\
    ltb (rho ExtZArith std p w 1 0) (Fin 0) = true /\ ltb (rho ExtZArith std p w' 1 0) (Fin 0) = false.
Proof.
  exists (Pred CGeq (AlwT 0 0 (Var 0)) (@Const ExtZVal (Fin 1))), [[Fin 0]], [[Fin 5]], [(0, [])].
  split; [vm_compute; reflexivity|]. split; [|split; vm_compute; reflexivity].
  intros x j H. destruct x as [|x]; discriminate.
Qed.
Print Assumptions C20_refuted_temporal_under_predicate.

Example C20_nonvacuous :
  SignLaws ExtZArith /\
  let P : @formula ExtZVal := Pred CGeq (Var 0) (Const (Fin 0)) in
  let Q : @formula ExtZVal := Pred CGeq (Var 1) (Const (Fin 0)) in
  let p := Alw (Implies (And P Q) (EvT 0 1 (Not P))) in
  let w := [[Fin 1; Fin 2; Fin 3; Fin (-1)]; [Fin (-1); Fin 1; Fin (-2); Fin 0]] in
  explainable p = true /\ rho ExtZArith std p w 4 0 = Fin (-1) /\
  explain ExtZArith std w 4 [p] = Some [(0, [(1, 2)]); (1, [(1, 1)])].
Proof. split; [exact ExtZ_sign_laws|]. cbv zeta. repeat split; vm_compute; reflexivity. Qed.
