(* C16 — settled offline results are stable under trace extension (discrete
   time): rho-level theorem and its transfer to the offline monitor model. *)
From Coq Require Import List Arith ZArith Lia.
From RV Require Import Val Syntax Rho Offline ListFacts OfflineCorrect Extend Transfer ExtZ.
Import ListNotations.

Theorem C16_extend :
  forall (VS : Val) (AR : Arith VS) (pk : formula -> formula -> pkind)
         (p : formula) (w1 w2 : trace) (n1 n2 : nat),
    extends w1 n1 w2 n2 -> bounded_future p = true ->
    forall t, t + hor p < n1 -> rho AR pk p w2 n2 t = rho AR pk p w1 n1 t.
Proof. exact @rho_extend. Qed.
Print Assumptions C16_extend.

Theorem C16_past :
  forall (VS : Val) (AR : Arith VS) (pk : formula -> formula -> pkind)
         (p : formula) (w1 w2 : trace) (n1 n2 : nat),
    extends w1 n1 w2 n2 -> past_only p = true ->
    forall t, t < n1 -> rho AR pk p w2 n2 t = rho AR pk p w1 n1 t.
Proof. exact @rho_past_prefix. Qed.
Print Assumptions C16_past.

(* the same for what offline evaluate() returns *)
Theorem C16_offline :
  forall (VS : Val) (AR : Arith VS) (pk : formula -> formula -> pkind)
         (p : formula) (w1 w2 : trace) (n1 n2 : nat) (d : V),
    off_ok p w1 n1 -> off_ok p w2 n2 ->
    extends w1 n1 w2 n2 -> bounded_future p = true ->
    forall t, t + hor p < n1 ->
      nth t (eval_off AR pk p w2 n2) d = nth t (eval_off AR pk p w1 n1) d.
Proof.
  intros VS AR pk p w1 w2 n1 n2 d H1 H2 He Hb t Ht.
  rewrite !(off_value AR pk) by (try assumption; destruct He; lia).
  apply rho_extend; assumption.
Qed.
Print Assumptions C16_offline.

Example C16_nonvacuous :
  let p : @formula ExtZVal := And (EvT 1 2 (Pred CGeq (Var 0) (Const (Fin 1)))) (Once (Next (Pred CLt (Var 0) (Const (Fin 2))))) in
  let w1 := [[Fin 3; Fin 0; Fin (-1); Fin 4; Fin 2]] in
  let w2 := [[Fin 3; Fin 0; Fin (-1); Fin 4; Fin 2; Fin 9; Fin (-7)]] in
  extends w1 5 w2 7 /\ bounded_future p = true /\ hor p = 2 /\
  map (rho ExtZArith (fun _ _ => PStd) p w2 7) [0; 1; 2] = map (rho ExtZArith (fun _ _ => PStd) p w1 5) [0; 1; 2] /\
  rho ExtZArith (fun _ _ => PStd) p w2 7 3 <> rho ExtZArith (fun _ _ => PStd) p w1 5 3.
Proof.
  cbv zeta. repeat split; try reflexivity.
  - lia.
  - intros x t Ht. destruct x as [|x]; [|destruct x; reflexivity].
    do 5 (destruct t as [|t]; [reflexivity|]). lia.
  - vm_compute. discriminate.
Qed.

(* dense time: the tick semantics is stable under extension of the signals after e *)
From Coq Require Import ZArith.
From RV Require Import Dense DenseSem DenseLaws.
Theorem C16_dense :
  forall (VS : Val) (AR : Arith VS) (pk : formula -> formula -> pkind)
         (W1 W2 : list dsig) (tend1 tend2 e : Z) (p : formula),
    (forall x, start (nth x W2 []) = start (nth x W1 [])) ->
    (forall x t, (t <= e)%Z -> den (nth x W2 []) t = den (nth x W1 []) t) ->
    dbounded p = true ->
    forall t, (t + dhor p <= e)%Z -> rhoZ AR pk W2 tend2 p t = rhoZ AR pk W1 tend1 p t.
Proof. exact (fun VS AR pk W1 W2 tend1 tend2 e p => rhoZ_extend AR pk W1 W2 tend1 tend2 e p). Qed.
Print Assumptions C16_dense.

(* the same for the lists the dense-time offline visitor builds (model DenseVisitor.deval) *)
From RV Require Import DenseMergeCorrect DenseEvalCorrect DenseVisitor DenseEvalMain DenseVisitorLaws.
Theorem C16_dense_visitor :
  forall (VS : Val) (AR : Arith VS), (forall l r, neg (a2 AR Sub l r) = a2 AR Sub r l) ->
  forall (W1 W2 : list dsig) (tend1 tend2 e : Z) (p : formula),
    (0 <= tend1)%Z -> (0 <= tend2)%Z -> wfW W1 tend1 -> wfW W2 tend2 -> length W1 = length W2 ->
    (forall x t, (t <= e)%Z -> den (nth x W2 []) t = den (nth x W1 []) t) ->
    dfrag p = true -> dbounded p = true -> wf_bounds p = true -> (nvars p <= length W1)%nat ->
    exists s1 s2, deval AR p W1 = Some s1 /\ deval AR p W2 = Some s2 /\
      forall t, (t + dhor p <= e)%Z -> den_opt s2 t = den_opt s1 t.
Proof. intros VS AR SN W1 W2 tend1 tend2 e p. exact (visitor_extend AR SN W1 W2 tend1 tend2 e p). Qed.
Print Assumptions C16_dense_visitor.
