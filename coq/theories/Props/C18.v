(* C18 — temporal dualities and expansion laws: on rho for every value
   domain, and transferred to the offline and online monitor models. *)
From Coq Require Import List Arith ZArith Lia.
From RV Require Import Val Syntax Rho Offline ListFacts OfflineCorrect Online OnlineCorrect Laws Transfer ExtZ.
Import ListNotations.

Section C18.
Context (VS : Val) (AR : Arith VS) (pk : formula -> formula -> pkind) (w : trace) (n : nat).
Notation R := (fun p => rho AR pk p w n).

Theorem C18_not_eventually : forall a b p t, R (Not (EvT a b p)) t = R (AlwT a b (Not p)) t.
Proof. exact (law_not_evt AR pk w n). Qed.
Theorem C18_not_always : forall a b p t, R (Not (AlwT a b p)) t = R (EvT a b (Not p)) t.
Proof. exact (law_not_alwt AR pk w n). Qed.
Theorem C18_not_once_bounded : forall a b p t, R (Not (OnceT a b p)) t = R (HistT a b (Not p)) t.
Proof. exact (law_not_oncet AR pk w n). Qed.
Theorem C18_not_once : forall p t, R (Not (Once p)) t = R (Hist (Not p)) t.
Proof. exact (law_not_once AR pk w n). Qed.
Theorem C18_not_eventually_unbounded : forall p t, R (Not (Ev p)) t = R (Alw (Not p)) t.
Proof. exact (law_not_ev AR pk w n). Qed.
Theorem C18_implies : forall p q t, R (Implies p q) t = R (Or (Not p) q) t.
Proof. exact (law_implies AR pk w n). Qed.
Theorem C18_eventually_eventually : forall a b c d p t, a <= b -> c <= d ->
  R (EvT a b (EvT c d p)) t = R (EvT (a + c) (b + d) p) t.
Proof. exact (law_evt_evt AR pk w n). Qed.
Theorem C18_once_once : forall a b c d p t, a <= b -> c <= d ->
  R (OnceT a b (OnceT c d p)) t = R (OnceT (a + c) (b + d) p) t.
Proof. exact (law_oncet_oncet AR pk w n). Qed.
Theorem C18_since_expansion : forall p q t, R (Since p q) t = R (Or q (And p (SPrev (Since p q)))) t.
Proof. exact (law_since AR pk w n). Qed.
Theorem C18_until_expansion : forall p q t, t < n -> R (Until p q) t = R (Or q (And p (SNext (Until p q)))) t.
Proof. exact (law_until AR pk w n). Qed.

(* "in every monitor": any rho-level law holds of the signals the offline
   monitor returns, and of the online outputs when both sides are past-time *)
Theorem C18_offline : forall p q,
  off_ok p w n -> off_ok q w n -> (forall t, t < n -> R p t = R q t) ->
  eval_off AR pk p w n = eval_off AR pk q w n.
Proof. exact (fun p q => off_equiv AR pk p q w n). Qed.
Theorem C18_online : forall p q len,
  on_ok p -> on_ok q -> len <= n -> (forall t, t < n -> R p t = R q t) ->
  snd (mon_run AR pk [p] dict_init w 0 len) = snd (mon_run AR pk [q] dict_init w 0 len).
Proof. exact (fun p q len => on_equiv AR pk p q w n len). Qed.
End C18.
Print Assumptions C18_not_eventually.
Print Assumptions C18_not_always.
Print Assumptions C18_not_once_bounded.
Print Assumptions C18_not_once.
Print Assumptions C18_not_eventually_unbounded.
Print Assumptions C18_implies.
Print Assumptions C18_eventually_eventually.
Print Assumptions C18_once_once.
Print Assumptions C18_since_expansion.
Print Assumptions C18_until_expansion.
Print Assumptions C18_offline.
Print Assumptions C18_online.

Example C18_nonvacuous :
  let P : @formula ExtZVal := Pred CGeq (Var 0) (Const (Fin 1)) in
  let w := [[Fin 3; Fin 0; Fin (-1); Fin 4; Fin 2]] in
  eval_off ExtZArith (fun _ _ => PStd) (EvT 1 2 (EvT 0 2 P)) w 5 = [Fin 3; Fin 3; Fin 3; Fin 1; NegInf] /\
  eval_off ExtZArith (fun _ _ => PStd) (EvT 1 4 P) w 5 = [Fin 3; Fin 3; Fin 3; Fin 1; NegInf].
Proof. split; vm_compute; reflexivity. Qed.

(* dense time: the same laws on the tick semantics rhoZ *)
From Coq Require Import ZArith.
From RV Require Import Dense DenseSem DenseLaws.
Section C18Dense.
Context {VS : Val} (AR : Arith VS) (pk : formula -> formula -> pkind) (W : list dsig) (tend : Z).
Local Notation RZ := (rhoZ AR pk W tend).
Theorem C18_dense_not_eventually : forall a b p t, RZ (Not (EvT a b p)) t = RZ (AlwT a b (Not p)) t.
Proof. exact (dlaw_not_evt AR pk W tend). Qed.
Theorem C18_dense_not_always : forall a b p t, RZ (Not (AlwT a b p)) t = RZ (EvT a b (Not p)) t.
Proof. exact (dlaw_not_alwt AR pk W tend). Qed.
Theorem C18_dense_not_once_bounded : forall a b p t, RZ (Not (OnceT a b p)) t = RZ (HistT a b (Not p)) t.
Proof. exact (dlaw_not_oncet AR pk W tend). Qed.
Theorem C18_dense_not_once : forall p t, RZ (Not (Once p)) t = RZ (Hist (Not p)) t.
Proof. exact (dlaw_not_once AR pk W tend). Qed.
Theorem C18_dense_implies : forall p q t, RZ (Implies p q) t = RZ (Or (Not p) q) t.
Proof. exact (dlaw_implies AR pk W tend). Qed.
Theorem C18_dense_eventually_eventually : forall a b c d p t, a <= b -> c <= d ->
  RZ (EvT a b (EvT c d p)) t = RZ (EvT (a + c) (b + d) p) t.
Proof. exact (dlaw_evt_evt AR pk W tend). Qed.
Theorem C18_dense_once_once : forall a b c d p t, a <= b -> c <= d ->
  RZ (OnceT a b (OnceT c d p)) t = RZ (OnceT (a + c) (b + d) p) t.
Proof. exact (dlaw_oncet_oncet AR pk W tend). Qed.
End C18Dense.
Print Assumptions C18_dense_not_eventually.
Print Assumptions C18_dense_not_always.
Print Assumptions C18_dense_not_once_bounded.
Print Assumptions C18_dense_not_once.
Print Assumptions C18_dense_implies.
Print Assumptions C18_dense_eventually_eventually.
Print Assumptions C18_dense_once_once.

(* the same laws for the lists the dense-time offline visitor builds: both sides denote the same signal *)
From RV Require Import DenseMergeCorrect DenseEvalCorrect DenseVisitor DenseEvalMain DenseVisitorLaws.
Theorem C18_dense_visitor :
  forall (VS : Val) (AR : Arith VS), (forall l r, neg (a2 AR Sub l r) = a2 AR Sub r l) ->
  forall (W : list dsig) (tend : Z) (l r : formula),
    (0 <= tend)%Z -> wfW W tend -> dense_law l r ->
    dfrag l = true -> wf_bounds l = true -> (nvars l <= length W)%nat ->
    exists s1 s2, deval AR l W = Some s1 /\ deval AR r W = Some s2 /\ forall t, den_opt s1 t = den_opt s2 t.
Proof. intros VS AR SN W tend l r. exact (visitor_laws AR SN W tend l r). Qed.
Print Assumptions C18_dense_visitor.

(* "in every monitor", the pastified online monitor included: a past-time formula that stands beside an operand with a future horizon is
   delayed by the STL pastifier (once[H,H] around it, or H added to the bounds of a bounded once); two past-time formulas with the same
   signal — the two sides of a past-time law — then have the same pastified signal at EVERY sample, the first H (warm-up) samples
   included, alone and inside a conjunction / disjunction with any other operand g (seeded change C18_A5 folds the delay into the bounds
   of a bounded historically: top instead of bot during the warm-up, so this theorem fails for the changed pastifier) *)
From RV Require Import Pastify PastifyCorrect PastifyWarmup.
Theorem C18_pastified_monitor :
  forall (VS : Val) (AR : Arith VS) (w : trace) (l r g : formula),
    past_only l = true -> past_only r = true -> is_const l = false -> is_const r = false ->
    (forall n i, rho AR (fun _ _ => PStd) l w n i = rho AR (fun _ _ => PStd) r w n i) ->
    forall H n i,
      rho AR (fun _ _ => PStd) (pastify DelayOnce l H) w n i = rho AR (fun _ _ => PStd) (pastify DelayOnce r H) w n i /\
      rho AR (fun _ _ => PStd) (pastify DelayOnce (And l g) H) w n i = rho AR (fun _ _ => PStd) (pastify DelayOnce (And r g) H) w n i /\
      rho AR (fun _ _ => PStd) (pastify DelayOnce (Or l g) H) w n i = rho AR (fun _ _ => PStd) (pastify DelayOnce (Or r g) H) w n i.
Proof.
  intros VS AR w l r g Hl Hr Cl Cr E H n i. split.
  - apply (past_law_pastified AR (fun _ _ => PStd) w (fun _ _ _ _ => eq_refl)); assumption.
  - apply (past_law_pastified_in_context AR (fun _ _ => PStd) w (fun _ _ _ _ => eq_refl)); assumption.
Qed.
Print Assumptions C18_pastified_monitor.

(* the instance the seeded change breaks: not once[a,b] p  and  historically[a,b] not p  beside any operand g *)
Theorem C18_pastified_not_once_bounded :
  forall (VS : Val) (AR : Arith VS) (w : trace) (a b : nat) (p g : formula), past_only p = true ->
    forall H n i,
      rho AR (fun _ _ => PStd) (pastify DelayOnce (And (Not (OnceT a b p)) g) H) w n i =
      rho AR (fun _ _ => PStd) (pastify DelayOnce (And (HistT a b (Not p)) g) H) w n i.
Proof.
  intros VS AR w a b p g Hp H n i.
  apply (C18_pastified_monitor VS AR w (Not (OnceT a b p)) (HistT a b (Not p)) g); try reflexivity; try exact Hp.
  intros n' i'. apply (law_not_oncet AR (fun _ _ => PStd) w n').
Qed.
Print Assumptions C18_pastified_not_once_bounded.

Example C18_pastified_nonvacuous :
  (* (not once[0,1] (x0 >= 1)) and eventually[0,2] (x1 >= 0): delayed by 2; the first two outputs are bot on both sides *)
  let p : @formula ExtZVal := Pred CGeq (Var 0) (Const (Fin 1)) in
  let g : @formula ExtZVal := EvT 0 2 (Pred CGeq (Var 1) (Const (Fin 0))) in
  let w := [[Fin 0; Fin 1; Fin (-1); Fin 2; Fin 0]; [Fin 1; Fin (-2); Fin 3; Fin 0; Fin 5]] in
  map (rho ExtZArith (fun _ _ => PStd) (pastify DelayOnce (And (Not (OnceT 0 1 p)) g) 2) w 5) [0; 1; 2; 3; 4] =
  map (rho ExtZArith (fun _ _ => PStd) (pastify DelayOnce (And (HistT 0 1 (Not p)) g) 2) w 5) [0; 1; 2; 3; 4] /\
  rho ExtZArith (fun _ _ => PStd) (pastify DelayOnce (And (Not (OnceT 0 1 p)) g) 2) w 5 1 = NegInf /\
  rho ExtZArith (fun _ _ => PStd) (pastify DelayOnce (And (Not (OnceT 0 1 p)) g) 2) w 5 3 <> NegInf.
Proof. cbv zeta. repeat split; vm_compute; try reflexivity; discriminate. Qed.

(* the same for the pastifier RE-TRANSLATED from the Python text on every build (PastifyGen.v, tools/py2coq_pastifier.py): for two syntax
   trees that erase to  l and g  and  r and g  (l, r past-time formulas with the same signal), the trees StlPastifier builds erase to
   formulas with the same signal at every sample.  A change of the pastifier's delay scheme breaks PastifyGenCorrect.gen_stl_pastify_ok,
   hence this obligation of C18 (harness/common.py: pastifiergen -> C03, C18). *)
From Coq Require Import QArith Bool String.
From RV Require Import Units NodeName PyNode PastifyGen PastifyGenCorrect.
Close Scope Q_scope.
Theorem C18_generated_pastifier :
  forall (VS : Val) (AR : Arith VS) (vidx : string -> string -> nat) (cval : string -> V) (du : tunit) (p : Z) (pu : tunit)
         (nl nr : NodeName.node) (l r g : formula) (w : trace),
    (0 < p)%Z ->
    erase vidx cval du p pu nl = Some (And l g) -> erase vidx cval du p pu nr = Some (And r g) ->
    bounded_future g = true -> wf_bounds (And l g) = true -> wf_bounds (And r g) = true ->
    past_only l = true -> past_only r = true -> is_const l = false -> is_const r = false ->
    (forall n i, rho AR (fun _ _ => PStd) l w n i = rho AR (fun _ _ => PStd) r w n i) ->
    exists (ml mr : NodeName.node) (fl fr : formula),
      gen_stl_pastify du (sample_of du p pu) nl = Some ml /\ gen_stl_pastify du (sample_of du p pu) nr = Some mr /\
      erase vidx cval du p pu ml = Some fl /\ erase vidx cval du p pu mr = Some fr /\
      forall n i, rho AR (fun _ _ => PStd) fl w n i = rho AR (fun _ _ => PStd) fr w n i.
Proof.
  intros VS AR vidx cval du p pu nl nr l r g w Hp El Er Bg Wl Wr Pl Pr Cl Cr E.
  destruct (Extend.past_hor l Pl) as [Zl Bl]. destruct (Extend.past_hor r Pr) as [Zr Br].
  assert (BL : bounded_future (And l g) = true) by (cbn [bounded_future]; rewrite Bl, Bg; reflexivity).
  assert (BR : bounded_future (And r g) = true) by (cbn [bounded_future]; rewrite Br, Bg; reflexivity).
  destruct (@gen_stl_pastify_ok VS vidx cval du p pu Hp nl (And l g) El BL Wl) as [hl [ml [_ [_ [Hml [_ Eml]]]]]].
  destruct (@gen_stl_pastify_ok VS vidx cval du p pu Hp nr (And r g) Er BR Wr) as [hr [mr [_ [_ [Hmr [_ Emr]]]]]].
  exists ml, mr, (pastify DelayOnce (And l g) (hor (And l g))), (pastify DelayOnce (And r g) (hor (And r g))).
  repeat split; try assumption.
  intros n i. replace (hor (And r g)) with (hor (And l g)) by (cbn [hor]; rewrite Zl, Zr; reflexivity).
  apply (C18_pastified_monitor VS AR w l r g Pl Pr Cl Cr E).
Qed.
Print Assumptions C18_generated_pastifier.
