(* C15 — spelling variants and documented sugar denote the same AST (hence the
   same monitor, by C01-C05).  The precedence levels come from PrecTable.v,
   regenerated from rtamt/antlr/parser/stl/StlParser.py on every run. *)
From Coq Require Import List Ascii String.
From RV Require Import Lexer PrecTable Parser Elab Offline ParserCorrect ParserTables ParserRoundtrip ParserMin ParserMinCorrect.
Import ListNotations.

(* operator aliases lex to the token of the long name; parsing only sees tokens *)
Theorem C15_alias : forallb (fun p => lex_eqb (fst p) (snd p)) alias_pairs = true.
Proof. exact aliases_same_token. Qed.
Print Assumptions C15_alias.

Theorem C15_separators : forall a b r,
  parse_interval (TSym SLBrack :: TInt a :: TSym SColon :: TInt b :: TSym SRBrack :: r) =
  parse_interval (TSym SLBrack :: TInt a :: TSym SComma :: TInt b :: TSym SRBrack :: r).
Proof. exact separators_same. Qed.
Print Assumptions C15_separators.

(* parentheses: a parenthesised expression is a primary with the AST of the inner expression, and the fully
   parenthesised rendering of ANY well-formed AST parses back to it *)
Theorem C15_parens : forall stl pe ts e r,
  pe 0 ts = Some (e, TSym SRParen :: r) -> parse_primary stl pe (TSym SLParen :: ts) = Some (e, r).
Proof. exact paren_primary. Qed.
Print Assumptions C15_parens.

Theorem C15_roundtrip_full : forall e, wf e = true ->
  forall fuel rest, need e <= fuel -> stopper rest -> parse_expr true fuel 0 (full e ++ rest) = Some (e, rest).
Proof. exact full_roundtrip. Qed.
Print Assumptions C15_roundtrip_full.

(* the MINIMAL rendering (parentheses only where needs_paren asks for them: a binary node whose level is below the level of its
   position; a prefix node followed, inside the same parentheses, by a binary operator its operand would swallow) of ANY
   well-formed AST parses back to it — every combination of operators, by induction on the AST, with the levels of PrecTable.v *)
Theorem C15_roundtrip_min : forall e, wf e = true ->
  forall fuel rest, need e <= fuel -> stopper rest -> parse_expr true fuel 0 (render_min e ++ rest) = Some (e, rest).
Proof. exact roundtrip_min. Qed.
Print Assumptions C15_roundtrip_min.

(* ... and so does "render_min e ;" as a whole specification *)
Theorem C15_spec_min : forall e, wf e = true -> parse_spec true (render_min e ++ [TSym SSemi]) = Some [(None, e)].
Proof. exact spec_min. Qed.
Print Assumptions C15_spec_min.

(* ... and, when the AST has no intervals, under the LTL grammar too *)
Theorem C15_roundtrip_min_ltl : forall e, wf e = true -> noiv e = true ->
  forall fuel rest, need e <= fuel -> stopper rest -> no_brack rest ->
  parse_expr false fuel 0 (render_min e ++ rest) = Some (e, rest).
Proof. exact roundtrip_min_ltl. Qed.
Print Assumptions C15_roundtrip_min_ltl.

(* general form: ANY parenthesisation par (number of pairs around every node) that passes the decidable check okp — no binary
   node below the level of its position, no operator swallowed by the right spine of its left operand — parses back to the AST *)
Theorem C15_roundtrip_checked : forall e par, wf e = true -> okp par e 0 = true ->
  forall fuel rest, np par e <= fuel -> stopper rest -> parse_expr true fuel 0 (rp par e ++ rest) = Some (e, rest).
Proof. exact roundtrip_ok. Qed.
Print Assumptions C15_roundtrip_checked.

(* the parentheses the user writes (ex), completed by the needed ones, parse back to the AST *)
Theorem C15_roundtrip_gen : forall e ex, wf e = true ->
  forall fuel rest, needx ex e <= fuel -> stopper rest -> parse_expr true fuel 0 (rgen ex e 0 None ++ rest) = Some (e, rest).
Proof. exact roundtrip_gen. Qed.
Print Assumptions C15_roundtrip_gen.

(* converse-flavoured: in a text that has at least the needed pairs, deleting the two tokens of a pair that needs_paren does not
   ask for (the node has more pairs than in the minimal rendering) does not change the AST *)
Theorem C15_unparen : forall e par pi, wf e = true -> dle (pmin e) par -> pmin e pi < par pi ->
  forall fuel rest, np par e <= fuel -> stopper rest ->
  parse_expr true fuel 0 (rp (drop pi par) e ++ rest) = parse_expr true fuel 0 (rp par e ++ rest) /\
  parse_expr true fuel 0 (rp par e ++ rest) = Some (e, rest).
Proof. exact unparen_min. Qed.
Print Assumptions C15_unparen.

(* the same against the check, and with the needed pairs recomputed after the removal *)
Theorem C15_unparen_checked : forall e par pi, wf e = true -> okp par e 0 = true -> okp (drop pi par) e 0 = true ->
  forall fuel rest, np par e <= fuel -> np (drop pi par) e <= fuel -> stopper rest ->
  parse_expr true fuel 0 (rp (drop pi par) e ++ rest) = parse_expr true fuel 0 (rp par e ++ rest) /\
  parse_expr true fuel 0 (rp par e ++ rest) = Some (e, rest).
Proof. exact unparen_ok. Qed.
Print Assumptions C15_unparen_checked.
Theorem C15_unparen_gen : forall e ex pi, wf e = true ->
  forall fuel rest, needx ex e <= fuel -> needx (drop pi ex) e <= fuel -> stopper rest ->
  parse_expr true fuel 0 (rgen (drop pi ex) e 0 None ++ rest) = parse_expr true fuel 0 (rgen ex e 0 None ++ rest) /\
  parse_expr true fuel 0 (rgen ex e 0 None ++ rest) = Some (e, rest).
Proof. exact unparen_gen. Qed.
Print Assumptions C15_unparen_gen.

(* binary operators group according to the precedence order of the grammar: every pair of binary operators,
   every prefix operator before / after every binary operator (operands atomic; all 18 x 18 + 10 x 18 + 18 x 10 cases) *)
Theorem C15_grouping :
  all_pairs check_bin_bin bin_tokens bin_tokens = true /\
  all_pairs check_pre_bin pre_tokens bin_tokens = true /\
  all_pairs check_bin_pre bin_tokens pre_tokens = true.
Proof. exact (conj grouping_bin_bin (conj grouping_pre_bin grouping_bin_pre)). Qed.
Print Assumptions C15_grouping.

(* "phi unless[a,b] psi" is built as "always[0,b] phi or phi until[a,b] psi" (and the untimed form alike) *)
Theorem C15_unless : forall env a b s,
  dump env (EBin BUnless None a b) = Some s ->
  dump env (EBin BOr None (EUn UAlways None a) (EBin BUntil None a b)) = Some s.
Proof. exact unless_sugar_untimed. Qed.
Print Assumptions C15_unless.

Theorem C15_unless_timed : forall env iv a b s bb ee,
  check_interval env iv = Some (bb, ee) ->
  dump env (EBin BUnless (Some iv) a b) = Some s ->
  exists x y, dump env a = Some x /\ dump env b = Some y /\
    s = d_bin "or"%string (d_unt "always"%string ("0 " ++ unit_text (match fst iv with ILit _ u | IId _ u => u end)) ee x)%string (d_bint "until"%string bb ee x y) /\
    dump env (EBin BUntil (Some iv) a b) = Some (d_bint "until"%string bb ee x y).
Proof. exact unless_sugar_timed. Qed.
Print Assumptions C15_unless_timed.

(* the LTL front end on untimed formulas: on token lists without '[' both grammars parse alike *)
Theorem C15_ltl : forall fuel p ts, no_brack ts -> parse_expr false fuel p ts = parse_expr true fuel p ts.
Proof. exact ltl_stl_agree. Qed.
Print Assumptions C15_ltl.

Local Open Scope string_scope.
Example C15_nonvacuous :
  parse_outcome true [] KS "out = G[0:1] xa -> ! xb & F xa | xa S xb" =
  parse_outcome true [] KS "out = (always[0,1] xa) implies (((not xb) and (eventually xa)) or (xa since xb));" /\
  parse_outcome true [] KS "xa unless[1,2] xb" =
  parse_outcome true [] KS "out = always[0,2] xa or xa until[1,2] xb;".
Proof. split; vm_compute; reflexivity. Qed.

(* ---- the sugar as the re-translated visitExprUnless builds it (tools/py2coq_parservisitor.py -> ElabGen.v) ---- *)
From RV Require Import ParserDecl PyParse ElabGen ElabGenCorrect.
Theorem C15_generated_unless :
  forall (orc : oracle) (du : kw), is_unit du = true ->
  forall iv a b st, shape_ok true (EBin BUnless iv a b) = true -> lits_ok (EBin BUnless iv a b) = true ->
  gen_visit_stl orc du st (EBin BUnless iv a b) =
  bind (visit_dump orc du st a) (fun r1 => bind (visit_dump orc du (fst r1) b) (fun r2 =>
    match iv with
    | None => Ok (fst r2, d_bin "or" (d_un "always" (snd r1)) (d_bin "until" (snd r1) (snd r2)))
    | Some i =>
        match check_interval (penv_of du (fst r2)) i with
        | Some (bb, ee) => Ok (fst r2, d_bin "or" (d_unt "always" ("0 " ++ unit_text (it_unit (fst i))) ee (snd r1)) (d_bint "until" bb ee (snd r1) (snd r2)))
        | None => Rtamt
        end
    end)).
Proof. exact @gen_unless_refines. Qed.
Print Assumptions C15_generated_unless.
