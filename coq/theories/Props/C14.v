(* C14 — the parser accepts only the specification language and fails only
   cleanly (model: Lexer.v, Parser.v, Elab.v).  Termination and the internal
   behaviour of the ANTLR runtime are runtime matters: the Gallina functions
   are total by construction, the implementation is run under a wall-clock
   limit by the correspondence check (partial). *)
From Coq Require Import List Ascii String.
From RV Require Import Lexer PrecTable Parser Elab Offline ParserCorrect ParserTables.
Import ListNotations.

(* whatever parse_expr accepts is derivable from the grammar, and the unconsumed rest is reported exactly *)
Theorem C14_sound :
  forall (stl : bool) fuel lvl ts e r,
    parse_expr stl fuel lvl ts = Some (e, r) -> exists used, ts = used ++ r /\ Derives stl e used.
Proof. exact parse_expr_sound. Qed.
Print Assumptions C14_sound.

(* no trailing garbage: a specification is accepted only if its assertions consume every token *)
Theorem C14_no_trailing :
  forall stl ts a r, parse_assertion stl ts = Some (a, r) ->
    exists used, ts = used ++ r /\ exists e, snd a = e /\
      (exists body, Derives stl e body /\ (used = body ++ [TSym SSemi] \/ exists n, used = TId n :: TSym SEq :: body ++ [TSym SSemi])).
Proof. exact parse_assertion_sound. Qed.
Print Assumptions C14_no_trailing.

(* no silently skipped characters: a character that starts no token, white space or comment makes the lexer fail *)
Theorem C14_no_skip :
  forall fuel c r, starts_something c r = false -> lex (S fuel) (c :: r) = None.
Proof. exact lex_rejects_illegal. Qed.
Print Assumptions C14_no_skip.

(* every interval of an accepted formula passed the check 0 <= begin <= end (as durations) with declared bound constants *)
Theorem C14_bounds :
  forall env e out, dump env e = Some out -> forall iv, In iv (intervals e) -> check_interval env iv <> None.
Proof. exact dump_checks_intervals. Qed.
Print Assumptions C14_bounds.

(* parse() returns a forest or raises RTAMTException: there is no other outcome *)
Theorem C14_clean : forall stl cs du text, parse_outcome stl cs du text <> Crash.
Proof. exact parse_outcome_clean. Qed.
Print Assumptions C14_clean.

Local Open Scope string_scope.
Example C14_nonvacuous :
  parse_outcome true [("k1", "2")] KS "out = once[0,k1] (xa >= 1) and zz > 0.5;"
    = Ok ["(and (once_t 0 _ 2 _ (pred geq (var xa) (const 1))) (pred gt (var zz) (const 0.5)))"] /\
  parse_outcome true [] KS "out = once[3,1] (xa >= 1);" = Rtamt /\
  parse_outcome true [] KS "out = xa # >= 1;" = Rtamt /\
  parse_outcome true [] KS "out = xa >= 1; garbage )" = Rtamt /\
  parse_outcome true [] KS "out = once[0,k9] xa;" = Rtamt.
Proof. repeat split; vm_compute; reflexivity. Qed.
