(* C14 — the parser accepts only the specification language and fails only
   cleanly (model: Lexer.v, Parser.v, Elab.v).  Termination and the internal
   behaviour of the ANTLR runtime are runtime matters: the Gallina functions
   are total by construction, the implementation is run under a wall-clock
   limit by the correspondence check (partial). *)
From Coq Require Import List Ascii String.
From RV Require Import Lexer PrecTable Parser Elab Offline ParserCorrect ParserTables.
Import ListNotations.

(* whatever parse_expr accepts is derivable from the grammar, and the unconsumed rest is reported exactly *)
Theorem C14_sound :
  forall (stl : bool) fuel lvl ts e r,
    parse_expr stl fuel lvl ts = Some (e, r) -> exists used, ts = used ++ r /\ Derives stl e used.
Proof. exact parse_expr_sound. Qed.
Print Assumptions C14_sound.

(* no trailing garbage: a specification is accepted only if its assertions consume every token *)
Theorem C14_no_trailing :
  forall stl ts a r, parse_assertion stl ts = Some (a, r) ->
    exists used, ts = used ++ r /\ exists e, snd a = e /\
      (exists body, Derives stl e body /\ (used = body ++ [TSym SSemi] \/ exists n, used = TId n :: TSym SEq :: body ++ [TSym SSemi])).
Proof. exact parse_assertion_sound. Qed.
Print Assumptions C14_no_trailing.

(* no silently skipped characters: a character that starts no token, white space or comment makes the lexer fail *)
Theorem C14_no_skip :
  forall fuel c r, starts_something c r = false -> lex (S fuel) (c :: r) = None.
Proof. exact lex_rejects_illegal. Qed.
Print Assumptions C14_no_skip.

(* every interval of an accepted formula passed the check 0 <= begin <= end (as durations) with declared bound constants *)
Theorem C14_bounds :
  forall env e out, dump env e = Some out -> forall iv, In iv (intervals e) -> check_interval env iv <> None.
Proof. exact dump_checks_intervals. Qed.
Print Assumptions C14_bounds.

(* parse() returns a forest or raises RTAMTException: there is no other outcome *)
Theorem C14_clean : forall stl cs du text, parse_outcome stl cs du text <> Crash.
Proof. exact parse_outcome_clean. Qed.
Print Assumptions C14_clean.

Local Open Scope string_scope.
Example C14_nonvacuous :
  parse_outcome true [("k1", "2")] KS "out = once[0,k1] (xa >= 1) and zz > 0.5;"
    = Ok ["(and (once_t 0 _ 2 _ (pred geq (var xa) (const 1))) (pred gt (var zz) (const 0.5)))"] /\
  parse_outcome true [] KS "out = once[3,1] (xa >= 1);" = Rtamt /\
  parse_outcome true [] KS "out = xa # >= 1;" = Rtamt /\
  parse_outcome true [] KS "out = xa >= 1; garbage )" = Rtamt /\
  parse_outcome true [] KS "out = once[0,k9] xa;" = Rtamt.
Proof. repeat split; vm_compute; reflexivity. Qed.

(* ---- the whole 'specification' rule: header, imports, declarations, annotations, assertions (model ParserDecl.v,
   compared with parse() — outcome class, every table of the visitors, every AST — by the `file` stream of harness/c14.py) ---- *)
From RV Require Import ParserDecl ParserDeclCorrect.

(* everything parse_file accepts is derivable from the grammar of the whole rule and consumes exactly the token list *)
Theorem C14_file_sound :
  forall (stl : bool) (ts : list token) (f : file), parse_file stl ts = Some f -> FileDerives stl f ts.
Proof. exact parse_file_sound. Qed.
Print Assumptions C14_file_sound.

(* on a text without header, imports and declarations it is the parser of the assertion part *)
Theorem C14_file_refines :
  forall (stl : bool) (ts : list token) (f : file),
    parse_file stl ts = Some f -> f_name f = None -> f_imports f = [] -> f_items f = [] -> parse_spec stl ts = Some (f_asserts f).
Proof. exact parse_file_refines_parse_spec. Qed.
Print Assumptions C14_file_refines.

(* the table of constants is exactly what the text declares, and every identifier used as an interval bound of an assertion is a declared constant *)
Theorem C14_file_constants :
  forall (orc : oracle) (du : kw) (f : file) (st : dstate),
    elab_file orc du f = Ok st ->
    (forall c v, assoc (d_consts st) c = Some v <-> declared_in (f_items f) c v) /\
    (forall a c, In a (f_asserts f) -> In c (bound_ids (snd a)) -> In c (const_decls (f_items f))).
Proof.
  intros orc du f st H. split.
  - exact (const_table_exact orc du f st H).
  - exact (proj1 (assert_bounds_declared orc du f st H)).
Qed.
Print Assumptions C14_file_constants.

(* with imported modules whose import, constructors and fields raise nothing but Exception (a benign oracle), parse() of any text
   returns the tables or raises RTAMTException; without that assumption an exception can escape (escapes_without_benign) *)
Theorem C14_file_clean :
  forall (orc : oracle) (du : kw), orc_benign orc = true ->
  forall (stl : bool) (text : string),
    (exists st, file_outcome orc du stl text = Ok st) \/ file_outcome orc du stl text = Rtamt.
Proof. exact file_outcome_classes. Qed.
Print Assumptions C14_file_clean.

(* ---- the AST-building methods of the parser visitor, re-translated from rtamt/syntax/ast/parser/{ltl,stl}/parser_visitor.py on every build
   (tools/py2coq_parservisitor.py -> ElabGen.v): on every context the grammar can produce, inside the literal fragment of Elab.v, the generated
   visitor returns the state and the node of the hand model (same node, or the same rejection class) ---- *)
From RV Require Import PyParse ElabGen ElabGenCorrect.
Theorem C14_generated_visitor :
  forall (orc : oracle) (du : kw), is_unit du = true ->
  forall (e : sexpr) (st : dstate), shape_ok true e = true -> lits_ok e = true ->
    gen_visit_stl orc du st e = visit_dump orc du st e.
Proof. exact @gen_visit_stl_refines. Qed.
Print Assumptions C14_generated_visitor.

Theorem C14_generated_visitor_ltl :
  forall (orc : oracle) (du : kw),
  forall (e : sexpr) (st : dstate), shape_ok false e = true -> lits_ok e = true ->
    gen_visit_ltl orc st e = visit_dump orc du st e.
Proof. exact @gen_visit_ltl_refines. Qed.
Print Assumptions C14_generated_visitor_ltl.

(* whatever the model parser derives is such a context *)
Theorem C14_generated_contexts : forall stl e ts, Derives stl e ts -> shape_ok stl e = true.
Proof. exact derives_shape_ok. Qed.
Print Assumptions C14_generated_contexts.
