From RV Require Import Val Syntax Dense.
Theorem C04_placeholder : True. Proof. exact I. Qed.
Print Assumptions C04_placeholder.
