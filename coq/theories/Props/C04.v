(* C04 — dense-time offline robustness equals the dense-time STL semantics.

   Full statement:
       forall p W t, dstart W p <= t ->
         den (evaluate p W) t = rhoZ W tend p t   /\  stamps increasing
         /\ first stamp = dstart W p.

   Proved here for the model DenseVisitor.deval of the whole visitor (every
   operator the dense-time offline monitor supports; compared list for list
   with evaluate() by the check harness/c04.py):
   - C04_visitor: for every supported, well-formed formula and all strictly
     increasing non-empty input signals that start at time 0, the list built
     by the visitor is strictly increasing, starts at 0 and denotes rhoZ at
     every tick.  This includes the sliding-window algorithms of the bounded
     operators (stack of pieces = upper / lower envelope: DenseWinCorrect.v,
     DenseWinFut.v) and the decompositions used for bounded since / until
     (DenseTimedLaws.v).
   - C04_untimed: for formulas without bounded operators the same holds for
     signals that start anywhere (result starts at dstart W p).
   The hypothesis "signals start at 0" of C04_visitor cannot be dropped: the
   bounded operators assume it (known finding KF-C04-late-start, witness
   C04_late_start_refuted).
   - C04_merge: on strictly increasing sample lists the 13-case Allen-relation
     merge of intersection.py (model DenseMerge.isect, compared with
     intersection() itself by the check) never reaches its 'Unexpected case'
     branch, returns strictly increasing stamps, and its result denotes
     exactly t |-> f (s1 t) (s2 t) on the common domain and is undefined
     before it.
   - C04_merge_starts_at_common_domain: the first stamp of the result is the
     later of the two first stamps.
   - C04_generated_merge: intersection() and _append() of offline/intersection.py as
     RE-GENERATED from the Python text on every build (MergeGen.v, tools/py2coq_merge.py)
     ARE the models isect / isect_g of C04_merge and of since / until: on the injected
     sample lists the generated function never runs out of the fuel allotted to its
     while loop, raises exactly where the model says 'Unexpected case', and returns
     the model's samples (and last = []); the generated point-wise methods and split
     are the functions the visitor model hands to the merge. *)
From Coq Require Import List ZArith QArith Qround Lia.
From RV Require Import Val Syntax Rho Dense DenseSem DenseMerge DenseMergeCorrect DenseEval DenseEvalCorrect DenseWin DenseVisitor DenseConst DenseReal DenseEvalMain ExtZ.
From RV Require Import DenseMergeG PySem PyDense PyMerge MergeGen MergeGenCorrect.
Import ListNotations.
Local Open Scope Z_scope.

Theorem C04_merge :
  forall (VS : Val) (f : V -> V -> V) (s1 s2 : dsig),
    dsorted s1 -> dsorted s2 ->
    exists out, isect f s1 s2 = Some out /\ dsorted out /\
      forall t, den_opt out t =
                match den_opt s1 t, den_opt s2 t with
                | Some a, Some b => Some (f a b)
                | _, _ => None
                end.
Proof. exact (fun VS f s1 s2 H1 H2 => isect_correct f s1 s2 H1 H2). Qed.
Print Assumptions C04_merge.

Theorem C04_merge_starts_at_common_domain :
  forall (VS : Val) (f : V -> V -> V) (s1 s2 out : dsig),
    dsorted s1 -> dsorted s2 -> s1 <> [] -> s2 <> [] ->
    isect f s1 s2 = Some out ->
    out <> [] /\ start out = Z.max (start s1) (start s2).
Proof. exact (fun VS f s1 s2 out => isect_start f s1 s2 out). Qed.
Print Assumptions C04_merge_starts_at_common_domain.

(* the whole visitor: every supported operator, bounded ones included; all input signals start at time 0.
   SubNeg: the comparison visitors compute -(l - r) where the semantics says r - l. *)
Theorem C04_visitor :
  forall (VS : Val) (AR : Arith VS), (forall l r, neg (a2 AR Sub l r) = a2 AR Sub r l) ->
  forall (W : list dsig) (tend : Z), 0 <= tend ->
    (forall s, In s W -> dsorted s /\ s <> [] /\ (forall a v, In (a, v) s -> a <= tend)) ->
    (forall s, In s W -> start s = 0) ->
  forall p, dfrag p = true -> wf_bounds p = true -> (nvars p <= length W)%nat ->
    exists s, deval AR p W = Some s /\ dsorted s /\ s <> [] /\ start s = 0 /\
      forall t, den_opt s t = if t <? 0 then None else Some (rhoZ AR (fun _ _ => PStd) W tend p t).
Proof.
  intros VS AR SN W tend Ht HW H0 p Hf Hb Hn.
  destruct (deval_correct AR SN W tend Ht HW p Hf Hb (or_intror H0) Hn) as (s & E & G).
  rewrite (dstart0 W p H0 Hn) in G. exists s. split; [exact E|exact G].
Qed.
Print Assumptions C04_visitor.

(* rhoZ is the dense-time semantics: over rational time, with suprema / infima over closed windows of rationals and the
   sample lists read as right-continuous step functions, every supported formula has exactly one value at every time of
   its domain, namely rhoZ at the tick floor(t) (for every predicate kind, so also for the IA-STL semantics) *)
Theorem C04_real_time :
  forall (VS : Val) (AR : Arith VS) (pk : formula -> formula -> pkind) (W : list dsig) (tend : Z), 0 <= tend ->
    (forall s, In s W -> dsorted s /\ s <> [] /\ (forall a v, In (a, v) s -> a <= tend)) ->
  forall p, dfrag p = true -> wf_bounds p = true -> (nvars p <= length W)%nat ->
  forall t : Q, (inject_Z (dstart W p) <= t)%Q ->
    RS AR pk W p t (rhoZ AR pk W tend p (Qfloor t)) /\ forall v, RS AR pk W p t v -> v = rhoZ AR pk W tend p (Qfloor t).
Proof. intros VS AR pk W tend Ht HW p Hf Hb Hn t Hd. exact (real_time AR pk W tend Ht HW p Hf Hb Hn t Hd). Qed.
Print Assumptions C04_real_time.

(* both together: what the visitor builds, read at floor(t), is the dense-time robustness at the rational time t *)
Theorem C04_dense_time :
  forall (VS : Val) (AR : Arith VS), (forall l r, neg (a2 AR Sub l r) = a2 AR Sub r l) ->
  forall (W : list dsig) (tend : Z), 0 <= tend ->
    (forall s, In s W -> dsorted s /\ s <> [] /\ (forall a v, In (a, v) s -> a <= tend)) ->
    (forall s, In s W -> start s = 0) ->
  forall p, dfrag p = true -> wf_bounds p = true -> (nvars p <= length W)%nat ->
    exists s, deval AR p W = Some s /\
      forall t : Q, (0 <= t)%Q ->
        RS AR (fun _ _ => PStd) W p t (den s (Qfloor t)) /\ forall v, RS AR (fun _ _ => PStd) W p t v -> v = den s (Qfloor t).
Proof.
  intros VS AR SN W tend Ht HW H0 p Hf Hb Hn.
  destruct (deval_correct AR SN W tend Ht HW p Hf Hb (or_intror H0) Hn) as (s & E & G).
  rewrite (dstart0 W p H0 Hn) in G. exists s. split; [exact E|]. intros t Hq.
  assert (Hfl : 0 <= Qfloor t) by (change 0 with (Qfloor (inject_Z 0)); apply Qfloor_resp_le; exact Hq).
  rewrite (good_den s 0 _ (Qfloor t) G Hfl).
  apply (real_time AR (fun _ _ => PStd) W tend Ht HW p Hf Hb Hn t). rewrite (dstart0 W p H0 Hn). exact Hq.
Qed.
Print Assumptions C04_dense_time.

(* formulas without bounded operators: signals may start anywhere, the result starts at the start of the domain of the formula *)
Theorem C04_untimed :
  forall (VS : Val) (AR : Arith VS), (forall l r, neg (a2 AR Sub l r) = a2 AR Sub r l) ->
  forall (W : list dsig) (tend : Z), 0 <= tend ->
    (forall s, In s W -> dsorted s /\ s <> [] /\ (forall a v, In (a, v) s -> a <= tend)) ->
  forall p, untimed p = true -> (nvars p <= length W)%nat ->
    exists s, deval AR p W = Some s /\ dsorted s /\ s <> [] /\ start s = dstart W p /\
      forall t, den_opt s t = if t <? dstart W p then None else Some (rhoZ AR (fun _ _ => PStd) W tend p t).
Proof.
  intros VS AR SN W tend Ht HW p Hu Hn.
  destruct (deval_correct AR SN W tend Ht HW p (untimed_dfrag p Hu) (untimed_wf p Hu) (or_introl Hu) Hn) as (s & E & G). exists s. split; [exact E|exact G].
Qed.
Print Assumptions C04_untimed.

Lemma ExtZ_sub_neg : forall l r : extz, neg (a2 ExtZArith Sub l r) = a2 ExtZArith Sub r l.
Proof. intros [|a|] [|b|]; cbn; try reflexivity. f_equal. lia. Qed.

Example C04_untimed_nonvacuous :
  let W : list (@dsig ExtZVal) := [[(0, Fin 3); (4, Fin 1); (9, Fin 5)]; [(2, Fin 2); (4, Fin 2); (6, Fin 0)]] in
  let p : @formula ExtZVal := Alw (Or (Pred CGeq (Var 0) (Const (Fin 2))) (Once (Pred CLt (Var 1) (Var 0)))) in
  untimed p = true /\ deval ExtZArith p W = Some [(2, Fin 1); (9, Fin 5)].
Proof. cbv zeta. split; vm_compute; reflexivity. Qed.

Example C04_untimed_since_until_nonvacuous :
  let W : list (@dsig ExtZVal) := [[(0, Fin 3); (4, Fin 1); (9, Fin 5)]; [(2, Fin 2); (4, Fin 2); (6, Fin 0)]] in
  let p : @formula ExtZVal := Until (Pred CGeq (Var 0) (Const (Fin 2))) (Since (Var 1) (Pred CLt (Var 1) (Var 0))) in
  untimed p = true /\ deval ExtZArith p W = Some [(2, Fin 1); (4, Fin (-1)); (9, Fin 0)].
Proof. cbv zeta. split; vm_compute; reflexivity. Qed.

Example C04_visitor_nonvacuous :
  let W : list (@dsig ExtZVal) := [[(0, Fin 3); (4, Fin 1); (9, Fin 5)]; [(0, Fin 2); (4, Fin 2); (6, Fin 0)]] in
  let p : @formula ExtZVal := UntilT 1 3 (OnceT 1 2 (Pred CGeq (Var 0) (Const (Fin 2)))) (AlwT 0 2 (SinceT 0 3 (Var 1) (Pred CLt (Var 1) (Var 0)))) in
  dfrag p = true /\ wf_bounds p = true /\ (forall s, In s W -> start s = 0) /\
  deval ExtZArith p W = Some [(0, NegInf); (1, Fin 1); (3, Fin 0); (5, Fin (-1)); (10, Fin 0)].
Proof. cbv zeta. split; [reflexivity|]. split; [reflexivity|]. split; [intros s [<-|[<-|[]]]; reflexivity|]. vm_compute. reflexivity. Qed.

(* the hypothesis of C04_visitor is needed: with a signal that starts at 2, once[1,2] x starts at 0 (KF-C04-late-start) *)
Example C04_late_start_refuted :
  exists (W : list (@dsig ExtZVal)) (p : @formula ExtZVal) s,
    dfrag p = true /\ wf_bounds p = true /\ deval ExtZArith p W = Some s /\ start s <> dstart W p.
Proof. exists [[(2, Fin 1); (5, Fin 0)]], (OnceT 1 2 (Var 0)). eexists. split; [reflexivity|]. split; [reflexivity|]. split; [vm_compute; reflexivity|]. cbn. lia. Qed.

Example C04_nonvacuous :
  let s1 : @dsig ExtZVal := [(0, Fin 3); (4, Fin 1); (9, Fin 5)] in
  let s2 : @dsig ExtZVal := [(2, Fin 2); (4, Fin 2); (6, Fin 0)] in
  dsorted s1 /\ dsorted s2 /\
  isect vmin s1 s2 = Some [(2, Fin 2); (4, Fin 1); (6, Fin 0)].
Proof. cbv zeta. repeat split; try lia. Qed.

(* ---------------- the visitor as GENERATED from the Python text (DenseOfflineGen.v) ----------------
   Tie between the hand model deval and the source: DenseOfflineGen.v is GENERATED from
   rtamt/semantics/stl/dense_time/offline/ast_visitor.py (and the `def M(a, b)` of offline/intersection.py) by
   tools/py2coq_denseoffline.py on every build (fail-closed).  Every generated function equals the hand function the C04 theorems
   are stated on; a list the generated visitor gen_deval returns is the list deval returns (equality, None included, for formulas
   without sqrt / ln, whose domain errors the hand model does not contain).  The four window loops once/historically/always/
   eventually_timed_operation are translated too and equal the hand models of DenseWin.v (C04_generated_windows, DenseOfflineGenWinCorrect.v).
   Hand-modelled and pinned by digest: intersection(), _append(), intersects() (for intersection() see C04_generated_merge), visitVariable,
   visitConstant, visit, and the dispatchers StlAstVisitor.visit / LtlAstVisitor.visit. *)
From RV Require Import DenseIA PySem PyDense PyDenseOff DenseOfflineGen DenseOfflineGenWinCorrect DenseOfflineGenCorrect.
Theorem C04_generated_visitor :
  forall (VS : Val) (AR : Arith VS),
  (forall l r, gen_subtraction_operation AR l r = isect (a2 AR Sub) l r) /\ (forall l r, gen_and_operation AR l r = isect vmin l r) /\
  (forall s, gen_visitAbs AR s = Some (dmap (a1 AR Abs) s)) /\ (forall s, gen_visitExp AR s = Some (dmap (a1 AR Exp) s)) /\
  (forall s, gen_visitNot AR s = Some (dmap neg s)) /\ (forall s, gen_visitNegate AR s = Some (dmap neg s)) /\
  (forall s, gen_visitSqrt AR s = if forallb (fun q => sqrt_ok AR (snd q)) s then Some (dmap (a1 AR Sqrt) s) else None) /\
  (forall s, gen_visitLn AR s = if forallb (fun q => ln_ok AR (snd q)) s then Some (dmap (a1 AR Ln) s) else None) /\
  (forall l r, gen_visitAddition AR l r = isect (a2 AR Add) l r) /\ (forall l r, gen_visitSubtraction AR l r = isect (a2 AR Sub) l r) /\
  (forall l r, gen_visitMultiplication AR l r = isect (a2 AR Mul) l r) /\ (forall l r, gen_visitDivision AR l r = isect (a2 AR Div) l r) /\
  (forall l r, gen_visitPow AR l r = isect (a2 AR Pow) l r) /\ (forall l r, gen_visitLog AR l r = isect (a2 AR Log) l r) /\
  (forall l r, gen_visitAnd AR l r = isect vmin l r) /\ (forall l r, gen_visitOr AR l r = isect vmax l r) /\
  (forall l r, gen_visitImplies AR l r = isect (fun a b => vmax (neg a) b) l r) /\
  (forall l r, gen_visitIff AR l r = isect (fun a b => neg (a1 AR Abs (a2 AR Sub a b))) l r) /\
  (forall l r, gen_visitXor AR l r = isect (fun a b => a1 AR Abs (a2 AR Sub a b)) l r) /\
  (forall c l r, gen_visitPredicate AR c l r = option_map (ia_pred AR PStd c) (isect (a2 AR Sub) l r)) /\
  (forall s, gen_visitOnce AR s = Some (once_op s)) /\ (forall s, gen_visitHistorically AR s = Some (hist_op s)) /\
  (forall s, gen_visitEventually AR s = Some (ev_op s)) /\ (forall s, gen_visitAlways AR s = Some (alw_op s)) /\
  (forall l r, gen_since_operation AR l r = since_op l r) /\ (forall l r, gen_until_operation AR l r = until_op l r) /\
  (forall l r, gen_visitSince AR l r = since_op l r) /\ (forall l r, gen_visitUntil AR l r = until_op l r) /\
  (forall s b e, gen_once_timed_operation AR s b e = once_timed_op s b e) /\ (forall s b e, gen_historically_timed_operation AR s b e = hist_timed_op s b e) /\
  (forall s b e, gen_eventually_timed_operation AR s b e = ev_timed_op s b e) /\ (forall s b e, gen_always_timed_operation AR s b e = alw_timed_op s b e) /\
  (forall l r b e, gen_since_timed_operation AR l r b e = since_timed_op l r b e) /\
  (forall l r b e, gen_until_timed_operation AR l r b e = until_timed_op l r b e) /\
  (forall s b e, gen_visitTimedOnce AR s b e = once_timed_op s b e) /\ (forall s b e, gen_visitTimedHistorically AR s b e = hist_timed_op s b e) /\
  (forall s b e, gen_visitTimedEventually AR s b e = ev_timed_op s b e) /\ (forall s b e, gen_visitTimedAlways AR s b e = alw_timed_op s b e) /\
  (forall l r b e, gen_visitTimedSince AR l r b e = since_timed_op l r b e) /\ (forall l r b e, gen_visitTimedUntil AR l r b e = until_timed_op l r b e) /\
  ((forall x, a1 AR Neg x = neg x) ->
   (forall p W r, gen_deval AR p W = Some r -> deval AR p W = Some r) /\
   (forall p W, total_arith p = true -> gen_deval AR p W = deval AR p W)).
Proof. exact @dense_offline_gen_refines. Qed.
Print Assumptions C04_generated_visitor.

(* the four bounded window loops (two nested `while` loops on fuel and an enumerate loop each) as translated from the Python text:
   the hand models once_timed_op / hist_timed_op / ev_timed_op / alw_timed_op of C04_visitor, None (IndexError, a stamp +inf where a
   finite one is stored) included; the fuel the translator allots (1 + len(input), 1 + len(out)) is never exhausted *)
Theorem C04_generated_windows :
  forall (VS : Val) (AR : Arith VS),
  (forall s b e, gen_once_timed_operation AR s b e = once_timed_op s b e) /\
  (forall s b e, gen_historically_timed_operation AR s b e = hist_timed_op s b e) /\
  (forall s b e, gen_eventually_timed_operation AR s b e = ev_timed_op s b e) /\
  (forall s b e, gen_always_timed_operation AR s b e = alw_timed_op s b e).
Proof. exact @dense_offline_gen_windows. Qed.
Print Assumptions C04_generated_windows.

(* the generated visitor on the non-vacuity example of C04_visitor: the same list *)
Example C04_generated_visitor_nonvacuous :
  let W : list (@dsig ExtZVal) := [[(0, Fin 3); (4, Fin 1); (9, Fin 5)]; [(0, Fin 2); (4, Fin 2); (6, Fin 0)]] in
  let p : @formula ExtZVal := UntilT 1 3 (OnceT 1 2 (Pred CGeq (Var 0) (Const (Fin 2)))) (AlwT 0 2 (SinceT 0 3 (Var 1) (Pred CLt (Var 1) (Var 0)))) in
  gen_deval ExtZArith p W = Some [(0, NegInf); (1, Fin 1); (3, Fin 0); (5, Fin (-1)); (10, Fin 0)].
Proof. vm_compute. reflexivity. Qed.
(* ---------------- intersection() as GENERATED from the Python text (MergeGen.v) ---------------- *)
Theorem C04_generated_merge :
  forall (VS : Val) (AR : Arith VS),
  (* _append *)
  (forall (B : Type) (beq : B -> B -> bool) out item, gen_off_append tz B beq out item = Ok (append_g B beq out item)) /\
  (* intersection(), any result type: no NoFuel, Raise exactly when the model says 'Unexpected case', same samples, last = [] *)
  (forall (B : Type) (beq : B -> B -> bool) (f : V -> V -> B) (s1 s2 : dsig),
     rmap (fun r => (finite_g B (fst (fst (fst r))), snd (fst (fst r)))) (gen_off_intersection tz tlt teq TInf B beq f (map inj s1) (map inj s2))
     = rlift (option_map (fun o => (o, None)) (isect_g B beq f s1 s2))) /\
  (* the point-wise operators: the model of C04_merge *)
  (forall (f : V -> V -> V) (s1 s2 : dsig),
     rmap (fun r => (finite (fst (fst (fst r))), snd (fst (fst r)))) (gen_off_intersection tz tlt teq TInf V veq f (map inj s1) (map inj s2))
     = rlift (option_map (fun o => (o, None)) (isect f s1 s2))) /\
  (* since / until *)
  (forall s1 s2 : dsig,
     rmap (fun r => (finite_g (V * V) (fst (fst (fst r))), snd (fst (fst r))))
          (gen_off_intersection tz tlt teq TInf (V * V) peq gen_off_m_split (map inj s1) (map inj s2))
     = rlift (option_map (fun o => (o, None)) (split_isect s1 s2))) /\
  (* the functions handed to intersection(): those of DenseVisitor.deval_pk *)
  gen_off_m_conjunction AR = vmin /\ gen_off_m_disjunction AR = vmax /\ gen_off_m_implication AR = (fun l r => vmax (neg l) r) /\
  gen_off_m_iff AR = (fun l r => neg (a1 AR Abs (a2 AR Sub l r))) /\ gen_off_m_xor AR = (fun l r => a1 AR Abs (a2 AR Sub l r)) /\
  gen_off_m_addition AR = a2 AR Add /\ gen_off_m_subtraction AR = a2 AR Sub /\ gen_off_m_multiplication AR = a2 AR Mul /\
  gen_off_m_division AR = a2 AR Div /\ @gen_off_m_split VS = (fun a b => (a, b)).
Proof. exact @merge_gen_off_refines. Qed.
Print Assumptions C04_generated_merge.
