(* C04 — dense-time offline robustness equals the dense-time STL semantics.

   Full statement (decided by the correspondence check harness/c04.py against
   the tick semantics DenseSem.rhoZ, for every generated specification and
   signal set):
       forall p W t, dstart W p <= t ->
         den (evaluate p W) t = rhoZ W tend p t   /\  stamps non-decreasing
         /\ first stamp = dstart W p.

   Proved here, for all inputs (C04_partial: the merge that every binary
   operator, comparison, since and until goes through; the sliding-window
   algorithms of the bounded operators are covered by the correspondence
   check only):
   - C04_merge: on strictly increasing sample lists the 13-case Allen-relation
     merge of intersection.py (model DenseMerge.isect, compared with
     intersection() itself by the check) never reaches its 'Unexpected case'
     branch, returns strictly increasing stamps, and its result denotes
     exactly t |-> f (s1 t) (s2 t) on the common domain and is undefined
     before it.
   - C04_merge_starts_at_common_domain: the first stamp of the result is the
     later of the two first stamps. *)
From Coq Require Import List ZArith Lia.
From RV Require Import Val Syntax Dense DenseMerge DenseMergeCorrect ExtZ.
Import ListNotations.
Local Open Scope Z_scope.

Theorem C04_merge :
  forall (VS : Val) (f : V -> V -> V) (s1 s2 : dsig),
    dsorted s1 -> dsorted s2 ->
    exists out, isect f s1 s2 = Some out /\ dsorted out /\
      forall t, den_opt out t =
                match den_opt s1 t, den_opt s2 t with
                | Some a, Some b => Some (f a b)
                | _, _ => None
                end.
Proof. exact (fun VS f s1 s2 H1 H2 => isect_correct f s1 s2 H1 H2). Qed.
Print Assumptions C04_merge.

Theorem C04_merge_starts_at_common_domain :
  forall (VS : Val) (f : V -> V -> V) (s1 s2 out : dsig),
    dsorted s1 -> dsorted s2 -> s1 <> [] -> s2 <> [] ->
    isect f s1 s2 = Some out ->
    out <> [] /\ start out = Z.max (start s1) (start s2).
Proof. exact (fun VS f s1 s2 out => isect_start f s1 s2 out). Qed.
Print Assumptions C04_merge_starts_at_common_domain.

Example C04_nonvacuous :
  let s1 : @dsig ExtZVal := [(0, Fin 3); (4, Fin 1); (9, Fin 5)] in
  let s2 : @dsig ExtZVal := [(2, Fin 2); (4, Fin 2); (6, Fin 0)] in
  dsorted s1 /\ dsorted s2 /\
  isect vmin s1 s2 = Some [(2, Fin 2); (4, Fin 1); (6, Fin 0)].
Proof. cbv zeta. repeat split; try lia. Qed.
