(* C01 — discrete-time offline evaluate() = rho, one pair per sample,
   independent of the numeric time-stamps, for every formula: also for the
   precedes[b,e] nodes pastify() creates.  Property theorems only. *)
From Coq Require Import List Arith ZArith.
From RV Require Import Val Syntax Rho Offline ListFacts OfflineCorrect ExtZ PySem OfflineGen OfflineGenEval OfflineGenCorrect.
Import ListNotations.

(* the list program of every visitX equals the README robustness, for every
   value domain, arithmetic, predicate semantics, formula and trace *)
Theorem C01_rho :
  forall (VS : Val) (AR : Arith VS) (pk : formula -> formula -> pkind)
         (p : formula) (w : trace) (n : nat),
    1 <= n -> wf_bounds p = true -> wf_trace p w n ->
    eval_off AR pk p w n = tab (rho AR pk p w n) n.
Proof. exact @eval_off_correct. Qed.
Print Assumptions C01_rho.

(* evaluate(): exactly one (time-stamp, value) pair per sample; the values do
   not depend on the time-stamps (ts ranges over lists of any type) *)
Theorem C01_evaluate :
  forall (VS : Val) (AR : Arith VS) (pk : formula -> formula -> pkind) (T : Type)
         (p : formula) (ts : list T) (w : trace),
    1 <= length ts -> wf_bounds p = true -> wf_trace p w (length ts) ->
    evaluate AR pk p ts w = Ok (combine ts (tab (rho AR pk p w (length ts)) (length ts))).
Proof. exact @evaluate_correct. Qed.
Print Assumptions C01_evaluate.

Theorem C01_one_pair_per_sample :
  forall (VS : Val) (AR : Arith VS) (pk : formula -> formula -> pkind) (T : Type)
         (p : formula) (ts : list T) (w : trace) r,
    1 <= length ts -> wf_bounds p = true -> wf_trace p w (length ts) ->
    evaluate AR pk p ts w = Ok r -> map fst r = ts /\ length r = length ts.
Proof. exact @evaluate_pairs. Qed.
Print Assumptions C01_one_pair_per_sample.

(* non-vacuity: the hypotheses are met by a nested formula on a 1-sample and a
   7-sample trace, and the two sides really compute *)
Example C01_nonvacuous :
  let p : @formula ExtZVal :=
    Until (OnceT 1 2 (Pred CGeq (Var 0) (Const (Fin 1)))) (AlwT 0 3 (Not (Pred CLt (A1 Neg (Var 1)) (Var 0)))) in
  let w1 := [[Fin 3]; [Fin (-2)]] in
  let w7 := [[Fin 3; Fin 0; Fin (-1); Fin 4; Fin 2; Fin 2; Fin (-5)];
             [Fin (-2); Fin 1; Fin 0; Fin 0; Fin 7; Fin (-3); Fin 1]] in
  (1 <= 1 /\ wf_bounds p = true /\ wf_trace p w1 1) /\
  (1 <= 7 /\ wf_bounds p = true /\ wf_trace p w7 7) /\
  eval_off ExtZArith (fun _ _ => PStd) p w7 7 = [Fin (-4); Fin (-1); Fin (-1); Fin (-1); Fin 3; Fin 3; Fin 4].
Proof.
  assert (W : forall (p : @formula ExtZVal) w n, nvars p = 2 ->
              length (nth 0 w []) = n -> length (nth 1 w []) = n -> wf_trace p w n).
  { intros p w n Hp H0 H1 x Hx. rewrite Hp in Hx.
    destruct x as [|[|x]]; [exact H0|exact H1|]. exfalso.
    apply PeanoNat.Nat.succ_lt_mono, PeanoNat.Nat.succ_lt_mono in Hx. inversion Hx. }
  cbv zeta. repeat split; try reflexivity; try (apply W; reflexivity); repeat constructor.
Qed.

(* the same on a pastified specification: p is what pastify() makes of
   ((x >= 1) until[1:2] y) until[0:1] (not x); the 7 values are those evaluate() returns for it *)
Example C01_nonvacuous_precedes :
  let p : @formula ExtZVal :=
    Precedes 0 1 (Precedes 1 2 (Pred CGeq (Var 0) (Const (Fin 1))) (Var 1)) (OnceT 2 2 (Not (Var 0))) in
  let w1 := [[Fin 3]; [Fin (-2)]] in
  let w7 := [[Fin 3; Fin 0; Fin (-1); Fin 4; Fin 2; Fin 2; Fin (-5)];
             [Fin (-2); Fin 1; Fin 0; Fin 0; Fin 7; Fin (-3); Fin 1]] in
  (1 <= 1 /\ wf_bounds p = true /\ wf_trace p w1 1) /\
  (1 <= 7 /\ wf_bounds p = true /\ wf_trace p w7 7) /\
  no_precedes p = false /\
  eval_off ExtZArith (fun _ _ => PStd) p w1 1 = tab (rho ExtZArith (fun _ _ => PStd) p w1 1) 1 /\
  eval_off ExtZArith (fun _ _ => PStd) p w7 7 = [NegInf; NegInf; Fin (-3); Fin 0; Fin 0; Fin 1; Fin (-2)].
Proof.
  assert (W : forall (p : @formula ExtZVal) w n, nvars p = 2 ->
              length (nth 0 w []) = n -> length (nth 1 w []) = n -> wf_trace p w n).
  { intros p w n Hp H0 H1 x Hx. rewrite Hp in Hx.
    destruct x as [|[|x]]; [exact H0|exact H1|]. exfalso.
    apply PeanoNat.Nat.succ_lt_mono, PeanoNat.Nat.succ_lt_mono in Hx. inversion Hx. }
  cbv zeta. repeat split; try reflexivity; try (apply W; reflexivity); repeat constructor.
Qed.

(* the same for what the code says NOW: OfflineGen.v is regenerated from the text of
   rtamt/semantics/stl/discrete_time/offline/ast_visitor.py on every build (tools/py2coq_offline.py, fail-closed);
   eval_gen dispatches over the generated visit methods.  No method raises (Some), the column is the hand model's
   and the README robustness.  [a1 AR Neg = neg]: the visitor computes arithmetic negation and `not` with the same `-x`. *)
Theorem C01_generated_visitor :
  forall (VS : Val) (AR : Arith VS) (p : formula) (w : trace) (n : nat),
    1 <= n -> wf_bounds p = true -> wf_trace p w n -> (forall x, a1 AR Neg x = neg x) ->
    eval_gen AR p w n = Some (eval_off AR (fun _ _ => PStd) p w n) /\
    eval_gen AR p w n = Some (tab (rho AR (fun _ _ => PStd) p w n) n).
Proof. exact @offline_gen_refines. Qed.
Print Assumptions C01_generated_visitor.

Theorem C01_generated_evaluate :
  forall (VS : Val) (AR : Arith VS) (T : Type) (p : formula) (ts : list T) (w : trace),
    1 <= length ts -> wf_bounds p = true -> wf_trace p w (length ts) -> (forall x, a1 AR Neg x = neg x) ->
    evaluate_gen AR p ts w = evaluate AR (fun _ _ => PStd) p ts w /\
    evaluate_gen AR p ts w = Ok (combine ts (tab (rho AR (fun _ _ => PStd) p w (length ts)) (length ts))).
Proof. exact @evaluate_gen_refines. Qed.
Print Assumptions C01_generated_evaluate.

(* non-vacuity: the extra hypothesis holds for the executable arithmetic, and the generated visitor really computes
   the 7 values of C01_nonvacuous; outside the hypotheses the generated code raises where Python raises *)
Example C01_generated_nonvacuous :
  let p : @formula ExtZVal :=
    Until (OnceT 1 2 (Pred CGeq (Var 0) (Const (Fin 1)))) (AlwT 0 3 (Not (Pred CLt (A1 Neg (Var 1)) (Var 0)))) in
  let w7 := [[Fin 3; Fin 0; Fin (-1); Fin 4; Fin 2; Fin 2; Fin (-5)];
             [Fin (-2); Fin 1; Fin 0; Fin 0; Fin 7; Fin (-3); Fin 1]] in
  (forall x, a1 ExtZArith Neg x = neg x) /\
  eval_gen ExtZArith p w7 7 = Some [Fin (-4); Fin (-1); Fin (-1); Fin (-1); Fin 3; Fin 3; Fin 4] /\
  gen_visitTimedOnce 2 1 [Fin 1; Fin 2] = None /\                       (* begin > end: max() of an empty slice *)
  gen_visitAddition ExtZArith [Fin 1; Fin 2] [Fin 1] = None.            (* operand columns of different lengths: IndexError *)
Proof. cbv zeta. repeat split; reflexivity. Qed.

(* outside wf_bounds (begin > end, which the parser rejects) the hand model is NOT the code: the generated visitor shows what
   Python does there (an exception of max() on an empty slice; an empty range(end-begin+1)), the totalised hand model something else.
   This is why C01_generated_visitor, like C01_rho, carries wf_bounds. *)
Example C01_hand_model_differs_outside_wf_bounds :
  let w := [[Fin 1; Fin 2; Fin 3]] in
  eval_gen ExtZArith (OnceT 2 1 (Var 0)) w 3 = None /\
  eval_off ExtZArith (fun _ _ => PStd) (OnceT 2 1 (Var 0)) w 3 = [NegInf; NegInf; NegInf] /\
  eval_gen ExtZArith (SinceT 2 1 (Var 0) (Var 0)) w 3 = Some [NegInf; NegInf; NegInf] /\
  eval_off ExtZArith (fun _ _ => PStd) (SinceT 2 1 (Var 0) (Var 0)) w 3 = [NegInf; Fin 1; Fin 2].
Proof. cbv zeta. repeat split; reflexivity. Qed.
