(* C01 — discrete-time offline evaluate() = rho, one pair per sample,
   independent of the numeric time-stamps, for every formula: also for the
   precedes[b,e] nodes pastify() creates.  Property theorems only. *)
From Coq Require Import List Arith ZArith.
From RV Require Import Val Syntax Rho Offline ListFacts OfflineCorrect ExtZ.
Import ListNotations.

(* the list program of every visitX equals the README robustness, for every
   value domain, arithmetic, predicate semantics, formula and trace *)
Theorem C01_rho :
  forall (VS : Val) (AR : Arith VS) (pk : formula -> formula -> pkind)
         (p : formula) (w : trace) (n : nat),
    1 <= n -> wf_bounds p = true -> wf_trace p w n ->
    eval_off AR pk p w n = tab (rho AR pk p w n) n.
Proof. exact @eval_off_correct. Qed.
Print Assumptions C01_rho.

(* evaluate(): exactly one (time-stamp, value) pair per sample; the values do
   not depend on the time-stamps (ts ranges over lists of any type) *)
Theorem C01_evaluate :
  forall (VS : Val) (AR : Arith VS) (pk : formula -> formula -> pkind) (T : Type)
         (p : formula) (ts : list T) (w : trace),
    1 <= length ts -> wf_bounds p = true -> wf_trace p w (length ts) ->
    evaluate AR pk p ts w = Ok (combine ts (tab (rho AR pk p w (length ts)) (length ts))).
Proof. exact @evaluate_correct. Qed.
Print Assumptions C01_evaluate.

Theorem C01_one_pair_per_sample :
  forall (VS : Val) (AR : Arith VS) (pk : formula -> formula -> pkind) (T : Type)
         (p : formula) (ts : list T) (w : trace) r,
    1 <= length ts -> wf_bounds p = true -> wf_trace p w (length ts) ->
    evaluate AR pk p ts w = Ok r -> map fst r = ts /\ length r = length ts.
Proof. exact @evaluate_pairs. Qed.
Print Assumptions C01_one_pair_per_sample.

(* non-vacuity: the hypotheses are met by a nested formula on a 1-sample and a
   7-sample trace, and the two sides really compute *)
Example C01_nonvacuous :
  let p : @formula ExtZVal :=
    Until (OnceT 1 2 (Pred CGeq (Var 0) (Const (Fin 1)))) (AlwT 0 3 (Not (Pred CLt (A1 Neg (Var 1)) (Var 0)))) in
  let w1 := [[Fin 3]; [Fin (-2)]] in
  let w7 := [[Fin 3; Fin 0; Fin (-1); Fin 4; Fin 2; Fin 2; Fin (-5)];
             [Fin (-2); Fin 1; Fin 0; Fin 0; Fin 7; Fin (-3); Fin 1]] in
  (1 <= 1 /\ wf_bounds p = true /\ wf_trace p w1 1) /\
  (1 <= 7 /\ wf_bounds p = true /\ wf_trace p w7 7) /\
  eval_off ExtZArith (fun _ _ => PStd) p w7 7 = [Fin (-4); Fin (-1); Fin (-1); Fin (-1); Fin 3; Fin 3; Fin 4].
Proof.
  assert (W : forall (p : @formula ExtZVal) w n, nvars p = 2 ->
              length (nth 0 w []) = n -> length (nth 1 w []) = n -> wf_trace p w n).
  { intros p w n Hp H0 H1 x Hx. rewrite Hp in Hx.
    destruct x as [|[|x]]; [exact H0|exact H1|]. exfalso.
    apply PeanoNat.Nat.succ_lt_mono, PeanoNat.Nat.succ_lt_mono in Hx. inversion Hx. }
  cbv zeta. repeat split; try reflexivity; try (apply W; reflexivity); repeat constructor.
Qed.

(* the same on a pastified specification: p is what pastify() makes of
   ((x >= 1) until[1:2] y) until[0:1] (not x); the 7 values are those evaluate() returns for it *)
Example C01_nonvacuous_precedes :
  let p : @formula ExtZVal :=
    Precedes 0 1 (Precedes 1 2 (Pred CGeq (Var 0) (Const (Fin 1))) (Var 1)) (OnceT 2 2 (Not (Var 0))) in
  let w1 := [[Fin 3]; [Fin (-2)]] in
  let w7 := [[Fin 3; Fin 0; Fin (-1); Fin 4; Fin 2; Fin 2; Fin (-5)];
             [Fin (-2); Fin 1; Fin 0; Fin 0; Fin 7; Fin (-3); Fin 1]] in
  (1 <= 1 /\ wf_bounds p = true /\ wf_trace p w1 1) /\
  (1 <= 7 /\ wf_bounds p = true /\ wf_trace p w7 7) /\
  no_precedes p = false /\
  eval_off ExtZArith (fun _ _ => PStd) p w1 1 = tab (rho ExtZArith (fun _ _ => PStd) p w1 1) 1 /\
  eval_off ExtZArith (fun _ _ => PStd) p w7 7 = [NegInf; NegInf; Fin (-3); Fin 0; Fin 0; Fin 1; Fin (-2)].
Proof.
  assert (W : forall (p : @formula ExtZVal) w n, nvars p = 2 ->
              length (nth 0 w []) = n -> length (nth 1 w []) = n -> wf_trace p w n).
  { intros p w n Hp H0 H1 x Hx. rewrite Hp in Hx.
    destruct x as [|[|x]]; [exact H0|exact H1|]. exfalso.
    apply PeanoNat.Nat.succ_lt_mono, PeanoNat.Nat.succ_lt_mono in Hx. inversion Hx. }
  cbv zeta. repeat split; try reflexivity; try (apply W; reflexivity); repeat constructor.
Qed.
