From RV Require Import Val Syntax Rho Offline.
Theorem C01_placeholder : True. Proof. exact I. Qed.
Print Assumptions C01_placeholder.
