(* C09 — a modular specification is equivalent to its inlined form: the
   forest of all assertions (sub-specifications are roots AND sub-trees of
   their users, sharing operators through the dictionary) returns what the
   single inlined specification returns. *)
From Coq Require Import List Arith ZArith.
From RV Require Import Val Syntax Rho Offline ListFacts OfflineCorrect Online OnlineCorrect Shell Pastify PastifyCorrect ExtZ.
Import ListNotations.

(* online: every update of the forest returns what the inlined monitor returns *)
Theorem C09_online :
  forall (VS : Val) (AR : Arith VS) (pk : formula -> formula -> pkind) (w : trace) (n : nat)
         (consts : list (nat * V)) (P : program) (len : nat),
    P <> [] ->
    (forall p, In p (elab consts [] P) -> past_only p = true /\ wf_bounds p = true) ->
    snd (mon_run AR pk (elab consts [] P) dict_init w 0 len) =
    snd (mon_run AR pk [inline consts P] dict_init w 0 len).
Proof.
  intros VS AR pk w n consts P len Hne HF.
  assert (HF' : elab consts [] P <> []) by (destruct P as [|[nm b] P']; [congruence|discriminate]).
  rewrite (online_correct AR pk w n (elab consts [] P) len HF' HF).
  rewrite (online_correct AR pk w n [inline consts P] len); [reflexivity|discriminate|].
  intros x [<-|[]]. apply HF. unfold inline.
  destruct (exists_last HF') as (l & a & E). rewrite E, last_last. apply in_or_app. right. left. reflexivity.
Qed.
Print Assumptions C09_online.

(* offline: visitAst evaluates every assertion; evaluate() returns the last one *)
Theorem C09_offline :
  forall (VS : Val) (AR : Arith VS) (pk : formula -> formula -> pkind) (w : trace) (n : nat)
         (consts : list (nat * V)) (P : program),
    last (map (fun p => eval_off AR pk p w n) (elab consts [] P)) [] = eval_off AR pk (inline consts P) w n
    \/ P = [].
Proof.
  intros. destruct P as [|a P']; [right; reflexivity|left].
  assert (HF' : elab consts [] (a :: P') <> []) by (destruct a; discriminate).
  unfold inline. rewrite (last_map (fun p => eval_off AR pk p w n) _ (Const bot) [] HF'). reflexivity.
Qed.
Print Assumptions C09_offline.

(* pastify works on the forest after name resolution, so modular and inlined forms pastify alike *)
Theorem C09_pastify :
  forall (VS : Val) (dk : delay_kind) (consts : list (nat * V)) (P : program),
    last (map (fun p => pastify dk p (hor p)) (elab consts [] P)) (Const bot) =
    pastify dk (inline consts P) (hor (inline consts P)) \/ P = [].
Proof.
  intros. destruct P as [|a P']; [right; reflexivity|left].
  assert (HF' : elab consts [] (a :: P') <> []) by (destruct a; discriminate).
  unfold inline. rewrite (last_map (fun p => pastify dk p (hor p)) _ (Const bot) (Const bot) HF'). reflexivity.
Qed.
Print Assumptions C09_pastify.

Example C09_nonvacuous :
  (* sp = prev(x0 >= c);  out = (sp since sp) and once(sp)   with c a declared constant (identifier 7), sp identifier 5 *)
  let consts := [(7, Fin 1)] in
  let P : @program ExtZVal := [(5, Prev (Pred CGeq (Var 0) (Var 7))); (6, And (Since (Var 5) (Var 5)) (Once (Var 5)))] in
  let w := [[Fin 3; Fin 0; Fin (-1); Fin 4]] in
  inline consts P = And (Since (Prev (Pred CGeq (Var 0) (Const (Fin 1)))) (Prev (Pred CGeq (Var 0) (Const (Fin 1))))) (Once (Prev (Pred CGeq (Var 0) (Const (Fin 1))))) /\
  snd (mon_run ExtZArith (fun _ _ => PStd) (elab consts [] P) dict_init w 0 4) = [PosInf; Fin 2; Fin (-1); Fin (-2)].
Proof. cbv zeta. split; vm_compute; reflexivity. Qed.

(* ------------------------------------------------------------------ *)
(* dense time, online (models DenseOnlineMon.v / DenseOnlineForest.v)  *)
(* ------------------------------------------------------------------ *)
From RV Require Dense DenseSem DenseMerge DenseMergeCorrect DenseOnlineMergeCorrect DenseOnlineMon DenseOnlineMonCorrect DenseOnlineMonMore DenseIA
  DenseOnlineForest DenseOnlineForestCorrect.

(* EVERY program (no fragment, any predicate kinds), every sequence of updates: when every assertion is a sub-formula of
   the main one (every sub-specification is used, directly or through other sub-specifications; a sub-formula used
   several times has ONE operation, stepped once per update), the dense-time online monitor of the program returns at
   every update the list the monitor of the inlined specification returns, and raises in the same runs.
   [None] is an exception; option_map snd forgets the final operator dictionary. *)
Theorem C09_dense_online :
  forall (VS : Val) (AR : Arith VS) (pk : formula -> formula -> pkind)
         (consts : list (nat * V)) (P : program) (envs : list (list Dense.dsig)),
    P <> [] ->
    (forall p, In p (elab consts [] P) -> In p (DenseOnlineMonCorrect.subs (inline consts P))) ->
    option_map snd (DenseOnlineForest.forest_run_out AR pk (elab consts [] P) (DenseOnlineForest.forest_init (elab consts [] P)) envs) =
    option_map snd (DenseOnlineMon.mon_run AR pk (inline consts P) (DenseOnlineMon.mon_init (inline consts P)) envs).
Proof.
  intros VS AR pk consts P envs Hne Hused.
  assert (HF' : elab consts [] P <> []) by (destruct P as [|[nm b] P']; [congruence|discriminate]).
  exact (DenseOnlineForestCorrect.forest_inlined AR pk (elab consts [] P) envs HF' Hused).
Qed.
Print Assumptions C09_dense_online.

(* without the hypothesis that every sub-specification is used: whenever the program returns, it returns what the
   inlined specification returns (a sub-specification nobody uses is still evaluated and may raise: C09_dense_unused_assertion_raises) *)
Theorem C09_dense_online_any :
  forall (VS : Val) (AR : Arith VS) (pk : formula -> formula -> pkind)
         (consts : list (nat * V)) (P : program) (envs : list (list Dense.dsig)) d outs,
    P <> [] ->
    DenseOnlineForest.forest_run_out AR pk (elab consts [] P) (DenseOnlineForest.forest_init (elab consts [] P)) envs = Some (d, outs) ->
    option_map snd (DenseOnlineMon.mon_run AR pk (inline consts P) (DenseOnlineMon.mon_init (inline consts P)) envs) = Some outs.
Proof.
  intros VS AR pk consts P envs d outs Hne E.
  assert (HF' : elab consts [] P <> []) by (destruct P as [|[nm b] P']; [congruence|discriminate]).
  exact (DenseOnlineForestCorrect.forest_inlined_ok AR pk (elab consts [] P) envs d outs HF' E).
Qed.
Print Assumptions C09_dense_online_any.

(* programs in the proved fragment of the dense online monitor (every assertion in frag2, sqrt / ln never raise: the
   hypotheses of C05_monitor_general / C05_monitor_closed on every assertion): no update raises, used or not *)
Theorem C09_dense_online_frag :
  forall (VS : Val) (AR : Arith VS) (pk : formula -> formula -> pkind),
    (forall f g, pk f g = PStd) \/ DenseIA.DiffLaws AR -> (forall l r : V, neg (a2 AR Sub l r) = a2 AR Sub r l) ->
    forall (consts : list (nat * V)) (P : program) (W : list Dense.dsig) (tend : Z) (envs : list (list Dense.dsig)),
      (forall x, DenseOnlineMonCorrect.feedsI [] (map (fun env => nth x env []) envs) (nth x W [])) ->
      (forall x, DenseMergeCorrect.dsorted (nth x W [])) ->
      (forall x, nth x W [] <> [] -> Dense.start (nth x W []) = 0%Z) ->
      P <> [] ->
      (forall p, In p (elab consts [] P) -> DenseOnlineMonMore.frag2 p = true /\ DenseOnlineMonMore.safe AR pk W tend p) ->
      exists d d' outs,
        DenseOnlineForest.forest_run_out AR pk (elab consts [] P) (DenseOnlineForest.forest_init (elab consts [] P)) envs = Some (d, outs) /\
        DenseOnlineMon.mon_run AR pk (inline consts P) (DenseOnlineMon.mon_init (inline consts P)) envs = Some (d', outs).
Proof.
  intros VS AR pk HDL SubNeg consts P W tend envs Hfeed HWs HW0 Hne HF.
  assert (HF' : elab consts [] P <> []) by (destruct P as [|[nm b] P']; [congruence|discriminate]).
  exact (DenseOnlineForestCorrect.forest_online_out AR pk HDL SubNeg (elab consts [] P) W tend envs Hfeed HWs HW0 HF' HF).
Qed.
Print Assumptions C09_dense_online_frag.

(* the literal property fails for a sub-specification nobody uses: it is evaluated at every update, and when it raises
   (sqrt of a negative sample) update() raises, whereas the inlined specification, which does not contain it, returns.
   sp = (sqrt(x0) >= 0);  out = (x0 >= 1)  on the single sample x0(0) = -1 *)
Example C09_dense_unused_assertion_raises :
  let P : @program ExtZVal := [(5, Pred CGeq (A1 Sqrt (Var 0)) (Const (Fin 0))); (6, Pred CGeq (Var 0) (Const (Fin 1)))] in
  let F := elab [] [] P in
  let envs := [[[(0%Z, Fin (-1))]]] in
  option_map snd (DenseOnlineForest.forest_run_out ExtZArith (fun _ _ => PStd) F (DenseOnlineForest.forest_init F) envs) = None /\
  option_map snd (DenseOnlineMon.mon_run ExtZArith (fun _ _ => PStd) (inline [] P) (DenseOnlineMon.mon_init (inline [] P)) envs)
    = Some [[(DenseMerge.T 0%Z, Fin (-2))]].
Proof. cbv zeta. split; vm_compute; reflexivity. Qed.

Example C09_dense_nonvacuous :
  (* sp = once[0,2](x0 >= c);  out = (sp since sp) and not(sp)  with c a declared constant, fed in two updates *)
  let consts := [(7, Fin 1)] in
  let P : @program ExtZVal := [(5, OnceT 0 2 (Pred CGeq (Var 0) (Var 7))); (6, And (Since (Var 5) (Var 5)) (Not (Var 5)))] in
  let F := elab consts [] P in
  let envs := [[[(0%Z, Fin 3); (2%Z, Fin 0)]]; [[(5%Z, Fin (-1)); (6%Z, Fin 4)]]] in
  (forall p, In p F -> In p (DenseOnlineMonCorrect.subs (inline consts P))) /\
  option_map snd (DenseOnlineForest.forest_run_out ExtZArith (fun _ _ => PStd) F (DenseOnlineForest.forest_init F) envs)
    = Some [[(DenseMerge.T 0%Z, Fin (-2))]; [(DenseMerge.T 4%Z, Fin (-1))]].
Proof.
  cbv zeta. split.
  - intros p Hp. vm_compute in Hp. vm_compute. tauto.
  - vm_compute. reflexivity.
Qed.
