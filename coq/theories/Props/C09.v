(* C09 — a modular specification is equivalent to its inlined form: the
   forest of all assertions (sub-specifications are roots AND sub-trees of
   their users, sharing operators through the dictionary) returns what the
   single inlined specification returns. *)
From Coq Require Import List Arith ZArith.
From RV Require Import Val Syntax Rho Offline ListFacts OfflineCorrect Online OnlineCorrect Shell Pastify PastifyCorrect ExtZ.
Import ListNotations.

(* online: every update of the forest returns what the inlined monitor returns *)
Theorem C09_online :
  forall (VS : Val) (AR : Arith VS) (pk : formula -> formula -> pkind) (w : trace) (n : nat)
         (consts : list (nat * V)) (P : program) (len : nat),
    P <> [] ->
    (forall p, In p (elab consts [] P) -> past_only p = true /\ wf_bounds p = true) ->
    snd (mon_run AR pk (elab consts [] P) dict_init w 0 len) =
    snd (mon_run AR pk [inline consts P] dict_init w 0 len).
Proof.
  intros VS AR pk w n consts P len Hne HF.
  assert (HF' : elab consts [] P <> []) by (destruct P as [|[nm b] P']; [congruence|discriminate]).
  rewrite (online_correct AR pk w n (elab consts [] P) len HF' HF).
  rewrite (online_correct AR pk w n [inline consts P] len); [reflexivity|discriminate|].
  intros x [<-|[]]. apply HF. unfold inline.
  destruct (exists_last HF') as (l & a & E). rewrite E, last_last. apply in_or_app. right. left. reflexivity.
Qed.
Print Assumptions C09_online.

(* offline: visitAst evaluates every assertion; evaluate() returns the last one *)
Theorem C09_offline :
  forall (VS : Val) (AR : Arith VS) (pk : formula -> formula -> pkind) (w : trace) (n : nat)
         (consts : list (nat * V)) (P : program),
    last (map (fun p => eval_off AR pk p w n) (elab consts [] P)) [] = eval_off AR pk (inline consts P) w n
    \/ P = [].
Proof.
  intros. destruct P as [|a P']; [right; reflexivity|left].
  assert (HF' : elab consts [] (a :: P') <> []) by (destruct a; discriminate).
  unfold inline. rewrite (last_map (fun p => eval_off AR pk p w n) _ (Const bot) [] HF'). reflexivity.
Qed.
Print Assumptions C09_offline.

(* pastify works on the forest after name resolution, so modular and inlined forms pastify alike *)
Theorem C09_pastify :
  forall (VS : Val) (dk : delay_kind) (consts : list (nat * V)) (P : program),
    last (map (fun p => pastify dk p (hor p)) (elab consts [] P)) (Const bot) =
    pastify dk (inline consts P) (hor (inline consts P)) \/ P = [].
Proof.
  intros. destruct P as [|a P']; [right; reflexivity|left].
  assert (HF' : elab consts [] (a :: P') <> []) by (destruct a; discriminate).
  unfold inline. rewrite (last_map (fun p => pastify dk p (hor p)) _ (Const bot) (Const bot) HF'). reflexivity.
Qed.
Print Assumptions C09_pastify.

Example C09_nonvacuous :
  (* sp = prev(x0 >= c);  out = (sp since sp) and once(sp)   with c a declared constant (identifier 7), sp identifier 5 *)
  let consts := [(7, Fin 1)] in
  let P : @program ExtZVal := [(5, Prev (Pred CGeq (Var 0) (Var 7))); (6, And (Since (Var 5) (Var 5)) (Once (Var 5)))] in
  let w := [[Fin 3; Fin 0; Fin (-1); Fin 4]] in
  inline consts P = And (Since (Prev (Pred CGeq (Var 0) (Const (Fin 1)))) (Prev (Pred CGeq (Var 0) (Const (Fin 1))))) (Once (Prev (Pred CGeq (Var 0) (Const (Fin 1))))) /\
  snd (mon_run ExtZArith (fun _ _ => PStd) (elab consts [] P) dict_init w 0 4) = [PosInf; Fin 2; Fin (-1); Fin (-2)].
Proof. cbv zeta. split; vm_compute; reflexivity. Qed.
