(* C02 — the i-th update() of the discrete-time online monitor returns the
   offline robustness at sample i, for every forest of past-time
   specifications (so also when the same sub-formula text occurs more than
   once: the dictionary is keyed by the formula).  Property theorems only. *)
From Coq Require Import List Arith ZArith String.
From RV Require Import Val Syntax Rho Offline ListFacts OfflineCorrect Online OnlineCorrect ExtZ IA OnlineGen OnlineGenCorrect.
From RV Require Import Lexer Units NodeName NodeNameCorrect OnlineNamed OnlineNamedCorrect.
Import ListNotations.

(* every reachable monitor state: feeding rows 0..len-1 from a fresh monitor *)
Theorem C02_online :
  forall (VS : Val) (AR : Arith VS) (pk : formula -> formula -> pkind)
         (w : trace) (n : nat) (F : list formula) (len : nat),
    F <> [] -> (forall p, In p F -> past_only p = true /\ wf_bounds p = true) ->
    snd (mon_run AR pk F dict_init w 0 len) = tab (rho AR pk (last F (Const bot)) w n) len.
Proof. exact @online_correct. Qed.
Print Assumptions C02_online.

(* incremental = batch *)
Theorem C02_online_offline :
  forall (VS : Val) (AR : Arith VS) (pk : formula -> formula -> pkind)
         (w : trace) (n : nat) (p : formula),
    1 <= n -> past_only p = true -> wf_bounds p = true -> wf_trace p w n ->
    snd (mon_run AR pk [p] dict_init w 0 n) = eval_off AR pk p w n.
Proof. exact @online_offline. Qed.
Print Assumptions C02_online_offline.

(* the tie to the code: OnlineGen.v is re-generated on every build from the Python text of the *_operation.py classes
   (tools/py2coq_online.py); at every node the class the online visitor constructs for it refines op_init / ustep / bstep /
   op_reset of the hand model used above (gen_refines is the per-node simulation statement of OnlineGenCorrect.v) *)
Theorem C02_generated_operations :
  forall (VS : Val) (AR : Arith VS) (pk : formula -> formula -> pkind) (p : formula), gen_refines AR pk p.
Proof. exact @online_gen_refines. Qed.
Print Assumptions C02_generated_operations.

Example C02_nonvacuous :
  let q : @formula ExtZVal := SPrev (Pred CGeq (Var 0) (Const (Fin 1))) in
  let p := And (Since q (OnceT 1 2 q)) (Not q) in
  let w := [[Fin 3; Fin 0; Fin (-1); Fin 4; Fin 2]] in
  ([p] <> [] /\ (forall x, In x [p] -> past_only x = true /\ wf_bounds x = true)) /\
  snd (mon_run ExtZArith (fun _ _ => PStd) [p] dict_init w 0 5) = eval_off ExtZArith (fun _ _ => PStd) p w 5.
Proof.
  cbv zeta. split; [split; [discriminate|]|vm_compute; reflexivity].
  intros x [<-|[]]. split; reflexivity.
Qed.

(* The code keys the operation objects (and the per-update memo) by node.name, a text every node class builds from
   the names of its children; the model above keys them by the formula.  The two agree because the printer is
   injective: among all the nodes of all the assertions of a specification (as parse() or pastify() leaves them:
   NodeName.node, nname), two nodes with the same name are the same node -- same class, same operator, same bounds
   and units, same leaves.  nwf: a variable is an Identifier of the lexer cut at its first dot, a constant is str(float). *)
Theorem C02_names_injective :
  forall roots : list node,
    (forall r, In r roots -> nwf r = true) ->
    forall p q, In p (flat_map subnodes roots) -> In q (flat_map subnodes roots) ->
    nname p = nname q -> p = q.
Proof. exact @names_injective. Qed.
Print Assumptions C02_names_injective.

(* the generalisation that carries the induction: a name followed by ')' or ',' (or by nothing) is read in one way *)
Theorem C02_names_prefix_free :
  forall (p q : node) (r1 r2 : list Ascii.ascii),
    nwf p = true -> nwf q = true -> stop r1 -> stop r2 ->
    (to_chars (nname p) ++ r1 = to_chars (nname q) ++ r2)%list -> p = q /\ r1 = r2.
Proof. exact @nname_prefix_free. Qed.
Print Assumptions C02_names_prefix_free.

(* hence equal names denote the same formula of the model, whatever the data columns, the values of the constant
   texts, the default unit and the sampling period are *)
Theorem C02_names_determine_formula :
  forall (VS : Val) (vidx : string -> string -> nat) (cval : string -> V) (du : tunit) (per : Z) (pu : tunit)
         (roots : list node),
    (forall r, In r roots -> nwf r = true) ->
    forall p q, In p (flat_map subnodes roots) -> In q (flat_map subnodes roots) ->
    nname p = nname q -> erase vidx cval du per pu p = erase vidx cval du per pu q.
Proof. exact @names_determine_formula. Qed.
Print Assumptions C02_names_determine_formula.

(* the hypothesis on variables is what the lexer delivers: every Identifier token, cut as visitExprId cuts it *)
Theorem C02_names_lexer_identifiers :
  forall (fuel : nat) (l : chars) (ts : list token) (s : string),
    lex fuel l = Some ts -> In (TId s) ts -> nwf (var_of_ident s) = true.
Proof. exact @lex_var_wf. Qed.
Print Assumptions C02_names_lexer_identifiers.

(* The monitor as the code has it -- ONE operation object per node name, the per-update memo keyed by the name
   (OnlineNamed.v, over the syntax nodes) -- returns at the k-th update rho at sample k of the formula the last assertion
   denotes (sem: columns for variables, float(text) for constants, bounds in samples) ... *)
Theorem C02_online_named :
  forall (VS : Val) (AR : Arith VS) (pk : formula -> formula -> pkind)
         (vidx : string -> string -> nat) (cval : string -> V) (bnd : bound -> bound -> nat * nat)
         (w : trace) (n : nat) (F : list node) (len : nat),
    F <> [] ->
    (forall x, In x F -> nwf x = true /\ past_only (sem vidx cval bnd x) = true /\ wf_bounds (sem vidx cval bnd x) = true) ->
    snd (nmon_run AR pk vidx cval bnd F (ndict_init vidx cval bnd F) w 0 len)
    = tab (rho AR pk (sem vidx cval bnd (last F (NConst EmptyString))) w n) len.
Proof. exact @named_online_correct. Qed.
Print Assumptions C02_online_named.

(* ... which is what the model keyed by the formula (C02_online above) returns on the formulas the nodes denote: the
   assumption "the node printer is injective" of that model is discharged *)
Theorem C02_online_named_is_online :
  forall (VS : Val) (AR : Arith VS) (pk : formula -> formula -> pkind)
         (vidx : string -> string -> nat) (cval : string -> V) (bnd : bound -> bound -> nat * nat)
         (w : trace) (F : list node) (len : nat),
    F <> [] ->
    (forall x, In x F -> nwf x = true /\ past_only (sem vidx cval bnd x) = true /\ wf_bounds (sem vidx cval bnd x) = true) ->
    snd (nmon_run AR pk vidx cval bnd F (ndict_init vidx cval bnd F) w 0 len)
    = snd (mon_run AR pk (map (sem vidx cval bnd) F) dict_init w 0 len).
Proof. intros VS AR pk vidx cval bnd w. exact (@named_online_is_online VS AR pk vidx cval bnd w 0). Qed.
Print Assumptions C02_online_named_is_online.

Example C02_named_nonvacuous :
  let vidx := fun (v f : string) => if String.eqb v "x" then 0 else 1 in
  let cval := fun t : string => if String.eqb t "1.0" then Fin 1 else Fin 0 in
  let bnd := bnd_of US 500 UMS in     (* default unit s, sampling period 500 ms *)
  let b1 := {| bnum := 1; bden := 2; bunit := Some US |} in
  let b2 := {| bnum := 1000; bden := 1; bunit := Some UMS |} in
  let q := NUn u_sprev (NBin (b_pred CGeq) (NVar "x" "") (NConst "1.0")) in
  let p := NBin b_and (NBin b_since q (NTUn t_once b1 b2 q)) (NUn u_not q) in
  let w := [[Fin 3; Fin 0; Fin (-1); Fin 4; Fin 2]] in
  (forall x, In x [p] -> nwf x = true /\ past_only (sem vidx cval bnd x) = true /\ wf_bounds (sem vidx cval bnd x) = true) /\
  nname p = "((s_previous((x)>=(1.0)))since(once[1/2s,1000ms](s_previous((x)>=(1.0)))))and(not(s_previous((x)>=(1.0))))"%string /\
  sem vidx cval bnd p = (let q' := SPrev (Pred CGeq (Var 0) (Const (Fin 1))) in And (Since q' (OnceT 1 2 q')) (Not q')) /\
  snd (nmon_run ExtZArith (fun _ _ => PStd) vidx cval bnd [p] (ndict_init vidx cval bnd [p]) w 0 5)
  = eval_off ExtZArith (fun _ _ => PStd) (sem vidx cval bnd p) w 5.
Proof.
  cbv zeta. split; [|split; [|split]].
  - intros x [<-|[]]. repeat split; vm_compute; reflexivity.
  - vm_compute. reflexivity.
  - vm_compute. reflexivity.
  - vm_compute. reflexivity.
Qed.

(* ---- the visitors of the online interpreter, re-generated from the Python text on every build (tools/py2coq_onlinevisitor.py,
   OnlineVisitorGen.v): for every node class, the construction visitor stores an object of the operation class whose generated
   update / reset refine ustep / bstep / op_reset of the hand model at that node (and rejects the node classes that the model
   excludes), i.e. the dispatch "node class -> operation class -> method" of OnlineNamed.v is the one of the code ---- *)
From RV Require Import OnlineVisitorGen OnlineVisitorGenCorrect.
(* per node class (the lemma the tree induction rests on) *)
Theorem C02_generated_monitor_classes : onlinevisitor_gen_statement.
Proof. exact @onlinevisitor_gen_refines. Qed.
Print Assumptions C02_generated_monitor_classes.

(* the whole generated monitor: on a well-formed specification without future operators, with ordered bounds, whose bounds
   time_unit_transformer converts as the model's bnd says, the generated set_ast succeeds, and len generated update() calls (the
   construction visitor, then the update visitor with its `visited` memo over the forest, `rob[len(rob) - 1]`) return exactly the
   verdicts of the hand monitor keyed by node name ... *)
Theorem C02_generated_monitor :
  forall (VS : Val) (AR : Arith VS) (vidx : string -> string -> nat) (cval : string -> V) (bnd : bound -> bound -> nat * nat)
         (tut : bound -> bound -> option (Z * Z)) (F : list node) (w : trace) (vobjs : nat -> string -> string -> option V) (len : nat),
    F <> [] ->
    (forall x, In x F -> nwf x = true /\ past_only (sem vidx cval bnd x) = true /\ wf_bounds (sem vidx cval bnd x) = true) ->
    (forall a, DN F a -> tut_ok bnd tut a) ->
    (forall k v f, vobjs k v f = Some (sig w (vidx v f) k)) ->
    exists gd0, gen_set_ast tut F = Some gd0 /\
    exists gd1, gen_run AR cval vobjs F gd0 0 len
                = Some (gd1, snd (nmon_run AR pk0 vidx cval bnd F (ndict_init vidx cval bnd F) w 0 len)).
Proof. exact @gen_monitor_refines. Qed.
Print Assumptions C02_generated_monitor.

(* ... hence the robustness of the last assertion at samples 0 .. len-1 (with C02_online_named) *)
Theorem C02_generated_monitor_rho :
  forall (VS : Val) (AR : Arith VS) (vidx : string -> string -> nat) (cval : string -> V) (bnd : bound -> bound -> nat * nat)
         (tut : bound -> bound -> option (Z * Z)) (F : list node) (w : trace) (n : nat) (vobjs : nat -> string -> string -> option V) (len : nat),
    F <> [] ->
    (forall x, In x F -> nwf x = true /\ past_only (sem vidx cval bnd x) = true /\ wf_bounds (sem vidx cval bnd x) = true) ->
    (forall a, DN F a -> tut_ok bnd tut a) ->
    (forall k v f, vobjs k v f = Some (sig w (vidx v f) k)) ->
    exists gd0 gd1, gen_set_ast tut F = Some gd0 /\
      gen_run AR cval vobjs F gd0 0 len = Some (gd1, tab (rho AR pk0 (sem vidx cval bnd (last F (NConst EmptyString))) w n) len).
Proof.
  intros VS AR vidx cval bnd tut F w n vobjs len Hne HF Ht Hv.
  destruct (gen_monitor_refines AR vidx cval bnd tut F w vobjs len Hne HF Ht Hv) as (gd0 & E0 & gd1 & E1).
  exists gd0, gd1. split; [exact E0|]. rewrite E1. rewrite (named_online_correct AR pk0 vidx cval bnd w n F len Hne HF). reflexivity.
Qed.
Print Assumptions C02_generated_monitor_rho.

(* a rejected specification: a node class the online monitor does not implement anywhere in a root makes set_ast raise *)
Theorem C02_generated_monitor_rejects :
  forall (VS : Val) (vidx : string -> string -> nat) (cval : string -> V) (bnd : bound -> bound -> nat * nat)
         (tut : bound -> bound -> option (Z * Z)) (x : node),
    past_only (sem vidx cval bnd x) = false -> forall gd, gen_construct tut x gd = None.
Proof. intros. eapply gen_construct_rejects. eassumption. Qed.
Print Assumptions C02_generated_monitor_rejects.

(* ... and on the specification of C02_named_nonvacuous (a shared sub-formula: the `visited` memo is hit; a bounded operator with
   units) the generated set_ast / update run end to end: the same five verdicts as the hand monitor, also after the generated reset *)
Example C02_generated_monitor_nonvacuous :
  let vidx := fun (v f : string) => if String.eqb v "x" then 0 else 1 in
  let cval := fun t : string => if String.eqb t "1.0" then Fin 1 else Fin 0 in
  let bnd := bnd_of US 500 UMS in
  let tut := fun b e => Some (Z.of_nat (fst (bnd b e)), Z.of_nat (snd (bnd b e))) in
  let b1 := {| bnum := 1; bden := 2; bunit := Some US |} in
  let b2 := {| bnum := 1000; bden := 1; bunit := Some UMS |} in
  let q := NUn u_sprev (NBin (b_pred CGeq) (NVar "x" "") (NConst "1.0")) in
  let p := NBin b_and (NBin b_since q (NTUn t_once b1 b2 q)) (NUn u_not q) in
  let w := [[Fin 3; Fin 0; Fin (-1); Fin 4; Fin 2]] in
  let vobjs := fun (k : nat) (v f : string) => if String.eqb v "x" then Some (sig w 0 k) else None in
  let hand := snd (nmon_run ExtZArith (fun _ _ => PStd) vidx cval bnd [p] (ndict_init vidx cval bnd [p]) w 0 5) in
  match gen_set_ast tut [p] with
  | Some d0 =>
      match gen_run ExtZArith cval vobjs [p] d0 0 5 with
      | Some (d1, outs) =>
          outs = hand /\
          match gen_reset_forest [p] d1 with
          | Some d2 => option_map snd (gen_run ExtZArith cval vobjs [p] d2 0 5) = Some hand
          | None => False
          end
      | None => False
      end
  | None => False
  end /\
  gen_set_ast tut [NBin b_and p (NUn u_alw q)] = None.
Proof. vm_compute. repeat split; reflexivity. Qed.
