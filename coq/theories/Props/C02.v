(* C02 — the i-th update() of the discrete-time online monitor returns the
   offline robustness at sample i, for every forest of past-time
   specifications (so also when the same sub-formula text occurs more than
   once: the dictionary is keyed by the formula).  Property theorems only. *)
From Coq Require Import List Arith ZArith.
From RV Require Import Val Syntax Rho Offline ListFacts OfflineCorrect Online OnlineCorrect ExtZ.
Import ListNotations.

(* every reachable monitor state: feeding rows 0..len-1 from a fresh monitor *)
Theorem C02_online :
  forall (VS : Val) (AR : Arith VS) (pk : formula -> formula -> pkind)
         (w : trace) (n : nat) (F : list formula) (len : nat),
    F <> [] -> (forall p, In p F -> past_only p = true /\ wf_bounds p = true) ->
    snd (mon_run AR pk F dict_init w 0 len) = tab (rho AR pk (last F (Const bot)) w n) len.
Proof. exact @online_correct. Qed.
Print Assumptions C02_online.

(* incremental = batch *)
Theorem C02_online_offline :
  forall (VS : Val) (AR : Arith VS) (pk : formula -> formula -> pkind)
         (w : trace) (n : nat) (p : formula),
    1 <= n -> past_only p = true -> wf_bounds p = true -> wf_trace p w n ->
    snd (mon_run AR pk [p] dict_init w 0 n) = eval_off AR pk p w n.
Proof. exact @online_offline. Qed.
Print Assumptions C02_online_offline.

Example C02_nonvacuous :
  let q : @formula ExtZVal := SPrev (Pred CGeq (Var 0) (Const (Fin 1))) in
  let p := And (Since q (OnceT 1 2 q)) (Not q) in
  let w := [[Fin 3; Fin 0; Fin (-1); Fin 4; Fin 2]] in
  ([p] <> [] /\ (forall x, In x [p] -> past_only x = true /\ wf_bounds x = true)) /\
  snd (mon_run ExtZArith (fun _ _ => PStd) [p] dict_init w 0 5) = eval_off ExtZArith (fun _ _ => PStd) p w 5.
Proof.
  cbv zeta. split; [split; [discriminate|]|vm_compute; reflexivity].
  intros x [<-|[]]. split; reflexivity.
Qed.
