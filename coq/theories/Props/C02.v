From RV Require Import Val Syntax Rho Offline Online.
Theorem C02_placeholder : True. Proof. exact I. Qed.
Print Assumptions C02_placeholder.
