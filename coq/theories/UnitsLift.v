(* UnitsLift.v — unit normalisation of WHOLE formulas (model only; proofs in
   UnitsLiftCorrect.v).

   rtamt keeps on every temporal node the interval as it was written
   (Interval(begin, end, begin_unit, end_unit), begin/end exact Fractions) and
   converts it when the operator of the node is built / evaluated:

     parser   StlAstParserVisitor.visitInterval  (per interval, while parsing:
              bound constants looked up, time_bound(), 0 <= begin <= end)
     discrete DiscreteTimeInterpreter.time_unit_transformer, called by
              visitTimedX of the online and the offline visitor AFTER
              visitChildren / self.visit(children): post-order, left to right
     dense    DenseTimeInterpreter.time_unit_transformer, same call sites

   [bformula B] is [formula] with a bound of type B on every temporal node;
   [bmapM] is the post-order traversal the visitors perform. *)
From Coq Require Import ZArith QArith Qreduction List Bool String.
From RV Require Import Val Syntax Rho Offline Online Pastify Units.
From RV Require DenseVisitor DenseOnlineMon.
Import ListNotations.
Local Open Scope Q_scope.

Inductive op1 := OA1 (o : aop1) | ONot | ORise | OFall | OPrev | OSPrev | ONext | OSNext | OOnce | OHist | OEv | OAlw.
Inductive op2 := OA2 (o : aop2) | OPred (c : cmp) | OAnd | OOr | OImplies | OIff | OXor | OSince | OUntil.
Inductive top1 := TOnce | THist | TEv | TAlw.
Inductive top2 := TSince | TUntil | TPrecedes.

Definition rbind {A B} (o : outcome A) (k : A -> outcome B) : outcome B :=
  match o with Ok a => k a | Rtamt => Rtamt | Crash => Crash end.
Definition rmap {A B} (k : A -> B) (o : outcome A) : outcome B := rbind o (fun a => Ok (k a)).

Section Lift.
Context {VS : Val}.

Inductive bformula (B : Type) : Type :=
| BVar (x : nat)
| BConst (c : V)
| BUn (o : op1) (f : bformula B)
| BBin (o : op2) (f g : bformula B)
| BUnT (o : top1) (iv : B) (f : bformula B)
| BBinT (o : top2) (iv : B) (f g : bformula B).
Arguments BVar {B} _. Arguments BConst {B} _. Arguments BUn {B} _ _. Arguments BBin {B} _ _ _.
Arguments BUnT {B} _ _ _. Arguments BBinT {B} _ _ _ _.

(* visitTimedX: children first (left, then right), then the bound of the node; the first failure is the result *)
Fixpoint bmapM {B C} (h : B -> outcome C) (u : bformula B) : outcome (bformula C) :=
  match u with
  | BVar x => Ok (BVar x)
  | BConst c => Ok (BConst c)
  | BUn o f => rbind (bmapM h f) (fun f' => Ok (BUn o f'))
  | BBin o f g => rbind (bmapM h f) (fun f' => rbind (bmapM h g) (fun g' => Ok (BBin o f' g')))
  | BUnT o iv f => rbind (bmapM h f) (fun f' => rbind (h iv) (fun c => Ok (BUnT o c f')))
  | BBinT o iv f g =>
      rbind (bmapM h f) (fun f' => rbind (bmapM h g) (fun g' => rbind (h iv) (fun c => Ok (BBinT o c f' g'))))
  end.

Fixpoint bmap {B C} (h : B -> C) (u : bformula B) : bformula C :=
  match u with
  | BVar x => BVar x
  | BConst c => BConst c
  | BUn o f => BUn o (bmap h f)
  | BBin o f g => BBin o (bmap h f) (bmap h g)
  | BUnT o iv f => BUnT o (h iv) (bmap h f)
  | BBinT o iv f g => BBinT o (h iv) (bmap h f) (bmap h g)
  end.

(* the bounds in the order in which the visitors convert them *)
Fixpoint bounds {B} (u : bformula B) : list B :=
  match u with
  | BVar _ | BConst _ => []
  | BUn _ f => bounds f
  | BBin _ f g => bounds f ++ bounds g
  | BUnT _ iv f => bounds f ++ [iv]
  | BBinT _ iv f g => bounds f ++ bounds g ++ [iv]
  end.

Definition un_formula (o : op1) (f : formula) : formula :=
  match o with
  | OA1 a => A1 a f | ONot => Not f | ORise => Rise f | OFall => Fall f | OPrev => Prev f | OSPrev => SPrev f
  | ONext => Next f | OSNext => SNext f | OOnce => Once f | OHist => Hist f | OEv => Ev f | OAlw => Alw f
  end.
Definition bin_formula (o : op2) (f g : formula) : formula :=
  match o with
  | OA2 a => A2 a f g | OPred c => Pred c f g | OAnd => And f g | OOr => Or f g | OImplies => Implies f g
  | OIff => Iff f g | OXor => Xor f g | OSince => Since f g | OUntil => Until f g
  end.
Definition unt_formula (o : top1) (b e : nat) (f : formula) : formula :=
  match o with TOnce => OnceT b e f | THist => HistT b e f | TEv => EvT b e f | TAlw => AlwT b e f end.
Definition bint_formula (o : top2) (b e : nat) (f g : formula) : formula :=
  match o with TSince => SinceT b e f g | TUntil => UntilT b e f g | TPrecedes => Precedes b e f g end.

(* a formula whose bounds are sample counts IS a core formula *)
Fixpoint to_formula (u : bformula (nat * nat)) : formula :=
  match u with
  | BVar x => Var x
  | BConst c => Const c
  | BUn o f => un_formula o (to_formula f)
  | BBin o f g => bin_formula o (to_formula f) (to_formula g)
  | BUnT o iv f => unt_formula o (fst iv) (snd iv) (to_formula f)
  | BBinT o iv f g => bint_formula o (fst iv) (snd iv) (to_formula f) (to_formula g)
  end.

Fixpoint of_formula (p : formula) : bformula (nat * nat) :=
  match p with
  | Var x => BVar x
  | Const c => BConst c
  | A1 o f => BUn (OA1 o) (of_formula f)
  | A2 o f g => BBin (OA2 o) (of_formula f) (of_formula g)
  | Pred c f g => BBin (OPred c) (of_formula f) (of_formula g)
  | Not f => BUn ONot (of_formula f)
  | And f g => BBin OAnd (of_formula f) (of_formula g)
  | Or f g => BBin OOr (of_formula f) (of_formula g)
  | Implies f g => BBin OImplies (of_formula f) (of_formula g)
  | Iff f g => BBin OIff (of_formula f) (of_formula g)
  | Xor f g => BBin OXor (of_formula f) (of_formula g)
  | Rise f => BUn ORise (of_formula f)
  | Fall f => BUn OFall (of_formula f)
  | Prev f => BUn OPrev (of_formula f)
  | SPrev f => BUn OSPrev (of_formula f)
  | Next f => BUn ONext (of_formula f)
  | SNext f => BUn OSNext (of_formula f)
  | Once f => BUn OOnce (of_formula f)
  | Hist f => BUn OHist (of_formula f)
  | Since f g => BBin OSince (of_formula f) (of_formula g)
  | Ev f => BUn OEv (of_formula f)
  | Alw f => BUn OAlw (of_formula f)
  | Until f g => BBin OUntil (of_formula f) (of_formula g)
  | OnceT b e f => BUnT TOnce (b, e) (of_formula f)
  | HistT b e f => BUnT THist (b, e) (of_formula f)
  | SinceT b e f g => BBinT TSince (b, e) (of_formula f) (of_formula g)
  | EvT b e f => BUnT TEv (b, e) (of_formula f)
  | AlwT b e f => BUnT TAlw (b, e) (of_formula f)
  | UntilT b e f g => BBinT TUntil (b, e) (of_formula f) (of_formula g)
  | Precedes b e f g => BBinT TPrecedes (b, e) (of_formula f) (of_formula g)
  end.

(* ---------- spelled bounds ---------- *)

(* intervalTime : literal unit? | Identifier unit?   (the literal as the exact Fraction time_bound() returns) *)
Inductive uend := ULit (q : Q) | UId (name : string).
Record ubound := { u_b : uend; u_bu : option tunit; u_e : uend; u_eu : option tunit }.
Definition uformula := bformula ubound.

(* const_val_dict seen through time_bound(): None = declared, but the text is not a time bound *)
Definition cenv := list (string * option Q).
Fixpoint clookup (ce : cenv) (x : string) : option (option Q) :=
  match ce with [] => None | (k, v) :: r => if String.eqb k x then Some v else clookup r x end.

(* visitIntervalTimeLiteral / visitConstantTimeLiteral *)
Definition end_val (ce : cenv) (e : uend) : outcome Q :=
  match e with
  | ULit q => Ok q
  | UId x => match clookup ce x with
             | Some (Some q) => Ok q
             | Some None => Rtamt           (* 'The bound ... is not a number / not a time bound' *)
             | None => Rtamt                (* 'Bound ... not declared' *)
             end
  end.

(* visitInterval: both ends (begin first) ... *)
Definition resolve_bound (ce : cenv) (ub : ubound) : outcome interval :=
  rbind (end_val ce (u_b ub)) (fun qb =>
  rbind (end_val ce (u_e ub)) (fun qe =>
    Ok {| ib := qb; ie := qe; ibu := u_bu ub; ieu := u_eu ub |})).

(* ... then 0 <= begin and begin <= end as durations (same unit resolution as the interpreters) *)
Definition check_interval (du : tunit) (i : interval) : outcome interval :=
  if Qle_bool 0 (ib i) then
    if Qle_bool (begin_ns du i) (end_ns du i) then Ok i else Rtamt
  else Rtamt.

Definition parse_bound (du : tunit) (ce : cenv) (ub : ubound) : outcome interval :=
  rbind (resolve_bound ce ub) (check_interval du).

(* the parser visits operands first, then the interval: same post-order *)
Definition parse_bounds (du : tunit) (ce : cenv) (u : uformula) : outcome (bformula interval) :=
  bmapM (parse_bound du ce) u.

(* 'a unless[i] b' is parsed into (always[0, end] a) or (a until[i] b); the zero keeps the unit of begin *)
Definition unless_t (ub : ubound) (f g : uformula) : uformula :=
  BBin OOr (BUnT TAlw {| u_b := ULit 0; u_bu := u_bu ub; u_e := u_e ub; u_eu := u_eu ub |} f) (BBinT TUntil ub f g).

(* ---------- discrete time ---------- *)

(* spec.unit, and the sampling period as it is written: Fraction(str(sampling_period)) and its unit *)
Record settings := { s_du : tunit; s_p : Q; s_pu : tunit }.

Definition period_q (p : Q) (pu : tunit) : Q := p * inject_Z (uval pu).
Definition maxsize : Z := 9223372036854775807.        (* sys.maxsize *)

(* DiscreteTimeInterpreter.time_unit_transformer (the two Python ints it returns) *)
Definition to_samples_z (du : tunit) (p : Q) (pu : tunit) (i : interval) : outcome (Z * Z) :=
  let sp := period_q p pu in
  if Qeq_bool sp 0 then Crash                               (* ZeroDivisionError *)
  else
    let b := begin_ns du i / sp in
    let e := end_ns du i / sp in
    if negb (is_int b) then Rtamt                           (* b.numerator % b.denominator > 0 *)
    else if negb (is_int e) then Rtamt
    else if (maxsize <=? Qnum (Qred e))%Z then Rtamt        (* e >= sys.maxsize *)
    else Ok (Qnum (Qred b), Qnum (Qred e)).

(* ... as the sample counts of a core formula (the parser has made them non-negative) *)
Definition to_samples_q (du : tunit) (p : Q) (pu : tunit) (i : interval) : outcome (nat * nat) :=
  rmap (fun be => (Z.to_nat (fst be), Z.to_nat (snd be))) (to_samples_z du p pu i).

(* the interpreter's pass over a parsed specification *)
Definition normalize_ivs (st : settings) (u : bformula interval) : outcome formula :=
  rmap to_formula (bmapM (to_samples_q (s_du st) (s_p st) (s_pu st)) u).

(* set_sampling_period refuses a period that is not positive; then parse(); then the interpreter *)
Definition normalize (st : settings) (ce : cenv) (u : uformula) : outcome formula :=
  if Qle_bool (s_p st) 0 then Rtamt
  else rbind (parse_bounds (s_du st) ce u) (normalize_ivs st).

(* the integers in conversion order, for the comparison with the implementation *)
Definition normalize_log (st : settings) (ce : cenv) (u : uformula) : outcome (list (Z * Z)) :=
  if Qle_bool (s_p st) 0 then Rtamt
  else rbind (parse_bounds (s_du st) ce u) (fun v =>
       rmap bounds (bmapM (to_samples_z (s_du st) (s_p st) (s_pu st)) v)).

(* ---------- dense time ---------- *)

(* float(Fraction) raises OverflowError from 2^1024 - 2^970 on (round half to even at the last binade) *)
Definition float_overflow (q : Q) : bool :=
  Qle_bool (inject_Z (2 ^ 1024 - 2 ^ 970)) q || Qle_bool q (inject_Z (- (2 ^ 1024 - 2 ^ 970))).

(* DenseTimeInterpreter.time_unit_transformer before the final int() / float(): the bound in default units, as the
   (reduced) Fraction the code holds; float() is applied to every bound first (OverflowError -> RTAMTException, for whole
   numbers too), then a whole number of default units stays a Python int and anything else becomes that float; never
   rejected for being off a grid *)
Definition dense_overflow (q : Q) : bool := float_overflow q.
Definition to_dense (du : tunit) (i : interval) : outcome (Q * Q) :=
  let b := Qred (fst (to_default du i)) in
  let e := Qred (snd (to_default du i)) in
  if dense_overflow b then Rtamt else if dense_overflow e then Rtamt else Ok (b, e).

Definition normalize_dense (du : tunit) (ce : cenv) (u : uformula) : outcome (bformula (Q * Q)) :=
  rbind (parse_bounds du ce u) (bmapM (to_dense du)).

(* The dense models (Dense.v, DenseVisitor.v, DenseOnlineMon.v) count time in integer ticks.  With one tick =
   [tick] default units, a dense-normalised formula is a core formula when every bound is a whole number of ticks. *)
Definition tick_bound (tick : Q) (be : Q * Q) : nat * nat := (to_nat_q (fst be / tick), to_nat_q (snd be / tick)).
Definition on_tick (tick : Q) (be : Q * Q) : bool := is_int (fst be / tick) && is_int (snd be / tick).
Definition tick_formula (tick : Q) (u : bformula (Q * Q)) : formula := to_formula (bmap (tick_bound tick) u).
Definition on_ticks (tick : Q) (u : bformula (Q * Q)) : bool := forallb (on_tick tick) (bounds u).

End Lift.

(* ---------- from a specification with spelled bounds to the results of the monitors ---------- *)
Section Pipelines.
Context {VS : Val} (AR : Arith VS).
Variable pk : formula -> formula -> pkind.

(* discrete offline: evaluate(dataset) *)
Definition spec_evaluate {T : Type} (st : settings) (ce : cenv) (u : uformula) (ts : list T) (w : trace)
  : outcome (list (T * V)) :=
  rbind (normalize st ce u) (fun p => evaluate AR pk p ts w).

(* discrete online: the values of n successive update() calls *)
Definition spec_online (st : settings) (ce : cenv) (u : uformula) (w : trace) (n : nat) : outcome (list V) :=
  rmap (fun p => snd (mon_run AR pk [p] dict_init w 0 n)) (normalize st ce u).

(* after pastify(), online and offline *)
Definition spec_pastified_online (dk : delay_kind) (st : settings) (ce : cenv) (u : uformula) (w : trace) (n : nat)
  : outcome (list V) :=
  rmap (fun p => snd (mon_run AR pk [pastify dk p (hor p)] dict_init w 0 n)) (normalize st ce u).
Definition spec_pastified_evaluate {T : Type} (dk : delay_kind) (st : settings) (ce : cenv) (u : uformula)
  (ts : list T) (w : trace) : outcome (list (T * V)) :=
  rbind (normalize st ce u) (fun p => evaluate AR pk (pastify dk p (hor p)) ts w).

(* dense time on the tick grid of the dense models: Ok None = accepted by rtamt, but a bound is off the grid of the model *)
Definition dense_ticks (du : tunit) (tick : Q) (ce : cenv) (u : uformula) : outcome (option formula) :=
  rmap (fun q => if on_ticks tick q then Some (tick_formula tick q) else None) (normalize_dense du ce u).
Definition spec_dense_evaluate (du : tunit) (tick : Q) (ce : cenv) (u : uformula) (W : list Dense.dsig)
  : outcome (option (option Dense.dsig)) :=
  rmap (option_map (fun p => DenseVisitor.deval_pk AR pk p W)) (dense_ticks du tick ce u).
Definition spec_dense_online (du : tunit) (tick : Q) (ce : cenv) (u : uformula) (bs : list (list Dense.dsig))
  : outcome (option (option (list DenseMerge.esig))) :=
  rmap (option_map (fun p => option_map snd (DenseOnlineMon.mon_run AR pk p (DenseOnlineMon.mon_init p) bs)))
       (dense_ticks du tick ce u).
End Pipelines.

Arguments BVar {VS B} _. Arguments BConst {VS B} _. Arguments BUn {VS B} _ _. Arguments BBin {VS B} _ _ _.
Arguments BUnT {VS B} _ _ _. Arguments BBinT {VS B} _ _ _ _.
