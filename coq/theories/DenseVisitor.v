(* DenseVisitor.v — StlDenseTimeOfflineAstVisitor as one function: the sample list built for every operator the
   dense-time offline monitor supports (None = an exception: prev / next / rise / fall / precedes, or
   'Unexpected case in the intersection').  Bounds are in ticks. *)
From Coq Require Import List Bool Arith ZArith Lia.
From RV Require Import Val Syntax Rho Online Dense DenseMerge DenseMergeG DenseEval DenseWin DenseIA.
Import ListNotations.
Local Open Scope Z_scope.

Section DenseVisitor.
Context {VS : Val} (AR : Arith VS).
(* the predicate kinds: PStd everywhere for the STL visitor, IA.pk_impl for the four IA-STL visitors *)
Variable pk : formula -> formula -> pkind.

(* None = an exception (operator outside the fragment modelled here, or 'Unexpected case in the intersection') *)
Fixpoint deval_pk (p : formula) (W : list dsig) {struct p} : option dsig :=
  let bin f a b := obind (deval_pk a W) (fun x => obind (deval_pk b W) (fun y => isect f x y)) in
  match p with
  | Var x => Some (nth x W [])
  | Const c => Some [(0, c)]
  | A1 o f => option_map (dmap (a1 AR o)) (deval_pk f W)
  | Not f => option_map (dmap neg) (deval_pk f W)
  | A2 o f g => bin (a2 AR o) f g
  | Pred c f g => option_map (ia_pred AR (pk f g) c) (bin (a2 AR Sub) f g)
  | And f g => bin vmin f g
  | Or f g => bin vmax f g
  | Implies f g => bin (fun l r => vmax (neg l) r) f g
  | Iff f g => bin (fun l r => neg (a1 AR Abs (a2 AR Sub l r))) f g
  | Xor f g => bin (fun l r => a1 AR Abs (a2 AR Sub l r)) f g
  | Once f => option_map once_op (deval_pk f W)
  | Hist f => option_map hist_op (deval_pk f W)
  | Ev f => option_map ev_op (deval_pk f W)
  | Alw f => option_map alw_op (deval_pk f W)
  | Since f g => obind (deval_pk f W) (fun x => obind (deval_pk g W) (fun y => since_op x y))
  | Until f g => obind (deval_pk f W) (fun x => obind (deval_pk g W) (fun y => until_op x y))
  | OnceT b e f => obind (deval_pk f W) (fun s => once_timed_op s (zb b) (zb e))
  | HistT b e f => obind (deval_pk f W) (fun s => hist_timed_op s (zb b) (zb e))
  | EvT b e f => obind (deval_pk f W) (fun s => ev_timed_op s (zb b) (zb e))
  | AlwT b e f => obind (deval_pk f W) (fun s => alw_timed_op s (zb b) (zb e))
  | SinceT b e f g => obind (deval_pk f W) (fun x => obind (deval_pk g W) (fun y => since_timed_op x y (zb b) (zb e)))
  | UntilT b e f g => obind (deval_pk f W) (fun x => obind (deval_pk g W) (fun y => until_timed_op x y (zb b) (zb e)))
  | _ => None
  end.


End DenseVisitor.

(* the STL visitor *)
Definition deval {VS : Val} (AR : Arith VS) : formula -> list dsig -> option dsig := deval_pk AR (fun _ _ => PStd).
