(* PastifyWarmup.v — C18 in the pastified online monitor.  A past-time formula that the STL pastifier has to delay by H > 0
   (because it stands beside an operand with a future horizon H) reports bot during the first H samples, whichever way its
   top node is delayed (once[H,H] around the node, or H added to the bounds of a bounded once); from sample H on it reports
   the value of the original formula H samples earlier (PastifyCorrect.past_node_gen).  Hence two past-time formulas that
   denote the same signal — the two sides of a past-time duality or expansion law — are indistinguishable in the pastified
   monitor at EVERY sample, the warm-up included, and so is any And / Or context they are placed in. *)
From Coq Require Import List Bool Arith Lia.
From RV Require Import Val Syntax Rho ListFacts OfflineCorrect Extend Pastify PastifyCorrect.
Import ListNotations.

Section PastifyWarmup.
Context {VS : Val} (AR : Arith VS).
Variable pk : formula -> formula -> pkind.
Variable w : trace.
Hypothesis pk_stable : forall f g H1 H2, pk (pastify DelayOnce f H1) (pastify DelayOnce g H2) = pk f g.

Local Notation R := (rho AR pk).
Local Notation past := (pastify DelayOnce).

Definition is_const (p : formula) : bool := match p with Const _ => true | _ => false end.

Lemma delay_once_warmup d x n i : i < d -> R (delay DelayOnce d x) w n i = bot.
Proof.
  intros Hi. unfold delay. destruct (Nat.ltb_spec 0 d) as [Hd|Hd]; [|lia].
  cbn [rho]. destruct (Nat.ltb_spec i d); [reflexivity|lia].
Qed.

(* the warm-up of a delayed past-time node *)
Lemma past_warmup p H n i :
  past_only p = true -> is_const p = false -> i < H -> R (past p H) w n i = bot.
Proof.
  intros Hp Hc Hi. destruct (past_hor p Hp) as [Hz _].
  destruct p; simpl in Hp; try discriminate; simpl in Hc; try discriminate; simpl in Hz; simpl past; rewrite ?Hz; rewrite ?Nat.sub_0_r;
  try (apply delay_once_warmup; exact Hi).
  (* OnceT: the delay is added to the bounds *)
  cbn [rho]. destruct (Nat.ltb_spec i (b + H)); [reflexivity|lia].
Qed.

(* two past-time formulas with the same signal have the same pastified signal, at every sample *)
Theorem past_law_pastified l r :
  past_only l = true -> past_only r = true -> is_const l = false -> is_const r = false ->
  (forall n i, R l w n i = R r w n i) ->
  forall H n i, R (past l H) w n i = R (past r H) w n i.
Proof.
  intros Hl Hr Cl Cr E H n i.
  destruct (Nat.lt_ge_cases i H) as [Hi|Hi].
  - rewrite !past_warmup by assumption. reflexivity.
  - destruct (past_hor l Hl) as [Zl _]. destruct (past_hor r Hr) as [Zr _].
    rewrite (past_node_gen AR pk DelayOnce w pk_stable l Hl H i n) by lia.
    rewrite (past_node_gen AR pk DelayOnce w pk_stable r Hr H i n) by lia.
    apply E.
Qed.

(* ... and so has a conjunction / disjunction with any other operand g (what the correspondence check of C18 builds:
   g = eventually[0,h] q), the whole being pastified with any remaining horizon H *)
Theorem past_law_pastified_in_context l r g :
  past_only l = true -> past_only r = true -> is_const l = false -> is_const r = false ->
  (forall n i, R l w n i = R r w n i) ->
  forall H n i,
    R (past (And l g) H) w n i = R (past (And r g) H) w n i /\
    R (past (Or l g) H) w n i = R (past (Or r g) H) w n i.
Proof.
  intros Hl Hr Cl Cr E H n i.
  destruct (past_hor l Hl) as [Zl _]. destruct (past_hor r Hr) as [Zr _].
  assert (K : forall h n' i', R (past l h) w n' i' = R (past r h) w n' i') by (intros; apply past_law_pastified; assumption).
  simpl past. rewrite Zl, Zr. simpl Nat.max.
  unfold delay. destruct (0 <? H - hor g); cbn [rho]; rewrite ?K; split; try reflexivity;
  destruct (i <? H - hor g); try reflexivity; apply wmax_ext; intros t' _; cbn [rho]; rewrite K; reflexivity.
Qed.

End PastifyWarmup.
