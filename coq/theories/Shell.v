(* Shell.v — modular specifications: ordered assertions "name = formula" in
   which an identifier resolves to a declared constant, else to an earlier
   assertion (the referencing node IS the referenced node), else to a
   variable (LtlAstParserVisitor.visitExprId); every assertion is appended to
   ast.specs. *)
From Coq Require Import List Bool Arith Lia.
From RV Require Import Val Syntax Rho Offline.
Import ListNotations.

Section Shell.
Context {VS : Val}.

(* identifiers are numbers; consts: declared constants; env: earlier assertions *)
Definition lookup_id {A} (l : list (nat * A)) (x : nat) : option A :=
  option_map snd (find (fun p => Nat.eqb (fst p) x) l).

Fixpoint subst (consts : list (nat * V)) (env : list (nat * formula)) (p : formula) : formula :=
  let s := subst consts env in
  match p with
  | Var x => match lookup_id consts x with
             | Some c => Const c
             | None => match lookup_id env x with Some f => f | None => Var x end
             end
  | Const c => Const c
  | A1 o f => A1 o (s f) | A2 o f g => A2 o (s f) (s g) | Pred c f g => Pred c (s f) (s g)
  | Not f => Not (s f) | And f g => And (s f) (s g) | Or f g => Or (s f) (s g)
  | Implies f g => Implies (s f) (s g) | Iff f g => Iff (s f) (s g) | Xor f g => Xor (s f) (s g)
  | Rise f => Rise (s f) | Fall f => Fall (s f) | Prev f => Prev (s f) | SPrev f => SPrev (s f)
  | Next f => Next (s f) | SNext f => SNext (s f)
  | Once f => Once (s f) | Hist f => Hist (s f) | Since f g => Since (s f) (s g)
  | Ev f => Ev (s f) | Alw f => Alw (s f) | Until f g => Until (s f) (s g)
  | OnceT b e f => OnceT b e (s f) | HistT b e f => HistT b e (s f) | SinceT b e f g => SinceT b e (s f) (s g)
  | EvT b e f => EvT b e (s f) | AlwT b e f => AlwT b e (s f) | UntilT b e f g => UntilT b e (s f) (s g)
  | Precedes b e f g => Precedes b e (s f) (s g)
  end.

(* a program: the assertions in order (sub-specifications first, main last) *)
Definition program := list (nat * formula).

(* the forest ast.specs; the environment grows with every assertion *)
Fixpoint elab (consts : list (nat * V)) (env : list (nat * formula)) (P : program) : list formula :=
  match P with
  | [] => []
  | (name, body) :: P' =>
      let f := subst consts env body in
      f :: elab consts ((name, f) :: env) P'
  end.

(* the inlined single specification: every name replaced by its (parenthesised) definition *)
Definition inline (consts : list (nat * V)) (P : program) : formula :=
  last (elab consts [] P) (Const bot).

End Shell.
