(* DenseGridVisitor.v — C19 for the two visitors: on step signals that change only at multiples of the period the
   list built by the dense-time offline visitor (DenseVisitor.deval, bounds multiplied by the period), read at the
   sampling instant k*P, is the k-th entry of the list built by the discrete-time offline visitor (Offline.eval_off),
   for every k inside the settled region. *)
From Coq Require Import List Bool Arith ZArith Lia.
From RV Require Import Val Syntax Rho ListFacts Offline OfflineCorrect Online Dense DenseSem DenseFacts DenseGrid DenseMerge DenseMergeCorrect DenseEval DenseEvalCorrect DenseWin DenseVisitor DenseEvalMain.
Import ListNotations.
Local Open Scope Z_scope.

Section GridVisitor.
Context {VS : Val} (AR : Arith VS).
Let pk : formula -> formula -> pkind := fun _ _ => PStd.
Hypothesis SubNeg : forall l r, neg (a2 AR Sub l r) = a2 AR Sub r l.
Variable Pn : nat.
Hypothesis HP : (0 < Pn)%nat.
Let P := Z.of_nat Pn.

Lemma frag_dfrag p : frag p = true -> dfrag (scaleF Pn p) = true.
Proof.
  induction p; intros H; cbn [frag] in H; try discriminate; cbn [scaleF dfrag]; try reflexivity; try (apply IHp; exact H);
  apply andb_prop in H as [H1 H2]; rewrite IHp1, IHp2 by assumption; reflexivity.
Qed.
Lemma wf_scale p : frag p = true -> wf_bounds p = true -> wf_bounds (scaleF Pn p) = true.
Proof.
  induction p; intros Hf H; cbn [frag] in Hf; try discriminate; cbn [wf_bounds] in H; cbn [scaleF wf_bounds]; try reflexivity; try (apply IHp; assumption);
  repeat match goal with H : _ && _ = true |- _ => apply andb_prop in H; destruct H end;
  try (rewrite IHp1, IHp2 by assumption; reflexivity);
  match goal with H : (_ <=? _)%nat = true |- _ => apply Nat.leb_le in H end;
  apply andb_true_intro; (split; [apply Nat.leb_le; nia|apply IHp; assumption]).
Qed.
Lemma nvars_scale p : nvars (scaleF Pn p) = nvars p.
Proof. induction p; cbn [scaleF nvars]; congruence. Qed.

Lemma stepsig_in col a v : In (a, v) (stepsig P col) -> exists k, (k < length col)%nat /\ a = Z.of_nat k * P.
Proof.
  unfold stepsig. intros H. apply in_map_iff in H as (k & E & Hk). apply in_seq in Hk. injection E as <- _. exists k. split; [lia|reflexivity].
Qed.
Lemma dsorted_map_seq (g : nat -> V) : forall len lo, dsorted (map (fun k => (Z.of_nat k * P, g k)) (seq lo len)).
Proof.
  induction len as [|len IH]; intros lo; [exact I|]. cbn [seq map dsorted]. split; [|apply IH].
  destruct len; cbn [seq map]; [exact I|]. unfold P. nia.
Qed.
Lemma stepsig_ok col : col <> [] ->
  dsorted (stepsig P col) /\ stepsig P col <> [] /\ ub (Z.of_nat (length col - 1) * P) (stepsig P col) /\ start (stepsig P col) = 0.
Proof.
  intros Hne. split; [apply dsorted_map_seq|]. split; [destruct col; [congruence|discriminate]|]. split; [|apply start_stepsig].
  intros a v Hin. apply stepsig_in in Hin as (k & Hk & ->). unfold P. nia.
Qed.

Theorem grid_visitors (w : trace) (n : nat) (p : formula) :
  (1 <= n)%nat -> (forall x, (x < length w)%nat -> length (nth x w []) = n) ->
  frag p = true -> wf_bounds p = true -> (nvars p <= length w)%nat ->
  exists s, deval AR (scaleF Pn p) (map (stepsig P) w) = Some s /\
    forall k, (k + hor p < n)%nat -> den s (Z.of_nat k * P) = nth k (eval_off AR pk p w n) bot.
Proof.
  intros Hn Hc Hf Hb Hv. set (W := map (stepsig P) w). set (tend := Z.of_nat (n - 1) * P).
  assert (HW : forall s, In s W -> dsorted s /\ s <> [] /\ ub tend s).
  { intros s Hin. apply in_map_iff in Hin as (col & <- & Hcol). apply (In_nth _ _ []) in Hcol as (x & Hx & Ex).
    assert (Hl : length col = n) by (rewrite <- Ex; apply Hc; exact Hx).
    destruct (stepsig_ok col ltac:(destruct col; [cbn in Hl; lia|discriminate])) as (S1 & S2 & S3 & _). rewrite Hl in S3. auto. }
  assert (H0 : starts0 W).
  { intros s Hin. apply in_map_iff in Hin as (col & <- & _). apply start_stepsig. }
  assert (Ht : 0 <= tend) by (unfold tend, P; nia).
  destruct (deval_correct AR SubNeg W tend Ht HW (scaleF Pn p) (frag_dfrag p Hf) (wf_scale p Hf Hb) (or_intror H0)
              ltac:(rewrite nvars_scale; unfold W; rewrite map_length; exact Hv)) as (s & E & G).
  rewrite (dstart0 W _ H0) in G by (rewrite nvars_scale; unfold W; rewrite map_length; exact Hv).
  exists s. split; [exact E|]. intros k Hk.
  rewrite (good_den s 0 _ (Z.of_nat k * P) G) by (unfold P; nia).
  rewrite (eval_off_correct AR pk p w n Hn Hb) by (intros x Hx; apply Hc; lia).
  rewrite nth_tab by lia.
  assert (Ek : Z.to_nat (Z.of_nat k * P / P) = k) by (rewrite Z.div_mul by (unfold P; lia); apply Nat2Z.id).
  pose proof (grid_agree AR pk Pn w n tend HP Hc (fun _ _ => eq_refl) p Hf Hb (Z.of_nat k * P) ltac:(unfold P; nia)) as Hg.
  fold P in Hg. rewrite Ek in Hg. apply Hg. exact Hk.
Qed.

End GridVisitor.
