(* ShellGenCorrect.v — the definitions of ShellGen.v (generated from the Python text by tools/py2coq_shell.py) against the hand
   models: the generated offline evaluate() returns Offline.evaluate of the last assertion on the columns bound by the data set,
   and the generated get_value(name) after it returns the column Offline.eval_off of the assertion bound to the name.
   Hand-written; re-checked against the regenerated file on every build. *)
From Coq Require Import List Bool Arith ZArith Lia.
From RV Require Import Val Syntax Rho Offline ListFacts OfflineCorrect PySem PySemFacts OfflineGen OfflineGenEval OfflineGenCorrect PyShell ShellGen.
Import ListNotations.

Lemma dict_get_set {A} (d : list (nat * A)) k v k' :
  dict_get (dict_set d k v) k' = if Nat.eqb k k' then Some v else dict_get d k'.
Proof.
  induction d as [|[k0 v0] d IH]; simpl.
  - reflexivity.
  - destruct (Nat.eqb k0 k) eqn:E0; simpl.
    + apply Nat.eqb_eq in E0. subst k0. destruct (Nat.eqb k k') eqn:E1; reflexivity.
    + destruct (Nat.eqb k0 k') eqn:E1.
      * apply Nat.eqb_eq in E1. subst k0. rewrite Nat.eqb_sym, E0. reflexivity.
      * exact IH.
Qed.

Lemma dict_get_keys {A} (d : list (nat * A)) k : In k (map fst d) -> exists v, dict_get d k = Some v.
Proof.
  induction d as [|[k0 v0] d IH]; simpl; [intros []|]. intros H.
  destruct (Nat.eqb k0 k) eqn:E; [eexists; reflexivity|]. destruct H as [H|H]; [|exact (IH H)].
  subst k0. rewrite Nat.eqb_refl in E. discriminate.
Qed.

Lemma nth_pred_last {A} (l : list A) d : nth (pred (length l)) l d = last l d.
Proof. induction l as [|a [|b l] IH]; try reflexivity. exact IH. Qed.

Section ShellGenCorrect.
Context {VS : Val} (AR : Arith VS).
Context {T C D : Type}.
Variable gap : T -> T -> outcome D.
Variable upd_svc : D -> C -> outcome C.
Variable svc0 : C.
Variable create_var : nat -> outcome vobj.
Notation St := (st T C).

(* hand model of the two loops that bind the variables: every declared variable gets its default object, then every column
   of the data set replaces / adds the object of its name (and is remembered in `inputs`) *)
Definition bind_default (s : St) (x : nat) : St := set_var_object_dict s (dict_set (var_object_dict s) x VDefault).
Definition bind_column (ds : dataset T) (s : St) (k : nat) : St :=
  let o := VCol (match dict_get (ds_cols ds) k with Some l => l | None => [] end) in
  set_inputs (set_var_object_dict s (dict_set (var_object_dict s) k o)) (dict_set (inputs s) k o).
Definition load (s : St) (ds : dataset T) : St :=
  fold_left (bind_column ds) (ds_keys ds) (fold_left bind_default (free_vars s) s).

Hypothesis create_var_default : forall x, create_var x = Ok VDefault.

Lemma free_vars_loop L (s : St) :
  py_for_o L (fun var s => t1 <-- create_var var ;;
      let s := set_var_object_dict s (dict_set (var_object_dict s) var t1) in Ok s) s = Ok (fold_left bind_default L s).
Proof. revert s. induction L as [|x L IH]; intros s; simpl; [reflexivity|]. rewrite create_var_default. apply IH. Qed.

Lemma gen_set_variable_refines (s : St) ds :
  gen_set_variable_to_ast_from_dataset s ds = Ok (fold_left (bind_column ds) (ds_keys ds) s).
Proof.
  unfold gen_set_variable_to_ast_from_dataset.
  assert (H : forall L s, (forall k, In k L -> In k (ds_keys ds)) ->
     py_for_o L (fun key s => t1 <-- ds_col_get ds key ;;
        let s := set_var_object_dict s (dict_set (var_object_dict s) key t1) in
        t2 <-- ds_col_get ds key ;; let s := set_inputs s (dict_set (inputs s) key t2) in Ok s) s
     = Ok (fold_left (bind_column ds) L s)).
  { induction L as [|k L IH]; intros s0 HL; simpl; [reflexivity|].
    destruct (dict_get_keys (ds_cols ds) k (HL k (or_introl eq_refl))) as [v Hv].
    unfold ds_col_get. rewrite Hv. rewrite IH by (intros k' Hk'; apply HL; right; exact Hk').
    unfold bind_column. rewrite Hv. reflexivity. }
  rewrite H by (intros k Hk; exact Hk). reflexivity.
Qed.

Section Visit.
Variable n : nat.
Variable vod : list (nat * vobj).
Hypothesis n_pos : 1 <= n.
Hypothesis neg_is_neg : forall x, a1 AR Neg x = neg x.
Definition good (nd : nat * formula) : Prop :=
  vars_bound vod (snd nd) = true /\ wf_bounds (snd nd) = true /\ wf_trace (snd nd) (trace_of vod) n.
Definition colE (p : formula) : vobj := VCol (eval_off AR std p (trace_of vod) n).
Definition store (r : list (nat * vobj)) (nd : nat * formula) := dict_set r (fst nd) (colE (snd nd)).

Lemma visit_loop L : forall out (s : St), var_object_dict s = vod -> (forall nd, In nd L -> good nd) ->
  py_for_o L (fun spec '(out, s) => '(t1, s) <-- py_visit AR s spec (Z.of_nat n) ;; Ok (out ++ [t1], s)) (out, s)
  = Ok (out ++ map (fun nd => colE (snd nd)) L, set_results s (fold_left store L (results s))).
Proof.
  induction L as [|nd L IH]; intros out s Hs HL; simpl.
  - rewrite app_nil_r. destruct s; reflexivity.
  - destruct (HL nd (or_introl eq_refl)) as (Hb & Hw & Ht).
    unfold py_visit at 1. rewrite Hs, Hb, Nat2Z.id, (eval_gen_refines AR (snd nd) (trace_of vod) n n_pos Hw Ht neg_is_neg).
    rewrite IH; [|exact Hs|intros nd' H'; apply HL; right; exact H'].
    rewrite <- app_assoc. reflexivity.
Qed.

Lemma store_lookup L : forall r id p, In (id, p) L -> (forall p', In (id, p') L -> p' = p) ->
  dict_get (fold_left store L r) id = Some (colE p).
Proof.
  assert (G : forall L0 r id o, dict_get r id = Some o -> (forall p', In (id, p') L0 -> colE p' = o) -> dict_get (fold_left store L0 r) id = Some o).
  { induction L0 as [|[i q] L0 IH]; intros r id o Hr HL; simpl; [exact Hr|]. apply IH.
    - unfold store; simpl. rewrite dict_get_set. destruct (Nat.eqb i id) eqn:E; [|exact Hr].
      apply Nat.eqb_eq in E. subst i. rewrite (HL q (or_introl eq_refl)). reflexivity.
    - intros p' H'. apply HL. right. exact H'. }
  induction L as [|[i q] L IH]; intros r id p Hin Huniq; [destruct Hin|]. simpl.
  destruct Hin as [Hin|Hin].
  - inversion Hin; subst i q. apply G.
    + unfold store; simpl. rewrite dict_get_set, Nat.eqb_refl. reflexivity.
    + intros p' H'. rewrite (Huniq p' (or_intror H')). reflexivity.
  - apply IH; [exact Hin|]. intros p' H'. apply Huniq. right. exact H'.
Qed.
End Visit.

Hypothesis gap_total : forall a b, exists d, gap a b = Ok d.
Hypothesis upd_total : forall d c, exists c', upd_svc d c = Ok c'.

Lemma sampling_loop (ts : list T) : forall L (s : St), (forall i, In i L -> S i < length ts) ->
  exists c, py_for_o (map Z.of_nat L) (fun i s =>
      t7 <-- py_get_o ts i ;; t8 <-- py_get_o ts (i + 1%Z)%Z ;; t9 <-- gap t7 t8 ;;
      t10 <-- upd_svc t9 (sampling_violation_counter s) ;; Ok (set_sampling_violation_counter s t10)) s
    = Ok (set_sampling_violation_counter s c).
Proof.
  induction L as [|i L IH]; intros s HL; simpl.
  - exists (sampling_violation_counter s). destruct s; reflexivity.
  - assert (Hi := HL i (or_introl eq_refl)).
    destruct ts as [|t0 ts']; [simpl in Hi; lia|].
    unfold py_get_o at 1 2. rewrite (py_get_nat (t0 :: ts') i t0) by lia.
    replace (Z.of_nat i + 1)%Z with (Z.of_nat (S i)) by lia. rewrite (py_get_nat (t0 :: ts') (S i) t0) by lia.
    destruct (gap_total (nth i (t0 :: ts') t0) (nth (S i) (t0 :: ts') t0)) as [d Hd]. rewrite Hd.
    destruct (upd_total d (sampling_violation_counter s)) as [c' Hc']. rewrite Hc'.
    destruct (IH (set_sampling_violation_counter s c')) as [c Hc]; [intros j Hj; apply HL; right; exact Hj|].
    exists c. cbv zeta in Hc |- *. rewrite Hc. reflexivity.
Qed.

(* the generated evaluate() and get_value() *)
Theorem shell_gen_refines (s : St) (ds : dataset T) (ts : list T) :
  ds_time ds = Some ts -> 1 <= length ts -> specs s <> [] -> (forall x, a1 AR Neg x = neg x) ->
  let vod := var_object_dict (load s ds) in
  let w := trace_of vod in
  (forall nd, In nd (specs s) -> vars_bound vod (snd nd) = true /\ wf_bounds (snd nd) = true /\ wf_trace (snd nd) w (length ts)) ->
  exists r s',
    gen_evaluate AR gap upd_svc svc0 create_var s ds = Ok (r, s') /\
    Ok r = evaluate AR std (snd (last (specs s) (0, Var 0))) ts w /\
    inputs s' = inputs (load s ds) /\
    forall name id p, dict_get (phi_name_to_node_dict s) name = Some id -> In (id, p) (specs s) ->
      (forall p', In (id, p') (specs s) -> p' = p) ->
      gen_spec_get_value s' name = Ok (VCol (eval_off AR std p w (length ts))).
Proof.
  intros Htime Hn Hspecs Hneg vod w HF.
  unfold gen_evaluate, py_exist_ast. rewrite free_vars_loop, gen_set_variable_refines.
  fold (load s ds). unfold ds_time_get. rewrite Htime.
  unfold gen_visitAst. unfold py_len.
  set (s1 := set_results_time (load s ds) ts).
  assert (Hs1 : var_object_dict s1 = vod) by reflexivity.
  assert (Hsp : specs s1 = specs s).
  { unfold s1, load. simpl.
    assert (A1 : forall L s0, specs (fold_left bind_default L s0) = specs s0) by (induction L; intros; simpl; [reflexivity|rewrite IHL; reflexivity]).
    assert (A2 : forall L s0, specs (fold_left (bind_column ds) L s0) = specs s0) by (induction L; intros; simpl; [reflexivity|rewrite IHL; reflexivity]).
    rewrite A2, A1. reflexivity. }
  assert (Hph : phi_name_to_node_dict s1 = phi_name_to_node_dict s).
  { unfold s1, load. simpl.
    assert (A1 : forall L s0, phi_name_to_node_dict (fold_left bind_default L s0) = phi_name_to_node_dict s0) by (induction L; intros; simpl; [reflexivity|rewrite IHL; reflexivity]).
    assert (A2 : forall L s0, phi_name_to_node_dict (fold_left (bind_column ds) L s0) = phi_name_to_node_dict s0) by (induction L; intros; simpl; [reflexivity|rewrite IHL; reflexivity]).
    rewrite A2, A1. reflexivity. }
  rewrite Hsp in *. cbv zeta.
  rewrite (visit_loop (length ts) vod Hn Hneg (specs s) [] s1 Hs1) by exact HF.
  simpl app.
  set (outs := map (fun nd => colE (length ts) vod (snd nd)) (specs s)).
  assert (Hlast : py_get_o outs (Z.of_nat (length outs) - 1) = Ok (colE (length ts) vod (snd (last (specs s) (0, Var 0))))).
  { unfold outs. rewrite map_length. destruct (specs s) as [|nd0 L] eqn:EL; [contradiction|].
    unfold py_get_o. replace (Z.of_nat (length (nd0 :: L)) - 1)%Z with (Z.of_nat (length L)) by (simpl length; lia).
    set (f := fun nd : nat * formula => colE (length ts) vod (snd nd)).
    rewrite (py_get_nat _ (length L) (f (0, Var 0))) by (rewrite map_length; simpl; lia).
    rewrite map_nth. rewrite <- (nth_pred_last (nd0 :: L)). reflexivity. }

  rewrite Hlast. simpl.
  destruct ts as [|t0 ts'] eqn:Ets; [simpl in Hn; lia|]. rewrite <- Ets in *.
  replace (Z.of_nat (length ts) - 1)%Z with (Z.of_nat (length ts - 1)) by lia.
  rewrite py_range_0.
  match goal with |- context [py_for_o (map Z.of_nat ?L) ?b ?st] =>
    destruct (sampling_loop ts L st) as [c Hc] end.
  { intros i Hi. apply in_seq in Hi. lia. }
  rewrite Hc. unfold colE. simpl.
  eexists. eexists. split; [reflexivity|]. split; [reflexivity|]. split; [reflexivity|].
  intros name id p Hname Hin Huniq.
  unfold gen_spec_get_value, gen_ast_get_value, dict_mem.
  match goal with |- context [phi_name_to_node_dict ?X] =>
    change (phi_name_to_node_dict X) with (phi_name_to_node_dict s1) end.
  rewrite Hph, Hname. cbn [negb andb]. unfold dict_get_o at 1. rewrite Hname.
  match goal with |- context [results ?X] =>
    change (results X) with (fold_left (store (length ts) vod) (specs s) (results (load s ds))) end.
  unfold dict_get_o. rewrite (store_lookup (length ts) vod (specs s) _ id p Hin Huniq). reflexivity.
Qed.
End ShellGenCorrect.
Print Assumptions shell_gen_refines.
