(* DenseMerge.v — implementation layer of dense-time offline evaluation: the
   13-case merge of rtamt/semantics/stl/dense_time/offline/intersection.py
   (with its _append) and the point-wise visitors built on it. *)
From Coq Require Import List Bool Arith ZArith Lia.
From RV Require Import Val Syntax Rho Online Dense.
Import ListNotations.
Local Open Scope Z_scope.

Section Merge.
Context {VS : Val}.

(* time-stamps extended with +inf (the sample appended for the finitary interpretation) *)
Inductive tz := T (z : Z) | TInf.
Definition tlt (a b : tz) : bool :=
  match a, b with T x, T y => x <? y | T _, TInf => true | TInf, _ => false end.
Definition teq (a b : tz) : bool :=
  match a, b with T x, T y => x =? y | TInf, TInf => true | _, _ => false end.

Definition esig := list (tz * V).
Definition extend (s : dsig) : esig :=
  match s with
  | [] => []
  | _ => map (fun p => (T (fst p), snd p)) s ++ [(TInf, snd (last s (0, bot)))]
  end.

(* _append: drop a sample that repeats the previous value *)
Definition append_ (out : list (tz * V)) (item : tz * V) : list (tz * V) :=
  match rev out with
  | [] => [item]
  | (_, pv) :: _ => if veq pv (snd item) then out else out ++ [item]
  end.

(* one iteration of the while loop: the two leading pieces [p1,c1) and [p2,c2) *)
Inductive action := Pop1 | Pop2 | Emit1 (at2 : bool) | Emit2 (at2 : bool) | Bad.
(* EmitK b: emit a sample (at p2 if b, at p1 otherwise) and pop list K *)
Definition decide (p1 c1 p2 c2 : tz) : action :=
  if tlt c1 p2 then Pop1                                                        (* 1: precedes *)
  else if tlt p1 c1 && teq c1 p2 && tlt p2 c2 then Pop1                         (* 2: meets *)
  else if tlt p1 p2 && tlt p2 c1 && tlt c1 c2 then Emit1 true                   (* 3: overlaps *)
  else if tlt p1 p2 && tlt p2 c1 && teq c1 c2 then Emit1 true                   (* 4: finished by *)
  else if tlt p2 p1 && tlt p1 c1 && teq c1 c2 then Emit1 false                  (* 5: finishes *)
  else if tlt p1 p2 && tlt p2 c2 && tlt c2 c1 then Emit2 true                   (* 6: contains *)
  else if teq p1 p2 && tlt p2 c2 && tlt c2 c1 then Emit2 true                   (* 7: started by *)
  else if teq p1 p2 && tlt p2 c2 && teq c2 c1 then Emit1 true                   (* 8: equal *)
  else if teq p1 p2 && tlt p2 c1 && tlt c1 c2 then Emit1 false                  (* 9: starts *)
  else if tlt p2 p1 && tlt p1 c1 && tlt c1 c2 then Emit1 false                  (* 10: during *)
  else if tlt p2 c2 && teq c2 p1 && tlt p1 c1 then Pop2                         (* 11: met by *)
  else if tlt p2 p1 && tlt p1 c2 && tlt c2 c1 then Emit2 false                  (* 12: overlapped by *)
  else if tlt c2 p1 then Pop2                                                   (* 13: preceded by *)
  else Bad.

(* None = 'Unexpected case in the intersection' *)
Fixpoint isect_loop (fuel : nat) (f : V -> V -> V) (l1 l2 : esig) (out : list (tz * V)) : option (list (tz * V)) :=
  match fuel with
  | O => Some out
  | S fuel' =>
    match l1, l2 with
    | (p1, v1) :: ((c1, _) :: _) as r1, (p2, v2) :: ((c2, _) :: _) as r2 =>
        match decide p1 c1 p2 c2 with
        | Pop1 => isect_loop fuel' f r1 l2 out
        | Pop2 => isect_loop fuel' f l1 r2 out
        | Emit1 b => isect_loop fuel' f r1 l2 (append_ out (if b then p2 else p1, f v1 v2))
        | Emit2 b => isect_loop fuel' f l1 r2 (append_ out (if b then p2 else p1, f v1 v2))
        | Bad => None
        end
    | _, _ => Some out
    end
  end.

Definition finite (l : list (tz * V)) : dsig :=
  flat_map (fun p => match fst p with T z => [(z, snd p)] | TInf => [] end) l.

Definition isect (f : V -> V -> V) (s1 s2 : dsig) : option dsig :=
  match s1, s2 with
  | [], _ | _, [] => Some []
  | _, _ => option_map finite (isect_loop (length s1 + length s2 + 2) f (extend s1) (extend s2) [])
  end.

End Merge.
