(* Laws.v — C18: temporal dualities and expansion laws of rho. *)
From Coq Require Import List Bool Arith Lia.
From RV Require Import Val Syntax Rho ListFacts OfflineCorrect OnlineCorrect.
Import ListNotations.

Section Laws.
Context {VS : Val} (AR : Arith VS).
Variable pk : formula -> formula -> pkind.
Variables (w : trace) (n : nat).
Notation R := (fun p => rho AR pk p w n).

Lemma law_not_evt a b p t : R (Not (EvT a b p)) t = R (AlwT a b (Not p)) t.
Proof. cbn [rho]. destruct (n <=? t + a); [apply neg_bot|]. apply neg_wmax. Qed.

Lemma law_not_alwt a b p t : R (Not (AlwT a b p)) t = R (EvT a b (Not p)) t.
Proof. cbn [rho]. destruct (n <=? t + a); [apply neg_top|]. apply neg_wmin. Qed.

Lemma law_not_oncet a b p t : R (Not (OnceT a b p)) t = R (HistT a b (Not p)) t.
Proof. cbn [rho]. destruct (t <? a); [apply neg_bot|]. apply neg_wmax. Qed.

Lemma law_not_once p t : R (Not (Once p)) t = R (Hist (Not p)) t.
Proof. cbn [rho]. apply neg_wmax. Qed.

Lemma law_not_ev p t : R (Not (Ev p)) t = R (Alw (Not p)) t.
Proof. cbn [rho]. apply neg_wmax. Qed.

Lemma law_implies p q t : R (Implies p q) t = R (Or (Not p) q) t.
Proof. reflexivity. Qed.

Lemma law_evt_evt a b c d p t : a <= b -> c <= d ->
  R (EvT a b (EvT c d p)) t = R (EvT (a + c) (b + d) p) t.
Proof.
  intros Hab Hcd. cbn [rho]. apply eq_by_ub. intros z.
  destruct (Nat.leb_spec n (t + a)) as [E1|E1]; destruct (Nat.leb_spec n (t + (a + c))) as [E2|E2];
  try lia; try tauto.
  - (* inner windows all out of the trace *)
    rewrite wmax_ub. split; [intros; apply bot_le|]. intros _ i Hi.
    destruct (Nat.leb_spec n (i + c)) as [E3|E3]; [apply bot_le|lia].
  - rewrite !wmax_ub. split.
    + intros H j Hj. specialize (H (Nat.max (t + a) (j - d)) ltac:(lia)).
      destruct (Nat.leb_spec n (Nat.max (t + a) (j - d) + c)) as [E3|E3]; [lia|].
      rewrite wmax_ub in H. apply H. lia.
    + intros H i Hi. destruct (Nat.leb_spec n (i + c)) as [E3|E3]; [apply bot_le|].
      rewrite wmax_ub. intros j Hj. apply H. lia.
Qed.

Lemma law_oncet_oncet a b c d p t : a <= b -> c <= d ->
  R (OnceT a b (OnceT c d p)) t = R (OnceT (a + c) (b + d) p) t.
Proof.
  intros Hab Hcd. cbn [rho]. apply eq_by_ub. intros z.
  destruct (Nat.ltb_spec t a) as [E1|E1]; destruct (Nat.ltb_spec t (a + c)) as [E2|E2];
  try lia; try tauto.
  - rewrite wmax_ub. split; [intros; apply bot_le|]. intros _ i Hi.
    destruct (Nat.ltb_spec i c) as [E3|E3]; [apply bot_le|lia].
  - rewrite !wmax_ub. split.
    + intros H j Hj. specialize (H (Nat.min (t - a) (j + d)) ltac:(lia)).
      destruct (Nat.ltb_spec (Nat.min (t - a) (j + d)) c) as [E3|E3]; [lia|].
      rewrite wmax_ub in H. apply H. lia.
    + intros H i Hi. destruct (Nat.ltb_spec i c) as [E3|E3]; [apply bot_le|].
      rewrite wmax_ub. intros j Hj. apply H. lia.
Qed.

Lemma law_since p q t : R (Since p q) t = R (Or q (And p (SPrev (Since p q)))) t.
Proof.
  cbn [rho]. fold (since_spec (R p) (R q) 0 t).
  destruct t as [|j].
  - rewrite since_spec_0, vmin_bot_r, vmax_bot_r. reflexivity.
  - fold (since_spec (R p) (R q) 0 j). rewrite since_spec_S. apply vmax_comm.
Qed.

(* until: value at t from the value at t+1 *)
Lemma until_spec_rec (r1 r2 : nat -> V) hi t : t <= hi ->
  until_spec r1 r2 hi t = vmax (r2 t) (vmin (r1 t) (if S t <=? hi then until_spec r1 r2 hi (S t) else bot)).
Proof.
  intros Ht. unfold until_spec. rewrite wmax_cons by lia.
  replace (t - t) with 0 by lia. unfold rmin at 1. simpl map. rewrite minl_nil, vmin_top_r. f_equal.
  destruct (S t <=? hi) eqn:E; [apply Nat.leb_le in E|apply Nat.leb_gt in E].
  - rewrite (wmax_ext _ (fun t' => vmin (vmin (r2 t') (rmin r1 (S t) (t' - S t))) (r1 t)) (S t) hi).
    + rewrite wmax_vmin_const. apply vmin_comm.
    + intros i Hi. rewrite <- vmin_assoc. f_equal.
      unfold rmin. replace (i - t) with (S (i - S t)) by lia. simpl. fold (minl (map r1 (seq (S t) (i - S t)))).
      apply vmin_comm.
  - rewrite wmax_empty by lia. rewrite vmin_bot_r. reflexivity.
Qed.

Lemma law_until p q t : t < n -> R (Until p q) t = R (Or q (And p (SNext (Until p q)))) t.
Proof.
  intros Ht. cbn [rho]. fold (until_spec (R p) (R q) (n - 1) t).
  rewrite until_spec_rec by lia.
  replace (S t <=? n - 1) with (S t <? n).
  - destruct (S t <? n); reflexivity.
  - destruct (Nat.ltb_spec (S t) n); destruct (Nat.leb_spec (S t) (n - 1)); try reflexivity; lia.
Qed.

End Laws.
