(* ParserDecl.v — the WHOLE rule 'specification' of LtlParser.g4 / StlParser.g4:

     specification : spec? modimport* (declaration | annotation)* assertion+ ;   specification_file : specification EOF

   (header, imports, variable / constant declarations, annotations, assertions) and the visitors that give the
   declarations their meaning (ltl/parser_visitor.py: visitSpecificationId, visitModImport, visitVariableDeclaration,
   visitConstantDeclaration, visitRosTopic, visitExprId, visitAssertion; abstract_ast_parser.py: declare_var,
   declare_const, create_var_from_name, import_module, set_var_topic, set_var_io_type).

   Parsing.  Declarations have no terminator, and an initialiser '= expression' may be followed by an assertion that
   starts with a unary '-'.  The ANTLR parser decides such places by unbounded look-ahead and raises
   'Ambiguity ERROR' (an RTAMTException, through the error listener) when two alternatives survive.  The model
   therefore enumerates ALL derivations of the body (the only choice points are: '= literal' against
   '= expression', and where an initialiser ends in front of a '-') and accepts iff there is exactly one.

   Elaboration.  A state with the tables of the AST object; every assertion is dumped by the EXISTING Elab.dump
   under the constants / sub-specifications the text has built so far. *)
From Coq Require Import List Bool Arith ZArith NArith QArith Ascii String Lia DecimalString.
From RV Require Import Lexer PrecTable Parser Elab Offline ParserTables.
Import ListNotations.
Local Open Scope string_scope.

(* ================================================================== *)
(*  1. Syntax                                                          *)
(* ================================================================== *)

(* domainType : 'float' | 'int' | 'long' | 'complex' | Identifier   ('real' and 'bool' are tokens no rule uses) *)
Inductive dtype := DFloat | DInt | DLong | DComplex | DName (s : string).
Definition dtype_text (d : dtype) : string :=
  match d with DFloat => "float" | DInt => "int" | DLong => "long" | DComplex => "complex" | DName s => s end.

(* assignment : '=' literal #AsgnLiteral | '=' expression #AsgnExpr *)
Inductive vinit := VLit (s : string) | VExpr (e : sexpr).

Inductive item :=
| IVar (io : option bool) (ty : dtype) (name : string) (init : option vinit)   (* io: Some true = input, Some false = output *)
| IConst (ty : dtype) (name : string) (lit : string)
| ITopic (v t : string).

Definition assertion := (option string * sexpr)%type.

Record file := {
  f_name : option string;                 (* 'specification' Identifier *)
  f_imports : list (string * string);     (* 'from' module 'import' name *)
  f_items : list item;
  f_asserts : list assertion
}.

Definition parse_dtype (ts : list token) : option (dtype * list token) :=
  match ts with
  | TKw KFloat :: r => Some (DFloat, r)
  | TKw KInt :: r => Some (DInt, r)
  | TKw KLong :: r => Some (DLong, r)
  | TKw KComplex :: r => Some (DComplex, r)
  | TId s :: r => Some (DName s, r)
  | _ => None
  end.

(* ioType? domainType Identifier *)
Definition parse_typed_name (io : option bool) (ts : list token) : option (option bool * dtype * string * list token) :=
  match parse_dtype ts with
  | Some (ty, TId n :: r) => Some (io, ty, n, r)
  | _ => None
  end.
Definition parse_varhead (ts : list token) : option (option bool * dtype * string * list token) :=
  match ts with
  | TKw KInput :: r => parse_typed_name (Some true) r
  | TKw KOutput :: r => parse_typed_name (Some false) r
  | _ => parse_typed_name None ts
  end.

(* positions of the '-' tokens *)
Fixpoint minus_positions (i : nat) (ts : list token) : list nat :=
  match ts with
  | [] => []
  | TSym SMinus :: r => i :: minus_positions (S i) r
  | _ :: r => minus_positions (S i) r
  end.

Section ParseFile.
Variable stl : bool.

(* an initialiser that ends in front of the '-' at position i: the tokens before it are one whole expression *)
Definition cut_at (ts : list token) (i : nat) : list (vinit * list token) :=
  match parse_expr stl (S (List.length ts)) 0 (firstn i ts) with
  | Some (e, []) => [(VExpr e, skipn i ts)]
  | _ => []
  end.

(* every way of reading an initialiser off the front of ts (the tokens after '=') *)
Definition init_cands (ts : list token) : list (vinit * list token) :=
  ((match ts with TInt l :: r | TReal l :: r => [(VLit l, r)] | _ => [] end)
   ++ (match parse_expr stl (S (List.length ts)) 0 ts with Some (e, r) => [(VExpr e, r)] | None => [] end)
   ++ flat_map (cut_at ts) (minus_positions 0 ts))%list.

(* The ambiguity listener also rejects some texts that have ONE derivation (known, DESIGN section 7: 'Ambiguity ERROR'
   on derivable unparenthesised texts).  In an assertion, outside all parentheses, a binary '-' that is taken by the
   loop of an OPERAND (the right operand of a comparison / Boolean / temporal operator, the operand of a prefix operator
   other than '-') rather than by the loop of the whole expression: SLL prediction cannot rule out that an assertion
   '- ...;' starts there, and full-context prediction, which ignores the precedence predicates of the outer loops, then
   sees two ways of attaching the '-'.  Test: the '-' at position i of the body is captured by an operand iff appending
   '- d' to the tokens before it does not give (tree of these tokens) - d. *)
(* equality of two trees, written out (the decision procedure sexpr_eq_dec of ParserTables.v is a proof term of millions of lines once
   extracted); operators are compared through their names, which are pairwise different *)
Definition itime_eqb (a b : itime) : bool :=
  match a, b with
  | ILit s u, ILit s' u' | IId s u, IId s' u' => String.eqb s s' && String.eqb (unit_text u) (unit_text u')
  | _, _ => false
  end.
Definition oiv_eqb (a b : option interval) : bool :=
  match a, b with
  | None, None => true
  | Some (x, y), Some (x', y') => itime_eqb x x' && itime_eqb y y'
  | _, _ => false
  end.
Fixpoint sexpr_eqb (a b : sexpr) : bool :=
  match a, b with
  | EId s, EId s' | ELit s, ELit s' => String.eqb s s'
  | EUn o iv e, EUn o' iv' e' => String.eqb (un_text o) (un_text o') && oiv_eqb iv iv' && sexpr_eqb e e'
  | EFun1 f e, EFun1 f' e' => String.eqb (f1_text f) (f1_text f') && sexpr_eqb e e'
  | EFun2 f e1 e2, EFun2 f' e1' e2' => String.eqb (f2_text f) (f2_text f') && sexpr_eqb e1 e1' && sexpr_eqb e2 e2'
  | EBin o iv e1 e2, EBin o' iv' e1' e2' => String.eqb (bin_text o) (bin_text o') && oiv_eqb iv iv' && sexpr_eqb e1 e1' && sexpr_eqb e2 e2'
  | _, _ => false
  end.

Definition minus_captured (body : list token) (i : nat) : bool :=
  let fuel := S (S (S (List.length body))) in
  match parse_expr stl fuel 0 (firstn i body) with
  | Some (t, []) =>
      match parse_expr stl fuel 0 (firstn i body ++ [TSym SMinus; TId "d"]) with
      | Some (EBin BSub None t' (EId _), []) => negb (sexpr_eqb t t')
      | _ => true
      end
  | _ => false
  end.
Definition ambiguous_minus (body : list token) : bool := existsb (minus_captured body) (minus_positions 0 body).

(* the tokens of the expression of an assertion: without a leading 'Identifier =' and the final ';' *)
Definition assertion_body (used : list token) : list token :=
  removelast (match used with TId _ :: TSym SEq :: r => r | _ => used end).

(* assertion+ EOF, as Parser.parse_assertions, with the rejection above *)
Fixpoint parse_asserts (fuel : nat) (ts : list token) {struct fuel} : option (list assertion) :=
  match fuel with
  | O => None
  | S f =>
    match parse_assertion stl ts with
    | Some (a, r) =>
        if ambiguous_minus (assertion_body (firstn (List.length ts - List.length r) ts)) then None
        else match r with
             | [] => Some [a]
             | _ => option_map (cons a) (parse_asserts f r)
             end
    | None => None
    end
  end.

Definition with_item (it : item) (l : list (list item * list token)) : list (list item * list token) :=
  map (fun p => (it :: fst p, snd p)) l.

(* annotation : '@' 'topic' '(' Identifier ',' Identifier ')'   (the tokens after '@') *)
Definition parse_topic (r : list token) : option (item * list token) :=
  match r with
  | TKw KTopic :: TSym SLParen :: TId v :: TSym SComma :: TId t :: TSym SRParen :: r' => Some (ITopic v t, r')
  | _ => None
  end.

(* constantDeclaration : 'const' domainType Identifier '=' literal   (the tokens after 'const') *)
Definition parse_const (r : list token) : option (item * list token) :=
  match parse_dtype r with
  | Some (ty, TId n :: TSym SEq :: TInt l :: r') | Some (ty, TId n :: TSym SEq :: TReal l :: r') => Some (IConst ty n l, r')
  | _ => None
  end.

(* (declaration | annotation)* assertion+ EOF : all derivations, each as its items and the tokens of its assertions
   (which Parser.parse_spec accepts) *)
Fixpoint parse_body (fuel : nat) (ts : list token) {struct fuel} : list (list item * list token) :=
  match fuel with
  | O => []
  | S f =>
    match ts with
    | TSym SAt :: r =>
        match parse_topic r with
        | Some (it, r') => with_item it (parse_body f r')
        | None => []
        end
    | TKw KConst :: r =>
        match parse_const r with
        | Some (it, r') => with_item it (parse_body f r')
        | None => []
        end
    | _ =>
        match parse_varhead ts with
        | Some (io, ty, n, r) =>
            match r with
            | TSym SEq :: r1 =>
                flat_map (fun c => with_item (IVar io ty n (Some (fst c))) (parse_body f (snd c))) (init_cands r1)
            | _ => with_item (IVar io ty n None) (parse_body f r)
            end
        | None =>
            match parse_spec stl ts with
            | Some _ => [([], ts)]
            | None => []
            end
        end
    end
  end.

(* ( 'specification' Identifier )? *)
Definition parse_header (ts : list token) : option (option string * list token) :=
  match ts with
  | TKw KSpecification :: TId n :: r => Some (Some n, r)
  | TKw KSpecification :: _ => None
  | _ => Some (None, ts)
  end.

(* ( 'from' Identifier 'import' Identifier )* *)
Fixpoint parse_imports (ts : list token) {struct ts} : option (list (string * string) * list token) :=
  match ts with
  | TKw KFrom :: r =>
      match r with
      | TId m :: TKw KImport :: TId n :: r' =>
          match parse_imports r' with
          | Some (l, r'') => Some ((m, n) :: l, r'')
          | None => None
          end
      | _ => None
      end
  | _ => Some ([], ts)
  end.

(* specification EOF: accepted iff the token list has exactly one derivation, and no assertion of it trips the listener *)
Definition parse_file (ts : list token) : option file :=
  match parse_header ts with
  | None => None
  | Some (nm, r0) =>
      match parse_imports r0 with
      | None => None
      | Some (imps, r1) =>
          match parse_body (S (List.length r1)) r1 with
          | [(its, ats)] =>
              match parse_asserts (S (List.length ats)) ats with
              | Some A => Some {| f_name := nm; f_imports := imps; f_items := its; f_asserts := A |}
              | None => None
              end
          | _ => None
          end
      end
  end.

End ParseFile.

Definition parse_file_text (stl : bool) (s : string) : option file :=
  let l := to_chars s in
  match lex (S (List.length l)) l with
  | Some ts => parse_file stl (prepare ts)
  | None => None
  end.

(* ================================================================== *)
(*  2. The import oracle                                               *)
(* ================================================================== *)

(* what reading a field of an instance gives: a number (int / float), something else or no such attribute
   (RTAMTException either way), or an exception other than AttributeError (which nothing catches) *)
Inductive fres := FNum | FBad | FRaise.

Record tyinfo := {
  ty_ctor_escapes : bool;                  (* the constructor raises a BaseException that is not an Exception (only Exception is caught) *)
  ty_numeric : bool;                       (* isinstance(instance, (int, float)) *)
  ty_fields : list (string * fres)         (* dotted paths below an instance; a path that is not listed: FBad *)
}.
Record modinfo := {
  m_import_escapes : bool;                 (* importing raises a BaseException outside Exception / SystemExit *)
  m_types : list (string * tyinfo)         (* the names that are classes whose instantiation does not raise an Exception *)
}.
(* a module that is not listed cannot be imported; a name that is not listed in its module is missing, not a class,
   or a class that cannot be instantiated: RTAMTException in all three cases *)
Definition oracle := list (string * modinfo).

Fixpoint lookup {A : Type} (l : list (string * A)) (x : string) : option A :=
  match l with [] => None | (k, v) :: r => if String.eqb k x then Some v else lookup r x end.

(* a benign oracle: nothing escapes the 'except' clauses of the visitor *)
Definition ty_benign (t : tyinfo) : bool :=
  negb (ty_ctor_escapes t) && forallb (fun p => match snd p with FRaise => false | _ => true end) (ty_fields t).
Definition mod_benign (m : modinfo) : bool :=
  negb (m_import_escapes m) && forallb (fun p => ty_benign (snd p)) (m_types m).
Definition orc_benign (orc : oracle) : bool := forallb (fun p => mod_benign (snd p)) orc.

(* ================================================================== *)
(*  3. Elaboration                                                     *)
(* ================================================================== *)

(* Python dict: an existing key keeps its place, a new key goes to the end *)
Fixpoint upd (l : list (string * string)) (k v : string) : list (string * string) :=
  match l with
  | [] => [(k, v)]
  | (k', v') :: r => if String.eqb k' k then (k, v) :: r else (k', v') :: upd r k v
  end.
Definition smem (x : string) (l : list string) : bool := existsb (String.eqb x) l.
Definition sadd (x : string) (l : list string) : list string := if smem x l then l else (l ++ [x])%list.
Definition sdel (x : string) (l : list string) : list string := filter (fun y => negb (String.eqb x y)) l.
Definition kmem (x : string) (l : list (string * string)) : bool :=
  match assoc l x with Some _ => true | None => false end.

(* id.split('.'): the head, and the other components joined by '.' again *)
Fixpoint head_tail (s : string) : string * string :=
  match s with
  | EmptyString => (EmptyString, EmptyString)
  | String c r => if Ascii.eqb c "."%char then (EmptyString, r) else let '(h, t) := head_tail r in (String c h, t)
  end.
Fixpoint split_dots (s : string) : list string :=
  match s with
  | EmptyString => [EmptyString]
  | String c r =>
      if Ascii.eqb c "."%char then EmptyString :: split_dots r
      else match split_dots r with h :: t => String c h :: t | [] => [String c EmptyString] end
  end.

Record dstate := {
  d_name : option string;                  (* self.name when the text gives one *)
  d_mods : list (string * string);         (* self.modules: imported name -> module it came from *)
  d_vars : list string;                    (* self.vars *)
  d_types : list (string * string);        (* var_type_dict *)
  d_io : list (string * string);           (* var_io_dict *)
  d_consts : list (string * string);       (* const_val_dict *)
  d_topics : list (string * string);       (* var_topic_dict *)
  d_free : list string;                    (* free_vars *)
  d_subs : list (string * string);         (* var_subspec_dict: name -> dump of the node *)
  d_reads : list (string * list string);   (* the variables each of these nodes reads *)
  d_out : option (string * string);        (* out_var, out_var_field *)
  d_asts : list string                     (* specs *)
}.
Definition dstate0 : dstate :=
  {| d_name := None; d_mods := []; d_vars := []; d_types := []; d_io := []; d_consts := []; d_topics := [];
     d_free := []; d_subs := []; d_reads := []; d_out := None; d_asts := [] |}.

Definition penv_of (du : kw) (st : dstate) : penv :=
  {| consts := d_consts st; subspecs := d_subs st; default_unit := du |}.

(* what an instance of a type answers *)
Record inst := { i_numeric : bool; i_field : string -> fres }.

Definition all_in (names : list string) (tail : string) : fres :=
  if forallb (fun c => smem c names) (split_dots tail) then FNum else FBad.
(* float(): .real / .imag are floats again; int(): also .numerator / .denominator; complex(): .real / .imag are floats *)
Definition inst_float : inst := {| i_numeric := true; i_field := all_in ["real"; "imag"] |}.
Definition inst_int : inst := {| i_numeric := true; i_field := all_in ["real"; "imag"; "numerator"; "denominator"] |}.
Definition inst_complex : inst := {| i_numeric := false; i_field := all_in ["real"; "imag"] |}.

Section Elab.
Variable orc : oracle.
Variable du : kw.

(* create_var_from_name, for a name whose type is ty *)
Definition create_var (st : dstate) (ty : string) : outcome inst :=
  if String.eqb ty "float" then Ok inst_float
  else if String.eqb ty "int" then Ok inst_int
  else if String.eqb ty "complex" then Ok inst_complex
  else
    match assoc (d_mods st) ty with
    | None => Rtamt                                                 (* 'does not seem to be imported' *)
    | Some m =>
        match lookup orc m with
        | None => Rtamt
        | Some mi =>
            match lookup (m_types mi) ty with
            | None => Rtamt                                         (* missing / 'is not a type' / 'cannot be created' *)
            | Some ti =>
                if ty_ctor_escapes ti then Crash
                else Ok {| i_numeric := ty_numeric ti;
                           i_field := fun tail => match lookup (ty_fields ti) tail with Some r => r | None => FBad end |}
            end
        end
    end.

(* the check shared by visitExprId and visitAssertion on a declared variable *)
Definition check_use (i : inst) (tail : string) : outcome unit :=
  if String.eqb tail "" then (if i_numeric i then Ok tt else Rtamt)
  else match i_field i tail with FNum => Ok tt | FBad => Rtamt | FRaise => Crash end.

(* declare_var *)
Definition declare_var (st : dstate) (name ty : string) : outcome dstate :=
  let st1 := {| d_name := d_name st; d_mods := d_mods st; d_vars := sadd name (d_vars st);
                d_types := upd (d_types st) name ty; d_io := upd (d_io st) name "output"; d_consts := d_consts st;
                d_topics := upd (d_topics st) name ("rtamt/" ++ name); d_free := sadd name (d_free st);
                d_subs := d_subs st; d_reads := d_reads st; d_out := d_out st; d_asts := d_asts st |} in
  match create_var st1 ty with
  | Ok _ => Ok st1
  | Rtamt => Rtamt
  | Crash => Crash
  end.

Definition set_io (st : dstate) (name io : string) : dstate :=
  {| d_name := d_name st; d_mods := d_mods st; d_vars := d_vars st; d_types := d_types st;
     d_io := upd (d_io st) name io; d_consts := d_consts st; d_topics := d_topics st; d_free := d_free st;
     d_subs := d_subs st; d_reads := d_reads st; d_out := d_out st; d_asts := d_asts st |}.

(* visitExprId *)
Definition visit_id (st : dstate) (s : string) : outcome dstate :=
  if kmem s (d_consts st) then Ok st
  else if kmem s (d_subs st) then Ok st
  else
    let '(h, t) := head_tail s in
    match assoc (d_types st) h with
    | Some ty =>
        match create_var st ty with
        | Ok i => match check_use i t with Ok _ => Ok st | Rtamt => Rtamt | Crash => Crash end
        | Rtamt => Rtamt
        | Crash => Crash
        end
    | None => if String.eqb t "" then declare_var st h "float" else Rtamt     (* 'refers to undeclared variable' *)
    end.

Definition visit_interval (st : dstate) (iv : option interval) : outcome dstate :=
  match iv with
  | None => Ok st
  | Some i => match check_interval (penv_of du st) i with Some _ => Ok st | None => Rtamt end
  end.

Definition bind {A B : Type} (x : outcome A) (f : A -> outcome B) : outcome B :=
  match x with Ok a => f a | Rtamt => Rtamt | Crash => Crash end.

(* the visit of an expression, in the order of the visitor (operands left to right, then the interval):
   identifiers are resolved and implicitly declared, intervals are checked *)
Fixpoint visit (st : dstate) (e : sexpr) {struct e} : outcome dstate :=
  match e with
  | EId s => visit_id st s
  | ELit _ => Ok st
  | EUn _ iv a => bind (visit st a) (fun st1 => visit_interval st1 iv)
  | EFun1 _ a => visit st a
  | EFun2 _ a b => bind (visit st a) (fun st1 => visit st1 b)
  | EBin _ iv a b => bind (visit st a) (fun st1 => bind (visit st1 b) (fun st2 => visit_interval st2 iv))
  end.

(* the node of an expression, by Elab.dump (None: a literal outside the fragment of Elab) *)
Definition visit_dump (st : dstate) (e : sexpr) : outcome (dstate * string) :=
  bind (visit st e) (fun st1 => match dump (penv_of du st1) e with Some d => Ok (st1, d) | None => Rtamt end).

(* the variables the node of e reads (Variable nodes, through shared sub-specification nodes) *)
Fixpoint reads (st : dstate) (e : sexpr) : list string :=
  match e with
  | EId s =>
      if kmem s (d_consts st) then []
      else match lookup (d_reads st) s with
           | Some l => l
           | None => [fst (head_tail s)]
           end
  | ELit _ => []
  | EUn _ _ a | EFun1 _ a => reads st a
  | EFun2 _ a b | EBin _ _ a b => (reads st a ++ reads st b)%list
  end.

(* literal.getText() of a constant declaration: what float() cannot read (hexadecimal, binary) becomes str(int(text, 0)) *)
Definition hex_val (c : ascii) : N :=
  let n := N.of_nat (nat_of_ascii c) in
  if (48 <=? n)%N && (n <=? 57)%N then (n - 48)%N
  else if (65 <=? n)%N && (n <=? 70)%N then (n - 55)%N
  else (n - 87)%N.
Fixpoint radix_val (b : N) (acc : N) (l : chars) : N :=
  match l with [] => acc | c :: r => radix_val b (b * acc + hex_val c)%N r end.
Definition norm_lit (s : string) : string :=
  match to_chars s with
  | "0"%char :: x :: r =>
      if (Ascii.eqb x "x" || Ascii.eqb x "X")%char then NilZero.string_of_uint (N.to_uint (radix_val 16 0 r))
      else if (Ascii.eqb x "b" || Ascii.eqb x "B")%char then NilZero.string_of_uint (N.to_uint (radix_val 2 0 r))
      else s
  | _ => s
  end.

Definition elab_item (st : dstate) (it : item) : outcome dstate :=
  match it with
  | IVar io ty n init =>
      (* declare_var; the io signature; then visitChildren: an initialiser expression is VISITED and its node dropped *)
      bind (declare_var st n (dtype_text ty)) (fun st1 =>
        let st2 := match io with Some true => set_io st1 n "input" | _ => st1 end in
        match init with
        | Some (VExpr e) => bind (visit_dump st2 e) (fun r => Ok (fst r))
        | _ => Ok st2
        end)
  | IConst ty n lit =>
      if smem n (d_vars st) then Rtamt                               (* 'Constant already declared' *)
      else Ok {| d_name := d_name st; d_mods := d_mods st; d_vars := sadd n (d_vars st); d_types := d_types st;
                 d_io := d_io st; d_consts := upd (d_consts st) n (norm_lit lit); d_topics := d_topics st;
                 d_free := d_free st; d_subs := d_subs st; d_reads := d_reads st; d_out := d_out st; d_asts := d_asts st |}
  | ITopic v t =>
      if negb (smem v (d_vars st)) then Ok st
      else if kmem v (d_consts st) then Ok st
      else Ok {| d_name := d_name st; d_mods := d_mods st; d_vars := d_vars st; d_types := d_types st;
                 d_io := d_io st; d_consts := d_consts st; d_topics := upd (d_topics st) v t;
                 d_free := d_free st; d_subs := d_subs st; d_reads := d_reads st; d_out := d_out st; d_asts := d_asts st |}
  end.

Fixpoint elab_items (st : dstate) (l : list item) : outcome dstate :=
  match l with
  | [] => Ok st
  | it :: r => bind (elab_item st it) (fun st1 => elab_items st1 r)
  end.

(* visitAssertion *)
Definition elab_assert (st : dstate) (a : assertion) : outcome dstate :=
  let '(nm, e) := a in
  bind (visit_dump st e) (fun r =>
    let '(st1, d) := r in
    let id := match nm with Some s => s | None => "out" end in
    let '(h, t) := head_tail id in
    let rd := reads st1 e in
    let finish (vars : list string) :=
      Ok {| d_name := d_name st1; d_mods := d_mods st1; d_vars := vars; d_types := d_types st1; d_io := d_io st1;
            d_consts := d_consts st1; d_topics := d_topics st1;
            d_free := d_free st1;       (* whether the written variable stays an input is decided when every assertion is known: finalize_free *)
            d_subs := (id, d) :: d_subs st1; d_reads := (id, rd) :: d_reads st1;
            d_out := Some (h, t); d_asts := (d_asts st1 ++ [d])%list |} in
    match assoc (d_types st1) h with
    | Some ty =>
        bind (create_var st1 ty) (fun i => bind (check_use i t) (fun _ => finish (d_vars st1)))
    | None => if String.eqb t "" then finish (sadd h (d_vars st1)) else Rtamt
    end).

Fixpoint elab_asserts (st : dstate) (l : list assertion) : outcome dstate :=
  match l with
  | [] => Ok st
  | a :: r => bind (elab_assert st a) (fun st1 => elab_asserts st1 r)
  end.

(* visitModImport / import_module *)
Definition elab_import (st : dstate) (p : string * string) : outcome dstate :=
  let '(m, n) := p in
  match lookup orc m with
  | None => Rtamt                                                    (* 'The module cannot be loaded' *)
  | Some mi =>
      if m_import_escapes mi then Crash
      else Ok {| d_name := d_name st; d_mods := upd (d_mods st) n m; d_vars := d_vars st; d_types := d_types st;
                 d_io := d_io st; d_consts := d_consts st; d_topics := d_topics st; d_free := d_free st;
                 d_subs := d_subs st; d_reads := d_reads st; d_out := d_out st; d_asts := d_asts st |}
  end.
Fixpoint elab_imports (st : dstate) (l : list (string * string)) : outcome dstate :=
  match l with
  | [] => Ok st
  | p :: r => bind (elab_import st p) (fun st1 => elab_imports st1 r)
  end.

Definition with_name (st : dstate) (nm : option string) : dstate :=
  {| d_name := nm; d_mods := d_mods st; d_vars := d_vars st; d_types := d_types st; d_io := d_io st;
     d_consts := d_consts st; d_topics := d_topics st; d_free := d_free st; d_subs := d_subs st;
     d_reads := d_reads st; d_out := d_out st; d_asts := d_asts st |}.

(* visitSpecification: the children in the order of the text *)
Definition elab_file_from (st0 : dstate) (f : file) : outcome dstate :=
  bind (elab_imports (with_name st0 (f_name f)) (f_imports f)) (fun st1 =>
  bind (elab_items st1 (f_items f)) (fun st2 => elab_asserts st2 (f_asserts f))).
(* the end of visitSpecification: a variable that receives the result of an assertion (in the order of the text) is not an input,
   unless some assertion of the specification reads it (another field of the same object, or itself) and it is a declared variable;
   d_reads holds one entry per assertion, the last one first *)
Definition finalize_free (st : dstate) : dstate :=
  let written := rev (map (fun p => fst (head_tail (fst p))) (d_reads st)) in
  let fr := fold_left (fun fr h =>
                         if existsb (fun p => smem h (snd p)) (d_reads st)
                         then (if kmem h (d_types st) then sadd h fr else fr)
                         else sdel h fr) written (d_free st) in
  {| d_name := d_name st; d_mods := d_mods st; d_vars := d_vars st; d_types := d_types st; d_io := d_io st;
     d_consts := d_consts st; d_topics := d_topics st; d_free := fr; d_subs := d_subs st;
     d_reads := d_reads st; d_out := d_out st; d_asts := d_asts st |}.
Definition elab_file (f : file) : outcome dstate :=
  match elab_file_from dstate0 f with
  | Ok st => Ok (finalize_free st)
  | Rtamt => Rtamt
  | Crash => Crash
  end.

(* parse(): ok + tables and ASTs | RTAMTException (lexer, syntax or ambiguity error, visitor check) | other exception *)
Definition file_outcome (stl : bool) (text : string) : outcome dstate :=
  match parse_file_text stl text with
  | None => Rtamt
  | Some f => elab_file f
  end.

End Elab.

(* ================================================================== *)
(*  4. Rendering (for the correspondence check)                        *)
(* ================================================================== *)

Definition join (sep : string) (l : list string) : string :=
  match l with
  | [] => ""
  | x :: r => fold_left (fun acc y => acc ++ sep ++ y) r x
  end.
Definition render_tab (l : list (string * string)) : string := join "," (map (fun p => fst p ++ "=" ++ snd p) l).
Definition render (r : outcome dstate) : string :=
  match r with
  | Rtamt => "RTAMT"
  | Crash => "CRASH"
  | Ok st =>
      "OK name:" ++ (match d_name st with Some n => n | None => "-" end)
      ++ "|mods:" ++ render_tab (d_mods st)
      ++ "|vars:" ++ join "," (d_vars st)
      ++ "|types:" ++ render_tab (d_types st)
      ++ "|io:" ++ render_tab (d_io st)
      ++ "|consts:" ++ render_tab (d_consts st)
      ++ "|topics:" ++ render_tab (d_topics st)
      ++ "|free:" ++ join "," (d_free st)
      ++ "|out:" ++ (match d_out st with Some (h, t) => h ++ "," ++ t | None => "-" end)
      ++ "|asts:" ++ join ";" (d_asts st)
  end.

Definition run_file (orc : oracle) (text : string) : string := render (file_outcome orc KS true text).
