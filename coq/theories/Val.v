(* Val.v — the value domain of the model: a bounded total order with an
   order-reversing involution.  Python floats without NaN under <=, min, max,
   unary minus, +inf, -inf are the intended instance; Z with two infinities
   (ExtZ.v) is the executable one.  Everything temporal/Boolean in rtamt uses
   only this structure; arithmetic is an uninterpreted point-wise [Arith]. *)
From Coq Require Import List Bool Arith Lia.
Import ListNotations.

Class Val := {
  V : Type;
  leb : V -> V -> bool;
  neg : V -> V;
  top : V;
  bot : V;
  leb_refl : forall x, leb x x = true;
  leb_trans : forall x y z, leb x y = true -> leb y z = true -> leb x z = true;
  leb_antisym : forall x y, leb x y = true -> leb y x = true -> x = y;
  leb_total : forall x y, leb x y = true \/ leb y x = true;
  neg_invol : forall x, neg (neg x) = x;
  neg_anti : forall x y, leb x y = true -> leb (neg y) (neg x) = true;
  top_ge : forall x, leb x top = true;
  bot_le : forall x, leb bot x = true
}.

Inductive aop1 := Abs | Sqrt | Exp | Ln | Neg.
Inductive aop2 := Add | Sub | Mul | Div | Pow | Log.

(* point-wise arithmetic: no laws are needed by any lattice theorem *)
Record Arith (VS : Val) := { a1 : aop1 -> V -> V; a2 : aop2 -> V -> V -> V; azero : V }.
Arguments a1 {VS} _ _ _.
Arguments a2 {VS} _ _ _ _.
Arguments azero {VS} _.

Section ValFacts.
Context {VS : Val}.

Definition vmax (x y : V) : V := if leb x y then y else x.
Definition vmin (x y : V) : V := if leb x y then x else y.
Definition ltb (x y : V) : bool := negb (leb y x).
Definition veqb (x y : V) : bool := leb x y && leb y x.

Definition maxl (l : list V) : V := fold_right vmax bot l.
Definition minl (l : list V) : V := fold_right vmin top l.

Lemma leb_false x y : leb x y = false -> leb y x = true.
Proof. destruct (leb_total x y) as [H|H]; congruence. Qed.

Ltac ord_destr :=
  repeat match goal with
  | |- context [if leb ?a ?b then _ else _] => let E := fresh "E" in destruct (leb a b) eqn:E
  | H : context [if leb ?a ?b then _ else _] |- _ => let E := fresh "E" in destruct (leb a b) eqn:E
  | |- context [negb (leb ?a ?b)] => let E := fresh "E" in destruct (leb a b) eqn:E; cbn [negb andb orb] in *
  | |- context [leb ?a ?b && _] => let E := fresh "E" in destruct (leb a b) eqn:E; cbn [negb andb orb] in *
  end.
Ltac ord :=
  unfold vmax, vmin, ltb, veqb in *; ord_destr;
  repeat match goal with
  | H : leb ?a ?b = false |- _ => apply leb_false in H
  end;
  try reflexivity; try congruence; try assumption;
  try solve [ apply leb_antisym; eauto using leb_trans, leb_refl ];
  try solve [ eauto using leb_trans, leb_refl ].

Lemma vmax_comm x y : vmax x y = vmax y x. Proof. ord. Qed.
Lemma vmin_comm x y : vmin x y = vmin y x. Proof. ord. Qed.
Lemma vmax_idem x : vmax x x = x. Proof. ord. Qed.
Lemma vmin_idem x : vmin x x = x. Proof. ord. Qed.

Lemma vmax_lub x y z : leb (vmax x y) z = true <-> leb x z = true /\ leb y z = true.
Proof. split; [intros H; split|intros [H1 H2]]; ord. Qed.
Lemma vmin_glb x y z : leb z (vmin x y) = true <-> leb z x = true /\ leb z y = true.
Proof. split; [intros H; split|intros [H1 H2]]; ord. Qed.
Lemma vmax_ge_l x y : leb x (vmax x y) = true. Proof. ord; apply leb_refl. Qed.
Lemma vmax_ge_r x y : leb y (vmax x y) = true. Proof. ord; apply leb_refl. Qed.
Lemma vmin_le_l x y : leb (vmin x y) x = true. Proof. ord; apply leb_refl. Qed.
Lemma vmin_le_r x y : leb (vmin x y) y = true. Proof. ord; apply leb_refl. Qed.

Lemma vmax_assoc x y z : vmax x (vmax y z) = vmax (vmax x y) z.
Proof.
  apply leb_antisym; repeat (apply vmax_lub; split);
  eauto using leb_trans, vmax_ge_l, vmax_ge_r.
Qed.
Lemma vmin_assoc x y z : vmin x (vmin y z) = vmin (vmin x y) z.
Proof.
  apply leb_antisym; repeat (apply vmin_glb; split);
  eauto using leb_trans, vmin_le_l, vmin_le_r.
Qed.

Lemma neg_top : neg top = bot.
Proof.
  apply leb_antisym; [|apply bot_le].
  rewrite <- (neg_invol bot). apply neg_anti, top_ge.
Qed.
Lemma neg_bot : neg bot = top.
Proof. rewrite <- neg_top. apply neg_invol. Qed.

Lemma neg_anti_iff x y : leb (neg y) (neg x) = leb x y.
Proof.
  destruct (leb x y) eqn:E.
  - apply neg_anti; exact E.
  - destruct (leb (neg y) (neg x)) eqn:E'; [|reflexivity].
    apply neg_anti in E'. rewrite !neg_invol in E'. congruence.
Qed.

Lemma neg_vmax x y : neg (vmax x y) = vmin (neg x) (neg y).
Proof.
  unfold vmax, vmin. rewrite (neg_anti_iff y x).
  destruct (leb x y) eqn:E1; destruct (leb y x) eqn:E2; try reflexivity.
  - f_equal. apply leb_antisym; assumption.
  - apply leb_false in E1. congruence.
Qed.
Lemma neg_vmin x y : neg (vmin x y) = vmax (neg x) (neg y).
Proof.
  rewrite <- (neg_invol (vmax (neg x) (neg y))), neg_vmax, !neg_invol. reflexivity.
Qed.

Lemma vmax_bot_l x : vmax bot x = x. Proof. unfold vmax. rewrite bot_le. reflexivity. Qed.
Lemma vmax_bot_r x : vmax x bot = x. Proof. rewrite vmax_comm. apply vmax_bot_l. Qed.
Lemma vmin_top_l x : vmin top x = x.
Proof. unfold vmin. destruct (leb top x) eqn:E; [|reflexivity]. apply leb_antisym; [exact E|apply top_ge]. Qed.
Lemma vmin_top_r x : vmin x top = x. Proof. rewrite vmin_comm. apply vmin_top_l. Qed.
Lemma vmax_top_l x : vmax top x = top.
Proof. unfold vmax. destruct (leb top x) eqn:E; [|reflexivity]. apply leb_antisym; [apply top_ge|exact E]. Qed.
Lemma vmax_top_r x : vmax x top = top. Proof. rewrite vmax_comm. apply vmax_top_l. Qed.
Lemma vmin_bot_l x : vmin bot x = bot. Proof. unfold vmin. rewrite bot_le. reflexivity. Qed.
Lemma vmin_bot_r x : vmin x bot = bot. Proof. rewrite vmin_comm. apply vmin_bot_l. Qed.

Lemma vmin_vmax_distr x y z : vmin x (vmax y z) = vmax (vmin x y) (vmin x z).
Proof. ord. Qed.
Lemma vmax_vmin_distr x y z : vmax x (vmin y z) = vmin (vmax x y) (vmax x z).
Proof. ord. Qed.
Lemma vmax_absorb x y : vmax x (vmin x y) = x. Proof. ord. Qed.
Lemma vmin_absorb x y : vmin x (vmax x y) = x. Proof. ord. Qed.

Lemma vmax_mono x x' y y' : leb x x' = true -> leb y y' = true -> leb (vmax x y) (vmax x' y') = true.
Proof. intros. apply vmax_lub; split; eauto using leb_trans, vmax_ge_l, vmax_ge_r. Qed.
Lemma vmin_mono x x' y y' : leb x x' = true -> leb y y' = true -> leb (vmin x y) (vmin x' y') = true.
Proof. intros. apply vmin_glb; split; eauto using leb_trans, vmin_le_l, vmin_le_r. Qed.

(* ---- lists ---- *)
Lemma maxl_nil : maxl [] = bot. Proof. reflexivity. Qed.
Lemma minl_nil : minl [] = top. Proof. reflexivity. Qed.
Lemma maxl_cons x l : maxl (x :: l) = vmax x (maxl l). Proof. reflexivity. Qed.
Lemma minl_cons x l : minl (x :: l) = vmin x (minl l). Proof. reflexivity. Qed.

Lemma maxl_app l1 l2 : maxl (l1 ++ l2) = vmax (maxl l1) (maxl l2).
Proof.
  induction l1 as [|x l1 IH]; simpl.
  - rewrite vmax_bot_l. reflexivity.
  - rewrite !maxl_cons || idtac. fold (maxl (l1 ++ l2)). fold (maxl l1).
    rewrite IH. apply vmax_assoc.
Qed.
Lemma minl_app l1 l2 : minl (l1 ++ l2) = vmin (minl l1) (minl l2).
Proof.
  induction l1 as [|x l1 IH]; simpl.
  - rewrite vmin_top_l. reflexivity.
  - fold (minl (l1 ++ l2)). fold (minl l1). rewrite IH. apply vmin_assoc.
Qed.

Lemma neg_maxl l : neg (maxl l) = minl (map neg l).
Proof.
  induction l as [|x l IH]; simpl.
  - apply neg_bot.
  - fold (maxl l). fold (minl (map neg l)). rewrite neg_vmax, IH. reflexivity.
Qed.
Lemma neg_minl l : neg (minl l) = maxl (map neg l).
Proof.
  induction l as [|x l IH]; simpl.
  - apply neg_top.
  - fold (minl l). fold (maxl (map neg l)). rewrite neg_vmin, IH. reflexivity.
Qed.

Lemma maxl_repeat_bot k : maxl (repeat bot k) = bot.
Proof. induction k as [|k IH]; simpl; [reflexivity|]. fold (maxl (repeat bot k)). rewrite IH. apply vmax_bot_l. Qed.
Lemma minl_repeat_top k : minl (repeat top k) = top.
Proof. induction k as [|k IH]; simpl; [reflexivity|]. fold (minl (repeat top k)). rewrite IH. apply vmin_top_l. Qed.

Lemma maxl_rev l : maxl (rev l) = maxl l.
Proof.
  induction l as [|x l IH]; simpl; [reflexivity|].
  rewrite maxl_app, IH. simpl. fold (maxl l). rewrite vmax_bot_r. apply vmax_comm.
Qed.
Lemma minl_rev l : minl (rev l) = minl l.
Proof.
  induction l as [|x l IH]; simpl; [reflexivity|].
  rewrite minl_app, IH. simpl. fold (minl l). rewrite vmin_top_r. apply vmin_comm.
Qed.

Lemma maxl_ub l z : leb (maxl l) z = true <-> forall x, In x l -> leb x z = true.
Proof.
  induction l as [|y l IH]; simpl.
  - split; [intros _ x []|intros _; apply bot_le].
  - fold (maxl l). rewrite vmax_lub, IH. split.
    + intros [H1 H2] x [<-|Hx]; auto.
    + intros H; split; auto.
Qed.
Lemma minl_lb l z : leb z (minl l) = true <-> forall x, In x l -> leb z x = true.
Proof.
  induction l as [|y l IH]; simpl.
  - split; [intros _ x []|intros _; apply top_ge].
  - fold (minl l). rewrite vmin_glb, IH. split.
    + intros [H1 H2] x [<-|Hx]; auto.
    + intros H; split; auto.
Qed.

(* extensionality of windows *)
Lemma maxl_map_ext {A} (f g : A -> V) l :
  (forall a, In a l -> f a = g a) -> maxl (map f l) = maxl (map g l).
Proof. intros H. f_equal. apply map_ext_in. exact H. Qed.
Lemma minl_map_ext {A} (f g : A -> V) l :
  (forall a, In a l -> f a = g a) -> minl (map f l) = minl (map g l).
Proof. intros H. f_equal. apply map_ext_in. exact H. Qed.

(* windows over index ranges: wmax f lo hi = max { f i | lo <= i <= hi } *)
Definition wmax (f : nat -> V) (lo hi : nat) : V := maxl (map f (seq lo (S hi - lo))).
Definition wmin (f : nat -> V) (lo hi : nat) : V := minl (map f (seq lo (S hi - lo))).

(* half-open variant: { f i | lo <= i < lo + len } *)
Definition rmax (f : nat -> V) (lo len : nat) : V := maxl (map f (seq lo len)).
Definition rmin (f : nat -> V) (lo len : nat) : V := minl (map f (seq lo len)).
Lemma wmax_rmax f lo hi : wmax f lo hi = rmax f lo (S hi - lo). Proof. reflexivity. Qed.
Lemma wmin_rmin f lo hi : wmin f lo hi = rmin f lo (S hi - lo). Proof. reflexivity. Qed.
Lemma rmax_ext f g lo len : (forall i, lo <= i < lo + len -> f i = g i) -> rmax f lo len = rmax g lo len.
Proof. intros H. apply maxl_map_ext. intros a Ha. apply in_seq in Ha. apply H. lia. Qed.
Lemma rmin_ext f g lo len : (forall i, lo <= i < lo + len -> f i = g i) -> rmin f lo len = rmin g lo len.
Proof. intros H. apply minl_map_ext. intros a Ha. apply in_seq in Ha. apply H. lia. Qed.

Lemma wmax_ext f g lo hi : (forall i, lo <= i <= hi -> f i = g i) -> wmax f lo hi = wmax g lo hi.
Proof. intros H. apply maxl_map_ext. intros a Ha. apply in_seq in Ha. apply H. lia. Qed.
Lemma wmin_ext f g lo hi : (forall i, lo <= i <= hi -> f i = g i) -> wmin f lo hi = wmin g lo hi.
Proof. intros H. apply minl_map_ext. intros a Ha. apply in_seq in Ha. apply H. lia. Qed.

Lemma wmax_empty f lo hi : hi < lo -> wmax f lo hi = bot.
Proof. intros H. unfold wmax. replace (S hi - lo) with 0 by lia. reflexivity. Qed.
Lemma wmin_empty f lo hi : hi < lo -> wmin f lo hi = top.
Proof. intros H. unfold wmin. replace (S hi - lo) with 0 by lia. reflexivity. Qed.

Lemma wmax_split f lo mid hi : lo <= S mid -> mid <= hi ->
  wmax f lo hi = vmax (wmax f lo mid) (wmax f (S mid) hi).
Proof.
  intros H1 H2. unfold wmax.
  replace (S hi - lo) with ((S mid - lo) + (S hi - S mid)) by lia.
  rewrite seq_app, map_app, maxl_app.
  replace (lo + (S mid - lo)) with (S mid) by lia. reflexivity.
Qed.
Lemma wmin_split f lo mid hi : lo <= S mid -> mid <= hi ->
  wmin f lo hi = vmin (wmin f lo mid) (wmin f (S mid) hi).
Proof.
  intros H1 H2. unfold wmin.
  replace (S hi - lo) with ((S mid - lo) + (S hi - S mid)) by lia.
  rewrite seq_app, map_app, minl_app.
  replace (lo + (S mid - lo)) with (S mid) by lia. reflexivity.
Qed.

Lemma wmax_single f i : wmax f i i = f i.
Proof. unfold wmax. replace (S i - i) with 1 by lia. simpl. apply vmax_bot_r. Qed.
Lemma wmin_single f i : wmin f i i = f i.
Proof. unfold wmin. replace (S i - i) with 1 by lia. simpl. apply vmin_top_r. Qed.

Lemma wmax_snoc f lo hi : lo <= S hi -> wmax f lo (S hi) = vmax (wmax f lo hi) (f (S hi)).
Proof.
  intros H. rewrite (wmax_split f lo hi (S hi)) by lia.
  rewrite wmax_single. reflexivity.
Qed.
Lemma wmin_snoc f lo hi : lo <= S hi -> wmin f lo (S hi) = vmin (wmin f lo hi) (f (S hi)).
Proof.
  intros H. rewrite (wmin_split f lo hi (S hi)) by lia.
  rewrite wmin_single. reflexivity.
Qed.
Lemma wmax_cons f lo hi : lo <= hi -> wmax f lo hi = vmax (f lo) (wmax f (S lo) hi).
Proof.
  intros H. rewrite (wmax_split f lo lo hi) by lia.
  rewrite wmax_single. reflexivity.
Qed.
Lemma wmin_cons f lo hi : lo <= hi -> wmin f lo hi = vmin (f lo) (wmin f (S lo) hi).
Proof.
  intros H. rewrite (wmin_split f lo lo hi) by lia.
  rewrite wmin_single. reflexivity.
Qed.

Lemma neg_wmax f lo hi : neg (wmax f lo hi) = wmin (fun i => neg (f i)) lo hi.
Proof. unfold wmax, wmin. rewrite neg_maxl, map_map. reflexivity. Qed.
Lemma neg_wmin f lo hi : neg (wmin f lo hi) = wmax (fun i => neg (f i)) lo hi.
Proof. unfold wmax, wmin. rewrite neg_minl, map_map. reflexivity. Qed.

Lemma wmax_shift f lo hi d : wmax (fun i => f (i + d)) lo hi = wmax f (lo + d) (hi + d).
Proof.
  unfold wmax. replace (S (hi + d) - (lo + d)) with (S hi - lo) by lia.
  generalize (S hi - lo) as k. intros k. revert lo.
  induction k as [|k IH]; intros lo; simpl; [reflexivity|].
  f_equal. apply (IH (S lo)).
Qed.
Lemma wmin_shift f lo hi d : wmin (fun i => f (i + d)) lo hi = wmin f (lo + d) (hi + d).
Proof.
  unfold wmin. replace (S (hi + d) - (lo + d)) with (S hi - lo) by lia.
  generalize (S hi - lo) as k. intros k. revert lo.
  induction k as [|k IH]; intros lo; simpl; [reflexivity|].
  f_equal. apply (IH (S lo)).
Qed.

Lemma wmax_ub f lo hi z : leb (wmax f lo hi) z = true <-> forall i, lo <= i <= hi -> leb (f i) z = true.
Proof.
  unfold wmax. rewrite maxl_ub. split.
  - intros H i Hi. apply H. apply in_map. apply in_seq. lia.
  - intros H x Hx. apply in_map_iff in Hx as [i [<- Hi]]. apply in_seq in Hi. apply H. lia.
Qed.
Lemma wmin_lb f lo hi z : leb z (wmin f lo hi) = true <-> forall i, lo <= i <= hi -> leb z (f i) = true.
Proof.
  unfold wmin. rewrite minl_lb. split.
  - intros H i Hi. apply H. apply in_map. apply in_seq. lia.
  - intros H x Hx. apply in_map_iff in Hx as [i [<- Hi]]. apply in_seq in Hi. apply H. lia.
Qed.

Lemma wmax_const_bot lo hi : wmax (fun _ => bot) lo hi = bot.
Proof.
  apply leb_antisym; [|apply bot_le]. apply wmax_ub. intros; apply leb_refl.
Qed.
Lemma wmin_const_top lo hi : wmin (fun _ => top) lo hi = top.
Proof.
  apply leb_antisym; [apply top_ge|]. apply wmin_lb. intros; apply leb_refl.
Qed.

End ValFacts.

Ltac ord_destr :=
  repeat match goal with
  | |- context [if leb ?a ?b then _ else _] => let E := fresh "E" in destruct (leb a b) eqn:E
  | H : context [if leb ?a ?b then _ else _] |- _ => let E := fresh "E" in destruct (leb a b) eqn:E
  | |- context [negb (leb ?a ?b)] => let E := fresh "E" in destruct (leb a b) eqn:E; cbn [negb andb orb] in *
  | |- context [leb ?a ?b && _] => let E := fresh "E" in destruct (leb a b) eqn:E; cbn [negb andb orb] in *
  end.
Ltac ord :=
  unfold vmax, vmin, ltb, veqb in *; ord_destr;
  repeat match goal with
  | H : leb ?a ?b = false |- _ => apply leb_false in H
  end;
  try reflexivity; try congruence; try assumption;
  try solve [ apply leb_antisym; eauto using leb_trans, leb_refl ];
  try solve [ eauto using leb_trans, leb_refl ].
