(* Offline.v — implementation layer: the list programs of
   rtamt/semantics/stl/discrete_time/offline/ast_visitor.py, one definition
   per visitX, with the same slicing / padding / deque structure.
   Python slices -> firstn/skipn, comprehensions -> map over seq,
   deque(maxlen) -> fixed-length list with push at the right end.  *)
From Coq Require Import List Bool Arith Lia.
From RV Require Import Val Syntax Rho.
Import ListNotations.

Section Offline.
Context {VS : Val} (AR : Arith VS).
Variable pk : formula -> formula -> pkind.

(* l[i:j] for 0 <= i *)
Definition slice (l : list V) (i j : nat) : list V := firstn (j - i) (skipn i l).

(* [f(a,b) for a,b in zip(l1,l2)] *)
Definition zipw (f : V -> V -> V) (l1 l2 : list V) : list V :=
  map (fun p => f (fst p) (snd p)) (combine l1 l2).

(* out = f(x, prev_out); prev_out = out  — the forward scans *)
Fixpoint scan (f : V -> V -> V) (acc : V) (l : list V) : list V :=
  match l with
  | [] => []
  | x :: xs => let o := f x acc in o :: scan f o xs
  end.

(* since/until: out = max(min(l, prev), r) over pairs *)
Fixpoint scan2 (acc : V) (l : list (V * V)) : list V :=
  match l with
  | [] => []
  | (a, b) :: xs => let o := vmax (vmin a acc) b in o :: scan2 o xs
  end.

(* previous: out = prev; prev = x *)
Fixpoint shiftr (d : V) (l : list V) : list V :=
  match l with
  | [] => []
  | x :: xs => d :: shiftr x xs
  end.

(* deque(maxlen = len) that is always full: append drops the leftmost *)
Definition push (buf : list V) (x : V) : list V := tl buf ++ [x].

(* the inner double loop of visitTimedSince / visitTimedUntil /
   SinceTimedOperation.update on the two buffers *)
Definition since_window (b e : nat) (bl br : list V) : V :=
  fold_left (fun out j =>
      let c_left := fold_left (fun c k => vmin c (nth k bl bot)) (seq (S j) (e - j)) top in
      vmax out (vmin c_left (nth j br bot)))
    (seq 0 (S (e - b))) bot.

(* loop over samples pushing into both buffers *)
Fixpoint since_loop (b e : nat) (bl br : list V) (l : list (V * V)) : list V :=
  match l with
  | [] => []
  | (x, y) :: xs =>
      let bl' := push bl x in let br' := push br y in
      since_window b e bl' br' :: since_loop b e bl' br' xs
  end.

(* the inner double loop of visitTimedPrecedes / PrecedesTimedOperation.update on the two buffers:
   for j in range(begin, end+1): c_left = min(buffer_left[0..j-1]); out = max(out, min(c_left, buffer_right[j])) *)
Definition precedes_window (b e : nat) (bl br : list V) : V :=
  fold_left (fun out j =>
      let c_left := fold_left (fun c k => vmin c (nth k bl bot)) (seq 0 j) top in
      vmax out (vmin c_left (nth j br bot)))
    (seq b (S e - b)) bot.

(* visitTimedPrecedes: loop over samples pushing into both buffers *)
Fixpoint precedes_loop (b e : nat) (bl br : list V) (l : list (V * V)) : list V :=
  match l with
  | [] => []
  | (x, y) :: xs =>
      let bl' := push bl x in let br' := push br y in
      precedes_window b e bl' br' :: precedes_loop b e bl' br' xs
  end.

Definition timed_future (pad : V) (agg : list V -> V) (b e : nat) (s0 : list V) : list V :=
  let sample_len := length s0 in
  let s := if sample_len <=? e then s0 ++ repeat pad (e - sample_len + 1) else s0 in
  let diff := e - b in
  let r1 := map (fun j => agg (slice s j (j + diff + 1))) (seq b (S e - b)) in
  let r2 := map (fun j => agg (slice s j (j + diff + 1))) (seq (S e) (length s - S e)) in
  let r := r1 ++ r2 in
  let r' := r ++ repeat pad (length s - length r) in
  firstn sample_len r'.

Fixpoint eval_off (p : formula) (w : trace) (n : nat) {struct p} : list V :=
  match p with
  | Var x => nth x w []
  | Const c => repeat c n
  | A1 o f => map (a1 AR o) (eval_off f w n)
  | A2 o f g => zipw (a2 AR o) (eval_off f w n) (eval_off g w n)
  | Pred c f g => zipw (pred_val AR (pk f g) c) (eval_off f w n) (eval_off g w n)
  | Not f => map neg (eval_off f w n)
  | And f g => zipw vmin (eval_off f w n) (eval_off g w n)
  | Or f g => zipw vmax (eval_off f w n) (eval_off g w n)
  | Implies f g => zipw (fun l r => vmax (neg l) r) (eval_off f w n) (eval_off g w n)
  | Iff f g => zipw (fun l r => neg (a1 AR Abs (a2 AR Sub l r))) (eval_off f w n) (eval_off g w n)
  | Xor f g => zipw (fun l r => a1 AR Abs (a2 AR Sub l r)) (eval_off f w n) (eval_off g w n)
  | Rise f => let s := eval_off f w n in
              zipw (fun p s => vmin (neg p) s) (bot :: removelast s) s
  | Fall f => let s := eval_off f w n in
              zipw (fun p s => vmin p (neg s)) (top :: removelast s) s
  | Prev f => shiftr top (eval_off f w n)
  | SPrev f => shiftr bot (eval_off f w n)
  | Next f => tl (eval_off f w n) ++ [top]
  | SNext f => tl (eval_off f w n) ++ [bot]
  | Once f => scan vmax bot (eval_off f w n)
  | Hist f => scan vmin top (eval_off f w n)
  | Since f g => scan2 bot (combine (eval_off f w n) (eval_off g w n))
  | Ev f => rev (scan vmax bot (rev (eval_off f w n)))
  | Alw f => rev (scan vmin top (rev (eval_off f w n)))
  | Until f g => rev (scan2 bot (rev (combine (eval_off f w n) (eval_off g w n))))
  | OnceT b e f =>
      let s := repeat bot e ++ eval_off f w n in
      map (fun j => maxl (slice s (j - e) (j - b + 1))) (seq e (length s - e))
  | HistT b e f =>
      let s := repeat top e ++ eval_off f w n in
      map (fun j => minl (slice s (j - e) (j - b + 1))) (seq e (length s - e))
  | SinceT b e f g =>
      since_loop b e (repeat top (S e)) (repeat bot (S e))
                 (combine (eval_off f w n) (eval_off g w n))
  | EvT b e f => timed_future bot maxl b e (eval_off f w n)
  | AlwT b e f => timed_future top minl b e (eval_off f w n)
  | UntilT b e f g =>
      rev (since_loop b e (repeat top (S e)) (repeat bot (S e))
                      (rev (combine (eval_off f w n) (eval_off g w n))))
  | Precedes b e f g =>
      precedes_loop b e (repeat top (S e)) (repeat bot (S e))
                    (combine (eval_off f w n) (eval_off g w n))
  end.

End Offline.

(* outcome classes of an API call: a value, an RTAMTException, any other exception *)
Inductive outcome (A : Type) := Ok (a : A) | Rtamt | Crash.
Arguments Ok {A} _. Arguments Rtamt {A}. Arguments Crash {A}.

Section Evaluate.
Context {VS : Val} (AR : Arith VS).
Variable pk : formula -> formula -> pkind.

(* AbstractDiscreteTimeOfflineInterpreter.evaluate: length = len(dataset['time']),
   result = [[t, v] for t, v in zip(ts, rob)]; the time-stamps (any type T) are
   only paired with the values.  Every node has a visit method that returns a column
   (TimedPrecedes included: a pastified specification is evaluated like any other). *)
Definition evaluate {T : Type} (p : formula) (ts : list T) (w : trace) : outcome (list (T * V)) :=
  Ok (combine ts (eval_off AR pk p w (length ts))).
End Evaluate.
