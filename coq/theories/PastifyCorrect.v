(* PastifyCorrect.v — C03: the pastified formula, evaluated at sample i >= H,
   equals the original formula evaluated at i - H on the samples seen so far. *)
From Coq Require Import List Bool Arith Lia.
From RV Require Import Val Syntax Rho ListFacts OfflineCorrect Extend Pastify.
Import ListNotations.

Section PastifyCorrect.
Context {VS : Val} (AR : Arith VS).
Variable pk : formula -> formula -> pkind.
Variable dk : delay_kind.
Variable w : trace.

(* the predicate semantics must not be able to tell a formula from its
   pastification (true of the standard semantics, and of the IA ones since the
   variables of a predicate are preserved) *)
Hypothesis pk_stable : forall f g H1 H2, pk (pastify dk f H1) (pastify dk g H2) = pk f g.

Local Notation R := (rho AR pk).
Local Notation past := (pastify dk).

Lemma prevs_spec d x n i : d <= i -> R (prevs d x) w n i = R x w n (i - d).
Proof.
  revert i. induction d as [|d IH]; intros i Hi; simpl prevs.
  - rewrite Nat.sub_0_r. reflexivity.
  - destruct i as [|i]; [lia|]. cbn [rho]. rewrite IH by lia. reflexivity.
Qed.

Lemma delay_spec d x n i : d <= i -> R (delay dk d x) w n i = R x w n (i - d).
Proof.
  intros Hi. unfold delay. destruct dk.
  - destruct (Nat.ltb_spec 0 d) as [Hd|Hd].
    + cbn [rho]. destruct (Nat.ltb_spec i d); [lia|]. apply wmax_single.
    + replace d with 0 by lia. rewrite Nat.sub_0_r. reflexivity.
  - apply prevs_spec. exact Hi.
Qed.

Lemma delay_0 x n t : R (delay dk 0 x) w n t = R x w n t.
Proof. rewrite delay_spec by lia. rewrite Nat.sub_0_r. reflexivity. Qed.

(* the same trace, a longer prefix: settled values agree (C16 with w1 = w2) *)
Lemma rho_more p n1 n2 t : n1 <= n2 -> bounded_future p = true -> t + hor p < n1 ->
  R p w n2 t = R p w n1 t.
Proof. intros Hn Hb Ht. apply rho_extend; [split; [exact Hn|reflexivity]|exact Hb|exact Ht]. Qed.

Lemma rho_past_n p : past_only p = true -> forall n1 n2 t, R p w n1 t = R p w n2 t.
Proof.
  induction p; simpl; intros Hp n1 n2 t; try discriminate;
  try (apply andb_prop in Hp as [Hp1 Hp2]); cbn [rho];
  repeat first
    [ reflexivity
    | rewrite (IHp Hp n1 n2) | rewrite (IHp1 Hp1 n1 n2) | rewrite (IHp2 Hp2 n1 n2)
    | match goal with
      | |- context [match ?t with 0 => _ | S _ => _ end] => destruct t
      | |- context [if ?c then _ else _] => destruct c
      end
    | apply wmax_ext; intros ? ?
    | apply wmin_ext; intros ? ?
    | apply rmin_ext; intros ? ?
    | f_equal ].
Qed.

(* pastify with no remaining horizon does not change a past-time formula *)
Lemma pastify_zero p : past_only p = true -> forall n t, R (past p 0) w n t = R p w n t.
Proof.
  induction p; simpl past; intros Hp n t; simpl in Hp; try discriminate;
  try (apply andb_prop in Hp as [Hp1 Hp2]);
  try (destruct (past_hor p Hp) as [Hh _]); try (destruct (past_hor p1 Hp1) as [Hh1 _]); try (destruct (past_hor p2 Hp2) as [Hh2 _]);
  rewrite ?Hh, ?Hh1, ?Hh2; simpl Nat.max; simpl Nat.sub; rewrite ?delay_0; rewrite ?Nat.add_0_r; cbn [rho]; rewrite ?pk_stable;
  repeat first
    [ reflexivity
    | rewrite (IHp Hp) | rewrite (IHp1 Hp1) | rewrite (IHp2 Hp2)
    | match goal with
      | |- context [match ?t with 0 => _ | S _ => _ end] => destruct t
      | |- context [if ?c then _ else _] => destruct c
      end
    | apply wmax_ext; intros ? ?
    | apply wmin_ext; intros ? ?
    | apply rmin_ext; intros ? ?
    | f_equal ].
Qed.

Definition good_for_delay (p : formula) : Prop :=
  wf_bounds p = true /\ bounded_future p = true /\ future_above_past p = true.

Definition claim (p : formula) : Prop :=
  forall H i n, hor p <= H -> H <= i -> R (past p H) w n i = R p w (S i) (i - H).

(* every past-time node: pastify p H behaves as the node delayed by H *)
Lemma past_node_gen p : past_only p = true -> claim p.
Proof.
  intros Hp Hh i n HH Hi. destruct (past_hor p Hp) as [Hz _].
  rewrite <- (rho_past_n p Hp n (S i)).
  rewrite <- (pastify_zero p Hp n (i - Hh)).
  (* both sides are the same operator over the same (zero-horizon) children, one delayed by Hh *)
  revert Hz Hh i n HH Hi. 
  destruct p; simpl in Hp; try discriminate; intros Hz Hh i n HH Hi; simpl in Hz; simpl past; rewrite ?Hz;
  rewrite ?Nat.sub_0_r; rewrite ?delay_0; try (rewrite delay_spec by lia; reflexivity); try reflexivity.
  (* OnceT *) cbn [rho]. rewrite !Nat.add_0_r.
  destruct (Nat.ltb_spec i (b + Hh)); destruct (Nat.ltb_spec (i - Hh) b); try lia; [reflexivity|].
  replace (i - (e + Hh)) with (i - Hh - e) by lia. replace (i - (b + Hh)) with (i - Hh - b) by lia. reflexivity.
Qed.

(* a child pastified at its parent's horizon h, read at the parent's delayed index *)
Lemma kid_step kid h H i n :
  claim kid -> bounded_future kid = true -> hor kid <= h -> h <= H -> H <= i ->
  R (past kid h) w n (i - (H - h)) = R kid w (S i) (i - H).
Proof.
  intros IH Hb Hk Hh Hi. rewrite IH by lia.
  replace (i - (H - h) - h) with (i - H) by lia.
  symmetry. apply rho_more; [lia|exact Hb|lia].
Qed.

Ltac split_g :=
  repeat match goal with
  | H : _ && _ = true |- _ => apply andb_prop in H; destruct H
  | H : (_ <=? _) = true |- _ => apply Nat.leb_le in H
  end.

Theorem pastify_delay p : good_for_delay p -> claim p.
Proof.
  induction p; intros (Hw & Hb & Hg); simpl in Hw, Hb, Hg; try discriminate; split_g;
  try (assert (C0 : claim p) by (apply IHp; repeat split; assumption));
  try (assert (C1 : claim p1) by (apply IHp1; repeat split; assumption));
  try (assert (C2 : claim p2) by (apply IHp2; repeat split; assumption));
  intros Hh i n HH Hi; simpl hor in HH.
  - (* Var *) simpl past. rewrite delay_spec by lia. reflexivity.
  - reflexivity.
  - (* A1 *) simpl past. rewrite delay_spec by lia. cbn [rho]. simpl hor.
    rewrite (kid_step p (hor p) Hh i n) by (auto; lia). reflexivity.
  - (* A2 *) simpl past. rewrite delay_spec by lia. cbn [rho]. simpl hor.
    rewrite (kid_step p1 _ Hh i n), (kid_step p2 _ Hh i n) by (auto; lia). reflexivity.
  - (* Pred *) simpl past. rewrite delay_spec by lia. cbn [rho]. simpl hor. rewrite pk_stable.
    rewrite (kid_step p1 _ Hh i n), (kid_step p2 _ Hh i n) by (auto; lia). reflexivity.
  - (* Not *) simpl past. rewrite delay_spec by lia. cbn [rho]. simpl hor.
    rewrite (kid_step p (hor p) Hh i n) by (auto; lia). reflexivity.
  - simpl past. rewrite delay_spec by lia. cbn [rho]. simpl hor.
    rewrite (kid_step p1 _ Hh i n), (kid_step p2 _ Hh i n) by (auto; lia). reflexivity.
  - simpl past. rewrite delay_spec by lia. cbn [rho]. simpl hor.
    rewrite (kid_step p1 _ Hh i n), (kid_step p2 _ Hh i n) by (auto; lia). reflexivity.
  - simpl past. rewrite delay_spec by lia. cbn [rho]. simpl hor.
    rewrite (kid_step p1 _ Hh i n), (kid_step p2 _ Hh i n) by (auto; lia). reflexivity.
  - simpl past. rewrite delay_spec by lia. cbn [rho]. simpl hor.
    rewrite (kid_step p1 _ Hh i n), (kid_step p2 _ Hh i n) by (auto; lia). reflexivity.
  - simpl past. rewrite delay_spec by lia. cbn [rho]. simpl hor.
    rewrite (kid_step p1 _ Hh i n), (kid_step p2 _ Hh i n) by (auto; lia). reflexivity.
  - (* Rise: past node *) apply (past_node_gen (Rise p)); simpl; auto.
  - apply (past_node_gen (Fall p)); simpl; auto.
  - apply (past_node_gen (Prev p)); simpl; auto.
  - apply (past_node_gen (SPrev p)); simpl; auto.
  - (* Next *) simpl past. rewrite C0 by lia. cbn [rho].
    destruct (Nat.ltb_spec (S (i - Hh)) (S i)); [|lia]. f_equal. lia.
  - simpl past. rewrite C0 by lia. cbn [rho].
    destruct (Nat.ltb_spec (S (i - Hh)) (S i)); [|lia]. f_equal. lia.
  - apply (past_node_gen (Once p)); simpl; auto.
  - apply (past_node_gen (Hist p)); simpl; auto.
  - apply (past_node_gen (Since p1 p2)); simpl; auto. apply andb_true_intro; auto.
  - (* OnceT *) apply (past_node_gen (OnceT b e p)); simpl; auto.
  - apply (past_node_gen (HistT b e p)); simpl; auto.
  - apply (past_node_gen (SinceT b e p1 p2)); simpl; auto. apply andb_true_intro; auto.
  - (* EvT *) simpl past. cbv zeta.
    assert (Hwin : forall j, i - (e - b) <= j <= i -> R (past p (Hh - e)) w n j = R p w (S i) (j - (Hh - e))).
    { intros j Hj. rewrite C0 by lia. symmetry. apply rho_more; [lia|assumption|lia]. }
    cbn [rho]. destruct (Nat.leb_spec (S i) (i - Hh + b)); [lia|].
    replace (Nat.min (i - Hh + e) (S i - 1)) with (i - Hh + e) by lia.
    destruct (Nat.ltb_spec 0 (e - b)).
    + cbn [rho]. destruct (Nat.ltb_spec i 0); [lia|]. rewrite Nat.sub_0_r.
      rewrite (wmax_ext _ (fun j => R p w (S i) (j - (Hh - e))) _ _ Hwin).
      apply eq_by_ub. intros z. rewrite !wmax_ub. split.
      * intros G t Ht. replace t with (t + (Hh - e) - (Hh - e)) by lia. apply G. lia.
      * intros G j Hj. apply G. lia.
    + replace e with b in * by lia. rewrite Hwin by lia. rewrite wmax_single. f_equal. lia.
  - (* AlwT *) simpl past. cbv zeta.
    assert (Hwin : forall j, i - (e - b) <= j <= i -> R (past p (Hh - e)) w n j = R p w (S i) (j - (Hh - e))).
    { intros j Hj. rewrite C0 by lia. symmetry. apply rho_more; [lia|assumption|lia]. }
    cbn [rho]. destruct (Nat.leb_spec (S i) (i - Hh + b)); [lia|].
    replace (Nat.min (i - Hh + e) (S i - 1)) with (i - Hh + e) by lia.
    destruct (Nat.ltb_spec 0 (e - b)).
    + cbn [rho]. destruct (Nat.ltb_spec i 0); [lia|]. rewrite Nat.sub_0_r.
      rewrite (wmin_ext _ (fun j => R p w (S i) (j - (Hh - e))) _ _ Hwin).
      apply eq_by_lb. intros z. rewrite !wmin_lb. split.
      * intros G t Ht. replace t with (t + (Hh - e) - (Hh - e)) by lia. apply G. lia.
      * intros G j Hj. apply G. lia.
    + replace e with b in * by lia. rewrite Hwin by lia. rewrite wmin_single. f_equal. lia.
  - (* UntilT *) simpl past.
    assert (Hk1 : forall j, e <= j + i -> j <= e -> R (past p1 (Hh - e)) w n (j + i - e) = R p1 w (S i) (i - Hh + j)).
    { intros j Hj Hj'. rewrite C1 by lia. replace (j + i - e - (Hh - e)) with (i - Hh + j) by lia.
      symmetry. apply rho_more; [lia|assumption|lia]. }
    assert (Hk2 : forall j, e <= j + i -> j <= e -> R (past p2 (Hh - e)) w n (j + i - e) = R p2 w (S i) (i - Hh + j)).
    { intros j Hj Hj'. rewrite C2 by lia. replace (j + i - e - (Hh - e)) with (i - Hh + j) by lia.
      symmetry. apply rho_more; [lia|assumption|lia]. }
    cbn [rho]. destruct (Nat.leb_spec (S i) (i - Hh + b)); [lia|].
    replace (Nat.min (i - Hh + e) (S i - 1)) with (i - Hh + e) by lia.
    apply eq_by_ub. intros z. rewrite !wmax_ub. split.
    + intros G t Ht. specialize (G (t - (i - Hh)) ltac:(lia)).
      destruct (Nat.ltb_spec (t - (i - Hh) + i) e); [lia|].
      rewrite Hk2 in G by lia. replace (i - Hh + (t - (i - Hh))) with t in G by lia.
      rewrite (rmin_ext _ (fun j => R p1 w (S i) (i - Hh + j))) in G.
      * assert (E : rmin (fun j => R p1 w (S i) (i - Hh + j)) 0 (t - (i - Hh)) = rmin (R p1 w (S i)) (i - Hh) (t - (i - Hh))).
        { apply eq_by_lb. intros y. rewrite !rmin_lb. split.
          - intros G1 u Hu. replace u with (i - Hh + (u - (i - Hh))) by lia. apply G1. lia.
          - intros G1 u Hu. apply G1. lia. }
        rewrite E in G. exact G.
      * intros j Hj. destruct (Nat.ltb_spec (j + i) e); [lia|]. apply Hk1; lia.
    + intros G k Hk. destruct (Nat.ltb_spec (k + i) e); [lia|].
      rewrite Hk2 by lia.
      rewrite (rmin_ext _ (fun j => R p1 w (S i) (i - Hh + j))).
      * assert (E : rmin (fun j => R p1 w (S i) (i - Hh + j)) 0 k = rmin (R p1 w (S i)) (i - Hh) (i - Hh + k - (i - Hh))).
        { apply eq_by_lb. intros y. rewrite !rmin_lb. split.
          - intros G1 u Hu. replace u with (i - Hh + (u - (i - Hh))) by lia. apply G1. lia.
          - intros G1 u Hu. apply G1. lia. }
        rewrite E. apply G. lia.
      * intros j Hj. destruct (Nat.ltb_spec (j + i) e); [lia|]. apply Hk1; lia.
  - (* Precedes *) apply (past_node_gen (Precedes b e p1 p2)); simpl; auto. apply andb_true_intro; auto.
Qed.

(* the result is a well-formed past-time formula: what the online monitor accepts *)
Lemma prevs_shape d x : past_only x = true -> wf_bounds x = true ->
  past_only (prevs d x) = true /\ wf_bounds (prevs d x) = true.
Proof. induction d; simpl; auto. Qed.

Lemma delay_shape d x : past_only x = true -> wf_bounds x = true ->
  past_only (delay dk d x) = true /\ wf_bounds (delay dk d x) = true.
Proof.
  intros H1 H2. unfold delay. destruct dk.
  - destruct (0 <? d); simpl; [rewrite Nat.leb_refl|]; auto.
  - apply prevs_shape; assumption.
Qed.

Lemma pastify_shape p : bounded_future p = true -> wf_bounds p = true ->
  forall H, past_only (past p H) = true /\ wf_bounds (past p H) = true.
Proof.
  induction p; simpl; intros Hb Hw H; try discriminate; split_g;
  try (destruct (IHp ltac:(assumption) ltac:(assumption) (hor p)) as [A1' A2']);
  try (destruct (IHp1 ltac:(assumption) ltac:(assumption) (Nat.max (hor p1) (hor p2))) as [B1 B2]);
  try (destruct (IHp2 ltac:(assumption) ltac:(assumption) (Nat.max (hor p1) (hor p2))) as [C1 C2]);
  try (apply delay_shape; simpl; rewrite ?A1', ?A2', ?B1, ?B2, ?C1, ?C2; auto; fail).
  - auto.
  - (* Next *) apply IHp; assumption.
  - apply IHp; assumption.
  - (* OnceT *) simpl. rewrite A1', A2'. split; [reflexivity|]. rewrite andb_true_r. apply Nat.leb_le. lia.
  - (* HistT *) apply delay_shape; simpl; rewrite ?A1', ?A2'; auto. rewrite andb_true_r. apply Nat.leb_le. assumption.
  - (* SinceT *) apply delay_shape; simpl; rewrite ?B1, ?B2, ?C1, ?C2; auto. rewrite !andb_true_r. apply Nat.leb_le. assumption.
  - (* EvT *) destruct (IHp ltac:(assumption) ltac:(assumption) (H - e)) as [D1 D2].
    destruct (0 <? e - b); simpl; rewrite ?D1, ?D2; auto.
  - destruct (IHp ltac:(assumption) ltac:(assumption) (H - e)) as [D1 D2].
    destruct (0 <? e - b); simpl; rewrite ?D1, ?D2; auto.
  - (* UntilT *) destruct (IHp1 ltac:(assumption) ltac:(assumption) (H - e)) as [D1 D2].
    destruct (IHp2 ltac:(assumption) ltac:(assumption) (H - e)) as [E1 E2].
    simpl. rewrite D1, D2, E1, E2. split; [reflexivity|]. rewrite !andb_true_r. apply Nat.leb_le. assumption.
  - (* Precedes *) apply delay_shape; simpl; rewrite ?B1, ?B2, ?C1, ?C2; auto. rewrite !andb_true_r. apply Nat.leb_le. assumption.
Qed.

End PastifyCorrect.
