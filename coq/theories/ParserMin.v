(* ParserMin.v — C15: renderings of an AST with FEWER parentheses than the fully
   parenthesised one (definitions only; the proofs are in ParserMinCorrect.v).

   A "decoration" says how many pairs of parentheses surround each node of the
   AST (nodes are addressed by the path of child indices from the root).
   - rp par e        : the token list of e with exactly the parentheses of par;
   - okp par e 0     : a decidable check that these parentheses are enough for the
                       parser model (levels of PrecTable.v) to group the text as e;
   - needs_paren     : the local rule of the minimal rendering (the one harness/text.py
                       uses in style 'min'): a binary node is parenthesised iff its level
                       is below the level its position requires, a prefix node iff the
                       binary operator that follows the sub-expression would be swallowed
                       by its operand (operand level <= level of that operator);
   - rgen ex e q fo  : the parentheses the user asks for (ex), completed by the needed ones;
   - render_min e    : rgen without extra parentheses, from the top. *)
From Coq Require Import List Bool Arith Lia.
From RV Require Import Lexer PrecTable Parser ParserRoundtrip.
Import ListNotations.

(* levels of the table, per operator of the AST *)
Definition blvl (o : binop) : nat := match binop_of (tok_bin o) with Some (_, l, _, _) => l | None => 0 end.
Definition brlvl (o : binop) : nat := match binop_of (tok_bin o) with Some (_, _, r, _) => r | None => 0 end.
Definition ulvl (o : unop) : nat := match unop_of (tok_un o) with Some (_, l, _) => l | None => 0 end.

(* decorations: number of pairs of parentheses around the node at a path; sub i = the decoration of child i *)
Definition deco := list nat -> nat.
Definition sub (i : nat) (par : deco) : deco := fun pi => par (i :: pi).
Definition noex : deco := fun _ => 0.

Fixpoint wrap (k : nat) (ts : list token) : list token :=
  match k with 0 => ts | S k' => TSym SLParen :: wrap k' ts ++ [TSym SRParen] end.

(* the text of e with exactly the parentheses of par *)
Fixpoint rp (par : deco) (e : sexpr) : list token :=
  wrap (par [])
    match e with
    | EId s => [TId s]
    | ELit s => [TInt s]
    | EUn o iv a => tok_un o :: ivtoks iv ++ rp (sub 0 par) a
    | EFun1 f a => tok_f1 f :: TSym SLParen :: rp (sub 0 par) a ++ [TSym SRParen]
    | EFun2 f a b => tok_f2 f :: TSym SLParen :: rp (sub 0 par) a ++ TSym SComma :: rp (sub 1 par) b ++ [TSym SRParen]
    | EBin o iv a b => rp (sub 0 par) a ++ tok_bin o :: ivtoks iv ++ rp (sub 1 par) b
    end.
Definition body (par : deco) (e : sexpr) : list token :=
  match e with
  | EId s => [TId s]
  | ELit s => [TInt s]
  | EUn o iv a => tok_un o :: ivtoks iv ++ rp (sub 0 par) a
  | EFun1 f a => tok_f1 f :: TSym SLParen :: rp (sub 0 par) a ++ [TSym SRParen]
  | EFun2 f a b => tok_f2 f :: TSym SLParen :: rp (sub 0 par) a ++ TSym SComma :: rp (sub 1 par) b ++ [TSym SRParen]
  | EBin o iv a b => rp (sub 0 par) a ++ tok_bin o :: ivtoks iv ++ rp (sub 1 par) b
  end.

(* sw par e f: a binary operator of level f that follows the text of e is consumed INSIDE e
   (by the operand loop of a prefix operator or of the right operand of a binary operator on the
   unparenthesised right spine of e) instead of being left to the caller *)
Fixpoint sw (par : deco) (e : sexpr) (f : nat) : bool :=
  match par [] with
  | S _ => false
  | 0 =>
    match e with
    | EUn o _ a => (ulvl o <=? f) || sw (sub 0 par) a f
    | EBin o _ _ b => (brlvl o <=? f) || sw (sub 1 par) b f
    | _ => false
    end
  end.
Definition swb (par : deco) (e : sexpr) (f : nat) : bool :=
  match e with
  | EUn o _ a => (ulvl o <=? f) || sw (sub 0 par) a f
  | EBin o _ _ b => (brlvl o <=? f) || sw (sub 1 par) b f
  | _ => false
  end.

(* okp par e q: with the parentheses of par, the text of e read by expression(q) groups as e:
   a binary node in a position read at level q has level >= q, and the operator of a binary node
   is not swallowed by its left operand *)
Fixpoint okp (par : deco) (e : sexpr) (q : nat) : bool :=
  let q' := match par [] with 0 => q | S _ => 0 end in
  match e with
  | EId _ | ELit _ => true
  | EUn o _ a => okp (sub 0 par) a (ulvl o)
  | EFun1 _ a => okp (sub 0 par) a 0
  | EFun2 _ a b => okp (sub 0 par) a 0 && okp (sub 1 par) b 0
  | EBin o _ a b => (q' <=? blvl o) && okp (sub 0 par) a q' && negb (sw (sub 0 par) a (blvl o)) && okp (sub 1 par) b (brlvl o)
  end.
Definition okb (par : deco) (e : sexpr) (q' : nat) : bool :=
  match e with
  | EId _ | ELit _ => true
  | EUn o _ a => okp (sub 0 par) a (ulvl o)
  | EFun1 _ a => okp (sub 0 par) a 0
  | EFun2 _ a b => okp (sub 0 par) a 0 && okp (sub 1 par) b 0
  | EBin o _ a b => (q' <=? blvl o) && okp (sub 0 par) a q' && negb (sw (sub 0 par) a (blvl o)) && okp (sub 1 par) b (brlvl o)
  end.

(* fuel: what parse_expr needs on rp par e *)
Fixpoint np (par : deco) (e : sexpr) : nat :=
  par [] +
  match e with
  | EId _ | ELit _ => 1
  | EUn _ _ a => S (np (sub 0 par) a)
  | EFun1 _ a => S (np (sub 0 par) a)
  | EFun2 _ a b => S (Nat.max (np (sub 0 par) a) (np (sub 1 par) b))
  | EBin _ _ a b => Nat.max (np (sub 0 par) a) (S (np (sub 1 par) b))
  end.
Definition nb (par : deco) (e : sexpr) : nat :=
  match e with
  | EId _ | ELit _ => 1
  | EUn _ _ a => S (np (sub 0 par) a)
  | EFun1 _ a => S (np (sub 0 par) a)
  | EFun2 _ a b => S (Nat.max (np (sub 0 par) a) (np (sub 1 par) b))
  | EBin _ _ a b => Nat.max (np (sub 0 par) a) (S (np (sub 1 par) b))
  end.

(* ---- the minimal rendering ---- *)

(* the position of a sub-expression: q = the level its binary operators must have, fo = the level of the
   binary operator that follows it inside the same parentheses (None: ')' ',' ';' or the end follows) *)
Definition swallowed (lv : nat) (fo : option nat) : bool :=
  match fo with Some f => lv <=? f | None => false end.
Definition needs_paren (e : sexpr) (q : nat) (fo : option nat) : bool :=
  match e with
  | EBin o _ _ _ => blvl o <? q
  | EUn o _ _ => swallowed (ulvl o) fo
  | _ => false
  end.
(* pairs around a node: what the user asks for, at least one when needed *)
Definition pcount (want : nat) (needed : bool) : nat :=
  match want with 0 => if needed then 1 else 0 | S _ => want end.
Definition follow_in (k : nat) (fo : option nat) : option nat := match k with 0 => fo | S _ => None end.

Fixpoint rgen (ex : deco) (e : sexpr) (q : nat) (fo : option nat) : list token :=
  let k := pcount (ex []) (needs_paren e q fo) in
  let fo' := follow_in k fo in
  wrap k
    match e with
    | EId s => [TId s]
    | ELit s => [TInt s]
    | EUn o iv a => tok_un o :: ivtoks iv ++ rgen (sub 0 ex) a (ulvl o) fo'
    | EFun1 f a => tok_f1 f :: TSym SLParen :: rgen (sub 0 ex) a 0 None ++ [TSym SRParen]
    | EFun2 f a b => tok_f2 f :: TSym SLParen :: rgen (sub 0 ex) a 0 None ++ TSym SComma :: rgen (sub 1 ex) b 0 None ++ [TSym SRParen]
    | EBin o iv a b => rgen (sub 0 ex) a (blvl o) (Some (blvl o)) ++ tok_bin o :: ivtoks iv ++ rgen (sub 1 ex) b (brlvl o) fo'
    end.

(* the same as a decoration *)
Fixpoint pgen (ex : deco) (e : sexpr) (q : nat) (fo : option nat) (pi : list nat) {struct e} : nat :=
  let k := pcount (ex []) (needs_paren e q fo) in
  let fo' := follow_in k fo in
  match pi with
  | [] => k
  | i :: pi' =>
    match e, i with
    | EUn o _ a, 0 => pgen (sub 0 ex) a (ulvl o) fo' pi'
    | EFun1 _ a, 0 => pgen (sub 0 ex) a 0 None pi'
    | EFun2 _ a _, 0 => pgen (sub 0 ex) a 0 None pi'
    | EFun2 _ _ b, 1 => pgen (sub 1 ex) b 0 None pi'
    | EBin o _ a _, 0 => pgen (sub 0 ex) a (blvl o) (Some (blvl o)) pi'
    | EBin o _ _ b, 1 => pgen (sub 1 ex) b (brlvl o) fo' pi'
    | _, _ => 0
    end
  end.

(* the minimal rendering, written directly (no decoration): this is Renderer.toks of harness/text.py, style 'min' *)
Definition paren (ts : list token) : list token := TSym SLParen :: ts ++ [TSym SRParen].
Fixpoint rmin (e : sexpr) (q : nat) (fo : option nat) : list token :=
  let np := needs_paren e q fo in
  let fo' := if np then None else fo in
  let ts :=
    match e with
    | EId s => [TId s]
    | ELit s => [TInt s]
    | EUn o iv a => tok_un o :: ivtoks iv ++ rmin a (ulvl o) fo'
    | EFun1 f a => tok_f1 f :: TSym SLParen :: rmin a 0 None ++ [TSym SRParen]
    | EFun2 f a b => tok_f2 f :: TSym SLParen :: rmin a 0 None ++ TSym SComma :: rmin b 0 None ++ [TSym SRParen]
    | EBin o iv a b => rmin a (blvl o) (Some (blvl o)) ++ tok_bin o :: ivtoks iv ++ rmin b (brlvl o) fo'
    end in
  if np then paren ts else ts.
Definition render_min (e : sexpr) : list token := rmin e 0 None.

(* the decoration of the minimal rendering: one pair exactly where needs_paren says so *)
Definition pmin (e : sexpr) : deco := pgen noex e 0 None.

(* fuel bound for rgen: need of ParserRoundtrip plus the extra pairs *)
Fixpoint needx (ex : deco) (e : sexpr) : nat :=
  ex [] +
  match e with
  | EId _ | ELit _ => 1
  | EUn _ _ a => S (S (needx (sub 0 ex) a))
  | EFun1 _ a => S (needx (sub 0 ex) a)
  | EFun2 _ a b => S (Nat.max (needx (sub 0 ex) a) (needx (sub 1 ex) b))
  | EBin _ _ a b => S (S (Nat.max (needx (sub 0 ex) a) (needx (sub 1 ex) b)))
  end.

(* removing one pair at a path *)
Fixpoint path_eqb (a b : list nat) : bool :=
  match a, b with
  | [], [] => true
  | x :: a', y :: b' => (x =? y) && path_eqb a' b'
  | _, _ => false
  end.
Definition drop (pi0 : list nat) (par : deco) : deco := fun pi => if path_eqb pi0 pi then pred (par pi) else par pi.

(* all node paths of an AST; the minimal rendering with one of its pairs removed (for the minimality check of the harness) *)
Fixpoint paths (e : sexpr) : list (list nat) :=
  [] :: match e with
        | EId _ | ELit _ => []
        | EUn _ _ a | EFun1 _ a => map (cons 0) (paths a)
        | EFun2 _ a b | EBin _ _ a b => map (cons 0) (paths a) ++ map (cons 1) (paths b)
        end.
Definition min_drops (e : sexpr) : list (list token) :=
  map (fun pi => rp (drop pi (pmin e)) e) (filter (fun pi => 0 <? pmin e pi) (paths e)).
Definition ex_of (l : list (list nat)) : deco := fun pi => length (filter (path_eqb pi) l).

(* ---- text of a token list (for the correspondence check against rtamt) ---- *)
From Coq Require Import Ascii String.
Local Open Scope string_scope.
Definition kw_text (k : kw) : string :=
  match k with
  | KAbs => "abs" | KSqrt => "sqrt" | KExp => "exp" | KPow => "pow" | KLog => "log" | KLn => "ln"
  | KS => "s" | KMs => "ms" | KUs => "us" | KNs => "ns" | KPs => "ps"
  | KNot => "not" | KOr => "or" | KAnd => "and" | KIff => "iff" | KImplies => "implies" | KXor => "xor" | KRise => "rise" | KFall => "fall"
  | KAlways => "always" | KEventually => "eventually" | KUntil => "until" | KUnless => "unless" | KHist => "historically" | KOnce => "once"
  | KSince => "since" | KNext => "next" | KPrev => "prev" | KSNext => "s_next" | KSPrev => "s_prev"
  | KTrue => "true" | KFalse => "false"
  | KTopic => "topic" | KImport => "import" | KInput => "input" | KOutput => "output" | KInternal => "internal" | KConst => "const"
  | KReal => "real" | KFloat => "float" | KLong => "long" | KComplex => "complex" | KInt => "int" | KBool => "bool"
  | KAssertion => "assertion" | KSpecification => "specification" | KFrom => "from"
  end.
Definition sym_text (s : sym) : string :=
  match s with
  | SMinus => "-" | SPlus => "+" | STimes => "*" | SDivide => "/" | SLParen => "(" | SRParen => ")" | SLBrace => "{" | SRBrace => "}"
  | SLBrack => "[" | SRBrack => "]" | SSemi => ";" | SColon => ":" | SComma => "," | SDot => "." | SAt => "@"
  | SEqEq => "==" | SNeq => "!==" | SGeq => ">=" | SLeq => "<=" | SGt => ">" | SLt => "<" | SEq => "="
  end.
Definition tok_text (t : token) : string :=
  match t with TKw k => kw_text k | TSym s => sym_text s | TId s | TInt s | TReal s => s end.
Fixpoint toks_text (ts : list token) : string :=
  match ts with [] => "" | [t] => tok_text t | t :: r => tok_text t ++ " " ++ toks_text r end.
