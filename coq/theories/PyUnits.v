(* PyUnits.v — the run-time library of tools/py2coq_units.py: the Python primitives that the unit conversion and the
   sampling-violation counter of rtamt use (rtamt/semantics/discrete_time_interpreter.py, dense_time_interpreter.py and the
   counter statements of the discrete-time online update() / offline evaluate()), as total Gallina functions.
   Conventions:
   * a Python int is Z; a fractions.Fraction is a Q (the primitives do not depend on the representative: Python keeps
     Fractions reduced, [py_numerator] / [py_denominator] go through Qred);
   * a number that the code only ever reads through Fraction(str(x)) (the sampling period, the tolerance, self.normalize, the
     time stamps) is "written": it is represented by THE RATIONAL ITS TEXT DENOTES, and Fraction(str(x)) is [py_fraction_str].
     Domain of the model: numbers whose str() is the text of a number (int, float, Decimal, Fraction; not bool, not nan/inf);
   * a unit string is [option tunit]: '' is None; a key that is not in the unit dictionary is KeyError;
   * float(q) of a Fraction is kept as the rational q it rounds ([NFloat q] = the float nearest to q; the rounding itself
     is not modelled), except for its OverflowError;
   * a raised exception is [Raise e], e the Python exception class: the generated text distinguishes what `except` distinguishes.
   The translator only composes these and py_range / py_get of PySem.v. *)
From Coq Require Import ZArith QArith Qreduction List Bool.
From RV Require Import Offline Units PySem.
Import ListNotations.

Inductive pyexc := RTAMTException | PyException | ZeroDivisionError | OverflowError | ValueError | KeyError | IndexError | Unmodelled.
Inductive res (A : Type) := Ret (a : A) | Raise (e : pyexc).
Arguments Ret {A} _. Arguments Raise {A} _.

Definition ubind {A B} (m : res A) (k : A -> res B) : res B := match m with Ret a => k a | Raise e => Raise e end.
Declare Scope units_scope.
Notation "x <-- e ;; k" := (ubind e (fun x => k)) (at level 61, e at next level, right associativity) : units_scope.
Notation "' p <-- e ;; k" := (ubind e (fun p => k)) (at level 61, p pattern, e at next level, right associativity) : units_scope.

Definition pyexc_eqb (a b : pyexc) : bool :=
  match a, b with
  | RTAMTException, RTAMTException | PyException, PyException | ZeroDivisionError, ZeroDivisionError
  | OverflowError, OverflowError | ValueError, ValueError | KeyError, KeyError | IndexError, IndexError | Unmodelled, Unmodelled => true
  | _, _ => false
  end.

(* try: body / except E: handler *)
Definition py_catch {A} (e : pyexc) (body : res A) (handler : res A) : res A :=
  match body with Ret a => Ret a | Raise e' => if pyexc_eqb e e' then handler else Raise e' end.

(* what the caller of the library sees: RTAMTException or any other exception *)
Definition to_outcome {A} (r : res A) : outcome A :=
  match r with Ret a => Ok a | Raise RTAMTException => Rtamt | Raise _ => Crash end.

(* for x in l: s = body x s *)
Fixpoint ufor {A S} (l : list A) (body : A -> S -> res S) (s : S) : res S :=
  match l with [] => Ret s | x :: xs => ubind (body x s) (ufor xs body) end.

(* l[i] *)
Definition py_index {A} (l : list A) (i : Z) : res A := match py_get l i with Some x => Ret x | None => Raise IndexError end.

(* ---------- unit strings and the unit dictionaries ---------- *)
Definition py_unit_len (u : option tunit) : Z := match u with None => 0 | Some US => 1 | Some _ => 2 end.
Definition py_dict_get (d : tunit -> Z) (k : option tunit) : res Z := match k with Some u => Ret (d u) | None => Raise KeyError end.

(* ---------- Fractions ---------- *)
Definition py_fraction_str (q : Q) : res Q := Ret q.       (* Fraction(str(x)) of a written number (ValueError: outside the domain) *)
Definition py_numerator (q : Q) : Z := Qnum (Qred q).
Definition py_denominator (q : Q) : Z := Zpos (Qden (Qred q)).
Definition py_qdiv (a b : Q) : res Q := if Qeq_bool b 0 then Raise ZeroDivisionError else Ret (a / b).
Definition py_mod (a b : Z) : res Z := if (b =? 0)%Z then Raise ZeroDivisionError else Ret (a mod b)%Z.
(* int(Fraction): towards zero *)
Definition py_int_of_frac (q : Q) : Z := Z.quot (py_numerator q) (py_denominator q).
Definition py_maxsize : Z := 9223372036854775807.
Definition py_qltb (a b : Q) : bool := negb (Qle_bool b a).

(* float(Fraction): OverflowError from 2^1024 - 2^970 on (round half to even at the last binade) *)
Inductive pynum := NInt (z : Z) | NFloat (q : Q).
Definition py_float_overflow (q : Q) : bool :=
  Qle_bool (inject_Z (2 ^ 1024 - 2 ^ 970)) q || Qle_bool q (inject_Z (- (2 ^ 1024 - 2 ^ 970))).
Definition py_float (q : Q) : res Q := if py_float_overflow q then Raise OverflowError else Ret q.
Definition num_val (x : pynum) : Q := match x with NInt z => inject_Z z | NFloat q => Qred q end.

(* ---------- the objects ---------- *)
(* the attributes of the AST the interpreters read: ast.unit, getattr(ast, 'pastified_intervals', []) *)
Record pyast := { ast_unit : tunit; ast_pastified_intervals : list interval }.
(* DiscreteTimeInterpreter (with the update_counter of the online interpreter) *)
Record dti := { sampling_period : Q; sampling_period_unit : tunit; sampling_tolerance : Q; update_counter : Z; previous_time : Q;
                sampling_violation_counter : Z; normalize : Q; dti_ast : pyast }.
(* DenseTimeInterpreter *)
Record dnti := { dnti_ast : pyast }.

Definition set_sampling_period_ (s : dti) (x : Q) : dti :=
  {| sampling_period := x; sampling_period_unit := sampling_period_unit s; sampling_tolerance := sampling_tolerance s;
     update_counter := update_counter s; previous_time := previous_time s; sampling_violation_counter := sampling_violation_counter s;
     normalize := normalize s; dti_ast := dti_ast s |}.
Definition set_sampling_period_unit_ (s : dti) (x : tunit) : dti :=
  {| sampling_period := sampling_period s; sampling_period_unit := x; sampling_tolerance := sampling_tolerance s;
     update_counter := update_counter s; previous_time := previous_time s; sampling_violation_counter := sampling_violation_counter s;
     normalize := normalize s; dti_ast := dti_ast s |}.
Definition set_sampling_tolerance_ (s : dti) (x : Q) : dti :=
  {| sampling_period := sampling_period s; sampling_period_unit := sampling_period_unit s; sampling_tolerance := x;
     update_counter := update_counter s; previous_time := previous_time s; sampling_violation_counter := sampling_violation_counter s;
     normalize := normalize s; dti_ast := dti_ast s |}.
Definition set_update_counter_ (s : dti) (x : Z) : dti :=
  {| sampling_period := sampling_period s; sampling_period_unit := sampling_period_unit s; sampling_tolerance := sampling_tolerance s;
     update_counter := x; previous_time := previous_time s; sampling_violation_counter := sampling_violation_counter s;
     normalize := normalize s; dti_ast := dti_ast s |}.
Definition set_previous_time_ (s : dti) (x : Q) : dti :=
  {| sampling_period := sampling_period s; sampling_period_unit := sampling_period_unit s; sampling_tolerance := sampling_tolerance s;
     update_counter := update_counter s; previous_time := x; sampling_violation_counter := sampling_violation_counter s;
     normalize := normalize s; dti_ast := dti_ast s |}.
Definition set_sampling_violation_counter_ (s : dti) (x : Z) : dti :=
  {| sampling_period := sampling_period s; sampling_period_unit := sampling_period_unit s; sampling_tolerance := sampling_tolerance s;
     update_counter := update_counter s; previous_time := previous_time s; sampling_violation_counter := x;
     normalize := normalize s; dti_ast := dti_ast s |}.
Definition set_normalize_ (s : dti) (x : Q) : dti :=
  {| sampling_period := sampling_period s; sampling_period_unit := sampling_period_unit s; sampling_tolerance := sampling_tolerance s;
     update_counter := update_counter s; previous_time := previous_time s; sampling_violation_counter := sampling_violation_counter s;
     normalize := x; dti_ast := dti_ast s |}.
(* the object before __init__ has run: every attribute the model keeps is assigned by __init__ (checked by the translator) *)
Definition dti_blank (a : pyast) : dti :=
  {| sampling_period := 0; sampling_period_unit := US; sampling_tolerance := 0; update_counter := 0; previous_time := 0;
     sampling_violation_counter := 0; normalize := 0; dti_ast := a |}.
