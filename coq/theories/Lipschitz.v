(* Lipschitz.v — C07, second half: the robustness is 1-Lipschitz in the trace
   (sup-distance), for formulas whose predicates compare one variable with a
   constant; hence a perturbation smaller than |rho| keeps the verdict. *)
From Coq Require Import List Bool Arith Lia.
From RV Require Import Val Syntax Rho ListFacts OfflineCorrect Sat.
Import ListNotations.

Section Lipschitz.
Context {VS : Val} (AR : Arith VS).
Let pk : formula -> formula -> pkind := fun _ _ => PStd.

(* "add eps" / "subtract eps" for one fixed eps >= 0, and the constants a predicate may compare with *)
Variables (up dn : V -> V) (okc : V -> Prop).
Record ShiftLaws := {
  up_mono : forall x y, leb x y = true -> leb (up x) (up y) = true;
  dn_mono : forall x y, leb x y = true -> leb (dn x) (dn y) = true;
  dn_le : forall x, leb (dn x) x = true;
  le_up : forall x, leb x (up x) = true;
  neg_up : forall x, neg (up x) = dn (neg x);
  sub_l : forall x x' c, okc c -> leb (dn x) x' = true -> leb x' (up x) = true ->
          leb (dn (a2 AR Sub x c)) (a2 AR Sub x' c) = true /\ leb (a2 AR Sub x' c) (up (a2 AR Sub x c)) = true;
  sub_r : forall x x' c, okc c -> leb (dn x) x' = true -> leb x' (up x) = true ->
          leb (dn (a2 AR Sub c x)) (a2 AR Sub c x') = true /\ leb (a2 AR Sub c x') (up (a2 AR Sub c x)) = true;
  abs_lip : forall v v', leb (dn v) v' = true -> leb v' (up v) = true ->
          leb (dn (a1 AR Abs v)) (a1 AR Abs v') = true /\ leb (a1 AR Abs v') (up (a1 AR Abs v)) = true
}.
Hypothesis SH : ShiftLaws.

Definition close (v v' : V) : Prop := leb (dn v) v' = true /\ leb v' (up v) = true.

Lemma close_refl v : close v v.
Proof. split; [apply (dn_le SH)|apply (le_up SH)]. Qed.
Lemma neg_dn x : neg (dn x) = up (neg x).
Proof.
  rewrite <- (neg_invol (up (neg x))). f_equal. rewrite (neg_up SH), neg_invol. reflexivity.
Qed.
Lemma close_neg v v' : close v v' -> close (neg v) (neg v').
Proof.
  intros [H1 H2]. split.
  - rewrite <- (neg_up SH). rewrite neg_anti_iff. exact H2.
  - rewrite <- neg_dn. rewrite neg_anti_iff. exact H1.
Qed.
Lemma close_vmin a a' b b' : close a a' -> close b b' -> close (vmin a b) (vmin a' b').
Proof.
  intros [A1 A2] [B1 B2]. split.
  - apply vmin_glb. split.
    + eapply leb_trans; [apply (dn_mono SH), vmin_le_l|exact A1].
    + eapply leb_trans; [apply (dn_mono SH), vmin_le_r|exact B1].
  - unfold vmin at 2. destruct (leb a b) eqn:E.
    + eapply leb_trans; [apply vmin_le_l|exact A2].
    + eapply leb_trans; [apply vmin_le_r|exact B2].
Qed.
Lemma close_vmax a a' b b' : close a a' -> close b b' -> close (vmax a b) (vmax a' b').
Proof.
  intros [A1 A2] [B1 B2]. split.
  - unfold vmax at 1. destruct (leb a b) eqn:E.
    + eapply leb_trans; [exact B1|apply vmax_ge_r].
    + eapply leb_trans; [exact A1|apply vmax_ge_l].
  - apply vmax_lub. split.
    + eapply leb_trans; [exact A2|apply (up_mono SH), vmax_ge_l].
    + eapply leb_trans; [exact B2|apply (up_mono SH), vmax_ge_r].
Qed.
Lemma close_maxl {A} (f g : A -> V) l : (forall x, In x l -> close (f x) (g x)) -> close (maxl (map f l)) (maxl (map g l)).
Proof.
  induction l as [|x l IH]; intros H; cbn [map].
  - rewrite !maxl_nil. apply close_refl.
  - rewrite !maxl_cons. apply close_vmax; [apply H; left; reflexivity|apply IH; intros y Hy; apply H; right; exact Hy].
Qed.
Lemma close_minl {A} (f g : A -> V) l : (forall x, In x l -> close (f x) (g x)) -> close (minl (map f l)) (minl (map g l)).
Proof.
  induction l as [|x l IH]; intros H; cbn [map].
  - rewrite !minl_nil. apply close_refl.
  - rewrite !minl_cons. apply close_vmin; [apply H; left; reflexivity|apply IH; intros y Hy; apply H; right; exact Hy].
Qed.
Lemma close_wmax f g lo hi : (forall i, close (f i) (g i)) -> close (wmax f lo hi) (wmax g lo hi).
Proof. intros H. unfold wmax. apply close_maxl. intros i _. apply H. Qed.
Lemma close_wmin f g lo hi : (forall i, close (f i) (g i)) -> close (wmin f lo hi) (wmin g lo hi).
Proof. intros H. unfold wmin. apply close_minl. intros i _. apply H. Qed.
Lemma close_rmin f g lo len : (forall i, close (f i) (g i)) -> close (rmin f lo len) (rmin g lo len).
Proof. intros H. unfold rmin. apply close_minl. intros i _. apply H. Qed.

(* predicates: one variable against one admissible constant; Boolean and temporal structure above (no iff/xor) *)
Fixpoint simple (p : formula) : Prop :=
  match p with
  | Var _ => True
  | Pred _ (Var _) (Const c) | Pred _ (Const c) (Var _) => okc c
  | Not f | Rise f | Fall f | Prev f | SPrev f | Next f | SNext f | Once f | Hist f | Ev f | Alw f
  | OnceT _ _ f | HistT _ _ f | EvT _ _ f | AlwT _ _ f => simple f
  | And f g | Or f g | Implies f g | Since f g | Until f g | SinceT _ _ f g | UntilT _ _ f g => simple f /\ simple g
  | _ => False
  end.

Lemma close_pred c x x' k : okc k -> close x x' -> close (pred_std AR c x k) (pred_std AR c x' k).
Proof.
  intros Hk [H1 H2]. destruct c; cbn [pred_std].
  - apply (sub_r SH); assumption.
  - apply (sub_r SH); assumption.
  - apply (sub_l SH); assumption.
  - apply (sub_l SH); assumption.
  - apply close_neg. destruct (sub_l SH x x' k Hk H1 H2). apply (abs_lip SH); assumption.
  - destruct (sub_l SH x x' k Hk H1 H2). apply (abs_lip SH); assumption.
Qed.
Lemma close_pred_r c x x' k : okc k -> close x x' -> close (pred_std AR c k x) (pred_std AR c k x').
Proof.
  intros Hk [H1 H2]. destruct c; cbn [pred_std].
  - apply (sub_l SH); assumption.
  - apply (sub_l SH); assumption.
  - apply (sub_r SH); assumption.
  - apply (sub_r SH); assumption.
  - apply close_neg. destruct (sub_r SH x x' k Hk H1 H2). apply (abs_lip SH); assumption.
  - destruct (sub_r SH x x' k Hk H1 H2). apply (abs_lip SH); assumption.
Qed.

Variables (w w' : trace) (n : nat).
Hypothesis Hw : forall x i, close (sig w x i) (sig w' x i).

Theorem rho_lipschitz (p : formula) : simple p -> forall t, close (rho AR pk p w n t) (rho AR pk p w' n t).
Proof.
  induction p; intros Hs t; cbn [simple] in Hs; try contradiction; cbn [rho].
  - apply Hw.
  - (* Pred *) destruct p1; try contradiction; destruct p2; try contradiction; cbn [rho pred_val pk].
    + apply close_pred; [exact Hs|apply Hw].
    + apply close_pred_r; [exact Hs|apply Hw].
  - apply close_neg. apply IHp; exact Hs.
  - destruct Hs. apply close_vmin; [apply IHp1|apply IHp2]; assumption.
  - destruct Hs. apply close_vmax; [apply IHp1|apply IHp2]; assumption.
  - destruct Hs. apply close_vmax; [apply close_neg, IHp1|apply IHp2]; assumption.
  - (* Rise *) apply close_vmin; [apply close_neg; destruct t; [apply close_refl|apply IHp; exact Hs]|apply IHp; exact Hs].
  - apply close_vmin; [destruct t; [apply close_refl|apply IHp; exact Hs]|apply close_neg, IHp; exact Hs].
  - destruct t; [apply close_refl|apply IHp; exact Hs].
  - destruct t; [apply close_refl|apply IHp; exact Hs].
  - destruct (S t <? n); [apply IHp; exact Hs|apply close_refl].
  - destruct (S t <? n); [apply IHp; exact Hs|apply close_refl].
  - apply close_wmax. intros i. apply IHp; exact Hs.
  - apply close_wmin. intros i. apply IHp; exact Hs.
  - destruct Hs. apply close_wmax. intros i. apply close_vmin; [apply IHp2; assumption|apply close_wmin; intros j; apply IHp1; assumption].
  - apply close_wmax. intros i. apply IHp; exact Hs.
  - apply close_wmin. intros i. apply IHp; exact Hs.
  - destruct Hs. apply close_wmax. intros i. apply close_vmin; [apply IHp2; assumption|apply close_rmin; intros j; apply IHp1; assumption].
  - destruct (t <? b); [apply close_refl|]. apply close_wmax. intros i. apply IHp; exact Hs.
  - destruct (t <? b); [apply close_refl|]. apply close_wmin. intros i. apply IHp; exact Hs.
  - destruct Hs. destruct (t <? b); [apply close_refl|]. apply close_wmax. intros i.
    apply close_vmin; [apply IHp2; assumption|apply close_wmin; intros j; apply IHp1; assumption].
  - destruct (n <=? t + b); [apply close_refl|]. apply close_wmax. intros i. apply IHp; exact Hs.
  - destruct (n <=? t + b); [apply close_refl|]. apply close_wmin. intros i. apply IHp; exact Hs.
  - destruct Hs. destruct (n <=? t + b); [apply close_refl|]. apply close_wmax. intros i.
    apply close_vmin; [apply IHp2; assumption|apply close_rmin; intros j; apply IHp1; assumption].
Qed.

End Lipschitz.

(* a perturbation smaller than the robustness keeps the verdict *)
Section Robust.
Context {VS : Val} (AR : Arith VS).
Hypothesis SL : SignLaws AR.
Variables (up dn : V -> V) (okc : V -> Prop).
Hypothesis SH : ShiftLaws AR up dn okc.
Variables (w w' : trace) (n : nat).
Hypothesis Hw : forall x i, close up dn (sig w x i) (sig w' x i).

Theorem robust_verdict (p : formula) : simple okc p -> is_bool p = true -> forall t,
  (ltb (azero AR) (dn (rho AR (fun _ _ => PStd) p w n t)) = true -> sat AR p w' n t = true) /\
  (ltb (up (rho AR (fun _ _ => PStd) p w n t)) (azero AR) = true -> sat AR p w' n t = false).
Proof.
  intros Hs Hb t. destruct (rho_lipschitz AR up dn okc SH w w' n Hw p Hs t) as [H1 H2].
  destruct (sat_sound AR SL p w' n Hb t) as [P N]. split; intros H.
  - apply P. unfold pos, ltb in *. destruct (leb (rho AR (fun _ _ => PStd) p w' n t) (azero AR)) eqn:E; [|reflexivity].
    rewrite (leb_trans _ _ _ H1 E) in H. discriminate.
  - apply N. unfold negv, ltb in *. destruct (leb (azero AR) (rho AR (fun _ _ => PStd) p w' n t)) eqn:E; [|reflexivity].
    rewrite (leb_trans _ _ _ E H2) in H. discriminate.
Qed.
End Robust.
