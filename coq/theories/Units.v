(* Units.v — DiscreteTimeInterpreter.time_unit_transformer (as repaired: a
   unit on one end only is inherited by the other end; constants without unit
   use the default unit): bounds as exact rationals with optional units, the
   sampling period with its unit, three outcomes.  Dense-time variant below. *)
From Coq Require Import ZArith QArith Qreduction List Bool Lia.
From RV Require Import Offline.
Local Open Scope Q_scope.

Inductive tunit := US | UMS | UUS | UNS.
Definition uval (u : tunit) : Z :=
  match u with US => 1000000000 | UMS => 1000000 | UUS => 1000 | UNS => 1 end%Z.

Record interval := { ib : Q; ie : Q; ibu : option tunit; ieu : option tunit }.

(* which unit each end is read in; du = ast.unit *)
Definition resolve (du : tunit) (i : interval) : tunit * tunit :=
  match ibu i, ieu i with
  | None, Some e => (e, e)
  | None, None => (du, du)
  | Some b, None => (b, b)
  | Some b, Some e => (b, e)
  end.

(* the duration a bound denotes, in nanoseconds *)
Definition ns (q : Q) (u : tunit) : Q := q * inject_Z (uval u).
Definition begin_ns du i := ns (ib i) (fst (resolve du i)).
Definition end_ns du i := ns (ie i) (snd (resolve du i)).
Definition period_ns (p : Z) (pu : tunit) : Q := inject_Z (p * uval pu).

(* Fraction q is an integer iff its reduced denominator is 1 *)
Definition is_int (q : Q) : bool := Pos.eqb (Qden (Qred q)) 1.
Definition to_nat_q (q : Q) : nat := Z.to_nat (Qnum (Qred q)).

Definition to_samples (du : tunit) (p : Z) (pu : tunit) (i : interval) : outcome (nat * nat) :=
  let b := begin_ns du i / period_ns p pu in
  let e := end_ns du i / period_ns p pu in
  if is_int b && is_int e then Ok (to_nat_q b, to_nat_q e) else Rtamt.

(* dense time (as repaired): the bound expressed in the default unit *)
Definition to_default (du : tunit) (i : interval) : Q * Q :=
  (begin_ns du i / inject_Z (uval du), end_ns du i / inject_Z (uval du)).

Lemma is_int_spec q : is_int q = true -> q == inject_Z (Qnum (Qred q)).
Proof.
  unfold is_int. intros H. apply Pos.eqb_eq in H.
  rewrite <- (Qred_correct q) at 1. destruct (Qred q) as [n d]. simpl in *. subst d. reflexivity.
Qed.

Lemma is_int_ext q1 q2 : q1 == q2 -> is_int q1 = is_int q2.
Proof. intros H. unfold is_int. rewrite (Qred_complete _ _ H). reflexivity. Qed.
Lemma to_nat_q_ext q1 q2 : q1 == q2 -> to_nat_q q1 = to_nat_q q2.
Proof. intros H. unfold to_nat_q. rewrite (Qred_complete _ _ H). reflexivity. Qed.

(* never rounds: the sample counts times the period are exactly the durations *)
Theorem to_samples_exact du p pu i b e :
  (0 < p)%Z -> 0 <= ib i -> 0 <= ie i ->
  to_samples du p pu i = Ok (b, e) ->
  inject_Z (Z.of_nat b) * period_ns p pu == begin_ns du i /\
  inject_Z (Z.of_nat e) * period_ns p pu == end_ns du i.
Proof.
  intros Hp Hb He. unfold to_samples.
  destruct (is_int (begin_ns du i / period_ns p pu)) eqn:E1; [|discriminate].
  destruct (is_int (end_ns du i / period_ns p pu)) eqn:E2; [|discriminate].
  simpl. intros H. injection H as <- <-.
  assert (Hpos : 0 < period_ns p pu).
  { unfold period_ns. change 0 with (inject_Z 0). rewrite <- Zlt_Qlt. destruct pu; simpl; lia. }
  assert (Hn : forall q u, 0 <= q -> 0 <= ns q u / period_ns p pu).
  { intros q u Hq. apply Qle_shift_div_l; [exact Hpos|]. rewrite Qmult_0_l. unfold ns.
    apply Qmult_le_0_compat; [exact Hq|]. change 0 with (inject_Z 0). rewrite <- Zle_Qle. destruct u; simpl; lia. }
  assert (Hz : forall q, 0 <= q -> is_int q = true -> inject_Z (Z.of_nat (to_nat_q q)) == q).
  { intros q Hq Hi. unfold to_nat_q. rewrite Z2Nat.id.
    - symmetry. apply is_int_spec. exact Hi.
    - pose proof (is_int_spec q Hi) as Hs. rewrite Hs in Hq. change 0 with (inject_Z 0) in Hq.
      rewrite <- Zle_Qle in Hq. exact Hq. }
  split.
  - rewrite Hz; [|apply Hn; exact Hb|exact E1]. field. intros Hc. rewrite Hc in Hpos. apply (Qlt_irrefl 0). exact Hpos.
  - rewrite Hz; [|apply Hn; exact He|exact E2]. field. intros Hc. rewrite Hc in Hpos. apply (Qlt_irrefl 0). exact Hpos.
Qed.

(* a bound that is not an integer multiple of the period is rejected *)
Theorem to_samples_reject du p pu i :
  is_int (begin_ns du i / period_ns p pu) = false \/ is_int (end_ns du i / period_ns p pu) = false ->
  to_samples du p pu i = Rtamt.
Proof. unfold to_samples. intros [H|H]; rewrite H; [reflexivity|]. rewrite andb_false_r. reflexivity. Qed.

(* any two notations of the same durations and the same period give the same bounds in samples *)
Theorem to_samples_spelling du1 p1 pu1 i1 du2 p2 pu2 i2 :
  begin_ns du1 i1 == begin_ns du2 i2 -> end_ns du1 i1 == end_ns du2 i2 ->
  period_ns p1 pu1 == period_ns p2 pu2 ->
  to_samples du1 p1 pu1 i1 = to_samples du2 p2 pu2 i2.
Proof.
  intros Hb He Hp. unfold to_samples.
  assert (E1 : begin_ns du1 i1 / period_ns p1 pu1 == begin_ns du2 i2 / period_ns p2 pu2) by (rewrite Hb, Hp; reflexivity).
  assert (E2 : end_ns du1 i1 / period_ns p1 pu1 == end_ns du2 i2 / period_ns p2 pu2) by (rewrite He, Hp; reflexivity).
  rewrite (is_int_ext _ _ E1), (is_int_ext _ _ E2), (to_nat_q_ext _ _ E1), (to_nat_q_ext _ _ E2). reflexivity.
Qed.

(* dense time: the bound in default units times the default unit is the duration;
   a consistent change of notation (same durations, default unit scaled) scales the bound *)
Theorem to_default_exact du i :
  fst (to_default du i) * inject_Z (uval du) == begin_ns du i /\
  snd (to_default du i) * inject_Z (uval du) == end_ns du i.
Proof.
  unfold to_default. simpl. split; field; destruct du; simpl; discriminate.
Qed.
