(* AliasFacts.v — C11, isolation on the alias model: evaluating one specification never changes what another
   specification (or any sequence of other specifications) returns on the same caller data, and the caller's
   data survive any sequence of evaluations. *)
From Coq Require Import List Bool Arith Lia.
From RV Require Import Val Syntax Rho Offline ListFacts Alias.
Import ListNotations.

Section AliasFacts.
Context {VS : Val} (AR : Arith VS).
Variable pk : formula -> formula -> pkind.

(* the store after evaluating a list of specifications one after the other *)
Fixpoint eval_all (m n : nat) (ps : list formula) (s : store) : store :=
  match ps with
  | [] => s
  | p :: ps' => eval_all m n ps' (snd (eval_st AR pk m n p s))
  end.

Lemma eval_all_frame m n ps : forall s, exists ext, eval_all m n ps s = s ++ ext.
Proof.
  induction ps as [|p ps IH]; intros s; cbn [eval_all].
  - exists []. rewrite app_nil_r. reflexivity.
  - destruct (eval_st_frame AR pk m n p s) as [e1 E1]. destruct (IH (snd (eval_st AR pk m n p s))) as [e2 E2].
    exists (e1 ++ e2). rewrite E2, E1, app_assoc. reflexivity.
Qed.

Lemma caller_app m s ext : m <= length s -> caller m (s ++ ext) = caller m s.
Proof.
  intros Hm. unfold caller. rewrite firstn_app. replace (m - length s) with 0 by lia.
  cbn [firstn]. rewrite app_nil_r. reflexivity.
Qed.

(* the caller's data survive any sequence of evaluations *)
Theorem eval_all_caller_untouched m n ps s :
  m <= length s -> caller m (eval_all m n ps s) = caller m s.
Proof. intros Hm. destruct (eval_all_frame m n ps s) as [ext E]. rewrite E. apply caller_app. exact Hm. Qed.

(* isolation: whatever was evaluated before on the same data, q returns what it returns on a fresh store *)
Theorem eval_st_isolated m n ps q s :
  m <= length s -> nvars q <= m ->
  let s1 := eval_all m n ps s in
  read (snd (eval_st AR pk m n q s1)) (fst (eval_st AR pk m n q s1)) = eval_off AR pk q (caller m s) n /\
  read (snd (eval_st AR pk m n q s1)) (fst (eval_st AR pk m n q s1)) = read (snd (eval_st AR pk m n q s)) (fst (eval_st AR pk m n q s)).
Proof.
  intros Hm Hv. cbv zeta. destruct (eval_all_frame m n ps s) as [ext E].
  assert (H1 : read (snd (eval_st AR pk m n q (eval_all m n ps s))) (fst (eval_st AR pk m n q (eval_all m n ps s))) =
               eval_off AR pk q (caller m s) n).
  { rewrite (eval_st_result AR pk m n q (eval_all m n ps s)) by (try rewrite E, app_length; lia).
    rewrite E, caller_app by exact Hm. reflexivity. }
  split; [exact H1|]. rewrite H1. symmetry. apply eval_st_result; assumption.
Qed.

End AliasFacts.
